(* C07 model: zonefile/inplace.rs (SourceBuf, the Scanner impl of EntryScanner,
   the entry layer of Zonefile) and base/scan.rs (Symbol).

   Representation.  SourceBuf{buf,start,cat,has_space,parens} is the record
   [sbuf]; line_num / line_start / current_offset (error positions) are not
   modelled.  `self.buf.get(self.start)` is the head of [rest s] =
   [skipn start buf]; every reader advances [start] by the number of octets it
   consumed.  In-place writes `buf[i] = x` are [set_byte] (Panic 5 when out of
   range), the assertions of next_item / split_to / trim_to / scan_name are
   Panic sites:
     1 next_item "token not completely read"     2 split_to  at <= start
     3 trim_to at <= start                       4 scan_name "missing token prefix space"
     5 index out of bounds on buf[..] = ..       6 usize underflow (start - 1)
     7 integer `res += digit` overflow (debug)   8 unreachable!()
     9 scan_charstr_entry "missing token prefix space"   10 encode_utf8 / slice range
   Error classes (EntryError.msg):
     1 bad symbol  2 bad charstr  3 bad name  4 unbalanced parens
     5 missing last owner  6 missing last class  7 missing origin
     8 expected rtype  9 unknown control  10 different class
     11 unexpected end of entry  12 short buffer  13 trailing tokens
     14 decimal number overflow  15 expected decimal number
     17 expected IPv4 address  18 expected hex digits  19 uneven number of hex digits
     20 expected SshfpAlgorithm  21 expected SshfpType  22 expected TlsaCertificateUsage
     23 expected TlsaSelector  24 expected TlsaMatchingType
     25 trailing Base 64 data  26 illegal Base 64 data  27 incomplete Base 64 data
     28 generic data has incorrect length
     29 illegal NSEC3 salt  30 NSEC3 salt too long  31 illegal Base 32 data
     32 short Base 32 input  33 NSEC3 owner hash too long  34 expected Nsec3HashAlgorithm  35 expected Rtype
     99 record type / syntax outside the model *)
From Coq Require Import NArith List Bool Arith.
From DV Require Import Base.Outcome Base.Bytes C07.Gen.
From DV Require C18.Gen C18.Model C13.Model.
Import ListNotations.
Local Open Scope N_scope.

Definition memN (x : N) (l : list N) : bool := existsb (N.eqb x) l.

(* ------------------------------------------------------------------ Symbol *)

Inductive symbol := SChar (c : N) | SSimple (b : N) | SDec (b : N).

Definition sym_eqb (a b : symbol) : bool :=
  match a, b with
  | SChar x, SChar y | SSimple x, SSimple y | SDec x, SDec y => x =? y
  | _, _ => false
  end.

Inductive symres := SymEnd | SymErr | SymOk (s : symbol) (n : nat).

Definition is_digit (b : N) : bool := (48 <=? b) && (b <=? 57).
Definition is_ascii_control (b : N) : bool := (b <? 32) || (b =? 127).
Definition cont (c : N) : bool := N.land c 192 =? 128.
(* u32 -> char conversion *)
Definition char_ok (v : N) : bool := (v <? 55296) || ((57343 <? v) && (v <? 1114112)).

Definition mkchar (v minv : N) (n : nat) : symres :=
  if v <? minv then SymErr else if char_ok v then SymOk (SChar v) n else SymErr.

(* Symbol::from_slice_index(octets, pos) on the suffix starting at pos.
   Ok(None) = SymEnd, Err(_) = SymErr, Ok(Some((sym, end))) = SymOk sym (end - pos) *)
Definition sym_at (l : list N) : symres :=
  match l with
  | [] => SymEnd
  | c1 :: t =>
    if c1 =? esc_char then
      match t with
      | [] => SymErr
      | c2 :: t2 =>
        if is_ascii_control c2 then SymErr
        else if negb (is_digit c2) then SymOk (SSimple c2) 2
        else match t2 with
             | [] => SymErr
             | c3 :: t3 =>
               if is_digit c3 then
                 match t3 with
                 | [] => SymErr
                 | c4 :: _ =>
                   if is_digit c4 then
                     let v := (c2 - 48) * 100 + (c3 - 48) * 10 + (c4 - 48) in
                     if v <=? 255 then SymOk (SDec v) 4 else SymErr
                   else SymErr
                 end
               else SymErr
             end
      end
    else if c1 <? ascii_bound then SymOk (SChar c1) 1
    else if N.land c1 64 =? 0 then SymErr
    else match t with
         | [] => SymErr
         | c2 :: t2 =>
           if negb (cont c2) then SymErr
           else if N.land c1 32 =? 0 then
             mkchar (N.lor (N.land c2 63) (N.shiftl (N.land c1 31) 6)) utf8_min2 2
           else match t2 with
                | [] => SymErr
                | c3 :: t3 =>
                  if negb (cont c3) then SymErr
                  else if N.land c1 16 =? 0 then
                    mkchar (N.lor (N.land c3 63) (N.lor (N.shiftl (N.land c2 63) 6)
                              (N.shiftl (N.land c1 31) 12))) utf8_min3 3
                  else match t3 with
                       | [] => SymErr
                       | c4 :: _ =>
                         if negb (cont c4) then SymErr
                         else mkchar (N.lor (N.land c4 63) (N.lor (N.shiftl (N.land c3 63) 6)
                                (N.lor (N.shiftl (N.land c2 63) 12) (N.shiftl (N.land c1 15) 18))))
                                utf8_min4 4
                       end
                end
         end
  end.

Definition overlong_rejected : bool :=
  (128 <=? utf8_min2) && (2048 <=? utf8_min3) && (65536 <=? utf8_min4).

Definition is_word_char (s : symbol) : bool :=
  match s with SChar c => negb (memN c word_excluded) | _ => true end.

Definition into_octet (s : symbol) : option N :=
  match s with
  | SChar c => if (c <? 128) && (octet_lo <=? c) && (c <=? octet_hi) then Some c else None
  | SSimple b | SDec b => Some b
  end.

Definition into_ascii (s : symbol) : option N :=
  match s with
  | SChar c => if (c <? 128) && (ascii_lo <=? c) && (c <=? ascii_hi) then Some c else None
  | SSimple b | SDec b => if (ascii_esc_lo <=? b) && (b <=? ascii_esc_hi) then Some b else None
  end.

Definition into_char (s : symbol) : option N :=
  match s with
  | SChar c => Some c
  | SSimple b => if (char_esc_lo <=? b) && (b <? char_esc_hi_excl) then Some b else None
  | SDec _ => None
  end.

Definition into_digit (s : symbol) : option N :=
  match s with
  | SChar c => if is_digit c then Some (c - 48) else None
  | _ => None
  end.

Definition encode_utf8 (c : N) : list N :=
  if c <? 128 then [c]
  else if c <? 2048 then [192 + c / 64; 128 + c mod 64]
  else if c <? 65536 then [224 + c / 4096; 128 + (c / 64) mod 64; 128 + c mod 64]
  else [240 + c / 262144; 128 + (c / 4096) mod 64; 128 + (c / 64) mod 64; 128 + c mod 64].

(* --------------------------------------------------------------- SourceBuf *)

Inductive cat := CNone | CUnq | CQuo | CLF.

Definition is_token (c : cat) : bool := match c with CUnq | CQuo => true | _ => false end.

Record sbuf := mkS { buf : list N; start : nat; scat : cat; hsp : bool; par : nat }.

Definition rest (s : sbuf) : list N := skipn (start s) (buf s).
Definition set_cat (s : sbuf) (c : cat) : sbuf := mkS (buf s) (start s) c (hsp s) (par s).
Definition advance (s : sbuf) (n : nat) : sbuf := mkS (buf s) (start s + n) (scat s) (hsp s) (par s).
Definition with_buf (s : sbuf) (b : list N) : sbuf := mkS b (start s) (scat s) (hsp s) (par s).

(* SourceBuf::with_empty_buf + extend_from_slice *)
Definition init_sbuf (file : list N) : sbuf := mkS (0 :: file) init_start CNone false 0.

Inductive nires := NiErr | NiOk (n : nat) (c : cat) (p : nat) (h : bool).

(* the loop of next_item over the octets from `start`; [incom] = inside the
   inner `while` that skips a comment; [n] counts the octets consumed *)
Fixpoint ni_loop (l : list N) (incom : bool) (p : nat) (h : bool) (n : nat) : nires :=
  match l with
  | [] => NiOk n CNone p h
  | ch :: t =>
    if incom && negb (ch =? ni_comment_end) then ni_loop t true p h (S n)
    else if memN ch ni_space then ni_loop t false p true (S n)
    else if ch =? ni_cr_dead then ni_loop t false p h (S n)
    else if ch =? ni_open then ni_loop t false (S p) h (S n)
    else if ch =? ni_close then
      match p with O => NiErr | S p' => ni_loop t false p' h (S n) end
    else if ch =? ni_comment then ni_loop t true p h (S n)
    else if ch =? ni_newline then
      if Nat.eqb p 0 then NiOk (S n) CLF p h else ni_loop t false p h (S n)
    else if ch =? ni_quote then NiOk (S n) CQuo p h
    else NiOk n CUnq p h
  end.

Definition next_item (s : sbuf) : outcome sbuf :=
  if is_token (scat s) then Panic 1
  else match ni_loop (rest s) false (par s) false 0 with
       | NiErr => Err 4
       | NiOk n c p h => Ok (mkS (buf s) (start s + n) c h p)
       end.

Definition require_token (s : sbuf) : outcome unit :=
  match scat s with CNone => Err 12 | CLF => Err 11 | _ => Ok tt end.

Definition is_line_feed (s : sbuf) : bool := match scat s with CLF => true | _ => false end.

Definition require_line_feed (s : sbuf) : outcome unit :=
  if is_line_feed s then Ok tt else Err 13.

Definition peek_symbol (s : sbuf) : option symbol :=
  match scat s with
  | CNone | CLF => None
  | CUnq => match sym_at (rest s) with
            | SymOk sym _ => if is_word_char sym then Some sym else None
            | _ => None
            end
  | CQuo => match sym_at (rest s) with
            | SymOk sym _ => if sym_eqb sym (SChar 34) then None else Some sym
            | _ => None
            end
  end.

(* _next_symbol(want) *)
Definition next_symbol_gen (want : symbol -> bool) (s : sbuf) : outcome (option symbol * sbuf) :=
  match scat s with
  | CNone | CLF => Ok (None, s)
  | CUnq =>
    match sym_at (rest s) with
    | SymEnd => Err 12
    | SymErr => Err 1
    | SymOk sym n =>
      if negb (is_word_char sym) then Ok (None, set_cat s CNone)
      else if want sym then Ok (Some sym, advance s n)
      else Ok (None, s)
    end
  | CQuo =>
    match sym_at (rest s) with
    | SymEnd => Err 12
    | SymErr => Err 1
    | SymOk sym n =>
      if want sym then
        if sym_eqb sym (SChar 34) then Ok (None, set_cat (advance s n) CNone)
        else Ok (Some sym, advance s n)
      else Ok (None, s)
    end
  end.

Definition next_symbol := next_symbol_gen (fun _ => true).
Definition next_char_symbol :=
  next_symbol_gen (fun sym => match sym with SChar _ => true | _ => false end).

Definition next_ascii_symbol (s : sbuf) : option N * sbuf :=
  match scat s with
  | CNone | CLF => (None, s)
  | c =>
    match rest s with
    | [] => (None, s)
    | ch :: _ =>
      match c with
      | CUnq =>
        if (ch <? asc_lo) || (asc_hi <? ch) || memN ch asc_unq_excluded then (None, s)
        else (Some ch, advance s 1)
      | _ =>
        if ch =? asc_q_end then (None, set_cat (advance s 1) CNone)
        else if (ch <? asc_lo) || (asc_hi <? ch) || memN ch asc_q_excluded then (None, s)
        else (Some ch, advance s 1)
      end
    end
  end.

Definition skip_at_token (s : sbuf) : outcome (bool * sbuf) :=
  match peek_symbol s with
  | Some (SChar 64) =>
    match sym_at (skipn 1 (rest s)) with
    | SymEnd => Err 12
    | SymErr => Err 1
    | SymOk sym n =>
      match scat s with
      | CNone | CLF => Panic 8
      | CUnq =>
        if negb (is_word_char sym) then
          do s' <- next_item (set_cat (advance s 1) CNone); Ok (true, s')
        else Ok (false, s)
      | CQuo =>
        if sym_eqb sym (SChar 34) then
          do s' <- next_item (set_cat (advance s (1 + n)) CNone); Ok (true, s')
        else Ok (false, s)
      end
    end
  | _ => Ok (false, s)
  end.

Definition skip_unknown_marker (s : sbuf) : outcome (bool * sbuf) :=
  match scat s with
  | CUnq =>
    match sym_at (rest s) with
    | SymOk (SSimple 35) n1 =>
      match sym_at (skipn n1 (rest s)) with
      | SymOk sym n2 =>
        if is_word_char sym then Ok (false, s)
        else do s' <- next_item (set_cat (advance s (n1 + n2)) CNone); Ok (true, s')
      | _ => Ok (false, s)
      end
    | _ => Ok (false, s)
    end
  | _ => Ok (false, s)
  end.

Definition split_to (s : sbuf) (at_ : nat) : outcome (list N * sbuf) :=
  if Nat.leb at_ (start s)
  then Ok (firstn at_ (buf s), mkS (skipn at_ (buf s)) (start s - at_) (scat s) (hsp s) (par s))
  else Panic 2.

Definition trim_to (s : sbuf) (at_ : nat) : outcome sbuf :=
  if Nat.leb at_ (start s)
  then Ok (mkS (skipn at_ (buf s)) (start s - at_) (scat s) (hsp s) (par s))
  else Panic 3.

Fixpoint set_byte (l : list N) (i : nat) (v : N) : option (list N) :=
  match l, i with
  | [], _ => None
  | _ :: t, O => Some (v :: t)
  | x :: t, S j => match set_byte t j v with Some t' => Some (x :: t') | None => None end
  end.

Definition store (s : sbuf) (i : nat) (v : N) : outcome sbuf :=
  match set_byte (buf s) i v with Some b => Ok (with_buf s b) | None => Panic 5 end.

Definition fuel_of (s : sbuf) : nat := S (length (buf s)).

(* ------------------------------------------------- Scanner for EntryScanner *)

(* while self.zonefile.buf.next_ascii_symbol()?.is_some() { cnt += 1 } *)
Fixpoint ascii_loop (fuel : nat) (s : sbuf) (cnt : nat) : outcome (sbuf * nat) :=
  match fuel with
  | O => OutOfFuel
  | S f => match next_ascii_symbol s with
           | (None, s') => Ok (s', cnt)
           | (Some _, s') => ascii_loop f s' (S cnt)
           end
  end.

(* while let Some(sym) = next_symbol()? { buf[write] = conv(sym)?; write += 1 } *)
Fixpoint write_loop (conv : symbol -> option N) (fuel : nat) (s : sbuf) (w : nat)
  : outcome (sbuf * nat) :=
  match fuel with
  | O => OutOfFuel
  | S f =>
    do r <- next_symbol s;
    match r with
    | (None, s') => Ok (s', w)
    | (Some sym, s') =>
      match conv sym with
      | None => Err 1
      | Some b => do s'' <- store s' w b; write_loop conv f s'' (S w)
      end
    end
  end.

Definition scan_octets (s : sbuf) : outcome (list N * sbuf) :=
  do _ <- require_token s;
  do s <- trim_to s (start s);
  let is_quoted := match scat s with CQuo => true | _ => false end in
  do sw <- ascii_loop (fuel_of s) s 0;
  let s := fst sw in
  match scat s with
  | CNone =>
    do w <- (if is_quoted then (match start s with O => Panic 6 | S k => Ok k end) else Ok (start s));
    do s <- next_item s;
    split_to s w
  | _ =>
    do sw <- write_loop into_octet (fuel_of s) s (start s);
    do s <- next_item (fst sw);
    split_to s (snd sw)
  end.

(* scan_svcb_octets: like scan_octets, but a quoted token that follows the
   escaped part without white space is appended (key="value") *)
Definition scan_svcb_octets (s : sbuf) : outcome (list N * sbuf) :=
  do _ <- require_token s;
  do s <- trim_to s (start s);
  let is_quoted := match scat s with CQuo => true | _ => false end in
  do sw <- ascii_loop (fuel_of s) s 0;
  let s := fst sw in
  match scat s with
  | CNone =>
    do w <- (if is_quoted then (match start s with O => Panic 6 | S k => Ok k end) else Ok (start s));
    do s <- next_item s;
    split_to s w
  | _ =>
    do sw <- write_loop into_octet (fuel_of s) s (start s);
    do s1 <- next_item (fst sw);
    if negb (hsp s1) && (match scat s1 with CQuo => true | _ => false end) then
      do sw2 <- write_loop into_octet (fuel_of s1) s1 (snd sw);
      do s2 <- next_item (fst sw2);
      split_to s2 (snd sw2)
    else split_to s1 (snd sw)
  end.

(* scan_ascii_str(op) *)
Definition scan_ascii_str {A} (op : list N -> outcome A) (s : sbuf) : outcome (A * sbuf) :=
  do _ <- require_token s;
  do s <- trim_to s (start s);
  do sw <- ascii_loop (fuel_of s) s 0;
  do sw <- (match scat (fst sw) with
            | CNone => Ok sw
            | _ => write_loop into_ascii (fuel_of (fst sw)) (fst sw) (snd sw)
            end);
  do r <- op (firstn (snd sw) (buf (fst sw)));
  do s <- next_item (fst sw);
  Ok (r, s).

Fixpoint char_loop (fuel : nat) (s : sbuf) : outcome sbuf :=
  match fuel with
  | O => OutOfFuel
  | S f => do r <- next_char_symbol s;
           match r with
           | (None, s') => Ok s'
           | (Some _, s') => char_loop f s'
           end
  end.

Fixpoint store_list (s : sbuf) (w : nat) (l : list N) : outcome sbuf :=
  match l with
  | [] => Ok s
  | b :: t => do s' <- store s w b; store_list s' (S w) t
  end.

Fixpoint string_loop (fuel : nat) (s : sbuf) (w : nat) : outcome (sbuf * nat) :=
  match fuel with
  | O => OutOfFuel
  | S f =>
    do r <- next_symbol s;
    match r with
    | (None, s') => Ok (s', w)
    | (Some sym, s') =>
      match into_char sym with
      | None => Err 1
      | Some c =>
        let enc := encode_utf8 c in
        (* encode_utf8(&mut buf[write..start]) *)
        if Nat.leb (w + length enc) (start s')
        then do s'' <- store_list s' w enc; string_loop f s'' (w + length enc)
        else Panic 10
      end
    end
  end.

Definition scan_string (s : sbuf) : outcome (list N * sbuf) :=
  do _ <- require_token s;
  do s <- trim_to s (start s);
  let is_quoted := match scat s with CQuo => true | _ => false end in
  do s <- char_loop (fuel_of s) s;
  let w0 := if string_drops_quote && is_quoted && (match scat s with CNone => true | _ => false end)
            then pred (start s) else start s in
  do sw <- string_loop (fuel_of s) s w0;
  do s <- next_item (fst sw);
  split_to s (snd sw).

Inductive lblres := LNone | LDot | LEnd.

Definition len_octet (w st : nat) : N := N.of_nat (w - st - 1) mod 256.
Definition too_long (w latest : nat) (ge : bool) : bool :=
  if ge then Nat.leb latest w else Nat.ltb latest w.

(* first loop of convert_label (read position = write position) *)
Fixpoint label_ascii_loop (fuel : nat) (s : sbuf) (st w latest : nat)
  : outcome (option lblres * sbuf * nat) :=
  match fuel with
  | O => OutOfFuel
  | S f =>
    match next_ascii_symbol s with
    | (Some ch, s') =>
      if ch =? 46 then do s'' <- store s' st (len_octet w st); Ok (Some LDot, s'', w)
      else if too_long (S w) latest label_latest_ge then Err 3
      else label_ascii_loop f s' st (S w) latest
    | (None, s') => Ok (None, s', w)
    end
  end.

Fixpoint label_sym_loop (fuel : nat) (s : sbuf) (st w latest : nat)
  : outcome (lblres * sbuf * nat) :=
  match fuel with
  | O => OutOfFuel
  | S f =>
    do r <- next_symbol s;
    match r with
    | (None, s') =>
      if Nat.ltb (st + 1) w
      then do s'' <- store s' st (len_octet w st); Ok (LEnd, s'', w)
      else Ok (LNone, s', st)
    | (Some sym, s') =>
      if sym_eqb sym (SChar 46)
      then do s'' <- store s' st (len_octet w st); Ok (LDot, s'', w)
      else match into_octet sym with
           | None => Err 1
           | Some b =>
             do s'' <- store s' w b;
             if too_long (S w) latest label_latest_ge then Err 3
             else label_sym_loop f s'' st (S w) latest
           end
    end
  end.

Definition convert_label (s : sbuf) (w : nat) : outcome (lblres * sbuf * nat) :=
  let st := w in
  let w := S w in
  let latest := (w + label_latest)%nat in
  if Nat.eqb w (start s) then
    do r <- label_ascii_loop (fuel_of s) s st w latest;
    match r with
    | (Some res, s', w') => Ok (res, s', w')
    | (None, s', w') => label_sym_loop (fuel_of s') s' st w' latest
    end
  else label_sym_loop (fuel_of s) s st w latest.

Definition chain (rel org : list N) : outcome (list N) :=
  if Nat.ltb chain_max (length rel + length org) then Err 3 else Ok (rel ++ org).

Definition get_origin (origin : option (list N)) : outcome (list N) :=
  match origin with Some o => Ok o | None => Err 7 end.

Fixpoint name_loop (fuel : nat) (origin : option (list N)) (s : sbuf) (w : nat)
  : outcome (list N * sbuf) :=
  match fuel with
  | O => OutOfFuel
  | S f =>
    let st := w in
    do r <- convert_label s w;
    match r with
    | (LNone, s, w) =>
      do s <- next_item s;
      if Nat.eqb st 0 then
        do o <- get_origin origin; do n <- chain [] o; Ok (n, s)
      else
        do rs <- split_to s w; do n <- chain (fst rs) [0]; Ok (n, snd rs)
    | (LDot, s, w) =>
      if Nat.eqb w 1 then
        do r <- next_symbol s;
        match r with
        | (Some _, _) => Err 3
        | (None, s) => do s <- next_item s; Ok ([0], s)
        end
      else if name_rejects_empty_label && Nat.eqb w (S st) then Err 3
      else if (if name_max_ge then Nat.leb name_max w else Nat.ltb name_max w) then Err 3
      else name_loop f origin s w
    | (LEnd, s, w) =>
      do s <- next_item s;
      do rs <- split_to s w;
      do o <- get_origin origin;
      do n <- chain (fst rs) o;
      Ok (n, snd rs)
    end
  end.

Definition scan_name (origin : option (list N)) (s : sbuf) : outcome (list N * sbuf) :=
  do _ <- require_token s;
  do bs <- (if scan_name_handles_at then skip_at_token s else Ok (false, s));
  if fst bs then
    do o <- get_origin origin; do n <- chain [] o; Ok (n, snd bs)
  else
    let s := snd bs in
    match start s with
    | O => Panic 4
    | S k => do s <- trim_to s k; name_loop (fuel_of s) origin s 0
    end.

Fixpoint charstr_ascii_loop (fuel : nat) (s : sbuf) (w latest : nat) : outcome (sbuf * nat) :=
  match fuel with
  | O => OutOfFuel
  | S f =>
    match next_ascii_symbol s with
    | (Some _, s') =>
      if too_long (S w) latest charstr_latest_ge then Err 2
      else charstr_ascii_loop f s' (S w) latest
    | (None, s') => Ok (s', w)
    end
  end.

Fixpoint charstr_sym_loop (fuel : nat) (s : sbuf) (st w latest : nat) : outcome (sbuf * nat) :=
  match fuel with
  | O => OutOfFuel
  | S f =>
    do r <- next_symbol s;
    match r with
    | (None, s') =>
      do s'' <- next_item s';
      do s3 <- store s'' st (len_octet w st);
      Ok (s3, w)
    | (Some sym, s') =>
      match into_octet sym with
      | None => Err 1
      | Some b =>
        do s'' <- store s' w b;
        if too_long (S w) latest charstr_latest_ge then Err 2
        else charstr_sym_loop f s'' st (S w) latest
      end
    end
  end.

Definition convert_charstr (s : sbuf) (w : nat) : outcome (sbuf * nat) :=
  do _ <- (if charstr_requires_token then require_token s else Ok tt);
  let st := w in
  let w := S w in
  let latest := (w + charstr_latest)%nat in
  do sw <- (if Nat.eqb w (start s) then charstr_ascii_loop (fuel_of s) s w latest else Ok (s, w));
  charstr_sym_loop (fuel_of (fst sw)) (fst sw) st (snd sw) latest.

Fixpoint charstr_entry_loop (fuel : nat) (s : sbuf) (w : nat) : outcome (sbuf * nat) :=
  match fuel with
  | O => OutOfFuel
  | S f =>
    do sw <- convert_charstr s w;
    if is_line_feed (fst sw) then Ok sw else charstr_entry_loop f (fst sw) (snd sw)
  end.

Definition scan_charstr_entry (s : sbuf) : outcome (list N * sbuf) :=
  match start s with
  | O => Panic 9
  | S k =>
    do s <- trim_to s k;
    (* every iteration writes one more length octet: the buffer bounds the loop *)
    do sw <- charstr_entry_loop (S (fuel_of s)) s 0;
    split_to (fst sw) (snd sw)
  end.

(* <uN as Scan>::scan / Ttl::scan via scan_symbols *)
Fixpoint uint_loop (fuel : nat) (maxv : N) (checked : bool) (s : sbuf) (res : N)
  : outcome (N * sbuf) :=
  match fuel with
  | O => OutOfFuel
  | S f =>
    do r <- next_symbol s;
    match r with
    | (None, s') => Ok (res, s')
    | (Some sym, s') =>
      if maxv <? res * 10 then Err 14
      else match into_digit sym with
           | None => Err 15
           | Some d =>
             if maxv <? res * 10 + d then (if checked then Err 14 else Panic 7)
             else uint_loop f maxv checked s' (res * 10 + d)
           end
    end
  end.

Definition scan_uint (maxv : N) (checked : bool) (s : sbuf) : outcome (N * sbuf) :=
  do _ <- require_token s;
  do rs <- uint_loop (fuel_of s) maxv checked s 0;
  do s <- next_item (snd rs);
  Ok (fst rs, s).

(* convert_entry / convert_one_token / append_data with utils::base16::SymbolConverter *)
Record hexst := mkH { h_pending : bool; h_buf : N }.

(* char::to_digit(16) *)
Definition hex_digit (c : N) : option N :=
  if (48 <=? c) && (c <=? 57) then Some (c - 48)
  else if (65 <=? c) && (c <=? 70) then Some (c - 55)
  else if (97 <=? c) && (c <=? 102) then Some (c - 87)
  else None.

Definition hex_process (h : hexst) (sym : symbol) : outcome (hexst * list N) :=
  match into_char sym with
  | None => Err 18
  | Some c =>
    match hex_digit c with
    | None => Err 18
    | Some d =>
      if h_pending h then Ok (mkH false (N.lor (h_buf h) d), [N.lor (h_buf h) d])
      else Ok (mkH true ((d * 16) mod 256), [])
    end
  end.

Definition hex_tail (h : hexst) : outcome unit := if h_pending h then Err 19 else Ok tt.

(* append_data(data, write, builder) *)
Definition append_data (s : sbuf) (data : list N) (w : nat) (b : option (list N))
  : outcome (sbuf * nat * option (list N)) :=
  match b with
  | Some bl => Ok (s, w, Some (bl ++ data))
  | None =>
    let nw := (w + length data)%nat in
    if Nat.ltb (start s) nw then
      if Nat.leb w (length (buf s)) then Ok (s, w, Some (firstn w (buf s) ++ data)) else Panic 10
    else do s' <- store_list s w data; Ok (s', nw, None)
  end.

(* utils::base64::SymbolConverter: the C18 model of process_char / process_tail,
   with its error classes mapped to the EntryError messages *)
Definition b64_err {A} (o : outcome A) : outcome A :=
  match o with
  | Err e => if e =? C18.Model.E_TRAILING then Err 25
             else if e =? C18.Model.E_SHORT then Err 27 else Err 26
  | x => x
  end.

Definition b64_process (c : C18.Model.conv64) (sym : symbol) : outcome (C18.Model.conv64 * list N) :=
  match into_char sym with
  | None => Err 26
  | Some ch => b64_err (C18.Model.c64_process_char c ch)
  end.

Definition b64_tail (c : C18.Model.conv64) : outcome unit :=
  do _ <- b64_err (C18.Model.c64_process_tail c); Ok tt.

Section Convert.
Variable St : Type.
Variable process : St -> symbol -> outcome (St * list N).
Variable tail : St -> outcome unit.

Fixpoint convert_token_loop (fuel : nat) (h : St) (s : sbuf) (w : nat) (b : option (list N))
  : outcome (St * sbuf * nat * option (list N)) :=
  match fuel with
  | O => OutOfFuel
  | S f =>
    do r <- next_symbol s;
    match r with
    | (None, s') => Ok (h, s', w, b)
    | (Some sym, s') =>
      do hd <- process h sym;
      match snd hd with
      | [] => convert_token_loop f (fst hd) s' w b
      | data => do a <- append_data s' data w b;
                let '(s'', w', b') := a in convert_token_loop f (fst hd) s'' w' b'
      end
    end
  end.

Fixpoint convert_entry_loop (fuel : nat) (h : St) (s : sbuf) (w : nat) (b : option (list N))
  : outcome (St * sbuf * nat * option (list N)) :=
  match fuel with
  | O => OutOfFuel
  | S f =>
    if is_line_feed s then Ok (h, s, w, b)
    else
      do _ <- require_token s;
      do r <- convert_token_loop (fuel_of s) h s w b;
      let '(h', s', w', b') := r in
      do s'' <- next_item s';
      convert_entry_loop f h' s'' w' b'
  end.

Definition convert_entry (init : St) (s : sbuf) : outcome (list N * sbuf) :=
  do r <- convert_entry_loop (fuel_of s) init s 0 None;
  let '(h, s', w, b) := r in
  do _ <- tail h;
  match b with
  | Some bl => Ok (bl, s')
  | None => split_to s' w
  end.
End Convert.

(* convert_token: a single token through a converter whose process_tail may
   hand back data (appended after convert_one_token has called next_item) *)
Section ConvertToken.
Variable St : Type.
Variable process : St -> symbol -> outcome (St * list N).
Variable tail_data : St -> outcome (list N).

Definition convert_token (init : St) (s : sbuf) : outcome (list N * sbuf) :=
  do _ <- require_token s;
  do r <- convert_token_loop St process (fuel_of s) init s 0 None;
  let '(h, s1, w, b) := r in
  do s2 <- next_item s1;
  do data <- tail_data h;
  do a <- (match data with [] => Ok (s2, w, b) | _ => append_data s2 data w b end);
  let '(s3, w3, b3) := a in
  match b3 with Some bl => Ok (bl, s3) | None => split_to s3 w3 end.
End ConvertToken.

(* Nsec3Salt::scan: `-` for the empty salt, else Base 16 with at most 255 octets *)
Inductive saltst := SaltNew | SaltEmpty | SaltHex (h : hexst) (len : nat).

Definition salt_hex (h : hexst) (len : nat) (sym : symbol) : outcome (saltst * list N) :=
  do r <- hex_process h sym;
  let len' := (len + length (snd r))%nat in
  if Nat.ltb 255 len' then Err 30 else Ok (SaltHex (fst r) len', snd r).

Definition salt_process (st : saltst) (sym : symbol) : outcome (saltst * list N) :=
  match st with
  | SaltNew => match into_char sym with
               | Some 45 => Ok (SaltEmpty, [])
               | _ => salt_hex (mkH false 0) 0 sym
               end
  | SaltEmpty => Err 29
  | SaltHex h len => salt_hex h len sym
  end.

Definition salt_tail (st : saltst) : outcome (list N) :=
  match st with SaltHex h _ => do _ <- hex_tail h; Ok [] | _ => Ok [] end.

(* OwnerHash::scan: the Base 32 converter (C18 model) with a 255 octet limit *)
Definition b32_err {A} (o : outcome A) : outcome A :=
  match o with
  | Err e => if e =? C18.Model.E_SHORT then Err 32 else Err 31
  | x => x
  end.

Definition hash_check {A} (len : nat) (data : list N) (k : nat -> outcome A) : outcome A :=
  let len' := (len + length data)%nat in if Nat.ltb 255 len' then Err 33 else k len'.

Definition hash_process (st : C18.Model.conv32 * nat) (sym : symbol)
  : outcome (C18.Model.conv32 * nat * list N) :=
  match into_char sym with
  | None => Err 31
  | Some ch =>
    do r <- b32_err (C18.Model.c32_process_char (fst st) ch);
    hash_check (snd st) (snd r) (fun len' => Ok (fst r, len', snd r))
  end.

Definition hash_tail (st : C18.Model.conv32 * nat) : outcome (list N) :=
  do data <- b32_err (C18.Model.c32_process_tail (fst st));
  hash_check (snd st) data (fun _ => Ok data).

Definition convert_token_salt := convert_token saltst salt_process salt_tail SaltNew.
Definition convert_token_hash :=
  convert_token (C18.Model.conv32 * nat) hash_process hash_tail (C18.Model.c32_new, 0%nat).

Definition convert_entry_hex := convert_entry hexst hex_process hex_tail (mkH false 0).
Definition convert_entry_b64 := convert_entry C18.Model.conv64 b64_process b64_tail C18.Model.c64_new.

(* ------------------------------------------------------------- FromStr impls *)

(* <u32 as FromStr>::from_str: optional '+', at least one digit, no overflow *)
Fixpoint digits_val (l : list N) (acc : N) (maxv : N) : option N :=
  match l with
  | [] => Some acc
  | c :: t => if is_digit c then
                let v := acc * 10 + (c - 48) in
                if maxv <? v then None else digits_val t v maxv
              else None
  end.

Definition parse_uint (maxv : N) (l : list N) : option N :=
  match l with
  | [] => None
  | c :: t => if c =? 43 then (match t with [] => None | _ => digits_val t 0 maxv end)
              else digits_val l 0 maxv
  end.

Fixpoint from_mnemonic (tbl : list (list N * N)) (s : list N) : option N :=
  match tbl with
  | [] => None
  | (m, v) :: t => if eq_ci s m then Some v else from_mnemonic t s
  end.

Definition from_str_prefixed (tbl : list (list N * N)) (prefix : list N) (s : list N) : option N :=
  match from_mnemonic tbl s with
  | Some v => Some v
  | None =>
    if Nat.ltb (length prefix) (length s) then
      if eq_ci (firstn (length prefix) s) prefix
      then parse_uint 65535 (skipn (length prefix) s)
      else None
    else None
  end.

Definition rtype_from_str := from_str_prefixed rtype_table rtype_prefix.
Definition class_from_str := from_str_prefixed class_table class_prefix.

(* Ipv4Addr::from_str on the octets of the token *)
Fixpoint split_dots (l : list N) (cur : list N) : list (list N) :=
  match l with
  | [] => [rev cur]
  | c :: t => if c =? 46 then rev cur :: split_dots t [] else split_dots t (c :: cur)
  end.

Definition ipv4_octet (l : list N) : option N :=
  match l with
  | [] => None
  | [c] => if is_digit c then Some (c - 48) else None
  | c :: _ => if c =? 48 then None
              else if Nat.ltb 3 (length l) then None else digits_val l 0 255
  end.

Definition parse_ipv4 (l : list N) : option (list N) :=
  match map ipv4_octet (split_dots l []) with
  | [Some a; Some b; Some c; Some d] => Some [a; b; c; d]
  | _ => None
  end.

(* ------------------------------------------------------------ entry layer *)

Record zstate := mkZ {
  origin : option (list N);
  last_owner : option (list N);
  last_ttl : N;
  dollar_ttl : option N;
  last_class : option N }.

Definition init_zstate : zstate := mkZ None None default_ttl None None.

Inductive entry :=
| ERecord (owner : list N) (class ttl rtype : N) (rdata : list N)
| EInclude (path : list N) (org : option (list N)).

Inductive scanned := SEntry (e : entry) | SOrigin (o : list N) | STtl (t : N) | SEmpty | SEof.

(* class / TTL / owner inheritance, exactly the match arms of scan_owner_record
   (require_valid = true) *)
Definition resolve_class (cls : option N) (zs : zstate) : outcome (N * zstate) :=
  match cls, last_class zs with
  | Some c, Some lc => if c =? lc then Ok (c, zs) else Err 10
  | None, Some lc => Ok (lc, zs)
  | Some c, None => Ok (c, mkZ (origin zs) (last_owner zs) (last_ttl zs) (dollar_ttl zs) (Some c))
  | None, None => Err 6
  end.

Definition resolve_ttl (ttl : option N) (zs : zstate) : N * zstate :=
  match ttl with
  | Some t => (t, mkZ (origin zs) (last_owner zs) t (dollar_ttl zs) (last_class zs))
  | None => (match dollar_ttl zs with Some d => d | None => last_ttl zs end, zs)
  end.

Definition set_owner (zs : zstate) (o : list N) : zstate :=
  mkZ (origin zs) (Some o) (last_ttl zs) (dollar_ttl zs) (last_class zs).

Inductive ctr := CtrClass (c : N) | CtrTtl (t : N) | CtrRtype (r : N).

Definition expected_rtype {A} (o : option A) : outcome A :=
  match o with Some a => Ok a | None => Err 8 end.

Definition scan_ctr (s : sbuf) : outcome (option N * option N * N * sbuf) :=
  do fs <- scan_ascii_str (fun str =>
      match parse_uint 4294967295 str with
      | Some t => Ok (CtrTtl t)
      | None => match rtype_from_str str with
                | Some r => Ok (CtrRtype r)
                | None => match class_from_str str with
                          | Some c => Ok (CtrClass c)
                          | None => Err 8
                          end
                end
      end) s;
  match fs with
  | (CtrTtl ttl, s) =>
    do ss <- scan_ascii_str (fun str =>
        match rtype_from_str str with
        | Some r => Ok (inl r)
        | None => match class_from_str str with Some c => Ok (inr c) | None => Err 8 end
        end) s;
    match ss with
    | (inr cls, s) =>
      do rs <- scan_ascii_str (fun str => expected_rtype (rtype_from_str str)) s;
      Ok (Some cls, Some ttl, fst rs, snd rs)
    | (inl r, s) => Ok (None, Some ttl, r, s)
    end
  | (CtrClass cls, s) =>
    do ss <- scan_ascii_str (fun str =>
        match parse_uint 4294967295 str with
        | Some t => Ok (inr t)
        | None => match rtype_from_str str with Some r => Ok (inl r) | None => Err 8 end
        end) s;
    match ss with
    | (inr ttl, s) =>
      do rs <- scan_ascii_str (fun str => expected_rtype (rtype_from_str str)) s;
      Ok (Some cls, Some ttl, fst rs, snd rs)
    | (inl r, s) => Ok (Some cls, None, r, s)
    end
  | (CtrRtype r, s) => Ok (None, None, r, s)
  end.

(* record data: the presentation schema of the modelled types as a sequence of
   Scanner calls, result = wire format of the record data *)
Inductive field := FName | FU16 | FU32 | FTtl | FCharstr | FCharstrEntry | FIpv4
  | FU8Str (err : N) | FHexEntry | FB64Entry | FU8 | FSalt | FHash | FBitmap.

Definition schema (rtype : N) : option (list field) :=
  if rtype =? 1 then Some [FIpv4]
  else if (rtype =? 2) || (rtype =? 5) || (rtype =? 12) || (rtype =? 3) || (rtype =? 4) || (rtype =? 7)
          || (rtype =? 8) || (rtype =? 9) || (rtype =? 39) then Some [FName]
  else if (rtype =? 14) || (rtype =? 17) then Some [FName; FName]
  else if rtype =? 61 then Some [FB64Entry]
  else if rtype =? 51 then Some [FU8Str 34; FU8; FU16; FSalt]
  else if rtype =? 50 then Some [FU8Str 34; FU8; FU16; FSalt; FHash; FBitmap]
  else if rtype =? 47 then Some [FName; FBitmap]
  else if rtype =? 44 then Some [FU8Str 20; FU8Str 21; FHexEntry]
  else if rtype =? 52 then Some [FU8Str 22; FU8Str 23; FU8Str 24; FHexEntry]
  else if rtype =? 6 then Some [FName; FName; FU32; FTtl; FTtl; FTtl; FTtl]
  else if rtype =? 13 then Some [FCharstr; FCharstr]
  else if rtype =? 15 then Some [FU16; FName]
  else if rtype =? 16 then Some [FCharstrEntry]
  else if rtype =? 33 then Some [FU16; FU16; FU16; FName]
  else if rtype =? 35 then Some [FU16; FU16; FCharstr; FCharstr; FCharstr; FName]
  else None.

(* RtypeBitmap::scan with its value: the types named until the end of the
   entry, added to the bitmap builder (C13 model of RtypeBitmapBuilder) *)
Fixpoint scan_bitmap (fuel : nat) (s : sbuf) (bs : list C13.Model.block) : outcome (list N * sbuf) :=
  match fuel with
  | O => OutOfFuel
  | S f =>
    if is_token (scat s) then
      do r <- scan_ascii_str (fun str => match rtype_from_str str with Some t => Ok t | None => Err 35 end) s;
      scan_bitmap f (snd r) (C13.Model.bm_add bs (fst r))
    else Ok (C13.Model.bm_finalize bs, s)
  end.

Definition scan_field (origin : option (list N)) (f : field) (s : sbuf) : outcome (list N * sbuf) :=
  match f with
  | FName => scan_name origin s
  | FU16 => do r <- scan_uint 65535 int_add_checked s; Ok (be16 (fst r), snd r)
  | FU32 => do r <- scan_uint 4294967295 int_add_checked s; Ok (be32 (fst r), snd r)
  | FTtl => do r <- scan_uint 4294967295 ttl_add_checked s; Ok (be32 (fst r), snd r)
  | FCharstr =>
    do r <- scan_octets s;
    if Nat.ltb 255 (length (fst r)) then Err 2
    else Ok (N.of_nat (length (fst r)) :: fst r, snd r)
  | FCharstrEntry => scan_charstr_entry s
  | FIpv4 =>
    do r <- scan_octets s;
    match parse_ipv4 (fst r) with Some a => Ok (a, snd r) | None => Err 17 end
  | FU8Str e =>
    do r <- scan_ascii_str (fun str => match parse_uint 255 str with Some v => Ok v | None => Err e end) s;
    Ok ([fst r], snd r)
  | FHexEntry => convert_entry_hex s
  | FB64Entry => convert_entry_b64 s
  | FU8 => do r <- scan_uint 255 int_add_checked s; Ok ([fst r], snd r)
  | FSalt => do r <- convert_token_salt s; Ok (N.of_nat (length (fst r)) :: fst r, snd r)
  | FHash => do r <- convert_token_hash s; Ok (N.of_nat (length (fst r)) :: fst r, snd r)
  | FBitmap => scan_bitmap (S (length (buf s))) s []
  end.

Fixpoint scan_fields (origin : option (list N)) (fs : list field) (s : sbuf) (acc : list N)
  : outcome (list N * sbuf) :=
  match fs with
  | [] => Ok (acc, s)
  | f :: t => do r <- scan_field origin f s; scan_fields origin t (snd r) (acc ++ fst r)
  end.

Definition scan_rdata (origin : option (list N)) (rtype : N) (s : sbuf) : outcome (list N * sbuf) :=
  do ms <- skip_unknown_marker s;
  if fst ms then
    (* UnknownRecordData::scan_without_marker *)
    do ls <- scan_uint 65535 int_add_checked (snd ms);
    do ds <- convert_entry_hex (snd ls);
    if N.of_nat (length (fst ds)) =? fst ls then Ok ds else Err 28
  else match schema rtype with
       | Some fs => scan_fields origin fs (snd ms) []
       | None => Err 99
       end.

(* A record type's scan as a sequence of Scanner-method calls (results dropped):
   the protocol whose invariant makes every assertion unreachable.  MAscii is
   scan_ascii_str with a closure that accepts everything (a closure that
   rejects only ends the scan earlier). *)
Inductive meth := MName | MOctets | MCharstr | MAscii | MUint (maxv : N) (checked : bool)
  | MCharstrEntry | MHexEntry | MB64Entry | MWhileAscii | MSaltToken | MHashToken | MWhileSvcb.

(* RtypeBitmap::scan: `while scanner.continues() { Rtype::scan(scanner)? }` *)
Fixpoint while_ascii (fuel : nat) (s : sbuf) : outcome sbuf :=
  match fuel with
  | O => OutOfFuel
  | S f => if is_token (scat s)
           then do r <- scan_ascii_str (fun _ => Ok tt) s; while_ascii f (snd r)
           else Ok s
  end.

(* SvcParams::scan: `while scanner.continues() { scanner.scan_svcb_octets()?; .. }`
   (value_from_scan_octets only asks the scanner for an octets builder) *)
Fixpoint while_svcb (fuel : nat) (s : sbuf) : outcome sbuf :=
  match fuel with
  | O => OutOfFuel
  | S f => if is_token (scat s)
           then do r <- scan_svcb_octets s; while_svcb f (snd r)
           else Ok s
  end.

Definition run_meth (origin : option (list N)) (m : meth) (s : sbuf) : outcome sbuf :=
  match m with
  | MName => do r <- scan_name origin s; Ok (snd r)
  | MOctets => do r <- scan_octets s; Ok (snd r)
  | MCharstr => do r <- scan_octets s; if Nat.ltb 255 (length (fst r)) then Err 2 else Ok (snd r)
  | MAscii => do r <- scan_ascii_str (fun _ => Ok tt) s; Ok (snd r)
  | MUint maxv chk => do r <- scan_uint maxv chk s; Ok (snd r)
  | MCharstrEntry => do r <- scan_charstr_entry s; Ok (snd r)
  | MHexEntry => do r <- convert_entry_hex s; Ok (snd r)
  | MB64Entry => do r <- convert_entry_b64 s; Ok (snd r)
  | MWhileAscii => while_ascii (S (length (buf s))) s
  | MSaltToken => do r <- convert_token_salt s; Ok (snd r)
  | MHashToken => do r <- convert_token_hash s; Ok (snd r)
  | MWhileSvcb => while_svcb (S (length (buf s))) s
  end.

(* the method codes of Gen.type_scans (written by T1 from each type's scan) *)
Definition decode_meth (c : N) : option meth :=
  if c =? 1 then Some MName else if c =? 2 then Some MOctets else if c =? 3 then Some MCharstr
  else if c =? 4 then Some MAscii
  else if c =? 5 then Some (MUint 255 int_add_checked)
  else if c =? 6 then Some (MUint 65535 int_add_checked)
  else if c =? 7 then Some (MUint 4294967295 int_add_checked)
  else if c =? 8 then Some (MUint 4294967295 ttl_add_checked)
  else if c =? 9 then Some MCharstrEntry else if c =? 10 then Some MHexEntry
  else if c =? 11 then Some MB64Entry else if c =? 12 then Some MWhileAscii
  else if c =? 13 then Some MSaltToken else if c =? 14 then Some MHashToken
  else if c =? 15 then Some MWhileSvcb else None.

Fixpoint decode_meths (l : list N) : option (list meth) :=
  match l with
  | [] => Some []
  | c :: t => match decode_meth c, decode_meths t with
              | Some m, Some ms => Some (m :: ms)
              | _, _ => None
              end
  end.

Definition field_code (f : field) : N :=
  match f with
  | FName => 1 | FIpv4 => 2 | FCharstr => 3 | FU8Str _ => 4 | FU16 => 6 | FU32 => 7 | FTtl => 8
  | FCharstrEntry => 9 | FHexEntry => 10 | FB64Entry => 11 | FU8 => 5 | FSalt => 13
  | FHash => 14 | FBitmap => 12
  end.

Fixpoint run_meths (origin : option (list N)) (ms : list meth) (s : sbuf) : outcome sbuf :=
  match ms with
  | [] => Ok s
  | m :: t => do s' <- run_meth origin m s; run_meths origin t s'
  end.

(* ZoneRecordData::scan: the RFC 3597 marker first (then UnknownRecordData:
   a u16 length and hex data), else the type's own sequence *)
Definition run_type_scan (origin : option (list N)) (ms : list meth) (s : sbuf) : outcome sbuf :=
  do b <- skip_unknown_marker s;
  if fst b then run_meths origin [MUint 65535 int_add_checked; MHexEntry] (snd b)
  else run_meths origin ms (snd b).

Definition scan_owner_record (zs : zstate) (s : sbuf) (owner : list N) (new_owner : bool)
  : outcome (scanned * zstate * sbuf) :=
  do c <- scan_ctr s;
  let '(cls, ttl, rtype, s) := c in
  let zs := if new_owner then set_owner zs owner else zs in
  do cz <- resolve_class cls zs;
  let tz := resolve_ttl ttl (snd cz) in
  do ds <- scan_rdata (origin zs) rtype s;
  do _ <- require_line_feed (snd ds);
  Ok (SEntry (ERecord owner (fst cz) (fst tz) rtype (fst ds)), snd tz, snd ds).

Definition scan_uint_entry (s : sbuf) := scan_uint 4294967295 int_add_checked s.

Definition scan_control (zs : zstate) (s : sbuf) : outcome (scanned * zstate * sbuf) :=
  do cs <- scan_string s;
  let (ctrl, s) := cs in
  if eq_ci ctrl [36; 79; 82; 73; 71; 73; 78] then
    do ns <- scan_name (origin zs) s;
    do _ <- require_line_feed (snd ns);
    Ok (SOrigin (fst ns), zs, snd ns)
  else if eq_ci ctrl [36; 73; 78; 67; 76; 85; 68; 69] then
    do ps <- scan_string s;
    let (path, s) := ps in
    if negb (is_line_feed s) then
      do ns <- scan_name (origin zs) s;
      do _ <- require_line_feed (snd ns);
      Ok (SEntry (EInclude path (Some (fst ns))), zs, snd ns)
    else Ok (SEntry (EInclude path None), zs, s)
  else if eq_ci ctrl [36; 84; 84; 76] then
    do ts <- scan_uint_entry s;
    do _ <- require_line_feed (snd ts);
    Ok (STtl (fst ts), zs, snd ts)
  else Err 9.

Definition scan_entry (zs : zstate) (s : sbuf) : outcome (scanned * zstate * sbuf) :=
  do s <- next_item s;
  match scat s with
  | CNone => Ok (SEof, zs, s)
  | CLF => Ok (SEmpty, zs, s)
  | _ =>
    if hsp s then
      match last_owner zs with
      | Some o => scan_owner_record zs s o false
      | None => Err 5
      end
    else match peek_symbol s with
         | Some (SChar 36) => scan_control zs s
         | _ =>
           do bs <- skip_at_token s;
           if fst bs then
             do o <- get_origin (origin zs);
             scan_owner_record zs (snd bs) o true
           else
             do os <- scan_name (origin zs) (snd bs);
             scan_owner_record zs (snd os) (fst os) true
         end
  end.

Inductive ending := EEof | EErr (e : N) | EPanic (site : N) | EFuel.

(* Zonefile::next_entry called until Ok(None) or the first Err *)
Fixpoint read_loop (fuel : nat) (zs : zstate) (s : sbuf) (acc : list entry) : list entry * ending :=
  match fuel with
  | O => (rev acc, EFuel)
  | S f =>
    match scan_entry zs s with
    | Ok (SEntry e, zs, s) => read_loop f zs s (e :: acc)
    | Ok (SOrigin o, zs, s) =>
      read_loop f (mkZ (Some o) (last_owner zs) (last_ttl zs) (dollar_ttl zs) (last_class zs)) s acc
    | Ok (STtl t, zs, s) =>
      read_loop f (mkZ (origin zs) (last_owner zs) (last_ttl zs) (Some t) (last_class zs)) s acc
    | Ok (SEmpty, zs, s) => read_loop f zs s acc
    | Ok (SEof, _, _) => (rev acc, EEof)
    | Err e => (rev acc, EErr e)
    | Panic p => (rev acc, EPanic p)
    | OutOfFuel => (rev acc, EFuel)
    end
  end.

Definition read_file (file : list N) : list entry * ending :=
  read_loop (S (S (length file))) init_zstate (init_sbuf file) [].

(* zonetree::parsed::Zonefile::try_from(inplace::Zonefile): `for res in source`
   (Iterator::next = next_entry().transpose()), entries collected, and in the
   Err arm `return Err(errors)`.  If that return were missing the loop would
   call next_entry again; the branch below reads on from the state the failed
   call started in, which is what happens for an error raised by next_item
   itself (a stray closing parenthesis: nothing is consumed, the call fails the
   same way for ever).  Errors in the middle of a token would trip the
   assertion of next_item instead; the model does not keep that state. *)
Fixpoint parsed_loop (fuel : nat) (zs : zstate) (s : sbuf) (acc : list entry) : list entry * ending :=
  match fuel with
  | O => (rev acc, EFuel)
  | S f =>
    match scan_entry zs s with
    | Ok (SEntry e, zs, s) => parsed_loop f zs s (e :: acc)
    | Ok (SOrigin o, zs, s) =>
      parsed_loop f (mkZ (Some o) (last_owner zs) (last_ttl zs) (dollar_ttl zs) (last_class zs)) s acc
    | Ok (STtl t, zs, s) =>
      parsed_loop f (mkZ (origin zs) (last_owner zs) (last_ttl zs) (Some t) (last_class zs)) s acc
    | Ok (SEmpty, zs, s) => parsed_loop f zs s acc
    | Ok (SEof, _, _) => (rev acc, EEof)
    | Err e => if parsed_stops_at_error then (rev acc, EErr e) else parsed_loop f zs s acc
    | Panic p => (rev acc, EPanic p)
    | OutOfFuel => (rev acc, EFuel)
    end
  end.

Definition parsed_file (file : list N) : list entry * ending :=
  parsed_loop (S (S (length file))) init_zstate (init_sbuf file) [].

(* ------------------------------------------------- abstract token stream *)

(* What a consumer that reads every token symbol by symbol sees (the loop of
   scan_entry_symbols, continued over line ends): items are tokens
   (quoted?, preceded by space?, symbols) and line feeds. *)
Inductive item := ITok (quoted sp : bool) (syms : list symbol) | ILF.

Fixpoint syms_loop (fuel : nat) (s : sbuf) (acc : list symbol) : outcome (list symbol * sbuf) :=
  match fuel with
  | O => OutOfFuel
  | S f => do r <- next_symbol s;
           match r with
           | (None, s') => Ok (rev acc, s')
           | (Some sym, s') => syms_loop f s' (sym :: acc)
           end
  end.

Fixpoint items_loop (fuel : nat) (s : sbuf) (acc : list item) : list item * ending :=
  match fuel with
  | O => (rev acc, EFuel)
  | S f =>
    match next_item s with
    | Ok s =>
      match scat s with
      | CNone => (rev acc, EEof)
      | CLF => items_loop f s (ILF :: acc)
      | c =>
        match syms_loop (fuel_of s) s [] with
        | Ok (syms, s') =>
          items_loop f s' (ITok (match c with CQuo => true | _ => false end) (hsp s) syms :: acc)
        | Err e => (rev acc, EErr e)
        | Panic p => (rev acc, EPanic p)
        | OutOfFuel => (rev acc, EFuel)
        end
      end
    | Err e => (rev acc, EErr e)
    | Panic p => (rev acc, EPanic p)
    | OutOfFuel => (rev acc, EFuel)
    end
  end.

Definition items_of (file : list N) : list item * ending :=
  items_loop (S (S (length file))) (init_sbuf file) [].

(* executable entry points for the correspondence driver *)
Definition c07_read (file : list N) : list entry * ending := read_file file.
Definition c07_items (file : list N) : list item * ending := items_of file.
Definition c07_sym (l : list N) : symres := sym_at l.
