(* C07 proofs, part 2: progress / totality of the item stream, layout lemmas on
   the item scanner, quoted versus escaped tokens. *)
From Coq Require Import NArith ZArith List Bool Arith Lia ZifyN ZifyBool ZifyNat.
From DV Require Import Base.Outcome Base.Bytes C07.Gen C07.Model C07.Proofs.
Import ListNotations.
Local Open Scope N_scope.
Ltac Zify.zify_post_hook ::= Z.div_mod_to_equations.

(* ------------------------------------------------------------ item progress *)

Lemma ni_loop_lf_quo l : forall incom p h n n' c p' h',
  ni_loop l incom p h n = NiOk n' c p' h' -> c = CLF \/ c = CQuo -> (S n <= n')%nat.
Proof.
  induction l as [|ch t IH]; intros incom p h n n' c p' h'; cbn [ni_loop].
  - intros H [-> | ->]; discriminate.
  - repeat match goal with
    | |- (if ?b then _ else _) = _ -> _ => destruct b
    | |- match ?p with O => _ | S _ => _ end = _ -> _ => destruct p
    end; try discriminate;
    try (intros H Hc; pose proof (ni_loop_bounds _ _ _ _ _ _ _ _ _ H); lia);
    try (intros H Hc; injection H as <- <- _ _; lia).
    intros H [Hc | Hc]; injection H as _ <- _ _; discriminate.
Qed.

Lemma syms_loop_progress fuel s c t :
  overlong_rejected = true ->
  Inv s -> scat s = CUnq -> rest s = c :: t -> is_delim c = false ->
  (length (rest s) < fuel)%nat ->
  match syms_loop fuel s [] with
  | Ok (_, s') => Inv s' /\ is_token (scat s') = false /\ (start s < start s')%nat /\ buf s' = buf s
  | Err _ => True
  | _ => False
  end.
Proof.
  intros Hov HI Hc Hr Hd Hf. destruct fuel as [|f]; [lia|].
  cbn [syms_loop]. unfold next_symbol.
  pose proof (next_symbol_gen_no_panic (fun _ => true) s) as NP.
  destruct (next_symbol_gen (fun _ => true) s) as [[r s1]| | |] eqn:E; cbn [bind]; auto.
  pose proof (next_symbol_gen_inv _ _ _ _ HI E) as (HI1 & Hb & Hs & Hr1 & _).
  destruct r as [sym|].
  - destruct (Hr1 ltac:(discriminate)) as [Hlt Htok].
    assert (Hf1 : (length (rest s1) < f)%nat).
    { rewrite (rest_length s HI) in Hf. rewrite (rest_length s1 HI1). unfold Inv in *. rewrite Hb in *. lia. }
    pose proof (syms_loop_total f s1 [sym] HI1 Hf1) as T.
    destruct (syms_loop f s1 [sym]) as [[x s2]| | |]; auto.
    destruct T as (A & B & C & D & _). repeat split; auto; try lia; try congruence.
  - exfalso. unfold next_symbol_gen in E. rewrite Hc in E.
    destruct (sym_at (rest s)) as [| |sym n] eqn:Es; try discriminate E.
    destruct (negb (is_word_char sym)) eqn:Ew; [|discriminate E].
    apply negb_true_iff in Ew.
    destruct (nonword_is_raw_delim _ _ _ Hov Es Ew) as (c' & t' & Hl & _ & _ & Hd').
    rewrite Hr in Hl. injection Hl as -> _. congruence.
Qed.

(* The item stream of every byte string is produced without panic and within
   the fuel bound: every turn of the loop consumes at least one octet. *)
Lemma items_loop_total : overlong_rejected = true ->
  forall fuel s acc, Inv s -> is_token (scat s) = false -> (length (rest s) < fuel)%nat ->
  match snd (items_loop fuel s acc) with EEof | EErr _ => True | _ => False end.
Proof.
  intros Hov. induction fuel as [|f IH]; intros s acc HI Hc Hf; [lia|].
  cbn [items_loop].
  destruct (next_item_total s HI Hc) as [(s1 & E & HI1 & Hs & Hb) | E]; rewrite E; [|exact I].
  unfold next_item in E. rewrite Hc in E.
  destruct (ni_loop (rest s) false (par s) false 0) as [|n c p h] eqn:En; [discriminate|].
  injection E as <-. cbn [scat].
  pose proof (ni_loop_bounds _ _ _ _ _ _ _ _ _ En) as Bn.
  rewrite (rest_length s HI) in Hf, Bn.
  destruct c.
  - exact I.
  - (* unquoted token *)
    destruct (ni_loop_unq _ _ _ _ _ _ _ _ En) as (c & t & Hsk & Hd).
    rewrite Nat.sub_0_r in Hsk.
    set (s1 := mkS (buf s) (start s + n) CUnq h p) in *.
    assert (Hr : rest s1 = c :: t).
    { unfold rest, s1. cbn [buf start]. rewrite <- skipn_add. exact Hsk. }
    pose proof (syms_loop_progress (fuel_of s1) s1 c t Hov HI1 eq_refl Hr Hd) as P.
    assert (Hfu : (length (rest s1) < fuel_of s1)%nat).
    { rewrite (rest_length s1 HI1). unfold fuel_of. lia. }
    specialize (P Hfu).
    destruct (syms_loop (fuel_of s1) s1 []) as [[syms s2]| | |]; auto; cbn [snd]; auto.
    destruct P as (HI2 & Ht2 & Hlt & Hb2).
    apply IH; auto. rewrite (rest_length s2 HI2). unfold Inv in *. rewrite Hb2 in *.
    unfold s1 in *. cbn [buf start] in *. lia.
  - (* quoted token *)
    pose proof (ni_loop_lf_quo _ _ _ _ _ _ _ _ _ En (or_intror eq_refl)) as Hq.
    set (s1 := mkS (buf s) (start s + n) CQuo h p) in *.
    assert (Hfu : (length (rest s1) < fuel_of s1)%nat).
    { rewrite (rest_length s1 HI1). unfold fuel_of. lia. }
    pose proof (syms_loop_total (fuel_of s1) s1 [] HI1 Hfu) as T.
    destruct (syms_loop (fuel_of s1) s1 []) as [[syms s2]| | |]; auto; cbn [snd]; auto.
    destruct T as (HI2 & Ht2 & Hle & Hb2 & _).
    apply IH; auto. rewrite (rest_length s2 HI2). unfold Inv in *. rewrite Hb2 in *.
    unfold s1 in *. cbn [buf start] in *. lia.
  - (* line feed *)
    pose proof (ni_loop_lf_quo _ _ _ _ _ _ _ _ _ En (or_introl eq_refl)) as Hq.
    apply IH; auto. rewrite (rest_length _ HI1). cbn [buf start]. unfold Inv in *. cbn [buf start] in *. lia.
Qed.

Lemma init_inv file : Inv (init_sbuf file) /\ is_token (scat (init_sbuf file)) = false
  /\ length (rest (init_sbuf file)) = length file.
Proof.
  unfold Inv, init_sbuf, rest, init_start. cbn [buf start scat is_token skipn length].
  repeat split; lia.
Qed.

Theorem items_total : overlong_rejected = true ->
  forall file, match snd (items_of file) with EEof | EErr _ => True | _ => False end.
Proof.
  intros Hov file. unfold items_of. destruct (init_inv file) as (A & B & C).
  apply items_loop_total; auto; lia.
Qed.

Example items_total_nonvacuous :
  items_of [97; 32; 34; 98; 32; 99; 34; 10; 59; 120] =
    ([ITok false false [SChar 97]; ITok true true [SChar 98; SChar 32; SChar 99]; ILF], EEof).
Proof. vm_compute. reflexivity. Qed.

(* without the over-long check the item loop does not make progress *)
Theorem items_total_refuted : overlong_rejected = false ->
  exists file, snd (items_of file) = EFuel.
Proof.
  intros H. exists [192; 160]. revert H. vm_compute.
  intros H; first [discriminate H | reflexivity].
Qed.

(* ------------------------------------------------------------ layout lemmas *)

(* What next_item decides from the octets in front of it: category, paren
   depth, has_space, and the octets that remain (the count is only a position). *)
Definition ni_view (l : list N) (p : nat) (h : bool) : option (cat * nat * bool * list N) :=
  match ni_loop l false p h 0 with
  | NiErr => None
  | NiOk n c p' h' => Some (c, p', h', skipn n l)
  end.

Lemma ni_loop_shift l : forall incom p h n k,
  ni_loop l incom p h (n + k) =
  match ni_loop l incom p h n with NiErr => NiErr | NiOk n' c p' h' => NiOk (n' + k) c p' h' end.
Proof.
  induction l as [|ch t IH]; intros incom p h n k; cbn [ni_loop]; [reflexivity|].
  repeat match goal with
  | |- context [if ?b then _ else _] => destruct b
  | |- context [match ?p with O => _ | S _ => _ end] => destruct p
  end; try reflexivity; try (rewrite <- IH; reflexivity).
Qed.

Lemma ni_loop_from0 l incom p h n :
  ni_loop l incom p h n =
  match ni_loop l incom p h 0 with NiErr => NiErr | NiOk n' c p' h' => NiOk (n' + n) c p' h' end.
Proof. apply (ni_loop_shift l incom p h 0 n). Qed.

(* one skipped octet in front: same decision on the remainder *)
Lemma ni_view_skip ch t p h p1 h1 :
  ni_loop (ch :: t) false p h 0 = ni_loop t false p1 h1 1 ->
  ni_view (ch :: t) p h = ni_view t p1 h1.
Proof.
  intros H. unfold ni_view. rewrite H. rewrite (ni_loop_from0 t false p1 h1 1).
  destruct (ni_loop t false p1 h1 0) as [|n c p' h']; [reflexivity|].
  rewrite Nat.add_1_r. reflexivity.
Qed.

Definition is_space (ch : N) : bool := memN ch ni_space.

Lemma ni_view_space ch t p h : is_space ch = true -> ni_view (ch :: t) p h = ni_view t p true.
Proof.
  intros H. apply ni_view_skip. cbn [ni_loop andb]. unfold is_space in H. rewrite H. reflexivity.
Qed.

(* a nonempty run of blanks / tabs / CRs is equivalent to any other such run *)
Lemma ni_view_space_run ws t p h : Forall (fun c => is_space c = true) ws -> ws <> [] ->
  ni_view (ws ++ t) p h = ni_view t p true.
Proof.
  intros F. revert h. induction F as [|c ws Hc F IH]; intros h Hne; [congruence|].
  cbn [app]. rewrite ni_view_space by exact Hc.
  destruct ws as [|c2 ws2]; [reflexivity|]. apply IH. discriminate.
Qed.

Theorem layout_spacing ws1 ws2 t p h :
  Forall (fun c => is_space c = true) ws1 -> ws1 <> [] ->
  Forall (fun c => is_space c = true) ws2 -> ws2 <> [] ->
  ni_view (ws1 ++ t) p h = ni_view (ws2 ++ t) p h.
Proof. intros. rewrite !ni_view_space_run by assumption. reflexivity. Qed.

Example layout_spacing_ex : ni_view ([32; 9; 13] ++ [97]) 0 false = ni_view ([9] ++ [97]) 0 false
  /\ ni_view [9; 97] 0 false = Some (CUnq, 0%nat, true, [97]).
Proof. vm_compute. split; reflexivity. Qed.

(* the dispatch characters are pairwise distinct and none of them is blank:
   used to evaluate the `else if` chain on a concrete character *)
Lemma dispatch_distinct :
  is_space ni_comment = false /\ is_space ni_newline = false /\ is_space ni_open = false /\
  is_space ni_close = false /\
  (ni_comment =? ni_cr_dead) = false /\ (ni_comment =? ni_open) = false /\ (ni_comment =? ni_close) = false /\
  (ni_newline =? ni_cr_dead) = false /\ (ni_newline =? ni_open) = false /\ (ni_newline =? ni_close) = false /\
  (ni_newline =? ni_comment) = false /\ (ni_open =? ni_cr_dead) = false /\
  (ni_close =? ni_cr_dead) = false /\ (ni_close =? ni_open) = false /\ ni_comment_end = ni_newline.
Proof. vm_compute. repeat split; reflexivity. Qed.

(* comment text is skipped up to (not including) the line feed *)
Lemma ni_loop_comment_body c : Forall (fun x => x <> ni_comment_end) c ->
  forall t p h n, ni_loop (c ++ t) true p h n = ni_loop t true p h (n + length c).
Proof.
  induction 1 as [|x c Hx F IH]; intros t p h n; cbn [app length].
  - rewrite Nat.add_0_r. reflexivity.
  - cbn [ni_loop]. assert (E : (x =? ni_comment_end) = false) by (apply N.eqb_neq; exact Hx).
    rewrite E. cbn [andb negb]. rewrite IH. f_equal. lia.
Qed.

Lemma ni_loop_comment_end t p h n :
  ni_loop (ni_newline :: t) true p h n = ni_loop (ni_newline :: t) false p h n.
Proof.
  destruct dispatch_distinct as (_ & _ & _ & _ & _ & _ & _ & _ & _ & _ & _ & _ & _ & _ & E).
  cbn [ni_loop]. rewrite E, N.eqb_refl. reflexivity.
Qed.

(* inserting a comment in front of a line feed changes nothing *)
Theorem layout_comment c t p h : Forall (fun x => x <> ni_comment_end) c ->
  ni_view (ni_comment :: c ++ ni_newline :: t) p h = ni_view (ni_newline :: t) p h.
Proof.
  intros F. unfold ni_view.
  destruct dispatch_distinct as (S1 & _ & _ & _ & C1 & C2 & C3 & _).
  assert (E : ni_loop (ni_comment :: c ++ ni_newline :: t) false p h 0
            = ni_loop (ni_newline :: t) false p h (1 + length c)).
  { cbn [ni_loop andb]. unfold is_space in S1. rewrite S1, C1, C2, C3, N.eqb_refl.
    rewrite ni_loop_comment_body by exact F. apply ni_loop_comment_end. }
  rewrite E. rewrite (ni_loop_from0 _ false p h (1 + length c)).
  destruct (ni_loop (ni_newline :: t) false p h 0) as [|n c0 p' h'] eqn:E0; [reflexivity|].
  f_equal. f_equal.
  replace (n + (1 + length c))%nat with (S (length c) + n)%nat by lia.
  rewrite <- skipn_add. f_equal.
  change (ni_comment :: c ++ ni_newline :: t) with ((ni_comment :: c) ++ ni_newline :: t).
  replace (S (length c)) with (length (ni_comment :: c)) by reflexivity.
  apply (drop_app_length (ni_comment :: c) (ni_newline :: t)).
Qed.

Example layout_comment_ex :
  ni_view ([59; 32; 34; 40] ++ [10; 97]) 0 true = ni_view [10; 97] 0 true
  /\ ni_view [10; 97] 0 true = Some (CLF, 0%nat, true, [97]).
Proof. vm_compute. split; reflexivity. Qed.

(* parentheses: `(` raises the depth, `)` lowers it, a line feed inside a group
   is skipped like a blank that does not set has_space *)
Lemma ni_view_open t p h : ni_view (ni_open :: t) p h = ni_view t (S p) h.
Proof.
  apply ni_view_skip. destruct dispatch_distinct as (_ & _ & S3 & _ & _ & _ & _ & _ & _ & _ & _ & O1 & _).
  cbn [ni_loop andb]. unfold is_space in S3. rewrite S3, O1, N.eqb_refl. reflexivity.
Qed.

Lemma ni_view_close t p h : ni_view (ni_close :: t) (S p) h = ni_view t p h.
Proof.
  apply ni_view_skip.
  destruct dispatch_distinct as (_ & _ & _ & S4 & _ & _ & _ & _ & _ & _ & _ & _ & K1 & K2 & _).
  cbn [ni_loop andb]. unfold is_space in S4. rewrite S4, K1, K2, N.eqb_refl. reflexivity.
Qed.

Lemma ni_view_newline_in_group t p h : ni_view (ni_newline :: t) (S p) h = ni_view t (S p) h.
Proof.
  apply ni_view_skip.
  destruct dispatch_distinct as (_ & S2 & _ & _ & _ & _ & _ & N1 & N2 & N3 & N4 & _).
  cbn [ni_loop andb]. unfold is_space in S2. rewrite S2, N1, N2, N3, N4, N.eqb_refl. reflexivity.
Qed.

(* a separator of blanks may be replaced by `( <newline> blanks` -- the group
   stays open for the continuation, whose line feeds are then skipped -- and
   `blanks )` in front of the closing line feed closes it again *)
Theorem layout_parens_open ws1 ws2 ws3 t p h :
  Forall (fun c => is_space c = true) ws1 -> ws1 <> [] ->
  Forall (fun c => is_space c = true) ws2 ->
  Forall (fun c => is_space c = true) ws3 -> ws3 <> [] ->
  ni_view (ws1 ++ ni_open :: ws2 ++ ni_newline :: ws3 ++ t) p h = ni_view (ws1 ++ t) (S p) h.
Proof.
  intros F1 N1 F2 F3 N3.
  rewrite !ni_view_space_run by assumption.
  rewrite ni_view_open.
  destruct ws2 as [|c ws2].
  - cbn [app]. rewrite ni_view_newline_in_group. apply ni_view_space_run; assumption.
  - rewrite ni_view_space_run by (assumption || discriminate).
    rewrite ni_view_newline_in_group. apply ni_view_space_run; assumption.
Qed.

Theorem layout_parens_close ws t p h :
  Forall (fun c => is_space c = true) ws -> ws <> [] ->
  ni_view (ws ++ ni_close :: t) (S p) h = ni_view t p true.
Proof.
  intros F N. rewrite ni_view_space_run by assumption. apply ni_view_close.
Qed.

Example layout_parens_ex :
  ni_view ([32] ++ 40 :: [] ++ 10 :: [9] ++ [49; 32; 41; 10]) 0 false = ni_view ([32] ++ [49; 32; 41; 10]) 1 false
  /\ ni_view [32; 41; 10; 97] 1 false = Some (CLF, 0%nat, true, [97])
  /\ ni_view [10; 97] 0 true = Some (CLF, 0%nat, true, [97]).
Proof. vm_compute. repeat split; reflexivity. Qed.

(* CR LF instead of LF: the CR is a blank *)
Theorem layout_crlf t p h : ni_view (13 :: ni_newline :: t) p h = ni_view (ni_newline :: t) p true.
Proof. apply ni_view_space. vm_compute. reflexivity. Qed.

(* blank (or comment-only) lines: at depth 0 a line feed is an item of its own,
   the entry layer (scan_entry) turns it into ScannedEntry::Empty, which
   next_entry skips *)
Lemma ni_view_lf_depth0 t h : ni_view (ni_newline :: t) 0 h = Some (CLF, 0%nat, h, t).
Proof.
  destruct dispatch_distinct as (_ & S2 & _ & _ & _ & _ & _ & N1 & N2 & N3 & N4 & _).
  unfold ni_view. cbn [ni_loop andb]. unfold is_space in S2. rewrite S2, N1, N2, N3, N4, N.eqb_refl.
  reflexivity.
Qed.

Lemma scan_entry_blank_line zs s t :
  is_token (scat s) = false -> par s = 0%nat -> rest s = ni_newline :: t ->
  scan_entry zs s = Ok (SEmpty, zs, mkS (buf s) (S (start s)) CLF false 0).
Proof.
  intros Hc Hp Hr. unfold scan_entry, next_item. rewrite Hc, Hr, Hp.
  pose proof (ni_view_lf_depth0 t false) as V. unfold ni_view in V.
  destruct (ni_loop (ni_newline :: t) false 0 false 0) as [|n c p h] eqn:E; [discriminate|].
  injection V as -> -> -> Hs.
  assert (n = 1%nat).
  { pose proof (ni_loop_bounds _ _ _ _ _ _ _ _ _ E) as B.
    pose proof (ni_loop_lf_quo _ _ _ _ _ _ _ _ _ E (or_introl eq_refl)) as B1.
    assert (L : length (skipn n (ni_newline :: t)) = length t) by (rewrite Hs; reflexivity).
    rewrite skipn_length in L. cbn [length] in *. lia. }
  subst n. cbn [bind scat]. rewrite Nat.add_1_r. reflexivity.
Qed.

(* ------------------------------------------------- quoted versus escaped *)

(* list-level symbol reader of a token (what syms_loop sees through `rest`) *)
Fixpoint syms_l (fuel : nat) (quoted : bool) (l : list N) (acc : list symbol)
  : option (list symbol * list N) :=
  match fuel with
  | O => None
  | S f =>
    match sym_at l with
    | SymOk sym n =>
      if quoted then
        if sym_eqb sym (SChar 34) then Some (rev acc, skipn n l)
        else syms_l f quoted (skipn n l) (sym :: acc)
      else if negb (is_word_char sym) then Some (rev acc, l)
      else syms_l f quoted (skipn n l) (sym :: acc)
    | _ => None
    end
  end.

Definition dec_escape (b : N) : list N := [esc_char; 48 + b / 100; 48 + (b / 10) mod 10; 48 + b mod 10].

Lemma dec_escape_tbl :
  forallb (fun b => match sym_at (dec_escape b ++ [0]) with
                    | SymOk (SDec v) 4 => v =? b | _ => false end) (upto 256) = true.
Proof. vm_compute. reflexivity. Qed.

Lemma sym_at_dec_escape b t : b < 256 -> sym_at (dec_escape b ++ t) = SymOk (SDec b) 4.
Proof.
  intros Hb. pose proof dec_escape_tbl as T. rewrite forallb_forall in T.
  specialize (T b (upto_in b 256 ltac:(lia))).
  unfold dec_escape in *. cbn [app] in *. unfold sym_at in *.
  rewrite N.eqb_refl in *.
  destruct (is_ascii_control (48 + b / 100)); [discriminate|].
  destruct (negb (is_digit (48 + b / 100))); [discriminate|].
  destruct (is_digit (48 + b / 10 mod 10)); [|discriminate].
  destruct (is_digit (48 + b mod 10)); [|discriminate].
  match goal with |- context [if ?c then _ else _] => destruct c end; [|discriminate].
  apply N.eqb_eq in T. rewrite T. reflexivity.
Qed.

(* an octet inside quotes: itself when it is printable and neither quote nor
   backslash, else a decimal escape *)
Definition plain_in_quotes (b : N) : bool :=
  (octet_lo <=? b) && (b <=? octet_hi) && negb (b =? 34) && negb (b =? esc_char).
Definition q_enc (b : N) : list N := if plain_in_quotes b then [b] else dec_escape b.
Definition q_sym (b : N) : symbol := if plain_in_quotes b then SChar b else SDec b.
(* the fully escaped unquoted form *)
Definition u_enc (b : N) : list N := dec_escape b.
Definition u_sym (b : N) : symbol := SDec b.

Lemma plain_tbl :
  forallb (fun b => implb (plain_in_quotes b)
     (match sym_at [b] with SymOk (SChar c) 1 => (c =? b) && negb (sym_eqb (SChar c) (SChar 34)) | _ => false end
      && match into_octet (SChar b) with Some o => o =? b | None => false end)) (upto 256) = true.
Proof. vm_compute. reflexivity. Qed.

Lemma sym_at_plain b t : b < 256 -> plain_in_quotes b = true ->
  sym_at (b :: t) = SymOk (SChar b) 1 /\ b <> 34 /\ into_octet (SChar b) = Some b.
Proof.
  intros Hb Hp. pose proof plain_tbl as T. rewrite forallb_forall in T.
  specialize (T b (upto_in b 256 ltac:(lia))). rewrite Hp in T. cbn [implb] in T.
  apply andb_true_iff in T as [T1 T2].
  unfold sym_at in *.
  destruct (b =? esc_char); [discriminate|].
  destruct (b <? ascii_bound).
  - apply andb_true_iff in T1 as [_ T1]. cbn [sym_eqb] in T1. apply negb_true_iff, N.eqb_neq in T1.
    split; [reflexivity|]. split; [exact T1|].
    destruct (into_octet (SChar b)); [|discriminate]. apply N.eqb_eq in T2. congruence.
  - destruct (N.land b 64 =? 0); discriminate.
Qed.

Lemma q_sym_octet b : b < 256 -> into_octet (q_sym b) = Some b.
Proof.
  intros Hb. unfold q_sym. destruct (plain_in_quotes b) eqn:E; [|reflexivity].
  apply (sym_at_plain b [] Hb E).
Qed.

(* reading "w" written inside quotes yields symbols whose octets are w *)
Lemma syms_l_quoted w : wf_bytes w -> forall t acc fuel, (length w < fuel)%nat ->
  syms_l fuel true (concat (map q_enc w) ++ 34 :: t) acc = Some (rev acc ++ map q_sym w, t).
Proof.
  induction 1 as [|b w Hb F IH]; intros t acc fuel Hf.
  - destruct fuel; [cbn in Hf; lia|]. cbn. rewrite app_nil_r. reflexivity.
  - destruct fuel as [|f]; [cbn in Hf; lia|]. cbn [map concat]. rewrite <- app_assoc.
    destruct (plain_in_quotes b) eqn:Ep.
    + assert (Eq1 : q_enc b = [b]) by (unfold q_enc; rewrite Ep; reflexivity).
      assert (Eq2 : q_sym b = SChar b) by (unfold q_sym; rewrite Ep; reflexivity).
      rewrite Eq1, Eq2. cbn [app syms_l].
      destruct (sym_at_plain b (concat (map q_enc w) ++ 34 :: t) Hb Ep) as (E & Hne & _).
      rewrite E. cbn [sym_eqb]. assert (Q : (b =? 34) = false) by (apply N.eqb_neq; exact Hne).
      rewrite Q. cbn [skipn]. rewrite IH by (cbn in Hf; lia). cbn [rev map]. rewrite <- app_assoc. reflexivity.
    + assert (Eq1 : q_enc b = dec_escape b) by (unfold q_enc; rewrite Ep; reflexivity).
      assert (Eq2 : q_sym b = SDec b) by (unfold q_sym; rewrite Ep; reflexivity).
      rewrite Eq1, Eq2. cbn [syms_l].
      rewrite sym_at_dec_escape by exact Hb. cbn [sym_eqb].
      unfold dec_escape. cbn [app skipn]. rewrite IH by (cbn in Hf; lia).
      cbn [rev map]. rewrite <- app_assoc. reflexivity.
Qed.

(* reading the fully escaped unquoted form stops at the next delimiter *)
Lemma syms_l_escaped w : wf_bytes w -> forall d t acc fuel, is_delim d = true -> d < 128 -> d <> esc_char ->
  (length w < fuel)%nat ->
  syms_l fuel false (concat (map u_enc w) ++ d :: t) acc = Some (rev acc ++ map u_sym w, d :: t).
Proof.
  induction 1 as [|b w Hb F IH]; intros d t acc fuel Hd Hd128 Hde Hf.
  - destruct fuel; [cbn in Hf; lia|]. cbn [map concat app syms_l].
    assert (E : sym_at (d :: t) = SymOk (SChar d) 1).
    { unfold sym_at. assert (Q : (d =? esc_char) = false) by (apply N.eqb_neq; exact Hde). rewrite Q.
      assert (Q2 : (d <? ascii_bound) = true) by (rewrite ascii_bound_val; apply N.ltb_lt; exact Hd128).
      rewrite Q2. reflexivity. }
    rewrite E. rewrite delims_agree by exact Hd128. rewrite Hd. cbn. rewrite app_nil_r. reflexivity.
  - destruct fuel as [|f]; [cbn in Hf; lia|]. cbn [map concat]. rewrite <- app_assoc.
    unfold u_enc at 1. cbn [syms_l]. rewrite sym_at_dec_escape by exact Hb.
    cbn [is_word_char negb]. unfold dec_escape. cbn [app skipn].
    rewrite IH by (auto; cbn in Hf; lia). cbn [rev map]. rewrite <- app_assoc. reflexivity.
Qed.

(* what the tokenizer guarantees: both spellings deliver the same octets
   through Symbol::into_octet (scan_octets, scan_charstr, names, TXT).  The
   symbols themselves differ (Char versus DecimalEscape), so consumers that
   look at unescaped characters -- `.` as label separator, digits of integers,
   a leading `$` or a lone `@` -- legitimately distinguish the spellings. *)
Theorem quoted_equals_escaped w d t1 t2 : wf_bytes w -> is_delim d = true -> d < 128 -> d <> esc_char ->
  exists sq su,
    syms_l (S (length w)) true (concat (map q_enc w) ++ 34 :: t1) [] = Some (sq, t1) /\
    syms_l (S (length w)) false (concat (map u_enc w) ++ d :: t2) [] = Some (su, d :: t2) /\
    map into_octet sq = map Some w /\ map into_octet su = map Some w.
Proof.
  intros Hw Hd H1 H2. eexists _, _. split; [apply syms_l_quoted; auto|].
  split; [apply syms_l_escaped; auto|]. cbn [rev app]. split.
  - induction Hw as [|b w Hb F IH]; [reflexivity|]. cbn [map]. rewrite q_sym_octet by exact Hb.
    f_equal. exact IH.
  - induction w as [|b w IH]; [reflexivity|]. cbn [map u_sym into_octet]. f_equal.
    apply IH. inversion Hw; assumption.
Qed.

Example quoted_equals_escaped_ex :
  syms_l 9 true (concat (map q_enc [97; 32; 34; 0]) ++ [34; 10]) [] = Some ([SChar 97; SChar 32; SDec 34; SDec 0], [10])
  /\ concat (map q_enc [97; 32; 34; 0]) = [97; 32; 92; 48; 51; 52; 92; 48; 48; 48].
Proof. vm_compute. split; reflexivity. Qed.

(* the list-level reader is what the model's syms_loop computes *)
Lemma syms_loop_refines : forall fuel s acc,
  is_token (scat s) = true ->
  match syms_l fuel (match scat s with CQuo => true | _ => false end) (rest s) acc with
  | Some (syms, l') =>
    exists s', syms_loop fuel s acc = Ok (syms, s') /\ rest s' = l' /\ scat s' = CNone /\ buf s' = buf s
  | None => True
  end.
Proof.
  induction fuel as [|f IH]; intros s acc Ht; [exact I|].
  cbn [syms_l syms_loop]. unfold next_symbol, next_symbol_gen.
  destruct (scat s) eqn:Ec; try discriminate.
  - destruct (sym_at (rest s)) as [| |sym n] eqn:Es; try exact I.
    destruct (negb (is_word_char sym)).
    + cbn [bind]. eexists. split; [reflexivity|]. cbn [set_cat rest buf start scat]. auto.
    + cbn [bind]. specialize (IH (advance s n) (sym :: acc)).
      cbn [advance scat] in IH. rewrite Ec in IH. specialize (IH eq_refl).
      assert (R : rest (advance s n) = skipn n (rest s)).
      { unfold rest. cbn [advance buf start]. rewrite skipn_add. reflexivity. }
      rewrite R in IH. exact IH.
  - destruct (sym_at (rest s)) as [| |sym n] eqn:Es; try exact I.
    assert (R : rest (advance s n) = skipn n (rest s)).
    { unfold rest. cbn [advance buf start]. rewrite skipn_add. reflexivity. }
    destruct (sym_eqb sym (SChar 34)).
    + cbn [bind]. eexists. split; [reflexivity|]. cbn [set_cat scat buf advance].
      split; [|auto]. unfold rest in *. cbn [set_cat advance buf start] in *. exact R.
    + cbn [bind]. specialize (IH (advance s n) (sym :: acc)).
      cbn [advance scat] in IH. rewrite Ec in IH. specialize (IH eq_refl).
      rewrite R in IH. exact IH.
Qed.
