(* C07 proofs, part 1: tokenizer layer (SourceBuf).  Position invariant,
   totality of next_item and of the symbol readers, reachability of the
   assertions, progress of the item loop. *)
From Coq Require Import NArith ZArith List Bool Arith Lia ZifyN ZifyBool ZifyNat.
From DV Require Import Base.Outcome Base.Bytes C07.Gen C07.Model.
Import ListNotations.
Local Open Scope N_scope.
Ltac Zify.zify_post_hook ::= Z.div_mod_to_equations.

(* ------------------------------------------------------------ T1 obligations *)

(* the octets next_item treats specially *)
Definition is_delim (b : N) : bool :=
  memN b ni_space || (b =? ni_cr_dead) || (b =? ni_open) || (b =? ni_close) ||
  (b =? ni_comment) || (b =? ni_newline) || (b =? ni_quote).

Definition upto (n : nat) : list N := map N.of_nat (seq 0 n).

Lemma upto_in b n : (N.to_nat b < n)%nat -> In b (upto n).
Proof.
  intros H. unfold upto. apply in_map_iff. exists (N.to_nat b). split; [lia|].
  apply in_seq. lia.
Qed.

(* next_item and Symbol::is_word_char agree on which ASCII octets end a word *)
Lemma delims_agree_tbl :
  forallb (fun b => Bool.eqb (is_word_char (SChar b)) (negb (is_delim b))) (upto 128) = true.
Proof. vm_compute. reflexivity. Qed.

Lemma delims_agree b : b < 128 -> is_word_char (SChar b) = negb (is_delim b).
Proof.
  intros H. pose proof delims_agree_tbl as T. rewrite forallb_forall in T.
  specialize (T b (upto_in b 128 ltac:(lia))). apply Bool.eqb_prop in T. exact T.
Qed.

Lemma word_excluded_ascii : forallb (fun x => x <? 128) word_excluded = true.
Proof. vm_compute. reflexivity. Qed.

Lemma nonword_ascii c : is_word_char (SChar c) = false -> c < 128.
Proof.
  cbn [is_word_char]. intros H. apply negb_false_iff in H.
  unfold memN in H. apply existsb_exists in H as (x & Hin & Hx). apply N.eqb_eq in Hx. subst x.
  pose proof word_excluded_ascii as T. rewrite forallb_forall in T. apply T in Hin. lia.
Qed.

(* the fast path next_ascii_symbol only ever accepts plain word characters *)
Definition asc_unq_ok (ch : N) : bool :=
  negb ((ch <? asc_lo) || (asc_hi <? ch) || memN ch asc_unq_excluded).
Definition asc_q_ok (ch : N) : bool :=
  negb (ch =? asc_q_end) && negb ((ch <? asc_lo) || (asc_hi <? ch) || memN ch asc_q_excluded).

Lemma asc_unq_tbl :
  forallb (fun b => implb (asc_unq_ok b)
     ((b <? 128) && is_word_char (SChar b) && negb (b =? esc_char))) (upto 256) = true.
Proof. vm_compute. reflexivity. Qed.

Lemma asc_q_tbl :
  forallb (fun b => implb (asc_q_ok b)
     ((b <? 128) && negb (b =? 34) && negb (b =? esc_char))) (upto 256) = true.
Proof. vm_compute. reflexivity. Qed.

Lemma asc_hi_byte : asc_hi < 256. Proof. vm_compute. reflexivity. Qed.

Lemma asc_unq_ok_spec b : asc_unq_ok b = true ->
  b < 128 /\ is_word_char (SChar b) = true /\ b <> esc_char.
Proof.
  intros H. assert (Hb : b < 256).
  { unfold asc_unq_ok in H. pose proof asc_hi_byte. destruct (asc_hi <? b) eqn:E; [|lia].
    rewrite orb_true_r in H. discriminate. }
  pose proof asc_unq_tbl as T. rewrite forallb_forall in T.
  specialize (T b (upto_in b 256 ltac:(lia))). rewrite H in T. cbn [implb] in T.
  apply andb_true_iff in T as [T T3]. apply andb_true_iff in T as [T1 T2].
  repeat split; [lia | exact T2 | ]. apply negb_true_iff in T3. lia.
Qed.

(* mnemonic numbers the schema of the model relies on *)
Lemma schema_mnemonics :
  map (from_mnemonic rtype_table)
    [[65]; [78;83]; [67;78;65;77;69]; [83;79;65]; [80;84;82]; [72;73;78;70;79]; [77;88];
     [84;88;84]; [83;82;86]; [78;65;80;84;82]]
  = map Some [1; 2; 5; 6; 12; 13; 15; 16; 33; 35]
  /\ from_mnemonic class_table [73;78] = Some 1.
Proof. vm_compute. split; reflexivity. Qed.

(* ------------------------------------------------------------------ sym_at *)

Lemma mkchar_ok v m n s k : mkchar v m n = SymOk s k -> k = n /\ s = SChar v /\ m <= v.
Proof.
  unfold mkchar. destruct (v <? m) eqn:E; [discriminate|].
  destruct (char_ok v); [|discriminate]. intros H. injection H as <- <-.
  repeat split. lia.
Qed.

Lemma sym_at_len l s n : sym_at l = SymOk s n -> (1 <= n <= length l)%nat.
Proof.
  unfold sym_at. destruct l as [|c1 t]; [discriminate|].
  destruct (c1 =? esc_char).
  - destruct t as [|c2 t2]; [discriminate|].
    destruct (is_ascii_control c2); [discriminate|].
    destruct (negb (is_digit c2)). { intros H; injection H as <- <-. cbn [length]. lia. }
    destruct t2 as [|c3 t3]; [discriminate|].
    destruct (is_digit c3); [|discriminate].
    destruct t3 as [|c4 t4]; [discriminate|].
    destruct (is_digit c4); [|discriminate].
    match goal with |- context [if ?b then _ else _] => destruct b end; [|discriminate].
    intros H; injection H as <- <-. cbn [length]. lia.
  - destruct (c1 <? ascii_bound). { intros H; injection H as <- <-. cbn [length]. lia. }
    destruct (N.land c1 64 =? 0); [discriminate|].
    destruct t as [|c2 t2]; [discriminate|].
    destruct (negb (cont c2)); [discriminate|].
    destruct (N.land c1 32 =? 0).
    { intros H. apply mkchar_ok in H as (-> & _ & _). cbn [length]. lia. }
    destruct t2 as [|c3 t3]; [discriminate|].
    destruct (negb (cont c3)); [discriminate|].
    destruct (N.land c1 16 =? 0).
    { intros H. apply mkchar_ok in H as (-> & _ & _). cbn [length]. lia. }
    destruct t3 as [|c4 t4]; [discriminate|].
    destruct (negb (cont c4)); [discriminate|].
    intros H. apply mkchar_ok in H as (-> & _ & _). cbn [length]. lia.
Qed.

Lemma ascii_bound_val : ascii_bound = 128. Proof. reflexivity. Qed.

(* With over-long encodings rejected, a symbol that ends a word is a single raw
   ASCII octet: exactly the octets next_item skips or dispatches on. *)
Lemma nonword_is_raw_delim l s n :
  overlong_rejected = true ->
  sym_at l = SymOk s n -> is_word_char s = false ->
  exists c t, l = c :: t /\ n = 1%nat /\ s = SChar c /\ is_delim c = true.
Proof.
  intros Hov. unfold overlong_rejected in Hov.
  apply andb_true_iff in Hov as [Hov H4]. apply andb_true_iff in Hov as [H2 H3].
  apply N.leb_le in H2, H3, H4.
  unfold sym_at. destruct l as [|c1 t]; [discriminate|].
  destruct (c1 =? esc_char).
  - destruct t as [|c2 t2]; [discriminate|].
    destruct (is_ascii_control c2); [discriminate|].
    destruct (negb (is_digit c2)). { intros H; injection H as <- <-. discriminate. }
    destruct t2 as [|c3 t3]; [discriminate|].
    destruct (is_digit c3); [|discriminate].
    destruct t3 as [|c4 t4]; [discriminate|].
    destruct (is_digit c4); [|discriminate].
    match goal with |- context [if ?b then _ else _] => destruct b end; [|discriminate].
    intros H; injection H as <- <-. discriminate.
  - destruct (c1 <? ascii_bound) eqn:Ha.
    { intros H; injection H as <- <-. intros Hw. exists c1, t. repeat split.
      rewrite ascii_bound_val in Ha. rewrite delims_agree in Hw by lia.
      apply negb_false_iff in Hw. exact Hw. }
    destruct (N.land c1 64 =? 0); [discriminate|].
    destruct t as [|c2 t2]; [discriminate|].
    destruct (negb (cont c2)); [discriminate|].
    destruct (N.land c1 32 =? 0).
    { intros H Hw. apply mkchar_ok in H as (_ & -> & Hv). apply nonword_ascii in Hw. lia. }
    destruct t2 as [|c3 t3]; [discriminate|].
    destruct (negb (cont c3)); [discriminate|].
    destruct (N.land c1 16 =? 0).
    { intros H Hw. apply mkchar_ok in H as (_ & -> & Hv). apply nonword_ascii in Hw. lia. }
    destruct t3 as [|c4 t4]; [discriminate|].
    destruct (negb (cont c4)); [discriminate|].
    intros H Hw. apply mkchar_ok in H as (_ & -> & Hv). apply nonword_ascii in Hw. lia.
Qed.

(* ... and without the check the statement is false: C0 A0 decodes to a space *)
Lemma nonword_is_raw_delim_refuted :
  overlong_rejected = false ->
  exists l s n, sym_at l = SymOk s n /\ is_word_char s = false /\ n <> 1%nat.
Proof.
  intros H. exists [192; 160], (SChar 32), 2%nat.
  revert H. vm_compute. intros H. first [discriminate H | (repeat split; congruence)].
Qed.

(* ---------------------------------------------------------------- next_item *)

Definition Inv (s : sbuf) : Prop := (start s <= length (buf s))%nat.

Lemma ni_loop_bounds l : forall incom p h n n' c p' h',
  ni_loop l incom p h n = NiOk n' c p' h' -> (n <= n' <= n + length l)%nat.
Proof.
  induction l as [|ch t IH]; intros incom p h n n' c p' h'; cbn [ni_loop length].
  - intros H; injection H as <- _ _ _. lia.
  - repeat match goal with
    | |- (if ?b then _ else _) = _ -> _ => destruct b
    | |- match ?p with O => _ | S _ => _ end = _ -> _ => destruct p
    end; try discriminate;
    try (intros H; apply IH in H; lia);
    try (intros H; injection H as <- _ _ _; lia).
Qed.

Lemma rest_length s : Inv s -> length (rest s) = (length (buf s) - start s)%nat.
Proof. intros _. unfold rest. apply skipn_length. Qed.

(* next_item: returns a state or `unbalanced parens`; the assertion fires
   exactly when the current token was not read to its end *)
Lemma next_item_total s : Inv s -> is_token (scat s) = false ->
  (exists s', next_item s = Ok s' /\ Inv s' /\ (start s <= start s')%nat /\ buf s' = buf s)
  \/ next_item s = Err 4.
Proof.
  intros HI Hc. unfold next_item. rewrite Hc.
  destruct (ni_loop (rest s) false (par s) false 0) as [|n c p h] eqn:E; [right; reflexivity|].
  left. eexists. split; [reflexivity|]. apply ni_loop_bounds in E.
  rewrite rest_length in E by exact HI. unfold Inv in *. cbn [start buf]. repeat split; lia.
Qed.

Lemma next_item_panics_iff s : (exists p, next_item s = Panic p) <-> is_token (scat s) = true.
Proof.
  unfold next_item. destruct (is_token (scat s)).
  - split; [reflexivity | intros _; eexists; reflexivity].
  - split; [|discriminate]. intros [p H].
    destruct (ni_loop (rest s) false (par s) false 0); discriminate.
Qed.

Lemma next_item_cat s s' : next_item s = Ok s' -> True.
Proof. trivial. Qed.

(* a delimiter octet at the read position is consumed *)
Lemma ni_loop_delim_progress c t p h n n' c' p' h' :
  is_delim c = true -> ni_loop (c :: t) false p h n = NiOk n' c' p' h' -> (S n <= n')%nat.
Proof.
  unfold is_delim. cbn [ni_loop andb].
  destruct (memN c ni_space). { intros _ H. apply ni_loop_bounds in H. lia. }
  destruct (c =? ni_cr_dead). { intros _ H. apply ni_loop_bounds in H. lia. }
  destruct (c =? ni_open). { intros _ H. apply ni_loop_bounds in H. lia. }
  destruct (c =? ni_close). { intros _. destruct p; [discriminate|]. intros H. apply ni_loop_bounds in H. lia. }
  destruct (c =? ni_comment). { intros _ H. apply ni_loop_bounds in H. lia. }
  destruct (c =? ni_newline).
  { intros _. destruct (Nat.eqb p 0).
    - intros H; injection H as <- _ _ _. lia.
    - intros H. apply ni_loop_bounds in H. lia. }
  destruct (c =? ni_quote). { intros _ H; injection H as <- _ _ _. lia. }
  cbn. discriminate.
Qed.

(* when next_item announces an unquoted token, the octet at the read position
   is not one of its delimiters *)
Lemma ni_loop_unq l : forall incom p h n n' p' h',
  ni_loop l incom p h n = NiOk n' CUnq p' h' ->
  exists c t, skipn (n' - n) l = c :: t /\ is_delim c = false.
Proof.
  induction l as [|ch t IH]; intros incom p h n n' p' h'; cbn [ni_loop].
  - discriminate.
  - assert (Step : forall i p0 h0, ni_loop t i p0 h0 (S n) = NiOk n' CUnq p' h' ->
        exists c t0, skipn (n' - n) (ch :: t) = c :: t0 /\ is_delim c = false).
    { intros i p0 h0 H. pose proof (ni_loop_bounds _ _ _ _ _ _ _ _ _ H) as B.
      apply IH in H as (c & t0 & Hs & Hd). exists c, t0. split; [|exact Hd].
      replace (n' - n)%nat with (S (n' - S n)) by lia. exact Hs. }
    destruct (incom && negb (ch =? ni_comment_end)). { apply Step. }
    unfold is_delim.
    destruct (memN ch ni_space) eqn:E1. { apply Step. }
    destruct (ch =? ni_cr_dead) eqn:E2. { apply Step. }
    destruct (ch =? ni_open) eqn:E3. { apply Step. }
    destruct (ch =? ni_close) eqn:E4. { destruct p; [discriminate|]. apply Step. }
    destruct (ch =? ni_comment) eqn:E5. { apply Step. }
    destruct (ch =? ni_newline) eqn:E6. { destruct (Nat.eqb p 0); [discriminate|]. apply Step. }
    destruct (ch =? ni_quote) eqn:E7. { discriminate. }
    intros H; injection H as <- _ _. exists ch, t. rewrite Nat.sub_diag. cbn [skipn].
    split; [reflexivity|]. rewrite E1, E2, E3, E4, E5, E6, E7. reflexivity.
Qed.

(* ------------------------------------------------------------ symbol readers *)

Lemma advance_inv s n : Inv s -> (n <= length (rest s))%nat -> Inv (advance s n).
Proof. unfold Inv. intros HI Hn. rewrite rest_length in Hn by exact HI. cbn [advance start buf]. lia. Qed.

Lemma next_symbol_gen_inv want s r s' :
  Inv s -> next_symbol_gen want s = Ok (r, s') ->
  Inv s' /\ buf s' = buf s /\ (start s <= start s')%nat /\
  (r <> None -> (start s < start s')%nat /\ is_token (scat s') = true) /\
  (is_token (scat s) = false -> s' = s).
Proof.
  intros HI. unfold next_symbol_gen.
  assert (Same : Ok (@None symbol, s) = Ok (r, s') ->
     Inv s' /\ buf s' = buf s /\ (start s <= start s')%nat /\
     (r <> None -> (start s < start s')%nat /\ is_token (scat s') = true) /\
     (is_token (scat s) = false -> s' = s)).
  { intros H; injection H as <- <-. repeat split; auto; congruence. }
  destruct (scat s) eqn:Ec.
  - exact Same.
  - destruct (sym_at (rest s)) as [| |sym n] eqn:Es; try discriminate.
    pose proof (sym_at_len _ _ _ Es) as Hl.
    destruct (negb (is_word_char sym)).
    { intros H; injection H as <- <-. unfold Inv in *. cbn [set_cat buf start scat].
      repeat split; auto; try congruence; cbn; discriminate. }
    destruct (want sym); [|exact Same].
    intros H; injection H as <- <-. split; [apply advance_inv; [exact HI|lia]|].
    cbn [advance buf start scat]. rewrite Ec. cbn [is_token].
    repeat split; auto; try lia; discriminate.
  - destruct (sym_at (rest s)) as [| |sym n] eqn:Es; try discriminate.
    pose proof (sym_at_len _ _ _ Es) as Hl.
    destruct (want sym); [|exact Same].
    destruct (sym_eqb sym (SChar 34)).
    + intros H; injection H as <- <-. split.
      { pose proof (advance_inv s n HI ltac:(lia)) as A. exact A. }
      cbn [advance set_cat buf start scat]. cbn [is_token].
      repeat split; auto; try lia; try congruence; discriminate.
    + intros H; injection H as <- <-. split; [apply advance_inv; [exact HI|lia]|].
      cbn [advance buf start scat]. rewrite Ec. cbn [is_token].
      repeat split; auto; try lia; discriminate.
  - exact Same.
Qed.

(* the symbol readers never panic and never run a loop *)
Lemma next_symbol_gen_no_panic want s : no_panic (next_symbol_gen want s).
Proof.
  unfold next_symbol_gen. destruct (scat s); cbn; auto;
  destruct (sym_at (rest s)); cbn; auto;
  repeat match goal with |- context [if ?b then _ else _] => destruct b end; cbn; auto.
Qed.

Lemma next_ascii_symbol_inv s r s' :
  Inv s -> next_ascii_symbol s = (r, s') ->
  Inv s' /\ buf s' = buf s /\ (start s <= start s')%nat /\
  (r <> None -> start s' = S (start s) /\ scat s' = scat s).
Proof.
  intros HI. unfold next_ascii_symbol.
  assert (Triv : (None, s) = (r, s') -> Inv s' /\ buf s' = buf s /\ (start s <= start s')%nat /\
      (r <> None -> start s' = S (start s) /\ scat s' = scat s)).
  { intros H; injection H as <- <-. repeat split; auto; congruence. }
  assert (Adv : forall ch t, rest s = ch :: t -> Inv (advance s 1)).
  { intros ch t E. apply advance_inv; [exact HI|]. rewrite E. cbn. lia. }
  destruct (scat s) eqn:Ec; try exact Triv;
  destruct (rest s) as [|ch t] eqn:Er; try exact Triv.
  - destruct ((ch <? asc_lo) || (asc_hi <? ch) || memN ch asc_unq_excluded); [exact Triv|].
    intros H; injection H as <- <-. split; [eapply Adv; reflexivity|].
    cbn [advance buf start scat]. repeat split; auto; lia.
  - destruct (ch =? asc_q_end).
    { intros H; injection H as <- <-. split; [eapply Adv; reflexivity|].
      cbn [advance set_cat buf start scat]. repeat split; auto; try lia; congruence. }
    destruct ((ch <? asc_lo) || (asc_hi <? ch) || memN ch asc_q_excluded); [exact Triv|].
    intros H; injection H as <- <-. split; [eapply Adv; reflexivity|].
    cbn [advance buf start scat]. repeat split; auto; lia.
Qed.

Lemma split_to_spec s a :
  Inv s ->
  if Nat.leb a (start s)
  then exists r s', split_to s a = Ok (r, s') /\ Inv s' /\ length r = a /\ start s' = (start s - a)%nat
  else split_to s a = Panic 2.
Proof.
  intros HI. unfold split_to. destruct (Nat.leb a (start s)) eqn:E; [|reflexivity].
  apply Nat.leb_le in E. eexists _, _. split; [reflexivity|]. unfold Inv in *.
  cbn [buf start]. rewrite skipn_length, firstn_length. repeat split; lia.
Qed.

Lemma skipn_add {A} (l : list A) : forall a b, skipn a (skipn b l) = skipn (b + a) l.
Proof.
  induction l as [|x t IH]; intros a b.
  - rewrite !skipn_nil. reflexivity.
  - destruct b; [reflexivity|]. cbn [skipn Nat.add]. apply IH.
Qed.

Lemma trim_to_spec s a :
  Inv s ->
  if Nat.leb a (start s)
  then exists s', trim_to s a = Ok s' /\ Inv s' /\ start s' = (start s - a)%nat /\
                  rest s' = rest s /\ scat s' = scat s /\ par s' = par s /\ hsp s' = hsp s
  else trim_to s a = Panic 3.
Proof.
  intros HI. unfold trim_to. destruct (Nat.leb a (start s)) eqn:E; [|reflexivity].
  apply Nat.leb_le in E. eexists. split; [reflexivity|]. unfold Inv in *.
  cbn [buf start scat par hsp]. rewrite skipn_length. repeat split; try lia.
  unfold rest. cbn [buf start]. rewrite skipn_add. f_equal. lia.
Qed.

Lemma set_byte_length l : forall i v l', set_byte l i v = Some l' -> length l' = length l.
Proof.
  induction l as [|x t IH]; intros [|j] v l'; cbn [set_byte]; try discriminate.
  - intros H; injection H as <-. reflexivity.
  - destruct (set_byte t j v) eqn:E; [|discriminate]. intros H; injection H as <-.
    cbn [length]. f_equal. eapply IH; eauto.
Qed.

Lemma set_byte_some l : forall i v, (i < length l)%nat -> exists l', set_byte l i v = Some l'.
Proof.
  induction l as [|x t IH]; intros [|j] v; cbn [set_byte length]; try lia; eauto.
  intros H. destruct (IH j v ltac:(lia)) as [l' ->]. eauto.
Qed.

Lemma set_byte_skipn l : forall i v l' k, set_byte l i v = Some l' -> (i < k)%nat -> skipn k l' = skipn k l.
Proof.
  induction l as [|x t IH]; intros [|j] v l' k; cbn [set_byte]; try discriminate.
  - intros H Hk; injection H as <-. destruct k; [lia|]. reflexivity.
  - destruct (set_byte t j v) eqn:E; [|discriminate]. intros H Hk; injection H as <-.
    destruct k; [lia|]. cbn [skipn]. eapply IH; eauto. lia.
Qed.

(* an in-place write behind the read position never changes what is still to
   be read, and panics exactly when it is out of range *)
Lemma store_spec s i v :
  Inv s ->
  if Nat.ltb i (length (buf s))
  then exists s', store s i v = Ok s' /\ Inv s' /\ start s' = start s /\ scat s' = scat s /\
                  length (buf s') = length (buf s) /\ ((i < start s)%nat -> rest s' = rest s)
  else store s i v = Panic 5.
Proof.
  intros HI. unfold store. destruct (Nat.ltb i (length (buf s))) eqn:E.
  - apply Nat.ltb_lt in E. destruct (set_byte_some _ i v E) as [l' Hl]. rewrite Hl.
    eexists. split; [reflexivity|]. pose proof (set_byte_length _ _ _ _ Hl) as L.
    unfold Inv in *. cbn [with_buf buf start scat]. repeat split; try lia.
    intros Hi. unfold rest. cbn [with_buf buf start]. eapply set_byte_skipn; eauto.
  - apply Nat.ltb_ge in E. destruct (set_byte (buf s) i v) eqn:Hs; [|reflexivity].
    exfalso. clear -Hs E. revert i l Hs E. generalize (buf s). intros l0.
    induction l0 as [|x t IH]; intros [|j] l'; cbn [set_byte length]; try discriminate; try lia.
    destruct (set_byte t j v) eqn:E2; [|discriminate]. intros _ H. eapply IH; eauto. lia.
Qed.

(* ------------------------------------------------- progress of the item loop *)

(* syms_loop: reading all symbols of a token needs at most one unit of fuel per
   remaining octet *)
Lemma syms_loop_total : forall fuel s acc,
  Inv s -> (length (rest s) < fuel)%nat ->
  match syms_loop fuel s acc with
  | Ok (_, s') => Inv s' /\ is_token (scat s') = false /\ (start s <= start s')%nat /\ buf s' = buf s
                  /\ (is_token (scat s) = true -> scat s' = CNone)
  | Err _ => True
  | _ => False
  end.
Proof.
  induction fuel as [|f IH]; intros s acc HI Hf; [lia|].
  cbn [syms_loop]. unfold next_symbol.
  pose proof (next_symbol_gen_no_panic (fun _ => true) s) as NP.
  destruct (next_symbol_gen (fun _ => true) s) as [[r s']| | |] eqn:E; cbn [bind]; auto.
  pose proof (next_symbol_gen_inv _ _ _ _ HI E) as (HI' & Hb & Hs & Hr & Hn).
  destruct r as [sym|].
  - destruct (Hr ltac:(discriminate)) as [Hlt Htok].
    assert (Hf' : (length (rest s') < f)%nat).
    { rewrite (rest_length s HI) in Hf. rewrite (rest_length s' HI'). unfold Inv in *. rewrite Hb in *. lia. }
    specialize (IH s' (sym :: acc) HI' Hf').
    destruct (syms_loop f s' (sym :: acc)) as [[x s'']| | |]; auto.
    destruct IH as (A & B & C & D & F). repeat split; auto; try lia; try congruence.
  - repeat split; auto.
    + (* category after the end of the token *)
      clear -E. unfold next_symbol_gen in E. destruct (scat s) eqn:Ec.
      * injection E as <-. rewrite Ec. reflexivity.
      * destruct (sym_at (rest s)); try discriminate.
        destruct (negb (is_word_char s0)); [injection E as <-; reflexivity|].
        discriminate.
      * destruct (sym_at (rest s)); try discriminate.
        cbn in E. destruct (sym_eqb s0 (SChar 34)); [injection E as <-; reflexivity|discriminate].
      * injection E as <-. rewrite Ec. reflexivity.
    + intros Ht. clear -E Ht. unfold next_symbol_gen in E. destruct (scat s) eqn:Ec; try discriminate.
      * destruct (sym_at (rest s)); try discriminate.
        destruct (negb (is_word_char s0)); [injection E as <-; reflexivity|discriminate].
      * destruct (sym_at (rest s)); try discriminate. cbn in E.
        destruct (sym_eqb s0 (SChar 34)); [injection E as <-; reflexivity|discriminate].
Qed.
