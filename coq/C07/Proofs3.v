(* C07 proofs, part 3: owner / class / TTL inheritance of the entry layer,
   integer scanning, and the witnesses of the four defects found. *)
From Coq Require Import NArith ZArith List Bool Arith Lia ZifyN ZifyBool ZifyNat.
From DV Require Import Base.Outcome Base.Bytes C07.Gen C07.Model C07.Proofs C07.Proofs2.
Import ListNotations.
Local Open Scope N_scope.

(* ------------------------------------------------------- entry layer, abstract *)

(* A logical line: what scan_entry has in its hands after the owner, the
   class/TTL/type prefix and the record data have been scanned. *)
Record aline := mkL {
  a_owner : option (list N);   (* None: line starts with white space *)
  a_class : option N;
  a_ttl : option N;
  a_rtype : N;
  a_rdata : list N }.

Definition astep (zs : zstate) (l : aline) : outcome (entry * zstate) :=
  do o <- (match a_owner l with
           | Some o => Ok o
           | None => match last_owner zs with Some o => Ok o | None => Err 5 end
           end);
  let zs1 := match a_owner l with Some o => set_owner zs o | None => zs end in
  do cz <- resolve_class (a_class l) zs1;
  let tz := resolve_ttl (a_ttl l) (snd cz) in
  Ok (ERecord o (fst cz) (fst tz) (a_rtype l) (a_rdata l), snd tz).

Fixpoint arecords (zs : zstate) (ls : list aline) : outcome (list entry) :=
  match ls with
  | [] => Ok []
  | l :: t => do r <- astep zs l; do rest <- arecords (snd r) t; Ok (fst r :: rest)
  end.

Fixpoint astate (zs : zstate) (ls : list aline) : outcome zstate :=
  match ls with
  | [] => Ok zs
  | l :: t => do r <- astep zs l; astate (snd r) t
  end.

(* the model's scan_owner_record is astep around the three scanning phases *)
Lemma scan_owner_record_spec zs s owner new_owner cls ttl rtype s1 d s2 :
  scan_ctr s = Ok (cls, ttl, rtype, s1) ->
  scan_rdata (origin zs) rtype s1 = Ok (d, s2) -> is_line_feed s2 = true ->
  last_owner zs = Some owner \/ new_owner = true ->
  match astep zs (mkL (if new_owner then Some owner else None) cls ttl rtype d) with
  | Ok (e, zs') => scan_owner_record zs s owner new_owner = Ok (SEntry e, zs', s2)
  | Err e => scan_owner_record zs s owner new_owner = Err e
  | _ => False
  end.
Proof.
  intros Hc Hd Hl Ho. unfold scan_owner_record, astep. rewrite Hc. cbn [bind a_owner a_class a_ttl a_rtype a_rdata].
  destruct new_owner.
  - cbn [bind]. destruct (resolve_class cls (set_owner zs owner)) as [[c z]| | |] eqn:Er; cbn [bind fst snd].
    + cbn [set_owner origin] in *. rewrite Hd. cbn [bind fst snd]. unfold require_line_feed. rewrite Hl. reflexivity.
    + reflexivity.
    + unfold resolve_class in Er. destruct cls, (last_class (set_owner zs owner)); try discriminate.
      destruct (n =? n0); discriminate.
    + unfold resolve_class in Er. destruct cls, (last_class (set_owner zs owner)); try discriminate.
      destruct (n =? n0); discriminate.
  - destruct Ho as [Ho | Ho]; [|discriminate]. rewrite Ho. cbn [bind].
    destruct (resolve_class cls zs) as [[c z]| | |] eqn:Er; cbn [bind fst snd].
    + rewrite Hd. cbn [bind fst snd]. unfold require_line_feed. rewrite Hl. reflexivity.
    + reflexivity.
    + unfold resolve_class in Er. destruct cls, (last_class zs); try discriminate.
      destruct (n =? n0); discriminate.
    + unfold resolve_class in Er. destruct cls, (last_class zs); try discriminate.
      destruct (n =? n0); discriminate.
Qed.

(* states that cannot be told apart: last_ttl is only consulted while no $TTL
   has been seen *)
Definition zeq (a b : zstate) : Prop :=
  origin a = origin b /\ last_owner a = last_owner b /\ dollar_ttl a = dollar_ttl b /\
  last_class a = last_class b /\ (dollar_ttl a = None -> last_ttl a = last_ttl b).

Lemma zeq_refl a : zeq a a.
Proof. unfold zeq. auto. Qed.

Lemma astep_zeq a b l : zeq a b ->
  match astep a l, astep b l with
  | Ok (e1, a'), Ok (e2, b') => e1 = e2 /\ zeq a' b'
  | Err x, Err y => x = y
  | _, _ => False
  end.
Proof.
  intros (Ho & Hw & Hd & Hc & Ht). unfold astep.
  destruct l as [ow cl tt rt rd]. cbn [a_owner a_class a_ttl a_rtype a_rdata].
  assert (Z : forall a1 b1, origin a1 = origin b1 -> last_owner a1 = last_owner b1 ->
     dollar_ttl a1 = dollar_ttl b1 -> last_class a1 = last_class b1 ->
     (dollar_ttl a1 = None -> last_ttl a1 = last_ttl b1) -> forall o,
     match (do cz <- resolve_class cl a1;
            Ok (ERecord o (fst cz) (fst (resolve_ttl tt (snd cz))) rt rd, snd (resolve_ttl tt (snd cz)))),
           (do cz <- resolve_class cl b1;
            Ok (ERecord o (fst cz) (fst (resolve_ttl tt (snd cz))) rt rd, snd (resolve_ttl tt (snd cz))))
     with
     | Ok (e1, a'), Ok (e2, b') => e1 = e2 /\ zeq a' b'
     | Err x, Err y => x = y
     | _, _ => False
     end).
  { intros a1 b1 Ho1 Hw1 Hd1 Hc1 Ht1 o. unfold resolve_class. rewrite <- Hc1.
    destruct cl as [c|], (last_class a1) as [lc|] eqn:El; cbn [bind fst snd]; try reflexivity.
    - destruct (c =? lc); cbn [bind fst snd]; [|reflexivity].
      unfold resolve_ttl. destruct tt as [t|]; cbn [fst snd].
      + split; [reflexivity|]. unfold zeq; cbn; repeat split; auto; try congruence.
      + rewrite <- Hd1. destruct (dollar_ttl a1) eqn:E.
        * split; [reflexivity|]. unfold zeq. try rewrite E in *. repeat split; auto; try congruence; try discriminate.
        * rewrite (Ht1 eq_refl). split; [reflexivity|]. unfold zeq. repeat split; auto; try congruence.
    - unfold resolve_ttl. destruct tt as [t|]; cbn [fst snd origin last_owner last_ttl dollar_ttl last_class].
      + split; [reflexivity|]. unfold zeq; cbn; repeat split; auto; try congruence.
      + rewrite <- Hd1. destruct (dollar_ttl a1) eqn:E.
        * split; [reflexivity|]. unfold zeq. cbn. try rewrite E in *. repeat split; auto; try congruence; try discriminate.
        * rewrite (Ht1 eq_refl). split; [reflexivity|]. unfold zeq. cbn. repeat split; auto; try congruence.
    - unfold resolve_ttl. destruct tt as [t|]; cbn [fst snd].
      + split; [reflexivity|]. unfold zeq; cbn; repeat split; auto; try congruence.
      + rewrite <- Hd1. destruct (dollar_ttl a1) eqn:E.
        * split; [reflexivity|]. unfold zeq. try rewrite E in *. repeat split; auto; try congruence; try discriminate.
        * rewrite (Ht1 eq_refl). split; [reflexivity|]. unfold zeq. repeat split; auto; try congruence. }
  destruct ow as [o|]; cbn [bind].
  - apply Z; cbn [set_owner origin last_owner dollar_ttl last_class last_ttl]; auto.
  - rewrite <- Hw. destruct (last_owner a) as [o|] eqn:Eo; cbn [bind]; [|reflexivity].
    apply Z; auto; congruence.
Qed.

Lemma arecords_zeq ls : forall a b, zeq a b -> arecords a ls = arecords b ls.
Proof.
  induction ls as [|l t IH]; intros a b Hz; [reflexivity|].
  cbn [arecords]. pose proof (astep_zeq a b l Hz) as S.
  destruct (astep a l) as [[e1 a']| | |], (astep b l) as [[e2 b']| | |]; try contradiction; cbn [bind fst snd].
  - destruct S as [-> Hz']. rewrite (IH _ _ Hz'). reflexivity.
  - congruence.
Qed.

Lemma arecords_app pre : forall zs zs' x y,
  astate zs pre = Ok zs' -> arecords zs' x = arecords zs' y ->
  arecords zs (pre ++ x) = arecords zs (pre ++ y).
Proof.
  induction pre as [|l t IH]; intros zs zs' x y Hs Hxy; cbn [astate app] in *.
  - injection Hs as <-. exact Hxy.
  - cbn [arecords]. destruct (astep zs l) as [[e z]| | |]; cbn [bind fst snd] in *; try discriminate.
    rewrite (IH _ _ _ _ Hs Hxy). reflexivity.
Qed.

(* inherited versus explicit owner, class, TTL: anywhere in a file, a field that
   states the value it would inherit may be dropped (and vice versa) *)
Definition inherited_ttl (zs : zstate) : N :=
  match dollar_ttl zs with Some d => d | None => last_ttl zs end.

Theorem explicit_equals_inherited_owner pre post zs zs' o cl tt rt rd :
  astate zs pre = Ok zs' -> last_owner zs' = Some o ->
  arecords zs (pre ++ mkL (Some o) cl tt rt rd :: post) = arecords zs (pre ++ mkL None cl tt rt rd :: post).
Proof.
  intros Hs Ho. eapply arecords_app; [exact Hs|]. cbn [arecords]. unfold astep.
  cbn [a_owner a_class a_ttl a_rtype a_rdata]. rewrite Ho. cbn [bind].
  assert (E : set_owner zs' o = zs').
  { destruct zs'. cbn in *. unfold set_owner. cbn. congruence. }
  rewrite E. reflexivity.
Qed.

Theorem explicit_equals_inherited_class pre post zs zs' ow c tt rt rd :
  astate zs pre = Ok zs' -> last_class zs' = Some c ->
  arecords zs (pre ++ mkL ow (Some c) tt rt rd :: post) = arecords zs (pre ++ mkL ow None tt rt rd :: post).
Proof.
  intros Hs Hc. eapply arecords_app; [exact Hs|]. cbn [arecords]. unfold astep.
  cbn [a_owner a_class a_ttl a_rtype a_rdata].
  destruct (match ow with Some o => Ok o | None => match last_owner zs' with Some o => Ok o | None => Err 5 end end)
    as [o| | |]; cbn [bind]; try reflexivity.
  assert (Hc1 : last_class (match ow with Some o0 => set_owner zs' o0 | None => zs' end) = Some c).
  { destruct ow; cbn; exact Hc. }
  unfold resolve_class. rewrite Hc1, N.eqb_refl. reflexivity.
Qed.

Theorem explicit_equals_inherited_ttl pre post zs zs' ow cl rt rd :
  astate zs pre = Ok zs' ->
  arecords zs (pre ++ mkL ow cl (Some (inherited_ttl zs')) rt rd :: post)
  = arecords zs (pre ++ mkL ow cl None rt rd :: post).
Proof.
  intros Hs. eapply arecords_app; [exact Hs|]. cbn [arecords]. unfold astep.
  cbn [a_owner a_class a_ttl a_rtype a_rdata].
  destruct (match ow with Some o => Ok o | None => match last_owner zs' with Some o => Ok o | None => Err 5 end end)
    as [o| | |]; cbn [bind]; try reflexivity.
  set (z1 := match ow with Some o0 => set_owner zs' o0 | None => zs' end).
  assert (Hd : dollar_ttl z1 = dollar_ttl zs' /\ last_ttl z1 = last_ttl zs').
  { unfold z1. destruct ow; cbn; auto. }
  destruct (resolve_class cl z1) as [[c z2]| | |] eqn:Er; cbn [bind fst snd]; try reflexivity.
  assert (Hd2 : dollar_ttl z2 = dollar_ttl zs' /\ last_ttl z2 = last_ttl zs').
  { unfold resolve_class in Er. destruct cl, (last_class z1); try discriminate.
    - destruct (n =? n0); [|discriminate]. injection Er as _ <-. exact Hd.
    - injection Er as _ <-. exact Hd.
    - injection Er as _ <-. cbn. exact Hd. }
  destruct Hd2 as [D1 D2].
  unfold resolve_ttl, inherited_ttl. rewrite D1, D2. cbn [fst snd].
  erewrite arecords_zeq; [reflexivity|].
  unfold zeq. cbn. repeat split; auto. intros E.
  assert (E' : dollar_ttl zs' = None) by congruence. rewrite E'. congruence.
Qed.

Example explicit_equals_inherited_ex :
  let zs := mkZ (Some [0]) None 3600 None None in
  let ls := [mkL (Some [1; 97; 0]) (Some 1) (Some 300) 1 [1; 2; 3; 4];
             mkL None None None 2 [0];
             mkL (Some [1; 97; 0]) (Some 1) (Some 300) 2 [0]] in
  arecords zs ls = Ok [ERecord [1; 97; 0] 1 300 1 [1; 2; 3; 4]; ERecord [1; 97; 0] 1 300 2 [0];
                       ERecord [1; 97; 0] 1 300 2 [0]].
Proof. vm_compute. reflexivity. Qed.

(* '@' and relative names: the owner of scan_at_record and every name that
   scan_name completes is `relative ++ origin`; an absolute spelling of the
   same labels gives `labels ++ root` *)
Lemma chain_origin rel o : (length rel + length o <= chain_max)%nat -> chain rel o = Ok (rel ++ o).
Proof. intros H. unfold chain. destruct (Nat.ltb_spec chain_max (length rel + length o)); [lia|reflexivity]. Qed.

Theorem relative_equals_absolute (rel o' : list N) :
  (length rel + length (o' ++ [0%N]) <= chain_max)%nat ->
  chain rel (o' ++ [0]) = chain (rel ++ o') [0].
Proof.
  intros H. rewrite !chain_origin; [rewrite app_assoc; reflexivity| |exact H].
  rewrite !app_length in *. cbn [length] in *. lia.
Qed.

(* ------------------------------------------------------------ integer scanning *)

(* with a checked digit addition the overflow panic is unreachable *)
Lemma uint_loop_no_overflow_panic : forall fuel maxv s res,
  uint_loop fuel maxv true s res <> Panic 7.
Proof.
  induction fuel as [|f IH]; intros maxv s res; cbn [uint_loop]; [discriminate|].
  unfold next_symbol. pose proof (next_symbol_gen_no_panic (fun _ => true) s) as NP.
  destruct (next_symbol_gen (fun _ => true) s) as [[r s']| | |]; cbn [bind]; try discriminate; try contradiction.
  destruct r as [sym|]; [|discriminate].
  destruct (maxv <? res * 10); [discriminate|].
  destruct (into_digit sym); [|discriminate].
  destruct (maxv <? res * 10 + n); [discriminate|]. apply IH.
Qed.

(* ----------------------------------------------------------------- findings *)

Definition str (s : list nat) : list N := map N.of_nat s.

(* D1: over-long UTF-8 encoding of a blank: an endless run of empty tokens;
   NAPTR reads three of them as char-strings, then scan_name finds start = 0.
   "a. 1 IN NAPTR 1 1 \xC0\xA0 b.\n" *)
Definition w_overlong : list N :=
  [97;46;32;49;32;73;78;32;78;65;80;84;82;32;49;32;49;32;192;160;32;98;46;10].

Theorem overlong_panics_refuted : overlong_rejected = false ->
  snd (read_file w_overlong) = EPanic 4.
Proof. intros H. revert H. vm_compute. intros H; first [discriminate H | reflexivity]. Qed.

Theorem overlong_fixed : overlong_rejected = true ->
  snd (read_file w_overlong) = EErr 1.
Proof. intros H. revert H. vm_compute. intros H; first [discriminate H | reflexivity]. Qed.

(* D2: scan_charstr_entry does not require a token: at the end of the buffer
   it keeps writing length octets.   a. 1 IN TXT "foo"   (no final newline) *)
Definition w_txt_eof : list N := [97;46;32;49;32;73;78;32;84;88;84;32;34;102;111;111;34].

Theorem charstr_entry_panics_refuted : charstr_requires_token = false ->
  snd (read_file w_txt_eof) = EPanic 5.
Proof. intros H. revert H. vm_compute. intros H; first [discriminate H | reflexivity]. Qed.

Theorem charstr_entry_fixed : charstr_requires_token = true ->
  snd (read_file w_txt_eof) = EErr 12.
Proof. intros H. revert H. vm_compute. intros H; first [discriminate H | reflexivity]. Qed.

(* D3: `res += digit` after checked_mul.   a. 1 IN MX 65539 b.\n *)
Definition w_int : list N := [97;46;32;49;32;73;78;32;77;88;32;54;53;53;51;57;32;98;46;10].

Theorem int_overflow_panics_refuted : int_add_checked = false ->
  snd (read_file w_int) = EPanic 7.
Proof. intros H. revert H. vm_compute. intros H; first [discriminate H | reflexivity]. Qed.

Theorem int_overflow_fixed : int_add_checked = true ->
  snd (read_file w_int) = EErr 14.
Proof. intros H. revert H. vm_compute. intros H; first [discriminate H | reflexivity]. Qed.

(* D4: `@` in record data is not the origin.
   $ORIGIN x.\n@ 1 IN NS @\n    versus    $ORIGIN x.\n@ 1 IN NS x.\n *)
Definition w_at : list N := [36;79;82;73;71;73;78;32;120;46;10;64;32;49;32;73;78;32;78;83;32;64;10].
Definition w_at_abs : list N := [36;79;82;73;71;73;78;32;120;46;10;64;32;49;32;73;78;32;78;83;32;120;46;10].

Theorem at_in_rdata_refuted : scan_name_handles_at = false ->
  read_file w_at <> read_file w_at_abs /\
  read_file w_at = ([ERecord [1; 120; 0] 1 1 2 [1; 64; 1; 120; 0]], EEof).
Proof.
  intros H. revert H. vm_compute. intros H; first [discriminate H | (split; [discriminate | reflexivity])].
Qed.

Theorem at_in_rdata_fixed : scan_name_handles_at = true ->
  read_file w_at = read_file w_at_abs.
Proof. intros H. revert H. vm_compute. intros H; first [discriminate H | reflexivity]. Qed.

(* ------------------------------------------------------ non-vacuity examples *)

Example next_item_ex :
  next_item (mkS [0; 32; 59; 120; 10; 97] 1 CNone false 0) = Ok (mkS [0; 32; 59; 120; 10; 97] 5 CLF true 0)
  /\ next_item (mkS [0; 97] 1 CUnq false 0) = Panic 1
  /\ next_item (mkS [0; 41] 1 CNone false 0) = Err 4.
Proof. vm_compute. repeat split; reflexivity. Qed.

Example symbol_reader_ex :
  next_symbol (mkS [0; 92; 48; 54; 53; 32] 1 CUnq false 0) = Ok (Some (SDec 65), mkS [0; 92; 48; 54; 53; 32] 5 CUnq false 0)
  /\ next_symbol (mkS [0; 92; 48; 54; 53; 32] 5 CUnq false 0) = Ok (None, mkS [0; 92; 48; 54; 53; 32] 5 CNone false 0)
  /\ next_symbol (mkS [0; 97] 2 CUnq false 0) = Err 12
  /\ next_ascii_symbol (mkS [0; 97; 34] 1 CQuo false 0) = (Some 97, mkS [0; 97; 34] 2 CQuo false 0).
Proof. vm_compute. repeat split; reflexivity. Qed.

Example split_trim_store_ex :
  split_to (mkS [1; 2; 3] 2 CNone false 0) 1 = Ok ([1], mkS [2; 3] 1 CNone false 0)
  /\ split_to (mkS [1; 2; 3] 2 CNone false 0) 3 = Panic 2
  /\ trim_to (mkS [1; 2; 3] 2 CNone false 0) 3 = Panic 3
  /\ store (mkS [1; 2; 3] 2 CNone false 0) 3 9 = Panic 5
  /\ store (mkS [1; 2; 3] 2 CNone false 0) 0 9 = Ok (mkS [9; 2; 3] 2 CNone false 0).
Proof. vm_compute. repeat split; reflexivity. Qed.

Example read_file_ex :
  read_file ([36;79;82;73;71;73;78;32;120;46;10; 97;32;51;48;48;32;73;78;32;77;88;32;49;48;32;40;10;32;109;32;41;32;59;99;10;
                           32;84;88;84;32;34;104;32;105;34;32;92;48;54;53;10])
  = ([ERecord [1; 97; 1; 120; 0] 1 300 15 [0; 10; 1; 109; 1; 120; 0];
      ERecord [1; 97; 1; 120; 0] 1 300 16 [3; 104; 32; 105; 1; 65]], EEof).
Proof. vm_compute. reflexivity. Qed.

Example uint_ex : scan_uint 65535 true (mkS [0; 54; 53; 53; 51; 53; 10] 1 CUnq false 0)
  = Ok (65535, mkS [0; 54; 53; 53; 51; 53; 10] 7 CLF false 0)
  /\ scan_uint 65535 true (mkS [0; 54; 53; 53; 51; 54; 10] 1 CUnq false 0) = Err 14.
Proof. vm_compute. split; reflexivity. Qed.
