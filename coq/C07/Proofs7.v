(* C07 proofs, part 7: scan_string (the UTF-8 re-encoding never needs more room
   than the symbol occupied) and the entry layer: scan_entry keeps the protocol
   invariant, so reading a file never panics. *)
From Coq Require Import NArith ZArith List Bool Arith Lia ZifyN ZifyBool ZifyNat.
From DV Require Import Base.Outcome Base.Bytes C07.Gen C07.Model C07.Proofs C07.Proofs2 C07.Proofs4 C07.Proofs6.
Import ListNotations.
Local Open Scope N_scope.

(* --------------------------------------------------------- UTF-8 length bound *)

Lemma lor_lt_pow2 a b n : 0 < n -> a < 2 ^ n -> b < 2 ^ n -> N.lor a b < 2 ^ n.
Proof.
  intros Hn Ha Hb. destruct (N.eq_dec (N.lor a b) 0) as [E|E]; [rewrite E; lia|].
  apply N.log2_lt_pow2; [lia|]. rewrite N.log2_lor. apply N.max_lub_lt.
  - destruct (N.eq_dec a 0) as [->|Ea]; [cbn; exact Hn|apply N.log2_lt_pow2; [lia|exact Ha]].
  - destruct (N.eq_dec b 0) as [->|Eb]; [cbn; exact Hn|apply N.log2_lt_pow2; [lia|exact Hb]].
Qed.

Lemma land63 c : N.land c 63 < 64.
Proof. change 63 with (N.ones 6). rewrite N.land_ones. apply N.mod_lt. discriminate. Qed.
Lemma land31 c : N.land c 31 < 32.
Proof. change 31 with (N.ones 5). rewrite N.land_ones. apply N.mod_lt. discriminate. Qed.
Lemma land15 c : N.land c 15 < 16.
Proof. change 15 with (N.ones 4). rewrite N.land_ones. apply N.mod_lt. discriminate. Qed.

Lemma bit4_clear_tbl : forallb (fun x => implb (N.land x 16 =? 0) (x <? 16)) (upto 32) = true.
Proof. vm_compute. reflexivity. Qed.

Lemma land31_bit4 c : N.land c 16 = 0 -> N.land c 31 < 16.
Proof.
  intros H. pose proof (land31 c) as B. set (x := N.land c 31) in *.
  assert (Hx : N.land x 16 = 0).
  { unfold x. rewrite <- N.land_assoc. change (N.land 31 16) with 16. exact H. }
  pose proof bit4_clear_tbl as T. rewrite forallb_forall in T.
  specialize (T x (upto_in x 32 ltac:(lia))). rewrite Hx in T. cbn in T. lia.
Qed.

Definition enc_len (c : N) : nat := length (encode_utf8 c).

Lemma enc_len_bound c : (c < 128 -> enc_len c = 1%nat) /\ (c < 2048 -> (enc_len c <= 2)%nat) /\
  (c < 65536 -> (enc_len c <= 3)%nat) /\ (enc_len c <= 4)%nat.
Proof.
  unfold enc_len, encode_utf8.
  destruct (c <? 128) eqn:E1; [cbn; repeat split; intros; lia|].
  destruct (c <? 2048) eqn:E2; [cbn; repeat split; intros; lia|].
  destruct (c <? 65536) eqn:E3; cbn; repeat split; intros; lia.
Qed.

(* re-encoding a decoded character needs at most the octets it was read from *)
Lemma sym_char_len l c n : sym_at l = SymOk (SChar c) n -> (enc_len c <= n)%nat.
Proof.
  unfold sym_at. destruct l as [|c1 t]; [discriminate|].
  destruct (c1 =? esc_char).
  - destruct t as [|c2 t2]; [discriminate|].
    destruct (is_ascii_control c2); [discriminate|].
    destruct (negb (is_digit c2)); [discriminate|].
    destruct t2 as [|c3 t3]; [discriminate|].
    destruct (is_digit c3); [|discriminate].
    destruct t3 as [|c4 t4]; [discriminate|].
    destruct (is_digit c4); [|discriminate].
    match goal with |- context [if ?b then _ else _] => destruct b end; discriminate.
  - destruct (c1 <? ascii_bound) eqn:Ea.
    { intros H; injection H as <- <-. rewrite ascii_bound_val in Ea.
      destruct (enc_len_bound c1) as (A & _). rewrite A by lia. lia. }
    destruct (N.land c1 64 =? 0); [discriminate|].
    destruct t as [|c2 t2]; [discriminate|].
    destruct (negb (cont c2)); [discriminate|].
    destruct (N.land c1 32 =? 0).
    { intros H. apply mkchar_ok in H as (-> & Hc & _). injection Hc as ->.
      destruct (enc_len_bound (N.lor (N.land c2 63) (N.shiftl (N.land c1 31) 6))) as (_ & B & _).
      apply B. change 2048 with (2 ^ 11). apply lor_lt_pow2; [lia| |].
      - pose proof (land63 c2). change (2 ^ 11) with 2048. lia.
      - rewrite N.shiftl_mul_pow2. pose proof (land31 c1). change (2 ^ 6) with 64. change (2 ^ 11) with 2048. lia. }
    destruct t2 as [|c3 t3]; [discriminate|].
    destruct (negb (cont c3)); [discriminate|].
    destruct (N.land c1 16 =? 0) eqn:E16.
    { intros H. apply mkchar_ok in H as (-> & Hc & _). injection Hc as ->.
      match goal with |- (enc_len ?v <= 3)%nat => destruct (enc_len_bound v) as (_ & _ & B & _); apply B end.
      apply N.eqb_eq in E16. pose proof (land31_bit4 c1 E16) as B16.
      change 65536 with (2 ^ 16). apply lor_lt_pow2; [lia| |].
      - pose proof (land63 c3). change (2 ^ 16) with 65536. lia.
      - apply lor_lt_pow2; [lia| |]; rewrite N.shiftl_mul_pow2.
        + pose proof (land63 c2). change (2 ^ 6) with 64. change (2 ^ 16) with 65536. lia.
        + change (2 ^ 12) with 4096. change (2 ^ 16) with 65536. lia. }
    destruct t3 as [|c4 t4]; [discriminate|].
    destruct (negb (cont c4)); [discriminate|].
    intros H. apply mkchar_ok in H as (-> & Hc & _). injection Hc as ->.
    match goal with |- (enc_len ?v <= 4)%nat => destruct (enc_len_bound v) as (_ & _ & _ & B); exact B end.
Qed.

Lemma into_char_len l sym n c : sym_at l = SymOk sym n -> into_char sym = Some c -> (enc_len c <= n)%nat.
Proof.
  intros Hs Hc. destruct sym as [x|b|b]; cbn [into_char] in Hc.
  - injection Hc as <-. eapply sym_char_len; eauto.
  - destruct ((char_esc_lo <=? b) && (b <? char_esc_hi_excl)) eqn:E; [|discriminate]. injection Hc as <-.
    assert (Hb : b < 128).
    { apply andb_true_iff in E as [_ E]. apply N.ltb_lt in E.
      assert (char_esc_hi_excl <= 128) by (vm_compute; discriminate). lia. }
    destruct (enc_len_bound b) as (A & _). rewrite A by exact Hb.
    pose proof (sym_at_len _ _ _ Hs). unfold sym_at in Hs.
    destruct l as [|c1 t]; [discriminate|]. destruct (c1 =? esc_char).
    + destruct t as [|c2 t2]; [discriminate|]. destruct (is_ascii_control c2); [discriminate|].
      destruct (negb (is_digit c2)); [injection Hs as _ <-; lia|].
      destruct t2 as [|c3 t3]; [discriminate|]. destruct (is_digit c3); [|discriminate].
      destruct t3 as [|c4 t4]; [discriminate|]. destruct (is_digit c4); [|discriminate].
      match type of Hs with context [if ?b then _ else _] => destruct b end; discriminate.
    + lia.
  - discriminate.
Qed.

(* --------------------------------------------------------------- scan_string *)

(* next_symbol's Some result tells how many octets were consumed *)
Lemma next_symbol_some s sym s' : next_symbol s = Ok (Some sym, s') ->
  exists n, sym_at (rest s) = SymOk sym n /\ s' = advance s n.
Proof.
  unfold next_symbol, next_symbol_gen. destruct (scat s); try discriminate;
  destruct (sym_at (rest s)) as [| |sy n] eqn:Es; try discriminate.
  - destruct (negb (is_word_char sy)); [discriminate|]. intros H; injection H as <- <-. eauto.
  - cbn. destruct (sym_eqb sy (SChar 34)); [discriminate|]. intros H; injection H as <- <-. eauto.
Qed.

Lemma next_symbol_gen_some_cat want s sym s' : next_symbol_gen want s = Ok (Some sym, s') -> scat s' = scat s.
Proof.
  unfold next_symbol_gen. destruct (scat s) eqn:Ec; try discriminate;
  destruct (sym_at (rest s)) as [| |sy n]; try discriminate.
  - destruct (negb (is_word_char sy)); [discriminate|]. destruct (want sy); [|discriminate].
    intros H; injection H as _ <-. cbn. exact Ec.
  - destruct (want sy); [|discriminate]. destruct (sym_eqb sy (SChar 34)); [discriminate|].
    intros H; injection H as _ <-. cbn. exact Ec.
Qed.

Definition cl_end (s s' : sbuf) : Prop :=
  (is_token (scat s') = true /\ scat s' = scat s) \/
  (scat s' = CNone /\ ((scat s = CQuo /\ (start s < start s')%nat) \/
                      (scat s = CUnq /\ exists d t, rest s' = d :: t /\ is_delim d = true))).

Lemma char_loop_good : forall fuel s, Inv s -> is_token (scat s) = true -> (length (rest s) < fuel)%nat ->
  good (fun s' => Inv s' /\ buf s' = buf s /\ (start s <= start s')%nat /\ cl_end s s') (char_loop fuel s).
Proof.
  induction fuel as [|f IH]; intros s HI Ht Hf; [lia|].
  cbn [char_loop]. unfold next_char_symbol.
  pose proof (next_symbol_gen_no_panic (fun sym => match sym with SChar _ => true | _ => false end) s) as NP.
  destruct (next_symbol_gen (fun sym => match sym with SChar _ => true | _ => false end) s) as [[r s1]| | |] eqn:E;
    cbn [bind good]; auto.
  pose proof (next_symbol_gen_inv _ _ _ _ HI E) as (HI1 & Hb & Hs & Hr & _).
  destruct r as [sym|].
  - destruct (Hr ltac:(discriminate)) as [Hlt Ht1].
    pose proof (next_symbol_gen_some_cat _ _ _ _ E) as Hc1.
    assert (Hf1 : (length (rest s1) < f)%nat).
    { rewrite (rest_length s HI) in Hf. rewrite (rest_length s1 HI1). unfold Inv in *. rewrite Hb in *. lia. }
    specialize (IH s1 HI1 Ht1 Hf1). destruct (char_loop f s1) as [s2| | |]; cbn [good] in *; auto.
    destruct IH as (A & B & C & D). split; [exact A|]. split; [congruence|]. split; [lia|].
    unfold cl_end in *. rewrite Hc1 in D.
    destruct D as [D | (D1 & [(D2 & D3) | D2])]; [left; exact D | right | right].
    + split; [exact D1|]. left. split; [exact D2|lia].
    + split; [exact D1|]. right. exact D2.
  - split; [exact HI1|]. split; [exact Hb|]. split; [exact Hs|]. unfold cl_end.
    unfold next_symbol_gen in E. destruct (scat s) eqn:Ec; try discriminate.
    + destruct (sym_at (rest s)) as [| |sy n] eqn:Es; try discriminate.
      destruct (negb (is_word_char sy)) eqn:Ew.
      * injection E as <-. right. apply negb_true_iff in Ew.
        destruct (nonword_is_raw_delim _ _ _ guards_ov Es Ew) as (c & t & Hl & _ & _ & Hd).
        split; [reflexivity|]. right. split; [reflexivity|].
        exists c, t. split; [|exact Hd]. unfold rest in *. cbn [set_cat buf start]. exact Hl.
      * destruct sy; try discriminate; injection E as <-; left; rewrite Ec; split; reflexivity.
    + destruct (sym_at (rest s)) as [| |sy n] eqn:Es; try discriminate.
      pose proof (sym_at_len _ _ _ Es) as Ln.
      destruct sy as [c|b|b].
      * cbn in E. destruct (c =? 34); [|discriminate]. injection E as <-. right.
        split; [reflexivity|]. left. split; [reflexivity|]. cbn. lia.
      * injection E as <-. left. rewrite Ec. split; reflexivity.
      * injection E as <-. left. rewrite Ec. split; reflexivity.
Qed.

Lemma string_loop_good : forall fuel s w, Inv s -> (w <= start s)%nat ->
  (is_token (scat s) = true \/ TEnd s w) -> (length (rest s) < fuel)%nat ->
  good (fun sw => TEnd (fst sw) (snd sw)) (string_loop fuel s w).
Proof.
  induction fuel as [|f IH]; intros s w HI Hw Ht Hf; [lia|].
  cbn [string_loop].
  pose proof (next_symbol_gen_no_panic (fun _ => true) s) as NP. fold next_symbol in NP.
  destruct (next_symbol s) as [[r s1]| | |] eqn:E; cbn [bind good]; auto.
  pose proof (next_symbol_gen_inv _ _ _ _ HI E) as (HI1 & Hb & Hs & Hr & Hsame).
  destruct r as [sym|].
  - destruct (Hr ltac:(discriminate)) as [Hlt Ht1].
    destruct (next_symbol_some _ _ _ E) as (n & Es & ->).
    destruct (into_char sym) as [c|] eqn:Ec; [|exact I].
    pose proof (into_char_len _ _ _ _ Es Ec) as Le. unfold enc_len in Le.
    assert (L : Nat.leb (w + length (encode_utf8 c)) (start (advance s n)) = true).
    { apply Nat.leb_le. cbn [advance start]. lia. }
    rewrite L.
    destruct (store_list_good (encode_utf8 c) (advance s n) w HI1 ltac:(apply Nat.leb_le; exact L))
      as (s2 & E2 & A & B & C & D & F).
    rewrite E2. cbn [bind].
    apply IH; auto.
    + rewrite B. apply Nat.leb_le in L. exact L.
    + left. congruence.
    + rewrite F. rewrite (rest_length s HI) in Hf. rewrite (rest_length _ HI1). unfold Inv in *.
      cbn [advance buf start] in *. lia.
  - cbn [good]. unfold TEnd. cbn [fst snd]. destruct Ht as [Ht | HT].
    + destruct (next_symbol_end _ _ HI Ht E) as (Hn & _ & _ & _ & Hd).
      split; [exact HI1|]. split; [exact Hn|].
      destruct Hd as [Hd | Hd]; [left; lia | right; split; [lia|exact Hd]].
    + destruct HT as (_ & Hn & Hd). rewrite (Hsame Hn). split; [exact HI|]. split; [exact Hn|exact Hd].
Qed.

Lemma scan_string_good s : string_drops_quote = true ->
  PInv s -> good (fun rs => PInv (snd rs)) (scan_string s).
Proof.
  intros Hflag (HI & H1 & Hfr). unfold scan_string. rewrite Hflag.
  destruct (require_token s) as [[]| | |] eqn:Erq; cbn [bind good]; auto;
    try (unfold require_token in Erq; destruct (scat s); discriminate Erq).
  assert (Htok : is_token (scat s) = true).
  { unfold require_token in Erq. destruct (scat s); try discriminate Erq; reflexivity. }
  pose proof (trim_to_spec s (start s) HI) as T. rewrite Nat.leb_refl in T.
  destruct T as (s0 & E0 & HI0 & Hst0 & Hr0 & Hc0 & _). rewrite E0. cbn [bind].
  assert (Hfu : (length (rest s0) < fuel_of s0)%nat) by (rewrite (rest_length s0 HI0); unfold fuel_of; lia).
  eapply good_bind; [apply (char_loop_good (fuel_of s0) s0 HI0 ltac:(congruence) Hfu)|].
  intros s1 _ (HI1 & Hb1 & Hs1 & Hd1).
  assert (Hfu1 : (length (rest s1) < fuel_of s1)%nat) by (rewrite (rest_length s1 HI1); unfold fuel_of; lia).
  set (w0 := if true && match scat s0 with CQuo => true | _ => false end &&
                match scat s1 with CNone => true | _ => false end then Nat.pred (start s1) else start s1).
  assert (Hw0 : (w0 <= start s1)%nat /\ (is_token (scat s1) = true \/ TEnd s1 w0)).
  { unfold w0. destruct Hd1 as [(D1 & D2) | (D1 & [(D2 & D3) | (D2 & D3)])].
    - destruct (scat s1); try discriminate D1; rewrite andb_false_r; split; auto.
    - rewrite D1, D2. cbn [andb]. split; [lia|]. right.
      split; [exact HI1|]. split; [rewrite D1; reflexivity|]. left. lia.
    - rewrite D1, D2. cbn [andb]. split; [lia|]. right.
      split; [exact HI1|]. split; [rewrite D1; reflexivity|]. right. split; [lia|exact D3]. }
  destruct Hw0 as (Hw0 & Hd0).
  eapply good_bind; [apply (string_loop_good (fuel_of s1) s1 w0 HI1 Hw0 Hd0 Hfu1)|].
  intros [s2 w2] _ HT. cbn [fst snd] in *. apply finish_split. exact HT.
Qed.

(* without the correction the closing quote stays in the string and, when the
   next token follows without a blank, no octet is left in front of it:
   $INCLUDE "f"x.   *)
Definition w_include : list N := [36;73;78;67;76;85;68;69;32;34;102;34;120;46;10].

Theorem scan_string_quote_refuted : string_drops_quote = false ->
  snd (read_file w_include) = EPanic 4
  /\ fst (read_file [36;73;78;67;76;85;68;69;32;34;102;34;10]) = [EInclude [102; 34] None].
Proof. intros H. revert H. vm_compute. intros H; first [discriminate H | (split; reflexivity)]. Qed.

Theorem scan_string_quote_fixed : string_drops_quote = true ->
  read_file w_include = ([EInclude [102] (Some [1; 120; 0])], EEof).
Proof. intros H. revert H. vm_compute. intros H; first [discriminate H | reflexivity]. Qed.
