(* C07 -- property theorems only.  Proofs live in C07/Proofs*.v. *)
From Coq Require Import NArith List Bool Arith.
From DV Require Import Base.Outcome Base.Bytes C07.Gen C07.Model C07.Proofs C07.Proofs2 C07.Proofs3 C07.Proofs4 C07.Proofs5 C07.Proofs6 C07.Proofs7 C07.Proofs8 C07.Proofs9 C07.Proofs10 C07.Proofs11 C07.Proofs12 C07.Proofs13 C07.Proofs14.
Import ListNotations.
Local Open Scope N_scope.

Theorem C07_next_item_total : forall s, Inv s -> is_token (scat s) = false ->
  (exists s', next_item s = Ok s' /\ Inv s' /\ (start s <= start s')%nat /\ buf s' = buf s)
  \/ next_item s = Err 4.
Proof. exact next_item_total. Qed.
Print Assumptions C07_next_item_total.

Theorem C07_next_item_panics_iff : forall s,
  (exists p, next_item s = Panic p) <-> is_token (scat s) = true.
Proof. exact next_item_panics_iff. Qed.
Print Assumptions C07_next_item_panics_iff.

Theorem C07_symbol_reader_no_panic : forall want s, no_panic (next_symbol_gen want s).
Proof. exact next_symbol_gen_no_panic. Qed.
Print Assumptions C07_symbol_reader_no_panic.

Theorem C07_symbol_reader_inv : forall want s r s',
  Inv s -> next_symbol_gen want s = Ok (r, s') ->
  Inv s' /\ buf s' = buf s /\ (start s <= start s')%nat /\
  (r <> None -> (start s < start s')%nat /\ is_token (scat s') = true) /\
  (is_token (scat s) = false -> s' = s).
Proof. exact next_symbol_gen_inv. Qed.
Print Assumptions C07_symbol_reader_inv.

Theorem C07_ascii_reader_inv : forall s r s',
  Inv s -> next_ascii_symbol s = (r, s') ->
  Inv s' /\ buf s' = buf s /\ (start s <= start s')%nat /\
  (r <> None -> start s' = S (start s) /\ scat s' = scat s).
Proof. exact next_ascii_symbol_inv. Qed.
Print Assumptions C07_ascii_reader_inv.

Theorem C07_split_to_spec : forall s a, Inv s ->
  if Nat.leb a (start s)
  then exists r s', split_to s a = Ok (r, s') /\ Inv s' /\ length r = a /\ start s' = (start s - a)%nat
  else split_to s a = Panic 2.
Proof. exact split_to_spec. Qed.
Print Assumptions C07_split_to_spec.

Theorem C07_trim_to_spec : forall s a, Inv s ->
  if Nat.leb a (start s)
  then exists s', trim_to s a = Ok s' /\ Inv s' /\ start s' = (start s - a)%nat /\
                  rest s' = rest s /\ scat s' = scat s /\ par s' = par s /\ hsp s' = hsp s
  else trim_to s a = Panic 3.
Proof. exact trim_to_spec. Qed.
Print Assumptions C07_trim_to_spec.

Theorem C07_store_spec : forall s i v, Inv s ->
  if Nat.ltb i (length (buf s))
  then exists s', store s i v = Ok s' /\ Inv s' /\ start s' = start s /\ scat s' = scat s /\
                  length (buf s') = length (buf s) /\ ((i < start s)%nat -> rest s' = rest s)
  else store s i v = Panic 5.
Proof. exact store_spec. Qed.
Print Assumptions C07_store_spec.

Theorem C07_scan_octets_total : forall s, Inv s -> no_panic (scan_octets s).
Proof. exact scan_octets_total. Qed.
Print Assumptions C07_scan_octets_total.

Theorem C07_write_loop_total : forall conv fuel s w, Inv s -> (w <= start s)%nat ->
  (length (rest s) < fuel)%nat ->
  match write_loop conv fuel s w with
  | Ok (s', w') => Inv s' /\ (w' <= start s')%nat /\ (start s <= start s')%nat /\
                   is_token (scat s') = false /\ length (buf s') = length (buf s)
  | Err _ => True
  | _ => False
  end.
Proof. exact write_loop_total. Qed.
Print Assumptions C07_write_loop_total.

Theorem C07_limits_rfc1035 :
  (label_latest = 64%nat /\ label_latest_ge = true) /\
  (charstr_latest = 255%nat /\ charstr_latest_ge = false) /\
  (name_max = 254%nat /\ name_max_ge = false) /\ chain_max = 255%nat /\
  default_ttl = 3600 /\ init_start = 1%nat /\
  octet_lo = 32 /\ octet_hi = 126 /\ esc_char = 92.
Proof. exact limits_rfc1035. Qed.
Print Assumptions C07_limits_rfc1035.

Theorem C07_delims_agree : forall b, b < 128 -> is_word_char (SChar b) = negb (is_delim b).
Proof. exact delims_agree. Qed.
Print Assumptions C07_delims_agree.

Theorem C07_ascii_fast_path_word_chars : forall b, asc_unq_ok b = true ->
  b < 128 /\ is_word_char (SChar b) = true /\ b <> esc_char.
Proof. exact asc_unq_ok_spec. Qed.
Print Assumptions C07_ascii_fast_path_word_chars.

Theorem C07_nonword_is_raw_delim : forall l s n,
  overlong_rejected = true ->
  sym_at l = SymOk s n -> is_word_char s = false ->
  exists c t, l = c :: t /\ n = 1%nat /\ s = SChar c /\ is_delim c = true.
Proof. exact nonword_is_raw_delim. Qed.
Print Assumptions C07_nonword_is_raw_delim.

Theorem C07_nonword_is_raw_delim_refuted : overlong_rejected = false ->
  exists l s n, sym_at l = SymOk s n /\ is_word_char s = false /\ n <> 1%nat.
Proof. exact nonword_is_raw_delim_refuted. Qed.
Print Assumptions C07_nonword_is_raw_delim_refuted.

Theorem C07_items_total : overlong_rejected = true ->
  forall file, match snd (items_of file) with EEof | EErr _ => True | _ => False end.
Proof. exact items_total. Qed.
Print Assumptions C07_items_total.

Theorem C07_items_total_refuted : overlong_rejected = false ->
  exists file, snd (items_of file) = EFuel.
Proof. exact items_total_refuted. Qed.
Print Assumptions C07_items_total_refuted.

Theorem C07_token_symbols_refine : forall fuel s acc,
  is_token (scat s) = true ->
  match syms_l fuel (match scat s with CQuo => true | _ => false end) (rest s) acc with
  | Some (syms, l') =>
    exists s', syms_loop fuel s acc = Ok (syms, s') /\ rest s' = l' /\ scat s' = CNone /\ buf s' = buf s
  | None => True
  end.
Proof. exact syms_loop_refines. Qed.
Print Assumptions C07_token_symbols_refine.

Theorem C07_layout_spacing : forall ws1 ws2 t p h,
  Forall (fun c => is_space c = true) ws1 -> ws1 <> [] ->
  Forall (fun c => is_space c = true) ws2 -> ws2 <> [] ->
  ni_view (ws1 ++ t) p h = ni_view (ws2 ++ t) p h.
Proof. exact layout_spacing. Qed.
Print Assumptions C07_layout_spacing.

Theorem C07_layout_comment : forall c t p h, Forall (fun x => x <> ni_comment_end) c ->
  ni_view (ni_comment :: c ++ ni_newline :: t) p h = ni_view (ni_newline :: t) p h.
Proof. exact layout_comment. Qed.
Print Assumptions C07_layout_comment.

Theorem C07_layout_parens_open : forall ws1 ws2 ws3 t p h,
  Forall (fun c => is_space c = true) ws1 -> ws1 <> [] ->
  Forall (fun c => is_space c = true) ws2 ->
  Forall (fun c => is_space c = true) ws3 -> ws3 <> [] ->
  ni_view (ws1 ++ ni_open :: ws2 ++ ni_newline :: ws3 ++ t) p h = ni_view (ws1 ++ t) (S p) h.
Proof. exact layout_parens_open. Qed.
Print Assumptions C07_layout_parens_open.

Theorem C07_layout_newline_in_group : forall t p h,
  ni_view (ni_newline :: t) (S p) h = ni_view t (S p) h.
Proof. exact ni_view_newline_in_group. Qed.
Print Assumptions C07_layout_newline_in_group.

Theorem C07_layout_parens_close : forall ws t p h,
  Forall (fun c => is_space c = true) ws -> ws <> [] ->
  ni_view (ws ++ ni_close :: t) (S p) h = ni_view t p true.
Proof. exact layout_parens_close. Qed.
Print Assumptions C07_layout_parens_close.

Theorem C07_layout_crlf : forall t p h,
  ni_view (13 :: ni_newline :: t) p h = ni_view (ni_newline :: t) p true.
Proof. exact layout_crlf. Qed.
Print Assumptions C07_layout_crlf.

Theorem C07_layout_blank_line : forall zs s t,
  is_token (scat s) = false -> par s = 0%nat -> rest s = ni_newline :: t ->
  scan_entry zs s = Ok (SEmpty, zs, mkS (buf s) (S (start s)) CLF false 0).
Proof. exact scan_entry_blank_line. Qed.
Print Assumptions C07_layout_blank_line.

Theorem C07_quoted_equals_escaped : forall w d t1 t2,
  wf_bytes w -> is_delim d = true -> d < 128 -> d <> esc_char ->
  exists sq su,
    syms_l (S (length w)) true (concat (map q_enc w) ++ 34 :: t1) [] = Some (sq, t1) /\
    syms_l (S (length w)) false (concat (map u_enc w) ++ d :: t2) [] = Some (su, d :: t2) /\
    map into_octet sq = map Some w /\ map into_octet su = map Some w.
Proof. exact quoted_equals_escaped. Qed.
Print Assumptions C07_quoted_equals_escaped.

Theorem C07_scan_owner_record_is_astep : forall zs s owner new_owner cls ttl rtype s1 d s2,
  scan_ctr s = Ok (cls, ttl, rtype, s1) ->
  scan_rdata (origin zs) rtype s1 = Ok (d, s2) -> is_line_feed s2 = true ->
  last_owner zs = Some owner \/ new_owner = true ->
  match astep zs (mkL (if new_owner then Some owner else None) cls ttl rtype d) with
  | Ok (e, zs') => scan_owner_record zs s owner new_owner = Ok (SEntry e, zs', s2)
  | Err e => scan_owner_record zs s owner new_owner = Err e
  | _ => False
  end.
Proof. exact scan_owner_record_spec. Qed.
Print Assumptions C07_scan_owner_record_is_astep.

Theorem C07_explicit_equals_inherited_owner : forall pre post zs zs' o cl tt rt rd,
  astate zs pre = Ok zs' -> last_owner zs' = Some o ->
  arecords zs (pre ++ mkL (Some o) cl tt rt rd :: post) = arecords zs (pre ++ mkL None cl tt rt rd :: post).
Proof. exact explicit_equals_inherited_owner. Qed.
Print Assumptions C07_explicit_equals_inherited_owner.

Theorem C07_explicit_equals_inherited_class : forall pre post zs zs' ow c tt rt rd,
  astate zs pre = Ok zs' -> last_class zs' = Some c ->
  arecords zs (pre ++ mkL ow (Some c) tt rt rd :: post) = arecords zs (pre ++ mkL ow None tt rt rd :: post).
Proof. exact explicit_equals_inherited_class. Qed.
Print Assumptions C07_explicit_equals_inherited_class.

Theorem C07_explicit_equals_inherited_ttl : forall pre post zs zs' ow cl rt rd,
  astate zs pre = Ok zs' ->
  arecords zs (pre ++ mkL ow cl (Some (inherited_ttl zs')) rt rd :: post)
  = arecords zs (pre ++ mkL ow cl None rt rd :: post).
Proof. exact explicit_equals_inherited_ttl. Qed.
Print Assumptions C07_explicit_equals_inherited_ttl.

Theorem C07_relative_equals_absolute : forall (rel o' : list N),
  (length rel + length (o' ++ [0%N]) <= chain_max)%nat ->
  chain rel (o' ++ [0]) = chain (rel ++ o') [0].
Proof. exact relative_equals_absolute. Qed.
Print Assumptions C07_relative_equals_absolute.

Theorem C07_checked_digit_addition_never_overflows : forall fuel maxv s res,
  uint_loop fuel maxv true s res <> Panic 7.
Proof. exact uint_loop_no_overflow_panic. Qed.
Print Assumptions C07_checked_digit_addition_never_overflows.

Theorem C07_overlong_panics_refuted : overlong_rejected = false ->
  snd (read_file w_overlong) = EPanic 4.
Proof. exact overlong_panics_refuted. Qed.
Print Assumptions C07_overlong_panics_refuted.

Theorem C07_overlong_fixed : overlong_rejected = true -> snd (read_file w_overlong) = EErr 1.
Proof. exact overlong_fixed. Qed.
Print Assumptions C07_overlong_fixed.

Theorem C07_charstr_entry_panics_refuted : charstr_requires_token = false ->
  snd (read_file w_txt_eof) = EPanic 5.
Proof. exact charstr_entry_panics_refuted. Qed.
Print Assumptions C07_charstr_entry_panics_refuted.

Theorem C07_charstr_entry_fixed : charstr_requires_token = true -> snd (read_file w_txt_eof) = EErr 12.
Proof. exact charstr_entry_fixed. Qed.
Print Assumptions C07_charstr_entry_fixed.

Theorem C07_int_overflow_panics_refuted : int_add_checked = false ->
  snd (read_file w_int) = EPanic 7.
Proof. exact int_overflow_panics_refuted. Qed.
Print Assumptions C07_int_overflow_panics_refuted.

Theorem C07_int_overflow_fixed : int_add_checked = true -> snd (read_file w_int) = EErr 14.
Proof. exact int_overflow_fixed. Qed.
Print Assumptions C07_int_overflow_fixed.

Theorem C07_at_in_rdata_refuted : scan_name_handles_at = false ->
  read_file w_at <> read_file w_at_abs /\
  read_file w_at = ([ERecord [1; 120; 0] 1 1 2 [1; 64; 1; 120; 0]], EEof).
Proof. exact at_in_rdata_refuted. Qed.
Print Assumptions C07_at_in_rdata_refuted.

Theorem C07_at_in_rdata_fixed : scan_name_handles_at = true -> read_file w_at = read_file w_at_abs.
Proof. exact at_in_rdata_fixed. Qed.
Print Assumptions C07_at_in_rdata_fixed.

Theorem C07_reader_guards_present :
  overlong_rejected = true /\ int_add_checked = true /\ ttl_add_checked = true /\
  charstr_requires_token = true /\ scan_name_handles_at = true.
Proof. exact reader_guards_present. Qed.
Print Assumptions C07_reader_guards_present.

Theorem C07_items_total_all : forall file,
  match snd (items_of file) with EEof | EErr _ => True | _ => False end.
Proof. exact items_total_all. Qed.
Print Assumptions C07_items_total_all.

Theorem C07_scan_uint_no_overflow_panic : forall fuel maxv s res,
  uint_loop fuel maxv int_add_checked s res <> Panic 7 /\
  uint_loop fuel maxv ttl_add_checked s res <> Panic 7.
Proof. exact scan_uint_no_overflow_panic. Qed.
Print Assumptions C07_scan_uint_no_overflow_panic.

Theorem C07_items_of_Lex : forall file, Lex file 0 (fst (items_of file)) (snd (items_of file)).
Proof. exact items_of_Lex. Qed.
Print Assumptions C07_items_of_Lex.

Theorem C07_Lex_deterministic : forall l p i1 e1, Lex l p i1 e1 ->
  forall i2 e2, Lex l p i2 e2 -> i1 = i2 /\ e1 = e2.
Proof. exact Lex_det. Qed.
Print Assumptions C07_Lex_deterministic.

Theorem C07_reader_is_local : forall r1 r2, delim_head r1 -> delim_head r2 ->
  forall l p its l' p', Reach l p its l' p' -> forall u, l = u ++ r1 -> (length r1 <= length l')%nat ->
  exists u', l' = u' ++ r1 /\ Reach (u ++ r2) p its (u' ++ r2) p'.
Proof. exact Reach_local. Qed.
Print Assumptions C07_reader_is_local.

Theorem C07_layout_whole_file : forall pre r1 r2 its1 p1,
  delim_head r1 -> delim_head r2 -> same_view r1 r2 ->
  Reach (pre ++ r1) 0 its1 r1 p1 ->
  items_of (pre ++ r1) = items_of (pre ++ r2).
Proof. exact layout_whole_file. Qed.
Print Assumptions C07_layout_whole_file.

Theorem C07_layout_spacing_whole_file : forall pre ws1 ws2 t its1 p1,
  Forall (fun c => is_space c = true) ws1 -> ws1 <> [] ->
  Forall (fun c => is_space c = true) ws2 -> ws2 <> [] ->
  Reach (pre ++ ws1 ++ t) 0 its1 (ws1 ++ t) p1 ->
  items_of (pre ++ ws1 ++ t) = items_of (pre ++ ws2 ++ t).
Proof. exact layout_spacing_whole_file. Qed.
Print Assumptions C07_layout_spacing_whole_file.

Theorem C07_layout_comment_whole_file : forall pre c t its1 p1,
  Forall (fun x => x <> ni_comment_end) c ->
  Reach (pre ++ ni_newline :: t) 0 its1 (ni_newline :: t) p1 ->
  items_of (pre ++ ni_newline :: t) = items_of (pre ++ ni_comment :: c ++ ni_newline :: t).
Proof. exact layout_comment_whole_file. Qed.
Print Assumptions C07_layout_comment_whole_file.

Theorem C07_layout_crlf_whole_file : forall pre t its1 p1,
  Reach (pre ++ 32 :: ni_newline :: t) 0 its1 (32 :: ni_newline :: t) p1 ->
  items_of (pre ++ 32 :: ni_newline :: t) = items_of (pre ++ 32 :: 13 :: ni_newline :: t).
Proof. exact layout_crlf_whole_file. Qed.
Print Assumptions C07_layout_crlf_whole_file.

Theorem C07_scan_octets_protocol : forall s, PInv s -> good (fun rs => PInv (snd rs)) (scan_octets s).
Proof. exact scan_octets_good. Qed.
Print Assumptions C07_scan_octets_protocol.

Theorem C07_scan_ascii_str_protocol : forall A (op : list N -> outcome A) s,
  (forall l, no_panic (op l)) -> PInv s -> good (fun rs => PInv (snd rs)) (scan_ascii_str op s).
Proof. exact @scan_ascii_str_good. Qed.
Print Assumptions C07_scan_ascii_str_protocol.

Theorem C07_scan_uint_protocol : forall maxv s, PInv s -> good (fun rs => PInv (snd rs)) (scan_uint maxv true s).
Proof. exact scan_uint_good. Qed.
Print Assumptions C07_scan_uint_protocol.

Theorem C07_scan_name_protocol : forall origin s, PInv s -> good (fun rs => PInv (snd rs)) (scan_name origin s).
Proof. exact scan_name_good. Qed.
Print Assumptions C07_scan_name_protocol.

Theorem C07_scan_charstr_entry_protocol : forall s, PInv s -> good (fun rs => PInv (snd rs)) (scan_charstr_entry s).
Proof. exact scan_charstr_entry_good. Qed.
Print Assumptions C07_scan_charstr_entry_protocol.

Theorem C07_convert_entry_protocol : forall (St : Type) process tail (SI : St -> Prop),
  (forall h sym, SI h -> good (fun x => SI (fst x)) (process h sym)) -> (forall h, no_panic (tail h)) ->
  forall init s, SI init -> PInv s -> good (fun rs => PInv (snd rs)) (convert_entry St process tail init s).
Proof. exact convert_entry_good. Qed.
Print Assumptions C07_convert_entry_protocol.

Theorem C07_base64_converter_total : forall c sym, b64_si c -> good (fun x => b64_si (fst x)) (b64_process c sym).
Proof. exact b64_process_total. Qed.
Print Assumptions C07_base64_converter_total.

Theorem C07_skip_markers_protocol : forall s, PInv s ->
  good (fun bs => PInv (snd bs) /\ (fst bs = false -> snd bs = s)) (skip_at_token s) /\
  good (fun bs => PInv (snd bs) /\ (fst bs = false -> snd bs = s)) (skip_unknown_marker s).
Proof. intros s H. split; [exact (skip_at_token_good s H) | exact (skip_unknown_marker_good s H)]. Qed.
Print Assumptions C07_skip_markers_protocol.

Theorem C07_method_sequences_protocol :
  forall origin ms s, Forall meth_ok ms -> PInv s -> good PInv (run_type_scan origin ms s).
Proof. exact run_type_scan_good. Qed.
Print Assumptions C07_method_sequences_protocol.

Theorem C07_type_scans_decodable :
  forallb (fun x => match decode_meths (snd x) with Some _ => true | None => false end) type_scans = true.
Proof. exact type_scans_decodable. Qed.
Print Assumptions C07_type_scans_decodable.

Theorem C07_schema_matches_source :
  forallb (fun x => match schema (fst x) with
                    | Some fs => if list_eq_dec N.eq_dec (map field_code fs) (snd x) then true else false
                    | None => true end) type_scans = true
  /\ forallb (fun rt => match schema rt with Some _ => existsb (fun x => fst x =? rt) type_scans | None => false end)
       [1; 2; 3; 4; 5; 6; 7; 8; 9; 12; 13; 14; 15; 16; 17; 33; 35; 39; 44; 47; 50; 51; 52; 61] = true.
Proof. exact schema_matches_source. Qed.
Print Assumptions C07_schema_matches_source.

Theorem C07_type_scan_total : forall rt codes ms origin s,
  In (rt, codes) type_scans -> decode_meths codes = Some ms ->
  PInv s -> good PInv (run_type_scan origin ms s).
Proof. exact type_scan_total. Qed.
Print Assumptions C07_type_scan_total.

Theorem C07_utf8_reencode_fits : forall l sym n c,
  sym_at l = SymOk sym n -> into_char sym = Some c -> (enc_len c <= n)%nat.
Proof. exact into_char_len. Qed.
Print Assumptions C07_utf8_reencode_fits.

Theorem C07_scan_string_protocol : forall s, string_drops_quote = true ->
  PInv s -> good (fun rs => PInv (snd rs)) (scan_string s).
Proof. exact scan_string_good. Qed.
Print Assumptions C07_scan_string_protocol.

Theorem C07_scan_string_quote_refuted : string_drops_quote = false ->
  snd (read_file w_include) = EPanic 4
  /\ fst (read_file [36;73;78;67;76;85;68;69;32;34;102;34;10]) = [EInclude [102; 34] None].
Proof. exact scan_string_quote_refuted. Qed.
Print Assumptions C07_scan_string_quote_refuted.

Theorem C07_scan_string_quote_fixed : string_drops_quote = true ->
  read_file w_include = ([EInclude [102] (Some [1; 120; 0])], EEof).
Proof. exact scan_string_quote_fixed. Qed.
Print Assumptions C07_scan_string_quote_fixed.

Theorem C07_empty_label_rejected : name_rejects_empty_label = true.
Proof. exact empty_label_rejected. Qed.
Print Assumptions C07_empty_label_rejected.

Theorem C07_empty_label_fixed : name_rejects_empty_label = true -> read_file w_dots = ([], EErr 3).
Proof. exact empty_label_fixed. Qed.
Print Assumptions C07_empty_label_fixed.

Theorem C07_empty_label_refuted : name_rejects_empty_label = false ->
  read_file w_dots = ([ERecord [1; 97; 0; 1; 98; 0] 1 1 1 [1; 2; 3; 4]], EEof).
Proof. exact empty_label_refuted. Qed.
Print Assumptions C07_empty_label_refuted.

Theorem C07_scan_entry_protocol : forall zs s, string_drops_quote = true ->
  PInv s -> is_token (scat s) = false -> good entry_good (scan_entry zs s).
Proof. exact scan_entry_good. Qed.
Print Assumptions C07_scan_entry_protocol.

Theorem C07_reader_no_panic : string_drops_quote = true ->
  forall file, match snd (read_file file) with EPanic _ => False | _ => True end.
Proof. exact reader_no_panic. Qed.
Print Assumptions C07_reader_no_panic.

Theorem C07_inner_fuel_suffices : string_drops_quote = true ->
  forall zs s, PInv s -> is_token (scat s) = false -> scan_entry zs s <> OutOfFuel.
Proof. exact inner_fuel_suffices. Qed.
Print Assumptions C07_inner_fuel_suffices.

Theorem C07_reader_no_panic_now :
  if string_drops_quote
  then forall file, match snd (read_file file) with EPanic _ => False | _ => True end
  else True.
Proof. exact reader_no_panic_now. Qed.
Print Assumptions C07_reader_no_panic_now.

Theorem C07_limits_symbols :
  ascii_lo = 32 /\ ascii_hi = 126 /\ ascii_esc_lo = 32 /\ ascii_esc_hi = 126 /\
  char_esc_lo = 32 /\ char_esc_hi_excl = 127 /\ ascii_bound = 128 /\
  asc_lo = 33 /\ asc_hi = 127 /\ asc_q_end = 34 /\
  rtype_prefix = [84; 89; 80; 69] /\ class_prefix = [67; 76; 65; 83; 83].
Proof. exact limits_symbols. Qed.
Print Assumptions C07_limits_symbols.

Theorem C07_schema_mnemonics_all :
  map (from_mnemonic rtype_table)
    [[77;68]; [77;70]; [77;66]; [77;71]; [77;82]; [77;73;78;70;79]; [82;80]; [68;78;65;77;69];
     [83;83;72;70;80]; [84;76;83;65]; [79;80;69;78;80;71;80;75;69;89]]
  = map Some [3; 4; 7; 8; 9; 14; 17; 39; 44; 52; 61]
  /\ map (from_mnemonic class_table) [[73;78]; [67;72]; [72;83]; [78;79;78;69]; [42]]
    = map Some [1; 3; 4; 254; 255].
Proof. exact schema_mnemonics_all. Qed.
Print Assumptions C07_schema_mnemonics_all.

Theorem C07_string_quote_dropped : string_drops_quote = true.
Proof. exact string_quote_dropped. Qed.
Print Assumptions C07_string_quote_dropped.

Theorem C07_reader_no_panic_all : forall file,
  match snd (read_file file) with EPanic _ => False | _ => True end.
Proof. exact reader_no_panic_all. Qed.
Print Assumptions C07_reader_no_panic_all.

Theorem C07_layout_whole_file_gen : forall pre r1 r2 its1 p1,
  delim_head r1 -> delim_head r2 ->
  (forall its e, Lex r1 p1 its e -> Lex r2 p1 its e) ->
  Reach (pre ++ r1) 0 its1 r1 p1 ->
  items_of (pre ++ r1) = items_of (pre ++ r2).
Proof. exact layout_whole_file_gen. Qed.
Print Assumptions C07_layout_whole_file_gen.

Theorem C07_layout_parens_whole_file : forall pre m post its1 its2 p1,
  delim_head m ->
  Reach (pre ++ m ++ ni_newline :: post) 0 its1 (m ++ ni_newline :: post) p1 ->
  Reach (m ++ ni_newline :: post) p1 its2 (ni_newline :: post) p1 -> NoLF its2 ->
  items_of (pre ++ m ++ ni_newline :: post)
  = items_of (pre ++ ni_open :: m ++ ni_close :: ni_newline :: post).
Proof. exact layout_parens_whole_file. Qed.
Print Assumptions C07_layout_parens_whole_file.

Theorem C07_layout_newline_in_group_whole_file : forall pre ws ws1 ws2 t its1 p,
  Forall (fun c => is_space c = true) ws -> ws <> [] ->
  Forall (fun c => is_space c = true) ws1 -> ws1 <> [] ->
  Forall (fun c => is_space c = true) ws2 ->
  Reach (pre ++ ws ++ t) 0 its1 (ws ++ t) (S p) ->
  items_of (pre ++ ws ++ t) = items_of (pre ++ ws1 ++ ni_newline :: ws2 ++ t).
Proof. exact layout_newline_in_group_whole_file. Qed.
Print Assumptions C07_layout_newline_in_group_whole_file.

Theorem C07_scan_entry_consumes : forall zs s x zs' s', PInv s -> is_token (scat s) = false ->
  scan_entry zs s = Ok (x, zs', s') -> x = SEof \/ (rem s' < rem s)%nat.
Proof. exact scan_entry_consumes. Qed.
Print Assumptions C07_scan_entry_consumes.

Theorem C07_reader_total : forall file,
  match snd (read_file file) with EEof | EErr _ => True | _ => False end.
Proof. exact reader_total. Qed.
Print Assumptions C07_reader_total.

Theorem C07_escape2_table : forall c t, c < 256 -> negb ((48 <=? c) && (c <=? 57)) = true ->
  sym_at (esc_char :: c :: t) = escape2_spec c.
Proof. exact escape2_table. Qed.
Print Assumptions C07_escape2_table.

Theorem C07_escape4_table : forall a b c t, a < 10 -> b < 10 -> c < 10 ->
  sym_at (esc_char :: 48 + a :: 48 + b :: 48 + c :: t) = escape4_spec a b c.
Proof. exact escape4_table. Qed.
Print Assumptions C07_escape4_table.

Theorem C07_parsed_stops_at_error : parsed_stops_at_error = true.
Proof. exact parsed_stops. Qed.
Print Assumptions C07_parsed_stops_at_error.

Theorem C07_parsed_total : forall file,
  match snd (parsed_file file) with EEof | EErr _ => True | _ => False end.
Proof. exact parsed_total. Qed.
Print Assumptions C07_parsed_total.

Theorem C07_parsed_reads_on_refuted : parsed_stops_at_error = false -> snd (parsed_file [41; 10]) = EFuel.
Proof. exact parsed_reads_on_refuted. Qed.
Print Assumptions C07_parsed_reads_on_refuted.

Theorem C07_convert_token_protocol : forall (St : Type) process tail_data (SI : St -> Prop) (credit : St -> nat),
  (forall h sym, SI h ->
     good (fun x => SI (fst x) /\ (credit (fst x) + length (snd x) <= credit h + 1)%nat) (process h sym)) ->
  (forall h, SI h -> good (fun d => (length d <= credit h)%nat) (tail_data h)) ->
  forall init s, SI init -> credit init = 0%nat -> PInv s ->
  good (fun rs => PInv (snd rs)) (convert_token St process tail_data init s).
Proof. exact convert_token_good. Qed.
Print Assumptions C07_convert_token_protocol.

Theorem C07_nsec3_converters_protocol : forall s, PInv s ->
  good (fun rs => PInv (snd rs)) (convert_token_salt s) /\ good (fun rs => PInv (snd rs)) (convert_token_hash s).
Proof. intros s H. split; [exact (convert_token_salt_good s H) | exact (convert_token_hash_good s H)]. Qed.
Print Assumptions C07_nsec3_converters_protocol.

Theorem C07_rtype_bitmap_loop_protocol : forall fuel s, PInv s -> (length (buf s) - start s < fuel)%nat ->
  good PInv (while_ascii fuel s).
Proof. exact while_ascii_good. Qed.
Print Assumptions C07_rtype_bitmap_loop_protocol.

Theorem C07_scan_svcb_octets_protocol : forall s, PInv s ->
  good (fun rs => PInv (snd rs) /\ (length (rest (snd rs)) < length (rest s))%nat) (scan_svcb_octets s).
Proof. exact scan_svcb_octets_good. Qed.
Print Assumptions C07_scan_svcb_octets_protocol.

Theorem C07_all_zone_types_resolved : type_scans_unresolved = [250].
Proof. vm_compute. reflexivity. Qed.
Print Assumptions C07_all_zone_types_resolved.

Theorem C07_scan_bitmap_protocol : forall fuel s bs, PInv s -> (length (buf s) - start s < fuel)%nat ->
  good (fun rs => PInv (snd rs)) (scan_bitmap fuel s bs).
Proof. exact scan_bitmap_good. Qed.
Print Assumptions C07_scan_bitmap_protocol.

Theorem C07_load_copies_octets : load_copies_octets = true.
Proof. exact load_copies. Qed.
Print Assumptions C07_load_copies_octets.

Theorem C07_scan_octets_plain_value : forall s tok d t r s2,
  scat s = CUnq -> rest s = tok ++ d :: t -> plain tok ->
  is_delim d = true -> d < 128 -> d <> esc_char ->
  scan_octets s = Ok (r, s2) -> r = tok.
Proof. exact scan_octets_plain_value. Qed.
Print Assumptions C07_scan_octets_plain_value.

Theorem C07_write_loop_value : forall syms l l', Toks false l syms l' ->
  forall octs fuel s w s' w', octets_of syms octs -> scat s = CUnq -> rest s = l -> (w <= start s)%nat ->
  write_loop into_octet fuel s w = Ok (s', w') ->
  w' = (w + length octs)%nat /\ firstn w' (buf s') = firstn w (buf s) ++ octs /\ rest s' = l' /\
  scat s' = CNone /\ (w' <= start s')%nat.
Proof. exact write_loop_value. Qed.
Print Assumptions C07_write_loop_value.

Theorem C07_scan_octets_value : forall s p q syms octs d t r s2,
  scat s = CUnq -> rest s = p ++ q -> plain p ->
  (exists c q', q = c :: q' /\ asc_unq_ok c = false) ->
  Toks false q syms (d :: t) -> octets_of syms octs ->
  scan_octets s = Ok (r, s2) -> r = p ++ octs.
Proof. exact scan_octets_value. Qed.
Print Assumptions C07_scan_octets_value.

Theorem C07_convert_token_id_value : forall s syms octs d t r s2,
  scat s = CUnq -> Toks false (rest s) syms (d :: t) -> octets_of syms octs ->
  convert_token unit id_process id_tail tt s = Ok (r, s2) -> r = octs.
Proof. exact convert_token_id_value. Qed.
Print Assumptions C07_convert_token_id_value.

Theorem C07_scan_octets_quoted_plain_value : forall s tok t r s2,
  scat s = CQuo -> rest s = tok ++ asc_q_end :: t -> plain_q tok ->
  scan_octets s = Ok (r, s2) -> r = tok.
Proof. exact scan_octets_quoted_plain_value. Qed.
Print Assumptions C07_scan_octets_quoted_plain_value.

Theorem C07_scan_octets_quoted_value : forall s p q syms octs l' r s2,
  scat s = CQuo -> rest s = p ++ q -> plain_q p ->
  (exists c q', q = c :: q' /\ asc_q_ok c = false /\ c <> asc_q_end) ->
  Toks true q syms l' -> octets_of syms octs ->
  scan_octets s = Ok (r, s2) -> r = p ++ octs.
Proof. exact scan_octets_quoted_value. Qed.
Print Assumptions C07_scan_octets_quoted_value.
