(* C12 -- SortedRecords: every entry point (insert, extend, from_iter,
   From<Vec>), in any interleaving, leaves the collection strictly ascending in
   Record::canonical_cmp - canonical order, no duplicates - and made of the
   records that arrived.  The comparison is C13's sr_cmp; record data of one
   type is of one variant (known to the library, or Unknown), which is how
   ZoneRecordData is parsed: hypothesis `variant_by_type vf`. *)
From Coq Require Import NArith List Bool Lia Sorting.Permutation Sorting.Sorted.
From DV Require C13.Gen C13.Model C13.ProofsNames C13.ProofsDedup C13.ProofsN3a.
From DV Require Import Base.Bytes Base.Lex Base.Names C12.ProofsSort C12.SortedModel.
Import ListNotations.
Local Open Scope N_scope.

Notation sr_cmp := C13.Model.sr_cmp.
Notation sr_insert := C13.Model.sr_insert.
Notation sr_name := C13.Model.sr_name.
Notation sr_type := C13.Model.sr_type.
Definition sr_flag (r : srec) : bool := fst (snd r).
Definition sr_data (r : srec) : bytes := snd (snd r).

Definition variant_by_type (vf : N -> bool) (r : srec) : Prop := sr_flag r = vf (sr_type r).

(* the comparison without the variant flags *)
Definition kcmp (a b : srec) : comparison :=
  match name_cmp (sr_name a) (sr_name b) with
  | Eq => match sr_type a ?= sr_type b with Eq => lex_cmp (sr_data a) (sr_data b) | c => c end
  | c => c
  end.

Lemma sr_cmp_k vf a b : variant_by_type vf a -> variant_by_type vf b -> sr_cmp a b = kcmp a b.
Proof.
  destruct a as [[na ta] [ua da]], b as [[nb tb] [ub db]].
  unfold variant_by_type, sr_flag, sr_cmp, kcmp, C13.Model.data_cmp, sr_name, sr_type, sr_data. cbn [fst snd].
  intros Ha Hb. destruct (name_cmp na nb); try reflexivity.
  destruct (N.compare_spec ta tb) as [->| |]; try reflexivity.
  rewrite Ha, Hb. destruct (vf tb); reflexivity.
Qed.

Lemma kcmp_anti a b : kcmp b a = CompOpp (kcmp a b).
Proof.
  unfold kcmp. rewrite (name_cmp_antisym (sr_name a) (sr_name b)).
  destruct (name_cmp (sr_name a) (sr_name b)); cbn [CompOpp]; try reflexivity.
  rewrite (N.compare_antisym (sr_type a) (sr_type b)).
  destruct (sr_type a ?= sr_type b); cbn [CompOpp]; try reflexivity.
  apply lex_cmp_antisym.
Qed.

Lemma kcmp_refl a : kcmp a a = Eq.
Proof. unfold kcmp. rewrite name_cmp_refl, N.compare_refl. apply lex_cmp_refl. Qed.

Lemma kcmp_trans_le a b c : kcmp a b <> Gt -> kcmp b c <> Gt -> kcmp a c <> Gt.
Proof.
  unfold kcmp. intros H1 H2.
  destruct (name_cmp (sr_name a) (sr_name b)) eqn:E1; try congruence;
  destruct (name_cmp (sr_name b) (sr_name c)) eqn:E2; try congruence.
  - (* Eq Eq *)
    apply C13.ProofsNames.name_eqb_cmp in E1. rewrite (C13.ProofsNames.name_cmp_eq_l _ _ _ E1), E2.
    destruct (N.compare_spec (sr_type a) (sr_type b)) as [Eab|Lab|Gab]; try congruence;
    destruct (N.compare_spec (sr_type b) (sr_type c)) as [Ebc|Lbc|Gbc]; try congruence.
    + rewrite Eab, Ebc, N.compare_refl. exact (ble_trans _ _ _ H1 H2).
    + rewrite Eab. destruct (N.compare_spec (sr_type b) (sr_type c)); try lia. discriminate.
    + rewrite <- Ebc. destruct (N.compare_spec (sr_type a) (sr_type b)); try lia. discriminate.
    + destruct (N.compare_spec (sr_type a) (sr_type c)); try lia. discriminate.
  - (* Eq Lt *)
    apply C13.ProofsNames.name_eqb_cmp in E1. rewrite (C13.ProofsNames.name_cmp_eq_l _ _ _ E1), E2. discriminate.
  - (* Lt Eq *)
    apply C13.ProofsNames.name_eqb_cmp in E2. rewrite <- (C13.ProofsNames.name_cmp_eq_r _ _ _ E2), E1. discriminate.
  - rewrite (name_cmp_trans _ _ _ _ E1 E2). discriminate.
Qed.

Lemma kcmp_lt_le a b c : kcmp a b = Lt -> kcmp b c <> Gt -> kcmp a c = Lt.
Proof.
  intros H1 H2. assert (H3 : kcmp a c <> Gt) by (apply (kcmp_trans_le a b c); [rewrite H1; discriminate|exact H2]).
  destruct (kcmp a c) eqn:E; try congruence. exfalso.
  assert (Hca : kcmp c a <> Gt) by (rewrite kcmp_anti, E; discriminate).
  pose proof (kcmp_trans_le b c a H2 Hca) as Hba. rewrite kcmp_anti, H1 in Hba. apply Hba. reflexivity.
Qed.

Lemma kcmp_le_lt a b c : kcmp a b <> Gt -> kcmp b c = Lt -> kcmp a c = Lt.
Proof.
  intros H1 H2. assert (H3 : kcmp a c <> Gt) by (apply (kcmp_trans_le a b c); [exact H1|rewrite H2; discriminate]).
  destruct (kcmp a c) eqn:E; try congruence. exfalso.
  assert (Hca : kcmp c a <> Gt) by (rewrite kcmp_anti, E; discriminate).
  pose proof (kcmp_trans_le c a b Hca H1) as Hcb. rewrite kcmp_anti, H2 in Hcb. apply Hcb. reflexivity.
Qed.

(* ---- strictly ascending lists ---------------------------------------------------------- *)
Definition klt (a b : srec) : Prop := kcmp a b = Lt.
Definition kle (a b : srec) : Prop := kcmp a b <> Gt.
Definition strict (l : list srec) : Prop := StronglySorted klt l.

Section WithVariants.
  Variable vf : N -> bool.
  Let P := variant_by_type vf.

  Lemma has_equal_false st r : Forall P st -> P r -> has_equal st r = false ->
    forall y, In y st -> kcmp y r <> Eq.
  Proof.
    unfold has_equal. intros Hst Hr H y Hy E.
    assert (Hex : existsb (fun y => match sr_cmp y r with Eq => true | _ => false end) st = true).
    { apply existsb_exists. exists y. split; [exact Hy|]. rewrite Forall_forall in Hst.
      rewrite (sr_cmp_k vf y r (Hst y Hy) Hr), E. reflexivity. }
    congruence.
  Qed.

  Lemma insert_strict x l : Forall P l -> P x -> strict l -> (forall y, In y l -> kcmp y x <> Eq) ->
    strict (sr_insert x l).
  Proof.
    intros Hl Hx Hs Hne. induction Hs as [|y t Hs IH Hall]; cbn [C13.Model.sr_insert]; [repeat constructor|].
    inversion Hl as [|? ? Hy Ht]; subst. rewrite (sr_cmp_k vf x y Hx Hy).
    destruct (kcmp x y) eqn:E.
    - exfalso. apply (Hne y (or_introl eq_refl)). rewrite kcmp_anti, E. reflexivity.
    - constructor; [constructor; assumption|]. constructor; [exact E|].
      eapply Forall_impl; [|exact Hall]. intros z Hz. apply (kcmp_lt_le x y z E). unfold klt in Hz. rewrite Hz. discriminate.
    - constructor; [apply IH; [exact Ht|intros z Hz; apply Hne; right; exact Hz]|].
      apply Forall_forall. intros z Hz.
      apply (Permutation_in _ (C13.ProofsDedup.sr_insert_perm x t)) in Hz as [<-|Hz].
      + unfold klt. rewrite kcmp_anti, E. reflexivity.
      + rewrite Forall_forall in Hall. apply Hall. exact Hz.
  Qed.

  Lemma insert_le_sorted x l : Forall P l -> P x -> StronglySorted kle l -> StronglySorted kle (sr_insert x l).
  Proof.
    intros Hl Hx Hs. induction Hs as [|y t Hs IH Hall]; cbn [C13.Model.sr_insert]; [repeat constructor|].
    inversion Hl as [|? ? Hy Ht]; subst. rewrite (sr_cmp_k vf x y Hx Hy).
    assert (Keep : kcmp x y <> Gt -> StronglySorted kle (x :: y :: t)).
    { intros Hle. constructor; [constructor; assumption|]. constructor; [exact Hle|].
      eapply Forall_impl; [|exact Hall]. intros z Hz. exact (kcmp_trans_le x y z Hle Hz). }
    destruct (kcmp x y) eqn:E; [apply Keep; discriminate|apply Keep; discriminate|].
    constructor; [apply IH; exact Ht|]. apply Forall_forall. intros z Hz.
    apply (Permutation_in _ (C13.ProofsDedup.sr_insert_perm x t)) in Hz as [<-|Hz].
    - unfold kle. rewrite kcmp_anti, E. discriminate.
    - rewrite Forall_forall in Hall. apply Hall. exact Hz.
  Qed.

  Lemma sort_le_sorted l : Forall P l -> StronglySorted kle (C13.Model.sr_sort l).
  Proof.
    unfold C13.Model.sr_sort. induction 1 as [|x t Hx Ht IH]; cbn [fold_right]; [constructor|].
    apply insert_le_sorted; [|exact Hx|exact IH].
    eapply Permutation_Forall; [apply Permutation_sym, C13.ProofsDedup.sr_sort_perm|exact Ht].
  Qed.

  (* Record::eq, used by dedup, agrees with canonical_cmp == Equal *)
  Lemma srec_eqb_k a b : P a -> P b -> C13.Model.srec_eqb a b = true <-> kcmp a b = Eq.
  Proof.
    destruct a as [[na ta] [ua da]], b as [[nb tb] [ub db]].
    unfold P, variant_by_type, sr_flag, C13.Model.srec_eqb, C13.Model.data_eqb, kcmp, sr_name, sr_type, sr_data,
      C13.Model.sr_name, C13.Model.sr_type. cbn [fst snd].
    change C13.Gen.unknown_eq_checks_rtype with true. intros Ha Hb. subst ua ub.
    rewrite andb_true_iff, C13.ProofsNames.name_eqb_cmp.
    destruct (name_cmp na nb); [|split; [intros [? _]; discriminate|discriminate]|split; [intros [? _]; discriminate|discriminate]].
    destruct (N.compare_spec ta tb) as [->|Hl|Hg].
    - destruct (vf tb); cbn [andb orb]; rewrite ?N.eqb_refl; cbn [andb];
        (split; [intros [_ H]; apply C13.ProofsN3a.bytes_eqb_eq in H; subst; apply lex_cmp_refl
                |intros H; split; [reflexivity|apply C13.ProofsN3a.bytes_eqb_eq, lex_cmp_eq; exact H]]).
    - split; [|discriminate]. intros [_ H]. exfalso.
      destruct (vf ta), (vf tb); cbn [andb orb] in H; try discriminate;
        apply andb_true_iff in H as [H _]; apply N.eqb_eq in H; lia.
    - split; [|discriminate]. intros [_ H]. exfalso.
      destruct (vf ta), (vf tb); cbn [andb orb] in H; try discriminate;
        apply andb_true_iff in H as [H _]; apply N.eqb_eq in H; lia.
  Qed.

  Lemma dedup_from_strict prev l : P prev -> Forall P l -> StronglySorted kle (prev :: l) ->
    strict (prev :: C13.Model.sr_dedup_from prev l).
  Proof.
    revert prev. induction l as [|x r IH]; intros prev Hp Hl Hs; cbn [C13.Model.sr_dedup_from]; [repeat constructor|].
    inversion Hl as [|? ? Hx Hr]; subst. inversion Hs as [|? ? Hs' Hall]; subst.
    inversion Hs' as [|? ? Hs'' Hallx]; subst. inversion Hall as [|? ? Hpx Hallr]; subst.
    destruct (C13.Model.srec_eqb x prev) eqn:E.
    - apply IH; [exact Hp|exact Hr|]. constructor; assumption.
    - assert (Hlt : klt prev x).
      { unfold klt, kle in *. destruct (kcmp prev x) eqn:Ec; [|reflexivity|congruence]. exfalso.
        assert (Hxp : kcmp x prev = Eq) by (rewrite kcmp_anti, Ec; reflexivity).
        apply (srec_eqb_k x prev Hx Hp) in Hxp. congruence. }
      specialize (IH x Hx Hr Hs'). constructor; [exact IH|].
      apply Forall_forall. intros z [<-|Hz]; [exact Hlt|].
      apply C13.ProofsDedup.sr_dedup_from_sub in Hz. rewrite Forall_forall in Hallx.
      exact (kcmp_lt_le prev x z Hlt (Hallx z Hz)).
  Qed.

  Lemma sorted_records_strict l : Forall P l -> strict (C13.Model.sorted_records l).
  Proof.
    intros Hl. unfold C13.Model.sorted_records, C13.Model.sr_dedup.
    pose proof (sort_le_sorted l Hl) as Hs.
    assert (Hp : Forall P (C13.Model.sr_sort l)).
    { eapply Permutation_Forall; [apply Permutation_sym, C13.ProofsDedup.sr_sort_perm|exact Hl]. }
    destruct (C13.Model.sr_sort l) as [|x r]; [constructor|].
    inversion Hp; subst. apply dedup_from_strict; assumption.
  Qed.

  Lemma sorted_records_sub l x : In x (C13.Model.sorted_records l) -> In x l.
  Proof.
    unfold C13.Model.sorted_records, C13.Model.sr_dedup. intros H.
    apply (Permutation_in _ (C13.ProofsDedup.sr_sort_perm l)).
    destruct (C13.Model.sr_sort l) as [|y r]; [destruct H|].
    destruct H as [<-|H]; [left; reflexivity|right; eapply C13.ProofsDedup.sr_dedup_from_sub; exact H].
  Qed.

  Definition arrivals (ops : list sop) : list srec :=
    flat_map (fun o => match o with OInsert r => [r] | OExtend l => l end) ops.

  (* any interleaving of the entry points *)
  Lemma so_run_strict ops : forall st,
    Forall P st -> Forall P (arrivals ops) -> strict st ->
    strict (fst (so_run st ops)) /\
    (forall x, In x (fst (so_run st ops)) -> In x st \/ In x (arrivals ops)).
  Proof.
    induction ops as [|[r|l] rest IH]; intros st Hst Har Hs; cbn [so_run arrivals flat_map] in *.
    - split; [exact Hs|intros x Hx; left; exact Hx].
    - apply Forall_app in Har as [Hr Har]. inversion Hr as [|? ? Hr' _]; subst.
      unfold so_insert. destruct (has_equal st r) eqn:E.
      + destruct (IH st Hst Har Hs) as [H1 H2]. destruct (so_run st rest) as [fin oks]. cbn [fst] in *.
        split; [exact H1|]. intros x Hx. destruct (H2 x Hx) as [H|H]; [left; exact H|right; right; exact H].
      + assert (Hst' : Forall P (sr_insert r st)).
        { eapply Permutation_Forall; [apply Permutation_sym, C13.ProofsDedup.sr_insert_perm|constructor; assumption]. }
        assert (Hs' : strict (sr_insert r st)) by (apply insert_strict; try assumption; apply has_equal_false; assumption).
        destruct (IH _ Hst' Har Hs') as [H1 H2]. destruct (so_run (sr_insert r st) rest) as [fin oks]. cbn [fst] in *.
        split; [exact H1|]. intros x Hx. destruct (H2 x Hx) as [H|H]; [|right; right; exact H].
        apply (Permutation_in _ (C13.ProofsDedup.sr_insert_perm r st)) in H as [<-|H]; [right; left; reflexivity|left; exact H].
    - apply Forall_app in Har as [Hl Har]. unfold so_extend.
      assert (Hall : Forall P (st ++ l)) by (apply Forall_app; split; assumption).
      assert (Hst' : Forall P (C13.Model.sorted_records (st ++ l))).
      { apply Forall_forall. intros x Hx. apply sorted_records_sub in Hx. rewrite Forall_forall in Hall. auto. }
      destruct (IH _ Hst' Har (sorted_records_strict _ Hall)) as [H1 H2].
      split; [exact H1|]. intros x Hx. destruct (H2 x Hx) as [H|H]; [|right; apply in_or_app; right; exact H].
      apply sorted_records_sub in H. apply in_app_or in H as [H|H]; [left; exact H|right; apply in_or_app; left; exact H].
  Qed.
  (* nothing is lost: every record that arrived is in the collection or has an
     equal (canonical_cmp == Equal) record there *)
  Lemma kcmp_eq_trans a b c : kcmp a b = Eq -> kcmp b c = Eq -> kcmp a c = Eq.
  Proof.
    intros H1 H2.
    assert (Hle : kcmp a c <> Gt) by (apply (kcmp_trans_le a b c); [rewrite H1|rewrite H2]; discriminate).
    assert (Hge : kcmp c a <> Gt).
    { apply (kcmp_trans_le c b a); [rewrite kcmp_anti, H2|rewrite kcmp_anti, H1]; discriminate. }
    rewrite kcmp_anti in Hge. destruct (kcmp a c); cbn [CompOpp] in Hge; congruence.
  Qed.

  Lemma dedup_from_keeps prev l : P prev -> Forall P l ->
    forall y, In y (prev :: l) -> exists x, In x (prev :: C13.Model.sr_dedup_from prev l) /\ kcmp x y = Eq.
  Proof.
    revert prev. induction l as [|z r IH]; intros prev Hp Hl y Hy; cbn [C13.Model.sr_dedup_from].
    - destruct Hy as [<-|[]]. exists prev. split; [left; reflexivity|apply kcmp_refl].
    - inversion Hl as [|? ? Hz Hr]; subst. destruct (C13.Model.srec_eqb z prev) eqn:E.
      + destruct Hy as [<-|[<-|Hy]].
        * apply (IH prev Hp Hr). left; reflexivity.
        * exists prev. split; [left; reflexivity|]. apply (srec_eqb_k z prev Hz Hp) in E. rewrite kcmp_anti, E. reflexivity.
        * apply (IH prev Hp Hr). right; exact Hy.
      + destruct Hy as [<-|Hy].
        * exists prev. split; [left; reflexivity|apply kcmp_refl].
        * destruct (IH z Hz Hr y Hy) as (x & Hx & Ex). exists x. split; [right; exact Hx|exact Ex].
  Qed.

  Lemma sorted_records_keeps l : Forall P l ->
    forall y, In y l -> exists x, In x (C13.Model.sorted_records l) /\ kcmp x y = Eq.
  Proof.
    intros Hl y Hy. unfold C13.Model.sorted_records, C13.Model.sr_dedup.
    assert (Hp : Forall P (C13.Model.sr_sort l)).
    { eapply Permutation_Forall; [apply Permutation_sym, C13.ProofsDedup.sr_sort_perm|exact Hl]. }
    apply (Permutation_in _ (Permutation_sym (C13.ProofsDedup.sr_sort_perm l))) in Hy.
    destruct (C13.Model.sr_sort l) as [|z r]; [destruct Hy|].
    inversion Hp; subst. apply dedup_from_keeps; assumption.
  Qed.

  Lemma so_run_keeps ops : forall st,
    Forall P st -> Forall P (arrivals ops) ->
    forall y, In y st \/ In y (arrivals ops) -> exists x, In x (fst (so_run st ops)) /\ kcmp x y = Eq.
  Proof.
    induction ops as [|[r|l] rest IH]; intros st Hst Har y Hy; cbn [so_run arrivals flat_map] in *.
    - destruct Hy as [Hy|[]]. exists y. split; [exact Hy|apply kcmp_refl].
    - apply Forall_app in Har as [Hr Har]. inversion Hr as [|? ? Hr' _]; subst.
      unfold so_insert. destruct (has_equal st r) eqn:E.
      + assert (Hrep : exists x, In x st /\ kcmp x r = Eq).
        { unfold has_equal in E. apply existsb_exists in E as (x & Hx & Ex). exists x. split; [exact Hx|].
          rewrite Forall_forall in Hst. rewrite (sr_cmp_k vf x r (Hst x Hx) Hr') in Ex. destruct (kcmp x r); congruence. }
        pose proof (IH st Hst Har) as IH'. destruct (so_run st rest) as [fin oks]. cbn [fst] in *.
        destruct Hy as [Hy|[<-|Hy]]; [apply IH'; left; exact Hy| |apply IH'; right; exact Hy].
        destruct Hrep as (x & Hx & Ex). destruct (IH' x (or_introl Hx)) as (x' & Hx' & Ex').
        exists x'. split; [exact Hx'|exact (kcmp_eq_trans _ _ _ Ex' Ex)].
      + assert (Hst' : Forall P (sr_insert r st)).
        { eapply Permutation_Forall; [apply Permutation_sym, C13.ProofsDedup.sr_insert_perm|constructor; assumption]. }
        pose proof (IH _ Hst' Har) as IH'. destruct (so_run (sr_insert r st) rest) as [fin oks]. cbn [fst] in *.
        destruct Hy as [Hy|[<-|Hy]]; [| |apply IH'; right; exact Hy]; apply IH'; left;
          apply (Permutation_in _ (Permutation_sym (C13.ProofsDedup.sr_insert_perm _ st))); [right; exact Hy|left; reflexivity].
    - apply Forall_app in Har as [Hl Har]. unfold so_extend.
      assert (Hall : Forall P (st ++ l)) by (apply Forall_app; split; assumption).
      assert (Hst' : Forall P (C13.Model.sorted_records (st ++ l))).
      { apply Forall_forall. intros x Hx. apply sorted_records_sub in Hx. rewrite Forall_forall in Hall. auto. }
      pose proof (IH _ Hst' Har) as IH'.
      assert (Hmid : In y (st ++ l) -> exists x, In x (fst (so_run (C13.Model.sorted_records (st ++ l)) rest)) /\ kcmp x y = Eq).
      { intros Hin. destruct (sorted_records_keeps _ Hall y Hin) as (x & Hx & Ex).
        destruct (IH' x (or_introl Hx)) as (x' & Hx' & Ex'). exists x'. split; [exact Hx'|exact (kcmp_eq_trans _ _ _ Ex' Ex)]. }
      destruct Hy as [Hy|Hy]; [apply Hmid, in_or_app; left; exact Hy|].
      apply in_app_or in Hy as [Hy|Hy]; [apply Hmid, in_or_app; right; exact Hy|apply IH'; right; exact Hy].
  Qed.
End WithVariants.

Lemma sorted_records_entry_points vf ops :
  Forall (variant_by_type vf) (arrivals ops) ->
  strict (fst (c12_sorted_ops ops)) /\
  (forall x, In x (fst (c12_sorted_ops ops)) -> In x (arrivals ops)) /\
  (forall y, In y (arrivals ops) -> exists x, In x (fst (c12_sorted_ops ops)) /\ kcmp x y = Eq).
Proof.
  intros H. destruct (so_run_strict vf ops [] (Forall_nil _) H (SSorted_nil _)) as [H1 H2].
  split; [exact H1|]. split.
  - intros x Hx. destruct (H2 x Hx) as [[]|Hin]. exact Hin.
  - intros y Hy. apply (so_run_keeps vf ops [] (Forall_nil _) H). right. exact Hy.
Qed.

(* strictly ascending lists with the same members up to Equal are the same up to
   Equal, position by position: the collection is determined by what arrived *)
Lemma strict_determined l1 : forall l2, strict l1 -> strict l2 ->
  (forall x, In x l1 -> exists y, In y l2 /\ kcmp x y = Eq) ->
  (forall y, In y l2 -> exists x, In x l1 /\ kcmp x y = Eq) ->
  Forall2 (fun a b => kcmp a b = Eq) l1 l2.
Proof.
  induction l1 as [|a t1 IH]; intros l2 H1 H2 F G.
  - destruct l2 as [|b t2]; [constructor|]. destruct (G b (or_introl eq_refl)) as (x & [] & _).
  - destruct l2 as [|b t2]; [destruct (F a (or_introl eq_refl)) as (y & [] & _)|].
    inversion H1 as [|? ? Hs1 Ha]; subst. inversion H2 as [|? ? Hs2 Hb]; subst.
    rewrite Forall_forall in Ha, Hb.
    assert (Eab : kcmp a b = Eq).
    { destruct (F a (or_introl eq_refl)) as (y & [<-|Hy] & Ey); [exact Ey|].
      destruct (G b (or_introl eq_refl)) as (x & [<-|Hx] & Ex); [exact Ex|].
      (* b < y = a < x = b *)
      exfalso. pose proof (Hb y Hy) as Hby. pose proof (Ha x Hx) as Hax. unfold klt in *.
      assert (Hba : kcmp b a = Lt).
      { apply (kcmp_lt_le b y a Hby). rewrite kcmp_anti, Ey. discriminate. }
      assert (Hab : kcmp a b = Lt).
      { apply (kcmp_lt_le a x b Hax). rewrite Ex. discriminate. }
      rewrite kcmp_anti, Hab in Hba. discriminate. }
    constructor; [exact Eab|]. apply IH; try assumption.
    + intros x Hx. destruct (F x (or_intror Hx)) as (y & [<-|Hy] & Ey); [|exists y; split; assumption].
      exfalso. pose proof (Ha x Hx) as Hax. unfold klt in Hax.
      assert (E : kcmp a x = Eq).
      { destruct (kcmp x b) eqn:Exb; try discriminate.
        assert (H := kcmp_trans_le a b x). rewrite Eab in H.
        assert (Hbx : kcmp b x = Eq) by (rewrite kcmp_anti, Exb; reflexivity).
        clear H. destruct (kcmp a x) eqn:Eax; [reflexivity| |discriminate].
        assert (Hxa : kcmp x a <> Gt). { apply (kcmp_trans_le x b a); [rewrite Exb|rewrite kcmp_anti, Eab]; discriminate. }
        rewrite kcmp_anti, Eax in Hxa. exfalso. apply Hxa. reflexivity. }
      congruence.
    + intros y Hy. destruct (G y (or_intror Hy)) as (x & [<-|Hx] & Ex); [|exists x; split; assumption].
      exfalso. pose proof (Hb y Hy) as Hby. unfold klt in Hby.
      assert (Hle : kcmp b y <> Gt) by (rewrite Hby; discriminate).
      assert (Hya : kcmp y b <> Gt).
      { apply (kcmp_trans_le y a b); [rewrite kcmp_anti, Ex|rewrite Eab]; discriminate. }
      rewrite kcmp_anti, Hby in Hya. apply Hya. reflexivity.
Qed.

(* hence: any interleaving of insert / extend / from_iter / From<Vec> over the same
   arrivals gives sort + dedup of the arrivals, record by record up to Equal *)
Lemma any_interleaving_is_sort_dedup vf ops :
  Forall (variant_by_type vf) (arrivals ops) ->
  Forall2 (fun a b => kcmp a b = Eq) (fst (c12_sorted_ops ops)) (C13.Model.sorted_records (arrivals ops)).
Proof.
  intros H. destruct (sorted_records_entry_points vf ops H) as (S1 & Sub1 & Keep1).
  apply strict_determined.
  - exact S1.
  - exact (sorted_records_strict vf _ H).
  - intros x Hx. destruct (sorted_records_keeps vf _ H x (Sub1 x Hx)) as (y & Hy & Ey).
    exists y. split; [exact Hy|]. rewrite kcmp_anti, Ey. reflexivity.
  - intros y Hy. apply Keep1. apply (sorted_records_sub _ _ Hy).
Qed.

(* the r3 shape: descending inserts into the RRset at the end *)
Example sorted_ops_example :
  let r (o : name) (t : N) (d : bytes) : srec := (o, t, (false, d)) in
  let w := [[119]; [101]] in
  c12_sorted_ops [OInsert (r [[101]] 6 [1]); OInsert (r w 1 [192;0;2;7]); OInsert (r w 1 [192;0;2;1]);
                  OInsert (r [[87]; [69]] 1 [192;0;2;7]); OExtend [r [[97]; [101]] 16 [0]; r w 1 [192;0;2;1]]] =
  ([r [[101]] 6 [1]; r [[97]; [101]] 16 [0]; r w 1 [192;0;2;1]; r w 1 [192;0;2;7]], [true; true; true; false]).
Proof. vm_compute. reflexivity. Qed.
