(* C12 -- public key parsing: rsa_exponent_modulus / rsa_encode round trip,
   what a successful parse guarantees (RFC 3110 section 2), key_size agrees
   with the parse and is total. *)
From Coq Require Import NArith List Bool Lia ZArith.
From Coq Require Import ZifyN ZifyBool ZifyNat.
From DV Require Import Base.Outcome Base.Bytes C12.Gen C12.KeyModel.
Import ListNotations.
Local Open Scope N_scope.
Ltac Zify.zify_post_hook ::= Z.div_mod_to_equations.

Definition head_nonzero (b : bytes) : Prop := match b with f :: _ => f <> 0 | [] => False end.
Definition rsa_part_ok (b : bytes) : Prop := 1 <= len b <= 512 /\ head_nonzero b.

Lemma rsa_part_bad_spec b : rsa_part_bad b = false <-> rsa_part_ok b.
Proof.
  unfold rsa_part_bad, rsa_part_ok, rsa_part_min_len, rsa_part_max_len, head_nonzero.
  rewrite orb_false_iff, negb_false_iff, andb_true_iff, !N.leb_le.
  destruct b as [|f t].
  - unfold len. cbn [length]. split; [intros [[H _] _]; lia|intros [_ []]].
  - rewrite N.eqb_neq. tauto.
Qed.

Lemma trim_zeroes_id b : head_nonzero b -> trim_zeroes b = b.
Proof. destruct b as [|f t]; [intros []|]. cbn [head_nonzero trim_zeroes]. destruct f; [intros H; contradiction|reflexivity]. Qed.

Lemma len_app (a b : bytes) : len (a ++ b) = len a + len b.
Proof. unfold len. rewrite app_length. lia. Qed.

Lemma firstn_len_app (a b : bytes) : firstn (N.to_nat (len a)) (a ++ b) = a.
Proof. unfold len. rewrite Nat2N.id. apply take_app_length. Qed.
Lemma skipn_len_app (a b : bytes) : skipn (N.to_nat (len a)) (a ++ b) = b.
Proof. unfold len. rewrite Nat2N.id. apply drop_app_length. Qed.

(* what the library encodes, it parses back *)
Lemma rsa_roundtrip e n :
  rsa_part_ok e -> rsa_part_ok n ->
  exists pk, rsa_encode e n = Ok pk /\ rsa_exponent_modulus pk 0 = Ok (e, n).
Proof.
  intros He Hn. pose proof He as [[He1 He2] Hez]. pose proof Hn as [[Hn1 Hn2] Hnz].
  unfold rsa_encode. rewrite (trim_zeroes_id e Hez), (trim_zeroes_id n Hnz).
  apply rsa_part_bad_spec in He, Hn.
  destruct (N.ltb_spec (len e) 256) as [Hs|Hl].
  - eexists. split; [reflexivity|].
    unfold rsa_exponent_modulus, rsa_split, rsa_short_min, rsa_short_max.
    replace ((1 <=? len e) && (len e <=? 255)) with true by (symmetry; apply andb_true_iff; split; apply N.leb_le; lia).
    rewrite len_app. replace (len e + len n <? len e) with false by (symmetry; apply N.ltb_ge; lia).
    rewrite firstn_len_app, skipn_len_app, He, Hn. cbn [orb].
    replace (len n <? 0) with false by (symmetry; apply N.ltb_ge; lia). reflexivity.
  - replace (len e <? 65536) with true by (symmetry; apply N.ltb_lt; lia).
    eexists. split; [reflexivity|].
    unfold rsa_exponent_modulus, rsa_split, rsa_short_min, rsa_short_max, rsa_long_hi_min, be16.
    cbn [app andb N.leb N.compare N.eqb].
    replace ((1 <=? len e / 256) && (len e / 256 <=? 255)) with true by (symmetry; apply andb_true_iff; split; apply N.leb_le; lia).
    replace (of_be16 (len e / 256) (len e mod 256)) with (len e) by (unfold of_be16; lia).
    rewrite len_app. replace (len e + len n <? len e) with false by (symmetry; apply N.ltb_ge; lia).
    rewrite firstn_len_app, skipn_len_app, He, Hn. cbn [orb].
    replace (len n <? 0) with false by (symmetry; apply N.ltb_ge; lia). reflexivity.
Qed.

(* what a successful parse guarantees *)
Lemma rsa_split_spec pk el rest :
  rsa_split pk = Some (el, rest) ->
  (exists l, pk = l :: rest /\ el = l /\ 1 <= l <= 255) \/
  (exists hi lo, pk = 0 :: hi :: lo :: rest /\ el = of_be16 hi lo /\ 1 <= hi <= 255).
Proof.
  unfold rsa_split, rsa_short_min, rsa_short_max, rsa_long_hi_min.
  destruct pk as [|l r]; [discriminate|].
  destruct ((1 <=? l) && (l <=? 255)) eqn:E.
  - intros H; injection H as <- <-. left. exists l. apply andb_true_iff in E. repeat split; lia.
  - destruct (N.eqb_spec l 0) as [->|_]; [|discriminate].
    destruct r as [|hi [|lo r']]; try discriminate.
    destruct ((1 <=? hi) && (hi <=? 255)) eqn:E2; [|discriminate].
    intros H; injection H as <- <-. right. exists hi, lo. apply andb_true_iff in E2. repeat split; lia.
Qed.

Lemma rsa_parse_sound pk min_len e n :
  rsa_exponent_modulus pk min_len = Ok (e, n) ->
  rsa_part_ok e /\ rsa_part_ok n /\ min_len <= len n /\
  (pk = len e :: e ++ n \/ exists hi lo, pk = 0 :: hi :: lo :: e ++ n /\ of_be16 hi lo = len e /\ 1 <= hi).
Proof.
  unfold rsa_exponent_modulus. destruct (rsa_split pk) as [[el rest]|] eqn:Es; [|discriminate].
  destruct (N.ltb_spec (len rest) el) as [|Hle]; [discriminate|].
  destruct (rsa_part_bad (firstn (N.to_nat el) rest)) eqn:Be; [discriminate|].
  destruct (rsa_part_bad (skipn (N.to_nat el) rest)) eqn:Bn; [discriminate|]. cbn [orb].
  destruct (N.ltb_spec (len (skipn (N.to_nat el) rest)) min_len) as [|Hm]; [discriminate|].
  intros H; injection H as <- <-.
  apply rsa_part_bad_spec in Be, Bn. repeat split; try assumption; try apply Be; try apply Bn.
  assert (Hlen : len (firstn (N.to_nat el) rest) = el).
  { unfold len in *. rewrite firstn_length. lia. }
  rewrite Hlen, firstn_skipn.
  apply rsa_split_spec in Es as [(l & -> & -> & _)|(hi & lo & -> & -> & Hhi)].
  - left. reflexivity.
  - right. exists hi, lo. repeat split; lia.
Qed.

(* ... and conversely: every well-formed encoding of parts within the RFC 3110
   limits (1..=512 octets each, a 4096-bit modulus included) is accepted *)
Lemma rsa_parse_complete pk min_len e n :
  rsa_part_ok e -> rsa_part_ok n -> min_len <= len n ->
  ((pk = len e :: e ++ n /\ len e <= 255) \/
   (exists hi lo, pk = 0 :: hi :: lo :: e ++ n /\ of_be16 hi lo = len e /\ 1 <= hi <= 255)) ->
  rsa_exponent_modulus pk min_len = Ok (e, n).
Proof.
  intros He Hn Hm Hpk. pose proof He as [[He1 He2] _]. apply rsa_part_bad_spec in He, Hn.
  unfold rsa_exponent_modulus.
  assert (Hfin : forall rest, rest = e ++ n ->
    (if len rest <? len e then Err 1
     else if rsa_part_bad (firstn (N.to_nat (len e)) rest) || rsa_part_bad (skipn (N.to_nat (len e)) rest) then Err 1
     else if len (skipn (N.to_nat (len e)) rest) <? min_len then Err 2
     else Ok (firstn (N.to_nat (len e)) rest, skipn (N.to_nat (len e)) rest)) = Ok (e, n)).
  { intros rest ->. rewrite len_app. replace (len e + len n <? len e) with false by (symmetry; apply N.ltb_ge; lia).
    rewrite firstn_len_app, skipn_len_app, He, Hn. cbn [orb].
    replace (len n <? min_len) with false by (symmetry; apply N.ltb_ge; lia). reflexivity. }
  destruct Hpk as [[-> Hs]|(hi & lo & -> & Hbe & Hhi)].
  - unfold rsa_split, rsa_short_min, rsa_short_max.
    replace ((1 <=? len e) && (len e <=? 255)) with true by (symmetry; apply andb_true_iff; split; apply N.leb_le; lia).
    apply Hfin. reflexivity.
  - unfold rsa_split, rsa_short_min, rsa_short_max, rsa_long_hi_min. cbn [andb N.leb N.compare N.eqb].
    replace ((1 <=? hi) && (hi <=? 255)) with true by (symmetry; apply andb_true_iff; split; apply N.leb_le; lia).
    rewrite Hbe. apply Hfin. reflexivity.
Qed.

(* the limits themselves: a part is accepted iff it has 1..=512 octets and no leading zero *)
Lemma rsa_part_accept_iff b : rsa_part_bad b = false <-> (1 <= len b <= 512 /\ head_nonzero b).
Proof. apply rsa_part_bad_spec. Qed.

(* key_size on a key that parses: the modulus length in bits, counted from its
   first set bit *)
Lemma key_size_of_parsed alg pk min_len e n :
  memN alg ks_rsa_algorithms = true ->
  rsa_exponent_modulus pk min_len = Ok (e, n) ->
  exists f t, n = f :: t /\ key_size alg pk = Ok (len n * 8 - leading_zeros8 f) /\
              (len n - 1) * 8 < len n * 8 - leading_zeros8 f <= len n * 8.
Proof.
  intros Ha Hp. apply rsa_parse_sound in Hp as (He & Hn & _ & Hpk).
  destruct Hn as [[Hn1 Hn2] Hnz]. destruct n as [|f t]; [destruct Hnz|]. cbn [head_nonzero] in Hnz.
  exists f, t. split; [reflexivity|].
  assert (Hsz : 1 <= N.size f) by (destruct f; [contradiction|cbn [N.size]; lia]).
  split; [|unfold leading_zeros8; lia].
  unfold key_size. rewrite Ha.
  assert (Hgo : forall off pre, len pre = off -> forall pk', pk' = pre ++ e ++ f :: t ->
    (if off + len e <=? len pk' then
       match skipn (N.to_nat (off + len e)) pk' with
       | [] => Err 1 | f0 :: _ => Ok (len (skipn (N.to_nat (off + len e)) pk') * 8 - leading_zeros8 f0) end
     else Err 1) = Ok (len (f :: t) * 8 - leading_zeros8 f)).
  { intros off pre Hpre pk' ->. rewrite !len_app.
    replace (off + len e <=? len pre + (len e + len (f :: t))) with true by (symmetry; apply N.leb_le; lia).
    replace (N.to_nat (off + len e)) with (length (pre ++ e)) by (unfold len in *; rewrite app_length; lia).
    rewrite app_assoc. pose proof (drop_app_length (pre ++ e) (f :: t)) as Hd. unfold drop in Hd. rewrite Hd. reflexivity. }
  destruct Hpk as [->|(hi & lo & -> & Hbe & Hhi)].
  - destruct He as [[He1 He2] _].
    pose proof (Hgo 1 [len e] eq_refl _ eq_refl) as Hg. clear Hgo. cbn [app] in Hg.
    destruct (len e) as [|p] eqn:El; [lia|]. exact Hg.
  - rewrite Hbe. apply (Hgo 3 [0; hi; lo]); reflexivity.
Qed.

(* every octet string gets a result or an error *)
Lemma key_size_no_panic alg pk : no_panic (key_size alg pk).
Proof.
  unfold key_size.
  assert (Hgo : forall el off,
    no_panic (if off + el <=? len pk then
       match skipn (N.to_nat (off + el)) pk with
       | [] => Err 1 | f0 :: _ => Ok (len (skipn (N.to_nat (off + el)) pk) * 8 - leading_zeros8 f0) end
     else Err 1)).
  { intros el off. destruct (off + el <=? len pk); [|exact I]. destruct (skipn _ pk); exact I. }
  destruct (memN alg ks_rsa_algorithms).
  - destruct pk as [|l r]; [exact I|]. destruct l as [|p].
    + destruct r as [|hi [|lo r']]; try exact I. apply Hgo.
    + apply Hgo.
  - destruct (memN alg ks_ecdsa_algorithms); [exact I|]. destruct (memN alg ks_eddsa_algorithms); exact I.
Qed.

Lemma rsa_parse_no_panic pk min_len : no_panic (rsa_exponent_modulus pk min_len).
Proof.
  unfold rsa_exponent_modulus. destruct (rsa_split pk) as [[el rest]|]; [|exact I].
  destruct (len rest <? el); [exact I|]. destruct (_ || _); [exact I|]. destruct (_ <? _); exact I.
Qed.

Lemma key_parsing_total alg pk min_len :
  no_panic (key_size alg pk) /\ no_panic (rsa_exponent_modulus pk min_len).
Proof. split; [apply key_size_no_panic|apply rsa_parse_no_panic]. Qed.

Example rsa_examples :
  rsa_exponent_modulus [3; 1; 0; 1; 200; 17] 2 = Ok ([1; 0; 1], [200; 17]) /\
  rsa_exponent_modulus [3; 1; 0; 1; 200; 17] 3 = Err 2 /\
  rsa_exponent_modulus [3; 1; 0; 1; 0; 17] 1 = Err 1 /\
  rsa_exponent_modulus [5; 1; 2] 0 = Err 1 /\ rsa_exponent_modulus [0; 0; 1; 7; 9] 0 = Err 1 /\
  key_size 8 [3; 1; 0; 1; 200; 17] = Ok 16 /\ key_size 8 [3; 1; 0; 1; 1; 17] = Ok 9 /\
  key_size 8 [] = Err 1 /\ key_size 8 [0] = Err 1 /\ key_size 8 [0; 1] = Err 1 /\
  key_size 8 [5; 1; 2] = Err 1 /\ key_size 8 [1; 3] = Err 1 /\
  key_size 13 [1; 2; 3; 4] = Ok 16 /\ key_size 15 [1; 2; 3] = Ok 24 /\ key_size 3 [1] = Err 2 /\
  rsa_encode [0; 1; 0; 1] [0; 200; 17] = Ok [3; 1; 0; 1; 200; 17] /\
  map (fun k => is_ok (rsa_exponent_modulus (3 :: 1 :: 0 :: 1 :: repeat 129 k) 0)) [511; 512; 513]%nat = [true; true; false] /\
  map (fun a => key_size a [1; 3; 129]) [5; 7; 8; 10; 13; 14; 15; 16; 1; 12] =
    [Ok 8; Ok 8; Ok 8; Ok 8; Ok 8; Ok 8; Ok 24; Ok 24; Err 2; Err 2].
Proof. vm_compute. repeat split. Qed.
