(* C12 -- Dnskey::key_tag against RFC 4034 Appendix B (with the bound that keeps
   the u32 accumulator from overflowing), the algorithm-1 branch against
   Appendix B.1, the DS digest input against RFC 4034 5.1.4, and
   wildcard_closest_encloser. *)
From Coq Require Import NArith List Bool Lia ZArith.
From Coq Require Import ZifyN ZifyBool ZifyNat.
From DV Require Import Base.Outcome Base.Bytes Base.Lex Base.Names C11.Sha
  C12.Gen C12.Model C12.Digest C12.Spec C12.ProofsSigned.
Import ListNotations.
Local Open Scope N_scope.
Ltac Zify.zify_post_hook ::= Z.div_mod_to_equations.

Lemma pair_ind (P : bytes -> Prop) :
  P [] -> (forall x, P [x]) -> (forall x y t, P t -> P (x :: y :: t)) -> forall l, P l.
Proof.
  intros H0 H1 H2. fix IH 1. intros [|x [|y t]]; [exact H0|apply H1|apply H2, IH].
Qed.

(* the sum the loop adds: octets at even positions times 256, odd as they are *)
Fixpoint kt_sum (pk : bytes) : N :=
  match pk with
  | [] => 0
  | [x] => x * 256
  | x :: y :: t => x * 256 + y + kt_sum t
  end.

Lemma shiftl8 x : N.shiftl x 8 = x * 256.
Proof. rewrite N.shiftl_mul_pow2. reflexivity. Qed.
Lemma shiftl0 x : N.shiftl x 0 = x.
Proof. apply N.shiftl_0_r. Qed.

Lemma u32_add_ok a b : a + b < 4294967296 -> u32_add a b = Ok (a + b).
Proof. intros H. unfold u32_add. destruct (N.ltb_spec (a + b) 4294967296); [reflexivity|lia]. Qed.

Lemma kt_loop_ok pk : forall res, res + kt_sum pk < 4294967296 -> kt_loop pk res = Ok (res + kt_sum pk).
Proof.
  induction pk as [|x|x y t IH] using pair_ind; intros res H; cbn [kt_loop kt_sum] in *;
    unfold kt_even_shift, kt_odd_shift.
  - f_equal. lia.
  - rewrite shiftl8. apply u32_add_ok. exact H.
  - rewrite shiftl8, shiftl0. rewrite u32_add_ok by lia. cbn [bind].
    rewrite u32_add_ok by lia. cbn [bind]. rewrite IH by lia. f_equal. lia.
Qed.

Lemma kt_sum_bound pk : wf_bytes pk -> kt_sum pk <= 32768 * (N.of_nat (length pk) + 1).
Proof.
  induction pk as [|x|x y t IH] using pair_ind; intros Hw; cbn [kt_sum length].
  - lia.
  - inversion Hw; subst. lia.
  - inversion Hw as [|? ? Hx Hw']; subst. inversion Hw' as [|? ? Hy Hw'']; subst.
    specialize (IH Hw''). lia.
Qed.

Lemma rfc_ac_even l : forall i ac, Nat.odd i = false -> rfc_ac l i ac = ac + kt_sum l.
Proof.
  induction l as [|x|x y t IH] using pair_ind; intros i ac Hi; cbn [rfc_ac kt_sum].
  - lia.
  - rewrite Hi. lia.
  - rewrite Hi. rewrite Nat.odd_succ, <- Nat.negb_odd, Hi. cbn [negb].
    rewrite IH by (cbn [Nat.odd Nat.even] in *; exact Hi). lia.
Qed.

Lemma dnskey_rdata_closed flags proto alg pk :
  dnskey_rdata flags proto alg pk = rfc_dnskey_rdata flags proto alg pk.
Proof.
  cbv [dnskey_rdata dnskey_rdata_order dnskey_field rfc_dnskey_rdata]. cbn [flat_map].
  rewrite app_nil_r. reflexivity.
Qed.

Lemma rfc_ac_rdata flags proto alg pk :
  rfc_ac (rfc_dnskey_rdata flags proto alg pk) 0 0 = flags + proto * 256 + alg + kt_sum pk.
Proof.
  unfold rfc_dnskey_rdata, be16. cbn [app rfc_ac Nat.odd Nat.even negb].
  rewrite rfc_ac_even by reflexivity. lia.
Qed.

Lemma land_65535 x : N.land x 65535 = x mod 65536.
Proof. change 65535 with (N.ones 16). rewrite N.land_ones. reflexivity. Qed.
Lemma shiftr16 x : N.shiftr x 16 = x / 65536.
Proof. rewrite N.shiftr_div_pow2. reflexivity. Qed.

(* key_tag_is_appendix_b *)
Lemma key_tag_is_appendix_b flags proto alg pk :
  flags < 65536 -> proto < 256 -> alg < 256 -> alg <> 1 -> wf_bytes pk ->
  len (rfc_dnskey_rdata flags proto alg pk) <= 65535 ->
  key_tag flags proto alg pk = Ok (rfc_keytag (rfc_dnskey_rdata flags proto alg pk)) /\
  rfc_ac (rfc_dnskey_rdata flags proto alg pk) 0 0 + 65535 < 4294967296 /\
  rfc_keytag (rfc_dnskey_rdata flags proto alg pk) < 65536.
Proof.
  intros Hf Hp Ha Hne Hw Hl.
  assert (Hlen : N.of_nat (length pk) <= 65531).
  { unfold len, rfc_dnskey_rdata, be16 in Hl. cbn [app length] in Hl. lia. }
  pose proof (kt_sum_bound pk Hw) as Hb.
  assert (Hs : flags + proto * 256 + alg + kt_sum pk < 2147483647) by lia.
  unfold rfc_keytag. rewrite rfc_ac_rdata.
  split; [|split; [lia|apply N.mod_lt; lia]].
  unfold key_tag, kt_special_algorithm, kt_protocol_shift, kt_fold_shift, kt_fold_mask, kt_final_mask.
  destruct (N.eqb_spec alg 1) as [|_]; [contradiction|].
  rewrite shiftl8. rewrite u32_add_ok by lia. cbn [bind].
  rewrite u32_add_ok by lia. cbn [bind].
  rewrite kt_loop_ok by lia. cbn [bind].
  rewrite shiftr16, !land_65535.
  set (ac := flags + proto * 256 + alg + kt_sum pk) in *.
  assert (Hm : (ac / 65536) mod 65536 < 65536) by (apply N.mod_lt; lia).
  rewrite u32_add_ok by lia. cbn [bind]. rewrite land_65535. reflexivity.
Qed.

(* the same holds for every length as long as the sum fits: the model panics
   (debug build) exactly when the u32 accumulator would overflow *)
Lemma key_tag_no_panic flags proto alg pk :
  flags < 65536 -> proto < 256 -> alg < 256 -> wf_bytes pk ->
  len (rfc_dnskey_rdata flags proto alg pk) <= 65535 -> no_panic (key_tag flags proto alg pk).
Proof.
  intros Hf Hp Ha Hw Hl. destruct (N.eq_dec alg 1) as [->|Hne].
  - unfold key_tag, kt_special_algorithm, kt1_min_len, kt1_from_end, kt1_to_end.
    cbn [N.eqb Pos.eqb]. unfold len.
    destruct (N.leb_spec 3 (N.of_nat (length pk))) as [H3|H3]; [|exact I].
    replace (3 <=? N.of_nat (length pk)) with true by (symmetry; apply N.leb_le; exact H3).
    cbn [andb N.leb N.compare Pos.compare Pos.compare_cont].
    replace (N.to_nat (3 - 1)) with 2%nat by reflexivity.
    set (tl := skipn (N.to_nat (N.of_nat (length pk) - 3)) pk).
    assert (Htl : length tl = 3%nat) by (unfold tl; rewrite skipn_length; lia).
    destruct tl as [|a [|b [|c [|d t]]]]; try discriminate. exact I.
  - destruct (key_tag_is_appendix_b flags proto alg pk Hf Hp Ha Hne Hw Hl) as [-> _]. exact I.
Qed.

(* ---- algorithm 1 (RSA/MD5), Appendix B.1 ---------------------------------------- *)
Lemma be_value_app a b : be_value (a ++ b) = fold_left (fun x y => x * 256 + y) b (be_value a).
Proof. unfold be_value. apply fold_left_app. Qed.

Lemma key_tag_alg1 flags proto pk :
  wf_bytes pk -> (3 <= length pk)%nat ->
  key_tag flags proto 1 pk = Ok (rfc_keytag_alg1 pk).
Proof.
  intros Hw H3.
  assert (Hsplit : exists pre a b c, pk = pre ++ [a; b; c]).
  { exists (firstn (length pk - 3) pk).
    pose proof (firstn_skipn (length pk - 3) pk) as Hfs.
    set (tl := skipn (length pk - 3) pk) in *.
    assert (Htl : length tl = 3%nat) by (unfold tl; rewrite skipn_length; lia).
    destruct tl as [|a [|b [|c [|d t]]]]; try discriminate.
    exists a, b, c. symmetry. exact Hfs. }
  destruct Hsplit as (pre & a & b & c & ->).
  apply wf_bytes_app in Hw as [_ Hw3]. inversion Hw3 as [|? ? Ha Hw2]; subst.
  inversion Hw2 as [|? ? Hb Hw1]; subst. inversion Hw1 as [|? ? Hc _]; subst.
  unfold key_tag, kt_special_algorithm, kt1_min_len, kt1_from_end, kt1_to_end, len.
  cbn [N.eqb Pos.eqb]. rewrite app_length. cbn [length].
  replace (3 <=? N.of_nat (length pre + 3)) with true by (symmetry; apply N.leb_le; lia).
  cbn [andb N.leb N.compare Pos.compare Pos.compare_cont].
  replace (N.to_nat (N.of_nat (length pre + 3) - 3)) with (length pre) by lia.
  pose proof (drop_app_length pre [a; b; c]) as Hd. unfold drop in Hd. rewrite Hd.
  replace (N.to_nat (3 - 1)) with 2%nat by reflexivity. cbn [firstn].
  f_equal. unfold rfc_keytag_alg1. rewrite be_value_app. cbn [fold_left]. unfold of_be16.
  set (v := be_value pre). lia.
Qed.

Lemma key_tag_alg1_short flags proto pk : (length pk < 3)%nat -> key_tag flags proto 1 pk = Ok 0.
Proof.
  intros H. unfold key_tag, kt_special_algorithm, kt1_min_len, len. cbn [N.eqb Pos.eqb].
  destruct (N.leb_spec 3 (N.of_nat (length pk))); [lia|reflexivity].
Qed.

Lemma key_tag_algorithm_1 flags proto pk :
  wf_bytes pk ->
  ((3 <= length pk)%nat -> key_tag flags proto 1 pk = Ok (rfc_keytag_alg1 pk)) /\
  ((length pk < 3)%nat -> key_tag flags proto 1 pk = Ok 0).
Proof.
  intros Hw. split; [exact (key_tag_alg1 flags proto pk Hw)|exact (key_tag_alg1_short flags proto pk)].
Qed.

(* ---- DS digest input, RFC 4034 5.1.4 ------------------------------------------------ *)
Lemma ds_input_is_rfc owner flags proto alg pk :
  ds_input owner flags proto alg pk = rfc_ds_input owner flags proto alg pk.
Proof.
  cbv [ds_input ds_input_order cname label_canonical_lowercases rfc_ds_input]. cbn [flat_map].
  rewrite dnskey_rdata_closed, app_nil_r. reflexivity.
Qed.

Lemma ds_digest_is_rfc owner flags proto alg pk :
  ds_digest 1 owner flags proto alg pk = Ok (sha1 (rfc_ds_input owner flags proto alg pk)) /\
  ds_digest 2 owner flags proto alg pk = Ok (sha256 (rfc_ds_input owner flags proto alg pk)) /\
  ds_digest 4 owner flags proto alg pk = Ok (sha384 (rfc_ds_input owner flags proto alg pk)) /\
  (forall d, d <> 1 -> d <> 2 -> d <> 4 -> ds_digest d owner flags proto alg pk = Err 1).
Proof.
  unfold ds_digest. rewrite ds_input_is_rfc. repeat split.
  intros d H1 H2 H4. unfold ds_algorithms. cbn [assocN].
  destruct (N.eqb_spec 1 d); [congruence|]. destruct (N.eqb_spec 2 d); [congruence|].
  destruct (N.eqb_spec 4 d); [congruence|]. reflexivity.
Qed.

(* ---- wildcard_closest_encloser -------------------------------------------------------- *)
Lemma wildcard_closest_encloser_spec labels owner :
  wildcard_closest_encloser labels owner =
  if labels <? N.of_nat (length owner) then Some (rightmost (N.to_nat labels) owner) else None.
Proof.
  cbv [wildcard_closest_encloser fqdn_labels wce_root_labels_subtracted wildcard_test wce_test_is_lt].
  replace (N.of_nat (length owner) + 1 - 1) with (N.of_nat (length owner)) by lia.
  destruct (N.ltb_spec labels (N.of_nat (length owner))) as [Hlt|Hge]; [|reflexivity].
  rewrite pick_suffix_skipn by lia. rewrite rightmost_skipn. do 2 f_equal. lia.
Qed.

(* ---- non-vacuity --------------------------------------------------------------------- *)
(* RFC 4034 5.4 example key: dskey.example.com. DNSKEY 256 3 5 (...) ; key tag 60485 *)
Example key_tag_example :
  key_tag 257 3 8 [3;1;0;1;200;17] = Ok (rfc_keytag (rfc_dnskey_rdata 257 3 8 [3;1;0;1;200;17])) /\
  key_tag 257 3 8 [3;1;0;1;200;17] = Ok 53020 /\
  key_tag 0 3 1 [9;8;7;6;5] = Ok 1798 /\ rfc_keytag_alg1 [9;8;7;6;5] = 1798 /\
  key_tag 0 0 1 [7;7] = Ok 0.
Proof. vm_compute. repeat split. Qed.

Example ds_example :
  ds_digest 2 [] 257 3 8 [3;1;0;1] = Ok (sha256 (0 :: [1;1;3;8;3;1;0;1])) /\
  ds_digest 3 [] 257 3 8 [3;1;0;1] = Err 1.
Proof. split; reflexivity. Qed.

Example wce_example :
  wildcard_closest_encloser 1 [[97]; [98]; [99]] = Some [[99]] /\
  wildcard_closest_encloser 3 [[97]; [98]; [99]] = None.
Proof. vm_compute. split; reflexivity. Qed.
