(* C12 model, SortedRecords entry points (dnssec/sign/records.rs):
     insert            binary_search_by(|stored| stored.canonical_cmp(&record)):
                       Ok(_) => Err(record) (refused), Err(idx) => insert at idx
     extend            push every item, Sort::sort_by(canonical_cmp), dedup
     from_iter         new() + extend
     From<Vec<_>>      sort_by(canonical_cmp), dedup
   over C13's record representation and comparison (C13.Model.sr_cmp =
   Record::canonical_cmp for one class, sr_insert = sorted insertion,
   sorted_records = sort + dedup).  On a vector that is in canonical order the
   binary search finds an element comparing Equal iff there is one, and
   otherwise returns the one position that keeps the order; that the vector IS
   in canonical order at every call is a theorem (ProofsSortedRecords.v), not an
   assumption of the model.  Definitions only. *)
From Coq Require Import NArith List Bool.
From DV Require C13.Model.
From DV Require Import Base.Bytes Base.Names.
Import ListNotations.
Local Open Scope N_scope.

Notation srec := C13.Model.srec.

Inductive sop :=
| OInsert (r : srec)
| OExtend (l : list srec).      (* also from_iter and From<Vec> on an empty collection *)

Definition has_equal (st : list srec) (r : srec) : bool :=
  existsb (fun y => match C13.Model.sr_cmp y r with Eq => true | _ => false end) st.

(* (new state, accepted) *)
Definition so_insert (st : list srec) (r : srec) : list srec * bool :=
  if has_equal st r then (st, false) else (C13.Model.sr_insert r st, true).

Definition so_extend (st : list srec) (l : list srec) : list srec :=
  C13.Model.sorted_records (st ++ l).

(* run a sequence; the accepted flags of the inserts come back in order *)
Fixpoint so_run (st : list srec) (ops : list sop) : list srec * list bool :=
  match ops with
  | [] => (st, [])
  | OInsert r :: rest =>
      let '(st', ok) := so_insert st r in
      let '(fin, oks) := so_run st' rest in (fin, ok :: oks)
  | OExtend l :: rest => so_run (so_extend st l) rest
  end.

Definition c12_sorted_ops (ops : list sop) : list srec * list bool := so_run [] ops.
