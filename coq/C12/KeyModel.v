(* C12 model, public-key parsing part:
     crypto/common.rs   rsa_exponent_modulus, rsa_encode
     dnssec/validator/base.rs   DnskeyExt::key_size
   These are the paths a DNSKEY's public key field takes before any
   cryptography; the field comes off the wire, so every octet string must give a
   result or an error.  Err 1 = AlgorithmError::InvalidData, Err 2 = Unsupported.
   Definitions only. *)
From Coq Require Import NArith List Bool.
From DV Require Import Base.Outcome Base.Bytes C12.Gen.
Import ListNotations.
Local Open Scope N_scope.

(* the exponent length prefix (RFC 3110 section 2): one octet 1..255, or a zero
   octet followed by two octets whose first is not zero *)
Definition rsa_split (pk : bytes) : option (N * bytes) :=
  match pk with
  | [] => None
  | l :: rest =>
      if (rsa_short_min <=? l) && (l <=? rsa_short_max) then Some (l, rest)
      else if l =? 0 then
        match rest with
        | hi :: lo :: rest' =>
            if (rsa_long_hi_min <=? hi) && (hi <=? 255) then Some (of_be16 hi lo, rest') else None
        | _ => None
        end
      else None
  end.

(* !(1..=512).contains(&i.len()) || i[0] == 0 *)
Definition rsa_part_bad (i : bytes) : bool :=
  negb ((rsa_part_min_len <=? len i) && (len i <=? rsa_part_max_len)) ||
  match i with f :: _ => f =? 0 | [] => false end.

Definition rsa_exponent_modulus (pk : bytes) (min_len : N) : outcome (bytes * bytes) :=
  match rsa_split pk with
  | None => Err 1
  | Some (exp_len, rest) =>
      if len rest <? exp_len then Err 1
      else
        let e := firstn (N.to_nat exp_len) rest in
        let n := skipn (N.to_nat exp_len) rest in
        if rsa_part_bad e || rsa_part_bad n then Err 1
        else if len n <? min_len then Err 2
        else Ok (e, n)
  end.

Fixpoint trim_zeroes (b : bytes) : bytes :=
  match b with
  | 0 :: t => trim_zeroes t
  | _ => b
  end.

(* Panic 20 = unreachable!("RSA exponents are (much) shorter than 64KiB") *)
Definition rsa_encode (e n : bytes) : outcome bytes :=
  let e := trim_zeroes e in
  let n := trim_zeroes n in
  if len e <? 256 then Ok (len e :: e ++ n)
  else if len e <? 65536 then Ok (0 :: be16 (len e) ++ e ++ n)
  else Panic 20.

(* u8::leading_zeros *)
Definition leading_zeros8 (x : N) : N := 8 - N.size x.

Definition memN (x : N) (l : list N) : bool := existsb (N.eqb x) l.

Definition key_size (alg : N) (pk : bytes) : outcome N :=
  if memN alg ks_rsa_algorithms then
    let go (exp_len off : N) : outcome N :=
      if off + exp_len <=? len pk then
        let n := skipn (N.to_nat (off + exp_len)) pk in
        match n with
        | [] => Err 1
        | f :: _ => Ok (len n * 8 - leading_zeros8 f)
        end
      else Err 1 in
    match pk with
    | 0 :: hi :: lo :: _ => go (of_be16 hi lo) 3
    | [] => Err 1
    | 0 :: _ => Err 1
    | l :: _ => go l 1
    end
  else if memN alg ks_ecdsa_algorithms then Ok (len pk / 2 * 8)
  else if memN alg ks_eddsa_algorithms then Ok (len pk * 8)
  else Err 2.

Definition c12_rsa_parse := rsa_exponent_modulus.
Definition c12_rsa_encode := rsa_encode.
Definition c12_key_size := key_size.
