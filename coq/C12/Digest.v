(* C12 model, DS digest part: DnskeyExt::digest with the hash functions of
   C11/Sha.v (SHA-1, SHA-256, SHA-384 written in Gallina).  Definitions only. *)
From Coq Require Import NArith List Bool.
From DV Require Import Base.Outcome Base.Bytes Base.Names C11.Sha C12.Gen C12.Model.
Import ListNotations.
Local Open Scope N_scope.

Fixpoint assocN (k : N) (l : list (N * N)) : option N :=
  match l with
  | [] => None
  | (a, b) :: t => if a =? k then Some b else assocN k t
  end.

(* DnskeyExt::digest; Err 1 = AlgorithmError::Unsupported *)
Definition ds_digest (dalg : N) (owner : name) (flags proto alg : N) (pk : bytes) : outcome bytes :=
  let inp := ds_input owner flags proto alg pk in
  match assocN dalg ds_algorithms with
  | Some 1 => Ok (sha1 inp)
  | Some 2 => Ok (sha256 inp)
  | Some 3 => Ok (sha384 inp)
  | _ => Err 1
  end.

Definition c12_ds_digest := ds_digest.
