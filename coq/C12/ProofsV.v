(* C12 -- widening round: the signer on ANY record list (no RRset contract
   assumed: the only panic is the mixed-TTL expect, the labels debug_assert
   never fires), the signer's indifference to record order and owner case,
   and the single-field alterations of the property text one by one (an RRSIG
   field, one record's RDATA, a dropped or added record, type, class, owner)
   under the binding hypothesis on the signature scheme. *)
From Coq Require Import NArith ZArith List Bool Lia Sorting.Permutation Sorting.Sorted.
From Coq Require Import ZifyN ZifyBool ZifyNat.
From DV Require Import Base.Outcome Base.Bytes Base.Lex Base.Names C17.Model C17.Proofs
  C12.Gen C12.Model C12.Spec C12.ProofsSort C12.ProofsSigned C12.ProofsInj C12.ProofsCrypto.
Import ListNotations.
Local Open Scope N_scope.
Ltac Zify.zify_post_hook ::= Z.div_mod_to_equations.

(* ---- the labels debug_assert holds for every owner ------------------------- *)
Lemma label_count_lt (o : name) : rrsig_label_count o < N.of_nat (length o) + 1.
Proof.
  destruct o as [|l rest]; cbn [rrsig_label_count length]; [lia|].
  unfold label_count_wildcard_minus. destruct (is_wildcard l); lia.
Qed.

Lemma sort_rr_nil l : sort_rr l = [] -> l = [].
Proof. intros E. apply Permutation_nil. rewrite <- E. apply (sort_by_perm _ r_rdata l). Qed.

Lemma forallb_false {A} (f : A -> bool) l :
  forallb f l = false -> exists x, In x l /\ f x = false.
Proof.
  induction l as [|a t IH]; cbn [forallb]; [discriminate|].
  destruct (f a) eqn:E; cbn [andb]; intros H.
  - destruct (IH H) as (x & Hx & Hf). exists x. split; [right; exact Hx|exact Hf].
  - exists a. split; [left; reflexivity|exact E].
Qed.

(* sign_rrset on any list of records: every outcome and what it means *)
Lemma signer_outcomes_any_records k rrset inc exp :
  inc < 4294967296 -> exp < 4294967296 ->
  (sign_rrset k rrset inc exp = Err 3 /\ rrset = []) \/
  (sign_rrset k rrset inc exp = Panic 2 /\
     exists a b, In a rrset /\ In b rrset /\ r_ttl a <> r_ttl b) \/
  (sign_rrset k rrset inc exp = Err 1 /\ exists r, In r rrset /\ r_type r = 46) \/
  (sign_rrset k rrset inc exp = Err 2 /\ rrset <> [] /\ serial_partial_cmp exp inc = Ok (Some Lt)) \/
  (exists s scratch, sign_rrset k rrset inc exp = Ok (s, scratch) /\ rrset <> [] /\
                     serial_partial_cmp exp inc <> Ok (Some Lt)).
Proof.
  intros Hi He. unfold sign_rrset.
  change (if sign_rrset_sorts_ascending_by_canonical_rdata then sort_rr rrset else rrset)
    with (sort_rr rrset).
  destruct (sort_rr rrset) as [|first rest] eqn:Es.
  - left. split; [reflexivity|apply sort_rr_nil; exact Es].
  - assert (Hin : forall r, In r (first :: rest) -> In r rrset).
    { intros r Hr. eapply Permutation_in; [|exact Hr]. rewrite <- Es. apply (sort_by_perm _ r_rdata rrset). }
    assert (Hne : rrset <> []) by (intros ->; vm_compute in Es; discriminate).
    unfold rrset_new, rrset_ttl_exempt_rtype, rrset_new_panics_on_mixed_ttl.
    destruct (N.eqb_spec (r_type first) 46) as [H46|H46].
    + cbn [bind]. unfold sign_sorted, signer_refused_rtype.
      destruct (N.eqb_spec (r_type first) 46) as [_|Hn]; [|contradiction].
      right; right; left. split; [reflexivity|].
      exists first. split; [apply Hin; left; reflexivity|exact H46].
    + destruct (forallb (fun r => r_ttl r =? r_ttl first) (first :: rest)) eqn:Ef.
      * cbn [bind]. unfold sign_sorted, signer_refused_rtype, signer_rejects_exp_lt_inc,
          signer_scratch_is_prefix_then_records.
        destruct (N.eqb_spec (r_type first) 46) as [Hy|_]; [contradiction|].
        rewrite (cmp_closed_form exp inc He Hi). cbn [bind].
        rewrite proto_rrsig_closed. cbn [s_labels].
        pose proof (label_count_lt (r_owner first)) as Hlt.
        destruct (N.ltb_spec (rrsig_label_count (r_owner first)) (N.of_nat (length (r_owner first)) + 1))
          as [_|Hge]; [|lia].
        destruct (classify (wdiff exp inc)) as [[| |]|] eqn:Ec.
        -- right; right; right; right. eexists; eexists.
           split; [reflexivity|split; [exact Hne|discriminate]].
        -- right; right; right; left. split; [reflexivity|split; [exact Hne|reflexivity]].
        -- right; right; right; right. eexists; eexists.
           split; [reflexivity|split; [exact Hne|discriminate]].
        -- right; right; right; right. eexists; eexists.
           split; [reflexivity|split; [exact Hne|discriminate]].
      * right; left. split; [reflexivity|].
        apply forallb_false in Ef as (x & Hx & Hf). apply N.eqb_neq in Hf.
        exists x, first. split; [apply Hin; exact Hx|]. split; [apply Hin; left; reflexivity|exact Hf].
Qed.

Example signer_outcomes_examples :
  let k := mk_skey 15 7 [] in
  sign_rrset k [] 5 10 = Err 3 /\
  sign_rrset k [mk_rr [] 1 1 60 [1]; mk_rr [] 1 1 61 [2]] 5 10 = Panic 2 /\
  sign_rrset k [mk_rr [] 1 1 60 [1]; mk_rr [] 46 1 60 [0]] 5 10 = Err 1 /\
  sign_rrset k [mk_rr [] 1 1 60 [1]] 10 5 = Err 2 /\
  (exists r, sign_rrset k [mk_rr [[97]] 1 1 60 [1]; mk_rr [[98]] 2 3 60 [0]] 5 10 = Ok r).
Proof. vm_compute. repeat split. eexists; reflexivity. Qed.

(* ---- any record order, any owner case on the signer's side ------------------ *)
Lemma signer_order_and_case_insensitive k o t c ttl rrset rrset' inc exp s scratch :
  valid_abs o -> uniform o t c ttl rrset -> uniform o t c ttl rrset' ->
  Permutation (map r_rdata rrset) (map r_rdata rrset') ->
  inc < 4294967296 -> exp < 4294967296 ->
  sign_rrset k rrset inc exp = Ok (s, scratch) ->
  sign_rrset k rrset' inc exp = Ok (s, scratch).
Proof.
  intros Hv Hu Hu' Hp Hi He Hs.
  pose proof (sign_rrset_ok _ _ _ _ _ _ _ _ _ _ Hu Hs) as (Hsig & Hscr & Ht & Hc & Hne).
  assert (Hne' : rrset' <> []).
  { intros ->. destruct rrset as [|x l]; [contradiction|].
    apply Permutation_length in Hp. cbn in Hp. discriminate Hp. }
  pose proof (signer_total k o t c ttl rrset' inc exp Hv Hu' Hne' Hi He) as Htot.
  destruct (sign_rrset k rrset' inc exp) as [[s' scr']|e| |] eqn:E'.
  - pose proof (sign_rrset_ok _ _ _ _ _ _ _ _ _ _ Hu' E') as (Hsig' & Hscr' & _).
    assert (Hss : s' = s) by congruence.
    assert (Hsc : scr' = scratch).
    { rewrite Hscr, Hscr', Hss. f_equal. f_equal.
      symmetry. apply (sort_keys_perm r_rdata r_rdata _ _ Hp). }
    rewrite Hss, Hsc. reflexivity.
  - destruct e as [|[p|[p|p|]|]]; try (exfalso; exact Htot).
    + destruct Htot as [_ Hlt]. contradiction.
    + contradiction.
  - contradiction.
  - contradiction.
Qed.

Example signer_order_example :
  let k := mk_skey 15 7 [[101]] in
  let a := mk_rr [[87]; [101]] 1 1 60 [10;0;0;2] in
  let b := mk_rr [[119]; [101]] 1 1 60 [10;0;0;1] in
  sign_rrset k [a; b] 5 10 = sign_rrset k [b; a] 5 10 /\
  exists r, sign_rrset k [a; b] 5 10 = Ok r.
Proof. vm_compute. split; [reflexivity|eexists; reflexivity]. Qed.

(* ---- the alterations one by one ---------------------------------------------- *)
Definition sig_fields (s : sigf) :=
  (s_tc s, s_alg s, s_labels s, s_ottl s, s_exp s, s_inc s, s_kt s, canon (s_signer s)).

Lemma perm_middle_inv {A} (l1 l2 : list A) x y :
  Permutation (l1 ++ x :: l2) (l1 ++ y :: l2) -> x = y.
Proof.
  intros P. apply Permutation_app_inv_l in P.
  apply (Permutation_app_inv_r l2 [x] [y]) in P.
  apply Permutation_length_1 in P. exact P.
Qed.

Section Tamper.
  Variables secret public : Type.
  Variable sign : secret -> bytes -> bytes.
  Variable verify : public -> bytes -> bytes -> bool.
  Variable sk : secret.
  Variable pk : public.

  (* with a binding scheme, whatever verifies has the octets of the honest view *)
  Lemma verified_means_same_octets k o t c ttl rrset inc exp s scratch :
    (forall m m', verify pk m' (sign sk m) = true -> m' = m) ->
    valid_abs o -> uniform o t c ttl rrset ->
    sign_rrset k rrset inc exp = Ok (s, scratch) ->
    forall dalg s' seen seen', resolver_view o t c rrset seen ->
      verify_signed_data public verify pk dalg s' (sign sk scratch) (signed_data s' seen') = Ok tt ->
      signed_data s' seen' = signed_data s seen.
  Proof.
    intros Hbind Hv Hu Hs dalg s' seen seen' Hseen H.
    rewrite (validator_rebuilds_signer_input _ _ _ _ _ _ _ _ _ _ Hv Hu Hs seen Hseen).
    unfold verify_signed_data in H.
    destruct (alg_mismatch (s_alg s') dalg); [discriminate|].
    destruct (verify pk (signed_data s' seen') (sign sk scratch)) eqn:E; [|discriminate].
    apply Hbind in E. exact E.
  Qed.

  (* any RRSIG field other than the signature (signer name up to case) *)
  Lemma altered_rrsig_field_rejected k o t c ttl rrset inc exp s scratch :
    (forall m m', verify pk m' (sign sk m) = true -> m' = m) ->
    valid_abs o -> uniform o t c ttl rrset ->
    sign_rrset k rrset inc exp = Ok (s, scratch) ->
    forall dalg s' seen seen', resolver_view o t c rrset seen ->
      wf_sig s -> wf_sig s' -> Forall wf_rr seen -> Forall wf_rr seen' ->
      sig_fields s' <> sig_fields s ->
      verify_signed_data public verify pk dalg s' (sign sk scratch) (signed_data s' seen') <> Ok tt.
  Proof.
    intros Hbind Hv Hu Hs dalg s' seen seen' Hseen W W' R R' Hne H.
    apply (verified_means_same_octets _ _ _ _ _ _ _ _ _ _ Hbind Hv Hu Hs dalg s' seen seen' Hseen) in H.
    apply signed_octets_determine_covered_fields in H
      as (H1 & H2 & H3 & H4 & H5 & H6 & H7 & H8 & _); try assumption.
    apply Hne. unfold sig_fields. rewrite H1, H2, H3, H4, H5, H6, H7, H8. reflexivity.
  Qed.

  (* one record's RDATA replaced (a flipped bit, a changed length, ...) *)
  Lemma altered_rdata_rejected k o t c ttl rrset inc exp s scratch :
    (forall m m', verify pk m' (sign sk m) = true -> m' = m) ->
    valid_abs o -> uniform o t c ttl rrset ->
    sign_rrset k rrset inc exp = Ok (s, scratch) ->
    forall dalg s' l1 r r' l2, resolver_view o t c rrset (l1 ++ r :: l2) ->
      wf_sig s -> wf_sig s' -> Forall wf_rr (l1 ++ r :: l2) -> Forall wf_rr (l1 ++ r' :: l2) ->
      r_rdata r' <> r_rdata r ->
      verify_signed_data public verify pk dalg s' (sign sk scratch) (signed_data s' (l1 ++ r' :: l2)) <> Ok tt.
  Proof.
    intros Hbind Hv Hu Hs dalg s' l1 r r' l2 Hseen W W' R R' Hne H.
    apply (verified_means_same_octets _ _ _ _ _ _ _ _ _ _ Hbind Hv Hu Hs dalg s' _ _ Hseen) in H.
    apply signed_octets_determine_covered_fields in H
      as (_ & _ & _ & _ & _ & _ & _ & _ & P & _); try assumption.
    rewrite !map_app in P. cbn [map] in P. apply perm_middle_inv in P. contradiction.
  Qed.

  (* a record dropped from or added to the RRset *)
  Lemma changed_record_count_rejected k o t c ttl rrset inc exp s scratch :
    (forall m m', verify pk m' (sign sk m) = true -> m' = m) ->
    valid_abs o -> uniform o t c ttl rrset ->
    sign_rrset k rrset inc exp = Ok (s, scratch) ->
    forall dalg s' seen seen', resolver_view o t c rrset seen ->
      wf_sig s -> wf_sig s' -> Forall wf_rr seen -> Forall wf_rr seen' ->
      length seen' <> length rrset ->
      verify_signed_data public verify pk dalg s' (sign sk scratch) (signed_data s' seen') <> Ok tt.
  Proof.
    intros Hbind Hv Hu Hs dalg s' seen seen' Hseen W W' R R' Hne H.
    apply (verified_means_same_octets _ _ _ _ _ _ _ _ _ _ Hbind Hv Hu Hs dalg s' seen seen' Hseen) in H.
    apply signed_octets_determine_covered_fields in H
      as (_ & _ & _ & _ & _ & _ & _ & _ & _ & L); try assumption.
    destruct Hseen as [Hp _]. apply Permutation_length in Hp. rewrite !map_length in Hp.
    apply Hne. congruence.
  Qed.

  (* a record of another type, class or owner (after wildcard restoration) *)
  Lemma altered_type_class_owner_rejected k o t c ttl rrset inc exp s scratch :
    (forall m m', verify pk m' (sign sk m) = true -> m' = m) ->
    valid_abs o -> uniform o t c ttl rrset ->
    sign_rrset k rrset inc exp = Ok (s, scratch) ->
    forall dalg s' seen seen' r', resolver_view o t c rrset seen ->
      wf_sig s -> wf_sig s' -> Forall wf_rr seen -> Forall wf_rr seen' ->
      In r' seen' ->
      (r_type r' <> t \/ r_class r' <> c \/
       canon (rfc_name (s_labels s') (r_owner r')) <> canon o) ->
      verify_signed_data public verify pk dalg s' (sign sk scratch) (signed_data s' seen') <> Ok tt.
  Proof.
    intros Hbind Hv Hu Hs dalg s' seen seen' r' Hseen W W' R R' Hr' Hne H.
    apply (verified_means_same_octets _ _ _ _ _ _ _ _ _ _ Hbind Hv Hu Hs dalg s' seen seen' Hseen) in H.
    apply signed_data_injective in H; try assumption.
    pose proof (sign_rrset_ok _ _ _ _ _ _ _ _ _ _ Hu Hs) as (Hsig & _).
    assert (Hlab : s_labels s = rfc_labels o).
    { rewrite Hsig. cbn [s_labels]. apply rrsig_label_count_is_rfc. exact Hv. }
    unfold covered in H. injection H as _ _ _ _ _ _ _ _ H9.
    match type of H9 with
    | ?L1 = _ =>
        assert (Hin : In (canon (rfc_name (s_labels s') (r_owner r')), r_type r', r_class r', r_rdata r') L1)
    end.
    { apply in_map_iff. exists r'. split; [reflexivity|].
      eapply Permutation_in; [apply Permutation_sym, (sort_by_perm _ r_rdata seen')|exact Hr']. }
    rewrite H9 in Hin. apply in_map_iff in Hin as (r & Heq & Hr).
    assert (Hrs : In r seen).
    { eapply Permutation_in; [apply (sort_by_perm _ r_rdata seen)|exact Hr]. }
    destruct Hseen as [_ Hall]. rewrite Forall_forall in Hall.
    destruct (Hall r Hrs) as (Hty & Hcl & Hown).
    injection Heq as Ho Hty' Hcl' _.
    destruct Hne as [Hn|[Hn|Hn]].
    - apply Hn. congruence.
    - apply Hn. congruence.
    - apply Hn. rewrite <- Ho, Hlab. apply seen_owner_restored. exact Hown.
  Qed.
End Tamper.

(* non-vacuity with a toy binding scheme (sign = identity, verify = equality):
   the honest view verifies, each alteration is refused *)
Example alterations_example :
  let sign := fun (_ : unit) (m : bytes) => m in
  let verify := fun (_ : unit) (m sg : bytes) => match lex_cmp m sg with Eq => true | _ => false end in
  let o := [star; [101;120]] in
  let rrset := [mk_rr o 1 1 300 [10;0;0;2]; mk_rr o 1 1 300 [10;0;0;1]] in
  let seen := [mk_rr [[87]; [69;88]] 1 1 17 [10;0;0;1]; mk_rr [[97]; [98]; [101;88]] 1 1 17 [10;0;0;2]] in
  exists s scratch, sign_rrset (mk_skey 15 4711 [[101;120]]) rrset 5 10 = Ok (s, scratch) /\
    verify_signed_data unit verify tt 15 s (sign tt scratch) (signed_data s seen) = Ok tt /\
    (* flipped RDATA bit *)
    verify_signed_data unit verify tt 15 s (sign tt scratch)
      (signed_data s [mk_rr [[87]; [69;88]] 1 1 17 [10;0;0;1]; mk_rr [[97]; [98]; [101;88]] 1 1 17 [10;0;0;3]]) = Err 2 /\
    (* dropped record *)
    verify_signed_data unit verify tt 15 s (sign tt scratch)
      (signed_data s [mk_rr [[87]; [69;88]] 1 1 17 [10;0;0;1]]) = Err 2 /\
    (* other class *)
    verify_signed_data unit verify tt 15 s (sign tt scratch)
      (signed_data s [mk_rr [[87]; [69;88]] 1 3 17 [10;0;0;1]; mk_rr [[97]; [98]; [101;88]] 1 1 17 [10;0;0;2]]) = Err 2 /\
    (* original TTL altered in the RRSIG *)
    verify_signed_data unit verify tt 15
      (mk_sigf (s_tc s) (s_alg s) (s_labels s) 299 (s_exp s) (s_inc s) (s_kt s) (s_signer s))
      (sign tt scratch)
      (signed_data (mk_sigf (s_tc s) (s_alg s) (s_labels s) 299 (s_exp s) (s_inc s) (s_kt s) (s_signer s)) seen) = Err 2 /\
    (* key of another algorithm *)
    verify_signed_data unit verify tt 13 s (sign tt scratch) (signed_data s seen) = Err 1.
Proof.
  cbv zeta. eexists; eexists. split; [vm_compute; reflexivity|].
  repeat split; vm_compute; reflexivity.
Qed.
