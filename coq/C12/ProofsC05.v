(* C12 -- link to C05: the canonical RDATA that C12.Model treats as octets is
   `compose_canonical` of a typed value under the record type's schema
   (C05.Schema).  C05 proves that the canonical form only lower-cases the name
   fields flagged by RFC 4034 6.2 (canonical_only_lowercases).  Hence a change
   of ASCII case inside those names - which a resolver may see - does not
   change the signed octets, and the resolver theorem holds for typed records. *)
From Coq Require Import NArith List Bool Lia Sorting.Permutation.
From DV Require C05.Schema C05.ProofsB.
From DV Require Import Base.Outcome Base.Bytes Base.Lex Base.Names
  C12.Gen C12.Model C12.Spec C12.ProofsSort C12.ProofsSigned.
Import ListNotations.
Local Open Scope N_scope.

Record trec := mk_trec {
  t_owner : name; t_type : N; t_class : N; t_ttl : N;
  t_schema : C05.Schema.schema; t_value : C05.Schema.value }.

Definition t_to_rr (x : trec) : rr :=
  mk_rr (t_owner x) (t_type x) (t_class x) (t_ttl x)
        (C05.Schema.compose_canonical (t_schema x) (t_value x)).

(* same record data up to the case of the names that the canonical form folds *)
Definition case_variant (a b : trec) : Prop :=
  t_schema a = t_schema b /\
  C05.Schema.lower_flagged (t_schema a) (t_value a) = C05.Schema.lower_flagged (t_schema b) (t_value b).

Lemma case_variant_same_rdata a b : case_variant a b -> r_rdata (t_to_rr a) = r_rdata (t_to_rr b).
Proof.
  intros [Hs Hv]. unfold t_to_rr. cbn [r_rdata].
  rewrite !C05.ProofsB.canonical_only_lowercases, <- Hs, Hv, Hs. reflexivity.
Qed.

(* what a resolver may hold, at the level of typed records: the signed records
   in any order, each with any case in its folded names, any TTL, the owner in
   any case or any expansion of a wildcard owner *)
Definition typed_resolver_view (o : name) (t c : N) (signed seen : list trec) : Prop :=
  exists p, Permutation signed p /\
    Forall2 (fun a b => case_variant a b /\ t_type b = t /\ t_class b = c /\ owner_seen_as o (t_owner b)) p seen.

Lemma typed_view_is_view o t c signed seen :
  typed_resolver_view o t c signed seen ->
  resolver_view o t c (map t_to_rr signed) (map t_to_rr seen).
Proof.
  intros (p & Hp & Hf). split.
  - rewrite !map_map. rewrite (Permutation_map (fun x => r_rdata (t_to_rr x)) Hp).
    clear Hp. induction Hf as [|a b p' seen' (Hcv & _) _ IH]; cbn [map]; [reflexivity|].
    rewrite (case_variant_same_rdata a b Hcv). constructor. exact IH.
  - clear Hp. induction Hf as [|a b p' seen' (_ & Ht & Hc & Ho) _ IH]; cbn [map]; constructor; [|exact IH].
    unfold t_to_rr. cbn [r_type r_class r_owner]. auto.
Qed.

Lemma typed_validator_rebuilds_signer_input k o t c ttl rrset inc exp s scratch :
  valid_abs o -> uniform o t c ttl (map t_to_rr rrset) ->
  sign_rrset k (map t_to_rr rrset) inc exp = Ok (s, scratch) ->
  forall seen, typed_resolver_view o t c rrset seen -> signed_data s (map t_to_rr seen) = scratch.
Proof.
  intros Hv Hu Hs seen Hview.
  exact (validator_rebuilds_signer_input _ _ _ _ _ _ _ _ _ _ Hv Hu Hs _ (typed_view_is_view _ _ _ _ _ Hview)).
Qed.

(* non-vacuity: an MX exchange in another case *)
Example typed_case_example :
  let mx := C05.Schema.mkS [C05.Schema.U16; C05.Schema.NameC true] None true C05.Schema.PNone in
  let a := mk_trec [[97]] 15 1 60 mx [C05.Schema.VNum 10; C05.Schema.VName [[77; 88]; [101]]] in
  let b := mk_trec [[65]] 15 1 7 mx [C05.Schema.VNum 10; C05.Schema.VName [[109; 120]; [69]]] in
  case_variant a b /\ r_rdata (t_to_rr a) = [0; 10; 2; 109; 120; 1; 101; 0].
Proof. cbv zeta. split; [split; reflexivity|vm_compute; reflexivity]. Qed.
