(* C12 -- the validator's signed_data and the signer's scratch buffer:
   closed forms (this is where the T1 field-order lists are compared with the
   RFC order), RFC 4034 3.1.8.1 conformance, and the resolver-transformation
   theorem. *)
From Coq Require Import NArith List Bool Lia Sorting.Permutation Sorting.Sorted.
From Coq Require Import ZifyN ZifyBool ZifyNat.
From DV Require Import Base.Outcome Base.Bytes Base.Lex Base.Names C17.Model C17.Proofs
  C12.Gen C12.Model C12.Spec C12.ProofsSort.
Import ListNotations.
Local Open Scope N_scope.

(* ---- T1 lists against the RFC order (reflexivity on the generated lists) --- *)
Lemma sd_prefix_is_rfc s : sig_prefix sd_prefix_order s = rfc_rrsig_rdata s.
Proof.
  cbv [sig_prefix sd_prefix_order enc_sig_field cname label_canonical_lowercases rfc_rrsig_rdata].
  cbn [flat_map]. rewrite app_nil_r. reflexivity.
Qed.

Lemma proto_prefix_is_rfc s : sig_prefix proto_order s = rfc_rrsig_rdata s.
Proof.
  cbv [sig_prefix proto_order enc_sig_field cname label_canonical_lowercases rfc_rrsig_rdata].
  cbn [flat_map]. rewrite app_nil_r. reflexivity.
Qed.

Lemma sd_rr_closed ottl owner r :
  enc_rr sd_rr_order ottl owner r =
  owner ++ be16 (r_type r) ++ be16 (r_class r) ++ be32 ottl ++ be16 (len (r_rdata r)) ++ r_rdata r.
Proof.
  cbv [enc_rr sd_rr_order enc_rr_field]. cbn [flat_map].
  rewrite ?app_nil_r, <- ?app_assoc. reflexivity.
Qed.

Lemma record_canonical_closed r :
  record_canonical r =
  wire_abs (canon (r_owner r)) ++ be16 (r_type r) ++ be16 (r_class r) ++ be32 (r_ttl r) ++
  be16 (len (r_rdata r)) ++ r_rdata r.
Proof.
  cbv [record_canonical enc_rr record_canonical_order enc_rr_field cname label_canonical_lowercases].
  cbn [flat_map]. rewrite ?app_nil_r, <- ?app_assoc. reflexivity.
Qed.

Lemma proto_rrsig_closed first k inc exp :
  proto_rrsig first k inc exp =
  mk_sigf (r_type first) (k_alg k) (rrsig_label_count (r_owner first)) (r_ttl first)
          exp inc (k_tag k) (k_owner k).
Proof. reflexivity. Qed.

(* ---- suffixes, rightmost labels ------------------------------------------- *)
Lemma nth_suffixes n k : (k <= length n)%nat -> nth_error (suffixes n) k = Some (skipn k n).
Proof.
  revert k; induction n as [|l t IH]; intros k Hk.
  - destruct k; [reflexivity|simpl in Hk; lia].
  - destruct k as [|k]; [reflexivity|]. cbn [suffixes nth_error skipn].
    apply IH. simpl in Hk. lia.
Qed.

Lemma pick_suffix_skipn n k : k <= N.of_nat (length n) -> pick_suffix n k = skipn (N.to_nat k) n.
Proof. intros H. unfold pick_suffix. rewrite nth_suffixes by lia. reflexivity. Qed.

Lemma rightmost_skipn k (n : name) : rightmost k n = skipn (length n - k) n.
Proof. unfold rightmost. rewrite firstn_rev, rev_involutive. reflexivity. Qed.

Lemma cname_star n : wire_abs (canon (star :: n)) = [1; 42] ++ wire_abs (canon n).
Proof. reflexivity. Qed.

Lemma restored_owner_is_rfc labels owner :
  restored_owner labels owner = wire_abs (canon (rfc_name labels owner)).
Proof.
  cbv [restored_owner fqdn_labels sd_root_labels_subtracted wildcard_test sd_wildcard_test_is_lt
       sd_suffix_index_is_fqdn_minus_rrsig sd_wildcard_label cname label_canonical_lowercases rfc_name].
  replace (N.of_nat (length owner) + 1 - 1) with (N.of_nat (length owner)) by lia.
  destruct (N.ltb_spec labels (N.of_nat (length owner))) as [Hlt|Hge]; [|reflexivity].
  rewrite pick_suffix_skipn by lia. rewrite rightmost_skipn, cname_star.
  replace (N.to_nat (N.of_nat (length owner) - labels)) with (length owner - N.to_nat labels)%nat by lia.
  reflexivity.
Qed.

(* ---- closed form of signed_data ----------------------------------------------- *)
Lemma signed_data_closed s recs :
  signed_data s recs = rfc_rrsig_rdata s ++ flat_map (rfc_rr s) (sort_rr recs).
Proof.
  unfold signed_data. rewrite sd_prefix_is_rfc. f_equal.
  change (if sd_sorts_ascending_by_canonical_rdata then sort_rr recs else recs) with (sort_rr recs).
  apply flat_map_ext. intros r. rewrite sd_rr_closed, restored_owner_is_rfc. reflexivity.
Qed.

(* signed_data_is_rfc4034 *)
Lemma signed_data_is_rfc4034 s recs : RFC4034_signed_data s recs (signed_data s recs).
Proof.
  exists (sort_rr recs). split; [apply sort_by_perm|]. split; [apply (sort_by_sorted _ r_rdata)|].
  apply signed_data_closed.
Qed.

(* the RFC construction determines the octets as soon as records with equal
   RDATA encode equally (true for an RRset: one owner, class, type) *)
Lemma flat_map_same_keys (f : rr -> bytes) (l1 l2 : list rr) :
  map r_rdata l1 = map r_rdata l2 ->
  (forall a b, In a l1 -> In b l2 -> r_rdata a = r_rdata b -> f a = f b) ->
  flat_map f l1 = flat_map f l2.
Proof.
  revert l2; induction l1 as [|a t1 IH]; intros [|b t2] Hm Hf; cbn [map flat_map] in *;
    try discriminate; [reflexivity|].
  injection Hm as Hab Hm. rewrite (Hf a b) by (simpl; auto).
  f_equal. apply IH; [exact Hm|]. intros x y Hx Hy. apply Hf; simpl; auto.
Qed.

Lemma rfc4034_signed_data_unique s rrset o1 o2 :
  (forall a b, In a rrset -> In b rrset -> r_rdata a = r_rdata b -> rfc_rr s a = rfc_rr s b) ->
  RFC4034_signed_data s rrset o1 -> RFC4034_signed_data s rrset o2 -> o1 = o2.
Proof.
  intros Hf (r1 & Hp1 & Hs1 & ->) (r2 & Hp2 & Hs2 & ->). f_equal.
  apply flat_map_same_keys.
  - apply sorted_perm_eq.
    + apply (sorted_map_key _ r_rdata). exact Hs1.
    + apply (sorted_map_key _ r_rdata). exact Hs2.
    + apply Permutation_map. rewrite Hp1. apply Permutation_sym. exact Hp2.
  - intros a b Ha Hb. apply Hf.
    + eapply Permutation_in; [exact Hp1|exact Ha].
    + eapply Permutation_in; [exact Hp2|exact Hb].
Qed.

(* duplicates: neither the validator nor the signer removes RRs with equal
   RDATA (RFC 4034 6.3 allows treating them as a protocol error); every record
   handed in is encoded *)
Lemma flat_map_length_perm {A} (f : A -> bytes) l1 l2 :
  Permutation l1 l2 -> length (flat_map f l1) = length (flat_map f l2).
Proof.
  induction 1 as [|x l l' _ IH|x y l|l l' l'' _ IH1 _ IH2]; cbn [flat_map]; rewrite ?app_length; lia.
Qed.

Lemma signed_data_keeps_every_record s r recs :
  length (signed_data s (r :: recs)) = (length (signed_data s recs) + length (rfc_rr s r))%nat.
Proof.
  rewrite !signed_data_closed, !app_length. unfold sort_rr.
  rewrite (flat_map_length_perm (rfc_rr s) _ _ (sort_by_perm _ r_rdata (r :: recs))).
  rewrite (flat_map_length_perm (rfc_rr s) _ _ (sort_by_perm _ r_rdata recs)).
  cbn [flat_map]. rewrite app_length. lia.
Qed.

(* ---- the labels field ------------------------------------------------------------ *)
Lemma is_wildcard_spec l : is_wildcard l = true <-> l = star.
Proof.
  unfold is_wildcard, wildcard_label_len, wildcard_label_octet, star.
  destruct l as [|c [|d t]]; cbn [length].
  - split; [intros H; discriminate|discriminate].
  - rewrite andb_true_iff, !N.eqb_eq. split; [intros [_ ->]; reflexivity|intros H; injection H as ->; split; reflexivity].
  - split; [|discriminate]. rewrite andb_true_iff, N.eqb_eq. intros [H _]. lia.
Qed.

Lemma valid_abs_labels (n : name) : valid_abs n -> (2 * length n <= 254)%nat.
Proof.
  intros [Hv Hl]. enough (2 * length n <= wire_len n)%nat by lia. clear Hl.
  induction Hv as [|l t [Hlen _] _ IH]; cbn [length wire_len]; lia.
Qed.

Lemma rrsig_label_count_is_rfc owner : valid_abs owner -> rrsig_label_count owner = rfc_labels owner.
Proof.
  intros Hv. pose proof (valid_abs_labels _ Hv) as Hl.
  destruct owner as [|l rest]; [reflexivity|].
  cbn [rrsig_label_count rfc_labels length] in *. unfold label_count_wildcard_minus.
  destruct (list_eq_dec N.eq_dec l star) as [->|Hne].
  - replace (is_wildcard star) with true by reflexivity.
    rewrite N.mod_small; lia.
  - destruct (is_wildcard l) eqn:E; [apply is_wildcard_spec in E; contradiction|].
    rewrite N.mod_small; lia.
Qed.

Lemma rfc_labels_le owner : rfc_labels owner <= N.of_nat (length owner).
Proof.
  destruct owner as [|l rest]; cbn [rfc_labels length]; [lia|].
  destruct (list_eq_dec N.eq_dec l star); lia.
Qed.

Lemma lower_42 c : lower c = 42 -> c = 42.
Proof. unfold lower. destruct ((65 <=? c) && (c <=? 90)) eqn:E; lia. Qed.

Lemma is_wildcard_lowers l : is_wildcard (lowers l) = is_wildcard l.
Proof.
  destruct (is_wildcard l) eqn:E.
  - apply is_wildcard_spec in E. subst. reflexivity.
  - destruct (is_wildcard (lowers l)) eqn:E2; [|reflexivity].
    apply is_wildcard_spec in E2. destruct l as [|c [|d t]]; try discriminate.
    unfold lowers, star in E2. cbn [map] in E2. injection E2 as E2. apply lower_42 in E2. subst.
    discriminate E.
Qed.

Lemma rrsig_label_count_canon a b : canon a = canon b -> rrsig_label_count a = rrsig_label_count b.
Proof.
  intros H. pose proof (f_equal (@length _) H) as Hl. unfold canon in *. rewrite !map_length in Hl.
  destruct a as [|la ta]; destruct b as [|lb tb]; try discriminate; [reflexivity|].
  cbn [map] in H. injection H as Hh Ht. cbn [length] in Hl. injection Hl as Hl.
  cbn [rrsig_label_count]. rewrite <- (is_wildcard_lowers la), <- (is_wildcard_lowers lb), Hh.
  assert (Hl' : length ta = length tb) by exact Hl. clear Hl.
  destruct (is_wildcard (lowers lb)); f_equal; lia.
Qed.

Lemma labels_field_is_rfc owner : valid_abs owner ->
  rrsig_label_count owner = rfc_labels owner /\ rfc_labels owner <= N.of_nat (length owner).
Proof. intros H. split; [exact (rrsig_label_count_is_rfc owner H)|exact (rfc_labels_le owner)]. Qed.

(* ---- the signer -------------------------------------------------------------------- *)
Lemma sign_sorted_ok k first rest inc exp s scratch :
  sign_sorted k (first :: rest) inc exp = Ok (s, scratch) ->
  s = mk_sigf (r_type first) (k_alg k) (rrsig_label_count (r_owner first)) (r_ttl first)
              exp inc (k_tag k) (k_owner k) /\
  scratch = rfc_rrsig_rdata s ++ flat_map record_canonical (first :: rest) /\
  r_type first <> 46 /\ serial_partial_cmp exp inc <> Ok (Some Lt).
Proof.
  unfold sign_sorted, signer_refused_rtype, signer_rejects_exp_lt_inc,
    signer_scratch_is_prefix_then_records.
  destruct (N.eqb_spec (r_type first) 46) as [|Hne]; [discriminate|].
  destruct (serial_partial_cmp exp inc) as [c| | |] eqn:Ec; cbn [bind]; try discriminate.
  rewrite proto_rrsig_closed, proto_prefix_is_rfc.
  destruct c as [[| |]|]; try discriminate;
    match goal with |- context [if ?b then Ok _ else Panic _] => destruct b end; try discriminate;
    intros H; injection H as <- <-; repeat split; try assumption; discriminate.
Qed.

Lemma uniform_sort o t c ttl l : uniform o t c ttl l -> uniform o t c ttl (sort_rr l).
Proof. apply sort_by_forall. Qed.

Lemma rrset_new_ok l l' : rrset_new l = Ok l' -> l' = l /\ l <> [].
Proof.
  unfold rrset_new, rrset_ttl_exempt_rtype, rrset_new_panics_on_mixed_ttl. destruct l as [|f t]; [discriminate|].
  destruct (r_type f =? 46); [intros H; injection H as <-; split; [reflexivity|discriminate]|].
  destruct (forallb _ _); [|discriminate]. intros H; injection H as <-. split; [reflexivity|discriminate].
Qed.

(* the octets the signer signs, for an RRset (one owner, type, class, TTL) *)
Definition rr_octets (o : name) (t c ttl : N) (d : bytes) : bytes :=
  wire_abs (canon o) ++ be16 t ++ be16 c ++ be32 ttl ++ be16 (len d) ++ d.

Lemma sign_rrset_ok k o t c ttl rrset inc exp s scratch :
  uniform o t c ttl rrset ->
  sign_rrset k rrset inc exp = Ok (s, scratch) ->
  s = mk_sigf t (k_alg k) (rrsig_label_count o) ttl exp inc (k_tag k) (k_owner k) /\
  scratch = rfc_rrsig_rdata s ++ flat_map (rr_octets o t c ttl) (map r_rdata (sort_rr rrset)) /\
  t <> 46 /\ serial_partial_cmp exp inc <> Ok (Some Lt) /\ rrset <> [].
Proof.
  intros Hu. unfold sign_rrset.
  change (if sign_rrset_sorts_ascending_by_canonical_rdata then sort_rr rrset else rrset)
    with (sort_rr rrset).
  destruct (rrset_new (sort_rr rrset)) as [l'| | |] eqn:En; cbn [bind]; try discriminate.
  apply rrset_new_ok in En as [-> Hne]. intros Hs.
  pose proof (uniform_sort _ _ _ _ _ Hu) as Hus.
  destruct (sort_rr rrset) as [|first rest] eqn:Es; [contradiction|].
  apply sign_sorted_ok in Hs as (Hsig & Hscr & Ht & Hp).
  pose proof (Forall_inv Hus) as (Ho & Hty & Hc & Httl).
  rewrite (rrsig_label_count_canon _ _ Ho), Hty, Httl in Hsig. rewrite Hty in Ht.
  repeat split; try assumption.
  - rewrite Hscr. f_equal. apply flat_map_via_key.
    eapply Forall_impl; [|exact Hus]. intros r (Hro & Hrt & Hrc & Hrl).
    rewrite record_canonical_closed, Hro, Hrt, Hrc, Hrl. reflexivity.
  - intros ->. discriminate.
Qed.

(* ---- owner as seen by the resolver -------------------------------------------------- *)
Lemma canon_length (a b : name) : canon a = canon b -> length a = length b.
Proof. intros H. apply (f_equal (@length _)) in H. unfold canon in H. rewrite !map_length in H. exact H. Qed.

Lemma lowers_star_inv l : lowers l = lowers star -> lowers l = star.
Proof. intros ->. reflexivity. Qed.

Lemma seen_owner_restored o o' :
  owner_seen_as o o' -> canon (rfc_name (rfc_labels o) o') = canon o.
Proof.
  intros [Hc|(z & x & z' & -> & -> & Hx & Hz)].
  - pose proof (canon_length _ _ Hc) as Hlen. unfold rfc_name.
    destruct o as [|l rest].
    + destruct o'; [|discriminate]. reflexivity.
    + destruct o' as [|l' rest']; [discriminate|].
      cbn [rfc_labels]. destruct (list_eq_dec N.eq_dec l star) as [->|Hne].
      * cbn [length] in *.
        destruct (N.ltb_spec (N.of_nat (length rest)) (N.of_nat (S (length rest')))) as [_|Hge]; [|lia].
        rewrite rightmost_skipn. cbn [length].
        replace (S (length rest') - N.to_nat (N.of_nat (length rest)))%nat with 1%nat by lia.
        cbn [skipn]. unfold canon in *. cbn [map] in *. injection Hc as Hl Hr.
        rewrite Hr. reflexivity.
      * destruct (N.ltb_spec (N.of_nat (length (l :: rest))) (N.of_nat (length (l' :: rest')))) as [Hlt|_]; [lia|].
        exact Hc.
  - unfold rfc_name. cbn [rfc_labels]. destruct (list_eq_dec N.eq_dec star star) as [_|Hne]; [|contradiction].
    pose proof (canon_length _ _ Hz) as Hlen. rewrite app_length.
    assert (Hxl : (0 < length x)%nat) by (destruct x; [contradiction|simpl; lia]).
    destruct (N.ltb_spec (N.of_nat (length z)) (N.of_nat (length x + length z'))) as [_|Hge]; [|lia].
    rewrite rightmost_skipn, app_length.
    replace (length x + length z' - N.to_nat (N.of_nat (length z)))%nat with (length x) by lia.
    pose proof (drop_app_length x z') as Hd; unfold drop in Hd; rewrite Hd. unfold canon in *. cbn [map]. rewrite Hz. reflexivity.
Qed.

(* ---- validator_rebuilds_signer_input ------------------------------------------------ *)
Lemma validator_rebuilds_signer_input k o t c ttl rrset inc exp s scratch :
  valid_abs o -> uniform o t c ttl rrset ->
  sign_rrset k rrset inc exp = Ok (s, scratch) ->
  forall seen, resolver_view o t c rrset seen -> signed_data s seen = scratch.
Proof.
  intros Hv Hu Hs seen [Hperm Hseen].
  apply (sign_rrset_ok _ _ _ _ _ _ _ _ _ _ Hu) in Hs as (Hsig & Hscr & _ & _ & _).
  rewrite signed_data_closed, Hscr. f_equal.
  rewrite (flat_map_via_key r_rdata (rfc_rr s) (rr_octets o t c ttl)).
  - f_equal. apply Permutation_sym in Hperm. apply (sort_keys_perm r_rdata r_rdata _ _ Hperm).
  - apply sort_by_forall. eapply Forall_impl; [|exact Hseen].
    intros r (Hrt & Hrc & Hro). unfold rfc_rr, rr_octets.
    rewrite Hsig. cbn [s_labels s_ottl]. rewrite (rrsig_label_count_is_rfc _ Hv).
    rewrite (seen_owner_restored _ _ Hro), Hrt, Hrc. reflexivity.
Qed.

(* sign_sorted_rrset_in agrees with sign_rrset on input that is already in
   canonical order (its documented precondition) *)
Lemma sign_sorted_on_sorted k rrset inc exp :
  StronglySorted rdata_le rrset ->
  (do rs <- rrset_new rrset; sign_sorted k rs inc exp) = sign_rrset k rrset inc exp.
Proof.
  intros Hs. unfold sign_rrset.
  change (if sign_rrset_sorts_ascending_by_canonical_rdata then sort_rr rrset else rrset)
    with (sort_rr rrset).
  unfold sort_rr. rewrite (sort_by_sorted_id _ r_rdata rrset Hs). reflexivity.
Qed.

(* the signer never panics on an RRset, and says exactly when it refuses *)
Lemma signer_total k o t c ttl rrset inc exp :
  valid_abs o -> uniform o t c ttl rrset -> rrset <> [] -> inc < 4294967296 -> exp < 4294967296 ->
  match sign_rrset k rrset inc exp with
  | Ok _ => t <> 46 /\ serial_partial_cmp exp inc <> Ok (Some Lt)
  | Err 1 => t = 46
  | Err 2 => t <> 46 /\ serial_partial_cmp exp inc = Ok (Some Lt)
  | _ => False
  end.
Proof.
  intros Hv Hu Hne Hi He. unfold sign_rrset.
  change (if sign_rrset_sorts_ascending_by_canonical_rdata then sort_rr rrset else rrset)
    with (sort_rr rrset).
  pose proof (uniform_sort _ _ _ _ _ Hu) as Hus.
  destruct (sort_rr rrset) as [|first rest] eqn:Es.
  { exfalso. apply Hne. apply Permutation_nil. rewrite <- Es. apply (sort_by_perm _ r_rdata rrset). }
  pose proof (Forall_inv Hus) as (Ho & Hty & Hc & Httl).
  assert (Hnew : rrset_new (first :: rest) = Ok (first :: rest)).
  { unfold rrset_new, rrset_ttl_exempt_rtype. destruct (r_type first =? 46); [reflexivity|].
    replace (forallb (fun r => r_ttl r =? r_ttl first) (first :: rest)) with true; [reflexivity|].
    symmetry. apply forallb_forall. intros r Hr. unfold uniform in Hus. rewrite Forall_forall in Hus.
    destruct (Hus r Hr) as (_ & _ & _ & Hrl). apply N.eqb_eq. congruence. }
  rewrite Hnew. cbn [bind].
  unfold sign_sorted, signer_refused_rtype, signer_rejects_exp_lt_inc.
  rewrite Hty. destruct (N.eqb_spec t 46) as [->|Hne46]; [reflexivity|].
  pose proof (cmp_no_panic exp inc He Hi) as Hnp.
  pose proof (cmp_closed_form exp inc He Hi) as Hcf.
  destruct (serial_partial_cmp exp inc) as [cc| | |] eqn:Ec; cbn [bind]; try contradiction.
  - rewrite proto_rrsig_closed. cbn [s_labels]. rewrite (rrsig_label_count_canon _ _ Ho), (rrsig_label_count_is_rfc _ Hv).
    pose proof (rfc_labels_le o) as Hle. rewrite (canon_length _ _ Ho).
    destruct (N.ltb_spec (rfc_labels o) (N.of_nat (length o) + 1)) as [_|Hge]; [|lia].
    destruct cc as [[| |]|]; repeat split; try assumption; try discriminate; reflexivity.
  - rewrite Hcf in Ec. discriminate.
Qed.

(* the validity period check in RFC 1982 terms (C17): the signer refuses exactly
   when the expiration is serially before the inception; a distance of exactly
   2^31, where RFC 1982 leaves the order undefined, is accepted *)
Lemma signer_period_is_rfc1982 k o t c ttl rrset inc exp :
  valid_abs o -> uniform o t c ttl rrset -> rrset <> [] -> t <> 46 ->
  inc < 4294967296 -> exp < 4294967296 ->
  (sign_rrset k rrset inc exp = Err 2 <-> rfc_lt exp inc) /\
  ((exists r, sign_rrset k rrset inc exp = Ok r) <-> ~ rfc_lt exp inc).
Proof.
  intros Hv Hu Hne Ht Hi He.
  pose proof (signer_total k o t c ttl rrset inc exp Hv Hu Hne Hi He) as Htot.
  destruct (cmp_is_rfc1982 exp inc He Hi) as (Hlt & _ & _).
  destruct (sign_rrset k rrset inc exp) as [r|e| |] eqn:E.
  - destruct Htot as [_ Hn]. split; [split; [discriminate|intros H; apply Hlt in H; contradiction]|].
    split; [intros _ H; apply Hlt in H; contradiction|intros _; exists r; reflexivity].
  - destruct e as [|[p|[p|p|]|]]; try (exfalso; exact Htot).
    + (* Err 2 *) destruct Htot as [_ Hc]. apply Hlt in Hc.
      split; [split; [intros _; exact Hc|reflexivity]|].
      split; [intros (r & Hr); discriminate|intros H; contradiction].
    + (* Err 1 *) contradiction.
  - contradiction.
  - contradiction.
Qed.

Example period_examples :
  let rs := [mk_rr [[97]] 1 1 60 [1;2;3;4]] in
  let k := mk_skey 15 7 [] in
  (exists r, sign_rrset k rs 4294967040 256 = Ok r) /\          (* expiration after the wrap *)
  sign_rrset k rs 256 4294967040 = Err 2 /\
  (exists r, sign_rrset k rs 5 5 = Ok r) /\
  (exists r, sign_rrset k rs 0 2147483648 = Ok r) /\             (* exactly 2^31 apart: undefined order, accepted *)
  (exists r, sign_rrset k rs 0 2147483647 = Ok r) /\
  sign_rrset k rs 0 2147483649 = Err 2 /\
  rrset_new [mk_rr [] 1 1 60 []; mk_rr [] 1 1 61 []] = Panic 2 /\
  rrset_new [mk_rr [] 46 1 60 []; mk_rr [] 46 1 61 []] = Ok [mk_rr [] 46 1 60 []; mk_rr [] 46 1 61 []].
Proof. vm_compute. repeat split; eexists; reflexivity. Qed.

(* non-vacuity: a two-record wildcard RRset, signed, then seen by a resolver
   as an expansion with other case, other order and a decremented TTL *)
Example rebuild_example :
  let o := [star; [101;120]] in
  let rrset := [mk_rr o 1 1 300 [10;0;0;2]; mk_rr o 1 1 300 [10;0;0;1]] in
  let seen := [mk_rr [[87;87;87]; [69;88]] 1 1 17 [10;0;0;1]; mk_rr [[97]; [98]; [101;88]] 1 1 17 [10;0;0;2]] in
  exists s scratch, sign_rrset (mk_skey 15 4711 [[101;120]]) rrset 5 10 = Ok (s, scratch) /\
    s_labels s = 1 /\ signed_data s seen = scratch /\ length scratch = 62%nat.
Proof.
  cbv zeta. eexists; eexists. split; [vm_compute; reflexivity|].
  split; [reflexivity|]. split; vm_compute; reflexivity.
Qed.

Example rfc_unique_example :
  RFC4034_signed_data (mk_sigf 1 15 1 300 10 5 4711 []) [mk_rr [] 1 1 0 [2]; mk_rr [] 1 1 0 [1]]
    (signed_data (mk_sigf 1 15 1 300 10 5 4711 []) [mk_rr [] 1 1 0 [2]; mk_rr [] 1 1 0 [1]]).
Proof. apply signed_data_is_rfc4034. Qed.
