(* C12 model, zone part: which RRsets sign_sorted_zone_records signs.
     dnssec/sign/signatures/rrsigs.rs  sign_sorted_zone_records
     dnssec/sign/records.rs            RecordsIter::{skip_before,next},
                                       OwnerRrs::{is_zone_cut,is_in_zone,rrsets},
                                       OwnerRrsIter::next
     base/name/traits.rs               ToLabelIter::ends_with
   A record is (owner, type); the input is the record list in the order the
   caller sorted it (SortedRecords: class, owner in canonical name order, type,
   data).  How each selected RRset is then signed is sign_sorted_rrset_in
   (C12/Model.v).  The result lists, in order, the (owner, type) of every RRSIG
   made, one per key.  Definitions only. *)
From Coq Require Import NArith List Bool.
From DV Require Import Base.Bytes Base.Names C12.Gen.
Import ListNotations.
Local Open Scope N_scope.

Definition zrec := (name * N)%type.

(* ends_with: label-wise from the right, labels compared ignoring ASCII case *)
Fixpoint rprefix (b s : list label) : bool :=
  match b, s with
  | [], _ => true
  | _ :: _, [] => false
  | x :: b', y :: s' => label_eqb y x && rprefix b' s'
  end.
Definition ends_with (n base : name) : bool := rprefix (rev base) (rev n).

(* RecordsIter::skip_before: drop leading records that are not at or below the apex *)
Fixpoint skip_before (apex : name) (l : list zrec) : list zrec :=
  match l with
  | [] => []
  | (o, t) :: rest => if name_eqb apex o || ends_with o apex then l else skip_before apex rest
  end.

(* RecordsIter::next: maximal runs of records whose owner equals the first's *)
Fixpoint owner_groups (l : list zrec) : list (list zrec) :=
  match l with
  | [] => []
  | (o, t) :: rest =>
      match owner_groups rest with
      | ((o', t') :: g) :: gs => if name_eqb o' o then ((o, t) :: (o', t') :: g) :: gs
                                 else [(o, t)] :: ((o', t') :: g) :: gs
      | gs => [(o, t)] :: gs
      end
  end.

(* OwnerRrsIter::next: maximal runs of one record type inside an owner group *)
Fixpoint type_runs (g : list zrec) : list (list zrec) :=
  match g with
  | [] => []
  | (o, t) :: rest =>
      match type_runs rest with
      | ((o', t') :: r) :: rs => if t' =? t then ((o, t) :: (o', t') :: r) :: rs
                                 else [(o, t)] :: ((o', t') :: r) :: rs
      | rs => [(o, t)] :: rs
      end
  end.

(* the per-RRset decision inside one owner group; `name` is the group's owner
   (first record), the RRSIG gets the owner of the RRset's first record *)
Definition rrset_signed (at_cut : bool) (name apex : name) (t : N) : bool :=
  if at_cut then (t =? zs_cut_type_a) || (t =? zs_cut_type_b)
  else if existsb (N.eqb t) zs_apex_skipped_types && name_eqb name apex then false
  else negb (t =? zs_never_signed_type).

Definition select_rrsets (at_cut : bool) (name apex : name) (nkeys : nat) (g : list zrec) : list zrec :=
  flat_map (fun run => match run with
                       | [] => []
                       | (o, t) :: _ => if rrset_signed at_cut name apex t then repeat (o, t) nkeys else []
                       end) (type_runs g).

(* OwnerRrs::is_zone_cut *)
Definition is_zone_cut (apex : name) (g : list zrec) : bool :=
  match g with
  | [] => false
  | (o, _) :: _ => negb (name_eqb o apex) && existsb (fun r => snd r =? zs_cut_marker_type) g
  end.

Fixpoint sign_groups (apex : name) (nkeys : nat) (cut : option name) (gs : list (list zrec)) : list zrec :=
  match gs with
  | [] => []
  | g :: rest =>
      match g with
      | [] => sign_groups apex nkeys cut rest
      | (o, _) :: _ =>
          if negb (ends_with o apex) then
            (if zs_out_of_zone_stops then [] else sign_groups apex nkeys cut rest)
          else if match cut with Some c => ends_with o c | None => false end then
            sign_groups apex nkeys cut rest
          else
            let cut' := if is_zone_cut apex g then Some o else None in
            select_rrsets (match cut' with Some _ => true | None => false end) o apex nkeys g
            ++ sign_groups apex nkeys cut' rest
      end
  end.

Definition sign_zone (apex : name) (nkeys : nat) (recs : list zrec) : list zrec :=
  sign_groups apex nkeys None (owner_groups (skip_before apex recs)).

Definition c12_sign_zone := sign_zone.
