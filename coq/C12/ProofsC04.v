(* C12 -- link to C04: the validator and the signer sort with
   `canonical_cmp` of the record data; C04 models that comparison per field
   (C04.Model.fields_cmp) and proves it equal to the octet order of the
   canonical encoding for record data of one schema (schema_cmp_bytewise).
   Hence sorting with the code's comparison gives the RR sequence that
   C12.Model.signed_data (which sorts canonical RDATA as octet strings) uses. *)
From Coq Require Import NArith List Bool Lia Sorting.Permutation.
From DV Require C04.Model C04.ProofsData.
From DV Require Import Base.Outcome Base.Bytes Base.Lex Base.Names
  C12.Gen C12.Model C12.Spec C12.ProofsSort C12.ProofsSigned.
Import ListNotations.
Local Open Scope N_scope.

Section CmpSort.
  Variable A : Type.
  Variable cmp : A -> A -> comparison.
  Variable key : A -> bytes.
  (* slice::sort_by with a comparison function, as a stable insertion sort *)
  Fixpoint insert_cmp (x : A) (l : list A) : list A :=
    match l with
    | [] => [x]
    | y :: t => match cmp x y with Gt => y :: insert_cmp x t | _ => x :: l end
    end.
  Definition sort_cmp (l : list A) : list A := fold_right insert_cmp [] l.

  Lemma insert_cmp_eq x l :
    (forall y, In y l -> cmp x y = lex_cmp (key x) (key y)) -> insert_cmp x l = insert_by key x l.
  Proof.
    induction l as [|y t IH]; intros H; cbn [insert_cmp insert_by]; [reflexivity|].
    rewrite (H y) by (left; reflexivity). rewrite IH by (intros z Hz; apply H; right; exact Hz). reflexivity.
  Qed.

  Lemma sort_cmp_eq l :
    (forall a b, In a l -> In b l -> cmp a b = lex_cmp (key a) (key b)) -> sort_cmp l = sort_by key l.
  Proof.
    induction l as [|x t IH]; intros H; cbn [sort_cmp sort_by fold_right]; [reflexivity|].
    fold (sort_cmp t). fold (sort_by key t).
    rewrite IH by (intros a b Ha Hb; apply H; right; assumption).
    apply insert_cmp_eq. intros y Hy. apply H; [left; reflexivity|right].
    eapply Permutation_in; [apply sort_by_perm|exact Hy].
  Qed.
End CmpSort.
Arguments sort_cmp {A} cmp l.

Lemma insert_by_map {A B} (f : A -> B) (key : B -> bytes) x l :
  insert_by key (f x) (map f l) = map f (insert_by (fun a => key (f a)) x l).
Proof.
  induction l as [|y t IH]; cbn [map insert_by]; [reflexivity|].
  destruct (lex_cmp (key (f x)) (key (f y))); cbn [map]; try reflexivity. rewrite IH. reflexivity.
Qed.

Lemma sort_by_map {A B} (f : A -> B) (key : B -> bytes) l :
  sort_by key (map f l) = map f (sort_by (fun a => key (f a)) l).
Proof.
  induction l as [|x t IH]; cbn [map sort_by fold_right]; [reflexivity|].
  fold (sort_by key (map f t)). fold (sort_by (fun a => key (f a)) t). rewrite IH. apply insert_by_map.
Qed.

(* a record whose data is given field by field, as C04 models record data *)
Record crec := mk_crec {
  c_owner : name; c_type : N; c_class : N; c_ttl : N; c_data : list C04.Model.field }.

(* canonical_cmp of the data as the code computes it *)
Definition code_cmp (a b : crec) : comparison :=
  match C04.Model.fields_cmp (c_data a) (c_data b) with Ok c => c | _ => Eq end.

Definition c_to_rr (x : crec) : rr :=
  mk_rr (c_owner x) (c_type x) (c_class x) (c_ttl x) (C04.Model.fields_enc (c_data x)).

(* signed_data with the records sorted by the code's comparison *)
Definition signed_data_code_order (s : sigf) (l : list crec) : bytes :=
  rfc_rrsig_rdata s ++ flat_map (rfc_rr s) (map c_to_rr (sort_cmp code_cmp l)).

(* one record type: every pair of data has the same schema and well-formed fields *)
Definition one_schema (l : list crec) : Prop :=
  (forall a b, In a l -> In b l -> C04.Model.same_schema (c_data a) (c_data b) = true) /\
  (forall a, In a l -> Forall C04.Model.field_ok (c_data a)).

Lemma code_order_is_octet_order s l : one_schema l ->
  signed_data_code_order s l = signed_data s (map c_to_rr l) /\
  (forall a b, In a l -> In b l -> no_panic (C04.Model.fields_cmp (c_data a) (c_data b))).
Proof.
  intros [Hs Hok].
  assert (Hc : forall a b, In a l -> In b l ->
            C04.Model.fields_cmp (c_data a) (c_data b) =
            Ok (lex_cmp (C04.Model.fields_enc (c_data a)) (C04.Model.fields_enc (c_data b)))).
  { intros a b Ha Hb. apply C04.ProofsData.schema_cmp_bytewise; auto. }
  split.
  - unfold signed_data_code_order. rewrite signed_data_closed. f_equal. f_equal.
    unfold sort_rr. rewrite (sort_by_map c_to_rr r_rdata l). f_equal.
    apply sort_cmp_eq. intros a b Ha Hb. unfold code_cmp. rewrite (Hc a b Ha Hb). reflexivity.
  - intros a b Ha Hb. rewrite (Hc a b Ha Hb). exact I.
Qed.

Example code_order_example :
  let r d := mk_crec [[97]] 1 1 60 [C04.Model.FFixed d] in
  signed_data_code_order (mk_sigf 1 15 1 60 2 1 7 []) [r [10;0;0;2]; r [10;0;0;1]] =
  signed_data (mk_sigf 1 15 1 60 2 1 7 []) (map c_to_rr [r [10;0;0;1]; r [10;0;0;2]]).
Proof. vm_compute. reflexivity. Qed.
