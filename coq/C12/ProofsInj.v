(* C12 -- the signed octets determine every covered field (the encoding is
   injective: fixed-width header, self-delimiting names, length-prefixed
   RDATA).  Contrapositive: altering any covered field changes the octets. *)
From Coq Require Import NArith List Bool Lia ZArith Sorting.Permutation.
From Coq Require Import ZifyN ZifyBool ZifyNat.
From DV Require Import Base.Outcome Base.Bytes Base.Lex Base.Names
  C12.Gen C12.Model C12.Spec C12.ProofsSort C12.ProofsSigned.
Import ListNotations.
Local Open Scope N_scope.
Ltac Zify.zify_post_hook ::= Z.div_mod_to_equations.

Lemma be16_app_inj a b (x y : bytes) : be16 a ++ x = be16 b ++ y -> a = b /\ x = y.
Proof.
  unfold be16. cbn [app]. intros H. injection H as H1 H2 H3. split; [lia|exact H3].
Qed.

Lemma one_app_inj (a b : N) (x y : bytes) : [a] ++ x = [b] ++ y -> a = b /\ x = y.
Proof. cbn [app]. intros H. injection H as H1 H2. split; assumption. Qed.

Lemma be32_app_inj a b (x y : bytes) : be32 a ++ x = be32 b ++ y -> a = b /\ x = y.
Proof.
  unfold be32. cbn [app]. intros H. injection H as H1 H2 H3 H4 H5. split; [lia|exact H5].
Qed.

Lemma app_same_length_inj {A} (a b x y : list A) :
  length a = length b -> a ++ x = b ++ y -> a = b /\ x = y.
Proof.
  revert b; induction a as [|h t IH]; intros [|h' t'] Hl H; cbn [length app] in *; try discriminate.
  - split; [reflexivity|exact H].
  - injection H as -> H. injection Hl as Hl. destruct (IH _ Hl H) as [-> ->]. split; reflexivity.
Qed.

Lemma name_app_inj n1 n2 (x y : bytes) :
  valid_abs n1 -> valid_abs n2 -> wire_abs n1 ++ x = wire_abs n2 ++ y -> n1 = n2 /\ x = y.
Proof.
  intros H1 H2 H.
  pose proof (decode_wire_abs n1 x H1) as D1. pose proof (decode_wire_abs n2 y H2) as D2.
  rewrite H in D1. rewrite D1 in D2. injection D2 as -> ->. split; reflexivity.
Qed.

(* validity is kept by canonicalisation and by the RFC 4035 owner rule *)
Lemma valid_label_lowers l : valid_label l -> valid_label (lowers l).
Proof.
  intros [Hl Hb]. split; [rewrite lowers_length; exact Hl|].
  unfold wf_bytes, lowers in *. apply Forall_map. eapply Forall_impl; [|exact Hb].
  intros b. apply lower_byte.
Qed.

Lemma wire_len_canon n : wire_len (canon n) = wire_len n.
Proof. induction n as [|l t IH]; cbn [canon map wire_len]; [reflexivity|]. rewrite lowers_length. unfold canon in IH. rewrite IH. reflexivity. Qed.

Lemma valid_abs_canon n : valid_abs n -> valid_abs (canon n).
Proof.
  intros [Hv Hl]. split; [|rewrite wire_len_canon; exact Hl].
  unfold canon. apply Forall_map. eapply Forall_impl; [|exact Hv]. apply valid_label_lowers.
Qed.

Lemma wire_len_skipn j (n : name) :
  Forall valid_label n -> (1 <= j <= length n)%nat -> (wire_len (skipn j n) + 2 <= wire_len n)%nat.
Proof.
  revert j; induction n as [|l t IH]; intros j Hv Hj; cbn [length] in Hj; [lia|].
  inversion Hv as [|? ? [Hl _] Hv']; subst.
  destruct j as [|j]; [lia|]. cbn [skipn wire_len].
  destruct j as [|j]; [cbn [skipn]; lia|].
  specialize (IH (S j) Hv' ltac:(lia)). lia.
Qed.

Lemma valid_label_star : valid_label star.
Proof. split; [simpl; lia|]. repeat constructor. Qed.

Lemma valid_abs_rfc_name labels n : valid_abs n -> valid_abs (rfc_name labels n).
Proof.
  intros [Hv Hl]. unfold rfc_name.
  destruct (N.ltb_spec labels (N.of_nat (length n))) as [Hlt|Hge]; [|split; assumption].
  rewrite rightmost_skipn. set (j := (length n - N.to_nat labels)%nat).
  assert (Hj : (1 <= j <= length n)%nat) by (unfold j; lia).
  split.
  - constructor; [apply valid_label_star|].
    rewrite <- (firstn_skipn j n) in Hv. apply Forall_app in Hv as [_ Hv]. exact Hv.
  - pose proof (wire_len_skipn j n Hv Hj). cbn [wire_len star length]. lia.
Qed.

(* ---- one RR ------------------------------------------------------------------------ *)
Definition rr_key (labels : N) (r : rr) := (canon (rfc_name labels (r_owner r)), r_type r, r_class r, r_rdata r).

Lemma rfc_rr_inj s1 s2 r1 r2 (x y : bytes) :
  wf_rr r1 -> wf_rr r2 ->
  rfc_rr s1 r1 ++ x = rfc_rr s2 r2 ++ y ->
  rr_key (s_labels s1) r1 = rr_key (s_labels s2) r2 /\ s_ottl s1 = s_ottl s2 /\ x = y.
Proof.
  intros (Ho1 & _ & _ & _ & _ & Hl1) (Ho2 & _ & _ & _ & _ & Hl2) H.
  unfold rfc_rr in H. rewrite <- !app_assoc in H.
  apply name_app_inj in H as [Hn H];
    [|apply valid_abs_canon, valid_abs_rfc_name; assumption|apply valid_abs_canon, valid_abs_rfc_name; assumption].
  apply be16_app_inj in H as [Ht H]. apply be16_app_inj in H as [Hc H].
  apply be32_app_inj in H as [Httl H]. apply be16_app_inj in H as [Hlen H].
  apply app_same_length_inj in H as [Hd Hx]; [|unfold len in Hlen; lia].
  unfold rr_key. rewrite Hn, Ht, Hc, Hd. repeat split; assumption.
Qed.

Lemma rfc_rr_nonempty s r (x : bytes) : rfc_rr s r ++ x <> [].
Proof.
  unfold rfc_rr, wire_abs. rewrite <- !app_assoc.
  destruct (wire_rel (canon (rfc_name (s_labels s) (r_owner r)))); discriminate.
Qed.

Lemma rfc_rrs_inj s1 s2 l1 : forall l2,
  Forall wf_rr l1 -> Forall wf_rr l2 ->
  flat_map (rfc_rr s1) l1 = flat_map (rfc_rr s2) l2 ->
  map (rr_key (s_labels s1)) l1 = map (rr_key (s_labels s2)) l2.
Proof.
  induction l1 as [|a t1 IH]; intros [|b t2] H1 H2 H; cbn [flat_map map] in *.
  - reflexivity.
  - symmetry in H. apply rfc_rr_nonempty in H. contradiction.
  - apply rfc_rr_nonempty in H. contradiction.
  - inversion H1; subst. inversion H2; subst.
    apply rfc_rr_inj in H as (Hk & _ & H); try assumption.
    rewrite Hk. f_equal. apply IH; assumption.
Qed.

(* ---- the whole string ------------------------------------------------------------------ *)
Lemma signed_data_injective s1 s2 recs1 recs2 :
  wf_sig s1 -> wf_sig s2 -> Forall wf_rr recs1 -> Forall wf_rr recs2 ->
  signed_data s1 recs1 = signed_data s2 recs2 -> covered s1 recs1 = covered s2 recs2.
Proof.
  intros (_ & _ & _ & _ & _ & _ & _ & Hn1) (_ & _ & _ & _ & _ & _ & _ & Hn2) Hr1 Hr2 H.
  rewrite !signed_data_closed in H. unfold rfc_rrsig_rdata in H. rewrite <- !app_assoc in H.
  apply be16_app_inj in H as [Htc H].
  apply one_app_inj in H as [Halg H]. apply one_app_inj in H as [Hlab H].
  apply be32_app_inj in H as [Hottl H]. apply be32_app_inj in H as [Hexp H].
  apply be32_app_inj in H as [Hinc H]. apply be16_app_inj in H as [Hkt H].
  apply name_app_inj in H as [Hsn H]; [|apply valid_abs_canon; assumption|apply valid_abs_canon; assumption].
  apply rfc_rrs_inj in H; [|apply sort_by_forall; assumption|apply sort_by_forall; assumption].
  unfold covered. unfold rr_key in H. rewrite Htc, Halg, Hlab, Hottl, Hexp, Hinc, Hkt, Hsn.
  rewrite Hlab in H. rewrite H. reflexivity.
Qed.

(* alteration_changes_input *)
Lemma alteration_changes_input s1 s2 recs1 recs2 :
  wf_sig s1 -> wf_sig s2 -> Forall wf_rr recs1 -> Forall wf_rr recs2 ->
  covered s1 recs1 <> covered s2 recs2 -> signed_data s1 recs1 <> signed_data s2 recs2.
Proof. intros W1 W2 R1 R2 Hne Heq. apply Hne. apply signed_data_injective; assumption. Qed.

(* each covered field on its own *)
Lemma covered_fields s1 s2 recs1 recs2 :
  covered s1 recs1 = covered s2 recs2 ->
  s_tc s1 = s_tc s2 /\ s_alg s1 = s_alg s2 /\ s_labels s1 = s_labels s2 /\ s_ottl s1 = s_ottl s2 /\
  s_exp s1 = s_exp s2 /\ s_inc s1 = s_inc s2 /\ s_kt s1 = s_kt s2 /\
  canon (s_signer s1) = canon (s_signer s2) /\
  Permutation (map r_rdata recs1) (map r_rdata recs2) /\
  length recs1 = length recs2.
Proof.
  unfold covered. intros H. injection H as H1 H2 H3 H4 H5 H6 H7 H8 H9.
  repeat split; try assumption.
  - apply (f_equal (map (fun p : name * N * N * bytes => snd p))) in H9.
    rewrite !map_map in H9. cbn [snd] in H9.
    assert (H9' : map r_rdata (sort_by r_rdata recs1) = map r_rdata (sort_by r_rdata recs2)) by exact H9.
    eapply Permutation_trans; [apply Permutation_sym, (Permutation_map r_rdata (sort_by_perm _ r_rdata recs1))|].
    eapply Permutation_trans; [|apply (Permutation_map r_rdata (sort_by_perm _ r_rdata recs2))].
    rewrite H9'. apply Permutation_refl.
  - apply (f_equal (@length _)) in H9. rewrite !map_length in H9.
    pose proof (Permutation_length (sort_by_perm _ r_rdata recs1)) as L1.
    pose proof (Permutation_length (sort_by_perm _ r_rdata recs2)) as L2.
    unfold sort_rr in H9. lia.
Qed.

Lemma signed_octets_determine_covered_fields s1 s2 recs1 recs2 :
  wf_sig s1 -> wf_sig s2 -> Forall wf_rr recs1 -> Forall wf_rr recs2 ->
  signed_data s1 recs1 = signed_data s2 recs2 ->
  s_tc s1 = s_tc s2 /\ s_alg s1 = s_alg s2 /\ s_labels s1 = s_labels s2 /\ s_ottl s1 = s_ottl s2 /\
  s_exp s1 = s_exp s2 /\ s_inc s1 = s_inc s2 /\ s_kt s1 = s_kt s2 /\
  canon (s_signer s1) = canon (s_signer s2) /\
  Permutation (map r_rdata recs1) (map r_rdata recs2) /\ length recs1 = length recs2.
Proof.
  intros W1 W2 R1 R2 H.
  exact (covered_fields _ _ _ _ (signed_data_injective _ _ _ _ W1 W2 R1 R2 H)).
Qed.

Example alteration_example :
  let s := mk_sigf 1 15 2 300 10 5 4711 [[101;120]] in
  let r := mk_rr [[119]; [101;120]] 1 1 300 [10;0;0;1] in
  signed_data s [r] <> signed_data s [mk_rr [[119]; [101;120]] 1 1 300 [10;0;0;2]] /\
  signed_data s [r] <> signed_data (mk_sigf 1 15 2 301 10 5 4711 [[101;120]]) [r] /\
  signed_data s [r] = signed_data s [mk_rr [[87]; [69;88]] 1 1 7 [10;0;0;1]].
Proof. vm_compute. repeat split; discriminate. Qed.
