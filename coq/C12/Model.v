(* C12 model -- the octet strings that DNSSEC signatures are made over and
   verified against, at byte level.

   Rust items transcribed (as they are in /repo now):
     dnssec/validator/base.rs   RrsigExt::signed_data, wildcard_closest_encloser,
                                verify_signed_data (algorithm check; the
                                cryptography is a Section variable in Proofs.v),
                                DnskeyExt::digest
     dnssec/sign/signatures/rrsigs.rs  sign_sorted_rrset_in, sign_rrset
     dnssec/sign/records.rs     Rrset::new* (non-empty, check_ttls expect)
     rdata/dnssec.rs            ProtoRrsig::{new,compose_canonical,compose_head},
                                Dnskey::{key_tag (both branches), compose_rdata}
     base/record.rs             Record::compose_canonical
     base/name/traits.rs        ToName::{compose_canonical, rrsig_label_count}
     base/name/label.rs         Label::{compose_canonical, is_wildcard}
   A record is (owner, type, class, ttl, RDATA octets in canonical form); how
   each record type produces its canonical RDATA is C05's subject, that
   canonical_cmp of the record data equals the octet order of the canonical
   RDATA is C04's; both are exercised here through T2 (the harness feeds the
   implementation typed records and the model their canonical RDATA).

   The field orders, the wildcard label, the comparison operators, the key-tag
   loop structure and the IANA numbers come from C12/Gen.v (T1). *)
From Coq Require Import NArith List Bool.
From DV Require Import Base.Outcome Base.Bytes Base.Lex Base.Names C17.Model C12.Gen.
Import ListNotations.
Local Open Scope N_scope.

(* ---- data ----------------------------------------------------------- *)
Record sigf := mk_sigf {
  s_tc : N; s_alg : N; s_labels : N; s_ottl : N; s_exp : N; s_inc : N; s_kt : N;
  s_signer : name }.

Record rr := mk_rr {
  r_owner : name; r_type : N; r_class : N; r_ttl : N;
  r_rdata : bytes (* canonical form *) }.

Record skey := mk_skey { k_alg : N; k_tag : N; k_owner : name }.

(* ToName::compose_canonical: every label (root included) as length octet +
   lower-cased octets *)
Definition cname (n : name) : bytes :=
  if label_canonical_lowercases then wire_abs (canon n) else wire_abs n.

(* ---- stable sort by an octet-string key (slice::sort_by is stable) ---- *)
Section SortBy.
  Variable A : Type.
  Variable key : A -> bytes.
  Fixpoint insert_by (x : A) (l : list A) : list A :=
    match l with
    | [] => [x]
    | y :: t =>
        match lex_cmp (key x) (key y) with
        | Gt => y :: insert_by x t
        | _ => x :: l
        end
    end.
  Definition sort_by (l : list A) : list A := fold_right insert_by [] l.
End SortBy.
Arguments insert_by {A} key x l.
Arguments sort_by {A} key l.

Definition sort_rr (l : list rr) : list rr := sort_by r_rdata l.

(* ---- RRSIG RDATA without the signature -------------------------------- *)
Definition enc_sig_field (s : sigf) (tag : N) : bytes :=
  match tag with
  | 1 => be16 (s_tc s)
  | 2 => [s_alg s]
  | 3 => [s_labels s]
  | 4 => be32 (s_ottl s)
  | 5 => be32 (s_exp s)
  | 6 => be32 (s_inc s)
  | 7 => be16 (s_kt s)
  | 8 => cname (s_signer s)
  | 9 => wire_abs (s_signer s)
  | _ => []
  end.
Definition sig_prefix (order : list N) (s : sigf) : bytes := flat_map (enc_sig_field s) order.

(* ---- one RR ------------------------------------------------------------ *)
Definition enc_rr_field (ottl : N) (owner : bytes) (r : rr) (tag : N) : bytes :=
  match tag with
  | 10 => owner
  | 11 => be16 (r_type r)
  | 12 => be16 (r_class r)
  | 13 => be32 ottl
  | 14 => be32 (r_ttl r)
  | 15 => be16 (len (r_rdata r)) ++ r_rdata r
  | _ => []      (* 16: non-canonical RDATA is not expressible at this level *)
  end.
Definition enc_rr (order : list N) (ottl : N) (owner : bytes) (r : rr) : bytes :=
  flat_map (enc_rr_field ottl owner r) order.

(* Name::iter_suffixes: the name itself, then ever shorter suffixes down to
   the root *)
Fixpoint suffixes (n : name) : list name :=
  n :: match n with [] => [] | _ :: t => suffixes t end.

(* the label test and the suffix selection shared by signed_data and
   wildcard_closest_encloser; fqdn_labels = iter_labels().count() - 1 *)
Definition fqdn_labels (sub : N) (owner : name) : N := N.of_nat (length owner) + 1 - sub.
Definition wildcard_test (is_lt : bool) (labels fl : N) : bool :=
  if is_lt then labels <? fl else labels <=? fl.
Definition pick_suffix (owner : name) (idx : N) : name :=
  match nth_error (suffixes owner) (N.to_nat idx) with
  | Some n => n
  | None => owner
  end.

Definition restored_owner (labels : N) (owner : name) : bytes :=
  let fl := fqdn_labels sd_root_labels_subtracted owner in
  if wildcard_test sd_wildcard_test_is_lt labels fl then
    sd_wildcard_label ++
    cname (pick_suffix owner (if sd_suffix_index_is_fqdn_minus_rrsig then fl - labels else labels))
  else cname owner.

(* RrsigExt::signed_data: what the validator feeds to the verification *)
Definition signed_data (s : sigf) (recs : list rr) : bytes :=
  sig_prefix sd_prefix_order s ++
  flat_map (fun r => enc_rr sd_rr_order (s_ottl s) (restored_owner (s_labels s) (r_owner r)) r)
           (if sd_sorts_ascending_by_canonical_rdata then sort_rr recs else recs).

Definition wildcard_closest_encloser (labels : N) (owner : name) : option name :=
  let fl := fqdn_labels wce_root_labels_subtracted owner in
  if wildcard_test wce_test_is_lt labels fl then Some (pick_suffix owner (fl - labels)) else None.

(* ---- the signer ---------------------------------------------------------- *)
Definition is_wildcard (l : label) : bool :=
  (N.of_nat (length l) =? wildcard_label_len) &&
  match l with c :: _ => c =? wildcard_label_octet | [] => false end.

(* ToName::rrsig_label_count: first label taken off, the rest counted (root
   included); `as u8` truncates *)
Definition rrsig_label_count (owner : name) : N :=
  match owner with
  | [] => 0
  | l :: rest =>
      let remaining := N.of_nat (length rest) + 1 in
      (if is_wildcard l then remaining - label_count_wildcard_minus else remaining) mod 256
  end.

(* Rrset::new / new_from_owned / new_from_refs.
   Err 3 = EmptyRecordSlice; Panic 2 = expect("TTLs should be the same") *)
Definition rrset_new (l : list rr) : outcome (list rr) :=
  match l with
  | [] => Err 3
  | first :: _ =>
      if r_type first =? rrset_ttl_exempt_rtype then Ok l
      else if forallb (fun r => r_ttl r =? r_ttl first) l then Ok l
      else if rrset_new_panics_on_mixed_ttl then Panic 2 else Err 4
  end.

Definition arg_val (first : rr) (k : skey) (exp inc : N) (tag : N) : N :=
  match tag with
  | 41 => r_type first
  | 42 => k_alg k
  | 43 => rrsig_label_count (r_owner first)
  | 44 => r_ttl first
  | 45 => exp
  | 46 => inc
  | 47 => k_tag k
  | _ => 0
  end.
Definition arg_at (first : rr) (k : skey) (exp inc : N) (i : nat) : N :=
  arg_val first k exp inc (nth i signer_proto_args 0).

Definition proto_rrsig (first : rr) (k : skey) (inc exp : N) : sigf :=
  mk_sigf (arg_at first k exp inc 0) (arg_at first k exp inc 1) (arg_at first k exp inc 2)
          (arg_at first k exp inc 3) (arg_at first k exp inc 4) (arg_at first k exp inc 5)
          (arg_at first k exp inc 6)
          (if nth 7 signer_proto_args 0 =? 48 then k_owner k else []).

Definition record_canonical (r : rr) : bytes :=
  enc_rr record_canonical_order 0 (cname (r_owner r)) r.

(* sign_sorted_rrset_in up to the call of sign_raw: the RRSIG fields and the
   scratch buffer that is signed.
   Err 1 = RrsigRrsMustNotBeSigned, Err 2 = InvalidSignatureValidityPeriod,
   Panic 1 = Rrset accessors on an empty slice (cannot be constructed),
   Panic 3 = the debug_assert on the labels field *)
Definition sign_sorted (k : skey) (rrset : list rr) (inc exp : N) : outcome (sigf * bytes) :=
  match rrset with
  | [] => Panic 1
  | first :: _ =>
      if r_type first =? signer_refused_rtype then Err 1
      else
        do c <- serial_partial_cmp exp inc;
        if (if signer_rejects_exp_lt_inc then match c with Some Lt => true | _ => false end
            else false)
        then Err 2
        else
          let s := proto_rrsig first k inc exp in
          let scratch :=
            if signer_scratch_is_prefix_then_records
            then sig_prefix proto_order s ++ flat_map record_canonical rrset
            else [] in
          if s_labels s <? N.of_nat (length (r_owner first)) + 1
          then Ok (s, scratch)
          else Panic 3
  end.

(* sign_rrset: collect, sort by canonical_cmp of the data, Rrset::new_from_refs,
   sign_sorted_rrset_in *)
Definition sign_rrset (k : skey) (rrset : list rr) (inc exp : N) : outcome (sigf * bytes) :=
  do sorted <- rrset_new (if sign_rrset_sorts_ascending_by_canonical_rdata
                          then sort_rr rrset else rrset);
  sign_sorted k sorted inc exp.

(* ---- key tag ---------------------------------------------------------------- *)
(* `res += x` on u32 with overflow checks: panic when the sum does not fit *)
Definition u32_add (a b : N) : outcome N :=
  if a + b <? 4294967296 then Ok (a + b) else Panic 10.

Fixpoint kt_loop (pk : bytes) (res : N) : outcome N :=
  match pk with
  | [] => Ok res
  | [x] => u32_add res (N.shiftl x kt_even_shift)
  | x :: y :: t =>
      do r1 <- u32_add res (N.shiftl x kt_even_shift);
      do r2 <- u32_add r1 (N.shiftl y kt_odd_shift);
      kt_loop t r2
  end.

(* Panic 11 = try_into().unwrap() on a slice that is not two octets,
   Panic 12 = slice index arithmetic *)
Definition key_tag (flags proto alg : N) (pk : bytes) : outcome N :=
  if alg =? kt_special_algorithm then
    let n := len pk in
    if kt1_min_len <=? n then
      if (kt1_from_end <=? n) && (kt1_to_end <=? kt1_from_end) then
        match firstn (N.to_nat (kt1_from_end - kt1_to_end)) (skipn (N.to_nat (n - kt1_from_end)) pk) with
        | [a; b] => Ok (of_be16 a b)
        | _ => Panic 11
        end
      else Panic 12
    else Ok 0
  else
    do r0 <- u32_add flags (N.shiftl proto kt_protocol_shift);
    do r1 <- u32_add r0 alg;
    do r2 <- kt_loop pk r1;
    do r3 <- u32_add r2 (N.land (N.shiftr r2 kt_fold_shift) kt_fold_mask);
    Ok (N.land r3 kt_final_mask).

(* ---- DNSKEY RDATA and the DS digest ---------------------------------------- *)
Definition dnskey_field (flags proto alg : N) (pk : bytes) (tag : N) : bytes :=
  match tag with
  | 21 => be16 flags
  | 22 => [proto]
  | 23 => [alg]
  | 24 => pk
  | _ => []
  end.
Definition dnskey_rdata (flags proto alg : N) (pk : bytes) : bytes :=
  flat_map (dnskey_field flags proto alg pk) dnskey_rdata_order.

Definition ds_input (owner : name) (flags proto alg : N) (pk : bytes) : bytes :=
  flat_map (fun t => match t with
                     | 30 => cname owner
                     | 31 => dnskey_rdata flags proto alg pk
                     | _ => []
                     end) ds_input_order.

(* ---- executable entry points for the correspondence driver ------------------ *)
(* names arrive as uncompressed wire format *)
Definition name_of_wire (b : bytes) : option name :=
  match decode_abs b with
  | inl (Some (n, [])) => Some n
  | _ => None
  end.

(* RrsigExt::verify_signed_data, the part before any cryptography: a DNSKEY of
   another algorithm than the RRSIG's is refused with InvalidData *)
Definition alg_mismatch (sig_alg key_alg : N) : bool :=
  verify_checks_algorithm_match && negb (sig_alg =? key_alg).
Definition c12_alg_mismatch := alg_mismatch.

Definition c12_signed_data := signed_data.
Definition c12_sign_rrset := sign_rrset.
Definition c12_sign_sorted (k : skey) (l : list rr) (inc exp : N) : outcome (sigf * bytes) :=
  do rs <- rrset_new l; sign_sorted k rs inc exp.
Definition c12_key_tag := key_tag.
Definition c12_label_count := rrsig_label_count.
Definition c12_wce := wildcard_closest_encloser.
Definition c12_name_of_wire := name_of_wire.
Definition c12_wire_of_name (n : name) : bytes := wire_abs n.
