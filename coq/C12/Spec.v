(* C12 specification side: RFC 4034 section 3.1.8.1 / 6.3, RFC 4035 section
   5.3.2, RFC 4034 Appendix B and section 5.1.4 transcribed independently of
   the model (no Gen.v constants, no tag lists). Definitions only. *)
From Coq Require Import NArith List Bool Sorting.Permutation Sorting.Sorted.
From DV Require Import Base.Bytes Base.Lex Base.Names C12.Model.
Import ListNotations.
Local Open Scope N_scope.

(* RFC 4034 3.1.8.1: "RRSIG_RDATA is the wire format of the RRSIG RDATA fields
   with the Signature field excluded and the Signer's Name in canonical form."
   Field order of 3.1: Type Covered, Algorithm, Labels, Original TTL,
   Signature Expiration, Signature Inception, Key Tag, Signer's Name. *)
Definition rfc_rrsig_rdata (s : sigf) : bytes :=
  be16 (s_tc s) ++ [s_alg s] ++ [s_labels s] ++ be32 (s_ottl s) ++
  be32 (s_exp s) ++ be32 (s_inc s) ++ be16 (s_kt s) ++ wire_abs (canon (s_signer s)).

(* RFC 4035 5.3.2: "If the value of the RRSIG RR's Labels field is less than the
   number of labels in the RRset's fully qualified owner name, the RRset and
   the RRSIG are the result of wildcard expansion: name = "*." | the rightmost
   rrsig_label labels of the fqdn"; equal: name = fqdn.  (Greater is excluded
   by 5.3.1, which the caller of signed_data checks.) *)
Definition rightmost (k : nat) (n : name) : name := rev (firstn k (rev n)).
Definition star : label := [42].
Definition rfc_name (labels : N) (fqdn : name) : name :=
  if labels <? N.of_nat (length fqdn) then star :: rightmost (N.to_nat labels) fqdn else fqdn.

(* "RR(i) = owner | type | class | TTL | RDATA length | RDATA", owner in
   canonical form, TTL = Original TTL of the RRSIG, RDATA canonical *)
Definition rfc_rr (s : sigf) (r : rr) : bytes :=
  wire_abs (canon (rfc_name (s_labels s) (r_owner r))) ++
  be16 (r_type r) ++ be16 (r_class r) ++ be32 (s_ottl s) ++
  be16 (len (r_rdata r)) ++ r_rdata r.

(* RFC 4034 6.3: "RRs with the same owner name, class and type are sorted by
   treating the RDATA portion of the canonical form of each RR as a
   left-justified unsigned octet sequence in which the absence of an octet
   sorts before a zero octet." *)
Definition rdata_le (a b : rr) : Prop := lex_cmp (r_rdata a) (r_rdata b) <> Gt.

(* signed_data = RRSIG_RDATA | RR(1) | RR(2)..., the RRs in canonical order *)
Definition RFC4034_signed_data (s : sigf) (rrset : list rr) (out : bytes) : Prop :=
  exists rs, Permutation rs rrset /\ StronglySorted rdata_le rs /\
             out = rfc_rrsig_rdata s ++ flat_map (rfc_rr s) rs.

(* RFC 4034 3.1.3: the Labels field counts the labels of the owner name without
   the root label and without a leading "*" label *)
Definition rfc_labels (owner : name) : N :=
  match owner with
  | l :: rest => if list_eq_dec N.eq_dec l star then N.of_nat (length rest) else N.of_nat (length owner)
  | [] => 0
  end.

(* RFC 4034 Appendix B:
     for ( ac = 0, i = 0; i < keysize; ++i )
         ac += (i & 1) ? key[i] : key[i] << 8;
     ac += (ac >> 16) & 0xFFFF;
     return ac & 0xFFFF;                     (over the DNSKEY RDATA octets) *)
Fixpoint rfc_ac (key : bytes) (i : nat) (ac : N) : N :=
  match key with
  | [] => ac
  | b :: t => rfc_ac t (S i) (ac + (if Nat.odd i then b else b * 256))
  end.
Definition rfc_keytag (rdata : bytes) : N :=
  let ac := rfc_ac rdata 0 0 in
  let ac' := ac + (ac / 65536) mod 65536 in
  ac' mod 65536.

(* DNSKEY RDATA = Flags | Protocol | Algorithm | Public Key (RFC 4034 2.1) *)
Definition rfc_dnskey_rdata (flags proto alg : N) (pk : bytes) : bytes :=
  be16 flags ++ [proto] ++ [alg] ++ pk.

(* Appendix B.1 (algorithm 1): "the most significant 16 of the least
   significant 24 bits of the public key modulus"; the modulus is the tail of
   the public key field, so these are bits of the whole field read as one
   big-endian number *)
Definition be_value (l : bytes) : N := fold_left (fun a b => a * 256 + b) l 0.
Definition rfc_keytag_alg1 (pk : bytes) : N := (be_value pk mod 16777216) / 256.

(* RFC 4034 5.1.4: digest = digest_algorithm( DNSKEY owner name | DNSKEY RDATA ),
   owner name in canonical form *)
Definition rfc_ds_input (owner : name) (flags proto alg : N) (pk : bytes) : bytes :=
  wire_abs (canon owner) ++ rfc_dnskey_rdata flags proto alg pk.

(* well-formedness of the values (Rust types: u8/u16/u32, names, RDATA <= 65535) *)
Definition wf_sig (s : sigf) : Prop :=
  s_tc s < 65536 /\ s_alg s < 256 /\ s_labels s < 256 /\ s_ottl s < 4294967296 /\
  s_exp s < 4294967296 /\ s_inc s < 4294967296 /\ s_kt s < 65536 /\ valid_abs (s_signer s).
Definition wf_rr (r : rr) : Prop :=
  valid_abs (r_owner r) /\ r_type r < 65536 /\ r_class r < 65536 /\ r_ttl r < 4294967296 /\
  wf_bytes (r_rdata r) /\ len (r_rdata r) < 65536.

(* an RRset as the signer's contract has it: one owner (in any ASCII case per
   record, as zone data may have it), type, class and TTL *)
Definition uniform (o : name) (t c ttl : N) (l : list rr) : Prop :=
  Forall (fun r => canon (r_owner r) = canon o /\ r_type r = t /\ r_class r = c /\ r_ttl r = ttl) l.

(* what a resolver may hold for an RRset that was signed with owner o:
   the owner with any ASCII case, or - when o is a wildcard name - any name
   matching the wildcard (one or more labels in place of the "*") *)
Definition owner_seen_as (o o' : name) : Prop :=
  canon o' = canon o \/
  (exists z x z', o = star :: z /\ o' = x ++ z' /\ x <> [] /\ canon z' = canon z).

(* the records a resolver hands to signed_data: same RDATA multiset in any
   order (name compression and the case of names inside RDATA vanish in the
   canonical RDATA), any TTL, same type and class, owner as above *)
Definition resolver_view (o : name) (t c : N) (signed seen : list rr) : Prop :=
  Permutation (map r_rdata signed) (map r_rdata seen) /\
  Forall (fun r => r_type r = t /\ r_class r = c /\ owner_seen_as o (r_owner r)) seen.

(* the covered information: what the signed octets must determine *)
Definition covered (s : sigf) (recs : list rr) :=
  (s_tc s, s_alg s, s_labels s, s_ottl s, s_exp s, s_inc s, s_kt s, canon (s_signer s),
   map (fun r => (canon (rfc_name (s_labels s) (r_owner r)), r_type r, r_class r, r_rdata r))
       (sort_rr recs)).
