(* C12 -- the stable sort by an octet-string key: it is a permutation, its
   result is sorted, and two sorted lists whose keys are permutations of each
   other carry the same key sequence (the order on octet strings is total and
   antisymmetric, Base/Lex.v). *)
From Coq Require Import NArith List Bool Lia Sorting.Permutation Sorting.Sorted.
From DV Require Import Base.Bytes Base.Lex C12.Model.
Import ListNotations.
Local Open Scope N_scope.

Definition ble (a b : bytes) : Prop := lex_cmp a b <> Gt.

Lemma ble_refl a : ble a a.
Proof. unfold ble. rewrite lex_cmp_refl. discriminate. Qed.

Lemma ble_antisym a b : ble a b -> ble b a -> a = b.
Proof.
  unfold ble. intros H1 H2. rewrite (lex_cmp_antisym a b) in H2.
  destruct (lex_cmp a b) eqn:E; simpl in H2; try congruence.
  apply lex_cmp_eq. exact E.
Qed.

Lemma ble_trans a b c : ble a b -> ble b c -> ble a c.
Proof.
  unfold ble. intros H1 H2.
  destruct (lex_cmp a b) eqn:E1; try congruence.
  - apply lex_cmp_eq in E1. subst. exact H2.
  - destruct (lex_cmp b c) eqn:E2; try congruence.
    + apply lex_cmp_eq in E2. subst. rewrite E1. discriminate.
    + rewrite (lex_cmp_trans _ _ _ _ E1 E2). discriminate.
Qed.

Lemma ble_total a b : ble a b \/ ble b a.
Proof.
  unfold ble. rewrite (lex_cmp_antisym a b).
  destruct (lex_cmp a b); simpl; [left|left|right]; discriminate.
Qed.

Lemma gt_ble a b : lex_cmp a b = Gt -> ble b a.
Proof. unfold ble. intros H. rewrite (lex_cmp_antisym a b), H. simpl. discriminate. Qed.

Section SortProps.
  Variable A : Type.
  Variable key : A -> bytes.
  Definition kle (a b : A) : Prop := ble (key a) (key b).

  Lemma insert_by_perm x l : Permutation (insert_by key x l) (x :: l).
  Proof.
    induction l as [|y t IH]; cbn [insert_by]; [reflexivity|].
    destruct (lex_cmp (key x) (key y)); try reflexivity.
    rewrite IH. apply perm_swap.
  Qed.

  Lemma sort_by_perm l : Permutation (sort_by key l) l.
  Proof.
    induction l as [|x t IH]; cbn [sort_by fold_right]; [reflexivity|].
    fold (sort_by key t). rewrite insert_by_perm. constructor. exact IH.
  Qed.

  Lemma insert_by_sorted x l : StronglySorted kle l -> StronglySorted kle (insert_by key x l).
  Proof.
    induction l as [|y t IH]; cbn [insert_by]; intros Hs.
    - repeat constructor.
    - inversion Hs as [|? ? Hst Hall]; subst.
      destruct (lex_cmp (key x) (key y)) eqn:E.
      + constructor; [exact Hs|]. constructor.
        * unfold kle, ble. rewrite E. discriminate.
        * eapply Forall_impl; [|exact Hall]. intros z Hz. unfold kle in *.
          eapply ble_trans; [|exact Hz]. unfold ble. rewrite E. discriminate.
      + constructor; [exact Hs|]. constructor.
        * unfold kle, ble. rewrite E. discriminate.
        * eapply Forall_impl; [|exact Hall]. intros z Hz. unfold kle in *.
          eapply ble_trans; [|exact Hz]. unfold ble. rewrite E. discriminate.
      + constructor; [apply IH; exact Hst|].
        eapply Permutation_Forall; [apply Permutation_sym, insert_by_perm|].
        constructor; [|exact Hall]. unfold kle. apply gt_ble. exact E.
  Qed.

  Lemma sort_by_sorted l : StronglySorted kle (sort_by key l).
  Proof.
    induction l as [|x t IH]; cbn [sort_by fold_right]; [constructor|].
    fold (sort_by key t). apply insert_by_sorted. exact IH.
  Qed.

  Lemma sorted_map_key l : StronglySorted kle l -> StronglySorted ble (map key l).
  Proof.
    induction 1 as [|x t Hs IH Hall]; cbn [map]; constructor; [exact IH|].
    apply Forall_map. exact Hall.
  Qed.

  Lemma sort_by_forall (P : A -> Prop) l : Forall P l -> Forall P (sort_by key l).
  Proof. intros H. eapply Permutation_Forall; [apply Permutation_sym, sort_by_perm|exact H]. Qed.

  (* a sorted list is left alone *)
  Lemma insert_by_head x l : Forall (kle x) l -> insert_by key x l = x :: l.
  Proof.
    destruct l as [|y t]; cbn [insert_by]; intros H; [reflexivity|].
    inversion H as [|? ? Hxy _]; subst. unfold kle, ble in Hxy.
    destruct (lex_cmp (key x) (key y)); congruence.
  Qed.

  Lemma sort_by_sorted_id l : StronglySorted kle l -> sort_by key l = l.
  Proof.
    induction 1 as [|x t Hs IH Hall]; cbn [sort_by fold_right]; [reflexivity|].
    fold (sort_by key t). rewrite IH. apply insert_by_head. exact Hall.
  Qed.
End SortProps.
Arguments kle {A} key a b.

(* sorted + permutation => equal, for octet strings *)
Lemma sorted_perm_eq (l1 l2 : list bytes) :
  StronglySorted ble l1 -> StronglySorted ble l2 -> Permutation l1 l2 -> l1 = l2.
Proof.
  revert l2. induction l1 as [|a t1 IH]; intros l2 H1 H2 Hp.
  - apply Permutation_nil in Hp. congruence.
  - destruct l2 as [|b t2]; [apply Permutation_sym, Permutation_nil in Hp; discriminate|].
    inversion H1 as [|? ? Hs1 Ha1]; subst. inversion H2 as [|? ? Hs2 Ha2]; subst.
    assert (Hab : a = b).
    { assert (Hin1 : In a (b :: t2)) by (eapply Permutation_in; [exact Hp|left; reflexivity]).
      assert (Hin2 : In b (a :: t1)) by (eapply Permutation_in; [apply Permutation_sym; exact Hp|left; reflexivity]).
      destruct Hin1 as [->|Hin1]; [reflexivity|].
      destruct Hin2 as [<-|Hin2]; [reflexivity|].
      rewrite Forall_forall in Ha1, Ha2.
      apply ble_antisym; [apply Ha1; exact Hin2|apply Ha2; exact Hin1]. }
    subst b. f_equal. apply IH; auto. eapply Permutation_cons_inv. exact Hp.
Qed.

(* the key sequence of the sorted list depends only on the multiset of keys *)
Lemma sort_keys_perm {A B} (ka : A -> bytes) (kb : B -> bytes) (l1 : list A) (l2 : list B) :
  Permutation (map ka l1) (map kb l2) ->
  map ka (sort_by ka l1) = map kb (sort_by kb l2).
Proof.
  intros Hp. apply sorted_perm_eq.
  - apply sorted_map_key, sort_by_sorted.
  - apply sorted_map_key, sort_by_sorted.
  - rewrite (Permutation_map ka (sort_by_perm _ ka l1)).
    rewrite (Permutation_map kb (sort_by_perm _ kb l2)). exact Hp.
Qed.

(* a function of the element that only looks at the key *)
Lemma flat_map_via_key {A} (key : A -> bytes) (f : A -> bytes) (g : bytes -> bytes) l :
  Forall (fun r => f r = g (key r)) l -> flat_map f l = flat_map g (map key l).
Proof.
  induction 1 as [|x t Hx Ht IH]; cbn [flat_map map]; [reflexivity|].
  rewrite Hx, IH. reflexivity.
Qed.

Example sort_example :
  sort_by (fun x => x) [[3;1]; [2]; []; [2;0]; [2]] = [[]; [2]; [2]; [2;0]; [3;1]].
Proof. vm_compute. reflexivity. Qed.
