(* C12 -- the whole zone, end to end with C13 (NSEC variant of sign_zone,
   dnssec/sign/mod.rs): any record list goes through SortedRecords::from
   (C13.sorted_records), generate_nsecs (C13) makes the chain, sorted_extend
   puts the NSEC records into the collection (SortedModel.so_extend), and
   sign_sorted_zone_records (ZoneModel.sign_zone) makes the RRSIGs - with
   whatever keys the caller passes, every one of them signing every selected
   RRset.  How each RRSIG's signed data is the RFC 4034 3.1.8.1 construction is
   C12_signer_input_is_rfc4034 / C12_signed_data_is_rfc4034 (Model.v), per RRset. *)
From Coq Require Import NArith List Bool Lia Sorting.Sorted.
From DV Require C13.Model C13.ProofsDedup.
From DV Require Import Base.Outcome Base.Bytes Base.Lex Base.Names
  C12.Gen C12.ZoneModel C12.ProofsZone C12.ProofsZoneSorted C12.SortedModel.
Import ListNotations.
Local Open Scope N_scope.

(* an NSEC record as it enters the collection: owner, type 47, canonical RDATA =
   next name as it is (RFC 6840 5.1) followed by the type bitmap *)
Definition nsec_srec (r : C13.Model.nsec) : srec :=
  ((C13.Model.n_owner r, 47), (false, wire_abs (C13.Model.n_next r) ++ C13.Model.n_types r)).

(* sign_zone with DenialConfig::Nsec, at the level of (owner, type): the signed
   collection and the (owner, type) of the RRSIGs made over it *)
Definition signed_collection (l : list srec) (ns : list C13.Model.nsec) : list zrec :=
  C13.Model.strip (so_extend (C13.Model.sorted_records l) (map nsec_srec ns)).

Definition whole_zone_nsec (apex : name) (dnskey : bool) (k : nat) (l : list srec)
  : outcome (list zrec * list zrec) :=
  do ns <- C13.Model.generate_nsecs apex dnskey (C13.Model.strip (C13.Model.sorted_records l));
  Ok (signed_collection l ns, sign_zone apex k (signed_collection l ns)).

Lemma has_type_app z1 z2 o t :
  C13.Model.has_type (z1 ++ z2) o t <-> C13.Model.has_type z1 o t \/ C13.Model.has_type z2 o t.
Proof.
  unfold C13.Model.has_type. split.
  - intros (m & Hin & E). apply in_app_or in Hin as [H|H]; [left|right]; exists m; auto.
  - intros [(m & Hin & E)|(m & Hin & E)]; exists m; split; auto; apply in_or_app; auto.
Qed.

Lemma strip_app a b : C13.Model.strip (a ++ b) = C13.Model.strip a ++ C13.Model.strip b.
Proof. unfold C13.Model.strip. apply map_app. Qed.

Lemma signed_collection_types l ns o t :
  C13.Model.has_type (signed_collection l ns) o t <->
  C13.Model.has_type (C13.Model.strip l) o t \/
  (t = 47 /\ exists r, In r ns /\ name_eqb (C13.Model.n_owner r) o = true).
Proof.
  unfold signed_collection, so_extend.
  rewrite C13.ProofsDedup.sorted_records_types, strip_app, has_type_app, C13.ProofsDedup.sorted_records_types.
  split; intros [H|H]; try (left; exact H); right.
  - destruct H as (m & Hin & E). unfold C13.Model.strip in Hin. rewrite map_map in Hin.
    apply in_map_iff in Hin as (r & Hr & Hin). unfold nsec_srec in Hr. cbn [fst] in Hr. injection Hr as <- <-.
    split; [reflexivity|]. exists r. split; assumption.
  - destruct H as (-> & r & Hin & E). exists (C13.Model.n_owner r). split; [|exact E].
    unfold C13.Model.strip. rewrite map_map. apply in_map_iff. exists r. split; [reflexivity|exact Hin].
Qed.

Lemma og_concat l : concat (owner_groups l) = l.
Proof.
  induction l as [|[o t] rest IH]; [reflexivity|]. rewrite og_cons.
  destruct (owner_groups rest) as [|[|[o' t'] g] gs]; cbn [concat app] in *.
  - rewrite <- IH. reflexivity.
  - rewrite <- IH. reflexivity.
  - destruct (name_eqb o' o); cbn [concat app]; rewrite <- IH; reflexivity.
Qed.

(* the whole-zone statement *)
Lemma whole_zone_nsec_signed apex dnskey k l coll sigs :
  whole_zone_nsec apex dnskey k l = Ok (coll, sigs) ->
  exists ns,
    C13.Model.generate_nsecs apex dnskey (C13.Model.strip (C13.Model.sorted_records l)) = Ok ns /\
    coll = signed_collection l ns /\
    (* the RRSIGs are those of the stateless RFC 4035 2.2 reading of the collection *)
    sigs = spec_zone apex k coll /\
    (* one per key: k keys give k copies of what one key gives, RRset by RRset *)
    sigs = flat_map (fun x => repeat x k) (sign_zone apex 1 coll) /\
    (* nothing signed that RFC 4035 2.2 forbids *)
    (forall o t, In (o, t) sigs -> t <> 46 /\ C13.Model.has_type coll o t) /\
    (* the NSEC owners are exactly the authoritative names of the input (C13) *)
    (forall n, C13.Model.auth_name apex (C13.Model.strip l) n <->
               exists r, In r ns /\ name_eqb (C13.Model.n_owner r) n = true) /\
    (* the collection is the input plus one NSEC RRset per such name: types kept, nothing else added *)
    (forall o t, C13.Model.has_type coll o t <->
                 C13.Model.has_type (C13.Model.strip l) o t \/
                 (t = 47 /\ exists r, In r ns /\ name_eqb (C13.Model.n_owner r) o = true)).
Proof.
  unfold whole_zone_nsec.
  destruct (C13.Model.generate_nsecs apex dnskey (C13.Model.strip (C13.Model.sorted_records l))) as [ns| | |] eqn:En;
    cbn [bind]; try discriminate.
  intros H. injection H as <- <-. exists ns. split; [reflexivity|]. split; [reflexivity|].
  assert (Hsorted : StronglySorted (fun a b : zrec => name_cmp (fst a) (fst b) <> Gt) (signed_collection l ns)).
  { unfold signed_collection, so_extend. exact (C13.ProofsDedup.sorted_records_sorted _). }
  split; [exact (sign_zone_is_rfc4035 apex k _ Hsorted)|].
  split; [unfold sign_zone; apply sign_groups_per_key|].
  split.
  - intros o t Hin. destruct (zone_signed_sound apex k _ o t Hin) as (H46 & g & Hg & Hog & _).
    split; [exact H46|]. exists o. split; [|apply C13.ProofsNames.name_eqb_refl].
    (* the record is in a group of the collection's suffix kept by skip_before *)
    clear - Hg Hog. revert g Hg Hog. generalize (signed_collection l ns). intros z.
    assert (Hsk : forall x, In x (skip_before apex z) -> In x z).
    { induction z as [|[o' t'] r IH]; cbn [skip_before]; [intros x []|].
      destruct (name_eqb apex o' || ends_with o' apex); [auto|]. intros x Hx. right. apply IH. exact Hx. }
    intros g Hg Hog. apply Hsk. rewrite <- (og_concat (skip_before apex z)).
    apply in_concat. exists g. split; assumption.
  - split; [exact (proj1 (C13.ProofsDedup.sorted_records_nsec_owners l apex dnskey ns En))|].
    intros o t. apply signed_collection_types.
Qed.

(* completeness: an owner group inside the zone that is not at or below an earlier
   delegation gets an RRSIG (per key) for every RRset the per-owner rule admits;
   an NSEC RRset (type 47) is admitted everywhere, at a delegation too *)
Lemma spec_groups_complete apex k pre : forall seen g post t,
  (0 < k)%nat -> g <> [] -> below_earlier_cut apex (seen ++ pre) g = false ->
  In t (map snd g) ->
  rfc_signed_here (is_zone_cut apex g) (name_eqb (group_owner g) apex) t = true ->
  exists o, In (o, t) (spec_groups apex k seen (pre ++ g :: post)).
Proof.
  induction pre as [|p pre' IH]; intros seen g post t Hk Hne Hb Ht Hr.
  - cbn [app spec_groups]. rewrite app_nil_r in Hb. rewrite Hb.
    destruct (select_complete (is_zone_cut apex g) (group_owner g) apex k g t Ht) as (o & Ho); [|exact Hk|].
    + rewrite rrset_signed_is_rfc. exact Hr.
    + exists o. apply in_or_app. left. exact Ho.
  - cbn [app spec_groups].
    destruct (IH (seen ++ [p]) g post t Hk Hne) as (o & Ho); try assumption.
    + rewrite <- app_assoc. exact Hb.
    + exists o. apply in_or_app. right. exact Ho.
Qed.

Lemma nsec_always_admitted at_cut at_apex : rfc_signed_here at_cut at_apex 47 = true.
Proof. destruct at_cut, at_apex; reflexivity. Qed.

Lemma whole_zone_authoritative_rrsets_signed apex dnskey k l coll sigs pre g post t :
  whole_zone_nsec apex dnskey k l = Ok (coll, sigs) -> (0 < k)%nat ->
  filter (in_zoneb apex) (owner_groups coll) = pre ++ g :: post ->
  below_earlier_cut apex pre g = false ->
  In t (map snd g) ->
  (t = 47 \/ rfc_signed_here (is_zone_cut apex g) (name_eqb (group_owner g) apex) t = true) ->
  exists o, In (o, t) sigs /\
            sigs = flat_map (fun x => repeat x k) (sign_zone apex 1 coll).
Proof.
  intros Hw Hk Hf Hb Ht Hr.
  destruct (whole_zone_nsec_signed _ _ _ _ _ _ Hw) as (ns & _ & _ & Hspec & Hper & _).
  assert (Hne : g <> []).
  { pose proof (og_nonempty coll) as H. rewrite Forall_forall in H. apply H.
    assert (Hin : In g (filter (in_zoneb apex) (owner_groups coll))) by (rewrite Hf; apply in_or_app; right; left; reflexivity).
    apply filter_In in Hin as [Hin _]. exact Hin. }
  assert (Hr' : rfc_signed_here (is_zone_cut apex g) (name_eqb (group_owner g) apex) t = true).
  { destruct Hr as [->|Hr]; [apply nsec_always_admitted|exact Hr]. }
  destruct (spec_groups_complete apex k pre [] g post t Hk Hne Hb Ht Hr') as (o & Ho).
  exists o. split; [|exact Hper]. rewrite Hspec. unfold spec_zone. rewrite Hf. exact Ho.
Qed.

(* non-vacuity: an unsorted three-owner zone with a delegation, one key *)
Example whole_zone_example :
  let apex := [[101;120]] in
  let n l := l ++ apex in
  let s (o : name) (t : N) (d : bytes) : srec := (o, t, (false, d)) in
  exists coll sigs,
    whole_zone_nsec apex false 1
      [s (n [[103]; [115]]) 1 [1]; s (n [[116]]) 28 [2]; s (n [[115]]) 2 [5]; s apex 6 [4]; s apex 2 [6]] = Ok (coll, sigs) /\
    sigs = [(apex, 2); (apex, 6); (apex, 47); (n [[115]], 47); (n [[116]], 28); (n [[116]], 47)].
Proof. cbv zeta. eexists; eexists. split; vm_compute; reflexivity. Qed.
