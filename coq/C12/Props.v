(* C12 -- property theorems only.  Proofs live in C12/Proofs*.v. *)
From Coq Require Import NArith List Bool Sorting.Permutation Sorting.Sorted.
From DV Require Import Base.Outcome Base.Bytes Base.Lex Base.Names C11.Sha C17.Model
  C12.Gen C12.Model C12.Digest C12.Spec C12.ProofsSort C12.ProofsSigned C12.ProofsInj
  C12.ProofsKey C12.ProofsCrypto C12.KeyModel C12.ProofsRsa C12.ZoneModel C12.ProofsZone C12.ProofsC04 C12.ProofsC05 C12.ProofsZoneSorted C12.SortedModel C12.ProofsSortedRecords C12.ProofsWholeZone C12.ProofsWholeZone3 C12.ProofsV.
Import ListNotations.
Local Open Scope N_scope.

Theorem C12_signed_data_is_rfc4034 : forall s recs,
  RFC4034_signed_data s recs (signed_data s recs).
Proof. exact signed_data_is_rfc4034. Qed.
Print Assumptions C12_signed_data_is_rfc4034.

Theorem C12_rfc4034_signed_data_unique : forall s rrset o1 o2,
  (forall a b, In a rrset -> In b rrset -> r_rdata a = r_rdata b -> rfc_rr s a = rfc_rr s b) ->
  RFC4034_signed_data s rrset o1 -> RFC4034_signed_data s rrset o2 -> o1 = o2.
Proof. exact rfc4034_signed_data_unique. Qed.
Print Assumptions C12_rfc4034_signed_data_unique.

Theorem C12_signed_data_closed_form : forall s recs,
  signed_data s recs = rfc_rrsig_rdata s ++ flat_map (rfc_rr s) (sort_rr recs).
Proof. exact signed_data_closed. Qed.
Print Assumptions C12_signed_data_closed_form.

Theorem C12_signed_data_keeps_every_record : forall s r recs,
  length (signed_data s (r :: recs)) = (length (signed_data s recs) + length (rfc_rr s r))%nat.
Proof. exact signed_data_keeps_every_record. Qed.
Print Assumptions C12_signed_data_keeps_every_record.

Theorem C12_signer_input_is_rfc4034 : forall k o t c ttl rrset inc exp s scratch,
  uniform o t c ttl rrset ->
  sign_rrset k rrset inc exp = Ok (s, scratch) ->
  s = mk_sigf t (k_alg k) (rrsig_label_count o) ttl exp inc (k_tag k) (k_owner k) /\
  scratch = rfc_rrsig_rdata s ++ flat_map (rr_octets o t c ttl) (map r_rdata (sort_rr rrset)) /\
  t <> 46 /\ serial_partial_cmp exp inc <> Ok (Some Lt) /\ rrset <> [].
Proof. exact sign_rrset_ok. Qed.
Print Assumptions C12_signer_input_is_rfc4034.

Theorem C12_validator_rebuilds_signer_input : forall k o t c ttl rrset inc exp s scratch,
  valid_abs o -> uniform o t c ttl rrset ->
  sign_rrset k rrset inc exp = Ok (s, scratch) ->
  forall seen, resolver_view o t c rrset seen -> signed_data s seen = scratch.
Proof. exact validator_rebuilds_signer_input. Qed.
Print Assumptions C12_validator_rebuilds_signer_input.

Theorem C12_sign_sorted_agrees_on_sorted_input : forall k rrset inc exp,
  StronglySorted rdata_le rrset ->
  (do rs <- rrset_new rrset; sign_sorted k rs inc exp) = sign_rrset k rrset inc exp.
Proof. exact sign_sorted_on_sorted. Qed.
Print Assumptions C12_sign_sorted_agrees_on_sorted_input.

Theorem C12_signer_total : forall k o t c ttl rrset inc exp,
  valid_abs o -> uniform o t c ttl rrset -> rrset <> [] -> inc < 4294967296 -> exp < 4294967296 ->
  match sign_rrset k rrset inc exp with
  | Ok _ => t <> 46 /\ serial_partial_cmp exp inc <> Ok (Some Lt)
  | Err 1 => t = 46
  | Err 2 => t <> 46 /\ serial_partial_cmp exp inc = Ok (Some Lt)
  | _ => False
  end.
Proof. exact signer_total. Qed.
Print Assumptions C12_signer_total.

Theorem C12_signer_period_is_rfc1982 : forall k o t c ttl rrset inc exp,
  valid_abs o -> uniform o t c ttl rrset -> rrset <> [] -> t <> 46 ->
  inc < 4294967296 -> exp < 4294967296 ->
  (sign_rrset k rrset inc exp = Err 2 <-> rfc_lt exp inc) /\
  ((exists r, sign_rrset k rrset inc exp = Ok r) <-> ~ rfc_lt exp inc).
Proof. exact signer_period_is_rfc1982. Qed.
Print Assumptions C12_signer_period_is_rfc1982.

Theorem C12_labels_field_is_rfc4034_3_1_3 : forall owner, valid_abs owner ->
  rrsig_label_count owner = rfc_labels owner /\ rfc_labels owner <= N.of_nat (length owner).
Proof. exact labels_field_is_rfc. Qed.
Print Assumptions C12_labels_field_is_rfc4034_3_1_3.

Theorem C12_sign_then_verify : forall (secret public : Type)
  (sign : secret -> bytes -> bytes) (verify : public -> bytes -> bytes -> bool) (sk : secret) (pk : public),
  (forall m, verify pk m (sign sk m) = true) ->
  forall k o t c ttl rrset inc exp s scratch,
    valid_abs o -> uniform o t c ttl rrset ->
    sign_rrset k rrset inc exp = Ok (s, scratch) ->
    forall seen, resolver_view o t c rrset seen ->
      verify_signed_data public verify pk (k_alg k) s (sign sk scratch) (signed_data s seen) = Ok tt.
Proof. exact sign_then_verify. Qed.
Print Assumptions C12_sign_then_verify.

Theorem C12_alteration_changes_input : forall s1 s2 recs1 recs2,
  wf_sig s1 -> wf_sig s2 -> Forall wf_rr recs1 -> Forall wf_rr recs2 ->
  covered s1 recs1 <> covered s2 recs2 -> signed_data s1 recs1 <> signed_data s2 recs2.
Proof. exact alteration_changes_input. Qed.
Print Assumptions C12_alteration_changes_input.

Theorem C12_signed_octets_determine_covered_fields : forall s1 s2 recs1 recs2,
  wf_sig s1 -> wf_sig s2 -> Forall wf_rr recs1 -> Forall wf_rr recs2 ->
  signed_data s1 recs1 = signed_data s2 recs2 ->
  s_tc s1 = s_tc s2 /\ s_alg s1 = s_alg s2 /\ s_labels s1 = s_labels s2 /\ s_ottl s1 = s_ottl s2 /\
  s_exp s1 = s_exp s2 /\ s_inc s1 = s_inc s2 /\ s_kt s1 = s_kt s2 /\
  canon (s_signer s1) = canon (s_signer s2) /\
  Permutation (map r_rdata recs1) (map r_rdata recs2) /\ length recs1 = length recs2.
Proof. exact signed_octets_determine_covered_fields. Qed.
Print Assumptions C12_signed_octets_determine_covered_fields.

Theorem C12_tamper_rejected : forall (secret public : Type)
  (sign : secret -> bytes -> bytes) (verify : public -> bytes -> bytes -> bool) (sk : secret) (pk : public),
  (forall m m', verify pk m' (sign sk m) = true -> m' = m) ->
  forall k o t c ttl rrset inc exp s scratch,
    valid_abs o -> uniform o t c ttl rrset ->
    sign_rrset k rrset inc exp = Ok (s, scratch) ->
    forall dalg s' seen seen',
      resolver_view o t c rrset seen ->
      wf_sig s -> wf_sig s' -> Forall wf_rr seen -> Forall wf_rr seen' ->
      covered s' seen' <> covered s seen ->
      verify_signed_data public verify pk dalg s' (sign sk scratch) (signed_data s' seen') <> Ok tt.
Proof. exact tamper_rejected. Qed.
Print Assumptions C12_tamper_rejected.

Theorem C12_altered_signature_rejected : forall (secret public : Type)
  (sign : secret -> bytes -> bytes) (verify : public -> bytes -> bytes -> bool) (sk : secret) (pk : public),
  (forall m sg, verify pk m sg = true -> sg = sign sk m) ->
  forall k o t c ttl rrset inc exp s scratch,
    valid_abs o -> uniform o t c ttl rrset ->
    sign_rrset k rrset inc exp = Ok (s, scratch) ->
    forall seen sg', resolver_view o t c rrset seen ->
      sg' <> sign sk scratch ->
      verify_signed_data public verify pk (k_alg k) s sg' (signed_data s seen) <> Ok tt.
Proof. exact altered_signature_rejected. Qed.
Print Assumptions C12_altered_signature_rejected.

Theorem C12_foreign_key_rejected : forall (secret public : Type)
  (sign : secret -> bytes -> bytes) (verify : public -> bytes -> bytes -> bool) (sk : secret) (pk : public),
  (forall pk' m, verify pk' m (sign sk m) = true -> pk' = pk) ->
  forall k o t c ttl rrset inc exp s scratch,
    valid_abs o -> uniform o t c ttl rrset ->
    sign_rrset k rrset inc exp = Ok (s, scratch) ->
    forall seen pk' dalg, resolver_view o t c rrset seen ->
      pk' <> pk ->
      verify_signed_data public verify pk' dalg s (sign sk scratch) (signed_data s seen) <> Ok tt.
Proof. exact foreign_key_rejected. Qed.
Print Assumptions C12_foreign_key_rejected.

Theorem C12_key_tag_is_appendix_b : forall flags proto alg pk,
  flags < 65536 -> proto < 256 -> alg < 256 -> alg <> 1 -> wf_bytes pk ->
  len (rfc_dnskey_rdata flags proto alg pk) <= 65535 ->
  key_tag flags proto alg pk = Ok (rfc_keytag (rfc_dnskey_rdata flags proto alg pk)) /\
  rfc_ac (rfc_dnskey_rdata flags proto alg pk) 0 0 + 65535 < 4294967296 /\
  rfc_keytag (rfc_dnskey_rdata flags proto alg pk) < 65536.
Proof. exact key_tag_is_appendix_b. Qed.
Print Assumptions C12_key_tag_is_appendix_b.

Theorem C12_key_tag_algorithm_1 : forall flags proto pk,
  wf_bytes pk ->
  ((3 <= length pk)%nat -> key_tag flags proto 1 pk = Ok (rfc_keytag_alg1 pk)) /\
  ((length pk < 3)%nat -> key_tag flags proto 1 pk = Ok 0).
Proof. exact key_tag_algorithm_1. Qed.
Print Assumptions C12_key_tag_algorithm_1.

Theorem C12_key_tag_no_panic : forall flags proto alg pk,
  flags < 65536 -> proto < 256 -> alg < 256 -> wf_bytes pk ->
  len (rfc_dnskey_rdata flags proto alg pk) <= 65535 -> no_panic (key_tag flags proto alg pk).
Proof. exact key_tag_no_panic. Qed.
Print Assumptions C12_key_tag_no_panic.

Theorem C12_ds_digest_is_rfc4034_5_1_4 : forall owner flags proto alg pk,
  ds_digest 1 owner flags proto alg pk = Ok (sha1 (rfc_ds_input owner flags proto alg pk)) /\
  ds_digest 2 owner flags proto alg pk = Ok (sha256 (rfc_ds_input owner flags proto alg pk)) /\
  ds_digest 4 owner flags proto alg pk = Ok (sha384 (rfc_ds_input owner flags proto alg pk)) /\
  (forall d, d <> 1 -> d <> 2 -> d <> 4 -> ds_digest d owner flags proto alg pk = Err 1).
Proof. exact ds_digest_is_rfc. Qed.
Print Assumptions C12_ds_digest_is_rfc4034_5_1_4.

Theorem C12_wildcard_closest_encloser : forall labels owner,
  wildcard_closest_encloser labels owner =
  if labels <? N.of_nat (length owner) then Some (rightmost (N.to_nat labels) owner) else None.
Proof. exact wildcard_closest_encloser_spec. Qed.
Print Assumptions C12_wildcard_closest_encloser.

Theorem C12_rsa_key_roundtrip : forall e n, rsa_part_ok e -> rsa_part_ok n ->
  exists pk, rsa_encode e n = Ok pk /\ rsa_exponent_modulus pk 0 = Ok (e, n).
Proof. exact rsa_roundtrip. Qed.
Print Assumptions C12_rsa_key_roundtrip.

Theorem C12_rsa_parse_sound : forall pk min_len e n,
  rsa_exponent_modulus pk min_len = Ok (e, n) ->
  rsa_part_ok e /\ rsa_part_ok n /\ min_len <= len n /\
  (pk = len e :: e ++ n \/ exists hi lo, pk = 0 :: hi :: lo :: e ++ n /\ of_be16 hi lo = len e /\ 1 <= hi).
Proof. exact rsa_parse_sound. Qed.
Print Assumptions C12_rsa_parse_sound.

Theorem C12_key_size_of_parsed_key : forall alg pk min_len e n,
  memN alg ks_rsa_algorithms = true ->
  rsa_exponent_modulus pk min_len = Ok (e, n) ->
  exists f t, n = f :: t /\ key_size alg pk = Ok (len n * 8 - leading_zeros8 f) /\
              (len n - 1) * 8 < len n * 8 - leading_zeros8 f <= len n * 8.
Proof. exact key_size_of_parsed. Qed.
Print Assumptions C12_key_size_of_parsed_key.

Theorem C12_key_parsing_total : forall alg pk min_len,
  no_panic (key_size alg pk) /\ no_panic (rsa_exponent_modulus pk min_len).
Proof. exact key_parsing_total. Qed.
Print Assumptions C12_key_parsing_total.

Theorem C12_zone_signed_sound : forall apex k recs o t,
  In (o, t) (sign_zone apex k recs) ->
  t <> 46 /\
  exists g, In g (owner_groups (skip_before apex recs)) /\ In (o, t) g /\
            ends_with (group_owner g) apex = true /\
            (is_zone_cut apex g = true -> t = 43 \/ t = 47) /\
            (name_eqb (group_owner g) apex = true -> t <> 48 /\ t <> 59 /\ t <> 60).
Proof. exact zone_signed_sound. Qed.
Print Assumptions C12_zone_signed_sound.

Theorem C12_zone_delegation : forall apex k cut o t g' mid rest,
  ends_with o apex = true ->
  match cut with Some c => ends_with o c | None => false end = false ->
  is_zone_cut apex ((o, t) :: g') = true ->
  Forall (fun g => g <> [] /\ ends_with (group_owner g) apex = true /\ ends_with (group_owner g) o = true) mid ->
  sign_groups apex k cut (((o, t) :: g') :: mid ++ rest) =
  select_rrsets true o apex k ((o, t) :: g') ++ sign_groups apex k (Some o) rest.
Proof. exact delegation_signed. Qed.
Print Assumptions C12_zone_delegation.

Theorem C12_zone_authoritative_group_signed : forall apex k cut g rest t,
  g <> [] -> ends_with (group_owner g) apex = true ->
  match cut with Some c => ends_with (group_owner g) c | None => false end = false ->
  In t (map snd g) ->
  rfc_signed_here (is_zone_cut apex g) (name_eqb (group_owner g) apex) t = true -> (0 < k)%nat ->
  exists o, In (o, t) (sign_groups apex k cut (g :: rest)).
Proof. exact authoritative_group_signed. Qed.
Print Assumptions C12_zone_authoritative_group_signed.

Theorem C12_subtree_is_contiguous : forall c a x b,
  ends_with a c = true -> ends_with b c = true ->
  name_cmp a x <> Gt -> name_cmp x b <> Gt -> ends_with x c = true.
Proof. exact subtree_is_contiguous. Qed.
Print Assumptions C12_subtree_is_contiguous.

Theorem C12_zone_selection_is_rfc4035 : forall apex k gs,
  Forall (fun g => g <> [] /\ ends_with (group_owner g) apex = true) gs ->
  StronglySorted nle (map group_owner gs) ->
  sign_groups apex k None gs = spec_groups apex k [] gs.
Proof. exact zone_selection_is_rfc4035. Qed.
Print Assumptions C12_zone_selection_is_rfc4035.

Theorem C12_code_order_is_octet_order : forall s l, one_schema l ->
  signed_data_code_order s l = signed_data s (map c_to_rr l) /\
  (forall a b, In a l -> In b l -> no_panic (C04.Model.fields_cmp (c_data a) (c_data b))).
Proof. exact code_order_is_octet_order. Qed.
Print Assumptions C12_code_order_is_octet_order.

Theorem C12_embedded_name_case_is_invisible : forall a b,
  case_variant a b -> r_rdata (t_to_rr a) = r_rdata (t_to_rr b).
Proof. exact case_variant_same_rdata. Qed.
Print Assumptions C12_embedded_name_case_is_invisible.

Theorem C12_typed_validator_rebuilds_signer_input : forall k o t c ttl rrset inc exp s scratch,
  valid_abs o -> uniform o t c ttl (map t_to_rr rrset) ->
  sign_rrset k (map t_to_rr rrset) inc exp = Ok (s, scratch) ->
  forall seen, typed_resolver_view o t c rrset seen -> signed_data s (map t_to_rr seen) = scratch.
Proof. exact typed_validator_rebuilds_signer_input. Qed.
Print Assumptions C12_typed_validator_rebuilds_signer_input.

Theorem C12_sign_zone_is_rfc4035 : forall apex k recs,
  StronglySorted (fun a b : zrec => name_cmp (fst a) (fst b) <> Gt) recs ->
  sign_zone apex k recs = spec_zone apex k recs.
Proof. exact sign_zone_is_rfc4035. Qed.
Print Assumptions C12_sign_zone_is_rfc4035.

Theorem C12_zone_signing_from_any_records : forall apex k (l : list C13.Model.srec),
  sign_zone apex k (C13.Model.strip (C13.Model.sorted_records l)) =
  spec_zone apex k (C13.Model.strip (C13.Model.sorted_records l)).
Proof. exact zone_signing_from_any_records. Qed.
Print Assumptions C12_zone_signing_from_any_records.

Theorem C12_every_key_signs_every_selected_rrset : forall apex k gs cut,
  sign_groups apex k cut gs = flat_map (fun x => repeat x k) (sign_groups apex 1 cut gs).
Proof. exact sign_groups_per_key. Qed.
Print Assumptions C12_every_key_signs_every_selected_rrset.

Theorem C12_rsa_parse_complete : forall pk min_len e n,
  rsa_part_ok e -> rsa_part_ok n -> min_len <= len n ->
  ((pk = len e :: e ++ n /\ len e <= 255) \/
   (exists hi lo, pk = 0 :: hi :: lo :: e ++ n /\ of_be16 hi lo = len e /\ 1 <= hi <= 255)) ->
  rsa_exponent_modulus pk min_len = Ok (e, n).
Proof. exact rsa_parse_complete. Qed.
Print Assumptions C12_rsa_parse_complete.

Theorem C12_rsa_part_accepted_iff_1_to_512 : forall b,
  rsa_part_bad b = false <-> (1 <= len b <= 512 /\ head_nonzero b).
Proof. exact rsa_part_accept_iff. Qed.
Print Assumptions C12_rsa_part_accepted_iff_1_to_512.

Theorem C12_sorted_records_entry_points : forall vf ops,
  Forall (variant_by_type vf) (arrivals ops) ->
  strict (fst (c12_sorted_ops ops)) /\
  (forall x, In x (fst (c12_sorted_ops ops)) -> In x (arrivals ops)) /\
  (forall y, In y (arrivals ops) -> exists x, In x (fst (c12_sorted_ops ops)) /\ kcmp x y = Eq).
Proof. exact sorted_records_entry_points. Qed.
Print Assumptions C12_sorted_records_entry_points.

Theorem C12_any_interleaving_is_sort_dedup : forall vf ops,
  Forall (variant_by_type vf) (arrivals ops) ->
  Forall2 (fun a b => kcmp a b = Eq) (fst (c12_sorted_ops ops)) (C13.Model.sorted_records (arrivals ops)).
Proof. exact any_interleaving_is_sort_dedup. Qed.
Print Assumptions C12_any_interleaving_is_sort_dedup.

Theorem C12_whole_zone_nsec : forall apex dnskey k l coll sigs,
  whole_zone_nsec apex dnskey k l = Ok (coll, sigs) ->
  exists ns,
    C13.Model.generate_nsecs apex dnskey (C13.Model.strip (C13.Model.sorted_records l)) = Ok ns /\
    coll = signed_collection l ns /\
    sigs = spec_zone apex k coll /\
    sigs = flat_map (fun x => repeat x k) (sign_zone apex 1 coll) /\
    (forall o t, In (o, t) sigs -> t <> 46 /\ C13.Model.has_type coll o t) /\
    (forall n, C13.Model.auth_name apex (C13.Model.strip l) n <->
               exists r, In r ns /\ name_eqb (C13.Model.n_owner r) n = true) /\
    (forall o t, C13.Model.has_type coll o t <->
                 C13.Model.has_type (C13.Model.strip l) o t \/
                 (t = 47 /\ exists r, In r ns /\ name_eqb (C13.Model.n_owner r) o = true)).
Proof. exact whole_zone_nsec_signed. Qed.
Print Assumptions C12_whole_zone_nsec.

Theorem C12_whole_zone_authoritative_rrsets_signed : forall apex dnskey k l coll sigs pre g post t,
  whole_zone_nsec apex dnskey k l = Ok (coll, sigs) -> (0 < k)%nat ->
  filter (in_zoneb apex) (owner_groups coll) = pre ++ g :: post ->
  below_earlier_cut apex pre g = false ->
  In t (map snd g) ->
  (t = 47 \/ rfc_signed_here (is_zone_cut apex g) (name_eqb (group_owner g) apex) t = true) ->
  exists o, In (o, t) sigs /\
            sigs = flat_map (fun x => repeat x k) (sign_zone apex 1 coll).
Proof. exact whole_zone_authoritative_rrsets_signed. Qed.
Print Assumptions C12_whole_zone_authoritative_rrsets_signed.

Theorem C12_whole_zone_nsec3 : forall (H : bytes -> bytes) (owner_of : bytes -> name) apex c k l coll sigs,
  whole_zone_nsec3 H owner_of apex c k l = Ok (coll, sigs) ->
  exists n3,
    C13.Model.generate_nsec3s H apex c (C13.Model.strip (C13.Model.sorted_records l)) = Ok n3 /\
    coll = signed_collection3 owner_of apex c l n3 /\
    sigs = spec_zone apex k coll /\
    sigs = flat_map (fun x => repeat x k) (sign_zone apex 1 coll) /\
    (forall o t, In (o, t) sigs -> t <> 46 /\ C13.Model.has_type coll o t) /\
    (forall x, (exists r, In r n3 /\ C13.Model.h_owner r = x) <->
       (exists n, (C13.ProofsN3d.included apex (C13.Model.strip (C13.Model.sorted_records l)) (C13.ProofsN3e.optout_excl c) n \/
                   C13.ProofsN3d.ent3 apex (C13.Model.strip (C13.Model.sorted_records l)) (C13.ProofsN3e.optout_excl c) n) /\
                  x = C13.Model.nsec3_hash H n (C13.Model.c_iters c) (C13.Model.c_salt c))) /\
    (StronglySorted (fun a b => lex_cmp (C13.Model.h_owner a) (C13.Model.h_owner b) = Lt) n3 /\ n3 <> [] /\
     map C13.Model.h_next n3 = tl (map C13.Model.h_owner n3) ++ [hd [] (map C13.Model.h_owner n3)]) /\
    (forall o t, C13.Model.has_type coll o t <->
       C13.Model.has_type (C13.Model.strip l) o t \/
       (t = 51 /\ name_eqb apex o = true) \/
       (t = 50 /\ exists r, In r n3 /\ name_eqb (owner_of (C13.Model.h_owner r)) o = true)).
Proof. exact whole_zone_nsec3_signed. Qed.
Print Assumptions C12_whole_zone_nsec3.

Theorem C12_whole_zone_nsec3_authoritative_rrsets_signed :
  forall (H : bytes -> bytes) (owner_of : bytes -> name) apex c k l coll sigs pre g post t,
  whole_zone_nsec3 H owner_of apex c k l = Ok (coll, sigs) -> (0 < k)%nat ->
  filter (in_zoneb apex) (owner_groups coll) = pre ++ g :: post ->
  below_earlier_cut apex pre g = false ->
  In t (map snd g) ->
  rfc_signed_here (is_zone_cut apex g) (name_eqb (group_owner g) apex) t = true ->
  exists o, In (o, t) sigs.
Proof. exact whole_zone3_authoritative_rrsets_signed. Qed.
Print Assumptions C12_whole_zone_nsec3_authoritative_rrsets_signed.

Theorem C12_signer_outcomes_any_records : forall k rrset inc exp,
  inc < 4294967296 -> exp < 4294967296 ->
  (sign_rrset k rrset inc exp = Err 3 /\ rrset = []) \/
  (sign_rrset k rrset inc exp = Panic 2 /\
     exists a b, In a rrset /\ In b rrset /\ r_ttl a <> r_ttl b) \/
  (sign_rrset k rrset inc exp = Err 1 /\ exists r, In r rrset /\ r_type r = 46) \/
  (sign_rrset k rrset inc exp = Err 2 /\ rrset <> [] /\ serial_partial_cmp exp inc = Ok (Some Lt)) \/
  (exists s scratch, sign_rrset k rrset inc exp = Ok (s, scratch) /\ rrset <> [] /\
                     serial_partial_cmp exp inc <> Ok (Some Lt)).
Proof. exact signer_outcomes_any_records. Qed.
Print Assumptions C12_signer_outcomes_any_records.

Theorem C12_labels_assert_never_fires : forall o : name,
  rrsig_label_count o < N.of_nat (length o) + 1.
Proof. exact label_count_lt. Qed.
Print Assumptions C12_labels_assert_never_fires.

Theorem C12_signer_order_and_case_insensitive : forall k o t c ttl rrset rrset' inc exp s scratch,
  valid_abs o -> uniform o t c ttl rrset -> uniform o t c ttl rrset' ->
  Permutation (map r_rdata rrset) (map r_rdata rrset') ->
  inc < 4294967296 -> exp < 4294967296 ->
  sign_rrset k rrset inc exp = Ok (s, scratch) ->
  sign_rrset k rrset' inc exp = Ok (s, scratch).
Proof. exact signer_order_and_case_insensitive. Qed.
Print Assumptions C12_signer_order_and_case_insensitive.

Theorem C12_algorithm_mismatch_rejected : forall (public : Type)
  (verify : public -> bytes -> bytes -> bool) (pk : public) s signature data dalg,
  s_alg s <> dalg -> verify_signed_data public verify pk dalg s signature data = Err 1.
Proof. exact algorithm_mismatch_rejected. Qed.
Print Assumptions C12_algorithm_mismatch_rejected.

Theorem C12_altered_rrsig_field_rejected : forall (secret public : Type)
  (sign : secret -> bytes -> bytes) (verify : public -> bytes -> bytes -> bool) (sk : secret) (pk : public)
  k o t c ttl rrset inc exp s scratch,
  (forall m m', verify pk m' (sign sk m) = true -> m' = m) ->
  valid_abs o -> uniform o t c ttl rrset ->
  sign_rrset k rrset inc exp = Ok (s, scratch) ->
  forall dalg s' seen seen', resolver_view o t c rrset seen ->
    wf_sig s -> wf_sig s' -> Forall wf_rr seen -> Forall wf_rr seen' ->
    sig_fields s' <> sig_fields s ->
    verify_signed_data public verify pk dalg s' (sign sk scratch) (signed_data s' seen') <> Ok tt.
Proof. exact altered_rrsig_field_rejected. Qed.
Print Assumptions C12_altered_rrsig_field_rejected.

Theorem C12_altered_rdata_rejected : forall (secret public : Type)
  (sign : secret -> bytes -> bytes) (verify : public -> bytes -> bytes -> bool) (sk : secret) (pk : public)
  k o t c ttl rrset inc exp s scratch,
  (forall m m', verify pk m' (sign sk m) = true -> m' = m) ->
  valid_abs o -> uniform o t c ttl rrset ->
  sign_rrset k rrset inc exp = Ok (s, scratch) ->
  forall dalg s' l1 r r' l2, resolver_view o t c rrset (l1 ++ r :: l2) ->
    wf_sig s -> wf_sig s' -> Forall wf_rr (l1 ++ r :: l2) -> Forall wf_rr (l1 ++ r' :: l2) ->
    r_rdata r' <> r_rdata r ->
    verify_signed_data public verify pk dalg s' (sign sk scratch) (signed_data s' (l1 ++ r' :: l2)) <> Ok tt.
Proof. exact altered_rdata_rejected. Qed.
Print Assumptions C12_altered_rdata_rejected.

Theorem C12_changed_record_count_rejected : forall (secret public : Type)
  (sign : secret -> bytes -> bytes) (verify : public -> bytes -> bytes -> bool) (sk : secret) (pk : public)
  k o t c ttl rrset inc exp s scratch,
  (forall m m', verify pk m' (sign sk m) = true -> m' = m) ->
  valid_abs o -> uniform o t c ttl rrset ->
  sign_rrset k rrset inc exp = Ok (s, scratch) ->
  forall dalg s' seen seen', resolver_view o t c rrset seen ->
    wf_sig s -> wf_sig s' -> Forall wf_rr seen -> Forall wf_rr seen' ->
    length seen' <> length rrset ->
    verify_signed_data public verify pk dalg s' (sign sk scratch) (signed_data s' seen') <> Ok tt.
Proof. exact changed_record_count_rejected. Qed.
Print Assumptions C12_changed_record_count_rejected.

Theorem C12_altered_type_class_owner_rejected : forall (secret public : Type)
  (sign : secret -> bytes -> bytes) (verify : public -> bytes -> bytes -> bool) (sk : secret) (pk : public)
  k o t c ttl rrset inc exp s scratch,
  (forall m m', verify pk m' (sign sk m) = true -> m' = m) ->
  valid_abs o -> uniform o t c ttl rrset ->
  sign_rrset k rrset inc exp = Ok (s, scratch) ->
  forall dalg s' seen seen' r', resolver_view o t c rrset seen ->
    wf_sig s -> wf_sig s' -> Forall wf_rr seen -> Forall wf_rr seen' ->
    In r' seen' ->
    (r_type r' <> t \/ r_class r' <> c \/
     canon (rfc_name (s_labels s') (r_owner r')) <> canon o) ->
    verify_signed_data public verify pk dalg s' (sign sk scratch) (signed_data s' seen') <> Ok tt.
Proof. exact altered_type_class_owner_rejected. Qed.
Print Assumptions C12_altered_type_class_owner_rejected.
