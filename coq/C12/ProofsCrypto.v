(* C12 -- sign then verify.  The signature scheme itself is NOT modelled:
   `sign` and `verify` are Section variables.  The only property used for the
   honest half is correctness (verify pk m (sign sk m) = true); the tamper
   half uses an explicit idealised binding hypothesis.  Both stay visible as
   premises of the exported theorems. *)
From Coq Require Import NArith List Bool Lia.
From DV Require Import Base.Outcome Base.Bytes Base.Lex Base.Names
  C12.Gen C12.Model C12.Spec C12.ProofsSort C12.ProofsSigned C12.ProofsInj.
Import ListNotations.
Local Open Scope N_scope.

Section Crypto.
  Variables secret public : Type.
  Variable sign : secret -> bytes -> bytes.
  Variable verify : public -> bytes -> bytes -> bool.   (* key, message, signature *)

  (* RrsigExt::verify_signed_data: Err 1 = InvalidData (algorithm mismatch),
     Err 2 = the backend rejects *)
  Definition verify_signed_data (pk : public) (dnskey_alg : N) (s : sigf) (signature data : bytes)
    : outcome unit :=
    if alg_mismatch (s_alg s) dnskey_alg then Err 1
    else if verify pk data signature then Ok tt else Err 2.

  Variable sk : secret.
  Variable pk : public.

  Lemma sign_then_verify :
    (forall m, verify pk m (sign sk m) = true) ->
    forall k o t c ttl rrset inc exp s scratch,
      valid_abs o -> uniform o t c ttl rrset ->
      sign_rrset k rrset inc exp = Ok (s, scratch) ->
      forall seen, resolver_view o t c rrset seen ->
        verify_signed_data pk (k_alg k) s (sign sk scratch) (signed_data s seen) = Ok tt.
  Proof.
    intros Hcorrect k o t c ttl rrset inc exp s scratch Hv Hu Hs seen Hseen.
    rewrite (validator_rebuilds_signer_input _ _ _ _ _ _ _ _ _ _ Hv Hu Hs seen Hseen).
    apply (sign_rrset_ok _ _ _ _ _ _ _ _ _ _ Hu) in Hs as (Hsig & _).
    unfold verify_signed_data, alg_mismatch. rewrite Hsig. cbn [s_alg]. rewrite N.eqb_refl. cbn [negb].
    rewrite andb_false_r. rewrite Hcorrect. reflexivity.
  Qed.

  (* idealised: a signature made over m verifies for no other message *)
  Lemma tamper_rejected :
    (forall m m', verify pk m' (sign sk m) = true -> m' = m) ->
    forall k o t c ttl rrset inc exp s scratch,
      valid_abs o -> uniform o t c ttl rrset ->
      sign_rrset k rrset inc exp = Ok (s, scratch) ->
      forall dalg s' seen seen',
        resolver_view o t c rrset seen ->
        wf_sig s -> wf_sig s' -> Forall wf_rr seen -> Forall wf_rr seen' ->
        covered s' seen' <> covered s seen ->
        verify_signed_data pk dalg s' (sign sk scratch) (signed_data s' seen') <> Ok tt.
  Proof.
    intros Hbind k o t c ttl rrset inc exp s scratch Hv Hu Hs dalg s' seen seen' Hseen W W' R R' Hne.
    pose proof (validator_rebuilds_signer_input _ _ _ _ _ _ _ _ _ _ Hv Hu Hs seen Hseen) as Hreb.
    unfold verify_signed_data.
    destruct (alg_mismatch (s_alg s') dalg); [discriminate|].
    destruct (verify pk (signed_data s' seen') (sign sk scratch)) eqn:E; [|discriminate].
    exfalso. apply Hbind in E. rewrite <- Hreb in E.
    exact (alteration_changes_input _ _ _ _ W' W R' R Hne E).
  Qed.

  (* idealised: the only signature that verifies for m under pk is the one made
     with sk (unique signatures); then any altered signature - a flipped bit, a
     truncation - is rejected, whatever the records *)
  Lemma altered_signature_rejected :
    (forall m sg, verify pk m sg = true -> sg = sign sk m) ->
    forall k o t c ttl rrset inc exp s scratch,
      valid_abs o -> uniform o t c ttl rrset ->
      sign_rrset k rrset inc exp = Ok (s, scratch) ->
      forall seen sg', resolver_view o t c rrset seen ->
        sg' <> sign sk scratch ->
        verify_signed_data pk (k_alg k) s sg' (signed_data s seen) <> Ok tt.
  Proof.
    intros Huniq k o t c ttl rrset inc exp s scratch Hv Hu Hs seen sg' Hseen Hne.
    rewrite (validator_rebuilds_signer_input _ _ _ _ _ _ _ _ _ _ Hv Hu Hs seen Hseen).
    unfold verify_signed_data.
    destruct (alg_mismatch (s_alg s) (k_alg k)); [discriminate|].
    destruct (verify pk scratch sg') eqn:E; [|discriminate].
    apply Huniq in E. contradiction.
  Qed.

  (* idealised: a signature made with sk verifies under no other public key *)
  Lemma foreign_key_rejected :
    (forall pk' m, verify pk' m (sign sk m) = true -> pk' = pk) ->
    forall k o t c ttl rrset inc exp s scratch,
      valid_abs o -> uniform o t c ttl rrset ->
      sign_rrset k rrset inc exp = Ok (s, scratch) ->
      forall seen pk' dalg, resolver_view o t c rrset seen ->
        pk' <> pk ->
        verify_signed_data pk' dalg s (sign sk scratch) (signed_data s seen) <> Ok tt.
  Proof.
    intros Hkey k o t c ttl rrset inc exp s scratch Hv Hu Hs seen pk' dalg Hseen Hne.
    rewrite (validator_rebuilds_signer_input _ _ _ _ _ _ _ _ _ _ Hv Hu Hs seen Hseen).
    unfold verify_signed_data.
    destruct (alg_mismatch (s_alg s) dalg); [discriminate|].
    destruct (verify pk' scratch (sign sk scratch)) eqn:E; [|discriminate].
    apply Hkey in E. contradiction.
  Qed.

  (* a key of another algorithm is refused before any cryptography *)
  Lemma algorithm_mismatch_rejected s signature data dalg :
    s_alg s <> dalg -> verify_signed_data pk dalg s signature data = Err 1.
  Proof.
    intros H. unfold verify_signed_data, alg_mismatch, verify_checks_algorithm_match.
    destruct (N.eqb_spec (s_alg s) dalg); [contradiction|]. reflexivity.
  Qed.
End Crypto.

(* non-vacuity: a toy scheme that satisfies both hypotheses *)
Example crypto_hypotheses_satisfiable :
  let sign := fun (_ : unit) (m : bytes) => m in
  let verify := fun (_ : unit) (m s : bytes) => match lex_cmp m s with Eq => true | _ => false end in
  (forall m, verify tt m (sign tt m) = true) /\
  (forall m m', verify tt m' (sign tt m) = true -> m' = m) /\
  (forall m sg, verify tt m sg = true -> sg = sign tt m) /\
  (forall pk' m, verify pk' m (sign tt m) = true -> pk' = tt).
Proof.
  cbv zeta. split.
  - intros m. rewrite lex_cmp_refl. reflexivity.
  - split; [|split].
    + intros m m' H. destruct (lex_cmp m' m) eqn:E; try discriminate. apply lex_cmp_eq. exact E.
    + intros m sg H. destruct (lex_cmp m sg) eqn:E; try discriminate. symmetry. apply lex_cmp_eq. exact E.
    + intros [] m _. reflexivity.
Qed.
