(* C12 -- the whole zone, NSEC3 variant of sign_zone (dnssec/sign/mod.rs,
   DenialConfig::Nsec3), end to end with C13: SortedRecords::from
   (C13.sorted_records) -> generate_nsec3s (C13) -> sorted_extend of the
   NSEC3PARAM record and the NSEC3 records -> sign_sorted_zone_records.
   The map from a hashed owner to the owner name of its NSEC3 record
   (base32hex label in front of the apex: C13.ModelLabel.nsec3_owner_name, with
   C18's encoder) is a parameter `owner_of`: everything below holds for any such
   map, and the digest H is C13's parameter. *)
From Coq Require Import NArith List Bool Lia Sorting.Sorted.
From DV Require C13.Model C13.ProofsDedup C13.ProofsN3d C13.ProofsN3e.
From DV Require Import Base.Outcome Base.Bytes Base.Lex Base.Names
  C12.Gen C12.ZoneModel C12.ProofsZone C12.ProofsZoneSorted C12.SortedModel C12.ProofsWholeZone.
Import ListNotations.
Local Open Scope N_scope.

Section WholeZone3.
  Variable H : bytes -> bytes.
  Variable owner_of : bytes -> name.

  (* NSEC3 RDATA: hash algorithm, flags, iterations, salt, next hashed owner, type bitmap *)
  Definition nsec3_srec (c : C13.Model.n3cfg) (r : C13.Model.nsec3) : srec :=
    ((owner_of (C13.Model.h_owner r), 50),
     (false, [C13.Model.c_alg c; C13.Model.c_flags c] ++ be16 (C13.Model.c_iters c) ++
             len (C13.Model.c_salt c) :: C13.Model.c_salt c ++
             len (C13.Model.h_next r) :: C13.Model.h_next r ++ C13.Model.h_types r)).
  Definition nsec3param_srec (apex : name) (c : C13.Model.n3cfg) : srec :=
    ((apex, 51), (false, [C13.Model.c_alg c; 0] ++ be16 (C13.Model.c_iters c) ++
                         len (C13.Model.c_salt c) :: C13.Model.c_salt c)).

  Definition signed_collection3 (apex : name) (c : C13.Model.n3cfg) (l : list srec) (n3 : list C13.Model.nsec3)
    : list zrec :=
    C13.Model.strip (so_extend (C13.Model.sorted_records l) (nsec3param_srec apex c :: map (nsec3_srec c) n3)).

  Definition whole_zone_nsec3 (apex : name) (c : C13.Model.n3cfg) (k : nat) (l : list srec)
    : outcome (list zrec * list zrec) :=
    do n3 <- C13.Model.generate_nsec3s H apex c (C13.Model.strip (C13.Model.sorted_records l));
    Ok (signed_collection3 apex c l n3, sign_zone apex k (signed_collection3 apex c l n3)).

  Lemma signed_collection3_types apex c l n3 o t :
    C13.Model.has_type (signed_collection3 apex c l n3) o t <->
    C13.Model.has_type (C13.Model.strip l) o t \/
    (t = 51 /\ name_eqb apex o = true) \/
    (t = 50 /\ exists r, In r n3 /\ name_eqb (owner_of (C13.Model.h_owner r)) o = true).
  Proof.
    unfold signed_collection3, so_extend.
    rewrite C13.ProofsDedup.sorted_records_types, strip_app, has_type_app, C13.ProofsDedup.sorted_records_types.
    split.
    - intros [Hl|(m & Hin & E)]; [left; exact Hl|right].
      unfold C13.Model.strip in Hin. cbn [map] in Hin. destruct Hin as [Hp|Hin].
      + unfold nsec3param_srec in Hp. cbn [fst] in Hp. injection Hp as <- <-. left. split; [reflexivity|exact E].
      + rewrite map_map in Hin. apply in_map_iff in Hin as (r & Hr & Hin).
        unfold nsec3_srec in Hr. cbn [fst] in Hr. injection Hr as <- <-.
        right. split; [reflexivity|]. exists r. split; assumption.
    - intros [Hl|[(-> & E)|(-> & r & Hin & E)]]; [left; exact Hl| |]; right.
      + exists apex. split; [left; reflexivity|exact E].
      + exists (owner_of (C13.Model.h_owner r)). split; [|exact E]. right.
        unfold C13.Model.strip. rewrite map_map. apply in_map_iff. exists r. split; [reflexivity|exact Hin].
  Qed.

  Lemma skip_before_sub apex z y : In y (skip_before apex z) -> In y z.
  Proof.
    induction z as [|[o' t'] r IH]; cbn [skip_before]; [intros []|].
    destruct (name_eqb apex o' || ends_with o' apex); [auto|]. intros Hy. right. apply IH. exact Hy.
  Qed.

  Lemma in_groups_in_zone apex z g x : In g (owner_groups (skip_before apex z)) -> In x g -> In x z.
  Proof.
    intros Hg Hx. apply (skip_before_sub apex). rewrite <- (og_concat (skip_before apex z)).
    apply in_concat. exists g. split; assumption.
  Qed.

  Lemma whole_zone_nsec3_signed apex c k l coll sigs :
    whole_zone_nsec3 apex c k l = Ok (coll, sigs) ->
    exists n3,
      C13.Model.generate_nsec3s H apex c (C13.Model.strip (C13.Model.sorted_records l)) = Ok n3 /\
      coll = signed_collection3 apex c l n3 /\
      (* the RRSIGs are those of the stateless RFC 4035 2.2 reading of the collection *)
      sigs = spec_zone apex k coll /\
      (* one per key *)
      sigs = flat_map (fun x => repeat x k) (sign_zone apex 1 coll) /\
      (* nothing signed that RFC 4035 2.2 forbids *)
      (forall o t, In (o, t) sigs -> t <> 46 /\ C13.Model.has_type coll o t) /\
      (* the NSEC3 chain (C13): one record per included name and per empty non-terminal, by hash;
         in hash order, closed into a ring *)
      (forall x, (exists r, In r n3 /\ C13.Model.h_owner r = x) <->
         (exists n, (C13.ProofsN3d.included apex (C13.Model.strip (C13.Model.sorted_records l)) (C13.ProofsN3e.optout_excl c) n \/
                     C13.ProofsN3d.ent3 apex (C13.Model.strip (C13.Model.sorted_records l)) (C13.ProofsN3e.optout_excl c) n) /\
                    x = C13.Model.nsec3_hash H n (C13.Model.c_iters c) (C13.Model.c_salt c))) /\
      (StronglySorted (fun a b => lex_cmp (C13.Model.h_owner a) (C13.Model.h_owner b) = Lt) n3 /\ n3 <> [] /\
       map C13.Model.h_next n3 = tl (map C13.Model.h_owner n3) ++ [hd [] (map C13.Model.h_owner n3)]) /\
      (* the collection is the input plus NSEC3PARAM at the apex plus one NSEC3 RRset per chain record *)
      (forall o t, C13.Model.has_type coll o t <->
         C13.Model.has_type (C13.Model.strip l) o t \/
         (t = 51 /\ name_eqb apex o = true) \/
         (t = 50 /\ exists r, In r n3 /\ name_eqb (owner_of (C13.Model.h_owner r)) o = true)).
  Proof.
    unfold whole_zone_nsec3.
    destruct (C13.Model.generate_nsec3s H apex c (C13.Model.strip (C13.Model.sorted_records l))) as [n3| | |] eqn:En;
      cbn [bind]; try discriminate.
    intros Hw. injection Hw as <- <-. exists n3. split; [reflexivity|]. split; [reflexivity|].
    assert (Hsorted : StronglySorted (fun a b : zrec => name_cmp (fst a) (fst b) <> Gt) (signed_collection3 apex c l n3)).
    { unfold signed_collection3, so_extend. exact (C13.ProofsDedup.sorted_records_sorted _). }
    split; [exact (sign_zone_is_rfc4035 apex k _ Hsorted)|].
    split; [unfold sign_zone; apply sign_groups_per_key|].
    split.
    { intros o t Hin. destruct (zone_signed_sound apex k _ o t Hin) as (H46 & g & Hg & Hog & _).
      split; [exact H46|]. exists o. split; [|apply C13.ProofsNames.name_eqb_refl].
      exact (in_groups_in_zone apex _ g (o, t) Hg Hog). }
    split; [exact (C13.ProofsN3e.nsec3_owners' H apex c _ n3 (C13.ProofsDedup.sorted_records_sorted l) En)|].
    split; [exact (C13.ProofsN3e.nsec3_sorted_closed' H apex c _ n3 En)|].
    intros o t. apply signed_collection3_types.
  Qed.

  (* completeness, as for NSEC: an in-zone owner group not at or below an earlier
     delegation gets RRSIGs for every admitted RRset - the NSEC3 RRsets (type 50
     at a hashed owner, which holds no NS) and NSEC3PARAM at the apex included *)
  Lemma whole_zone3_authoritative_rrsets_signed apex c k l coll sigs pre g post t :
    whole_zone_nsec3 apex c k l = Ok (coll, sigs) -> (0 < k)%nat ->
    filter (in_zoneb apex) (owner_groups coll) = pre ++ g :: post ->
    below_earlier_cut apex pre g = false ->
    In t (map snd g) ->
    rfc_signed_here (is_zone_cut apex g) (name_eqb (group_owner g) apex) t = true ->
    exists o, In (o, t) sigs.
  Proof.
    intros Hw Hk Hf Hb Ht Hr.
    destruct (whole_zone_nsec3_signed _ _ _ _ _ _ Hw) as (n3 & _ & _ & Hspec & _).
    assert (Hne : g <> []).
    { pose proof (og_nonempty coll) as Hn. rewrite Forall_forall in Hn. apply Hn.
      assert (Hin : In g (filter (in_zoneb apex) (owner_groups coll))) by (rewrite Hf; apply in_or_app; right; left; reflexivity).
      apply filter_In in Hin as [Hin _]. exact Hin. }
    destruct (spec_groups_complete apex k pre [] g post t Hk Hne Hb Ht Hr) as (o & Ho).
    exists o. rewrite Hspec. unfold spec_zone. rewrite Hf. exact Ho.
  Qed.

  Lemma nsec3_types_admitted_off_cuts at_apex : rfc_signed_here false at_apex 50 = true /\ rfc_signed_here false at_apex 51 = true.
  Proof. destruct at_apex; split; reflexivity. Qed.
End WholeZone3.

(* non-vacuity: a toy digest and a toy owner map; NSEC3PARAM and both NSEC3 RRsets are signed *)
Example whole_zone3_example :
  let apex := [[101;120]] in
  let s (o : name) (t : N) (d : bytes) : srec := (o, t, (false, d)) in
  exists coll,
    whole_zone_nsec3 (fun b => [N.of_nat (length b); hd 0 b]) (fun h => h :: apex) apex
      (C13.Model.mk_n3cfg false 1 0 0 [] false) 1
      [s ([[116]] ++ apex) 28 [2]; s apex 6 [4]; s apex 2 [6]] =
    Ok (coll, [(apex, 2); (apex, 6); (apex, 51); ([[4; 2]; [101; 120]], 50); ([[6; 1]; [101; 120]], 50);
               ([[116]; [101; 120]], 28)]).
Proof. cbv zeta. eexists. vm_compute. reflexivity. Qed.
