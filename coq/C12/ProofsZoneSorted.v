(* C12 -- zone signing from an arbitrary record list: SortedRecords::from (C13's
   model sorted_records = sort by Record::canonical_cmp, then dedup) feeding
   sign_sorted_zone_records, against the stateless RFC 4035 2.2 reading, with
   records outside the zone allowed anywhere in the input. *)
From Coq Require Import NArith List Bool Lia Sorting.Sorted.
From DV Require C13.Model C13.ProofsDedup.
From DV Require Import Base.Bytes Base.Lex Base.Names C12.Gen C12.ZoneModel C12.ProofsZone.
Import ListNotations.
Local Open Scope N_scope.

Definition in_zoneb (apex : name) (g : list zrec) : bool := ends_with (group_owner g) apex.

(* what the RFC reading says for a whole record list: only owner groups inside
   the zone count, each judged against the delegations before it *)
Definition spec_zone (apex : name) (k : nat) (recs : list zrec) : list zrec :=
  spec_groups apex k [] (filter (in_zoneb apex) (owner_groups recs)).

(* ---- ends_with and name equality ------------------------------------------------ *)
Lemma rprefix_lowers p : forall s s', map lowers s = map lowers s' -> rprefix p s = rprefix p s'.
Proof.
  induction p as [|x p IH]; intros s s' H; [reflexivity|].
  destruct s as [|y s]; destruct s' as [|y' s']; try discriminate; [reflexivity|].
  cbn [map] in H. injection H as Hy Hs. cbn [rprefix]. rewrite (IH _ _ Hs). f_equal.
  destruct (label_eqb y x) eqn:E1; destruct (label_eqb y' x) eqn:E2; try reflexivity.
  - apply label_eqb_spec in E1. assert (E : label_eqb y' x = true) by (apply label_eqb_spec; congruence). congruence.
  - apply label_eqb_spec in E2. assert (E : label_eqb y x = true) by (apply label_eqb_spec; congruence). congruence.
Qed.

Lemma ends_with_name_eq a b c : name_eqb a b = true -> ends_with a c = ends_with b c.
Proof.
  intros H. apply name_eqb_spec in H. unfold ends_with. apply rprefix_lowers.
  unfold canon in H. rewrite !map_rev. f_equal. exact H.
Qed.

Lemma name_eqb_sym a b : name_eqb a b = true -> name_eqb b a = true.
Proof. intros H. apply name_eqb_spec in H. apply name_eqb_spec. symmetry. exact H. Qed.

Lemma name_eqb_ends_with a b : name_eqb a b = true -> ends_with b a = true.
Proof. intros H. rewrite <- (ends_with_name_eq a b a H). apply ends_with_refl. Qed.

(* ---- owner_groups ------------------------------------------------------------------ *)
Lemma og_cons o t rest :
  owner_groups ((o, t) :: rest) =
  match owner_groups rest with
  | ((o', t') :: g) :: gs => if name_eqb o' o then ((o, t) :: (o', t') :: g) :: gs
                             else [(o, t)] :: ((o', t') :: g) :: gs
  | gs => [(o, t)] :: gs
  end.
Proof. reflexivity. Qed.

Lemma og_nonempty l : Forall (fun g => g <> []) (owner_groups l).
Proof.
  induction l as [|[o t] rest IH]; [constructor|]. rewrite og_cons.
  destruct (owner_groups rest) as [|[|[o' t'] g] gs].
  - repeat constructor; discriminate.
  - constructor; [discriminate|exact IH].
  - inversion IH; subst. destruct (name_eqb o' o); repeat constructor; try discriminate; assumption.
Qed.

Lemma og_owner_in l g : In g (owner_groups l) -> g <> [] -> In (group_owner g) (map fst l).
Proof.
  revert g; induction l as [|[o t] rest IH]; intros g Hg Hne; [destruct Hg|]. rewrite og_cons in Hg.
  destruct (owner_groups rest) as [|[|[o' t'] g0] gs] eqn:E.
  - destruct Hg as [<-|[]]. left. reflexivity.
  - destruct Hg as [<-|Hg]; [left; reflexivity|]. right. apply IH; assumption.
  - destruct (name_eqb o' o).
    + destruct Hg as [<-|Hg]; [left; reflexivity|]. right. apply IH; [right; exact Hg|exact Hne].
    + destruct Hg as [<-|Hg]; [left; reflexivity|]. right. apply IH; assumption.
Qed.

Lemma og_sorted l :
  StronglySorted (fun a b : zrec => name_cmp (fst a) (fst b) <> Gt) l ->
  StronglySorted nle (map group_owner (owner_groups l)).
Proof.
  induction 1 as [|[o t] rest Hs IH Hall]; [constructor|]. rewrite og_cons.
  assert (Hle : forall g, In g (owner_groups rest) -> g <> [] -> nle o (group_owner g)).
  { intros g Hg Hne. pose proof (og_owner_in rest g Hg Hne) as Hin.
    apply in_map_iff in Hin as (r & Hr & Hin). rewrite Forall_forall in Hall.
    specialize (Hall r Hin). cbn [fst] in Hall. unfold nle. rewrite <- Hr. exact Hall. }
  pose proof (og_nonempty rest) as Hne. rewrite Forall_forall in Hne.
  destruct (owner_groups rest) as [|[|[o' t'] g0] gs] eqn:E.
  - repeat constructor.
  - exfalso. apply (Hne [] (or_introl eq_refl)). reflexivity.
  - cbn [map group_owner] in IH. inversion IH as [|? ? IHs IHall]; subst.
    destruct (name_eqb o' o); cbn [map group_owner].
    + constructor; [exact IHs|]. apply Forall_forall. intros x Hx.
      apply in_map_iff in Hx as (g & <- & Hg). apply Hle; [right; exact Hg|apply Hne; right; exact Hg].
    + constructor; [constructor; assumption|]. apply Forall_forall. intros x Hx.
      destruct Hx as [<-|Hx].
      * apply (Hle ((o', t') :: g0)); [left; reflexivity|discriminate].
      * apply in_map_iff in Hx as (g & <- & Hg). apply Hle; [right; exact Hg|apply Hne; right; exact Hg].
Qed.

(* ---- skip_before at the level of owner groups -------------------------------------- *)
Fixpoint skip_groups (apex : name) (gs : list (list zrec)) : list (list zrec) :=
  match gs with
  | [] => []
  | g :: rest => if in_zoneb apex g then gs else skip_groups apex rest
  end.

Lemma skip_test apex o : name_eqb apex o || ends_with o apex = ends_with o apex.
Proof.
  destruct (name_eqb apex o) eqn:E; [|reflexivity]. cbn [orb]. symmetry. apply name_eqb_ends_with. exact E.
Qed.

Lemma og_skip apex l : owner_groups (skip_before apex l) = skip_groups apex (owner_groups l).
Proof.
  induction l as [|[o t] rest IH]; [reflexivity|]. cbn [skip_before]. rewrite skip_test.
  destruct (ends_with o apex) eqn:Ez.
  - rewrite og_cons. destruct (owner_groups rest) as [|[|[o' t'] g] gs]; cbn [skip_groups]; unfold in_zoneb; cbn [group_owner]; try (rewrite Ez; reflexivity).
    destruct (name_eqb o' o); cbn [skip_groups]; unfold in_zoneb; cbn [group_owner]; rewrite Ez; reflexivity.
  - rewrite IH, og_cons. destruct (owner_groups rest) as [|[|[o' t'] g] gs] eqn:E; cbn [skip_groups]; unfold in_zoneb; cbn [group_owner]; try (rewrite Ez; reflexivity).
    destruct (name_eqb o' o) eqn:En; cbn [skip_groups]; unfold in_zoneb; cbn [group_owner]; rewrite Ez; [|reflexivity].
    rewrite (ends_with_name_eq o' o apex En), Ez. reflexivity.
Qed.

(* ---- the signer stops at the first owner outside the zone ---------------------------- *)
Fixpoint take_zone (apex : name) (gs : list (list zrec)) : list (list zrec) :=
  match gs with
  | [] => []
  | g :: rest => if in_zoneb apex g then g :: take_zone apex rest else []
  end.

Lemma sign_groups_take_zone apex k gs : forall cut,
  Forall (fun g => g <> []) gs ->
  sign_groups apex k cut gs = sign_groups apex k cut (take_zone apex gs).
Proof.
  induction gs as [|g rest IH]; intros cut Hne; [reflexivity|].
  inversion Hne as [|? ? Hg Hrest]; subst. destruct g as [|[o t] g']; [contradiction|].
  cbn [take_zone]; unfold in_zoneb; cbn [group_owner]. destruct (ends_with o apex) eqn:Ez.
  - cbn [sign_groups]. rewrite Ez. cbn [negb].
    destruct (match cut with Some c => ends_with o c | None => false end); [apply IH; exact Hrest|].
    f_equal. apply IH. exact Hrest.
  - cbn [sign_groups]. rewrite Ez. reflexivity.
Qed.

(* on sorted input the zone is one block: what skip_before and the break keep is
   exactly the in-zone owner groups *)
Lemma filter_after_in_zone apex g rest :
  StronglySorted nle (map group_owner (g :: rest)) -> in_zoneb apex g = true ->
  filter (in_zoneb apex) rest = take_zone apex rest.
Proof.
  revert g; induction rest as [|h rest' IH]; intros g Hs Hg; [reflexivity|].
  cbn [filter take_zone]. cbn [map] in Hs. inversion Hs as [|? ? Hs' Hall]; subst.
  destruct (in_zoneb apex h) eqn:Eh; [f_equal; exact (IH h Hs' Eh)|].
  (* h is outside: nothing after it can be inside *)
  clear IH. inversion Hs' as [|? ? _ Hall']; subst.
  assert (Hgh : nle (group_owner g) (group_owner h)) by (inversion Hall; assumption).
  assert (Hout : forall x, In x rest' -> in_zoneb apex x = false).
  { intros x Hx. destruct (in_zoneb apex x) eqn:Ex; [|reflexivity]. exfalso.
    assert (Hhx : nle (group_owner h) (group_owner x)).
    { rewrite Forall_forall in Hall'. apply Hall'. apply in_map. exact Hx. }
    unfold in_zoneb in *. rewrite (subtree_is_contiguous apex _ _ _ Hg Ex Hgh Hhx) in Eh. discriminate. }
  clear - Hout. induction rest' as [|x r IHr]; [reflexivity|]. cbn [filter].
  rewrite (Hout x (or_introl eq_refl)). apply IHr. intros y Hy. apply Hout. right. exact Hy.
Qed.

Lemma filter_is_take_skip apex gs :
  StronglySorted nle (map group_owner gs) ->
  filter (in_zoneb apex) gs = take_zone apex (skip_groups apex gs).
Proof.
  induction gs as [|g rest IH]; intros Hs; [reflexivity|].
  cbn [filter skip_groups]. destruct (in_zoneb apex g) eqn:Eg.
  - cbn [take_zone]. rewrite Eg. f_equal. exact (filter_after_in_zone apex g rest Hs Eg).
  - apply IH. cbn [map] in Hs. inversion Hs; assumption.
Qed.

Lemma sorted_filter {A} (R : A -> A -> Prop) (f : A -> bool) l :
  StronglySorted R l -> StronglySorted R (filter f l).
Proof.
  induction 1 as [|x l Hs IH Hall]; cbn [filter]; [constructor|].
  destruct (f x); [|exact IH]. constructor; [exact IH|].
  apply Forall_forall. intros y Hy. apply filter_In in Hy as [Hy _]. rewrite Forall_forall in Hall. auto.
Qed.

Lemma sorted_map_filter apex gs :
  StronglySorted nle (map group_owner gs) -> StronglySorted nle (map group_owner (filter (in_zoneb apex) gs)).
Proof.
  induction gs as [|g rest IH]; cbn [map filter]; intros Hs; [constructor|].
  inversion Hs as [|? ? Hs' Hall]; subst. destruct (in_zoneb apex g); [|exact (IH Hs')].
  cbn [map]. constructor; [exact (IH Hs')|]. apply Forall_forall. intros y Hy.
  apply in_map_iff in Hy as (h & <- & Hh). apply filter_In in Hh as [Hh _].
  rewrite Forall_forall in Hall. apply Hall. apply in_map. exact Hh.
Qed.

(* the record list in canonical owner order, records outside the zone anywhere *)
Lemma sign_zone_is_rfc4035 apex k recs :
  StronglySorted (fun a b : zrec => name_cmp (fst a) (fst b) <> Gt) recs ->
  sign_zone apex k recs = spec_zone apex k recs.
Proof.
  intros Hs. unfold sign_zone, spec_zone. pose proof (og_sorted recs Hs) as Hgs.
  rewrite og_skip.
  rewrite sign_groups_take_zone.
  2:{ pose proof (og_nonempty recs) as Hne. clear Hgs. induction (owner_groups recs) as [|g gs IH]; [constructor|].
      inversion Hne; subst. cbn [skip_groups]. destruct (in_zoneb apex g); [constructor; assumption|apply IH; assumption]. }
  rewrite <- (filter_is_take_skip apex _ Hgs).
  apply zone_selection_is_rfc4035.
  - apply Forall_forall. intros g Hg. apply filter_In in Hg as [Hg Hz]. split; [|exact Hz].
    pose proof (og_nonempty recs) as Hne. rewrite Forall_forall in Hne. exact (Hne g Hg).
  - apply sorted_map_filter. exact Hgs.
Qed.

(* any record list, through SortedRecords::from (C13's model: sort, then dedup) *)
Lemma zone_signing_from_any_records apex k (l : list C13.Model.srec) :
  sign_zone apex k (C13.Model.strip (C13.Model.sorted_records l)) =
  spec_zone apex k (C13.Model.strip (C13.Model.sorted_records l)).
Proof. apply sign_zone_is_rfc4035. exact (C13.ProofsDedup.sorted_records_sorted l). Qed.

(* every selected RRset is signed once per key: the signer has no KSK/ZSK policy,
   all keys passed in sign everything that is signed (the apex DNSKEY/CDS/CDNSKEY
   RRsets are left to the caller, who signs them with sign_rrset and the key of
   its choice) *)
Lemma select_per_key at_cut name apex k g :
  select_rrsets at_cut name apex k g =
  flat_map (fun x => repeat x k) (select_rrsets at_cut name apex 1 g).
Proof.
  unfold select_rrsets. induction (type_runs g) as [|run rs IH]; cbn [flat_map]; [reflexivity|].
  rewrite flat_map_app. f_equal; [|exact IH]. destruct run as [|[o t] r]; [reflexivity|].
  destruct (rrset_signed at_cut name apex t); [|reflexivity].
  cbn [repeat flat_map]. rewrite app_nil_r. reflexivity.
Qed.

Lemma sign_groups_per_key apex k gs : forall cut,
  sign_groups apex k cut gs = flat_map (fun x => repeat x k) (sign_groups apex 1 cut gs).
Proof.
  induction gs as [|g rest IH]; intros cut; [reflexivity|]. cbn [sign_groups].
  destruct g as [|[o t] g']; [apply IH|].
  destruct (negb (ends_with o apex)); [destruct zs_out_of_zone_stops; [reflexivity|apply IH]|].
  destruct (match cut with Some c => ends_with o c | None => false end); [apply IH|].
  rewrite flat_map_app. f_equal; [apply select_per_key|apply IH].
Qed.

Definition c12_sign_zone_unsorted (apex : name) (k : nat) (l : list C13.Model.srec) : list zrec :=
  sign_zone apex k (C13.Model.strip (C13.Model.sorted_records l)).

Example unsorted_zone_example :
  let apex := [[101;120]] in
  let n l := l ++ apex in
  let s (o : name) (t : N) (d : bytes) : C13.Model.srec := (o, t, (false, d)) in
  sign_zone apex 1 (C13.Model.strip (C13.Model.sorted_records
    [s (n [[103]; [115]]) 1 [1]; s (n [[116]]) 28 [2]; s [[111]] 1 [9]; s (n [[115]]) 43 [3]; s apex 6 [4];
     s (n [[115]]) 2 [5]; s apex 2 [6]; s apex 6 [4]; s [[122]; [122]] 16 [7]])) =
  [(apex, 2); (apex, 6); (n [[115]], 43); (n [[116]], 28)].
Proof. vm_compute. reflexivity. Qed.
