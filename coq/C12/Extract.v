From Coq Require Import Extraction ExtrOcamlBasic NArith.
From DV Require Import Base.Outcome Base.Names C12.Gen C12.Model C12.Digest C12.KeyModel C12.ZoneModel C12.ProofsZoneSorted C12.SortedModel.
Extraction Language OCaml.
Extraction "../build/ml/C12/model.ml" c12_signed_data c12_sign_rrset c12_sign_sorted c12_key_tag
  c12_ds_digest c12_label_count c12_wce c12_name_of_wire c12_wire_of_name mk_sigf mk_rr mk_skey
  c12_rsa_parse c12_rsa_encode c12_key_size c12_sign_zone c12_sign_zone_unsorted c12_sorted_ops c12_alg_mismatch.
