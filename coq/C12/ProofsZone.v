(* C12 -- sign_sorted_zone_records: what is signed and what is not
   (RFC 4035 section 2.2 and the function's documented exclusions). *)
From Coq Require Import NArith List Bool Lia Sorting.Sorted.
From DV Require Import Base.Bytes Base.Lex Base.Names C12.Gen C12.ZoneModel.
Import ListNotations.
Local Open Scope N_scope.

Definition group_owner (g : list zrec) : name := match g with (o, _) :: _ => o | [] => [] end.

(* RFC 4035 2.2, per owner name:
   - "An RRSIG RR itself MUST NOT be signed"
   - "The NS RRset at a delegation point MUST NOT be signed" (only DS and NSEC
     are authoritative there)
   - the apex DNSKEY, CDS and CDNSKEY RRsets are left to the caller (sign_rrset) *)
Definition rfc_signed_here (at_cut at_apex : bool) (t : N) : bool :=
  if at_cut then (t =? 43) || (t =? 47)
  else negb (t =? 46) && negb (at_apex && ((t =? 48) || (t =? 59) || (t =? 60))).

Lemma rrset_signed_is_rfc at_cut name apex t :
  rrset_signed at_cut name apex t = rfc_signed_here at_cut (name_eqb name apex) t.
Proof.
  unfold rrset_signed, rfc_signed_here, zs_cut_type_a, zs_cut_type_b, zs_apex_skipped_types, zs_never_signed_type.
  destruct at_cut; [reflexivity|]. cbn [existsb].
  rewrite (N.eqb_sym t 48), (N.eqb_sym t 59), (N.eqb_sym t 60), orb_false_r.
  destruct (name_eqb name apex); destruct (48 =? t); destruct (59 =? t); destruct (60 =? t);
    cbn [orb andb negb]; try reflexivity; destruct (t =? 46); reflexivity.
Qed.

Lemma some_flag {A} (b : bool) (x : A) :
  match (if b then Some x else None) with Some _ => true | None => false end = b.
Proof. destruct b; reflexivity. Qed.

Lemma in_repeat {A} (x y : A) k : In x (repeat y k) -> x = y.
Proof. induction k; cbn [repeat]; [intros []|intros [->|H]; auto]. Qed.

Lemma type_runs_in g run : In run (type_runs g) -> forall r, In r run -> In r g.
Proof.
  revert run; induction g as [|[o t] rest IH]; cbn [type_runs]; intros run Hin r Hr; [destruct Hin|].
  destruct (type_runs rest) as [|[|[o' t'] r'] rs] eqn:E.
  - destruct Hin as [<-|[]]. destruct Hr as [<-|[]]. left; reflexivity.
  - destruct Hin as [<-|Hin]; [destruct Hr as [<-|[]]; left; reflexivity|]. right. eapply IH; eauto.
  - destruct (t' =? t).
    + destruct Hin as [<-|Hin].
      * destruct Hr as [<-|Hr]; [left; reflexivity|]. right. eapply (IH ((o', t') :: r')); [left; reflexivity|exact Hr].
      * right. eapply IH; [right; exact Hin|exact Hr].
    + destruct Hin as [<-|Hin]; [destruct Hr as [<-|[]]; left; reflexivity|]. right. eapply IH; eauto.
Qed.

(* what select_rrsets emits is a record of the group whose type passes the rule *)
Lemma select_sound at_cut name apex k g o t :
  In (o, t) (select_rrsets at_cut name apex k g) ->
  In (o, t) g /\ rrset_signed at_cut name apex t = true.
Proof.
  unfold select_rrsets. rewrite in_flat_map. intros (run & Hrun & Hin).
  destruct run as [|[o' t'] r]; [destruct Hin|].
  destruct (rrset_signed at_cut name apex t') eqn:E; [|destruct Hin].
  apply in_repeat in Hin. injection Hin as -> ->. split; [|exact E].
  eapply type_runs_in; [exact Hrun|left; reflexivity].
Qed.

(* every record type present in the group heads a run *)
Lemma type_runs_complete g t : In t (map snd g) -> exists o r, In ((o, t) :: r) (type_runs g).
Proof.
  induction g as [|[o1 t1] rest IH]; cbn [map type_runs]; [intros []|].
  intros [Ht|Ht].
  - cbn [snd] in Ht. subst t1. destruct (type_runs rest) as [|[|[o' t'] r'] rs].
    + exists o1, []. left; reflexivity.
    + exists o1, []. left; reflexivity.
    + destruct (t' =? t); [exists o1, ((o', t') :: r')|exists o1, []]; left; reflexivity.
  - destruct (IH Ht) as (o & r & Hin). destruct (type_runs rest) as [|[|[o' t'] r'] rs] eqn:E; [destruct Hin| |].
    + exists o, r. right. exact Hin.
    + destruct (N.eqb_spec t' t1) as [->|Hne].
      * destruct Hin as [Hh|Hin]; [|exists o, r; right; exact Hin].
        injection Hh as -> -> ->. exists o1, ((o, t) :: r). left; reflexivity.
      * exists o, r. right. exact Hin.
Qed.

Lemma select_complete at_cut name apex k g t :
  In t (map snd g) -> rrset_signed at_cut name apex t = true -> (0 < k)%nat ->
  exists o, In (o, t) (select_rrsets at_cut name apex k g).
Proof.
  intros Ht Hs Hk. destruct (type_runs_complete g t Ht) as (o & r & Hin).
  exists o. unfold select_rrsets. apply in_flat_map. exists ((o, t) :: r). split; [exact Hin|].
  rewrite Hs. destruct k; [lia|]. left; reflexivity.
Qed.

(* zone level: everything signed belongs to an in-zone owner group and passes the
   RFC rule for that group *)
Lemma sign_groups_sound apex k gs : forall cut o t,
  In (o, t) (sign_groups apex k cut gs) ->
  exists g, In g gs /\ In (o, t) g /\ ends_with (group_owner g) apex = true /\
            rfc_signed_here (is_zone_cut apex g) (name_eqb (group_owner g) apex) t = true.
Proof.
  induction gs as [|g rest IH]; intros cut o t Hin; cbn [sign_groups] in Hin; [destruct Hin|].
  destruct g as [|[o1 t1] g'].
  - destruct (IH _ _ _ Hin) as (g & Hg & H). exists g. split; [right; exact Hg|exact H].
  - destruct (ends_with o1 apex) eqn:Ez; cbn [negb] in Hin.
    + destruct (match cut with Some c => ends_with o1 c | None => false end).
      * destruct (IH _ _ _ Hin) as (g & Hg & H). exists g. split; [right; exact Hg|exact H].
      * apply in_app_or in Hin as [Hin|Hin].
        -- apply select_sound in Hin as [Hg Hs]. exists ((o1, t1) :: g').
           split; [left; reflexivity|]. split; [exact Hg|]. split; [exact Ez|].
           rewrite rrset_signed_is_rfc in Hs. cbn [group_owner]. rewrite some_flag in Hs. exact Hs.
        -- destruct (IH _ _ _ Hin) as (g & Hg & H). exists g. split; [right; exact Hg|exact H].
    + unfold zs_out_of_zone_stops in Hin. destruct Hin.
Qed.

Lemma zone_signed_sound apex k recs o t :
  In (o, t) (sign_zone apex k recs) ->
  t <> 46 /\
  exists g, In g (owner_groups (skip_before apex recs)) /\ In (o, t) g /\
            ends_with (group_owner g) apex = true /\
            (is_zone_cut apex g = true -> t = 43 \/ t = 47) /\
            (name_eqb (group_owner g) apex = true -> t <> 48 /\ t <> 59 /\ t <> 60).
Proof.
  intros Hin. apply sign_groups_sound in Hin as (g & Hg & Hog & Hz & Hr).
  unfold rfc_signed_here in Hr.
  assert (H46 : t <> 46).
  { destruct (is_zone_cut apex g).
    - apply orb_true_iff in Hr as [Hr|Hr]; apply N.eqb_eq in Hr; lia.
    - apply andb_true_iff in Hr as [Hr _]. apply negb_true_iff, N.eqb_neq in Hr. exact Hr. }
  split; [exact H46|]. exists g. repeat split; try assumption.
  - intros Hc. rewrite Hc in Hr. apply orb_true_iff in Hr as [Hr|Hr]; apply N.eqb_eq in Hr; auto.
  - destruct (is_zone_cut apex g) eqn:Hc.
    + apply orb_true_iff in Hr as [Hr|Hr]; apply N.eqb_eq in Hr; lia.
    + apply andb_true_iff in Hr as [_ Hr]. rewrite H in Hr. cbn [andb] in Hr.
      apply negb_true_iff in Hr. destruct (N.eqb_spec t 48); [discriminate|]. exact n.
  - destruct (is_zone_cut apex g) eqn:Hc.
    + apply orb_true_iff in Hr as [Hr|Hr]; apply N.eqb_eq in Hr; lia.
    + apply andb_true_iff in Hr as [_ Hr]. rewrite H in Hr. cbn [andb] in Hr.
      apply negb_true_iff in Hr. destruct (N.eqb_spec t 59); [rewrite orb_true_r in Hr; discriminate|]. exact n.
  - destruct (is_zone_cut apex g) eqn:Hc.
    + apply orb_true_iff in Hr as [Hr|Hr]; apply N.eqb_eq in Hr; lia.
    + apply andb_true_iff in Hr as [_ Hr]. rewrite H in Hr. cbn [andb] in Hr.
      apply negb_true_iff in Hr. destruct (N.eqb_spec t 60); [rewrite !orb_true_r in Hr; discriminate|]. exact n.
Qed.

(* a delegation: at the cut only what the rule for cuts allows, and nothing of
   the owner groups below it (glue, occluded data, nested delegations), whatever
   they contain *)
Lemma below_cut_skipped apex k c mid rest :
  Forall (fun g => g <> [] /\ ends_with (group_owner g) apex = true /\ ends_with (group_owner g) c = true) mid ->
  sign_groups apex k (Some c) (mid ++ rest) = sign_groups apex k (Some c) rest.
Proof.
  induction 1 as [|g mid (Hne & Hz & Hc) _ IH]; [reflexivity|].
  cbn [app sign_groups]. destruct g as [|[o t] g']; [contradiction|]. cbn [group_owner] in Hz, Hc.
  rewrite Hz, Hc. cbn [negb]. exact IH.
Qed.

Lemma delegation_signed apex k cut o t g' mid rest :
  ends_with o apex = true ->
  match cut with Some c => ends_with o c | None => false end = false ->
  is_zone_cut apex ((o, t) :: g') = true ->
  Forall (fun g => g <> [] /\ ends_with (group_owner g) apex = true /\ ends_with (group_owner g) o = true) mid ->
  sign_groups apex k cut (((o, t) :: g') :: mid ++ rest) =
  select_rrsets true o apex k ((o, t) :: g') ++ sign_groups apex k (Some o) rest.
Proof.
  intros Hz Hc Hcut Hmid. cbn [sign_groups]. rewrite Hz, Hc, Hcut. cbn [negb].
  f_equal. apply below_cut_skipped. exact Hmid.
Qed.

(* an authoritative owner group: every RRset the RFC rule admits gets one RRSIG
   per key *)
Lemma authoritative_group_signed apex k cut g rest t :
  g <> [] -> ends_with (group_owner g) apex = true ->
  match cut with Some c => ends_with (group_owner g) c | None => false end = false ->
  In t (map snd g) ->
  rfc_signed_here (is_zone_cut apex g) (name_eqb (group_owner g) apex) t = true -> (0 < k)%nat ->
  exists o, In (o, t) (sign_groups apex k cut (g :: rest)).
Proof.
  intros Hne Hz Hc Ht Hr Hk. destruct g as [|[o1 t1] g']; [contradiction|].
  cbn [group_owner] in *. cbn [sign_groups]. rewrite Hz, Hc. cbn [negb].
  destruct (select_complete (match (if is_zone_cut apex ((o1, t1) :: g') then Some o1 else None) with Some _ => true | None => false end)
              o1 apex k ((o1, t1) :: g') t Ht) as (o & Hin); [|exact Hk|].
  - rewrite rrset_signed_is_rfc, some_flag. exact Hr.
  - exists o. apply in_or_app. left. exact Hin.
Qed.

(* ---- canonical name order keeps a subtree together -------------------------------
   RFC 4034 6.1 sorts names by their labels from the right; the names at or below
   a name c then form an interval: whatever sorts between two of them is one of
   them.  This is what makes the single `cut` variable of the signer sufficient,
   and it discharges the hypothesis about `mid` in delegation_signed for
   canonically sorted input. *)
Lemma label_eqb_sym a b : label_eqb a b = label_eqb b a.
Proof.
  destruct (label_eqb a b) eqn:E1; destruct (label_eqb b a) eqn:E2; try reflexivity.
  - apply label_eqb_spec in E1. symmetry in E1. apply label_eqb_spec in E1. congruence.
  - apply label_eqb_spec in E2. symmetry in E2. apply label_eqb_spec in E2. congruence.
Qed.

Lemma rprefix_convex p : forall a x b,
  rprefix p a = true -> rprefix p b = true ->
  labels_cmp a x <> Gt -> labels_cmp x b <> Gt -> rprefix p x = true.
Proof.
  induction p as [|l p' IH]; intros a x b Ha Hb Hax Hxb; [reflexivity|].
  destruct a as [|la a']; [discriminate|]. destruct b as [|lb b']; [discriminate|].
  cbn [rprefix] in Ha, Hb. apply andb_true_iff in Ha as [Hla Ha]. apply andb_true_iff in Hb as [Hlb Hb].
  destruct x as [|lx x']; [cbn [labels_cmp] in Hax; congruence|].
  cbn [labels_cmp] in Hax, Hxb.
  assert (Eab : label_cmp la lb = Eq).
  { apply label_cmp_eq. apply label_eqb_spec. apply label_eqb_spec in Hla, Hlb. congruence. }
  assert (Eax : label_cmp la lx = Eq).
  { destruct (label_cmp la lx) eqn:E1; [reflexivity| |congruence].
    destruct (label_cmp lx lb) eqn:E2; [| |congruence].
    - rewrite (label_cmp_eq_subst_r la lx lb E2) in E1. congruence.
    - rewrite (label_cmp_trans _ _ _ _ E1 E2) in Eab. discriminate. }
  assert (Exb : label_cmp lx lb = Eq).
  { rewrite <- (label_cmp_eq_subst_l la lx lb Eax). exact Eab. }
  rewrite Eax in Hax. rewrite Exb in Hxb. cbn [rprefix]. apply andb_true_iff. split.
  - apply label_cmp_eq in Eax. rewrite label_eqb_sym in Eax.
    apply label_eqb_spec. apply label_eqb_spec in Eax, Hla. congruence.
  - exact (IH a' x' b' Ha Hb Hax Hxb).
Qed.

Lemma subtree_is_contiguous c a x b :
  ends_with a c = true -> ends_with b c = true ->
  name_cmp a x <> Gt -> name_cmp x b <> Gt -> ends_with x c = true.
Proof. unfold ends_with, name_cmp. apply rprefix_convex. Qed.

(* ---- the signer's single `cut` variable against a stateless reading of RFC 4035 2.2:
   an owner group is left alone when some EARLIER owner group is a delegation
   (not the apex, holds NS) and the group's owner is at or below that name;
   otherwise its RRsets are selected by the per-owner rule.  On input sorted in
   canonical name order the two agree. *)
Definition below_earlier_cut (apex : name) (seen : list (list zrec)) (g : list zrec) : bool :=
  existsb (fun c => is_zone_cut apex c && ends_with (group_owner g) (group_owner c)) seen.

Fixpoint spec_groups (apex : name) (k : nat) (seen gs : list (list zrec)) : list zrec :=
  match gs with
  | [] => []
  | g :: rest =>
      (if below_earlier_cut apex seen g then []
       else select_rrsets (is_zone_cut apex g) (group_owner g) apex k g)
      ++ spec_groups apex k (seen ++ [g]) rest
  end.

Lemma rprefix_refl p : rprefix p p = true.
Proof.
  induction p as [|l p IH]; [reflexivity|]. cbn [rprefix]. rewrite IH, andb_true_r.
  apply label_eqb_spec. reflexivity.
Qed.

Lemma rprefix_trans a : forall b c, rprefix a b = true -> rprefix b c = true -> rprefix a c = true.
Proof.
  induction a as [|x a IH]; intros b c Hab Hbc; [reflexivity|].
  destruct b as [|y b]; [discriminate|]. destruct c as [|z c]; [discriminate|].
  cbn [rprefix] in *. apply andb_true_iff in Hab as [H1 Hab]. apply andb_true_iff in Hbc as [H2 Hbc].
  apply andb_true_iff. split; [|exact (IH _ _ Hab Hbc)].
  apply label_eqb_spec. apply label_eqb_spec in H1, H2. congruence.
Qed.

Lemma ends_with_refl a : ends_with a a = true.
Proof. apply rprefix_refl. Qed.
Lemma ends_with_trans a b c : ends_with a b = true -> ends_with b c = true -> ends_with a c = true.
Proof. unfold ends_with. intros H1 H2. exact (rprefix_trans _ _ _ H2 H1). Qed.

Definition nle (a b : name) : Prop := name_cmp a b <> Gt.

Lemma sorted_app_mid {A} (R : A -> A -> Prop) l1 x l2 :
  StronglySorted R (l1 ++ x :: l2) -> (forall a, In a l1 -> R a x) /\ (forall b, In b l2 -> R x b).
Proof.
  induction l1 as [|y l1 IH]; cbn [app]; intros H.
  - inversion H as [|? ? _ Hall]; subst. split; [intros a []|]. rewrite Forall_forall in Hall. exact Hall.
  - inversion H as [|? ? Hs Hall]; subst. destruct (IH Hs) as [H1 H2]. split; [|exact H2].
    intros a [<-|Ha]; [|apply H1; exact Ha]. rewrite Forall_forall in Hall. apply Hall. apply in_or_app. right. left. reflexivity.
Qed.

Lemma below_earlier_cut_snoc apex seen g h :
  below_earlier_cut apex (seen ++ [g]) h =
  below_earlier_cut apex seen h || (is_zone_cut apex g && ends_with (group_owner h) (group_owner g)).
Proof. unfold below_earlier_cut. rewrite existsb_app. cbn [existsb]. rewrite orb_false_r. reflexivity. Qed.

Lemma sign_groups_is_spec apex k gs : forall cut seen,
  Forall (fun g => g <> [] /\ ends_with (group_owner g) apex = true) gs ->
  StronglySorted nle (map group_owner (seen ++ gs)) ->
  (forall c, cut = Some c -> In c (map group_owner seen)) ->
  (forall h, In h gs -> below_earlier_cut apex seen h =
                        match cut with Some c => ends_with (group_owner h) c | None => false end) ->
  sign_groups apex k cut gs = spec_groups apex k seen gs.
Proof.
  induction gs as [|g rest IH]; intros cut seen Hz Hs Hc Hinv; [reflexivity|].
  inversion Hz as [|? ? [Hne Hgz] Hz']; subst.
  destruct g as [|[o t] g']; [contradiction|]. cbn [group_owner] in Hgz.
  cbn [sign_groups spec_groups]. rewrite Hgz. cbn [negb].
  rewrite (Hinv _ (or_introl eq_refl)). cbn [group_owner].
  assert (Hs' : StronglySorted nle (map group_owner ((seen ++ [(o, t) :: g']) ++ rest))).
  { rewrite <- app_assoc. exact Hs. }
  rewrite map_app in Hs. cbn [map group_owner] in Hs. destruct (sorted_app_mid _ _ _ _ Hs) as [Hbefore Hafter].
  destruct (match cut with Some c => ends_with o c | None => false end) eqn:Eb.
  - (* below the current cut *)
    cbn [app]. apply IH; try assumption.
    + intros c Hcc. rewrite map_app. apply in_or_app. left. apply Hc. exact Hcc.
    + intros h Hh. rewrite below_earlier_cut_snoc, (Hinv h (or_intror Hh)). cbn [group_owner].
      destruct cut as [c|]; [|discriminate].
      destruct (ends_with (group_owner h) c) eqn:E; [reflexivity|]. cbn [orb].
      match goal with |- ?b = false => destruct b eqn:E3; [|reflexivity] end.
      apply andb_true_iff in E3 as [_ E2].
      rewrite (ends_with_trans _ _ _ E2 Eb) in E. discriminate.
  - (* not below a cut: this group is judged, and decides the new cut *)
    rewrite some_flag. f_equal. apply IH; try assumption.
    + intros c Hcc. rewrite map_app. apply in_or_app. right. cbn [map group_owner].
      revert Hcc. match goal with |- (if ?b then _ else _) = _ -> _ => destruct b end; [|discriminate].
      intros Hcc. injection Hcc as <-. left. reflexivity.
    + intros h Hh. rewrite below_earlier_cut_snoc, (Hinv h (or_intror Hh)). cbn [group_owner].
      assert (Hnot : match cut with Some c => ends_with (group_owner h) c | None => false end = false).
      { destruct cut as [c|]; [|reflexivity].
        destruct (ends_with (group_owner h) c) eqn:E; [|reflexivity].
        assert (Hco : nle c o) by (apply Hbefore, Hc; reflexivity).
        assert (Hoh : nle o (group_owner h)) by (apply Hafter, in_map; exact Hh).
        rewrite (subtree_is_contiguous c c o (group_owner h) (ends_with_refl c) E Hco Hoh) in Eb. discriminate. }
      rewrite Hnot. cbn [orb].
      match goal with |- ?b && _ = _ => destruct b; reflexivity end.
Qed.

Lemma zone_selection_is_rfc4035 apex k gs :
  Forall (fun g => g <> [] /\ ends_with (group_owner g) apex = true) gs ->
  StronglySorted nle (map group_owner gs) ->
  sign_groups apex k None gs = spec_groups apex k [] gs.
Proof.
  intros Hz Hs. apply sign_groups_is_spec; try assumption.
  - intros c Hc. discriminate.
  - intros h _. reflexivity.
Qed.

Example zone_example :
  let apex := [[101;120]] in
  let n l := l ++ apex in
  sign_zone apex 1
    [([[122]], 1); (apex, 2); (apex, 6); (apex, 46); (apex, 48);
     (n [[97]], 1); (n [[97]], 1); (n [[97]], 16); (n [[97]], 46);
     (n [[115]], 2); (n [[115]], 43); (n [[115]], 47);
     (n [[103]; [115]], 1); (n [[110]; [115]], 2); (n [[120]; [110]; [115]], 1);
     (n [[116]], 28); ([[111]; [114]; [103]], 1); (n [[117]], 1)] =
  [(apex, 2); (apex, 6); (n [[97]], 1); (n [[97]], 16); (n [[115]], 43); (n [[115]], 47); (n [[116]], 28)].
Proof. vm_compute. reflexivity. Qed.

Example zone_spec_example :
  let apex := [[101;120]] in
  let n l := l ++ apex in
  let gs := owner_groups [(apex, 2); (apex, 6); (n [[97]], 1); (n [[115]], 2); (n [[115]], 43);
                          (n [[103]; [115]], 1); (n [[110]; [115]], 2); (n [[116]], 28)] in
  spec_groups apex 1 [] gs = sign_groups apex 1 None gs /\
  spec_groups apex 1 [] gs = [(apex, 2); (apex, 6); (n [[97]], 1); (n [[115]], 43); (n [[116]], 28)].
Proof. vm_compute. split; reflexivity. Qed.
