(* Names.v -- domain names as lists of non-root labels (leftmost first).
   Wire encoding, validity (RFC 1035 limits), uncompressed decoding, the
   case-insensitive equality and the RFC 4034 section 6.1 canonical order. *)
From Coq Require Import NArith List Lia Bool ZArith.
From Coq Require Import ZifyN ZifyBool ZifyNat.
From DV Require Import Base.Bytes Base.Lex.
Import ListNotations.
Local Open Scope N_scope.

Definition label := bytes.
Definition name := list label.      (* without the root label *)

Definition valid_labelb (l : label) : bool :=
  negb (length l =? 0)%nat && (length l <=? 63)%nat && bytesb l.
Definition valid_label (l : label) : Prop :=
  (1 <= length l <= 63)%nat /\ wf_bytes l.

Lemma valid_labelb_spec l : valid_labelb l = true <-> valid_label l.
Proof.
  unfold valid_labelb, valid_label. rewrite !andb_true_iff, bytesb_spec, negb_true_iff.
  rewrite Nat.eqb_neq, Nat.leb_le. intuition lia.
Qed.

Definition wire_label (l : label) : bytes := N.of_nat (length l) :: l.
Definition wire_rel (n : name) : bytes := concat (map wire_label n).
Definition wire_abs (n : name) : bytes := wire_rel n ++ [0].

Fixpoint wire_len (n : name) : nat :=
  match n with [] => 0 | l :: n' => S (length l) + wire_len n' end.

Lemma wire_rel_length n : length (wire_rel n) = wire_len n.
Proof.
  unfold wire_rel. induction n as [|l n IH]; [reflexivity|].
  cbn [map concat wire_len]. rewrite app_length, IH. unfold wire_label. simpl. reflexivity.
Qed.

Lemma wire_abs_length n : length (wire_abs n) = S (wire_len n).
Proof. unfold wire_abs. rewrite app_length, wire_rel_length. simpl. lia. Qed.

Lemma wire_len_app a b : wire_len (a ++ b) = (wire_len a + wire_len b)%nat.
Proof. induction a; simpl; lia. Qed.

Lemma wire_rel_app a b : wire_rel (a ++ b) = wire_rel a ++ wire_rel b.
Proof. unfold wire_rel. rewrite map_app, concat_app. reflexivity. Qed.

Definition valid_rel (n : name) : Prop := Forall valid_label n /\ (wire_len n <= 254)%nat.
Definition valid_abs (n : name) : Prop := Forall valid_label n /\ (wire_len n <= 254)%nat.
(* an absolute name is its labels plus the root octet: total <= 255 *)
Definition valid_relb (n : name) : bool := forallb valid_labelb n && (wire_len n <=? 254)%nat.
Definition valid_absb := valid_relb.

Lemma valid_relb_spec n : valid_relb n = true <-> valid_rel n.
Proof.
  unfold valid_relb, valid_rel. rewrite andb_true_iff, Nat.leb_le, forallb_forall, Forall_forall.
  split; intros [H1 H2]; split; auto; intros x Hx; apply valid_labelb_spec; auto.
Qed.

(* ---- uncompressed decoding (no pointers): Name::from_octets / check_slice *)
Inductive flat_err := FShort | FBadLabel | FLong.

Fixpoint parse_flat (fuel : nat) (b : bytes) (acc : name) (used : nat)
  : option (name * bytes) + flat_err :=
  match fuel with
  | O => inr FShort
  | S fuel' =>
      match b with
      | [] => inr FShort
      | h :: t =>
          if h =? 0 then inl (Some (rev acc, t))
          else if 63 <? h then inr FBadLabel
          else
            let k := N.to_nat h in
            if (length t <? k)%nat then inr FShort
            else if (254 <? used + 1 + k)%nat then inr FLong
            else parse_flat fuel' (skipn k t) (firstn k t :: acc) (used + 1 + k)
      end
  end.

Definition decode_abs (b : bytes) : option (name * bytes) + flat_err :=
  parse_flat (S (length b)) b [] 0.

Lemma wire_abs_cons l n rest :
  wire_abs (l :: n) ++ rest = N.of_nat (length l) :: (l ++ (wire_abs n ++ rest)).
Proof.
  unfold wire_abs, wire_rel. cbn [map concat]. unfold wire_label at 1.
  rewrite <- !app_assoc. reflexivity.
Qed.

Lemma parse_flat_wire fuel n rest acc used :
  Forall valid_label n -> (used + wire_len n <= 254)%nat -> (length n < fuel)%nat ->
  parse_flat fuel (wire_abs n ++ rest) acc used = inl (Some (rev acc ++ n, rest)).
Proof.
  revert n acc used; induction fuel as [|fuel IH]; intros n acc used Hv Hl Hf; [lia|].
  destruct n as [|l n].
  - simpl. rewrite app_nil_r. reflexivity.
  - inversion Hv as [|? ? [Hlen Hb] Hv']; subst.
    rewrite wire_abs_cons. cbn [parse_flat].
    assert (E0 : (N.of_nat (length l) =? 0) = false) by (apply N.eqb_neq; lia).
    assert (E1 : (63 <? N.of_nat (length l)) = false) by (apply N.ltb_ge; lia).
    rewrite E0, E1, Nat2N.id.
    set (tl := wire_abs n ++ rest).
    assert (E2 : (length (l ++ tl) <? length l)%nat = false)
      by (apply Nat.ltb_ge; rewrite app_length; lia).
    rewrite E2. cbn [wire_len] in Hl.
    assert (E3 : (254 <? used + 1 + length l)%nat = false) by (apply Nat.ltb_ge; lia).
    rewrite E3.
    rewrite firstn_app, firstn_all, Nat.sub_diag, skipn_app, skipn_all, Nat.sub_diag.
    cbn [firstn skipn app]. rewrite app_nil_r. subst tl.
    rewrite IH; [|assumption|lia|simpl in Hf; lia].
    cbn [rev]. rewrite <- app_assoc. reflexivity.
Qed.

Theorem decode_wire_abs n rest : valid_abs n ->
  decode_abs (wire_abs n ++ rest) = inl (Some (n, rest)).
Proof.
  intros [Hv Hl]. unfold decode_abs.
  rewrite parse_flat_wire with (n := n); auto.
  rewrite app_length, wire_abs_length.
  assert (length n <= wire_len n)%nat by (clear; induction n; simpl; lia). lia.
Qed.

(* ---- equality, order, hash (Label: eq_ignore_ascii_case, cmp on lower-cased
   octets, hash feed = length octet then lower-cased octets) *)
Definition label_eqb (a b : label) : bool := eq_ci a b.
Definition label_cmp (a b : label) : comparison := lex_cmp (lowers a) (lowers b).
Definition label_hash_feed (l : label) : bytes := N.of_nat (length l) :: lowers l.

Definition canon (n : name) : name := map lowers n.

Lemma label_eqb_spec a b : label_eqb a b = true <-> lowers a = lowers b.
Proof. apply eq_ci_spec. Qed.

Lemma label_cmp_eq a b : label_cmp a b = Eq <-> label_eqb a b = true.
Proof. unfold label_cmp. rewrite lex_cmp_eq, label_eqb_spec. reflexivity. Qed.

Lemma label_cmp_antisym a b : label_cmp b a = CompOpp (label_cmp a b).
Proof. apply lex_cmp_antisym. Qed.

Lemma label_cmp_trans a b c o : label_cmp a b = o -> label_cmp b c = o -> label_cmp a c = o.
Proof. apply lex_cmp_trans. Qed.

Lemma label_eq_hash a b : label_eqb a b = true -> label_hash_feed a = label_hash_feed b.
Proof.
  intros H. apply label_eqb_spec in H. unfold label_hash_feed.
  rewrite H. f_equal. rewrite <- (lowers_length a), <- (lowers_length b), H. reflexivity.
Qed.

(* label-list comparison, first label most significant *)
Fixpoint labels_cmp (a b : list label) : comparison :=
  match a, b with
  | [], [] => Eq
  | [], _ :: _ => Lt
  | _ :: _, [] => Gt
  | x :: a', y :: b' =>
      match label_cmp x y with Eq => labels_cmp a' b' | c => c end
  end.

(* RFC 4034 6.1: sort by the rightmost label first; absence sorts first *)
Definition name_cmp (a b : name) : comparison := labels_cmp (rev a) (rev b).
Definition name_eqb (a b : name) : bool :=
  (length a =? length b)%nat && forallb (fun p => label_eqb (fst p) (snd p)) (combine a b).

Lemma name_eqb_spec a b : name_eqb a b = true <-> canon a = canon b.
Proof.
  unfold name_eqb, canon. revert b; induction a as [|x a IH]; intros [|y b]; simpl; split; intros H;
    try reflexivity; try discriminate.
  - apply andb_true_iff in H as [H1 H2]. apply andb_true_iff in H2 as [H2 H3].
    apply label_eqb_spec in H2. f_equal; [assumption|]. apply IH. apply andb_true_iff. split; assumption.
  - injection H as H1 H2. apply IH in H2. apply andb_true_iff in H2 as [H2 H3].
    apply andb_true_iff. split; [exact H2|]. apply andb_true_iff. split; [apply label_eqb_spec; assumption|assumption].
Qed.

Lemma labels_cmp_eq a b : labels_cmp a b = Eq <-> map lowers a = map lowers b.
Proof.
  revert b; induction a as [|x a IH]; intros [|y b]; simpl; split; intros H;
    try reflexivity; try discriminate.
  - destruct (label_cmp x y) eqn:E; try discriminate.
    apply label_cmp_eq, label_eqb_spec in E. f_equal; [assumption|apply IH; assumption].
  - injection H as H1 H2.
    assert (E : label_cmp x y = Eq) by (apply label_cmp_eq, label_eqb_spec; assumption).
    rewrite E. apply IH. assumption.
Qed.

Lemma labels_cmp_antisym a b : labels_cmp b a = CompOpp (labels_cmp a b).
Proof.
  revert b; induction a as [|x a IH]; intros [|y b]; simpl; try reflexivity.
  rewrite (label_cmp_antisym x y). destruct (label_cmp x y); simpl; auto.
Qed.

Lemma label_cmp_eq_subst_l x y z : label_cmp x y = Eq -> label_cmp x z = label_cmp y z.
Proof.
  intros H. apply label_cmp_eq, label_eqb_spec in H. unfold label_cmp. rewrite H. reflexivity.
Qed.

Lemma label_cmp_eq_subst_r x y z : label_cmp y z = Eq -> label_cmp x y = label_cmp x z.
Proof.
  intros H. apply label_cmp_eq, label_eqb_spec in H. unfold label_cmp. rewrite H. reflexivity.
Qed.

Lemma labels_cmp_trans a b c o :
  labels_cmp a b = o -> labels_cmp b c = o -> labels_cmp a c = o.
Proof.
  revert b c; induction a as [|x a IH]; intros [|y b] [|z c]; simpl; intros H1 H2; try congruence.
  destruct (label_cmp x y) eqn:E1; destruct (label_cmp y z) eqn:E2.
  - rewrite (label_cmp_eq_subst_l _ _ _ E1), E2. eapply IH; eauto.
  - rewrite (label_cmp_eq_subst_l _ _ _ E1), E2. congruence.
  - rewrite (label_cmp_eq_subst_l _ _ _ E1), E2. congruence.
  - rewrite <- (label_cmp_eq_subst_r x _ _ E2), E1. congruence.
  - rewrite (label_cmp_trans _ _ _ _ E1 E2). congruence.
  - congruence.
  - rewrite <- (label_cmp_eq_subst_r x _ _ E2), E1. congruence.
  - congruence.
  - rewrite (label_cmp_trans _ _ _ _ E1 E2). congruence.
Qed.

Theorem name_cmp_refl a : name_cmp a a = Eq.
Proof. unfold name_cmp. apply labels_cmp_eq. reflexivity. Qed.

Theorem name_cmp_antisym a b : name_cmp b a = CompOpp (name_cmp a b).
Proof. apply labels_cmp_antisym. Qed.

Theorem name_cmp_trans a b c o : name_cmp a b = o -> name_cmp b c = o -> name_cmp a c = o.
Proof. apply labels_cmp_trans. Qed.

Theorem name_cmp_eq_iff a b : name_cmp a b = Eq <-> name_eqb a b = true.
Proof.
  unfold name_cmp. rewrite labels_cmp_eq, name_eqb_spec. unfold canon.
  rewrite !map_rev. split; intros H.
  - apply (f_equal (@rev _)) in H. rewrite !rev_involutive in H. exact H.
  - f_equal. exact H.
Qed.

(* hash feed of a name: labels in order, then the root label's feed [0] *)
Definition name_hash_feed (n : name) : bytes := concat (map label_hash_feed n) ++ [0].

Theorem name_eq_hash a b : name_eqb a b = true -> name_hash_feed a = name_hash_feed b.
Proof.
  rewrite name_eqb_spec. unfold name_hash_feed, canon. revert b.
  induction a as [|x a IH]; intros [|y b] H; cbn [map concat] in *; try discriminate; [reflexivity|].
  injection H as H1 H2.
  rewrite (label_eq_hash x y) by (apply label_eqb_spec; assumption).
  rewrite <- !app_assoc. f_equal. apply IH. assumption.
Qed.

Example names_example :
  name_cmp [[97]; [98]] [[65]; [98]] = Eq /\ name_cmp [[122]; [97]] [[97]; [98]] = Lt /\
  decode_abs (wire_abs [[119;119;119]; [97]] ++ [1;2]) = inl (Some ([[119;119;119]; [97]], [1;2])).
Proof. vm_compute. auto. Qed.
