(* PName.v -- model of name parsing inside a message:
     base/name/parsed.rs  LabelType::parse, ParsedName::{parse_ref, skip},
                          ParsedNameIter::{get_label, next}
   over octseq's Parser {pos, len} (positions are N; `lim` is the parser's
   `len`, i.e. the end of the range it may read: the message length, or the
   end of the RDATA for a sub-parser made by parse_parser).
   Definitions only (executable); theorems about them live in C01. *)
From Coq Require Import NArith List Bool.
From DV Require Import Base.Outcome Base.Bytes Base.Names.
Import ListNotations.
Local Open Scope N_scope.

(* error classes (ParseError) *)
Definition E_SHORT : N := 1.        (* ParseError::ShortInput *)
Definition E_BADLABEL : N := 2.     (* Form "invalid label type" *)
Definition E_LONGNAME : N := 3.     (* Form "long domain name" *)
Definition E_COMPRESSION : N := 4.  (* Form "too many compression pointers" *)
(* panic sites *)
Definition P_INDEX : N := 10.       (* slice index out of bounds *)
Definition P_BADLABEL : N := 11.    (* ParsedNameIter::get_label panic!("bad label") *)
Definition P_UNDERFLOW : N := 12.   (* u16 `len -= compose_len` underflow *)

Definition get (m : bytes) (i : N) : option N := nth_error m (N.to_nat i).
Definition mlen (m : bytes) : N := N.of_nat (length m).
Definition slice (m : bytes) (from to : N) : bytes :=
  firstn (N.to_nat (to - from)) (skipn (N.to_nat from) m).

Inductive ltype := LNormal (n : N) | LCompressed (ptr : N).

(* LabelType::parse: parse_u8, then for 0xC0.. a second parse_u8.
   `res | ((ltype & 0x3F) << 8)` with res < 256 is res + 256 * (ltype mod 64)
   (bridging lemma ptr_bits_arith in C01). *)
Definition label_type_parse (m : bytes) (pos lim : N) : outcome (ltype * N) :=
  if lim <=? pos then Err E_SHORT else
  match get m pos with
  | None => Panic P_INDEX
  | Some b =>
      if b <=? 63 then Ok (LNormal b, pos + 1)
      else if 192 <=? b then
        if lim <=? pos + 1 then Err E_SHORT else
        match get m (pos + 1) with
        | None => Panic P_INDEX
        | Some c => Ok (LCompressed (c + 256 * (b mod 64)), pos + 2)
        end
      else Err E_BADLABEL
  end.

(* follow a chain of compression pointers; `after` is the parser position just
   behind the pointer that was read.  Returns the position of the first
   non-pointer label header (= the last pointer's target). *)
Fixpoint hops (fuel : nat) (m : bytes) (lim : N) (ptr after : N) : outcome N :=
  match fuel with
  | O => OutOfFuel
  | S fuel' =>
      if after - 2 <=? ptr then Err E_COMPRESSION      (* ptr >= parser.pos() - 2 *)
      else if lim <? ptr then Err E_SHORT              (* seek *)
      else
        match label_type_parse m ptr lim with
        | Ok (LCompressed ptr2, after2) => hops fuel' m lim ptr2 after2
        | Ok (LNormal _, _) => Ok ptr
        | Err e => Err e
        | Panic s => Panic s
        | OutOfFuel => OutOfFuel
        end
  end.

Record pname := mkPName {
  pn_pos : N;          (* where iteration starts *)
  pn_len : N;          (* uncompressed length incl. root *)
  pn_compressed : bool;
  pn_end : N           (* parser position after the name *)
}.

(* ParsedName::parse_ref.  endp = None while no pointer has been seen (phase
   one: the real parser advances); Some e afterwards (phase two works on a
   copy, the real parser stays behind the first pointer). *)
Fixpoint parse_labels (fuel : nat) (m : bytes) (lim cur name_len start : N)
         (compressed : bool) (endp : option N) : outcome pname :=
  match fuel with
  | O => OutOfFuel
  | S fuel' =>
      match label_type_parse m cur lim with
      | Err e => Err e
      | Panic s => Panic s
      | OutOfFuel => OutOfFuel
      | Ok (LNormal l, cur') =>
          if l =? 0 then
            Ok (mkPName start (name_len + 1) compressed
                        (match endp with None => cur' | Some e => e end))
          else if lim - cur' <? l then Err E_SHORT                 (* advance *)
          else
            let nl := name_len + l + 1 in
            if 255 <=? nl then Err E_LONGNAME
            else parse_labels fuel' m lim (cur' + l) nl start compressed endp
      | Ok (LCompressed ptr, cur') =>
          let endp' := match endp with None => Some cur' | Some e => Some e end in
          do target <- hops (S (S (N.to_nat ptr))) m lim ptr cur';
          if name_len =? 0
          then parse_labels fuel' m lim target name_len target false endp'
          else parse_labels fuel' m lim target name_len start true endp'
      end
  end.

Definition PARSE_FUEL : nat := 300.

Definition parse_ref (m : bytes) (pos lim : N) : outcome pname :=
  parse_labels PARSE_FUEL m lim pos 0 pos false None.

(* ParsedName::skip *)
Fixpoint skip_labels (fuel : nat) (m : bytes) (lim cur len : N) : outcome N :=
  match fuel with
  | O => OutOfFuel
  | S fuel' =>
      match label_type_parse m cur lim with
      | Err e => Err e
      | Panic s => Panic s
      | OutOfFuel => OutOfFuel
      | Ok (LNormal l, cur') =>
          if l =? 0 then (if 255 <? len + 1 then Err E_LONGNAME else Ok cur')
          else if lim - cur' <? l then Err E_SHORT
          else if 255 <? len + l + 1 then Err E_LONGNAME
          else skip_labels fuel' m lim (cur' + l) (len + l + 1)
      | Ok (LCompressed _, cur') => Ok cur'
      end
  end.
Definition skip_name (m : bytes) (pos lim : N) : outcome N :=
  skip_labels PARSE_FUEL m lim pos 0.

(* ParsedNameIter::get_label: unchecked; indexes the whole slice, follows
   pointers without any test, panics on a bad label head. *)
Fixpoint get_label (fuel : nat) (m : bytes) (pos : N) : outcome (label * N) :=
  match fuel with
  | O => OutOfFuel
  | S fuel' =>
      match get m pos with
      | None => Panic P_INDEX
      | Some b =>
          if b <=? 63 then
            let s := pos + 1 in let e := s + b in
            if mlen m <? e then Panic P_INDEX else Ok (slice m s e, e)
          else if 192 <=? b then
            match get m (pos + 1) with
            | None => Panic P_INDEX
            | Some c => get_label fuel' m (c + 256 * (b mod 64))
            end
          else Panic P_BADLABEL
      end
  end.

(* iterate all labels of a parsed name (ParsedNameIter::next until None);
   returns the non-root labels and whether the last label was the root *)
Fixpoint iter_labels (fuel : nat) (m : bytes) (pos len : N) (acc : name)
  : outcome (name * bool) :=
  match fuel with
  | O => OutOfFuel
  | S fuel' =>
      if len =? 0 then Ok (rev acc, false)
      else
        do r <- get_label (S (length m)) m pos;
        let '(l, pos') := r in
        let cl := N.of_nat (length l) + 1 in
        if len <? cl then Panic P_UNDERFLOW
        else if Nat.eqb (length l) 0
             then (if len - cl =? 0 then Ok (rev acc, true)
                   else iter_labels fuel' m pos' (len - cl) (l :: acc))
             else iter_labels fuel' m pos' (len - cl) (l :: acc)
  end.

Definition pname_labels (m : bytes) (p : pname) : outcome (name * bool) :=
  iter_labels PARSE_FUEL m (pn_pos p) (pn_len p) [].

(* parse a name at pos and return its labels: what a reader reconstructs *)
Definition decode_name (m : bytes) (pos lim : N) : outcome (name * N) :=
  do p <- parse_ref m pos lim;
  do r <- pname_labels m p;
  Ok (fst r, pn_end p).
