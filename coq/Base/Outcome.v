(* Outcome.v -- results of modelled Rust operations.
   Every Rust operation that can panic is an explicit [Panic] result in the
   models, every loop whose termination is not structural runs on fuel and
   returns [OutOfFuel] when it runs dry.  "Total, no panic, no hang" is hence a
   theorem to prove, not a by-product of Gallina's totality. *)
From Coq Require Import NArith List.
Import ListNotations.

Inductive outcome (A : Type) : Type :=
| Ok (a : A)
| Err (e : N)          (* error class, a small enum; see each model *)
| Panic (site : N)     (* Rust panic; the number names the site, see each model *)
| OutOfFuel.

Arguments Ok {A} a.
Arguments Err {A} e.
Arguments Panic {A} site.
Arguments OutOfFuel {A}.

Definition bind {A B} (x : outcome A) (f : A -> outcome B) : outcome B :=
  match x with
  | Ok a => f a
  | Err e => Err e
  | Panic s => Panic s
  | OutOfFuel => OutOfFuel
  end.

Notation "'do' x <- e ; f" := (bind e (fun x => f))
  (at level 200, x pattern, e at level 100, f at level 200, right associativity).

Definition is_ok {A} (x : outcome A) : bool :=
  match x with Ok _ => true | _ => false end.

Definition no_panic {A} (x : outcome A) : Prop :=
  match x with Panic _ => False | OutOfFuel => False | _ => True end.

Definition no_panicb {A} (x : outcome A) : bool :=
  match x with Panic _ => false | OutOfFuel => false | _ => true end.

Lemma no_panicb_spec {A} (x : outcome A) : no_panicb x = true <-> no_panic x.
Proof. destruct x; simpl; intuition congruence. Qed.

Lemma bind_ok {A B} (x : outcome A) (f : A -> outcome B) b :
  bind x f = Ok b -> exists a, x = Ok a /\ f a = Ok b.
Proof. destruct x; simpl; intros H; try discriminate. eauto. Qed.

Lemma bind_no_panic {A B} (x : outcome A) (f : A -> outcome B) :
  no_panic x -> (forall a, x = Ok a -> no_panic (f a)) -> no_panic (bind x f).
Proof. destruct x; simpl; auto. Qed.
