(* Lex.v -- lexicographic comparison of octet strings (Rust's [u8]::cmp /
   Iterator::cmp): first difference decides, a proper prefix is Less.
   Proved to be a total order; app lemma for equal-length prefixes. *)
From Coq Require Import NArith List Lia Bool.
Import ListNotations.
Local Open Scope N_scope.

Fixpoint lex_cmp (a b : list N) : comparison :=
  match a, b with
  | [], [] => Eq
  | [], _ :: _ => Lt
  | _ :: _, [] => Gt
  | x :: a', y :: b' =>
      match x ?= y with
      | Eq => lex_cmp a' b'
      | c => c
      end
  end.

Lemma lex_cmp_refl a : lex_cmp a a = Eq.
Proof. induction a as [|x a IH]; simpl; [reflexivity|]. rewrite N.compare_refl. exact IH. Qed.

Lemma lex_cmp_eq a b : lex_cmp a b = Eq <-> a = b.
Proof.
  revert b; induction a as [|x a IH]; intros [|y b]; simpl; split; intros H;
    try reflexivity; try discriminate.
  - destruct (N.compare_spec x y) as [E|L|G]; try discriminate.
    subst. f_equal. apply IH. exact H.
  - injection H as -> ->. rewrite N.compare_refl. apply IH. reflexivity.
Qed.

Lemma lex_cmp_antisym a b : lex_cmp b a = CompOpp (lex_cmp a b).
Proof.
  revert b; induction a as [|x a IH]; intros [|y b]; simpl; try reflexivity.
  rewrite (N.compare_antisym x y).
  destruct (x ?= y); simpl; auto.
Qed.

Lemma lex_cmp_trans a b c o :
  lex_cmp a b = o -> lex_cmp b c = o -> lex_cmp a c = o.
Proof.
  revert b c; induction a as [|x a IH]; intros [|y b] [|z c]; simpl; intros H1 H2;
    try congruence.
  destruct (N.compare_spec x y) as [E1|L1|G1]; destruct (N.compare_spec y z) as [E2|L2|G2];
    subst; try congruence.
  - rewrite N.compare_refl. eapply IH; eauto.
  - destruct (N.compare_spec y z); try lia; congruence.
  - destruct (N.compare_spec y z); try lia; congruence.
  - destruct (N.compare_spec x z); try lia; congruence.
  - destruct (N.compare_spec x z); try lia; congruence.
  - destruct (N.compare_spec x z); try lia; congruence.
  - destruct (N.compare_spec x z); try lia; congruence.
Qed.

Lemma lex_cmp_lt_trans a b c :
  lex_cmp a b = Lt -> lex_cmp b c = Lt -> lex_cmp a c = Lt.
Proof. apply lex_cmp_trans. Qed.

(* equal-length prefixes: comparison of concatenations is field-wise *)
Lemma lex_cmp_app a1 a2 b1 b2 : length a1 = length a2 ->
  lex_cmp (a1 ++ b1) (a2 ++ b2) =
    match lex_cmp a1 a2 with Eq => lex_cmp b1 b2 | c => c end.
Proof.
  revert a2; induction a1 as [|x a1 IH]; intros [|y a2] Hl; simpl in *; try discriminate.
  - reflexivity.
  - destruct (x ?= y); auto.
Qed.

Lemma lex_cmp_app_same p a b : lex_cmp (p ++ a) (p ++ b) = lex_cmp a b.
Proof. rewrite lex_cmp_app by reflexivity. rewrite lex_cmp_refl. reflexivity. Qed.

(* generic: comparison chains *)
Definition then_cmp (c : comparison) (d : comparison) : comparison :=
  match c with Eq => d | _ => c end.

Lemma then_cmp_opp c d : CompOpp (then_cmp c d) = then_cmp (CompOpp c) (CompOpp d).
Proof. destruct c; reflexivity. Qed.
