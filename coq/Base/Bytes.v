(* Bytes.v -- octets as N, octet strings as list N; big-endian helpers,
   ASCII lower-casing; option-returning list access (no defaulted nth). *)
From Coq Require Import NArith List Lia Bool ZArith.
From Coq Require Import ZifyN ZifyBool ZifyNat.
Import ListNotations.
Local Open Scope N_scope.
Ltac Zify.zify_post_hook ::= Z.div_mod_to_equations.

Definition bytes := list N.

Definition byteb (b : N) : bool := b <? 256.
Definition bytesb (l : bytes) : bool := forallb byteb l.
Definition wf_bytes (l : bytes) : Prop := Forall (fun b => b < 256) l.

Lemma bytesb_spec l : bytesb l = true <-> wf_bytes l.
Proof.
  unfold bytesb, wf_bytes, byteb. rewrite forallb_forall, Forall_forall.
  split; intros H x Hx; specialize (H x Hx); lia.
Qed.

Lemma wf_bytes_app a b : wf_bytes (a ++ b) <-> wf_bytes a /\ wf_bytes b.
Proof. unfold wf_bytes. apply Forall_app. Qed.

(* u8::to_ascii_lowercase *)
Definition lower (b : N) : N := if (65 <=? b) && (b <=? 90) then b + 32 else b.
Definition lowers (l : bytes) : bytes := map lower l.

Lemma lower_idem b : lower (lower b) = lower b.
Proof. unfold lower. destruct ((65 <=? b) && (b <=? 90)) eqn:E.
  - destruct ((65 <=? b + 32) && (b + 32 <=? 90)) eqn:E2; lia.
  - rewrite E. reflexivity.
Qed.

Lemma lower_byte b : b < 256 -> lower b < 256.
Proof. unfold lower. destruct ((65 <=? b) && (b <=? 90)) eqn:E; lia. Qed.

Lemma lowers_idem l : lowers (lowers l) = lowers l.
Proof. unfold lowers. rewrite map_map. apply map_ext. apply lower_idem. Qed.

Lemma lowers_length l : length (lowers l) = length l.
Proof. apply map_length. Qed.

Lemma lowers_app a b : lowers (a ++ b) = lowers a ++ lowers b.
Proof. apply map_app. Qed.

(* [u8]::eq_ignore_ascii_case *)
Fixpoint eq_ci (a b : bytes) : bool :=
  match a, b with
  | [], [] => true
  | x :: a', y :: b' => (lower x =? lower y) && eq_ci a' b'
  | _, _ => false
  end.

Lemma eq_ci_spec a b : eq_ci a b = true <-> lowers a = lowers b.
Proof.
  revert b; induction a as [|x a IH]; intros [|y b]; simpl; split; intros H;
    try reflexivity; try discriminate.
  - apply andb_true_iff in H as [H1 H2]. apply N.eqb_eq in H1. apply IH in H2. congruence.
  - injection H as H1 H2. apply andb_true_iff. split; [apply N.eqb_eq; assumption | apply IH; assumption].
Qed.

(* big endian *)
Definition be16 (n : N) : bytes := [n / 256; n mod 256].
Definition be32 (n : N) : bytes :=
  [n / 16777216; (n / 65536) mod 256; (n / 256) mod 256; n mod 256].
Definition of_be16 (a b : N) : N := a * 256 + b.
Definition of_be32 (a b c d : N) : N := ((a * 256 + b) * 256 + c) * 256 + d.

Lemma be16_roundtrip n : n < 65536 -> of_be16 (n / 256) (n mod 256) = n.
Proof. unfold of_be16. intros. lia. Qed.

Lemma of_be16_be16 a b : a < 256 -> b < 256 -> be16 (of_be16 a b) = [a; b].
Proof. unfold be16, of_be16. intros. f_equal; [|f_equal]; lia. Qed.

Lemma be16_wf n : n < 65536 -> wf_bytes (be16 n).
Proof. unfold be16, wf_bytes. intros. repeat constructor; lia. Qed.

Lemma be32_roundtrip n : n < 4294967296 ->
  of_be32 (n / 16777216) ((n / 65536) mod 256) ((n / 256) mod 256) (n mod 256) = n.
Proof. unfold of_be32. intros. lia. Qed.

Lemma be32_wf n : n < 4294967296 -> wf_bytes (be32 n).
Proof. unfold be32, wf_bytes. intros. repeat constructor; lia. Qed.

(* list access *)
Definition nth_opt {A} (l : list A) (i : nat) : option A := nth_error l i.
Definition drop {A} (n : nat) (l : list A) : list A := skipn n l.
Definition take {A} (n : nat) (l : list A) : list A := firstn n l.
Definition len (l : bytes) : N := N.of_nat (length l).

Lemma take_drop {A} n (l : list A) : take n l ++ drop n l = l.
Proof. apply firstn_skipn. Qed.

Lemma drop_app_length {A} (a b : list A) : drop (length a) (a ++ b) = b.
Proof. unfold drop. rewrite skipn_app, skipn_all, Nat.sub_diag. reflexivity. Qed.

Lemma take_app_length {A} (a b : list A) : take (length a) (a ++ b) = a.
Proof. unfold take. rewrite firstn_app, firstn_all, Nat.sub_diag. simpl. apply app_nil_r. Qed.
