From Coq Require Import Extraction ExtrOcamlBasic NArith.
From DV Require Import Base.Outcome C10.Gen C10.Model.
Extraction Language OCaml.
Extraction "../build/ml/C10/model.ml" c10_run c10_apply c10_transfers c10_check c10_diff c10_diff_good c10_diff_applies c10_diff_applies_all c10_sender_axfr c10_sender_ixfr c10_client c10_decide.
