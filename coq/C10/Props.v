(* C10 -- property theorems only.  Proofs live in C10/Proofs1.v, Proofs2.v. *)
From Coq Require Import NArith List Permutation.
From DV Require Import Base.Outcome C10.Gen C10.Model C10.Proofs1 C10.Proofs2 C10.Proofs3 C10.Proofs4 C10.Proofs5 C10.Proofs6 C10.Proofs7 C10.Proofs8 C10.Proofs9 C10.Proofs10 C10.ProofsK.
From DV Require C09.Gen C09.Model C09.Proofs C17.Gen C17.Model.
Import ListNotations.
Local Open Scope N_scope.

Theorem C10_axfr_fidelity : forall s ks ms cs z0,
  packs 252 ms cs -> concat cs = axfr_seq s ks ->
  exists us st, run None ms = (us, SDone) /\ c10_apply z0 us = Ok st /\
    u_fin st = true /\ u_visible st = Soa s :: rev (map Other ks) /\
    Permutation (u_visible st) (Soa s :: map Other ks).
Proof. exact (axfr_fidelity updater_checks_batch_soa). Qed.
Print Assumptions C10_axfr_fidelity.

Theorem C10_ixfr_fidelity : forall snew ds old new ms cs,
  (forall d, In d ds -> d_old d <> snew) ->
  chain_rel old ds new -> (forall s, In (Soa s) new <-> s = snew) ->
  chain_ok updater_checks_batch_soa ds old ->
  packs 251 ms cs -> concat cs = ixfr_seq snew ds -> ~ lone_soa_first Ixfr cs ->
  exists us st, run None ms = (us, SDone) /\ c10_apply old us = Ok st /\
    u_fin st = true /\ zeq (u_visible st) new.
Proof. exact (ixfr_fidelity updater_checks_batch_soa). Qed.
Print Assumptions C10_ixfr_fidelity.

Theorem C10_fallback_fidelity : forall s k ks ms cs z0,
  packs 251 ms cs -> concat cs = axfr_seq s (k :: ks) -> ~ lone_soa_first Ixfr cs ->
  exists us st, run None ms = (us, SDone) /\ c10_apply z0 us = Ok st /\
    u_fin st = true /\ Permutation (u_visible st) (Soa s :: map Other (k :: ks)).
Proof. exact (fallback_fidelity updater_checks_batch_soa). Qed.
Print Assumptions C10_fallback_fidelity.

Theorem C10_split_irrelevant : forall ty ms1 cs1 ms2 cs2,
  packs (qtype_of ty) ms1 cs1 -> packs (qtype_of ty) ms2 cs2 ->
  ~ lone_soa_first ty cs1 -> ~ lone_soa_first ty cs2 ->
  concat cs1 = concat cs2 ->
  fst (run None ms1) = fst (run None ms2) /\
  (snd (run None ms1) = snd (run None ms2) \/
   exists e1 e2, snd (run None ms1) = SErr e1 /\ snd (run None ms2) = SErr e2).
Proof. exact split_irrelevant. Qed.
Print Assumptions C10_split_irrelevant.

Theorem C10_lone_soa_first_message_refuted :
  exists ms cs, packs 251 ms cs /\ lone_soa_first Ixfr cs /\
    snd (flat_run Ixfr (concat cs)) = SDone /\ snd (run None ms) = SErr E_SingleSoa.
Proof. exact lone_soa_first_message_refuted. Qed.
Print Assumptions C10_lone_soa_first_message_refuted.

Theorem C10_reject_total_interpreter : forall ms st s, snd (run st ms) <> SPanic s.
Proof. exact run_no_panic. Qed.
Print Assumptions C10_reject_total_interpreter.

Theorem C10_reject_total_updater : forall us z0, no_panic (c10_apply z0 us).
Proof. intros us z0. apply (u_apply_all_no_panic updater_checks_batch_soa). intros _. split; reflexivity. Qed.
Print Assumptions C10_reject_total_updater.

Theorem C10_reject_bad_header : forall st m,
  st_finished st = false -> ~ good_hdr (is_first st) (m_hdr m) ->
  interpret_response st m = (st, IErr E_NotValid).
Proof. exact reject_header. Qed.
Print Assumptions C10_reject_bad_header.

Theorem C10_check_response_spec : forall first h,
  check_response first h = false <-> good_hdr first h.
Proof. exact check_response_spec. Qed.
Print Assumptions C10_check_response_spec.

Theorem C10_reject_wrong_question : forall m,
  ty_of_qtype (h_qtype (m_hdr m)) = None ->
  interpret_response None m = (None, IErr E_NotValid).
Proof. exact reject_wrong_question. Qed.
Print Assumptions C10_reject_wrong_question.

Theorem C10_reject_first_not_soa : forall m k rest,
  m_items m = Rec (Other k) :: rest ->
  interpret_response None m = (None, IErr E_NotValid).
Proof. exact reject_first_not_soa. Qed.
Print Assumptions C10_reject_first_not_soa.

Theorem C10_reject_after_done : forall st m ms,
  st_finished st = true -> run st (m :: ms) = ([], SErr E_Finished).
Proof. exact run_after_done. Qed.
Print Assumptions C10_reject_after_done.

Theorem C10_no_partial_visible : forall us st st',
  u_apply_all updater_checks_batch_soa us st = Ok st' -> forallb (fun u => negb (is_commit u)) us = true ->
  u_visible st' = u_visible st.
Proof. exact (u_apply_all_visible updater_checks_batch_soa). Qed.
Print Assumptions C10_no_partial_visible.

Theorem C10_reject_truncated_axfr : forall ty s ks ms cs z0,
  packs (qtype_of ty) ms cs -> concat cs = Soa s :: map Other ks ->
  (ty = Ixfr -> ks <> []) -> ~ lone_soa_first ty cs ->
  exists us st, run None ms = (us, SIncomplete) /\ c10_apply z0 us = Ok st /\
    u_fin st = false /\ u_visible st = z0.
Proof. exact (reject_truncated_axfr updater_checks_batch_soa). Qed.
Print Assumptions C10_reject_truncated_axfr.

Theorem C10_reject_mismatched_close : forall ty s s' ks ms cs z0,
  s' <> s ->
  packs (qtype_of ty) ms cs -> concat cs = Soa s :: map Other ks ++ [Soa s'] ->
  (ty = Ixfr -> ks <> []) -> ~ lone_soa_first ty cs ->
  exists us st, run None ms = (us, SIncomplete) /\ c10_apply z0 us = Ok st /\
    u_fin st = false /\ u_visible st = z0.
Proof. exact (reject_mismatched_close updater_checks_batch_soa). Qed.
Print Assumptions C10_reject_mismatched_close.

Theorem C10_axfr_drop_middle_undetectable : forall s ks1 ks2 ks3 ms cs z0,
  packs 252 ms cs -> concat cs = axfr_seq s (ks1 ++ ks3) ->
  exists us st, run None ms = (us, SDone) /\ c10_apply z0 us = Ok st /\
    Permutation (u_visible st) (Soa s :: map Other (ks1 ++ ks3)) /\
    (ks2 <> [] -> ~ Permutation (u_visible st) (Soa s :: map Other (ks1 ++ ks2 ++ ks3))).
Proof. exact (axfr_drop_middle_undetectable updater_checks_batch_soa). Qed.
Print Assumptions C10_axfr_drop_middle_undetectable.

Theorem C10_diff_applies_refuted_ttl_change : exists pub ops, ~ diff_applies pub ops.
Proof. exact diff_applies_refuted_ttl_change. Qed.
Print Assumptions C10_diff_applies_refuted_ttl_change.

Theorem C10_diff_applies_refuted_reorder : exists pub ops, ~ diff_applies pub ops.
Proof. exact diff_applies_refuted_reorder. Qed.
Print Assumptions C10_diff_applies_refuted_reorder.

Theorem C10_diff_applies_refuted_delete_all : exists pub ops, ~ diff_applies pub ops.
Proof. exact diff_applies_refuted_delete_all. Qed.
Print Assumptions C10_diff_applies_refuted_delete_all.

Theorem C10_single_update_diff_applies : forall k t old new,
  old <> [] -> new <> [] ->
  (exists x, In x old /\ ~ In x new) -> (exists x, In x new /\ ~ In x old) ->
  let st := update_rrset k (t, new) (d_start [(k, (t, old))]) in
  same_rrset (s_get k (apply_zdiff [(k, (t, old))] (ds_rem st, ds_add st))) (Some (t, new)).
Proof. exact single_update_diff_applies. Qed.
Print Assumptions C10_single_update_diff_applies.

Theorem C10_abort_then_axfr : forall us1 z0 st1 s ks,
  u_apply_all updater_checks_batch_soa us1 (u_start z0) = Ok st1 ->
  c10_transfers z0 [us1; axfr_upds s ks] = Ok [u_visible st1; Soa s :: rev (map Other ks)].
Proof. exact (abort_then_axfr updater_checks_batch_soa). Qed.
Print Assumptions C10_abort_then_axfr.

Theorem C10_abort_then_ixfr : forall us1 z0 st1 snew ds,
  u_apply_all updater_checks_batch_soa us1 (u_start z0) = Ok st1 -> chain_ok updater_checks_batch_soa ds (u_visible st1) ->
  c10_transfers z0 [us1; ixfr_upds snew ds] =
  Ok [u_visible st1;
      z_update_soa snew (fold_left (fun z d => apply_diff_z d z) ds (u_visible st1))].
Proof. exact (abort_then_ixfr updater_checks_batch_soa). Qed.
Print Assumptions C10_abort_then_ixfr.

Theorem C10_abort_invisible : forall us1 z0 st1,
  u_apply_all updater_checks_batch_soa us1 (u_start z0) = Ok st1 ->
  forallb (fun u => negb (is_commit u)) us1 = true ->
  c10_transfers z0 [us1] = Ok [z0].
Proof. exact (abort_invisible updater_checks_batch_soa). Qed.
Print Assumptions C10_abort_invisible.

Theorem C10_ixfr_prefix_visible : forall snew ds old us1 us2,
  chain_ok updater_checks_batch_soa ds old ->
  us1 ++ us2 = ixfr_upds snew ds ->
  exists st, u_apply_all updater_checks_batch_soa us1 (u_start old) = Ok st /\
    (In (u_visible st) (scan ds old) \/ (us2 = [] /\ u_visible st = final_zone snew ds old)) /\
    (us2 <> [] -> u_fin st = false).
Proof. exact (ixfr_prefix_visible updater_checks_batch_soa). Qed.
Print Assumptions C10_ixfr_prefix_visible.

Theorem C10_reject_truncated_ixfr : forall snew ds old ms cs rest,
  (forall d, In d ds -> d_old d <> snew) -> chain_ok updater_checks_batch_soa ds old ->
  packs 251 ms cs -> concat cs ++ rest = ixfr_seq snew ds -> rest <> [] ->
  ~ lone_soa_first Ixfr cs ->
  snd (run None ms) <> SDone /\
  exists st, c10_apply old (fst (run None ms)) = Ok st /\ u_fin st = false /\
    In (u_visible st) (scan ds old).
Proof. exact (reject_truncated_ixfr updater_checks_batch_soa). Qed.
Print Assumptions C10_reject_truncated_ixfr.

Theorem C10_reject_mismatched_close_ixfr : forall snew s' ds old ms cs,
  s' <> snew -> (forall d, In d ds -> d_old d <> snew) -> chain_ok updater_checks_batch_soa ds old ->
  packs 251 ms cs -> concat cs = Soa snew :: concat (map diff_seq ds) ++ [Soa s'] ->
  ~ lone_soa_first Ixfr cs ->
  run None ms = (concat (map diff_upds ds) ++ [UBeginDel s'], SIncomplete) /\
  (exists st, c10_apply old (concat (map diff_upds ds)) = Ok st /\
     u_fin st = false /\ In (u_working st) (scan ds old)) /\
  (forall st, c10_apply old (concat (map diff_upds ds) ++ [UBeginDel s']) = Ok st ->
     u_fin st = false /\ In (u_visible st) (scan ds old)).
Proof. exact (reject_mismatched_close_ixfr updater_checks_batch_soa). Qed.
Print Assumptions C10_reject_mismatched_close_ixfr.

(* SOA serials that chain satisfy the updater's batch check, present or not *)
Theorem C10_soa_chain_ok : forall ds w cur,
  z_first_soa w = Some cur -> soa_chain cur ds -> chain_ok updater_checks_batch_soa ds w.
Proof. exact (soa_chain_ok updater_checks_batch_soa). Qed.
Print Assumptions C10_soa_chain_ok.

Theorem C10_unchained_batch_rejected : forall s w v rest,
  batch_soa_ok true s w = false ->
  u_apply_all true (UBeginDel s :: rest) (mkU v w true true false) = Err E_SoaMismatch.
Proof. exact unchained_batch_rejected. Qed.
Print Assumptions C10_unchained_batch_rejected.

(* the updater's batch check is in the code (T1) *)
Theorem C10_updater_checks_batch_soa : updater_checks_batch_soa = true.
Proof. reflexivity. Qed.
Print Assumptions C10_updater_checks_batch_soa.

Theorem C10_unchained_rejected : forall snew ds1 d ds2 old,
  chain_ok true ds1 old ->
  batch_soa_ok true (d_old d) (fold_left (fun z x => apply_diff_z x z) ds1 old) = false ->
  c10_apply old (ixfr_upds snew (ds1 ++ d :: ds2)) = Err E_SoaMismatch /\
  (forall us1 us2 st, us1 ++ us2 = ixfr_upds snew (ds1 ++ d :: ds2) ->
     c10_apply old us1 = Ok st ->
     u_fin st = false /\ In (u_visible st) (scan ds1 old)).
Proof. exact unchained_rejected. Qed.
Print Assumptions C10_unchained_rejected.

(* sender o receiver = identity on zones *)
Theorem C10_transfer_identity_axfr : forall v size limit hard rs chunks z0,
  sender_axfr (zone_of v) = Some rs ->
  batch size limit hard rs = Ok chunks ->
  exists us st, run None (sender_msgs 252 chunks) = (us, SDone) /\
    c10_apply z0 us = Ok st /\ u_fin st = true /\
    Permutation (u_visible st) (zone_of v).
Proof. exact (transfer_identity_axfr updater_checks_batch_soa). Qed.
Print Assumptions C10_transfer_identity_axfr.

Theorem C10_transfer_identity_ixfr : forall v vs size limit chunks,
  vs <> [] ->
  ~ In (fst (last (v :: vs) (0, []))) (map fst (removelast (v :: vs))) ->
  (forall r1 r2, size r1 + size r2 <= limit) ->
  forall compat, batch size limit (sender_hard compat 251) (sender_ixfr (v :: vs)) = Ok chunks ->
  exists us st, run None (sender_msgs 251 chunks) = (us, SDone) /\
    c10_apply (zone_of v) us = Ok st /\ u_fin st = true /\
    zeq (u_visible st) (zone_of (last (v :: vs) (0, []))).
Proof.
  intros v vs size limit chunks H1 H2 H3 compat.
  replace (sender_hard compat 251) with (@None N) by (destruct compat; reflexivity).
  exact (transfer_identity_ixfr updater_checks_batch_soa v vs size limit chunks H1 H2 H3).
Qed.
Print Assumptions C10_transfer_identity_ixfr.

Theorem C10_batch_is_a_split : forall size limit hard rs chunks,
  batch size limit hard rs = Ok chunks ->
  concat chunks = rs /\ Forall (fun c => c <> []) chunks.
Proof. exact batch_spec. Qed.
Print Assumptions C10_batch_is_a_split.

Theorem C10_rr_count_no_overflow : forall ty s rs p' us e,
  flat (proc_new ty s) rs = (p', us, e) ->
  N.of_nat (length rs) < 2 ^ target_pointer_width -> p_count p' < 2 ^ rr_count_bits.
Proof. exact rr_count_no_overflow. Qed.
Print Assumptions C10_rr_count_no_overflow.

(* the diff reported on commit applies for every batch outside the three known
   defect classes *)
Theorem C10_good_history_diff_applies : forall pub ops rem add,
  good_history pub ops = true ->
  last (c10_diff pub ops) None = Some (rem, add) ->
  forall k, same_rrset (applied_at k pub rem add) (s_get k (content_after pub ops)).
Proof. exact good_history_diff_applies. Qed.
Print Assumptions C10_good_history_diff_applies.

(* the stream client (check_stream) closes the stream exactly at the last
   message of a valid AXFR / AXFR-style transfer, where the interpreter is Done *)
Theorem C10_client_agrees_axfr : forall q s ks ms cs,
  (q = 252 \/ (q = 251 /\ ks <> [])) ->
  packs q ms cs -> concat cs = axfr_seq s ks -> ~ lone_soa_first (if q =? 252 then Axfr else Ixfr) cs ->
  client_stream (client_init q) ms = (repeat true (length ms), true).
Proof. exact client_agrees_axfr. Qed.
Print Assumptions C10_client_agrees_axfr.

Theorem C10_client_agrees_ixfr_one_message : forall snew ds m,
  (forall d, In d ds -> soa_serial (d_old d) <> soa_serial snew) ->
  carries true m (ixfr_seq snew ds) -> h_qtype (m_hdr m) = Some 251 ->
  client_stream (client_init 251) [m] = ([true], true).
Proof. exact client_agrees_ixfr_one_message. Qed.
Print Assumptions C10_client_agrees_ixfr_one_message.

Theorem C10_client_agrees_single_soa : forall m s,
  carries true m [Soa s] -> h_qtype (m_hdr m) = Some 251 ->
  client_stream (client_init 251) [m] = ([true], true) /\
  run None [m] = ([], SErr E_SingleSoa).
Proof. exact client_agrees_single_soa. Qed.
Print Assumptions C10_client_agrees_single_soa.

(* multi-step histories: every reported diff applies to the version published
   when its batch began *)
Theorem C10_good_multi_diff_applies : forall pub pre o post rem add,
  pub_ok pub = true -> good_multi (pre ++ o :: post) (d_start pub) = true ->
  let st := fst (d_run pre (d_start pub)) in
  snd (d_step o st) = [Some (rem, add)] ->
  forall k, same_rrset (applied_at k (ds_pub st) rem add) (s_get k (ds_work (fst (d_step o st)))).
Proof. exact good_multi_diff_applies. Qed.
Print Assumptions C10_good_multi_diff_applies.

(* the serial range check of a diff is in RFC 1982 order (C17) *)
Theorem C10_serial_range_invalid_spec : forall s e,
  s < 4294967296 -> e < 4294967296 ->
  (serial_range_invalid s e = false <->
   let d := (e + 4294967296 - s) mod 4294967296 in 0 < d /\ d <= 2147483648).
Proof. exact serial_range_invalid_spec. Qed.
Print Assumptions C10_serial_range_invalid_spec.

Theorem C10_rr_count_width : target_pointer_width <= rr_count_bits.
Proof. exact rr_count_width. Qed.
Print Assumptions C10_rr_count_width.

(* the stream client and the interpreter agree on IXFR difference sequences
   spread over any number of messages *)
Theorem C10_client_agrees_ixfr : forall snew ds ms cs,
  (forall d, In d ds -> soa_serial (d_old d) <> soa_serial snew) ->
  packs 251 ms cs -> concat cs = ixfr_seq snew ds -> ~ lone_soa_first Ixfr cs ->
  client_stream (client_init 251) ms = (repeat true (length ms), true).
Proof. exact client_agrees_ixfr. Qed.
Print Assumptions C10_client_agrees_ixfr.

(* capture -> DiffFunneler -> batcher -> interpreter -> updater: the diff the
   zone itself reports for a good batch, sent as an IXFR, takes a receiver at the
   old content to the new content *)
Theorem C10_real_diff_transfer_identity : forall key_of pub body s t rem add d size limit chunks,
  pub_ok pub = true -> ukeys pub -> keyed key_of pub ->
  good_body body (d_start pub) = true ->
  last (c10_diff pub (body ++ [DFinish s t])) None = Some (rem, add) ->
  funnel (rem, add) = Some d ->
  (forall r1 r2, size r1 + size r2 <= limit) ->
  batch size limit (sender_hard false 251) (ixfr_seq (d_new d) [d]) = Ok chunks ->
  exists us st, run None (sender_msgs 251 chunks) = (us, SDone) /\
    c10_apply (store_zone pub) us = Ok st /\ u_fin st = true /\
    zeq (u_visible st) (store_zone (content_after pub (body ++ [DFinish s t]))).
Proof. exact (real_diff_transfer_identity updater_checks_batch_soa). Qed.
Print Assumptions C10_real_diff_transfer_identity.

(* the (visible, working) pair, derived from C09's versioned store for one RRset *)
Theorem C10_cell_refines_pair : forall {T} w (b : list (C09.Model.entry T)) (os : list (@wop T)),
  C09.Proofs.desc b -> C09.Proofs.le_all (w - 1) b -> 0 < w -> w < C09.Proofs.LIM ->
  let cell := C09.Model.c_run b (map (to_cop w) os) in
  (forall r, C09.Proofs.ver_le w r = false -> C09.Model.v_get cell r = C09.Model.v_get b r) /\
  C09.Model.v_get cell w = pair_work (C09.Model.v_get b w) os /\
  C09.Model.v_rollback cell w = b.
Proof. exact @cell_refines_pair. Qed.
Print Assumptions C10_cell_refines_pair.

(* XfrMiddlewareSvc::preprocess decision table *)
Theorem C10_decide_up_to_date : forall qs zs udp n compat,
  n <> 0 -> C17.Model.serial_ge qs zs = true ->
  decide (xfr_request 251 (Some qs) udp) (PData n compat) (Some zs) = DSingleSoa.
Proof. exact decide_up_to_date. Qed.
Print Assumptions C10_decide_up_to_date.

Theorem C10_decide_behind : forall qs zs udp n compat,
  n <> 0 -> C17.Model.serial_ge qs zs = false ->
  decide (xfr_request 251 (Some qs) udp) (PData n compat) (Some zs) = DIxfr.
Proof. exact decide_behind. Qed.
Print Assumptions C10_decide_behind.

Theorem C10_decide_fallback : forall ser udp compat zs,
  decide (xfr_request 251 (Some ser) udp) (PData 0 compat) (Some zs) = DAxfr false.
Proof. exact decide_fallback. Qed.
Print Assumptions C10_decide_fallback.

Theorem C10_decide_axfr : forall compat zs,
  decide (xfr_request 252 None false) (PData 0 compat) (Some zs) = DAxfr compat /\
  decide (xfr_request 252 None true) (PData 0 compat) (Some zs) = DNotimp.
Proof. exact decide_axfr. Qed.
Print Assumptions C10_decide_axfr.

Theorem C10_decide_errors : forall q ser udp zs,
  (q = 252 \/ (q = 251 /\ ser <> None)) ->
  decide (xfr_request q ser udp) PUnknown zs = DErr 9 /\
  decide (xfr_request q ser udp) PRefused zs = DErr 5 /\
  decide (xfr_request q ser udp) PUnavailable zs = DErr 2 /\
  decide (xfr_request q ser udp) PParse zs = DErr 1 /\
  (forall n c, decide (xfr_request q ser udp) (PData n c) None = DErr 2) /\
  decide (xfr_request 251 None udp) PUnknown zs = DErr 1.
Proof. exact decide_errors. Qed.
Print Assumptions C10_decide_errors.

Theorem C10_decide_no_panic : forall rq pr zs,
  (forall n c, pr = PData n c -> rq_qtype rq = 252 -> n = 0) -> decide rq pr zs <> DPanic.
Proof. exact decide_no_panic. Qed.
Print Assumptions C10_decide_no_panic.

(* any sequence of good batches, each committed: the diffs the zone itself
   reports, funnelled into one multi-step IXFR, batched, interpreted and applied
   take a receiver at the first published content to the last one *)
Theorem C10_real_diffs_transfer_identity : forall key_of bs pub ds pub' size limit chunks,
  pub_ok pub = true -> ukeys pub -> keyed key_of pub ->
  good_batches key_of bs pub ->
  run_batches bs pub = Some (ds, pub') -> ds <> [] ->
  let snew := d_new (last ds (mkDiff 0 [] 0 [])) in
  (forall d, In d ds -> d_old d <> snew) ->
  (forall r1 r2, size r1 + size r2 <= limit) ->
  batch size limit (sender_hard false 251) (ixfr_seq snew ds) = Ok chunks ->
  exists us st, run None (sender_msgs 251 chunks) = (us, SDone) /\
    c10_apply (store_zone pub) us = Ok st /\ u_fin st = true /\
    zeq (u_visible st) (store_zone pub').
Proof. exact (real_diffs_transfer_identity updater_checks_batch_soa). Qed.
Print Assumptions C10_real_diffs_transfer_identity.

(* each of those diffs is the one the diff-capture model reports for its batch *)
Theorem C10_batch_diff_is_reported : forall pub body s t,
  good_body body (d_start pub) = true ->
  snd (d_commit (batch_end (body, s, t) pub)) = last (c10_diff pub (body ++ [DFinish s t])) None.
Proof. exact batch_diff_is_reported. Qed.
Print Assumptions C10_batch_diff_is_reported.

(* ---- single-message faults at any position of any stream (ProofsK) ---- *)
Theorem C10_corrupt_header_anywhere : forall m ms1 ms2 st,
  (forall first, check_response first (m_hdr m) = true) ->
  fst (run st (ms1 ++ m :: ms2)) = fst (run st ms1) /\
  exists e, snd (run st (ms1 ++ m :: ms2)) = SErr e.
Proof. exact corrupt_header_anywhere. Qed.
Print Assumptions C10_corrupt_header_anywhere.

Theorem C10_header_fault_both : forall m,
  existsb (fun t => check_cond t (m_hdr m)) check_tags = true ->
  forall first, check_response first (m_hdr m) = true.
Proof. exact header_fault_both. Qed.
Print Assumptions C10_header_fault_both.

Theorem C10_bad_record_anywhere : forall m pre post ms1 ms2 st,
  m_items m = pre ++ Bad :: post ->
  run st (ms1 ++ m :: ms2) = run st (ms1 ++ [m]) /\
  exists e, snd (run st (ms1 ++ m :: ms2)) = SErr e.
Proof. exact bad_record_anywhere. Qed.
Print Assumptions C10_bad_record_anywhere.

Theorem C10_rejected_message_cuts_stream : forall m, rejecting m -> forall ms1 ms2 st,
  run st (ms1 ++ m :: ms2) = run st (ms1 ++ [m]) /\
  exists e, snd (run st (ms1 ++ m :: ms2)) = SErr e.
Proof. exact run_cut_at_rejecting. Qed.
Print Assumptions C10_rejected_message_cuts_stream.

Theorem C10_rejected_message_never_done : forall m ms1 ms2 st,
  rejecting m ->
  snd (run st (ms1 ++ m :: ms2)) <> SDone /\ snd (run st (ms1 ++ m :: ms2)) <> SIncomplete.
Proof. exact rejecting_never_done. Qed.
Print Assumptions C10_rejected_message_never_done.

Theorem C10_prefix_updates_delivered : forall m ms1 ms2 st us,
  run st ms1 = (us, SIncomplete) ->
  exists us', fst (run st (ms1 ++ m :: ms2)) = us ++ us'.
Proof. exact run_prefix_updates. Qed.
Print Assumptions C10_prefix_updates_delivered.

Theorem C10_visible_is_last_commit : forall us1 us2 st st',
  u_apply_all updater_checks_batch_soa (us1 ++ us2) st = Ok st' ->
  forallb (fun u => negb (is_commit u)) us2 = true ->
  exists st1, u_apply_all updater_checks_batch_soa us1 st = Ok st1 /\ u_visible st' = u_visible st1.
Proof. exact (visible_is_last_commit updater_checks_batch_soa). Qed.
Print Assumptions C10_visible_is_last_commit.

Theorem C10_finished_is_terminal : forall u us st,
  u_fin st = true -> u_apply_all updater_checks_batch_soa (u :: us) st = Err E_Finished.
Proof. exact (finished_is_terminal updater_checks_batch_soa). Qed.
Print Assumptions C10_finished_is_terminal.
