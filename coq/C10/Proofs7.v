(* C10 proofs, part 7: the stream client's end-of-transfer detection
   (check_stream) and the interpreter agree on valid transfers. *)
From Coq Require Import NArith List Bool Lia ZifyN ZifyBool ZifyNat.
From DV Require Import Base.Outcome C10.Gen C10.Model C10.Proofs1 C10.Proofs2.
Import ListNotations.
Local Open Scope N_scope.

(* records one after the other, None when check_stream returns early *)
Fixpoint cfold (st : cstate) (rs : list rr) : option cstate :=
  match rs with
  | [] => Some st
  | r :: rest => match client_rec st r with inl st' => cfold st' rest | inr _ => None end
  end.

Lemma cfold_app a : forall st b,
  cfold st (a ++ b) = match cfold st a with Some st' => cfold st' b | None => None end.
Proof.
  induction a as [|r a IH]; intros st b; cbn [app cfold]; [reflexivity|].
  destruct (client_rec st r); [apply IH|reflexivity].
Qed.

(* states in which the client waits for more messages *)
Definition waiting (st : cstate) : bool :=
  match st with CAxfrFirstSoa _ | CIxfrFirstDiffSoa _ | CIxfrSecondDiffSoa _ => true | _ => false end.

Lemma client_items_cfold rs : forall st st',
  cfold st rs = Some st' -> client_items st (map Rec rs) = client_items st' [].
Proof.
  induction rs as [|r rs IH]; intros st st'; cbn [cfold map client_items].
  - intros E; inversion E; reflexivity.
  - destruct (client_rec st r); [apply IH|discriminate].
Qed.

Lemma client_msg_waiting st m c st' :
  m_items m = map Rec c -> waiting st = true -> cfold st c = Some st' -> waiting st' = true ->
  client_msg st m = (false, st').
Proof.
  intros Hi Hw Hc Hw'. unfold client_msg. rewrite Hi.
  destruct st; try discriminate; rewrite (client_items_cfold _ _ _ Hc); destruct st'; try discriminate; reflexivity.
Qed.

Lemma client_msg_done st m c :
  m_items m = map Rec c -> waiting st = true -> cfold st c = Some CDone ->
  client_msg st m = (true, CDone).
Proof.
  intros Hi Hw Hc. unfold client_msg. rewrite Hi.
  destruct st; try discriminate; rewrite (client_items_cfold _ _ _ Hc); reflexivity.
Qed.

(* later messages: every chunk boundary falls on a waiting state, the last
   record completes the transfer *)
Lemma client_stream_later ms : forall cs st,
  packs_later ms cs -> cs <> [] -> waiting st = true ->
  cfold st (concat cs) = Some CDone ->
  (forall a b, a ++ b = concat cs -> b <> [] -> exists st', cfold st a = Some st' /\ waiting st' = true) ->
  client_stream st ms = (repeat true (length ms), true).
Proof.
  induction ms as [|m ms IH]; intros cs st Hp Hn Hw Hd Hpre.
  - inversion Hp; subst. contradiction.
  - inversion Hp as [|m0 c ms0 cs0 [_ [Hi Hne]] Hrest]; subst. cbn [concat] in *.
    cbn [client_stream length repeat].
    destruct cs0 as [|c2 cs0].
    + inversion Hrest; subst. cbn [concat] in *. rewrite app_nil_r in Hd.
      rewrite (client_msg_done st m c Hi Hw Hd). reflexivity.
    + destruct (Hpre c (concat (c2 :: cs0)) eq_refl) as [st1 [F1 W1]].
      { inversion Hrest as [|? ? ? ? [_ [_ Hne2]] _]; subst. cbn [concat]. intros E.
        apply app_eq_nil in E as [E _]. contradiction. }
      rewrite (client_msg_waiting st m c st1 Hi Hw F1 W1).
      assert (N1 : is_cerror st1 = false) by (destruct st1; try discriminate; reflexivity).
      rewrite N1. cbn [negb].
      rewrite (IH (c2 :: cs0) st1 Hrest ltac:(discriminate) W1).
      * reflexivity.
      * rewrite cfold_app, F1 in Hd. exact Hd.
      * intros a b E Hb. destruct (Hpre (c ++ a) b) as [st2 [F2 W2]].
        { rewrite <- app_assoc, E. reflexivity. } { exact Hb. }
        rewrite cfold_app, F1 in F2. eauto.
Qed.

(* ---- AXFR sequences (AXFR question, or the fallback under an IXFR question) ---- *)
Lemma cfold_others ks s : cfold (CAxfrFirstSoa s) (map Other ks) = Some (CAxfrFirstSoa s).
Proof. induction ks as [|k ks IH]; cbn; [reflexivity|exact IH]. Qed.

Lemma prefix_of_others_soa ks x a b :
  a ++ b = map Other ks ++ [Soa x] -> b <> [] -> exists ks', a = map Other ks'.
Proof.
  revert a. induction ks as [|k ks IH]; intros a E Hb; cbn [map app] in E.
  - destruct a as [|r a]; [exists []; reflexivity|]. cbn in E. inversion E as [[E1 E2]].
    apply app_eq_nil in E2 as [_ E2]. contradiction.
  - destruct a as [|r a]; [exists []; reflexivity|]. cbn in E. inversion E as [[E1 E2]].
    destruct (IH a E2 Hb) as [ks' ->]. exists (k :: ks'). reflexivity.
Qed.

Theorem client_agrees_axfr q s ks ms cs :
  (q = 252 \/ (q = 251 /\ ks <> [])) ->
  packs q ms cs -> concat cs = axfr_seq s ks -> ~ lone_soa_first (if q =? 252 then Axfr else Ixfr) cs ->
  client_stream (client_init q) ms = (repeat true (length ms), true).
Proof.
  intros Hq Hp Hc Hl.
  destruct ms as [|m ms], cs as [|c cs]; try contradiction.
  destruct Hp as [[_ [Hi Hne]] [_ Hrest]].
  cbn [concat] in Hc. unfold axfr_seq in Hc.
  destruct c as [|r c]; [contradiction|]. cbn [app] in Hc. inversion Hc as [[Hr Htl]]. subst r.
  (* the state after the first record(s) *)
  set (st0 := client_init q).
  (* everything after the SOA *)
  set (ser := soa_serial s).
  assert (Full : forall st, st = CAxfrFirstSoa ser -> cfold st (map Other ks ++ [Soa s]) = Some CDone).
  { intros st ->. rewrite cfold_app, cfold_others. cbn. unfold ser. rewrite N.eqb_refl. reflexivity. }
  assert (Pre : forall a b, a ++ b = map Other ks ++ [Soa s] -> b <> [] ->
            cfold (CAxfrFirstSoa ser) a = Some (CAxfrFirstSoa ser)).
  { intros a b E Hb. destruct (prefix_of_others_soa _ _ _ _ E Hb) as [ks' ->]. apply cfold_others. }
  destruct Hq as [->|[-> Hks]].
  - (* AXFR question *)
    cbn [client_stream length repeat]. unfold st0, client_init, qtype_axfr. cbn [N.eqb Pos.eqb].
    destruct cs as [|c2 cs].
    + inversion Hrest; subst. cbn [concat] in Htl. rewrite app_nil_r in Htl.
      unfold client_msg. rewrite Hi. cbn [map client_items client_rec]. fold ser.
      rewrite (client_items_cfold c (CAxfrFirstSoa ser) CDone); [reflexivity|].
      rewrite Htl. apply Full. reflexivity.
    + assert (F1 : cfold (CAxfrFirstSoa ser) c = Some (CAxfrFirstSoa ser)).
      { apply (Pre c (concat (c2 :: cs)) Htl).
        inversion Hrest as [|? ? ? ? [_ [_ Hne2]] _]; subst. cbn [concat]. intros E.
        apply app_eq_nil in E as [E _]. contradiction. }
      unfold client_msg. rewrite Hi. cbn [map client_items client_rec]. fold ser.
      rewrite (client_items_cfold c _ _ F1). cbn [client_items is_cerror negb].
      rewrite (client_stream_later ms (c2 :: cs) (CAxfrFirstSoa ser) Hrest ltac:(discriminate) eq_refl).
      * reflexivity.
      * pose proof (Full _ eq_refl) as Fu. rewrite <- Htl, cfold_app, F1 in Fu. exact Fu.
      * intros a b E Hb. exists (CAxfrFirstSoa ser). split; [|reflexivity].
        assert (P := Pre (c ++ a) b). rewrite <- app_assoc, E in P. specialize (P Htl Hb).
        rewrite cfold_app, F1 in P. exact P.
  - (* IXFR question, AXFR-style answer: the second record is not a SOA *)
    destruct ks as [|k ks]; [contradiction|]. cbn [map app] in Htl.
    cbn [client_stream length repeat]. unfold st0, client_init, qtype_axfr. cbn [N.eqb Pos.eqb].
    destruct c as [|r2 c].
    + (* SOA alone in the first message *)
      destruct cs as [|c2 cs]; [cbn in Htl; discriminate|].
      exfalso. apply Hl. cbn. split; [reflexivity|]. exists (Soa s), (c2 :: cs). split; [reflexivity|discriminate].
    + cbn [app] in Htl. inversion Htl as [[Hr2 Htl2]]. subst r2.
      assert (Full2 : cfold (CAxfrFirstSoa ser) (map Other ks ++ [Soa s]) = Some CDone).
      { rewrite cfold_app, cfold_others. cbn. unfold ser. rewrite N.eqb_refl. reflexivity. }
      assert (Pre2 : forall a b, a ++ b = map Other ks ++ [Soa s] -> b <> [] ->
                cfold (CAxfrFirstSoa ser) a = Some (CAxfrFirstSoa ser)).
      { intros a b E Hb. destruct (prefix_of_others_soa _ _ _ _ E Hb) as [ks' ->]. apply cfold_others. }
      destruct cs as [|c2 cs].
      * inversion Hrest; subst. cbn [concat] in Htl2. rewrite app_nil_r in Htl2.
        unfold client_msg. rewrite Hi. cbn [map client_items client_rec]. fold ser.
        rewrite (client_items_cfold c (CAxfrFirstSoa ser) CDone); [reflexivity|].
        rewrite Htl2. exact Full2.
      * assert (F1 : cfold (CAxfrFirstSoa ser) c = Some (CAxfrFirstSoa ser)).
        { apply (Pre2 c (concat (c2 :: cs)) Htl2).
          inversion Hrest as [|? ? ? ? [_ [_ Hne2]] _]; subst. cbn [concat]. intros E.
          apply app_eq_nil in E as [E _]. contradiction. }
        unfold client_msg. rewrite Hi. cbn [map client_items client_rec]. fold ser.
        rewrite (client_items_cfold c _ _ F1). cbn [client_items is_cerror negb].
        rewrite (client_stream_later ms (c2 :: cs) (CAxfrFirstSoa ser) Hrest ltac:(discriminate) eq_refl).
        -- reflexivity.
        -- pose proof Full2 as Fu. rewrite <- Htl2, cfold_app, F1 in Fu. exact Fu.
        -- intros a b E Hb. exists (CAxfrFirstSoa ser). split; [|reflexivity].
           assert (P := Pre2 (c ++ a) b). rewrite <- app_assoc, E in P. specialize (P Htl2 Hb).
           rewrite cfold_app, F1 in P. exact P.
Qed.

(* the single-SOA reply to an IXFR question ends the stream for both: the
   client reports end of stream, the interpreter the retry-over-TCP signal *)
Theorem client_agrees_single_soa m s :
  carries true m [Soa s] -> h_qtype (m_hdr m) = Some 251 ->
  client_stream (client_init 251) [m] = ([true], true) /\
  run None [m] = ([], SErr E_SingleSoa).
Proof.
  intros [Hh [Hi _]] Hq. split.
  - cbn [client_stream]. unfold client_init, qtype_axfr, client_msg. cbn [N.eqb Pos.eqb]. rewrite Hi. reflexivity.
  - cbn [run]. unfold interpret_response. cbn [st_finished].
    apply check_response_spec in Hh. rewrite Hh, inner_new_spec, Hq, Hi. cbn. reflexivity.
Qed.

(* IXFR difference sequences, whole stream in one message *)
Lemma cfold_others_first s ks : cfold (CIxfrFirstDiffSoa s) (map Other ks) = Some (CIxfrFirstDiffSoa s).
Proof. induction ks as [|k ks IH]; cbn; [reflexivity|exact IH]. Qed.
Lemma cfold_others_second s ks : cfold (CIxfrSecondDiffSoa s) (map Other ks) = Some (CIxfrSecondDiffSoa s).
Proof. induction ks as [|k ks IH]; cbn; [reflexivity|exact IH]. Qed.

Lemma cfold_diffs s ds : forall st,
  (st = CIxfrFirstSoa s \/ st = CIxfrSecondDiffSoa s) ->
  (forall d, In d ds -> soa_serial (d_old d) <> s) ->
  cfold st (concat (map diff_seq ds)) = Some (match ds with [] => st | _ => CIxfrSecondDiffSoa s end).
Proof.
  induction ds as [|d ds IH]; intros st Hst Hne; cbn [map concat]; [reflexivity|].
  assert (E : (s =? soa_serial (d_old d)) = false).
  { destruct (N.eqb_spec s (soa_serial (d_old d))); [|reflexivity]. exfalso. apply (Hne d (or_introl eq_refl)). auto. }
  rewrite cfold_app. unfold diff_seq at 1. cbn [cfold].
  assert (S1 : client_rec st (Soa (d_old d)) = inl (CIxfrFirstDiffSoa s)).
  { destruct Hst as [->| ->]; cbn; rewrite E; reflexivity. }
  rewrite S1, cfold_app, cfold_others_first. cbn [cfold client_rec]. rewrite cfold_others_second. cbn beta iota.
  rewrite (IH (CIxfrSecondDiffSoa s) (or_intror eq_refl) (fun d' H => Hne d' (or_intror H))).
  destruct ds; reflexivity.
Qed.

Theorem client_agrees_ixfr_one_message snew ds m :
  (forall d, In d ds -> soa_serial (d_old d) <> soa_serial snew) ->
  carries true m (ixfr_seq snew ds) -> h_qtype (m_hdr m) = Some 251 ->
  client_stream (client_init 251) [m] = ([true], true).
Proof.
  intros Hne [_ [Hi _]] Hq. cbn [client_stream]. unfold client_init, qtype_axfr, client_msg. cbn [N.eqb Pos.eqb].
  rewrite Hi. unfold ixfr_seq. cbn [map client_items client_rec].
  rewrite (client_items_cfold _ (CIxfrFirstSoa (soa_serial snew)) CDone); [reflexivity|].
  rewrite cfold_app, (cfold_diffs (soa_serial snew) ds _ (or_introl eq_refl) Hne).
  destruct ds; cbn; rewrite N.eqb_refl; reflexivity.
Qed.

(* ---- IXFR difference sequences over several messages ---- *)
Lemma prefix_of_map_other ys : forall a b, a ++ b = map Other ys -> exists ys', a = map Other ys'.
Proof.
  induction ys as [|y ys IH]; intros a b E; cbn [map] in E.
  - apply app_eq_nil in E as [-> _]. exists []. reflexivity.
  - destruct a as [|r a]; [exists []; reflexivity|]. cbn in E. inversion E as [[E1 E2]].
    destruct (IH a b E2) as [ys' ->]. exists (y :: ys'). reflexivity.
Qed.

Lemma prefix_of_section xs n ys : forall a b,
  a ++ b = map Other xs ++ Soa n :: map Other ys ->
  (exists xs', a = map Other xs') \/ (exists ys', a = map Other xs ++ Soa n :: map Other ys').
Proof.
  induction xs as [|x xs IH]; intros a b E; cbn [map app] in E.
  - destruct a as [|r a]; [left; exists []; reflexivity|]. cbn in E. inversion E as [[E1 E2]].
    destruct (prefix_of_map_other ys a b E2) as [ys' ->]. right. exists ys'. reflexivity.
  - destruct a as [|r a]; [left; exists []; reflexivity|]. cbn in E. inversion E as [[E1 E2]].
    destruct (IH a b E2) as [[xs' ->]|[ys' ->]].
    + left. exists (x :: xs'). reflexivity.
    + right. exists ys'. reflexivity.
Qed.

Lemma cfold_diffs_prefix s ds : forall st a b,
  a ++ b = concat (map diff_seq ds) ->
  (st = CIxfrFirstSoa s \/ st = CIxfrSecondDiffSoa s) ->
  (forall d, In d ds -> soa_serial (d_old d) <> s) ->
  exists st', cfold st a = Some st' /\ ((a = [] /\ st' = st) \/ waiting st' = true).
Proof.
  induction ds as [|d ds IH]; intros st a b E Hst Hne; cbn [map concat] in E.
  - apply app_eq_nil in E as [-> _]. exists st. split; [reflexivity|left; auto].
  - assert (Es : (s =? soa_serial (d_old d)) = false).
    { destruct (N.eqb_spec s (soa_serial (d_old d))); [|reflexivity]. exfalso. apply (Hne d (or_introl eq_refl)). auto. }
    assert (S1 : client_rec st (Soa (d_old d)) = inl (CIxfrFirstDiffSoa s)).
    { destruct Hst as [->| ->]; cbn; rewrite Es; reflexivity. }
    apply app_eq_app in E as [m [[E1 E2]|[E1 E2]]].
    + (* past this difference sequence *)
      subst a.
      assert (Fd : cfold st (diff_seq d) = Some (CIxfrSecondDiffSoa s)).
      { pose proof (cfold_diffs s [d] st Hst (fun d' H => Hne d' (or_introl (match H with or_introl e => e | or_intror f => match f with end end)))) as Q.
        cbn [map concat] in Q. rewrite app_nil_r in Q. exact Q. }
      destruct (IH (CIxfrSecondDiffSoa s) m b (eq_sym E2) (or_intror eq_refl) (fun d' H => Hne d' (or_intror H)))
        as [st' [F W]].
      exists st'. split; [rewrite cfold_app, Fd; exact F|].
      right. destruct W as [[-> ->]|W]; [reflexivity|exact W].
    + (* inside this difference sequence *)
      destruct a as [|r a]; [exists st; split; [reflexivity|left; auto]|].
      unfold diff_seq in E1. cbn [app] in E1. inversion E1 as [[Er Et]]. subst r.
      cbn [cfold]. rewrite S1.
      destruct (prefix_of_section _ _ _ a m (eq_sym Et)) as [[xs' ->]|[ys' ->]].
      * exists (CIxfrFirstDiffSoa s). split; [apply cfold_others_first|right; reflexivity].
      * exists (CIxfrSecondDiffSoa s). split; [|right; reflexivity].
        rewrite cfold_app, cfold_others_first. cbn [cfold client_rec]. apply cfold_others_second.
Qed.

Theorem client_agrees_ixfr snew ds ms cs :
  (forall d, In d ds -> soa_serial (d_old d) <> soa_serial snew) ->
  packs 251 ms cs -> concat cs = ixfr_seq snew ds -> ~ lone_soa_first Ixfr cs ->
  client_stream (client_init 251) ms = (repeat true (length ms), true).
Proof.
  intros Hne Hp Hc Hl.
  set (s := soa_serial snew) in *.
  set (D := concat (map diff_seq ds)) in *.
  assert (Full : cfold (CIxfrFirstSoa s) (D ++ [Soa snew]) = Some CDone).
  { rewrite cfold_app. unfold D. rewrite (cfold_diffs s ds _ (or_introl eq_refl) Hne).
    destruct ds; cbn; unfold s; rewrite N.eqb_refl; reflexivity. }
  assert (Pre : forall a b, a ++ b = D ++ [Soa snew] -> a <> [] -> b <> [] ->
            exists st', cfold (CIxfrFirstSoa s) a = Some st' /\ waiting st' = true).
  { intros a b E Ha Hb.
    assert (P : exists m, a ++ m = D).
    { apply app_eq_app in E as [m [[E1 E2]|[E1 E2]]].
      - destruct m as [|x m]; [exists []; rewrite app_nil_r in E1 |- *; auto|].
        cbn in E2. injection E2 as _ E3. symmetry in E3. apply app_eq_nil in E3 as [_ E3]. contradiction.
      - exists m. auto. }
    destruct P as [m Em].
    destruct (cfold_diffs_prefix s ds (CIxfrFirstSoa s) a m Em (or_introl eq_refl) Hne) as [st' [F [[Ea _]|W]]];
      [contradiction|eauto]. }
  destruct ms as [|m ms], cs as [|c cs]; try contradiction.
  destruct Hp as [[_ [Hi Hn]] [_ Hrest]].
  cbn [concat] in Hc. unfold ixfr_seq in Hc. fold D in Hc.
  destruct c as [|r c]; [contradiction|]. cbn [app] in Hc. inversion Hc as [[Hr Htl]]. subst r.
  cbn [client_stream length repeat]. unfold client_init, qtype_axfr. cbn [N.eqb Pos.eqb].
  destruct cs as [|c2 cs].
  - inversion Hrest; subst. cbn [concat] in Htl. rewrite app_nil_r in Htl.
    unfold client_msg. rewrite Hi. cbn [map client_items client_rec]. fold s.
    rewrite (client_items_cfold c (CIxfrFirstSoa s) CDone); [reflexivity|]. rewrite Htl. exact Full.
  - assert (Hc2 : concat (c2 :: cs) <> []).
    { inversion Hrest as [|? ? ? ? [_ [_ Hne2]] _]; subst. cbn [concat]. intros E.
      apply app_eq_nil in E as [E _]. contradiction. }
    assert (Hcne : c <> []).
    { intros ->. apply Hl. split; [reflexivity|]. exists (Soa snew), (c2 :: cs). split; [reflexivity|discriminate]. }
    destruct (Pre c (concat (c2 :: cs)) Htl Hcne Hc2) as [st1 [F1 W1]].
    unfold client_msg. rewrite Hi. cbn [map client_items client_rec]. fold s.
    rewrite (client_items_cfold c _ _ F1).
    assert (R1 : client_items st1 [] = (false, st1)) by (destruct st1; try discriminate; reflexivity).
    rewrite R1.
    assert (N1 : is_cerror st1 = false) by (destruct st1; try discriminate; reflexivity).
    rewrite N1. cbn [negb].
    rewrite (client_stream_later ms (c2 :: cs) st1 Hrest ltac:(discriminate) W1).
    + reflexivity.
    + rewrite <- Htl, cfold_app, F1 in Full. exact Full.
    + intros a b E Hb.
      destruct (Pre (c ++ a) b) as [st2 [F2 W2]].
      * rewrite <- app_assoc, E. exact Htl.
      * intros Q. apply app_eq_nil in Q as [Q _]. contradiction.
      * exact Hb.
      * rewrite cfold_app, F1 in F2. eauto.
Qed.

(* where they differ (not on valid transfers): the client compares serials, the
   interpreter whole SOA records.  A closing SOA with the opening serial but
   other fields ends the stream for the client and not for the interpreter (the
   transfer is then incomplete and nothing is committed). *)
Lemma client_serial_only_example :
  let m := mkMsg (mkHdr true 0 0 false 1 3 0 (Some 252)) [Rec (Soa 14); Rec (Other 1); Rec (Soa 15)] in
  client_stream (client_init 252) [m] = ([true], true) /\ snd (run None [m]) = SIncomplete.
Proof. vm_compute. split; reflexivity. Qed.
