(* C10 proofs, part 4: truncated and mis-closed IXFR streams; readers only ever
   see versions of the chain. *)
From Coq Require Import NArith List Bool Lia ZifyN ZifyBool ZifyNat.
From DV Require Import Base.Outcome C10.Gen C10.Model C10.Proofs1 C10.Proofs2.
Import ListNotations.
Local Open Scope N_scope.

(* the contents the working copy goes through: old, then after each diff *)
Fixpoint scan (ds : list diff) (w : zone) : list zone :=
  w :: match ds with [] => [] | d :: ds' => scan ds' (apply_diff_z d w) end.

Lemma scan_head ds w : In w (scan ds w).
Proof. destruct ds; left; reflexivity. Qed.

Lemma scan_last ds : forall w, In (fold_left (fun z d => apply_diff_z d z) ds w) (scan ds w).
Proof.
  induction ds as [|d ds IH]; intros w; cbn [fold_left scan].
  - left. reflexivity.
  - right. apply IH.
Qed.

Section WithChk.
Variable chk : bool.
Local Notation u_apply := (Model.u_apply chk).
Local Notation u_apply_all := (Model.u_apply_all chk).
Local Notation c10_apply z us := (Model.u_apply_all chk us (u_start z)).
Local Notation chain_ok := (Proofs2.chain_ok chk).
Local Notation u_apply_all_app := (Proofs2.u_apply_all_app chk).
Local Notation u_diff := (Proofs2.u_diff chk).
Local Notation u_diffs := (Proofs2.u_diffs chk).
Local Notation u_ixfr := (Proofs2.u_ixfr chk).
Local Notation u_apply_all_visible := (Proofs2.u_apply_all_visible chk).

(* a prefix of a successful application is successful *)
Lemma u_prefix_ok a : forall b st st',
  u_apply_all (a ++ b) st = Ok st' -> exists st1, u_apply_all a st = Ok st1 /\ u_apply_all b st1 = Ok st'.
Proof.
  intros b st st' H. rewrite u_apply_all_app in H.
  destruct (u_apply_all a st) as [st1| | |]; cbn [bind] in H; try discriminate. eauto.
Qed.

(* ... and it has not finished when something still follows *)
Lemma u_not_fin_before u b st st' : u_apply_all (u :: b) st = Ok st' -> u_fin st = false.
Proof.
  cbn [Model.u_apply_all]. unfold Model.u_apply. destruct (u_fin st); [discriminate|reflexivity].
Qed.

Lemma no_commit_dels ks : forallb (fun u => negb (is_commit u)) (dels ks) = true.
Proof. unfold dels. apply forallb_forall. intros u H. apply in_map_iff in H as [k [<- _]]. reflexivity. Qed.
Lemma no_commit_adds ks : forallb (fun u => negb (is_commit u)) (adds ks) = true.
Proof. unfold adds. apply forallb_forall. intros u H. apply in_map_iff in H as [k [<- _]]. reflexivity. Qed.

Lemma forallb_prefix {A} (f : A -> bool) a b : forallb f (a ++ b) = true -> forallb f a = true.
Proof. rewrite forallb_app. intros H. apply andb_prop in H as [H _]. exact H. Qed.

(* prefixes of the update stream of a list of difference sequences *)
Lemma prefix_diffs ds : forall v w us1 us2,
  chain_ok ds w ->
  us1 ++ us2 = concat (map diff_upds ds) ->
  exists st, u_apply_all us1 (mkU v w true true false) = Ok st /\
    (u_visible st = v \/ In (u_visible st) (scan ds w)).
Proof.
  induction ds as [|d ds IH]; intros v w us1 us2 C E; cbn [map concat] in E.
  - apply app_eq_nil in E as [-> _]. eexists. split; [reflexivity|left; reflexivity].
  - destruct C as [B C]. apply app_eq_app in E as [m [[E1 E2]|[E1 E2]]].
    + (* us1 = diff_upds d ++ m : past this difference sequence *)
      subst us1. destruct (IH w (apply_diff_z d w) m us2 C (eq_sym E2)) as [st [A V]].
      exists st. split.
      * rewrite u_apply_all_app, (u_diff d v w B). cbn [bind]. exact A.
      * right. cbn [scan]. destruct V as [V|V]; [left; auto|right; exact V].
    + (* us1 inside this difference sequence *)
      pose proof (u_diff d v w B) as F. rewrite E1 in F.
      destruct (u_prefix_ok _ _ _ _ F) as [st1 [A1 _]].
      exists st1. split; [exact A1|].
      destruct us1 as [|u us1]; [cbn in A1; inversion A1; left; reflexivity|].
      unfold diff_upds in E1. cbn [app] in E1. inversion E1 as [[Hu Ht]]. subst u.
      right. cbn [scan]. left.
      (* after BeginBatchDelete the visible version is w and nothing commits *)
      cbn [Model.u_apply_all] in A1. unfold Model.u_apply at 1, u_commit in A1. cbn [u_fin u_open u_working u_write u_visible] in A1. rewrite B in A1.
      replace (if chk then Ok tt else Ok tt) with (@Ok unit tt) in A1 by (destruct chk; reflexivity). cbn in A1.
      assert (NC : forallb (fun u => negb (is_commit u)) us1 = true).
      { apply (forallb_prefix _ us1 m). rewrite <- Ht. rewrite forallb_app, no_commit_dels.
        cbn [forallb is_commit negb andb]. apply no_commit_adds. }
      rewrite (u_apply_all_visible _ _ _ A1 NC). reflexivity.
Qed.

Definition final_zone (snew : N) (ds : list diff) (old : zone) : zone :=
  z_update_soa snew (fold_left (fun z d => apply_diff_z d z) ds old).

(* every prefix of the update stream of a valid IXFR leaves readers on a
   version of the chain: old, an intermediate one, or (whole stream) new *)
Theorem ixfr_prefix_visible snew ds old us1 us2 :
  chain_ok ds old ->
  us1 ++ us2 = ixfr_upds snew ds ->
  exists st, u_apply_all us1 (u_start old) = Ok st /\
    (In (u_visible st) (scan ds old) \/ (us2 = [] /\ u_visible st = final_zone snew ds old)) /\
    (us2 <> [] -> u_fin st = false).
Proof.
  intros C E. unfold ixfr_upds in E.
  pose proof (u_ixfr snew ds old C) as F. cbv zeta in F. unfold ixfr_upds in F.
  apply app_eq_app in E as [m [[E1 E2]|[E1 E2]]].
  - (* us1 = concat ++ m, [UFinished] = m ++ us2 *)
    destruct m as [|x m].
    + rewrite app_nil_r in E1. subst us1. cbn [app] in E2. subst us2.
      destruct (prefix_diffs ds old old _ [] C (app_nil_r _)) as [st [A V]].
      exists st. split; [exact A|]. split.
      * left. destruct V as [V|V]; [rewrite V; apply scan_head|exact V].
      * intros _. rewrite u_apply_all_app in F. unfold u_start in F. rewrite A in F. cbn [bind] in F.
        eapply u_not_fin_before. exact F.
    + cbn [app] in E2. inversion E2 as [[Hx Hm]]. subst x.
      symmetry in Hm. apply app_eq_nil in Hm as [-> ->]. subst us1.
      eexists. split; [exact F|]. split; [right; split; reflexivity|]. intros H; contradiction.
  - (* us1 strictly inside the difference sequences *)
    destruct (prefix_diffs ds old old us1 m C (eq_sym E1)) as [st [A V]].
    exists st. split; [exact A|]. split.
    + left. destruct V as [V|V]; [rewrite V; apply scan_head|exact V].
    + intros _. rewrite E1 in F. rewrite <- app_assoc in F. rewrite u_apply_all_app in F.
      unfold u_start in F. rewrite A in F. cbn [bind] in F.
      destruct (m ++ [UFinished snew]) eqn:Q; [destruct m; discriminate|].
      eapply u_not_fin_before. exact F.
Qed.

Example scan_example :
  scan [mkDiff 3 [5] 4 [6]] [Soa 3; Other 5; Other 9] = [[Soa 3; Other 5; Other 9]; [Other 6; Soa 4; Other 9]].
Proof. vm_compute. reflexivity. Qed.

(* --- record level --- *)
Lemma flat_split a : forall p b p2 us,
  flat p (a ++ b) = (p2, us, None) ->
  exists p1 us1 us2, flat p a = (p1, us1, None) /\ flat p1 b = (p2, us2, None) /\ us = us1 ++ us2.
Proof.
  intros p b p2 us H. rewrite flat_app in H.
  destruct (flat p a) as [[p1 us1] [e|]]; [discriminate|].
  destruct (flat p1 b) as [[p3 us2] e2] eqn:F. inversion H; subst. eauto 7.
Qed.

Lemma flat_not_finished_before p r b p2 us :
  flat p (r :: b) = (p2, us, None) -> p_finished p = false.
Proof.
  cbn [flat]. unfold process_record. destruct (p_finished p); [discriminate|reflexivity].
Qed.

(* a truncated IXFR (at least the closing SOA is missing), any packaging:
   never Done, the updates apply, readers see a version of the chain *)
Theorem reject_truncated_ixfr snew ds old ms cs rest :
  (forall d, In d ds -> d_old d <> snew) -> chain_ok ds old ->
  packs 251 ms cs -> concat cs ++ rest = ixfr_seq snew ds -> rest <> [] ->
  ~ lone_soa_first Ixfr cs ->
  snd (run None ms) <> SDone /\
  exists st, c10_apply old (fst (run None ms)) = Ok st /\ u_fin st = false /\
    In (u_visible st) (scan ds old).
Proof.
  intros Hne Hck Hp Hc Hr Hl.
  destruct (flat_ixfr snew ds Hne) as [p' [F _]]. rewrite <- Hc in F.
  destruct (flat_split _ _ _ _ _ F) as [p1 [us1 [us2 [F1 [F2 Eus]]]]].
  assert (Hnf : p_finished p1 = false).
  { destruct rest as [|r rest]; [contradiction|]. eapply flat_not_finished_before. exact F2. }
  (* the first record is the new SOA *)
  assert (Hs : exists tl, concat cs = Soa snew :: tl).
  { destruct ms as [|m ms], cs as [|c cs]; try contradiction.
    destruct Hp as [[_ [_ Hn]] _]. destruct c as [|r c]; [congruence|].
    cbn [concat app] in Hc |- *. unfold ixfr_seq in Hc. inversion Hc. eauto. }
  destruct Hs as [tl Hs].
  destruct (split_irrelevant_lemma Ixfr ms cs Hp Hl) as [H1 H2].
  unfold flat_run in H1, H2. rewrite Hs in H1, H2. rewrite <- Hs in H1, H2. rewrite F1 in H1, H2.
  assert (Hus : fst (run None ms) = us1) by (destruct (single_soa_fires p1); exact H1).
  split.
  - intros D. rewrite D in H2. destruct (single_soa_fires p1); try rewrite Hnf in H2; cbn in H2;
    destruct H2 as [H2|[e1 [e2 [H2 _]]]]; discriminate.
  - rewrite Hus.
    assert (Hu2 : us2 <> []).
    { (* the rest still produces the Finished update *)
      intros ->. rewrite app_nil_r in Eus. subst us1.
      (* p1 would have emitted UFinished and be finished *)
      assert (G : forall rs a0 a1 us, flat a0 rs = (a1, us, None) -> p_finished a0 = false ->
                  In (UFinished snew) us -> p_finished a1 = true \/ False).
      { induction rs as [|r rs IH]; intros a0 a1 us Fl Hf Hin; cbn [flat] in Fl.
        - inversion Fl; subst. destruct Hin.
        - destruct (process_record a0 r) as [q [e|usr]] eqn:PR; [discriminate|].
          destruct (flat q rs) as [[q2 us'] e'] eqn:Fq. inversion Fl; subst.
          apply in_app_iff in Hin as [Hin|Hin].
          + (* emitted here: q is finished, so rs must be empty *)
            assert (Qf : p_finished q = true).
            { unfold process_record in PR. rewrite Hf in PR. unfold start_count, fallback_count, set_finished, toggle in PR.
              destruct (p_count a0 + 1 =? 1).
              - destruct (is_soa r); inversion PR; subst; destruct Hin.
              - destruct (p_ty a0), r as [s|k]; cbn [is_soa negb andb] in PR;
                repeat match type of PR with
                | context [if ?b then _ else _] => destruct b
                | context [match ?x with Deleting => _ | Adding => _ end] => destruct x
                end; cbn in PR; inversion PR; subst; cbn in Hin;
                repeat (destruct Hin as [Hin|Hin]; try discriminate Hin); try contradiction; reflexivity. }
            destruct rs as [|r2 rs].
            * cbn in Fq. inversion Fq; subst. left. exact Qf.
            * cbn [flat] in Fq. unfold process_record in Fq. rewrite Qf in Fq. discriminate.
          + destruct (p_finished q) eqn:Qf.
            * destruct rs as [|r2 rs]; [cbn in Fq; inversion Fq; subst; destruct Hin|].
              cbn [flat] in Fq. unfold process_record in Fq. rewrite Qf in Fq. discriminate.
            * eapply IH; eauto. }
      unfold ixfr_upds in F1.
      destruct (G _ _ _ _ F1 eq_refl) as [Q|[]]; [apply in_app_iff; right; left; reflexivity|].
      congruence. }
    destruct (ixfr_prefix_visible snew ds old us1 us2 Hck (eq_sym Eus)) as [st [A [V Fn]]].
    exists st. idtac. split; [exact A|]. split; [apply Fn; exact Hu2|].
    destruct V as [V|[E _]]; [exact V|contradiction].
Qed.

(* the closing SOA is not the opening one: the stream never finishes.  All
   difference sequences apply; the stray SOA opens a further batch (committing
   the last version of the chain) or, with the updater's SOA check, is refused *)
Theorem reject_mismatched_close_ixfr snew s' ds old ms cs :
  s' <> snew -> (forall d, In d ds -> d_old d <> snew) -> chain_ok ds old ->
  packs 251 ms cs -> concat cs = Soa snew :: concat (map diff_seq ds) ++ [Soa s'] ->
  ~ lone_soa_first Ixfr cs ->
  run None ms = (concat (map diff_upds ds) ++ [UBeginDel s'], SIncomplete) /\
  (exists st, c10_apply old (concat (map diff_upds ds)) = Ok st /\
     u_fin st = false /\ In (u_working st) (scan ds old)) /\
  (forall st, c10_apply old (concat (map diff_upds ds) ++ [UBeginDel s']) = Ok st ->
     u_fin st = false /\ In (u_visible st) (scan ds old)).
Proof.
  intros Hs Hne Hck Hp Hc Hl.
  assert (E : (s' =? snew) = false) by (destruct (N.eqb_spec s' snew); [contradiction|reflexivity]).
  assert (F : exists p', flat (proc_new Ixfr snew) (concat cs) =
                (p', concat (map diff_upds ds) ++ [UBeginDel s'], None) /\
                p_finished p' = false /\ single_soa_fires p' = false).
  { rewrite Hc. unfold proc_new, initial_mode_adding.
    cbn [flat]. unfold process_record at 1, start_count. cbn.
    destruct (flat_diffs ds snew snew 1 false ltac:(lia) Hne) as [c' [cur' [Hc' Fd]]].
    rewrite flat_app, Fd.
    cbn [flat]. unfold process_record, start_count, fallback_count, toggle.
    cbn [p_finished p_count p_ty p_deleted p_initial p_current p_mode is_soa negb andb].
    rewrite succ_ne_1 by lia. rewrite andb_false_r. rewrite E. cbn.
    eexists. split; [reflexivity|]. cbn. split; [reflexivity|].
    unfold single_soa_fires. cbn. destruct (N.eqb_spec (c' + 1) 1); [lia|reflexivity]. }
  destruct F as [p' [F [Hf Q]]].
  destruct (u_diffs ds old old Hck) as [v' A].
  split; [|split].
  - apply (run_incomplete Ixfr ms cs _ p' Hp Hl).
    exists snew, (concat (map diff_seq ds) ++ [Soa s']). auto.
  - eexists. unfold u_start. split; [exact A|]. cbn. split; [reflexivity|apply scan_last].
  - intros st H. unfold u_start in H. rewrite u_apply_all_app, A in H. cbn [bind Model.u_apply_all] in H.
    unfold Model.u_apply, u_commit in H. cbn [u_fin u_open u_working u_write u_visible] in H.
    destruct (if chk then if batch_soa_ok chk s' (fold_left (fun z d => apply_diff_z d z) ds old)
                          then Ok tt else Err E_SoaMismatch else Ok tt) as [[]| | |];
      cbn in H; inversion H; subst; cbn. split; [reflexivity|apply scan_last].
Qed.

Example reject_truncated_ixfr_nonvacuous :
  exists ms cs rest, packs 251 ms cs /\ rest <> [] /\
    concat cs ++ rest = ixfr_seq 4 [mkDiff 3 [5] 4 [6]] /\ ~ lone_soa_first Ixfr cs.
Proof.
  exists [mkMsg (mkHdr true 0 0 false 1 3 0 (Some 251)) [Rec (Soa 4); Rec (Soa 3); Rec (Other 5)]],
         [[Soa 4; Soa 3; Other 5]], [Soa 4; Other 6; Soa 4].
  split; [|split; [discriminate|split; [reflexivity|]]].
  - cbn. repeat split; try (cbn; lia); try discriminate. constructor.
  - intros [_ [r [cs' [E _]]]]. discriminate.
Qed.

End WithChk.

(* ------------------------------------------------------------------ *)
(* difference sequences that do not chain (finding
   ixfr_unchained_diff_accepted).  process_record stores current_soa and never
   compares it; ZoneUpdater::apply ignores the SOA of BeginBatchDelete unless
   the check of pending/C10-updater-soa-check.diff is there
   (Gen.updater_checks_batch_soa). *)
Definition unchained_witness_msgs : list msg :=
  [mkMsg (mkHdr true 0 0 false 1 6 0 (Some 251))
     [Rec (Soa 64); Rec (Soa 62); Rec (Other 5); Rec (Other 11); Rec (Soa 64); Rec (Other 12); Rec (Soa 64)]].
Definition unchained_witness_old : zone := [Soa 60; Other 0; Other 5].

(* without the check the stream is accepted: readers get "serial 32" (SOA id
   64) built from a diff that starts at serial 31 while the zone was at 30 *)
Lemma unchained_diff_accepted_refuted :
  packs 251 unchained_witness_msgs [[Soa 64; Soa 62; Other 5; Other 11; Soa 64; Other 12; Soa 64]] /\
  ~ soa_chain 60 [mkDiff 62 [5; 11] 64 [12]] /\
  exists us st, run None unchained_witness_msgs = (us, SDone) /\
    u_apply_all false us (u_start unchained_witness_old) = Ok st /\ u_fin st = true /\
    z_first_soa (u_visible st) = Some 64.
Proof.
  split; [cbn; repeat split; try (cbn; lia); try discriminate; constructor|].
  split; [intros [H _]; vm_compute in H; discriminate|].
  eexists. eexists. split; [vm_compute; reflexivity|]. split; [vm_compute; reflexivity|].
  split; reflexivity.
Qed.

(* with the check any batch that does not start at the serial of the working
   copy is refused before anything is committed *)
Theorem unchained_batch_rejected s w v rest :
  batch_soa_ok true s w = false ->
  u_apply_all true (UBeginDel s :: rest) (mkU v w true true false) = Err E_SoaMismatch.
Proof.
  intros B. cbn [u_apply_all]. unfold u_apply. cbn [u_fin u_open u_working]. rewrite B. reflexivity.
Qed.

Example unchained_batch_rejected_nonvacuous :
  batch_soa_ok true 62 unchained_witness_old = false.
Proof. vm_compute. reflexivity. Qed.

(* the statement of the property for such streams: the offending batch is
   refused, and whatever prefix of the stream was applied before, readers see a
   version that was reached by difference sequences that chain *)
Theorem unchained_rejected snew ds1 d ds2 old :
  chain_ok true ds1 old ->
  batch_soa_ok true (d_old d) (fold_left (fun z x => apply_diff_z x z) ds1 old) = false ->
  u_apply_all true (ixfr_upds snew (ds1 ++ d :: ds2)) (u_start old) = Err E_SoaMismatch /\
  (forall us1 us2 st, us1 ++ us2 = ixfr_upds snew (ds1 ++ d :: ds2) ->
     u_apply_all true us1 (u_start old) = Ok st ->
     u_fin st = false /\ In (u_visible st) (scan ds1 old)).
Proof.
  intros C B.
  destruct (u_diffs true ds1 old old C) as [v' A].
  assert (Esplit : exists tl, ixfr_upds snew (ds1 ++ d :: ds2) =
            concat (map diff_upds ds1) ++ UBeginDel (d_old d) :: tl).
  { unfold ixfr_upds. rewrite map_app, concat_app. cbn [map concat]. unfold diff_upds at 2.
    rewrite <- app_assoc. cbn [app]. eexists. reflexivity. }
  destruct Esplit as [tl Esplit].
  split.
  - rewrite Esplit, (Proofs2.u_apply_all_app true). unfold u_start. rewrite A. cbn [bind].
    apply unchained_batch_rejected. exact B.
  - intros us1 us2 st E H. rewrite Esplit in E.
    apply app_eq_app in E as [m [[E1 E2]|[E1 E2]]].
    + (* us1 reaches past the chained part *)
      destruct m as [|x m].
      * rewrite app_nil_r in E1. subst us1. unfold u_start in H. rewrite A in H. inversion H; subst. cbn.
        split; [reflexivity|].
        destruct (prefix_diffs true ds1 old old _ [] C (app_nil_r _)) as [st2 [A2 V]].
        rewrite A in A2. inversion A2; subst. cbn in V. destruct V as [V|V]; [rewrite V; apply scan_head|exact V].
      * exfalso. cbn [app] in E2. inversion E2 as [[Hx Hm]]. subst x us1.
        rewrite (Proofs2.u_apply_all_app true) in H. unfold u_start in H. rewrite A in H. cbn [bind] in H.
        rewrite (unchained_batch_rejected _ _ _ m B) in H. discriminate.
    + (* us1 inside the chained part *)
      destruct (prefix_diffs true ds1 old old us1 m C (eq_sym E1)) as [st2 [A2 V]].
      unfold u_start in H. rewrite A2 in H. inversion H; subst st2. split.
      * destruct m as [|x m].
        { rewrite app_nil_r in E1. subst us1. rewrite A in A2. inversion A2; subst. reflexivity. }
        { rewrite E1, (Proofs2.u_apply_all_app true), A2 in A. cbn [bind] in A.
          eapply (u_not_fin_before true). exact A. }
      * destruct V as [V|V]; [rewrite V; apply scan_head|exact V].
Qed.

Example unchained_rejected_nonvacuous :
  u_apply_all true (ixfr_upds 64 ([] ++ mkDiff 62 [5; 11] 64 [12] :: [])) (u_start unchained_witness_old)
  = Err E_SoaMismatch.
Proof. vm_compute. reflexivity. Qed.
