(* C10 proofs, part K: single-message faults at ANY position of ANY stream.
   A message the interpreter refuses whatever its state (corrupt header, an
   unparsable record) ends the stream with an error: the updates are those of
   the messages before it (plus the updates of its own records before the bad
   one), nothing after it is looked at, and the status is an error - never
   done, incomplete or a panic.  Updater side: what is visible after any
   update sequence is what was visible at its last commit point. *)
From Coq Require Import NArith List Bool Lia.
From DV Require Import Base.Outcome C10.Gen C10.Model C10.Proofs1 C10.Proofs2.
Import ListNotations.
Local Open Scope N_scope.

(* the message is refused in every interpreter state *)
Definition refused (r : iresult) : Prop :=
  match r with IErr _ => True | IUpd _ (Some _) => True | _ => False end.

Definition rejecting (m : msg) : Prop := forall st, refused (snd (interpret_response st m)).

Lemma run_cut_at_rejecting m : rejecting m -> forall ms1 ms2 st,
  run st (ms1 ++ m :: ms2) = run st (ms1 ++ [m]) /\
  exists e, snd (run st (ms1 ++ m :: ms2)) = SErr e.
Proof.
  intros R ms1 ms2. induction ms1 as [|a ms1 IH]; intros st; cbn [app run].
  - specialize (R st). destruct (interpret_response st m) as [st' [e|us [e|]|site]];
      cbn in R; try contradiction; (split; [reflexivity|eexists; reflexivity]).
  - pose proof (interpret_no_panic st a) as NP.
    destruct (interpret_response st a) as [st' [e|us [e|]|site]]; cbn [snd] in *.
    + split; [reflexivity|eexists; reflexivity].
    + split; [reflexivity|eexists; reflexivity].
    + destruct (IH st') as [E [e He]]. rewrite E.
      destruct (run st' (ms1 ++ [m])) as [us' s'] eqn:Q. split; [reflexivity|].
      exists e. rewrite E in He. cbn [snd] in *. exact He.
    + exfalso. apply (NP site). reflexivity.
Qed.

(* the updates delivered are at least those of the messages before the fault *)
Lemma run_prefix_updates m ms1 : forall ms2 st us,
  run st ms1 = (us, SIncomplete) ->
  exists us', fst (run st (ms1 ++ m :: ms2)) = us ++ us'.
Proof.
  induction ms1 as [|a ms1 IH]; intros ms2 st us H; cbn [app run] in *.
  - destruct (st_finished st); inversion H; subst. cbn [app]. eauto.
  - destruct (interpret_response st a) as [st' [e|u1 [e|]|site]]; try (inversion H; fail).
    destruct (run st' ms1) as [u2 s2] eqn:Q. inversion H; subst.
    destruct (IH ms2 st' u2 Q) as [us' E].
    destruct (run st' (ms1 ++ m :: ms2)) as [u3 s3]. cbn [fst] in *. subst u3.
    exists us'. apply app_assoc.
Qed.

(* ---- corrupt header ---- *)
Lemma bad_header_rejecting m :
  (forall first, check_response first (m_hdr m) = true) -> rejecting m.
Proof.
  intros H st. unfold interpret_response.
  destruct (st_finished st); [exact I|]. rewrite H. exact I.
Qed.

(* a header fault of one of the six kinds check_response lists is refused
   whether or not the message is the first one *)
Lemma header_fault_both m :
  existsb (fun t => check_cond t (m_hdr m)) check_tags = true ->
  forall first, check_response first (m_hdr m) = true.
Proof. intros H first. unfold check_response. rewrite H. reflexivity. Qed.

Lemma corrupt_header_anywhere m ms1 ms2 st :
  (forall first, check_response first (m_hdr m) = true) ->
  fst (run st (ms1 ++ m :: ms2)) = fst (run st ms1) /\
  exists e, snd (run st (ms1 ++ m :: ms2)) = SErr e.
Proof.
  intros H. split; [|apply (run_cut_at_rejecting m (bad_header_rejecting m H))].
  revert st. induction ms1 as [|a ms1 IH]; intros st; cbn [app run].
  - unfold interpret_response. destruct (st_finished st); [reflexivity|]. rewrite H. reflexivity.
  - destruct (interpret_response st a) as [st' [e|us [e|]|site]]; try reflexivity.
    specialize (IH st'). destruct (run st' (ms1 ++ m :: ms2)) as [u1 s1].
    destruct (run st' ms1) as [u2 s2]. cbn [fst] in *. subst. reflexivity.
Qed.

Example corrupt_header_nonvacuous :
  let h := mkHdr true 0 0 true 1 1 0 (Some 252) in
  (forall first, check_response first h = true) /\
  existsb (fun t => check_cond t h) check_tags = true.
Proof. split; [intros []; reflexivity|reflexivity]. Qed.

(* ---- an unparsable record ---- *)
Lemma iter_msg_bad pre post : forall p,
  exists p' us e, iter_msg p (pre ++ Bad :: post) = (p', us, Some e).
Proof.
  induction pre as [|[r|] pre IH]; intros p; cbn [app iter_msg].
  - eauto.
  - destruct (process_record p r) as [p1 [e|us]]; [eauto|].
    destruct (IH p1) as [p' [us' [e E]]]. rewrite E. eauto.
  - eauto.
Qed.

Lemma bad_record_rejecting m pre post :
  m_items m = pre ++ Bad :: post -> rejecting m.
Proof.
  intros H st. unfold interpret_response.
  destruct (st_finished st); [exact I|].
  destruct (check_response _ _); [exact I|].
  destruct st as [p|].
  - rewrite H. destruct (iter_msg_bad pre post p) as [p' [us [e E]]]. rewrite E. exact I.
  - destruct (inner_new m) as [e|p]; [exact I|].
    rewrite H. destruct (iter_msg_bad pre post p) as [p' [us [e E]]]. rewrite E. exact I.
Qed.

Lemma bad_record_anywhere m pre post ms1 ms2 st :
  m_items m = pre ++ Bad :: post ->
  run st (ms1 ++ m :: ms2) = run st (ms1 ++ [m]) /\
  exists e, snd (run st (ms1 ++ m :: ms2)) = SErr e.
Proof. intros H. apply (run_cut_at_rejecting m (bad_record_rejecting m pre post H)). Qed.

Example bad_record_nonvacuous :
  let m := mkMsg (mkHdr true 0 0 false 1 2 0 (Some 252)) [Rec (Soa 1); Rec (Other 3); Bad; Rec (Soa 1)] in
  m_items m = [Rec (Soa 1); Rec (Other 3)] ++ Bad :: [Rec (Soa 1)] /\
  run None [m] = ([UDeleteAll; UAdd (Other 3)], SErr E_IterParse).
Proof. split; reflexivity. Qed.

(* ---- a rejected message never makes a transfer complete, whatever follows ---- *)
Lemma rejecting_never_done m ms1 ms2 st :
  rejecting m ->
  snd (run st (ms1 ++ m :: ms2)) <> SDone /\ snd (run st (ms1 ++ m :: ms2)) <> SIncomplete.
Proof.
  intros R. destruct (run_cut_at_rejecting m R ms1 ms2 st) as [_ [e ->]].
  split; discriminate.
Qed.

(* ---- updater: visible = visible at the last commit point ---- *)
Section Upd.
Variable chk : bool.

Lemma visible_is_last_commit us1 us2 st st' :
  u_apply_all chk (us1 ++ us2) st = Ok st' ->
  forallb (fun u => negb (is_commit u)) us2 = true ->
  exists st1, u_apply_all chk us1 st = Ok st1 /\ u_visible st' = u_visible st1.
Proof.
  intros H NC. rewrite (u_apply_all_app chk) in H.
  destruct (u_apply_all chk us1 st) as [st1| | |]; cbn [bind] in H; try discriminate.
  exists st1. split; [reflexivity|]. eapply (u_apply_all_visible chk); eauto.
Qed.

(* nothing is applied after Finished: duplicated or reordered tail updates are refused *)
Lemma finished_is_terminal u us st :
  u_fin st = true -> u_apply_all chk (u :: us) st = Err E_Finished.
Proof. intros H. cbn [u_apply_all]. unfold u_apply. rewrite H. reflexivity. Qed.

End Upd.

Example visible_is_last_commit_nonvacuous :
  u_apply_all true ([UDeleteAll; UAdd (Other 1); UFinished 4] ++ []) (u_start [Soa 2; Other 9])
  = Ok (mkU [Soa 4; Other 1] [Soa 4; Other 1] false false true).
Proof. reflexivity. Qed.
