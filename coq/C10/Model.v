(* C10 model: zone transfer interpretation and application.

   net/xfr/protocol/interpreter.rs  XfrResponseInterpreter::{interpret_response,
       check_response, initialize}, Inner::new, RecordProcessor::{new,
       process_record}
   net/xfr/protocol/iterator.rs     XfrZoneUpdateIterator::next
   net/xfr/protocol/types.rs        XfrType, IxfrUpdateMode::toggle, Error,
                                    IterationError
   zonetree/update.rs               ZoneUpdater::apply, ReopenableZoneWriter
                                    (commit / reopen / close / root)

   Records are abstract: a SOA is identified by a number (its whole RDATA; the
   code compares `Soa` values, owner and TTL do not take part), any other record
   by a key.  An answer section is the list of items its RecordIter yields:
   parsed records, or [Bad] where parsing fails (after which a consumer stops).
   A message is its header fields plus that list.

   Panic sites:  1 = `self.inner.as_mut().unwrap()` in interpret_response,
                 2 = `self.writable.as_ref().unwrap()` in ReopenableZoneWriter::root.
   rr_count is a usize in the code; its overflow (2^64 records) is not modelled. *)
From Coq Require Import NArith List Bool.
From DV Require Import Base.Outcome C10.Gen.
From DV Require C17.Gen C17.Model.
Import ListNotations.
Local Open Scope N_scope.

Inductive rr := Soa (s : N) | Other (k : N).
Inductive item := Rec (r : rr) | Bad.

Definition rr_eqb (a b : rr) : bool :=
  match a, b with
  | Soa x, Soa y => x =? y
  | Other x, Other y => x =? y
  | _, _ => false
  end.

Definition is_soa (r : rr) : bool := match r with Soa _ => true | Other _ => false end.

(* ---- message headers and check_response ---- *)
Record hdr := mkHdr {
  h_qr : bool; h_opcode : N; h_rcode : N; h_tc : bool;
  h_qd : N; h_an : N; h_ns : N;
  h_qtype : option N   (* Message::qtype(): type of the first question, if one parses *)
}.
Record msg := mkMsg { m_hdr : hdr; m_items : list item }.

(* the six conditions, numbered as in tools/gen/C10.py *)
Definition check_cond (tag : N) (h : hdr) : bool :=
  match tag with
  | 1 => negb (h_rcode h =? rcode_noerror)      (* resp.is_error() *)
  | 2 => negb (h_qr h)                          (* !qr *)
  | 3 => negb (h_opcode h =? opcode_query)      (* opcode != QUERY *)
  | 4 => h_tc h                                 (* tc *)
  | 5 => h_an h =? 0                            (* ancount == 0 *)
  | 6 => negb (h_ns h =? 0)                     (* nscount != 0 *)
  | _ => false
  end.

Definition cmp_op (op a b : N) : bool :=
  match op with
  | 0 => negb (a =? b) | 1 => b <? a | 2 => a <? b | 3 => a =? b
  | 4 => b <=? a | _ => a <=? b
  end.

(* true = rejected *)
Definition check_response (first : bool) (h : hdr) : bool :=
  existsb (fun t => check_cond t h) check_tags
  || (if first then cmp_op qd_first_op (h_qd h) qd_first_const
      else cmp_op qd_later_op (h_qd h) qd_later_const).

(* ---- RecordProcessor ---- *)
Inductive xfr_type := Axfr | Ixfr.
Inductive ixfr_mode := Deleting | Adding.
Definition toggle (m : ixfr_mode) := match m with Deleting => Adding | Adding => Deleting end.

Record proc := mkProc {
  p_ty : xfr_type; p_initial : N; p_current : N; p_mode : ixfr_mode;
  p_count : N; p_deleted : bool; p_finished : bool }.

Definition proc_new (ty : xfr_type) (s : N) : proc :=
  mkProc ty s s (if initial_mode_adding then Adding else Deleting) 0 false false.

Inductive upd :=
| UDeleteAll | UDelete (r : rr) | UAdd (r : rr)
| UBeginDel (s : N) | UBeginAdd (s : N) | UFinished (s : N).

(* Error: 1 NotValidXfrResponse 2 Malformed 3 Finished 4 ParseError
   IterationError: 11 ParseError 12 MissingInitialSoa 13 AlreadyFinished
                   14 SingleSoaIxfrTcpRetrySignal *)
Definition E_NotValid : N := 1.
Definition E_Malformed : N := 2.
Definition E_Finished : N := 3.
Definition E_IterParse : N := 11.
Definition E_MissingInitialSoa : N := 12.
Definition E_AlreadyFinished : N := 13.
Definition E_SingleSoa : N := 14.

Definition set_finished (p : proc) : proc :=
  mkProc (p_ty p) (p_initial p) (p_current p) (p_mode p) (p_count p) (p_deleted p) true.

(* process_record: new state and either an error or the 0, 1 or 2 updates *)
Definition process_record (p : proc) (r : rr) : proc * (N + list upd) :=
  if p_finished p then (p, inl E_AlreadyFinished) else
  let c := p_count p + 1 in
  let p1 := mkProc (p_ty p) (p_initial p) (p_current p) (p_mode p) c (p_deleted p) false in
  let matches := match r with Soa s => s =? p_initial p | Other _ => false end in
  if c =? start_count then
    (if is_soa r then (p1, inr []) else (p1, inl E_MissingInitialSoa))
  else
    let '(p2, u) :=
      match p_ty p with
      | Axfr =>
          match r with
          | Soa s => if matches then (p1, UFinished s) else (p1, UAdd r)
          | Other _ => (p1, UAdd r)
          end
      | Ixfr =>
          if (c =? fallback_count) && negb (is_soa r) then
            (mkProc Axfr (p_initial p) (p_current p) (p_mode p) c (p_deleted p) false, UAdd r)
          else
            match r with
            | Soa s =>
                let m := toggle (p_mode p) in
                let p' := mkProc Ixfr (p_initial p) s m c (p_deleted p) false in
                match m with
                | Deleting => if matches then (p', UFinished s) else (p', UBeginDel s)
                | Adding => (p', UBeginAdd s)
                end
            | Other _ =>
                match p_mode p with
                | Deleting => (p1, UDelete r)
                | Adding => (p1, UAdd r)
                end
            end
      end in
    let p3 := match u with UFinished _ => set_finished p2 | _ => p2 end in
    match p_ty p3, p_deleted p3 with
    | Axfr, false =>
        (mkProc (p_ty p3) (p_initial p3) (p_current p3) (p_mode p3) (p_count p3) true (p_finished p3),
         inr [UDeleteAll; u])
    | _, _ => (p3, inr [u])
    end.

(* XfrZoneUpdateIterator::next run to exhaustion (or to the first error, where a
   consumer stops): updates in order, optional IterationError. *)
Fixpoint iter_msg (p : proc) (items : list item) : proc * list upd * option N :=
  match items with
  | [] =>
      if negb (p_finished p) && (match p_ty p with Ixfr => true | Axfr => false end)
         && (p_count p =? single_soa_count)
      then (set_finished p, [], Some E_SingleSoa)
      else (p, [], None)
  | Bad :: _ => (p, [], Some E_IterParse)
  | Rec r :: rest =>
      match process_record p r with
      | (p', inl e) => (p', [], Some e)
      | (p', inr us) =>
          let '(p'', us', e) := iter_msg p' rest in (p'', us ++ us', e)
      end
  end.

(* Inner::new *)
Definition inner_new (m : msg) : N + proc :=
  match (match h_qtype (m_hdr m) with
         | Some q => if q =? qtype_axfr then Some Axfr
                     else if q =? qtype_ixfr then Some Ixfr else None
         | None => None end) with
  | None => inl E_NotValid
  | Some ty =>
      match m_items m with
      | [] => inl E_Malformed
      | Bad :: _ => inl E_Malformed
      | Rec (Other _) :: _ => inl E_NotValid
      | Rec (Soa s) :: _ => inr (proc_new ty s)
      end
  end.

Definition st_finished (st : option proc) : bool :=
  match st with Some p => p_finished p | None => false end.

(* interpret_response followed by draining the iterator.
   Result: new interpreter state and Err e (from interpret_response itself) or
   the updates and the optional iteration error. *)
Inductive iresult :=
| IErr (e : N)
| IUpd (us : list upd) (e : option N)
| IPanic (site : N).

Definition interpret_response (st : option proc) (m : msg) : option proc * iresult :=
  if st_finished st then (st, IErr E_Finished) else
  if check_response (match st with None => true | Some _ => false end) (m_hdr m)
  then (st, IErr E_NotValid) else
  let st1 : option proc + N :=
    match st with
    | Some p => inl (Some p)
    | None => match inner_new m with inl e => inr e | inr p => inl (Some p) end
    end in
  match st1 with
  | inr e => (st, IErr e)
  | inl None => (st, IPanic 1)
  | inl (Some p) =>
      let '(p', us, e) := iter_msg p (m_items m) in (Some p', IUpd us e)
  end.

(* a whole response stream fed by a consumer that stops at the first error *)
Inductive status := SDone | SIncomplete | SErr (e : N) | SPanic (site : N).

Fixpoint run (st : option proc) (ms : list msg) : list upd * status :=
  match ms with
  | [] => ([], if st_finished st then SDone else SIncomplete)
  | m :: rest =>
      match interpret_response st m with
      | (_, IErr e) => ([], SErr e)
      | (_, IPanic s) => ([], SPanic s)
      | (_, IUpd us (Some e)) => (us, SErr e)
      | (st', IUpd us None) => let '(us', s) := run st' rest in (us ++ us', s)
      end
  end.

(* ---- ZoneUpdater ---- *)
(* zone content: a list of records (the order is the RRset push order of the
   code, duplicates are kept as push_data keeps them) *)
Definition zone := list rr.

Definition z_delete (r : rr) (z : zone) : zone := filter (fun x => negb (rr_eqb x r)) z.
Definition z_update_soa (s : N) (z : zone) : zone := Soa s :: filter (fun x => negb (is_soa x)) z.

Record ustate := mkU {
  u_visible : zone;     (* what zone.read() serves: the last committed version *)
  u_working : zone;     (* the writer's private next version *)
  u_open : bool;        (* ReopenableZoneWriter.writable is Some *)
  u_write : bool;       (* ReopenableZoneWriter.write is Some *)
  u_fin : bool }.

Definition u_start (z : zone) : ustate := mkU z z true true false.

(* serial of a SOA id as the harness builds it: id / 2 *)
Definition soa_serial (id : N) : N := id / 2.

(* the SOA a reader of the RRset sees first: the most recently pushed one *)
Definition z_first_soa (z : zone) : option N :=
  match filter is_soa z with Soa s :: _ => Some s | _ => None end.

(* ZoneUpdater::check_soa_serial (present when tools/gen/C10.py finds the call in
   the BeginBatchDelete arm, Gen.updater_checks_batch_soa): the SOA that opens a
   batch must carry the serial of the zone version being edited.
   Error::SoaMismatch = 5 *)
Definition E_SoaMismatch : N := 5.
Definition batch_soa_ok (chk : bool) (s : N) (w : zone) : bool :=
  if chk then
    match z_first_soa w with Some x => soa_serial x =? soa_serial s | None => false end
  else true.

Section Updater.
Variable chk : bool.

(* Error::Finished = 3 (shared number with the interpreter's Finished) *)
Definition with_root (st : ustate) (f : zone -> zone) : outcome ustate :=
  if u_open st then Ok (mkU (u_visible st) (f (u_working st)) true (u_write st) (u_fin st))
  else Panic 2.

Definition u_commit (st : ustate) : outcome ustate :=
  if u_open st then
    if u_write st then Ok (mkU (u_working st) (u_working st) false true (u_fin st))
    else Err E_Finished
  else Ok st.

Definition u_apply (u : upd) (st : ustate) : outcome ustate :=
  if u_fin st then Err E_Finished else
  match u with
  | UDeleteAll =>
      if u_open st then Ok (mkU (u_visible st) [] true (u_write st) (u_fin st)) else Ok st
  | UDelete r => with_root st (z_delete r)
  | UAdd r => with_root st (cons r)
  | UBeginDel s =>
      do _ <- (if chk then
                 if u_open st then
                   if batch_soa_ok chk s (u_working st) then Ok tt else Err E_SoaMismatch
                 else Panic 2
               else Ok tt);
      do st1 <- u_commit st;
      if u_write st1 then Ok (mkU (u_visible st1) (u_working st1) true true (u_fin st1))
      else Err E_Finished
  | UBeginAdd s => with_root st (z_update_soa s)
  | UFinished s =>
      do st1 <- with_root st (z_update_soa s);
      do st2 <- u_commit st1;
      if u_write st2 then Ok (mkU (u_visible st2) (u_working st2) false false true)
      else Err E_Finished
  end.

Fixpoint u_apply_all (us : list upd) (st : ustate) : outcome ustate :=
  match us with
  | [] => Ok st
  | u :: rest => do st' <- u_apply u st; u_apply_all rest st'
  end.

(* several transfers against the same zone, one ZoneUpdater each.  Dropping an
   updater (finished or not) discards its private working copy: WriteZone::drop
   rolls the unpublished version back when `dirty` is set, which open() arms on
   every (re)open.  The next updater therefore starts from what is visible.
   Result: the visible content after each transfer. *)
Fixpoint u_transfers (uss : list (list upd)) (z : zone) : outcome (list zone) :=
  match uss with
  | [] => Ok []
  | us :: rest =>
      do st <- u_apply_all us (u_start z);
      do zs <- u_transfers rest (u_visible st);
      Ok (u_visible st :: zs)
  end.

End Updater.

(* ---- sender side: the record sequences (xfr middleware ZoneFunneler /
   DiffFunneler order) ---- *)
Definition axfr_seq (s : N) (recs : list N) : list rr :=
  Soa s :: map Other recs ++ [Soa s].

Record diff := mkDiff { d_old : N; d_dels : list N; d_new : N; d_adds : list N }.

Definition diff_seq (d : diff) : list rr :=
  Soa (d_old d) :: map Other (d_dels d) ++ Soa (d_new d) :: map Other (d_adds d).

Definition ixfr_seq (snew : N) (ds : list diff) : list rr :=
  Soa snew :: concat (map diff_seq ds) ++ [Soa snew].

(* ---- XfrMiddlewareSvc::preprocess: which answer for which request and zone
   state (net/server/middleware/xfr/service.rs).  Serials are compared with
   Serial's PartialOrd (`query_serial >= soa.serial()`), i.e. C17's serial_ge. *)
Inductive prov_result :=
| PData (ndiffs : N) (compat : bool)     (* Ok(XfrData): number of diffs, compatibility mode *)
| PParse | PUnknown | PUnavailable | PRefused.

Record xreq := mkReq {
  rq_relevant : bool;        (* opcode QUERY, QR clear, exactly one question *)
  rq_qtype : N;
  rq_serial : option N;      (* serial of the first SOA in the authority section *)
  rq_udp : bool }.

Inductive decision :=
| DContinue                  (* not ours: passed to the next service *)
| DErr (rcode : N)           (* Err(OptRcode) *)
| DNotimp                    (* a NOTIMP response (AXFR over UDP) *)
| DAxfr (one_rr_per_msg : bool)   (* the whole zone, AXFR-style *)
| DSingleSoa                 (* the zone SOA alone: the client is not behind *)
| DIxfr                      (* difference sequences *)
| DPanic.                    (* unreachable!(): diffs for an AXFR question *)

Definition decide (rq : xreq) (pr : prov_result) (zone_serial : option N) : decision :=
  if negb (rq_relevant rq && ((rq_qtype rq =? qtype_axfr) || (rq_qtype rq =? qtype_ixfr))) then DContinue
  else if (rq_qtype rq =? qtype_ixfr) && (match rq_serial rq with None => true | Some _ => false end)
  then DErr rc_ixfr_no_soa
  else match pr with
  | PParse => DErr rc_prov_parse
  | PUnknown => DErr rc_prov_unknown
  | PUnavailable => DErr rc_prov_unavailable
  | PRefused => DErr rc_prov_refused
  | PData n compat =>
      match zone_serial with
      | None => DErr rc_no_soa
      | Some zs =>
          if (rq_qtype rq =? qtype_axfr) && rq_udp rq then DNotimp
          else if n =? 0 then DAxfr (compat && (if sender_compat_axfr_only then rq_qtype rq =? qtype_axfr else true))
          else if rq_qtype rq =? qtype_ixfr then
            match rq_serial rq with
            | Some qs => if C17.Model.serial_ge qs zs then DSingleSoa else DIxfr
            | None => DPanic
            end
          else DPanic
      end
  end.

(* ---- the stream client's end-of-transfer detection:
   net/client/stream.rs check_stream / XFRState (per response message; the
   is_answer and RCODE branches are C15's: here the message answers the request
   with NOERROR).  It compares SOA serials only (soa_serial of the abstract id).
   Result: (eof, new state). *)
Inductive cstate :=
| CAxfrInit | CAxfrFirstSoa (s : N) | CIxfrInit | CIxfrFirstSoa (s : N)
| CIxfrFirstDiffSoa (s : N) | CIxfrSecondDiffSoa (s : N) | CDone | CError.

(* one record: inl = keep iterating, inr = early return (eof, state) *)
Definition client_rec (st : cstate) (r : rr) : cstate + (bool * cstate) :=
  match st, r with
  | CAxfrInit, Soa x => inl (CAxfrFirstSoa (soa_serial x))
  | CAxfrInit, Other _ => inr (false, CError)
  | CAxfrFirstSoa s, Soa x => if s =? soa_serial x then inl CDone else inr (false, CError)
  | CAxfrFirstSoa s, Other _ => inl st
  | CIxfrInit, Soa x => inl (CIxfrFirstSoa (soa_serial x))
  | CIxfrInit, Other _ => inr (false, CError)
  | CIxfrFirstSoa s, Soa x => if s =? soa_serial x then inl CDone else inl (CIxfrFirstDiffSoa s)
  | CIxfrFirstSoa s, Other _ => inl (CAxfrFirstSoa s)
  | CIxfrFirstDiffSoa s, Soa _ => inl (CIxfrSecondDiffSoa s)
  | CIxfrFirstDiffSoa s, Other _ => inl st
  | CIxfrSecondDiffSoa s, Soa x => if s =? soa_serial x then inl CDone else inl (CIxfrFirstDiffSoa s)
  | CIxfrSecondDiffSoa s, Other _ => inl st
  | CDone, _ => inr (false, CError)
  | CError, _ => inr (false, CError)     (* panic!("should not be here"): excluded by the entry check *)
  end.

Fixpoint client_items (st : cstate) (items : list item) : bool * cstate :=
  match items with
  | [] =>
      match st with
      | CAxfrInit | CIxfrInit => (false, CError)
      | CIxfrFirstSoa _ => (true, CDone)
      | CDone => (true, CDone)
      | _ => (false, st)
      end
  | Bad :: _ => (true, CError)
  | Rec r :: rest =>
      match client_rec st r with
      | inl st' => client_items st' rest
      | inr res => res
      end
  end.

Definition client_msg (st : cstate) (m : msg) : bool * cstate :=
  match st with
  | CDone => (false, CError)
  | CError => (false, CError)
  | _ => client_items st (m_items m)
  end.

(* what the requester sees (Transport::demux_reply): per message Ok(message) when
   is_answer (every return of check_stream except the ones into the Error
   state) or Err(WrongReplyForQuery); after an eof the stream is closed and
   later messages are dropped.  Result: the is_answer flags, and whether the
   stream was closed by an eof. *)
Definition is_cerror (st : cstate) : bool := match st with CError => true | _ => false end.

Fixpoint client_stream (st : cstate) (ms : list msg) : list bool * bool :=
  match ms with
  | [] => ([], false)
  | m :: rest =>
      let '(eof, st') := client_msg st m in
      let ok := negb (is_cerror st') in
      if eof then ([ok], true)
      else let '(l, e) := client_stream st' rest in (ok :: l, e)
  end.

Definition client_init (q : N) : cstate := if q =? qtype_axfr then CAxfrInit else CIxfrInit.

(* ---- sender side as functions: net/server/middleware/xfr/{service,axfr,ixfr,
   responder,batcher}.rs and net/server/batcher.rs ----
   ZoneFunneler: the SOA read from the snapshot, every RRset of the walk except
   the SOA, the SOA again.  DiffFunneler: the zone SOA, per diff the removed SOA,
   the removed RRsets except the SOA, the added SOA, the added RRsets except the
   SOA, then the zone SOA again (= ixfr_seq).  A zone without SOA is SERVFAIL. *)
Definition memN (x : N) (l : list N) : bool := existsb (N.eqb x) l.

Definition keys_of (z : zone) : list N :=
  flat_map (fun r => match r with Other k => [k] | Soa _ => [] end) z.

Definition sender_axfr (z : zone) : option (list rr) :=
  match z_first_soa z with
  | Some s => Some (axfr_seq s (keys_of z))
  | None => None
  end.

(* the difference between two versions as the zone reports it (set difference
   per RRset, SOA bracketing) *)
Definition mk_diff (v v' : N * list N) : diff :=
  mkDiff (fst v) (filter (fun k => negb (memN k (snd v'))) (snd v))
         (fst v') (filter (fun k => negb (memN k (snd v))) (snd v')).

Fixpoint mk_diffs (vs : list (N * list N)) : list diff :=
  match vs with
  | v :: ((v' :: _) as rest) => mk_diff v v' :: mk_diffs rest
  | _ => []
  end.

Definition zone_of (v : N * list N) : zone := Soa (fst v) :: map Other (snd v).

Definition sender_ixfr (vs : list (N * list N)) : list rr :=
  ixfr_seq (fst (last vs (0, []))) (mk_diffs vs).

(* CallbackBatcher::push / XfrRrBatcher: records are pushed into the current
   message while they fit ([size], [limit] abstract the octet accounting of the
   message builder and the push limit); when a push fails on a non-empty message
   it is sent and the record pushed into a fresh one (Retry); a record that does
   not fit an empty message is a PushError (9); with a hard record limit the
   message is sent when it holds that many records (compatibility mode: 1). *)
Fixpoint batch_go (size : rr -> N) (limit : N) (hard : option N)
    (cur : list rr) (cursz : N) (rs : list rr) : outcome (list (list rr)) :=
  match rs with
  | [] => Ok (match cur with [] => [] | _ => [rev cur] end)
  | r :: rest =>
      let fits_here := cursz + size r <=? limit in
      let '(pre, cur0, sz0, ok) :=
        if fits_here then ([], cur, cursz, true)
        else match cur with
             | [] => ([], cur, cursz, false)
             | _ => ([rev cur], [], 0, size r <=? limit)
             end in
      if ok then
        let cur' := r :: cur0 in
        let sz' := sz0 + size r in
        if (match hard with Some h => N.of_nat (length cur') =? h | None => false end) then
          do t <- batch_go size limit hard [] 0 rest; Ok (pre ++ rev cur' :: t)
        else
          do t <- batch_go size limit hard cur' sz' rest; Ok (pre ++ t)
      else Err 9
  end.

(* BatchingRrResponder::run: hard_rr_limit = Some(1) in compatibility mode, which
   service.rs passes on for AXFR questions only (T1: sender_compat_axfr_only,
   compat_rr_limit) *)
Definition sender_hard (compat : bool) (q : N) : option N :=
  if compat && ((q =? qtype_axfr) || negb sender_compat_axfr_only)
  then Some compat_rr_limit else None.

Definition batch (size : rr -> N) (limit : N) (hard : option N) (rs : list rr) :=
  batch_go size limit hard [] 0 rs.

(* every response copies the question (start_answer), QR set, NOERROR *)
Definition sender_msgs (q : N) (chunks : list (list rr)) : list msg :=
  map (fun c => mkMsg (mkHdr true opcode_query rcode_noerror false 1 (N.of_nat (length c)) 0 (Some q))
                      (map Rec c)) chunks.

(* ---- diff capture: zonetree/in_memory/write.rs WriteNode::{update_rrset,
   remove_rrset, remove_all}, WriteZone::commit (SOA bracketing),
   zonetree/types.rs InMemoryZoneDiffBuilder::{add,remove,build}, driven by
   ZoneUpdater::{add_record_to_rrset, delete_record_from_rrset, update_soa} ----
   An RRset is (ttl, data list) under a key (owner, type); key 0 is the apex SOA.
   Rrset equality is the derived one: ttl and the data vector in order. *)
Definition rrs := (N * list N)%type.
Definition store := list (N * rrs).

Fixpoint s_get (k : N) (st : store) : option rrs :=
  match st with
  | [] => None
  | (k', v) :: rest => if k' =? k then Some v else s_get k rest
  end.
Fixpoint s_remove (k : N) (st : store) : store :=
  match st with
  | [] => []
  | (k', v) :: rest => if k' =? k then s_remove k rest else (k', v) :: s_remove k rest
  end.
Definition s_set (k : N) (v : rrs) (st : store) : store := (k, v) :: s_remove k st.

Fixpoint list_eqb (a b : list N) : bool :=
  match a, b with
  | [], [] => true
  | x :: a', y :: b' => (x =? y) && list_eqb a' b'
  | _, _ => false
  end.
Definition rrs_eqb (a b : rrs) : bool := (fst a =? fst b) && list_eqb (snd a) (snd b).
Definition is_nil {A} (l : list A) : bool := match l with [] => true | _ => false end.

Record dstate := mkD { ds_pub : store; ds_work : store; ds_rem : store; ds_add : store }.

Definition update_rrset (k : N) (new : rrs) (st : dstate) : dstate :=
  let cur_opt :=
    match s_get k (ds_pub st) with
    | Some c => if negb (rrs_eqb new c) && negb (is_nil (snd c)) then Some c else None
    | None => None
    end in
  let '(rem, add) :=
    match cur_opt, negb (is_nil (snd new)) with
    | Some c, true =>
        let removed := filter (fun x => negb (memN x (snd new))) (snd c) in
        let added := filter (fun x => negb (memN x (snd c))) (snd new) in
        (if is_nil removed then ds_rem st else s_set k (fst new, removed) (ds_rem st),
         if is_nil added then ds_add st else s_set k (fst new, added) (ds_add st))
    | Some c, false => (s_set k c (ds_rem st), ds_add st)
    | None, true => (ds_rem st, s_set k new (ds_add st))
    | None, false => (ds_rem st, ds_add st)
    end in
  mkD (ds_pub st) (s_set k new (ds_work st)) rem add.

Definition remove_rrset (k : N) (st : dstate) : dstate :=
  let rem := match s_get k (ds_pub st) with Some c => s_set k c (ds_rem st) | None => ds_rem st end in
  mkD (ds_pub st) (s_remove k (ds_work st)) rem (ds_add st).

Inductive dop :=
| DDeleteAll | DAdd (k d t : N) | DDel (k d t : N)
| DBatch                      (* BeginBatchDelete: commit + reopen *)
| DSoa (s t : N)              (* BeginBatchAdd: update_soa *)
| DFinish (s t : N).          (* Finished: update_soa + commit *)

Definition d_existing (k : N) (st : dstate) : list N :=
  match s_get k (ds_work st) with Some v => snd v | None => [] end.


(* InMemoryZoneDiff::new: `start_serial == end_serial || end_serial < start_serial`
   on Serial values, i.e. RFC 1982 order (C17's model of Serial::partial_cmp):
   0xFFFFFFFF -> 0 is an advance; serials 2^31 apart are incomparable and pass.
   In the diff model (kind df) a SOA id is 2 * serial + variant with the real
   32-bit serial. *)
Definition serial_range_invalid (start_serial end_serial : N) : bool :=
  (start_serial =? end_serial)
  || match C17.Model.serial_partial_cmp end_serial start_serial with
     | Ok (Some Lt) => true
     | _ => false
     end.

(* WriteZone::commit(false): Some (removed, added) when a diff is returned *)
Definition d_commit (st : dstate) : dstate * option (store * store) :=
  let old_soa := match s_get 0 (ds_pub st) with Some (t, x :: _) => Some (t, x) | _ => None end in
  let new_soa := match s_get 0 (ds_work st) with Some (t, x :: _) => Some (t, x) | _ => None end in
  let out :=
    match new_soa with
    | None => None
    | Some (tn, sn) =>
        match old_soa with
        | None => None
        | Some (to, so) =>
            if serial_range_invalid (soa_serial so) (soa_serial sn) then None
            else Some (s_set 0 (to, [so]) (ds_rem st), s_set 0 (tn, [sn]) (ds_add st))
        end
    end in
  (mkD (ds_work st) (ds_work st) [] [], out).

Definition d_step (o : dop) (st : dstate) : dstate * list (option (store * store)) :=
  match o with
  | DDeleteAll => (mkD (ds_pub st) [] (ds_rem st) (ds_add st), [])
  | DAdd k d t => (update_rrset k (t, d :: d_existing k st) st, [])
  | DDel k d t =>
      let data := filter (fun x => negb (x =? d)) (d_existing k st) in
      (if is_nil data then remove_rrset k st else update_rrset k (t, data) st, [])
  | DBatch => let '(st', r) := d_commit st in (st', [r])
  | DSoa s t => (update_rrset 0 (t, [s]) st, [])
  | DFinish s t => let '(st', r) := d_commit (update_rrset 0 (t, [s]) st) in (st', [r])
  end.

Fixpoint d_run (ops : list dop) (st : dstate) : dstate * list (option (store * store)) :=
  match ops with
  | [] => (st, [])
  | o :: rest =>
      let '(st1, r1) := d_step o st in
      let '(st2, r2) := d_run rest st1 in (st2, r1 ++ r2)
  end.

(* applying a reported diff to a content (removes first, then adds) *)
Definition rrs_minus (v : rrs) (gone : list N) : option rrs :=
  let d := filter (fun x => negb (memN x gone)) (snd v) in
  if is_nil d then None else Some (fst v, d).
Definition apply_removed (c : store) (rem : store) : store :=
  fold_left (fun c e =>
    match s_get (fst e) c with
    | Some v => match rrs_minus v (snd (snd e)) with
                | Some v' => s_set (fst e) v' c
                | None => s_remove (fst e) c end
    | None => c end) rem c.
Definition apply_added (c : store) (add : store) : store :=
  fold_left (fun c e =>
    let old := match s_get (fst e) c with Some v => snd v | None => [] end in
    s_set (fst e) (fst (snd e), old ++ filter (fun x => negb (memN x old)) (snd (snd e))) c) add c.
Definition apply_zdiff (c : store) (d : store * store) : store :=
  apply_added (apply_removed c (fst d)) (snd d).

Definition d_start (pub : store) : dstate := mkD pub pub [] [].

(* a diff is a pair of maps keyed by (owner, type): applying it to a content,
   key by key (removed records first, then added ones with the TTL of the
   added RRset) *)
Definition rrs_data (o : option rrs) : list N := match o with Some v => snd v | None => [] end.

Definition applied_at (k : N) (pub rem add : store) : option rrs :=
  let base :=
    match s_get k pub with
    | Some v => match s_get k rem with
                | Some r => rrs_minus v (snd r)
                | None => Some v
                end
    | None => None
    end in
  match s_get k add with
  | Some a => Some (fst a, rrs_data base ++ filter (fun x => negb (memN x (rrs_data base))) (snd a))
  | None => base
  end.

(* histories outside the three known defect classes: no DeleteAllRecords, every
   record operation keeps the published TTL of its RRset, deletes a record that
   is published and still there, or adds a record that is neither published nor
   there (so nothing is deleted and re-added, no order-only change) *)
Definition good_op (o : dop) (st : dstate) : bool :=
  match o with
  | DAdd k d t =>
      negb (k =? 0) && negb (memN d (rrs_data (s_get k (ds_work st))))
      && negb (memN d (rrs_data (s_get k (ds_pub st))))
      && (match s_get k (ds_pub st) with Some v => fst v =? t | None => true end)
  | DDel k d t =>
      negb (k =? 0) && memN d (rrs_data (s_get k (ds_work st)))
      && memN d (rrs_data (s_get k (ds_pub st)))
      && (match s_get k (ds_pub st) with Some v => fst v =? t | None => true end)
  | DSoa _ _ => true
  | _ => false
  end.

Fixpoint good_body (ops : list dop) (st : dstate) : bool :=
  match ops with
  | [] => true
  | o :: rest => good_op o st && good_body rest (fst (d_step o st))
  end.

Definition pub_ok (pub : store) : bool :=
  forallb (fun e => negb (is_nil (snd (snd e)))) pub
  && (match s_get 0 pub with Some (_, [_]) => true | _ => false end).

(* one batch as the updater runs it: [BeginBatchDelete] body Finished *)
Definition good_history (pub : store) (ops : list dop) : bool :=
  let ops' := match ops with DBatch :: r => r | _ => ops end in
  match rev ops' with
  | DFinish _ _ :: rbody => pub_ok pub && good_body (rev rbody) (d_start pub)
  | _ => false
  end.

(* several batches (a multi-step IXFR): every record operation is good with
   respect to the version published at the start of its own batch *)
Definition is_commit_op (o : dop) : bool :=
  match o with DBatch | DFinish _ _ => true | _ => false end.

Fixpoint good_multi (ops : list dop) (st : dstate) : bool :=
  match ops with
  | [] => true
  | o :: rest =>
      (if is_commit_op o then true else good_op o st) && good_multi rest (fst (d_step o st))
  end.

Definition good_history_multi (pub : store) (ops : list dop) : bool :=
  pub_ok pub && good_multi ops (d_start pub) && existsb is_commit_op ops.

(* the boolean form of "the reported diff applies" over the keys that occur *)
Definition rrs_same (a b : option rrs) : bool :=
  match a, b with
  | None, None => true
  | Some (t, d), Some (t', d') =>
      (t =? t') && forallb (fun x => memN x d') d && forallb (fun x => memN x d) d'
  | _, _ => false
  end.
Definition diff_applies_b (pub : store) (ops : list dop) : bool :=
  let '(st, ds) := d_run ops (d_start pub) in
  match last ds None with
  | None => true
  | Some (rem, add) =>
      forallb (fun k => rrs_same (applied_at k pub rem add) (s_get k (ds_work st)))
              (map fst pub ++ map fst (ds_work st) ++ map fst rem ++ map fst add)
  end.


(* ---- entry points for the correspondence driver ---- *)
Definition c10_run (ms : list msg) : list upd * status := run None ms.
Definition c10_apply (z0 : zone) (us : list upd) : outcome ustate := u_apply_all updater_checks_batch_soa us (u_start z0).
Definition c10_transfers (z0 : zone) (uss : list (list upd)) : outcome (list zone) := u_transfers updater_checks_batch_soa uss z0.
(* every diff reported along the run applies to the version published when its batch began *)
Fixpoint applies_multi (ops : list dop) (st : dstate) : bool :=
  match ops with
  | [] => true
  | o :: rest =>
      let '(st', r) := d_step o st in
      (match r with
       | [Some (rem, add)] =>
           forallb (fun k => rrs_same (applied_at k (ds_pub st) rem add) (s_get k (ds_work st')))
                   (map fst (ds_pub st) ++ map fst (ds_work st') ++ map fst rem ++ map fst add)
       | _ => true
       end) && applies_multi rest st'
  end.

Definition c10_diff_good (pub : store) (ops : list dop) : bool := good_history_multi pub ops.
Definition c10_diff_applies_all (pub : store) (ops : list dop) : bool := applies_multi ops (d_start pub).
Definition c10_diff_applies (pub : store) (ops : list dop) : bool := diff_applies_b pub ops.
Definition c10_client (q : N) (ms : list msg) : list bool * bool := client_stream (client_init q) ms.
Definition c10_decide (rq : xreq) (pr : prov_result) (zs : option N) : decision := decide rq pr zs.
Definition c10_sender_axfr (v : N * list N) : option (list rr) := sender_axfr (zone_of v).
Definition c10_sender_ixfr (vs : list (N * list N)) : list rr := sender_ixfr vs.
Definition c10_check (first : bool) (h : hdr) : bool := check_response first h.
Definition c10_diff (pub : store) (ops : list dop) : list (option (store * store)) := snd (d_run ops (d_start pub)).
