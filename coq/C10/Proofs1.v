(* C10 proofs, part 1: header check, record processing as a fold, message
   boundaries are irrelevant (up to the documented single-SOA rule). *)
From Coq Require Import NArith List Bool Lia ZifyN ZifyBool ZifyNat.
From DV Require Import Base.Outcome C10.Gen C10.Model.
Import ListNotations.
Local Open Scope N_scope.

(* ------------------------------------------------------------------ *)
(* check_response                                                      *)

Definition good_hdr (first : bool) (h : hdr) : Prop :=
  h_qr h = true /\ h_opcode h = 0 /\ h_rcode h = 0 /\ h_tc h = false /\
  0 < h_an h /\ h_ns h = 0 /\
  (if first then h_qd h = 1 else h_qd h <= 1).

Lemma check_response_spec first h :
  check_response first h = false <-> good_hdr first h.
Proof.
  unfold check_response, good_hdr, check_tags, existsb, check_cond, cmp_op,
    qd_first_op, qd_first_const, qd_later_op, qd_later_const, rcode_noerror, opcode_query.
  destruct h as [qr op rc tc qd an ns qt]; cbn [h_qr h_opcode h_rcode h_tc h_qd h_an h_ns].
  destruct first, qr, tc; cbn [negb orb];
  destruct (N.eqb_spec rc 0), (N.eqb_spec op 0), (N.eqb_spec an 0), (N.eqb_spec ns 0),
    (N.eqb_spec qd 1), (N.ltb_spec 1 qd); cbn [negb orb]; intuition (try discriminate; try lia).
Qed.

Example good_hdr_nonvacuous : good_hdr true (mkHdr true 0 0 false 1 3 0 (Some 252)).
Proof. unfold good_hdr; cbn; repeat split; lia. Qed.

Definition is_first (st : option proc) : bool := match st with None => true | Some _ => false end.

(* every header fault rejects the message, leaves the interpreter state as it
   was and produces no update *)
Lemma reject_header st m :
  st_finished st = false -> ~ good_hdr (is_first st) (m_hdr m) ->
  interpret_response st m = (st, IErr E_NotValid).
Proof.
  intros Hf Hb. unfold interpret_response. rewrite Hf.
  destruct (check_response (match st with None => true | Some _ => false end) (m_hdr m)) eqn:E.
  - reflexivity.
  - exfalso. apply Hb. apply check_response_spec. exact E.
Qed.

(* the individual faults of the property text *)
Lemma bad_rcode first h : h_rcode h <> 0 -> ~ good_hdr first h.
Proof. unfold good_hdr; tauto. Qed.
Lemma bad_tc first h : h_tc h = true -> ~ good_hdr first h.
Proof. unfold good_hdr; intros H [_ [_ [_ [T _]]]]; congruence. Qed.
Lemma bad_qr first h : h_qr h = false -> ~ good_hdr first h.
Proof. unfold good_hdr; intros H [T _]; congruence. Qed.
Lemma bad_opcode first h : h_opcode h <> 0 -> ~ good_hdr first h.
Proof. unfold good_hdr; tauto. Qed.
Lemma bad_ancount first h : h_an h = 0 -> ~ good_hdr first h.
Proof. unfold good_hdr; intros H [_ [_ [_ [_ [T _]]]]]; lia. Qed.
Lemma bad_nscount first h : h_ns h <> 0 -> ~ good_hdr first h.
Proof. unfold good_hdr; tauto. Qed.
Lemma bad_qd_first h : h_qd h <> 1 -> ~ good_hdr true h.
Proof. unfold good_hdr; tauto. Qed.
Lemma bad_qd_later h : 1 < h_qd h -> ~ good_hdr false h.
Proof. unfold good_hdr; intros H [_ [_ [_ [_ [_ [_ T]]]]]]; lia. Qed.
(* and qdcount 0 IS accepted in later messages, 1 as well (the `>` of the code) *)
Lemma later_qd_0_or_1_ok h : good_hdr true h -> good_hdr false h.
Proof. unfold good_hdr; intuition lia. Qed.

(* ------------------------------------------------------------------ *)
(* Inner::new                                                          *)

Definition ty_of_qtype (q : option N) : option xfr_type :=
  match q with
  | Some q => if q =? 252 then Some Axfr else if q =? 251 then Some Ixfr else None
  | None => None
  end.

Lemma inner_new_spec m :
  inner_new m =
  match ty_of_qtype (h_qtype (m_hdr m)) with
  | None => inl E_NotValid
  | Some ty =>
      match m_items m with
      | Rec (Soa s) :: _ => inr (proc_new ty s)
      | Rec (Other _) :: _ => inl E_NotValid
      | _ => inl E_Malformed
      end
  end.
Proof.
  unfold inner_new, ty_of_qtype, qtype_axfr, qtype_ixfr.
  destruct (h_qtype (m_hdr m)) as [q|]; [|reflexivity].
  destruct (q =? 252); [|destruct (q =? 251)]; try reflexivity;
  destruct (m_items m) as [|[[?|?]|] ?]; reflexivity.
Qed.

(* wrong question: any type other than AXFR (252) / IXFR (251), or no question *)
Lemma reject_wrong_question m :
  ty_of_qtype (h_qtype (m_hdr m)) = None ->
  interpret_response None m = (None, IErr E_NotValid).
Proof.
  intros H. unfold interpret_response. cbn [st_finished].
  destruct (check_response true (m_hdr m)); [reflexivity|].
  rewrite inner_new_spec, H. reflexivity.
Qed.

Lemma reject_first_not_soa m k rest :
  m_items m = Rec (Other k) :: rest ->
  interpret_response None m = (None, IErr E_NotValid).
Proof.
  intros H. unfold interpret_response. cbn [st_finished].
  destruct (check_response true (m_hdr m)); [reflexivity|].
  rewrite inner_new_spec, H. destruct (ty_of_qtype _); reflexivity.
Qed.

(* ------------------------------------------------------------------ *)
(* process_record: basic facts                                         *)

Ltac pr_unfold :=
  unfold process_record, start_count, fallback_count, set_finished, toggle in *.

Ltac pr_cases :=
  repeat match goal with
  | |- context [if ?b then _ else _] => destruct b eqn:?
  | |- context [match ?x with _ => _ end] =>
      match type of x with
      | rr => destruct x eqn:?
      | xfr_type => destruct x eqn:?
      | ixfr_mode => destruct x eqn:?
      | bool => destruct x eqn:?
      end
  end.

(* the state the end-of-message rule cannot fire in *)
Definition past_start (p : proc) : Prop := 2 <= p_count p \/ p_ty p = Axfr.

Lemma pr_ok_count p r p' us :
  process_record p r = (p', inr us) -> p_count p' = p_count p + 1 /\ p_finished p = false.
Proof.
  pr_unfold. destruct (p_finished p) eqn:F; [discriminate|].
  destruct (p_count p + 1 =? 1) eqn:C1.
  - destruct (is_soa r); intros H; inversion H; subst; cbn; auto.
  - intros H. split; [|reflexivity].
    destruct (p_ty p), r as [s|k]; cbn [is_soa negb andb] in H;
    repeat match type of H with
    | context [if ?b then _ else _] => destruct b
    | context [match ?x with Deleting => _ | Adding => _ end] => destruct x
    end; cbn in H; inversion H; subst; reflexivity.
Qed.

Lemma pr_past_start p r p' res :
  process_record p r = (p', res) -> past_start p -> past_start p'.
Proof.
  unfold past_start. pr_unfold. destruct (p_finished p) eqn:F.
  { intros H; inversion H; subst; auto. }
  destruct (p_count p + 1 =? 1) eqn:C1.
  - destruct (is_soa r); intros H; inversion H; subst; cbn; (intros [?|?]; [left; lia|auto]).
  - intros H Hp.
    destruct (p_ty p) eqn:T, r as [s|k]; cbn [is_soa negb andb] in H;
    repeat match type of H with
    | context [if ?b then _ else _] => destruct b
    | context [match ?x with Deleting => _ | Adding => _ end] => destruct x
    end; cbn in H; inversion H; subst; cbn;
    destruct Hp as [?|?]; try (left; lia); try (right; reflexivity); try congruence.
Qed.

Lemma pr_err_state p r p' e :
  process_record p r = (p', inl e) ->
  (p' = p /\ p_finished p = true /\ e = E_AlreadyFinished) \/
  (p_finished p = false /\ p_count p = 0 /\ e = E_MissingInitialSoa /\ is_soa r = false).
Proof.
  pr_unfold. destruct (p_finished p) eqn:F.
  { intros H; inversion H; subst; auto. }
  destruct (p_count p + 1 =? 1) eqn:C1.
  - destruct (is_soa r) eqn:S; intros H; inversion H; subst. right. repeat split; auto.
    apply N.eqb_eq in C1. lia.
  - intros H. exfalso.
    destruct (p_ty p) eqn:T, r as [s|k]; cbn [is_soa negb andb] in H;
    repeat match type of H with
    | context [if ?b then _ else _] => destruct b
    | context [match ?x with Deleting => _ | Adding => _ end] => destruct x
    end; cbn in H; inversion H.
Qed.

(* ------------------------------------------------------------------ *)
(* the record stream as a fold                                         *)

Fixpoint flat (p : proc) (rs : list rr) : proc * list upd * option N :=
  match rs with
  | [] => (p, [], None)
  | r :: rest =>
      match process_record p r with
      | (p', inl e) => (p', [], Some e)
      | (p', inr us) => let '(p'', us', e) := flat p' rest in (p'', us ++ us', e)
      end
  end.

Lemma flat_app a : forall p b,
  flat p (a ++ b) =
  match flat p a with
  | (p', us, None) => let '(p'', us', e) := flat p' b in (p'', us ++ us', e)
  | r => r
  end.
Proof.
  induction a as [|r a IH]; intros p b; cbn [app flat].
  - destruct (flat p b) as [[? ?] ?]. reflexivity.
  - destruct (process_record p r) as [p' [e|us]]; [reflexivity|].
    rewrite IH. destruct (flat p' a) as [[p1 us1] [e1|]]; [reflexivity|].
    destruct (flat p1 b) as [[p2 us2] e2]. rewrite app_assoc. reflexivity.
Qed.

Lemma flat_count rs : forall p p' us,
  flat p rs = (p', us, None) -> p_count p' = p_count p + N.of_nat (length rs).
Proof.
  induction rs as [|r rs IH]; intros p p' us; cbn [flat length].
  - intros H; inversion H; subst. lia.
  - destruct (process_record p r) as [p1 [e|us1]] eqn:E; [discriminate|].
    destruct (flat p1 rs) as [[p2 us2] e2] eqn:F. intros H; inversion H; subst.
    apply IH in F. apply pr_ok_count in E. lia.
Qed.

Lemma flat_past_start rs : forall p p' us e,
  flat p rs = (p', us, e) -> past_start p -> past_start p'.
Proof.
  induction rs as [|r rs IH]; intros p p' us e; cbn [flat].
  - intros H; inversion H; subst; auto.
  - destruct (process_record p r) as [p1 [e1|us1]] eqn:E.
    + intros H; inversion H; subst. eapply pr_past_start; eauto.
    + destruct (flat p1 rs) as [[p2 us2] e2] eqn:F. intros H; inversion H; subst.
      intros Hp. eapply IH; eauto. eapply pr_past_start; eauto.
Qed.

Definition single_soa_fires (p : proc) : bool :=
  negb (p_finished p) && (match p_ty p with Ixfr => true | Axfr => false end)
  && (p_count p =? 1).

Lemma past_start_quiet p : past_start p -> single_soa_fires p = false.
Proof.
  unfold past_start, single_soa_fires. intros [H|H].
  - destruct (N.eqb_spec (p_count p) 1); [lia|]. rewrite andb_false_r. reflexivity.
  - rewrite H. rewrite andb_false_r. reflexivity.
Qed.

Lemma iter_msg_flat rs : forall p,
  (forall p' us, flat p rs = (p', us, None) -> single_soa_fires p' = false) ->
  iter_msg p (map Rec rs) = flat p rs.
Proof.
  induction rs as [|r rs IH]; intros p Hq; cbn [map iter_msg flat].
  - specialize (Hq p [] eq_refl). unfold single_soa_fires, single_soa_count in *.
    rewrite Hq. reflexivity.
  - destruct (process_record p r) as [p1 [e|us1]] eqn:E; [reflexivity|].
    rewrite IH; [reflexivity|].
    intros p' us F. apply (Hq p' (us1 ++ us)). cbn [flat]. rewrite E, F. reflexivity.
Qed.

Lemma iter_msg_fires rs : forall p p' us,
  flat p rs = (p', us, None) -> single_soa_fires p' = true ->
  iter_msg p (map Rec rs) = (set_finished p', us, Some E_SingleSoa).
Proof.
  induction rs as [|r rs IH]; intros p p' us; cbn [map iter_msg flat].
  - intros H; inversion H; subst. intros F. unfold single_soa_fires, single_soa_count in *.
    rewrite F. reflexivity.
  - destruct (process_record p r) as [p1 [e|us1]] eqn:E; [discriminate|].
    destruct (flat p1 rs) as [[p2 us2] e2] eqn:F. intros H; inversion H; subst.
    intros Hf. rewrite (IH _ _ _ F Hf). reflexivity.
Qed.

(* ------------------------------------------------------------------ *)
(* packaging                                                           *)

(* a message that carries the records [c] under an acceptable header *)
Definition carries (first : bool) (m : msg) (c : list rr) : Prop :=
  good_hdr first (m_hdr m) /\ m_items m = map Rec c /\ c <> [].

Inductive packs_later : list msg -> list (list rr) -> Prop :=
| pl_nil : packs_later [] []
| pl_cons m c ms cs : carries false m c -> packs_later ms cs -> packs_later (m :: ms) (c :: cs).

(* whole stream: first message with the question (type [q]), later ones *)
Definition packs (q : N) (ms : list msg) (cs : list (list rr)) : Prop :=
  match ms, cs with
  | m :: ms', c :: cs' =>
      carries true m c /\ h_qtype (m_hdr m) = Some q /\ packs_later ms' cs'
  | _, _ => False
  end.

Definition status_of (p : proc) (e : option N) : status :=
  match e with Some e => SErr e | None => if p_finished p then SDone else SIncomplete end.

(* statuses agree, or both are errors (a message after the end gives
   Error::Finished where a record after the end gives AlreadyFinished) *)
Definition st_equiv (a b : status) : Prop :=
  a = b \/ (exists e1 e2, a = SErr e1 /\ b = SErr e2).

Lemma st_equiv_done a : st_equiv a SDone -> a = SDone.
Proof. intros [H|[e1 [e2 [_ H]]]]; [auto|discriminate]. Qed.
Lemma st_equiv_incomplete a : st_equiv a SIncomplete -> a = SIncomplete.
Proof. intros [H|[e1 [e2 [_ H]]]]; [auto|discriminate]. Qed.

Lemma run_later ms : forall cs p,
  packs_later ms cs -> past_start p ->
  let '(p', us, e) := flat p (concat cs) in
  fst (run (Some p) ms) = us /\ st_equiv (snd (run (Some p) ms)) (status_of p' e).
Proof.
  induction ms as [|m ms IH]; intros cs p Hp Hs.
  - inversion Hp; subst. cbn. split; [reflexivity|left; reflexivity].
  - inversion Hp as [|m0 c ms0 cs0 Hc Hrest]; subst.
    destruct Hc as [Hh [Hi Hne]].
    cbn [concat run]. unfold interpret_response. cbn [st_finished].
    destruct (p_finished p) eqn:F.
    + (* already finished: Error::Finished vs AlreadyFinished on the next record *)
      destruct c as [|r c]; [congruence|]. cbn [app flat].
      unfold process_record. rewrite F. cbn. split; [reflexivity|].
      right. eauto.
    + apply check_response_spec in Hh. rewrite Hh. rewrite Hi.
      rewrite flat_app.
      rewrite iter_msg_flat.
      2:{ intros p' us Fl. apply past_start_quiet. eapply flat_past_start; eauto. }
      destruct (flat p c) as [[p1 us1] [e1|]] eqn:Fc.
      * cbn. split; [reflexivity|left; reflexivity].
      * specialize (IH cs0 p1 Hrest (flat_past_start _ _ _ _ _ Fc Hs)).
        destruct (flat p1 (concat cs0)) as [[p2 us2] e2].
        destruct (run (Some p1) ms) as [usr sr]. cbn in IH. destruct IH as [IH1 IH2].
        subst. cbn. split; [reflexivity|exact IH2].
Qed.

(* the reference semantics of a whole record sequence under question type [ty] *)
Definition flat_run (ty : xfr_type) (rs : list rr) : list upd * status :=
  match rs with
  | [] => ([], SErr E_Malformed)
  | Other _ :: _ => ([], SErr E_NotValid)
  | Soa s :: _ =>
      let '(p', us, e) := flat (proc_new ty s) rs in
      match e with
      | Some e => (us, SErr e)
      | None => if single_soa_fires p' then (us, SErr E_SingleSoa)
                else (us, if p_finished p' then SDone else SIncomplete)
      end
  end.

Definition qtype_of (ty : xfr_type) : N := match ty with Axfr => 252 | Ixfr => 251 end.

(* the one packaging the interpreter does not accept (known finding
   ixfr_lone_soa_first_message): IXFR question, first message holds exactly one
   record, more messages follow *)
Definition lone_soa_first (ty : xfr_type) (cs : list (list rr)) : Prop :=
  ty = Ixfr /\ exists r cs', cs = [r] :: cs' /\ cs' <> [].

Lemma split_irrelevant_lemma ty ms cs :
  packs (qtype_of ty) ms cs -> ~ lone_soa_first ty cs ->
  fst (run None ms) = fst (flat_run ty (concat cs)) /\
  st_equiv (snd (run None ms)) (snd (flat_run ty (concat cs))).
Proof.
  intros Hp Hl. destruct ms as [|m ms], cs as [|c cs]; try contradiction.
  destruct Hp as [[Hh [Hi Hne]] [Hq Hrest]].
  cbn [run concat]. unfold interpret_response. cbn [st_finished].
  apply check_response_spec in Hh. rewrite Hh. rewrite inner_new_spec, Hq, Hi.
  assert (Hty : ty_of_qtype (Some (qtype_of ty)) = Some ty) by (destruct ty; reflexivity).
  rewrite Hty.
  destruct c as [|[s|k] c]; [congruence| |].
  2:{ cbn. split; [reflexivity|left; reflexivity]. }
  cbn [map app flat_run].
  change (Rec (Soa s) :: map Rec c) with (map Rec (Soa s :: c)).
  change (Soa s :: c ++ concat cs) with ((Soa s :: c) ++ concat cs).
  rewrite flat_app.
  destruct (flat (proc_new ty s) (Soa s :: c)) as [[p1 us1] e1] eqn:Fc.
  destruct e1 as [e1|].
  - (* error inside the first message *)
    rewrite iter_msg_flat.
    2:{ intros p' us F. rewrite Fc in F. discriminate. }
    rewrite Fc. cbn. split; [reflexivity|left; reflexivity].
  - destruct (single_soa_fires p1) eqn:Fire.
    + (* lone SOA in the first message under IXFR *)
      rewrite (iter_msg_fires _ _ _ _ Fc Fire).
      assert (Hc : c = [] /\ ty = Ixfr).
      { pose proof (flat_count _ _ _ _ Fc) as Hcnt. cbn [proc_new p_count length] in Hcnt.
        unfold single_soa_fires in Fire.
        apply andb_prop in Fire as [Fire C1]. apply andb_prop in Fire as [_ T].
        apply N.eqb_eq in C1. split.
        - destruct c; [reflexivity|]. cbn [length] in Hcnt. lia.
        - (* the type is still the question's type after one record *)
          destruct c; [|cbn [length] in Hcnt; lia].
          cbn [flat] in Fc. unfold process_record in Fc. cbn in Fc.
          destruct ty; [|reflexivity].
          unfold start_count in Fc. cbn in Fc. inversion Fc; subst. cbn in T. discriminate. }
      destruct Hc as [-> ->].
      destruct cs as [|c2 cs].
      * inversion Hrest; subst. cbn [concat]. cbn [flat]. rewrite Fire. rewrite app_nil_r. cbn. split; [reflexivity|left; reflexivity].
      * exfalso. apply Hl. split; [reflexivity|]. exists (Soa s), (c2 :: cs). split; [reflexivity|discriminate].
    + rewrite iter_msg_flat.
      2:{ intros p' us F. rewrite Fc in F. inversion F; subst. exact Fire. }
      rewrite Fc.
      (* later messages: the state is past the start *)
      assert (Hps : past_start p1 \/ cs = []).
      { destruct cs as [|c2 cs]; [right; reflexivity|]. left.
        pose proof (flat_count _ _ _ _ Fc) as Hcnt. cbn [proc_new p_count length] in Hcnt.
        destruct c as [|r c].
        - (* one record only: Axfr (else lone_soa_first) *)
          destruct ty.
          + right. cbn [flat] in Fc. unfold process_record, start_count in Fc. cbn in Fc.
            inversion Fc; subst. reflexivity.
          + exfalso. apply Hl. split; [reflexivity|]. exists (Soa s), (c2 :: cs). split; [reflexivity|discriminate].
        - left. cbn [length] in Hcnt. lia. }
      destruct Hps as [Hps| ->].
      * pose proof (run_later ms cs p1 Hrest Hps) as HL.
        destruct (flat p1 (concat cs)) as [[p2 us2] e2] eqn:F2.
        destruct (run (Some p1) ms) as [usr sr]. cbn in HL. destruct HL as [-> HL2].
        destruct e2 as [e2|].
        { cbn. split; [reflexivity|exact HL2]. }
        rewrite (past_start_quiet p2 (flat_past_start _ _ _ _ _ F2 Hps)).
        cbn. split; [reflexivity|exact HL2].
      * inversion Hrest; subst. cbn [concat flat run]. rewrite Fire. cbn [st_finished].
        rewrite app_nil_r. cbn. split; [reflexivity|left; reflexivity].
Qed.

(* non-vacuity: an AXFR of two records split 1+2+1 *)
Example split_example :
  let h1 := mkHdr true 0 0 false 1 1 0 (Some 252) in
  let h2 := mkHdr true 0 0 false 0 2 0 None in
  let h3 := mkHdr true 0 0 false 1 1 0 (Some 252) in
  run None [mkMsg h1 [Rec (Soa 7)]; mkMsg h2 [Rec (Other 1); Rec (Other 2)]; mkMsg h3 [Rec (Soa 7)]]
  = ([UDeleteAll; UAdd (Other 1); UAdd (Other 2); UFinished 7], SDone).
Proof. vm_compute. reflexivity. Qed.

(* the known finding, in the model: the same IXFR-question stream completes as
   one message and is refused when the SOA travels alone in the first one *)
Lemma lone_soa_first_message_refuted :
  exists ms cs, packs 251 ms cs /\ lone_soa_first Ixfr cs /\
    snd (flat_run Ixfr (concat cs)) = SDone /\ snd (run None ms) = SErr E_SingleSoa.
Proof.
  exists [mkMsg (mkHdr true 0 0 false 1 1 0 (Some 251)) [Rec (Soa 7)];
          mkMsg (mkHdr true 0 0 false 0 3 0 None) [Rec (Other 1); Rec (Other 2); Rec (Soa 7)]],
         [[Soa 7]; [Other 1; Other 2; Soa 7]].
  split.
  - cbn. repeat split; try (cbn; lia); try discriminate.
    constructor; [|constructor]. repeat split; try (cbn; lia); try discriminate.
  - split.
    + split; [reflexivity|]. exists (Soa 7), [[Other 1; Other 2; Soa 7]]. split; [reflexivity|discriminate].
    + split; vm_compute; reflexivity.
Qed.

(* ------------------------------------------------------------------ *)
(* totality                                                            *)

Lemma interpret_no_panic st m : forall s, snd (interpret_response st m) <> IPanic s.
Proof.
  intros s. unfold interpret_response.
  destruct (st_finished st); [cbn; discriminate|].
  destruct (check_response _ _); [cbn; discriminate|].
  destruct st as [p|].
  - destruct (iter_msg p (m_items m)) as [[? ?] ?]. cbn. discriminate.
  - destruct (inner_new m) as [e|p]; [cbn; discriminate|].
    destruct (iter_msg p (m_items m)) as [[? ?] ?]. cbn. discriminate.
Qed.

Lemma run_no_panic ms : forall st s, snd (run st ms) <> SPanic s.
Proof.
  induction ms as [|m ms IH]; intros st s; cbn [run].
  - destruct (st_finished st); cbn; discriminate.
  - pose proof (interpret_no_panic st m) as NP.
    destruct (interpret_response st m) as [st' [e|us [e|]|site]]; cbn; try discriminate.
    + specialize (IH st' s). destruct (run st' ms) as [us' s']. cbn in *. exact IH.
    + exfalso. apply (NP site). reflexivity.
Qed.

(* after the end of a transfer every further message is refused *)
Lemma run_after_done st m ms :
  st_finished st = true -> run st (m :: ms) = ([], SErr E_Finished).
Proof. intros H. cbn [run]. unfold interpret_response. rewrite H. reflexivity. Qed.
