(* C10 proofs, part 8: the zone's REAL diff (diff-capture model) fed through
   the DiffFunneler, the batcher, the interpreter and the updater reproduces the
   sender's new content, for good histories. *)
From Coq Require Import NArith List Bool Lia.
From DV Require Import Base.Outcome C10.Gen C10.Model C10.Proofs1 C10.Proofs2 C10.Proofs3
  C10.Proofs5 C10.Proofs6.
Import ListNotations.
Local Open Scope N_scope.

(* ---- a store as a zone; a reported diff as a difference sequence ---- *)
Definition entry_ids (e : N * rrs) : list N := if fst e =? 0 then [] else snd (snd e).
Definition store_ids (st : store) : list N := flat_map entry_ids st.
Definition store_soa (st : store) : option N :=
  match s_get 0 st with Some (_, s :: _) => Some s | _ => None end.
Definition store_zone (st : store) : zone :=
  match store_soa st with Some s => [Soa s] | None => [] end ++ map Other (store_ids st).

(* DiffFunneler::run for one diff: removed SOA, removed RRsets except the SOA,
   added SOA, added RRsets except the SOA *)
Definition funnel (d : store * store) : option diff :=
  match store_soa (fst d), store_soa (snd d) with
  | Some so, Some sn => Some (mkDiff so (store_ids (fst d)) sn (store_ids (snd d)))
  | _, _ => None
  end.

(* ---- stores with unique keys ---- *)
Definition ukeys (st : store) : Prop := NoDup (map fst st).

Lemma s_remove_keys k st x : In x (map fst (s_remove k st)) -> In x (map fst st) /\ x <> k.
Proof.
  induction st as [|[k' v] st IH]; cbn [s_remove map]; [intros []|].
  destruct (N.eqb_spec k' k).
  - intros H. destruct (IH H). split; [right|]; auto.
  - cbn [map In fst]. intros [<-|H]; [split; [left; reflexivity|auto]|].
    destruct (IH H). split; [right|]; auto.
Qed.

Lemma ukeys_remove k st : ukeys st -> ukeys (s_remove k st).
Proof.
  unfold ukeys. induction st as [|[k' v] st IH]; cbn [s_remove map]; [auto|].
  intros H. inversion H as [|? ? Hn Hd]; subst. destruct (k' =? k); [auto|].
  cbn [map fst]. constructor; [|auto]. intros Q. apply s_remove_keys in Q as [Q _]. contradiction.
Qed.

Lemma ukeys_set k v st : ukeys st -> ukeys (s_set k v st).
Proof.
  intros H. unfold ukeys, s_set. cbn [map fst]. constructor; [|apply ukeys_remove; exact H].
  intros Q. apply s_remove_keys in Q as [_ Q]. contradiction.
Qed.

Lemma s_get_in st : ukeys st -> forall k v, s_get k st = Some v <-> In (k, v) st.
Proof.
  unfold ukeys. induction st as [|[k' v'] st IH]; intros U k v; cbn [s_get In].
  - split; [discriminate|intros []].
  - inversion U as [|? ? Hn Hd]; subst. destruct (N.eqb_spec k' k).
    + subst k'. split; [intros E; inversion E; left; reflexivity|].
      intros [E|E]; [inversion E; reflexivity|]. exfalso. apply Hn. apply (in_map fst) in E. exact E.
    + rewrite (IH Hd). split; [auto|]. intros [E|E]; [inversion E; contradiction|exact E].
Qed.

Lemma in_store_ids st : ukeys st -> forall x,
  In x (store_ids st) <-> exists k, k <> 0 /\ In x (rrs_data (s_get k st)).
Proof.
  intros U x. unfold store_ids. rewrite in_flat_map. split.
  - intros [[k v] [He Hx]]. unfold entry_ids in Hx. cbn [fst snd] in Hx.
    destruct (N.eqb_spec k 0); [destruct Hx|]. exists k. split; [auto|].
    apply (s_get_in st U) in He. rewrite He. exact Hx.
  - intros [k [Hk Hx]]. destruct (s_get k st) as [v|] eqn:E; [|destruct Hx].
    exists (k, v). split; [apply (s_get_in st U); exact E|].
    unfold entry_ids. cbn [fst snd]. destruct (N.eqb_spec k 0); [contradiction|exact Hx].
Qed.

Lemma in_store_zone st r : ukeys st ->
  (In r (store_zone st) <->
   match r with
   | Soa s => store_soa st = Some s
   | Other x => exists k, k <> 0 /\ In x (rrs_data (s_get k st))
   end).
Proof.
  intros U. unfold store_zone. rewrite in_app_iff, in_map_iff. destruct r as [s|x].
  - split.
    + intros [H|[y [E _]]]; [|discriminate]. destruct (store_soa st); [|destruct H].
      destruct H as [E|[]]. congruence.
    + intros ->. left. left. reflexivity.
  - rewrite <- (in_store_ids st U). split.
    + intros [H|[y [E H]]]; [destruct (store_soa st); [destruct H as [E|[]]; discriminate|destruct H]|].
      inversion E; subst. exact H.
    + intros H. right. exists x. auto.
Qed.

(* the same record does not occur under two RRsets *)
Definition keyed (key_of : N -> N) (st : store) : Prop :=
  forall k v x, s_get k st = Some v -> In x (snd v) -> key_of x = k.

(* ---- unique keys along the run ---- *)
Definition ukeys4 (st : dstate) : Prop :=
  ukeys (ds_pub st) /\ ukeys (ds_work st) /\ ukeys (ds_rem st) /\ ukeys (ds_add st).

Lemma ukeys4_update k v st : ukeys4 st -> ukeys4 (update_rrset k v st).
Proof.
  intros [U1 [U2 [U3 U4]]]. unfold update_rrset.
  destruct (match s_get k (ds_pub st) with
            | Some c => if negb (rrs_eqb v c) && negb (is_nil (snd c)) then Some c else None
            | None => None end) as [c|];
  destruct (negb (is_nil (snd v)));
  repeat match goal with |- context [if ?b then _ else _] => destruct b end;
  unfold ukeys4; cbn [ds_pub ds_work ds_rem ds_add]; repeat split; auto using ukeys_set.
Qed.

Lemma ukeys4_remove k st : ukeys4 st -> ukeys4 (remove_rrset k st).
Proof.
  intros [U1 [U2 [U3 U4]]]. unfold remove_rrset, ukeys4. destruct (s_get k (ds_pub st));
  cbn [ds_pub ds_work ds_rem ds_add]; repeat split; auto using ukeys_set, ukeys_remove.
Qed.

Lemma ukeys4_body ops : forall st, ukeys4 st -> good_body ops st = true -> ukeys4 (fst (d_run ops st)).
Proof.
  induction ops as [|o ops IH]; intros st U G; cbn [d_run good_body] in *; [exact U|].
  apply andb_prop in G as [G1 G2].
  assert (U1 : ukeys4 (fst (d_step o st))).
  { destruct o; cbn [good_op] in G1; try discriminate; cbn [d_step fst].
    - apply ukeys4_update; exact U.
    - destruct (is_nil _); [apply ukeys4_remove|apply ukeys4_update]; exact U.
    - apply ukeys4_update; exact U. }
  destruct (d_step o st) as [st1 r1]. cbn [fst] in *.
  specialize (IH st1 U1 G2). destruct (d_run ops st1). exact IH.
Qed.

(* ---- one commit: the funnelled diff relates the two published zones ---- *)
Lemma In_dec_N (x : N) l : In x l \/ ~ In x l.
Proof. destruct (in_dec N.eq_dec x l); auto. Qed.

Lemma commit_diff_rel key_of st rem add d :
  minv st -> ukeys4 st -> keyed key_of (ds_pub st) ->
  snd (d_commit st) = Some (rem, add) -> funnel (rem, add) = Some d ->
  diff_rel d (store_zone (ds_pub st)) (store_zone (ds_work st)) /\
  store_soa (ds_pub st) = Some (d_old d) /\ store_soa (ds_work st) = Some (d_new d) /\
  soa_serial (d_old d) <> soa_serial (d_new d).
Proof.
  intros [Hn [[to [so P0]] [[tn [sn W0]] K]]] [U1 [U2 [U3 U4]]] Ky C F.
  unfold d_commit in C. rewrite P0, W0 in C. cbn [snd] in C.
  destruct (serial_range_invalid (soa_serial so) (soa_serial sn)) eqn:SR; [discriminate|].
  inversion C; subst rem add. clear C.
  unfold funnel, store_soa in F. cbn [fst snd] in F. rewrite !s_get_set_same in F. inversion F; subst d. clear F.
  cbn [d_old d_new d_dels d_adds].
  assert (Sp : store_soa (ds_pub st) = Some so) by (unfold store_soa; rewrite P0; reflexivity).
  assert (Sw : store_soa (ds_work st) = Some sn) by (unfold store_soa; rewrite W0; reflexivity).
  split; [|split; [exact Sp|split; [exact Sw|]]].
  2:{ intros E. unfold serial_range_invalid in SR. rewrite E, N.eqb_refl in SR. discriminate. }
  assert (Ur : ukeys (s_set 0 (to, [so]) (ds_rem st))) by (apply ukeys_set; exact U3).
  assert (Ua : ukeys (s_set 0 (tn, [sn]) (ds_add st))) by (apply ukeys_set; exact U4).
  intros r. rewrite (in_store_zone (ds_work st) r U2). destruct r as [s|x]; cbn [d_new d_adds d_dels].
  - rewrite Sw. split; congruence.
  - rewrite (in_store_ids _ Ua), (in_store_ids _ Ur), (in_store_zone (ds_pub st) (Other x) U1).
    split.
    + intros [k [Hk Hx]]. destruct (K k Hk) as [IR [IA _]].
      destruct (In_dec_N x (rrs_data (s_get k (ds_pub st)))) as [Hp|Hp].
      * right. split; [exists k; auto|].
        intros [k' [Hk' Hr]]. rewrite (s_get_set_other 0 k' _ _ Hk') in Hr.
        destruct (K k' Hk') as [IR' _]. apply IR' in Hr as [Hp' Hw'].
        assert (k' = k).
        { destruct (s_get k' (ds_pub st)) as [v'|] eqn:E1; [|destruct Hp'].
          destruct (s_get k (ds_pub st)) as [v|] eqn:E2; [|destruct Hp].
          rewrite <- (Ky k' v' x E1 Hp'), <- (Ky k v x E2 Hp). reflexivity. }
        subst k'. contradiction.
      * left. exists k. split; [auto|]. rewrite (s_get_set_other 0 k _ _ Hk). apply IA. auto.
    + intros [[k [Hk Ha]]|[[k [Hk Hp]] Hnr]].
      * rewrite (s_get_set_other 0 k _ _ Hk) in Ha. destruct (K k Hk) as [_ [IA _]].
        apply IA in Ha as [Hw _]. exists k. auto.
      * exists k. split; [auto|]. destruct (K k Hk) as [IR _].
        destruct (In_dec_N x (rrs_data (s_get k (ds_work st)))) as [Hw|Hw]; [exact Hw|].
        exfalso. apply Hnr. exists k. split; [auto|]. rewrite (s_get_set_other 0 k _ _ Hk). apply IR. auto.
Qed.

(* ---- end to end, one committed batch ---- *)
Section EndToEnd.
Variable chk : bool.

Theorem real_diff_transfer_identity key_of pub body s t rem add d size limit chunks :
  pub_ok pub = true -> ukeys pub -> keyed key_of pub ->
  good_body body (d_start pub) = true ->
  (* the diff the zone reports for this batch *)
  last (c10_diff pub (body ++ [DFinish s t])) None = Some (rem, add) ->
  funnel (rem, add) = Some d ->
  (forall r1 r2, size r1 + size r2 <= limit) ->
  batch size limit (sender_hard false 251) (ixfr_seq (d_new d) [d]) = Ok chunks ->
  exists us st, run None (sender_msgs 251 chunks) = (us, SDone) /\
    u_apply_all chk us (u_start (store_zone pub)) = Ok st /\ u_fin st = true /\
    zeq (u_visible st) (store_zone (content_after pub (body ++ [DFinish s t]))).
Proof.
  intros Hok Uk Ky G L F Hfit Hb.
  (* the state before the commit *)
  unfold c10_diff, content_after in *. rewrite d_run_app in L |- *.
  pose proof (good_body_no_commit body _ G) as NC.
  destruct (d_run body (d_start pub)) as [st1 r1] eqn:R1. cbn [snd fst] in NC. subst r1.
  cbn [d_run d_step] in L |- *.
  set (st1' := update_rrset 0 (t, [s]) st1) in *.
  destruct (d_commit st1') as [st2 r2] eqn:C. cbn [fst snd app last] in L |- *.
  assert (Gm : good_multi body (d_start pub) = true).
  { clear -G. revert G. generalize (d_start pub). induction body as [|o b IH]; intros st G; cbn [good_multi good_body] in *; [reflexivity|].
    apply andb_prop in G as [G1 G2]. rewrite G1. destruct (is_commit_op o); cbn; apply IH; exact G2. }
  assert (M1 : minv st1).
  { pose proof (minv_run body _ (minv_start pub Hok) Gm) as M. rewrite R1 in M. exact M. }
  assert (M1' : minv st1') by (apply (minv_step (DSoa s t) st1 M1); reflexivity).
  assert (U1 : ukeys4 st1).
  { pose proof (ukeys4_body body (d_start pub)) as U. rewrite R1 in U. apply U; [|exact G].
    unfold ukeys4, d_start. cbn. repeat split; auto; constructor. }
  assert (U1' : ukeys4 st1') by (apply ukeys4_update; exact U1).
  assert (P1 : ds_pub st1' = pub).
  { unfold st1'. rewrite ds_pub_update.
    destruct M1 as [_ _]. destruct (N.eq_dec 1 0) as [Q|Q]; [discriminate|].
    pose proof (kinv_body body pub (d_start pub) 1 eq_refl (pub_ok_ne pub Hok) G Q (kinv_start pub 1 (pub_ok_ne pub Hok))) as [_ P].
    rewrite R1 in P. exact P. }
  assert (W2 : ds_work st2 = ds_work st1').
  { assert (st2 = d_start (ds_work st1')) by (rewrite <- (d_commit_state st1'), C; reflexivity). subst st2. reflexivity. }
  assert (C2 : snd (d_commit st1') = Some (rem, add)) by (rewrite C; exact L).
  assert (Ky1 : keyed key_of (ds_pub st1')) by (rewrite P1; exact Ky).
  destruct (commit_diff_rel key_of st1' rem add d M1' U1' Ky1 C2 F) as [DR [So [Sn Sne]]].
  rewrite P1 in DR, So. rewrite W2.
  replace (sender_hard false 251) with (@None N) in Hb by reflexivity.
  destruct (batch_spec _ _ _ _ _ Hb) as [Cc Fc].
  assert (Hn : chunks <> []) by (intros ->; cbn in Cc; unfold ixfr_seq in Cc; discriminate).
  destruct U1' as [_ [Uw _]].
  apply (ixfr_fidelity chk (d_new d) [d] (store_zone pub) (store_zone (ds_work st1')) _ chunks).
  - intros d' [<-|[]] E. apply Sne. rewrite E. reflexivity.
  - cbn [chain_rel]. exists (store_zone (ds_work st1')). split; [exact DR|intros r; tauto].
  - intros s0. rewrite (in_store_zone _ (Soa s0) Uw), Sn. split; congruence.
  - apply (soa_chain_ok chk [d] (store_zone pub) (d_old d)).
    + unfold store_zone. rewrite So. cbn [app]. unfold z_first_soa. cbn [filter is_soa].
      destruct (filter is_soa (map Other (store_ids pub))); reflexivity.
    + cbn. auto.
  - apply sender_msgs_packs; assumption.
  - exact Cc.
  - intros [_ [r [cs' [E Hcs']]]]. subst chunks.
    unfold ixfr_seq in Hb. cbn [map concat diff_seq app] in Hb.
    apply batch_first_two in Hb; [cbn in Hb; lia|apply Hfit].
Qed.

End EndToEnd.

Example real_diff_example :
  let pub := [(0, (3600, [50])); (1, (300, [5; 6]))] in
  let ops := [DDel 1 5 300; DSoa 52 3600; DAdd 1 7 300; DAdd 2 9 60; DFinish 52 3600] in
  option_map (fun d => (d_old d, d_dels d, d_new d, d_adds d))
    (match last (c10_diff pub ops) None with Some ra => funnel ra | None => None end)
  = Some (50, [5], 52, [9; 7]).
Proof. vm_compute. reflexivity. Qed.
