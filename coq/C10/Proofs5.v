(* C10 proofs, part 5: the sender's record sequences and batching composed with
   the receiver: what the receiver ends up with is the sender's zone. *)
From Coq Require Import NArith List Bool Lia ZifyN ZifyBool ZifyNat Permutation.
From DV Require Import Base.Outcome C10.Gen C10.Model C10.Proofs1 C10.Proofs2 C10.Proofs3.
Import ListNotations.
Local Open Scope N_scope.

(* ---- batching is a split into non-empty messages ---- *)
Lemma batch_go_spec size limit hard rs : forall cur cursz chunks,
  batch_go size limit hard cur cursz rs = Ok chunks ->
  concat chunks = rev cur ++ rs /\ Forall (fun c => c <> []) chunks.
Proof.
  induction rs as [|r rest IH]; intros cur cursz chunks; cbn [batch_go].
  - intros H. inversion H; subst. destruct cur as [|c cur]; cbn.
    + split; [reflexivity|constructor].
    + rewrite !app_nil_r. split; [reflexivity|].
      constructor; [|constructor]. intros E. apply app_eq_nil in E as [_ E]. discriminate.
  - destruct (cursz + size r <=? limit) eqn:Fit.
    + (* the record fits the current message *)
      destruct (match hard with Some h => N.of_nat (length (r :: cur)) =? h | None => false end).
      * destruct (batch_go size limit hard [] 0 rest) as [t| | |] eqn:B; cbn [bind]; try discriminate.
        intros H; inversion H; subst. destruct (IH _ _ _ B) as [C F]. cbn [app concat]. rewrite C. cbn [rev app].
        split; [rewrite <- app_assoc; reflexivity|].
        constructor; [|exact F]. cbn [rev]. intros E. apply app_eq_nil in E as [_ E]. discriminate.
      * destruct (batch_go size limit hard (r :: cur) (cursz + size r) rest) as [t| | |] eqn:B; cbn [bind]; try discriminate.
        intros H; inversion H; subst. destruct (IH _ _ _ B) as [C F]. cbn [app]. rewrite C. cbn [rev].
        split; [rewrite <- app_assoc; reflexivity|exact F].
    + destruct cur as [|c cur]; [intros H; discriminate|].
      destruct (size r <=? limit); [|intros H; discriminate].
      assert (Ne : rev (c :: cur) <> []).
      { cbn [rev]. intros E. apply app_eq_nil in E as [_ E]. discriminate. }
      destruct (match hard with Some h => N.of_nat (length [r]) =? h | None => false end).
      * destruct (batch_go size limit hard [] 0 rest) as [t| | |] eqn:B; cbn [bind]; try discriminate.
        intros H; inversion H; subst. destruct (IH _ _ _ B) as [C F]. cbn [app concat rev] in *. rewrite C.
        split; [rewrite <- !app_assoc; reflexivity|].
        constructor; [exact Ne|constructor; [discriminate|exact F]].
      * destruct (batch_go size limit hard [r] (0 + size r) rest) as [t| | |] eqn:B; cbn [bind]; try discriminate.
        intros H; inversion H; subst. destruct (IH _ _ _ B) as [C F]. cbn [app concat rev] in *. rewrite C.
        split; [rewrite <- !app_assoc; reflexivity|].
        constructor; [exact Ne|exact F].
Qed.

Lemma batch_spec size limit hard rs chunks :
  batch size limit hard rs = Ok chunks ->
  concat chunks = rs /\ Forall (fun c => c <> []) chunks.
Proof. unfold batch. intros H. apply batch_go_spec in H. exact H. Qed.

(* without a record limit, the first message takes at least the records that
   were already in it *)
Lemma batch_go_first size limit rs : forall cur cursz c t,
  cur <> [] -> batch_go size limit None cur cursz rs = Ok (c :: t) ->
  (length cur <= length c)%nat.
Proof.
  induction rs as [|r rest IH]; intros cur cursz c t Hc; cbn [batch_go].
  - destruct cur; [contradiction|]. intros H; inversion H; subst. cbn [rev]. rewrite ?app_length, ?rev_length. cbn [length]. lia.
  - destruct (cursz + size r <=? limit).
    + destruct (batch_go size limit None (r :: cur) (cursz + size r) rest) as [t'| | |] eqn:B; cbn [bind]; try discriminate.
      intros H; inversion H; subst.
      assert (L := IH (r :: cur) _ c t ltac:(discriminate) B). cbn [length] in L. lia.
    + destruct cur as [|x cur]; [contradiction|].
      destruct (size r <=? limit); [|intros H; discriminate].
      destruct (batch_go size limit None [r] (0 + size r) rest) as [t'| | |]; cbn [bind]; try discriminate.
      intros H; inversion H; subst. cbn [rev]. rewrite ?app_length, ?rev_length. cbn [length]. lia.
Qed.

Lemma batch_first_two size limit r1 r2 rest c t :
  size r1 + size r2 <= limit ->
  batch size limit None (r1 :: r2 :: rest) = Ok (c :: t) -> (2 <= length c)%nat.
Proof.
  intros Hs. unfold batch. cbn [batch_go].
  assert (F1 : (0 + size r1 <=? limit) = true) by (apply N.leb_le; lia).
  rewrite F1.
  assert (F2 : (0 + size r1 + size r2 <=? limit) = true) by (apply N.leb_le; lia).
  rewrite F2.
  destruct (batch_go size limit None [r2; r1] (0 + size r1 + size r2) rest) as [t'| | |] eqn:B; cbn [bind]; try discriminate.
  intros H; inversion H; subst.
  assert (Hne : [r2; r1] <> []) by discriminate.
  assert (L := batch_go_first size limit rest [r2; r1] _ c t Hne B). cbn [length] in L. exact L.
Qed.

(* ---- the sender's messages are a packaging the receiver accepts ---- *)
Lemma sender_msgs_later q chunks :
  Forall (fun c => c <> []) chunks -> packs_later (sender_msgs q chunks) chunks.
Proof.
  induction 1 as [|c cs Hc _ IH]; cbn [sender_msgs map]; constructor; [|exact IH].
  split; [|split; [reflexivity|exact Hc]].
  unfold good_hdr, opcode_query, rcode_noerror. cbn. repeat split; try lia.
  destruct c; [contradiction|]. cbn [length]. lia.
Qed.

Lemma sender_msgs_packs q chunks :
  chunks <> [] -> Forall (fun c => c <> []) chunks -> packs q (sender_msgs q chunks) chunks.
Proof.
  intros Hn F. destruct chunks as [|c cs]; [contradiction|].
  inversion F as [|? ? Hc Fcs]; subst. cbn [sender_msgs map packs].
  split; [|split; [reflexivity|apply sender_msgs_later; exact Fcs]].
  split; [|split; [reflexivity|exact Hc]].
  unfold good_hdr, opcode_query, rcode_noerror. cbn. repeat split; try lia.
  destruct c; [contradiction|]. cbn [length]. lia.
Qed.

(* ---- zones ---- *)
Lemma keys_of_zone_of v : keys_of (zone_of v) = snd v.
Proof.
  unfold zone_of, keys_of. cbn [flat_map app]. induction (snd v) as [|k ks IH]; cbn; [reflexivity|].
  f_equal. exact IH.
Qed.

Lemma sender_axfr_zone_of v : sender_axfr (zone_of v) = Some (axfr_seq (fst v) (snd v)).
Proof. unfold sender_axfr. rewrite keys_of_zone_of. reflexivity. Qed.

Section Loop.
Variable chk : bool.

(* AXFR: zone walk -> batcher -> interpreter -> updater = the sender's zone,
   for every message size limit, record limit and start zone *)
Theorem transfer_identity_axfr v size limit hard rs chunks z0 :
  sender_axfr (zone_of v) = Some rs ->
  batch size limit hard rs = Ok chunks ->
  exists us st, run None (sender_msgs 252 chunks) = (us, SDone) /\
    u_apply_all chk us (u_start z0) = Ok st /\ u_fin st = true /\
    Permutation (u_visible st) (zone_of v).
Proof.
  intros Hs Hb. rewrite sender_axfr_zone_of in Hs. inversion Hs; subst rs. clear Hs.
  destruct (batch_spec _ _ _ _ _ Hb) as [C F].
  assert (Hn : chunks <> []).
  { intros ->. cbn in C. unfold axfr_seq in C. discriminate. }
  destruct (axfr_fidelity chk (fst v) (snd v) _ chunks z0 (sender_msgs_packs 252 chunks Hn F) C)
    as [us [st [R [A [Fi [_ P]]]]]].
  exists us, st. repeat split; auto.
Qed.

(* IXFR: the versions the zone went through -> diffs -> DiffFunneler -> batcher
   (no record limit: compatibility mode is for AXFR questions only) ->
   interpreter -> updater on the oldest version = the newest version *)
Lemma mk_diff_rel v v' : diff_rel (mk_diff v v') (zone_of v) (zone_of v').
Proof.
  intros r. unfold zone_of, mk_diff. cbn [In d_new d_adds d_dels fst snd].
  destruct r as [s|k].
  - split.
    + intros [E|E]; [congruence|]. apply in_map_iff in E as [k [E _]]. discriminate.
    + intros ->. left. reflexivity.
  - rewrite !filter_In. split.
    + intros [E|E]; [discriminate|]. apply in_map_iff in E as [k' [E Hk]]. inversion E; subst k'.
      destruct (memN k (snd v)) eqn:M.
      * right. split; [right; apply in_map; apply memN_spec; exact M|].
        intros [_ H]. apply memN_spec in Hk. rewrite Hk in H. discriminate.
      * left. split; [exact Hk|reflexivity].
    + intros [[Hk _]|[[E|E] H]]; [right; apply in_map; exact Hk|discriminate|].
      apply in_map_iff in E as [k' [E Hk]]. inversion E; subst k'.
      right. apply in_map. destruct (memN k (snd v')) eqn:M; [apply memN_spec; exact M|].
      exfalso. apply H. split; [exact Hk|reflexivity].
Qed.

Lemma mk_diffs_chain v vs :
  chain_rel (zone_of v) (mk_diffs (v :: vs)) (zone_of (last (v :: vs) (0, []))).
Proof.
  revert v. induction vs as [|v' vs IH]; intros v.
  - cbn. intros r. tauto.
  - cbn [mk_diffs chain_rel]. exists (zone_of v'). split; [apply mk_diff_rel|].
    change (last (v :: v' :: vs) (0, [])) with (last (v' :: vs) (0, [])). apply IH.
Qed.

Lemma mk_diffs_soa_chain v vs : soa_chain (fst v) (mk_diffs (v :: vs)).
Proof.
  revert v. induction vs as [|v' vs IH]; intros v; cbn [mk_diffs soa_chain]; [exact I|].
  split; [reflexivity|]. apply IH.
Qed.

Lemma mk_diffs_old v vs d : In d (mk_diffs (v :: vs)) -> In (d_old d) (map fst (removelast (v :: vs))).
Proof.
  revert v. induction vs as [|v' vs IH]; intros v; cbn [mk_diffs]; [intros []|].
  intros [<-|H]; [left; reflexivity|]. right. apply IH. exact H.
Qed.

Theorem transfer_identity_ixfr v vs size limit chunks :
  vs <> [] ->
  (* the serial of the newest version is not one of the older ones *)
  ~ In (fst (last (v :: vs) (0, []))) (map fst (removelast (v :: vs))) ->
  (* any two records fit one message *)
  (forall r1 r2, size r1 + size r2 <= limit) ->
  batch size limit None (sender_ixfr (v :: vs)) = Ok chunks ->
  exists us st, run None (sender_msgs 251 chunks) = (us, SDone) /\
    u_apply_all chk us (u_start (zone_of v)) = Ok st /\ u_fin st = true /\
    zeq (u_visible st) (zone_of (last (v :: vs) (0, []))).
Proof.
  intros Hvs Hnew Hfit Hb.
  set (vl := last (v :: vs) (0, [])) in *.
  destruct (batch_spec _ _ _ _ _ Hb) as [C F].
  assert (Hn : chunks <> []).
  { intros ->. cbn in C. unfold sender_ixfr, ixfr_seq in C. discriminate. }
  apply (ixfr_fidelity chk (fst vl) (mk_diffs (v :: vs)) (zone_of v) (zone_of vl) _ chunks).
  - intros d Hd E. apply Hnew. rewrite <- E. apply mk_diffs_old. exact Hd.
  - apply mk_diffs_chain.
  - intros s. unfold zone_of. cbn [In]. split.
    + intros [E|E]; [congruence|]. apply in_map_iff in E as [k [E _]]. discriminate.
    + intros ->. left. reflexivity.
  - apply (soa_chain_ok chk _ _ (fst v)); [reflexivity|apply mk_diffs_soa_chain].
  - apply sender_msgs_packs; assumption.
  - exact C.
  - (* the SOA does not travel alone: the sequence has at least three records *)
    intros [_ [r [cs' [E Hcs']]]]. subst chunks.
    destruct vs as [|v' vs']; [contradiction|].
    unfold sender_ixfr, ixfr_seq in Hb. cbn [mk_diffs map concat diff_seq app] in Hb.
    apply batch_first_two in Hb; [cbn in Hb; lia|apply Hfit].
Qed.

End Loop.

Example transfer_identity_ixfr_nonvacuous :
  batch (fun _ => 10) 35 None (sender_ixfr [(6, [1; 2]); (8, [2; 3]); (12, [3])]) =
  Ok [[Soa 12; Soa 6; Other 1]; [Soa 8; Other 3; Soa 8]; [Other 2; Soa 12; Soa 12]].
Proof. vm_compute. reflexivity. Qed.

Example transfer_identity_axfr_nonvacuous :
  batch (fun _ => 10) 100 (Some 1) (axfr_seq 6 [1; 2]) = Ok [[Soa 6]; [Other 1]; [Other 2]; [Soa 6]].
Proof. vm_compute. reflexivity. Qed.

(* ---- rr_count (a usize incremented per record) ---- *)
Lemma pr_count_le p r p' res : process_record p r = (p', res) -> p_count p' <= p_count p + 1.
Proof.
  unfold process_record, start_count, fallback_count, set_finished, toggle.
  destruct (p_finished p). { intros H; inversion H; subst. lia. }
  destruct (p_count p + 1 =? 1).
  - destruct (is_soa r); intros H; inversion H; subst; cbn; lia.
  - intros H.
    destruct (p_ty p), r as [s|k]; cbn [is_soa negb andb] in H;
    repeat match type of H with
    | context [if ?b then _ else _] => destruct b
    | context [match ?x with Deleting => _ | Adding => _ end] => destruct x
    end; cbn in H; inversion H; subst; cbn; lia.
Qed.

Lemma flat_count_le rs : forall p p' us e,
  flat p rs = (p', us, e) -> p_count p' <= p_count p + N.of_nat (length rs).
Proof.
  induction rs as [|r rs IH]; intros p p' us e; cbn [flat length].
  - intros H; inversion H; subst. lia.
  - destruct (process_record p r) as [p1 [e1|us1]] eqn:E.
    + intros H; inversion H; subst. apply pr_count_le in E. lia.
    + destruct (flat p1 rs) as [[p2 us2] e2] eqn:F. intros H; inversion H; subst.
      apply IH in F. apply pr_count_le in E. lia.
Qed.

(* the counter (rr_count_bits wide, T1) cannot wrap on any stream that fits a
   64-bit address space; a narrower counter breaks [rr_count_width] *)
(* the counter is a usize: as wide as the target's pointers (T1, from
   `rustc --print cfg`), so it cannot wrap on any stream the address space holds *)
Lemma rr_count_width : target_pointer_width <= rr_count_bits.
Proof. unfold rr_count_bits, target_pointer_width. lia. Qed.

Theorem rr_count_no_overflow ty s rs p' us e :
  flat (proc_new ty s) rs = (p', us, e) ->
  N.of_nat (length rs) < 2 ^ target_pointer_width -> p_count p' < 2 ^ rr_count_bits.
Proof.
  intros F L. apply flat_count_le in F. cbn [proc_new p_count] in F.
  pose proof (N.pow_le_mono_r 2 target_pointer_width rr_count_bits ltac:(lia) rr_count_width). lia.
Qed.

Example rr_count_example :
  p_count (fst (fst (flat (proc_new Axfr 7) [Soa 7; Other 1; Soa 7; Other 2]))) = 3.
Proof. vm_compute. reflexivity. Qed.
