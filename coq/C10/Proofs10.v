(* C10 proofs, part 10: any sequence of good batches, each committed, with the
   diffs the zone itself reports (diff-capture model) sent as one multi-step
   IXFR: capture -> DiffFunneler -> batcher -> interpreter -> updater takes a
   receiver at the first published content to the last one.  No mk_diff. *)
From Coq Require Import NArith List Bool Lia.
From DV Require Import Base.Outcome C10.Gen C10.Model C10.Proofs1 C10.Proofs2 C10.Proofs3
  C10.Proofs5 C10.Proofs6 C10.Proofs8.
Import ListNotations.
Local Open Scope N_scope.

(* a batch: record operations, then Finished with the new SOA *)
Definition batch_t : Type := (list dop * N * N)%type.

Definition batch_end (b : batch_t) (pub : store) : dstate :=
  let '(body, s, t) := b in update_rrset 0 (t, [s]) (fst (d_run body (d_start pub))).

(* the diffs the zone reports along the batches, funnelled, and the content
   published at the end *)
Fixpoint run_batches (bs : list batch_t) (pub : store) : option (list diff * store) :=
  match bs with
  | [] => Some ([], pub)
  | b :: rest =>
      let st1 := batch_end b pub in
      match snd (d_commit st1) with
      | Some ra =>
          match funnel ra with
          | Some d =>
              match run_batches rest (ds_work st1) with
              | Some (ds, p') => Some (d :: ds, p')
              | None => None
              end
          | None => None
          end
      | None => None
      end
  end.

(* every record (and SOA) id lives under its own RRset key *)
Definition op_keyed (key_of : N -> N) (o : dop) : bool :=
  match o with
  | DAdd k d _ => key_of d =? k
  | DSoa s _ => key_of s =? 0
  | _ => true
  end.

Fixpoint good_batches (key_of : N -> N) (bs : list batch_t) (pub : store) : Prop :=
  match bs with
  | [] => True
  | b :: rest =>
      let '(body, s, t) := b in
      good_body body (d_start pub) = true /\ forallb (op_keyed key_of) body = true /\ key_of s = 0 /\
      good_batches key_of rest (ds_work (batch_end b pub))
  end.

Definition wf (key_of : N -> N) (pub : store) : Prop :=
  minv (d_start pub) /\ ukeys pub /\ keyed key_of pub.

(* ---- keyed along a body ---- *)
Lemma keyed_set key_of k t new st :
  keyed key_of st -> (forall x, In x new -> key_of x = k) -> keyed key_of (s_set k (t, new) st).
Proof.
  intros K H k' v x E Hx. destruct (N.eq_dec k' k) as [->|Hn].
  - rewrite s_get_set_same in E. inversion E; subst. apply H. exact Hx.
  - rewrite (s_get_set_other k k' _ _ Hn) in E. exact (K k' v x E Hx).
Qed.

Lemma keyed_remove key_of k st : keyed key_of st -> keyed key_of (s_remove k st).
Proof.
  intros K k' v x E Hx. destruct (N.eq_dec k' k) as [->|Hn].
  - rewrite s_get_remove_same in E. discriminate.
  - rewrite (s_get_remove_other k k' _ Hn) in E. exact (K k' v x E Hx).
Qed.

Lemma work_update k v st : ds_work (update_rrset k v st) = s_set k v (ds_work st).
Proof.
  unfold update_rrset.
  match goal with |- ds_work (let '(_, _) := ?m in _) = _ => destruct m end. reflexivity.
Qed.

Lemma existing_keyed key_of k st x :
  keyed key_of (ds_work st) -> In x (d_existing k st) -> key_of x = k.
Proof.
  unfold d_existing. intros K Hx. destruct (s_get k (ds_work st)) as [v|] eqn:E; [|destruct Hx].
  exact (K k v x E Hx).
Qed.

Lemma keyed_work_step key_of o st :
  keyed key_of (ds_work st) -> good_op o st = true -> op_keyed key_of o = true ->
  keyed key_of (ds_work (fst (d_step o st))).
Proof.
  intros K G Ok. destruct o as [|k d t|k d t| |s t|s t]; cbn [good_op] in G; try discriminate; cbn [d_step fst].
  - rewrite work_update. apply keyed_set; [exact K|]. cbn [op_keyed] in Ok. apply N.eqb_eq in Ok.
    intros x [<-|Hx]; [exact Ok|eapply existing_keyed; eauto].
  - destruct (is_nil _).
    + unfold remove_rrset. cbn [ds_work]. apply keyed_remove. exact K.
    + rewrite work_update. apply keyed_set; [exact K|]. intros x Hx. apply filter_In in Hx as [Hx _].
      eapply existing_keyed; eauto.
  - rewrite work_update. apply keyed_set; [exact K|]. cbn [op_keyed] in Ok. apply N.eqb_eq in Ok.
    intros x [<-|[]]. exact Ok.
Qed.

Lemma keyed_work_body key_of ops : forall st,
  keyed key_of (ds_work st) -> good_body ops st = true -> forallb (op_keyed key_of) ops = true ->
  keyed key_of (ds_work (fst (d_run ops st))).
Proof.
  induction ops as [|o ops IH]; intros st K G Ok; cbn [d_run good_body forallb] in *; [exact K|].
  apply andb_prop in G as [G1 G2]. apply andb_prop in Ok as [O1 O2].
  pose proof (keyed_work_step key_of o st K G1 O1) as K1.
  destruct (d_step o st) as [st1 r1]. cbn [fst] in *.
  specialize (IH st1 K1 G2 O2). destruct (d_run ops st1). exact IH.
Qed.

Lemma good_body_multi body : forall st, good_body body st = true -> good_multi body st = true.
Proof.
  induction body as [|o b IH]; intros st G; cbn [good_multi good_body] in *; [reflexivity|].
  apply andb_prop in G as [G1 G2]. rewrite G1. destruct (is_commit_op o); cbn; apply IH; exact G2.
Qed.

(* ---- one batch ---- *)
Lemma one_batch key_of pub body s t ra d :
  wf key_of pub ->
  good_body body (d_start pub) = true -> forallb (op_keyed key_of) body = true -> key_of s = 0 ->
  snd (d_commit (batch_end (body, s, t) pub)) = Some ra -> funnel ra = Some d ->
  let pub' := ds_work (batch_end (body, s, t) pub) in
  diff_rel d (store_zone pub) (store_zone pub') /\
  store_soa pub = Some (d_old d) /\ store_soa pub' = Some (d_new d) /\
  soa_serial (d_old d) <> soa_serial (d_new d) /\ wf key_of pub'.
Proof.
  intros [M0 [Uk Ky]] G Okb Ks C F. cbv zeta. unfold batch_end in *.
  destruct (d_run body (d_start pub)) as [st1 r1] eqn:R1. cbn [fst] in *.
  set (st1' := update_rrset 0 (t, [s]) st1) in *.
  assert (Hn : pub_ne pub) by (destruct M0 as [H _]; exact H).
  assert (M1 : minv st1).
  { pose proof (minv_run body _ M0 (good_body_multi body _ G)) as M. rewrite R1 in M. exact M. }
  assert (M1' : minv st1') by (apply (minv_step (DSoa s t) st1 M1); reflexivity).
  assert (U1 : ukeys4 st1).
  { pose proof (ukeys4_body body (d_start pub)) as U. rewrite R1 in U. apply U; [|exact G].
    unfold ukeys4, d_start. cbn. repeat split; auto; constructor. }
  assert (U1' : ukeys4 st1') by (apply ukeys4_update; exact U1).
  assert (P1 : ds_pub st1' = pub).
  { unfold st1'. rewrite ds_pub_update. destruct (N.eq_dec 1 0) as [Q|Q]; [discriminate|].
    pose proof (kinv_body body pub (d_start pub) 1 eq_refl Hn G Q (kinv_start pub 1 Hn)) as [_ P].
    rewrite R1 in P. exact P. }
  assert (Ky1 : keyed key_of (ds_pub st1')) by (rewrite P1; exact Ky).
  destruct ra as [rem add].
  destruct (commit_diff_rel key_of st1' rem add d M1' U1' Ky1 C F) as [DR [So [Sn Sne]]].
  rewrite P1 in DR, So.
  split; [exact DR|]. split; [exact So|]. split; [exact Sn|]. split; [exact Sne|].
  (* the new published content is well formed again *)
  split; [apply minv_committed; exact M1'|]. split; [destruct U1' as [_ [U _]]; exact U|].
  unfold st1'. rewrite work_update. apply keyed_set.
  - pose proof (keyed_work_body key_of body (d_start pub) Ky G Okb) as K. rewrite R1 in K. exact K.
  - intros x [<-|[]]. exact Ks.
Qed.

(* ---- all batches: the funnelled diffs chain from the first to the last
   published zone ---- *)
Lemma batches_chain key_of bs : forall pub ds pub',
  wf key_of pub -> good_batches key_of bs pub -> run_batches bs pub = Some (ds, pub') ->
  chain_rel (store_zone pub) ds (store_zone pub') /\
  (forall so, store_soa pub = Some so -> soa_chain so ds) /\
  (forall d, In d ds -> exists p, store_soa p = Some (d_old d) /\ True) /\
  wf key_of pub' /\
  (ds <> [] -> store_soa pub' = Some (d_new (last ds (mkDiff 0 [] 0 [])))).
Proof.
  induction bs as [|[[body s] t] bs IH]; intros pub ds pub' W G R; cbn [run_batches good_batches] in *.
  - inversion R; subst. split; [cbn; intros r; tauto|]. split; [intros so _; exact I|].
    split; [intros d []|]. split; [exact W|]. intros H; contradiction.
  - destruct G as [Gb [Ok [Ks Gr]]].
    destruct (snd (d_commit (batch_end (body, s, t) pub))) as [ra|] eqn:C; [|discriminate].
    destruct (funnel ra) as [d|] eqn:F; [|discriminate].
    destruct (run_batches bs (ds_work (batch_end (body, s, t) pub))) as [[ds1 p1]|] eqn:R1; [|discriminate].
    inversion R; subst ds pub'. clear R.
    destruct (one_batch key_of pub body s t ra d W Gb Ok Ks C F) as [DR [So [Sn [Sne W1]]]].
    destruct (IH _ ds1 p1 W1 Gr R1) as [CH [SC [Olds [Wf Lst]]]].
    split; [cbn [chain_rel]; eexists; split; [exact DR|exact CH]|].
    split.
    { intros so E. rewrite So in E. inversion E; subst so. cbn [soa_chain]. split; [reflexivity|].
      apply SC. exact Sn. }
    split.
    { intros d' [<-|H]; [exists pub; auto|apply Olds; exact H]. }
    split; [exact Wf|].
    intros _. destruct ds1 as [|d2 ds2]; [|change (last (d :: d2 :: ds2) (mkDiff 0 [] 0 [])) with (last (d2 :: ds2) (mkDiff 0 [] 0 [])); apply Lst; discriminate].
    cbn [run_batches] in R1. destruct bs as [|b2 bs2].
    + cbn in R1. inversion R1; subst. cbn [last]. exact Sn.
    + cbn [run_batches] in R1.
      destruct (snd (d_commit (batch_end b2 _))); [|discriminate].
      destruct (funnel p); [|discriminate].
      destruct (run_batches bs2 _) as [[? ?]|]; discriminate.
Qed.

(* the diff a batch contributes is exactly what the diff-capture model reports
   for `body ++ [Finished]` run from the published content *)
Lemma batch_diff_is_reported pub body s t :
  good_body body (d_start pub) = true ->
  snd (d_commit (batch_end (body, s, t) pub)) = last (c10_diff pub (body ++ [DFinish s t])) None.
Proof.
  intros G. unfold c10_diff, batch_end. rewrite d_run_app.
  pose proof (good_body_no_commit body _ G) as NC.
  destruct (d_run body (d_start pub)) as [st1 r1]. cbn [fst snd] in *. subst r1.
  cbn [d_run d_step]. destruct (d_commit (update_rrset 0 (t, [s]) st1)) as [st2 r2]. reflexivity.
Qed.

(* ---- end to end ---- *)
Section EndToEnd.
Variable chk : bool.

Theorem real_diffs_transfer_identity key_of bs pub ds pub' size limit chunks :
  pub_ok pub = true -> ukeys pub -> keyed key_of pub ->
  good_batches key_of bs pub ->
  run_batches bs pub = Some (ds, pub') -> ds <> [] ->
  let snew := d_new (last ds (mkDiff 0 [] 0 [])) in
  (* the serial the zone ends at is not one it started a batch from *)
  (forall d, In d ds -> d_old d <> snew) ->
  (forall r1 r2, size r1 + size r2 <= limit) ->
  batch size limit (sender_hard false 251) (ixfr_seq snew ds) = Ok chunks ->
  exists us st, run None (sender_msgs 251 chunks) = (us, SDone) /\
    u_apply_all chk us (u_start (store_zone pub)) = Ok st /\ u_fin st = true /\
    zeq (u_visible st) (store_zone pub').
Proof.
  intros Hok Uk Ky G R Hds snew Hne Hfit Hb.
  assert (W : wf key_of pub) by (split; [apply minv_start; exact Hok|split; assumption]).
  destruct (batches_chain key_of bs pub ds pub' W G R) as [CH [SC [_ [[_ [Uk' _]] Lst]]]].
  specialize (Lst Hds). fold snew in Lst.
  replace (sender_hard false 251) with (@None N) in Hb by reflexivity.
  destruct (batch_spec _ _ _ _ _ Hb) as [Cc Fc].
  assert (Hn : chunks <> []) by (intros ->; cbn in Cc; unfold ixfr_seq in Cc; discriminate).
  (* the SOA the first published content carries *)
  assert (S0 : exists so, store_soa pub = Some so).
  { destruct W as [[_ [[t0 [s0 E]] _]] _]. cbn [d_start ds_pub] in E. exists s0. unfold store_soa. rewrite E. reflexivity. }
  destruct S0 as [so S0].
  apply (ixfr_fidelity chk snew ds (store_zone pub) (store_zone pub') _ chunks).
  - exact Hne.
  - exact CH.
  - intros s0. rewrite (in_store_zone _ (Soa s0) Uk'), Lst. split; congruence.
  - apply (soa_chain_ok chk ds (store_zone pub) so).
    + unfold store_zone. rewrite S0. cbn [app]. unfold z_first_soa. cbn [filter is_soa].
      destruct (filter is_soa (map Other (store_ids pub))); reflexivity.
    + apply SC. exact S0.
  - apply sender_msgs_packs; assumption.
  - exact Cc.
  - intros [_ [r [cs' [E Hcs']]]]. subst chunks.
    destruct ds as [|d ds']; [contradiction|].
    unfold ixfr_seq in Hb. cbn [map concat diff_seq app] in Hb.
    apply batch_first_two in Hb; [cbn in Hb; lia|apply Hfit].
Qed.

End EndToEnd.

(* non-vacuity: two batches, the second empties an RRset and re-populates another *)
Example real_diffs_example :
  let pub := [(0, (3600, [50])); (1, (300, [5; 6]))] in
  let bs : list batch_t :=
    [([DDel 1 5 300; DAdd 1 7 300; DAdd 2 9 60], 52, 3600);
     ([DDel 1 6 300; DDel 1 7 300; DAdd 3 11 30], 54, 3600)] in
  option_map (fun r => (map (fun d => (d_old d, d_dels d, d_new d, d_adds d)) (fst r)))
    (run_batches bs pub)
  = Some [(50, [5], 52, [9; 7]); (52, [7; 6], 54, [11])].
Proof. vm_compute. reflexivity. Qed.

Example real_diffs_example_good :
  let key_of := fun x => if x <? 50 then (if x =? 9 then 2 else if x =? 11 then 3 else 1) else 0 in
  good_batches key_of
    [([DDel 1 5 300; DAdd 1 7 300; DAdd 2 9 60], 52, 3600);
     ([DDel 1 6 300; DDel 1 7 300; DAdd 3 11 30], 54, 3600)]
    [(0, (3600, [50])); (1, (300, [5; 6]))].
Proof. cbv zeta. vm_compute. repeat split; reflexivity. Qed.

Example batch_diff_is_reported_example :
  let pub := [(0, (3600, [50])); (1, (300, [5; 6]))] in
  snd (d_commit (batch_end ([DDel 1 5 300; DAdd 1 7 300], 52, 3600) pub))
  = Some ([(0, (3600, [50])); (1, (300, [5]))], [(0, (3600, [52])); (1, (300, [7]))]).
Proof. vm_compute. reflexivity. Qed.
