(* C10 proofs, part 3: the diff a zone reports on commit (diff_applies).
   The faithful model of WriteNode::update_rrset / remove_rrset / remove_all +
   WriteZone::commit (agreeing with the code on every T2 `df` case) violates the
   statement in three ways; each has a concrete witness history below, replayed
   on the implementation by the harness oracle. *)
From Coq Require Import NArith List Bool Lia.
From DV Require Import Base.Outcome C10.Gen C10.Model.
Import ListNotations.
Local Open Scope N_scope.

Definition last_diff (pub : store) (ops : list dop) : option (store * store) :=
  last (c10_diff pub ops) None.
Definition content_after (pub : store) (ops : list dop) : store :=
  ds_work (fst (d_run ops (d_start pub))).

(* the statement of the property: the reported diff applied to the old content
   gives, key by key, the RRsets of the new content (data as sets, same TTL) *)
Definition same_rrset (a b : option rrs) : Prop :=
  match a, b with
  | None, None => True
  | Some (t, d), Some (t', d') => t = t' /\ (forall x, In x d <-> In x d')
  | _, _ => False
  end.
Definition diff_applies (pub : store) (ops : list dop) : Prop :=
  forall d, last_diff pub ops = Some d ->
  forall k, same_rrset (s_get k (apply_zdiff pub d)) (s_get k (content_after pub ops)).

(* 1. class diff_stale_after_ttl_change: IXFR 25 -> 27 deletes `mail A` (TTL 900)
      and adds the same data with TTL 1900: the diff removes the RRset and never
      adds it back *)
Lemma diff_applies_refuted_ttl_change :
  exists pub ops, ~ diff_applies pub ops.
Proof.
  exists [(0, (3600, [50])); (1, (900, [9]))],
         [DBatch; DDel 1 9 900; DSoa 54 3600; DAdd 1 9 1900; DFinish 54 3600].
  intros H. specialize (H _ eq_refl 1). vm_compute in H. exact H.
Qed.

(* 2. class diff_stale_after_reorder: AXFR refresh of a zone whose NS RRset
      {ns1, ns2} is unchanged: the second AddRecord finds the data vector in a
      different order, records nothing, and the entry "ns2 removed" of the first
      AddRecord stays *)
Lemma diff_applies_refuted_reorder :
  exists pub ops, ~ diff_applies pub ops.
Proof.
  exists [(0, (3600, [50])); (1, (3600, [0; 1]))],
         [DDeleteAll; DAdd 1 0 3600; DAdd 1 1 3600; DFinish 52 3600].
  intros H. specialize (H _ eq_refl 1). vm_compute in H. destruct H as [_ H].
  specialize (H 1). destruct H as [_ H]. destruct H; [lia| |]; auto.
  discriminate.
Qed.

(* 3. class diff_misses_delete_all: remove_all does not go through the diff
      builder: an RRset of the old zone that the AXFR does not carry any more is
      missing from `removed` *)
Lemma diff_applies_refuted_delete_all :
  exists pub ops, ~ diff_applies pub ops.
Proof.
  exists [(0, (3600, [50])); (1, (900, [9])); (2, (300, [5]))],
         [DDeleteAll; DAdd 2 5 300; DFinish 52 3600].
  intros H. specialize (H _ eq_refl 1). vm_compute in H. exact H.
Qed.

(* what does hold: one update_rrset call on a fresh diff that changes the data
   of a published RRset as a set and keeps its TTL reports exactly the change *)
Lemma memN_spec x l : memN x l = true <-> In x l.
Proof.
  unfold memN. rewrite existsb_exists. split.
  - intros [y [Hy E]]. apply N.eqb_eq in E. subst. exact Hy.
  - intros H. exists x. split; [exact H|apply N.eqb_refl].
Qed.

Lemma list_eqb_spec a : forall b, list_eqb a b = true <-> a = b.
Proof.
  induction a as [|x a IH]; intros [|y b]; cbn; try (split; [discriminate|congruence]).
  - tauto.
  - rewrite andb_true_iff, N.eqb_eq, IH. split; [intros [-> ->]; reflexivity|intros E; inversion E; auto].
Qed.

Theorem single_update_diff_applies k t old new :
  old <> [] -> new <> [] ->
  (exists x, In x old /\ ~ In x new) -> (exists x, In x new /\ ~ In x old) ->
  let st := update_rrset k (t, new) (d_start [(k, (t, old))]) in
  same_rrset (s_get k (apply_zdiff [(k, (t, old))] (ds_rem st, ds_add st))) (Some (t, new)).
Proof.
  intros Ho Hn [x [Hx1 Hx2]] [y [Hy1 Hy2]]. cbv zeta.
  unfold update_rrset, d_start. cbn [ds_pub ds_rem ds_add ds_work s_get].
  rewrite N.eqb_refl.
  assert (E : rrs_eqb (t, new) (t, old) = false).
  { unfold rrs_eqb. cbn [fst snd]. rewrite N.eqb_refl. cbn.
    destruct (list_eqb new old) eqn:L; [|reflexivity].
    apply list_eqb_spec in L. subst. contradiction. }
  rewrite E. cbn [negb andb fst snd].
  destruct old as [|o old']; [contradiction|]. destruct new as [|n new']; [contradiction|].
  cbn [is_nil negb fst snd ds_rem ds_add].
  set (old := o :: old') in *. set (new := n :: new') in *.
  set (removed := filter (fun z => negb (memN z new)) old).
  set (added := filter (fun z => negb (memN z old)) new).
  assert (Rne : is_nil removed = false).
  { assert (In x removed) by (apply filter_In; split; [auto|];
      destruct (memN x new) eqn:M; [apply memN_spec in M; contradiction|reflexivity]).
    destruct removed; [contradiction|reflexivity]. }
  assert (Ane : is_nil added = false).
  { assert (In y added) by (apply filter_In; split; [auto|];
      destruct (memN y old) eqn:M; [apply memN_spec in M; contradiction|reflexivity]).
    destruct added; [contradiction|reflexivity]. }
  rewrite Rne, Ane. unfold apply_zdiff, apply_removed, apply_added, s_set.
  cbn [fst snd s_remove fold_left s_get]. rewrite N.eqb_refl. unfold rrs_minus. cbn [fst snd].
  set (kept := filter (fun z => negb (memN z removed)) old).
  assert (Kin : forall z, In z kept <-> In z old /\ In z new).
  { intros z. unfold kept. rewrite filter_In. split.
    - intros [H1 H2]. split; [auto|]. destruct (memN z removed) eqn:M; [discriminate|].
      destruct (memN z new) eqn:M2; [apply memN_spec; auto|].
      exfalso. assert (In z removed) by (apply filter_In; split; [auto|rewrite M2; reflexivity]).
      apply memN_spec in H. congruence.
    - intros [H1 H2]. split; [auto|]. destruct (memN z removed) eqn:M; [|reflexivity].
      apply memN_spec in M. apply filter_In in M as [_ M]. apply memN_spec in H2. rewrite H2 in M. discriminate. }
  destruct (is_nil kept) eqn:Kn.
  - (* nothing kept: the RRset is removed, then added whole *)
    cbn [s_get app memN existsb negb].
    split; [reflexivity|]. intros z. rewrite filter_In.
    split; [intros [H _]|intros H; split; [|reflexivity]].
    + apply filter_In in H as [H _]. exact H.
    + apply filter_In. split; [exact H|]. destruct (memN z old) eqn:M; [|reflexivity].
      apply memN_spec in M. assert (Hk : In z kept) by (apply Kin; auto).
      destruct kept; [contradiction|discriminate].
  - cbn [s_get]. rewrite N.eqb_refl. cbn [snd].
    split; [reflexivity|]. intros z. rewrite in_app_iff, filter_In, Kin. split.
    + intros [[_ H]|[H _]]; [exact H|]. apply filter_In in H as [H _]. exact H.
    + intros H. destruct (memN z old) eqn:M.
      * left. split; [apply memN_spec; exact M|exact H].
      * right. assert (In z added) by (apply filter_In; split; [exact H|rewrite M; reflexivity]).
        split; [exact H0|]. destruct (memN z kept) eqn:M2; [|reflexivity].
        apply memN_spec in M2. apply Kin in M2 as [M2 _]. apply memN_spec in M2. congruence.
Qed.

Example single_update_nonvacuous :
  let st := update_rrset 1 (300, [5; 7]) (d_start [(1, (300, [5; 6]))]) in
  (ds_rem st, ds_add st) = ([(1, (300, [6]))], [(1, (300, [7]))]).
Proof. vm_compute. reflexivity. Qed.
