(* C10 proofs, part 6: the diff reported on commit applies, for every batch
   outside the three known defect classes (good_history, decidable). *)
From Coq Require Import NArith List Bool Lia.
From Coq Require Import ZArith ZifyN ZifyBool.
From DV Require Import Base.Outcome C10.Gen C10.Model C10.Proofs3.
From DV Require C17.Gen C17.Model C17.Proofs.
Import ListNotations.
Local Open Scope N_scope.

(* ---- stores ---- *)
Lemma s_get_remove_same k st : s_get k (s_remove k st) = None.
Proof.
  induction st as [|[k' v] st IH]; cbn [s_remove s_get]; [reflexivity|].
  destruct (k' =? k) eqn:E; [exact IH|]. cbn [s_get]. rewrite E. exact IH.
Qed.

Lemma s_get_remove_other k k' st : k' <> k -> s_get k' (s_remove k st) = s_get k' st.
Proof.
  intros Hn. induction st as [|[k2 v] st IH]; cbn [s_remove s_get]; [reflexivity|].
  destruct (k2 =? k) eqn:E.
  - apply N.eqb_eq in E. subst k2. destruct (N.eqb_spec k k'); [congruence|exact IH].
  - cbn [s_get]. destruct (k2 =? k'); [reflexivity|exact IH].
Qed.

Lemma s_get_set_same k v st : s_get k (s_set k v st) = Some v.
Proof. unfold s_set. cbn [s_get]. rewrite N.eqb_refl. reflexivity. Qed.

Lemma s_get_set_other k k' v st : k' <> k -> s_get k' (s_set k v st) = s_get k' st.
Proof.
  intros Hn. unfold s_set. cbn [s_get]. destruct (N.eqb_spec k k'); [congruence|].
  apply s_get_remove_other. exact Hn.
Qed.

Lemma is_nil_spec {A} (l : list A) : is_nil l = true <-> l = [].
Proof. destruct l; cbn; split; congruence. Qed.

Lemma neg_memN x l : negb (memN x l) = true <-> ~ In x l.
Proof.
  destruct (memN x l) eqn:M; cbn.
  - apply memN_spec in M. split; [discriminate|contradiction].
  - split; [|reflexivity]. intros _ H. apply memN_spec in H. congruence.
Qed.

Lemma in_filter_notin x l m : In x (filter (fun y => negb (memN y m)) l) <-> In x l /\ ~ In x m.
Proof. rewrite filter_In, neg_memN. tauto. Qed.

Definition pub_ne (pub : store) : Prop := forall k v, s_get k pub = Some v -> snd v <> [].

Lemma pub_ok_ne pub : pub_ok pub = true -> pub_ne pub.
Proof.
  unfold pub_ok. intros H. apply andb_prop in H as [H _]. rewrite forallb_forall in H.
  intros k. induction pub as [|[k' v'] pub IH]; cbn [s_get]; [discriminate|].
  intros v. destruct (k' =? k).
  - intros E. inversion E; subst. specialize (H (k', v) (or_introl eq_refl)). cbn in H.
    intros N0. rewrite N0 in H. discriminate.
  - apply IH. intros x Hx. apply H. right. exact Hx.
Qed.

Lemma pub_ok_nonempty pub k v : pub_ne pub -> s_get k pub = Some v -> snd v <> [].
Proof. intros H E. exact (H k v E). Qed.

(* ---- the invariant of one key ---- *)
Definition kinv (pub : store) (st : dstate) (k : N) : Prop :=
  let P := rrs_data (s_get k pub) in
  let W := rrs_data (s_get k (ds_work st)) in
  (forall x, In x (rrs_data (s_get k (ds_rem st))) <-> In x P /\ ~ In x W) /\
  (forall x, In x (rrs_data (s_get k (ds_add st))) <-> In x W /\ ~ In x P) /\
  (forall v, s_get k (ds_work st) = Some v -> snd v <> []) /\
  (forall v, s_get k (ds_add st) = Some v -> snd v <> []) /\
  (forall w, s_get k (ds_work st) = Some w ->
     (forall p, s_get k pub = Some p -> fst w = fst p) /\
     (forall a, s_get k (ds_add st) = Some a -> fst a = fst w)).

Lemma kinv_start pub k : pub_ne pub -> kinv pub (d_start pub) k.
Proof.
  intros Hp. unfold kinv, d_start. cbn [ds_work ds_rem ds_add s_get rrs_data].
  split; [intros x; cbn; tauto|]. split; [intros x; cbn; tauto|].
  split; [intros v Hv; eapply pub_ok_nonempty; eauto|].
  split; [intros v Hv; discriminate|].
  intros w Hw. split; [intros p Ep; congruence|intros a Ea; discriminate].
Qed.

Lemma list_eqb_eq a b : list_eqb a b = true -> a = b.
Proof. apply list_eqb_spec. Qed.

(* update_rrset on key k with a new non-empty RRset whose data differs from the
   published one as a set and whose TTL is the published one *)
Lemma kinv_update pub st k t new :
  ds_pub st = pub -> pub_ne pub -> kinv pub st k ->
  new <> [] ->
  (forall p, s_get k pub = Some p -> fst p = t /\ exists x, (In x (snd p) /\ ~ In x new) \/ (In x new /\ ~ In x (snd p))) ->
  (* the entries stay right when their computed replacement is empty *)
  (forall x, In x (rrs_data (s_get k (ds_rem st))) /\ (forall y, In y (rrs_data (s_get k pub)) -> In y new)
             -> False) ->
  (forall x, In x (rrs_data (s_get k (ds_add st))) /\ (forall y, In y new -> In y (rrs_data (s_get k pub)))
             -> False) ->
  kinv pub (update_rrset k (t, new) st) k.
Proof.
  intros Hpub Hok [IR [IA [IW [IAn IT]]]] Hne Hp StaleR StaleA.
  unfold update_rrset. rewrite Hpub.
  destruct (s_get k pub) as [c|] eqn:Pc.
  - destruct (Hp c eq_refl) as [Ht [x Hx]].
    assert (Ne : rrs_eqb (t, new) c = false).
    { unfold rrs_eqb. cbn [fst snd]. destruct (list_eqb new (snd c)) eqn:L; [|apply andb_false_r].
      apply list_eqb_eq in L. subst new. destruct Hx as [[A B]|[A B]]; contradiction. }
    rewrite Ne. cbn [negb andb].
    assert (Cn : is_nil (snd c) = false).
    { destruct (snd c) eqn:E; [exfalso; eapply (pub_ok_nonempty pub k c); eauto|reflexivity]. }
    rewrite Cn. cbn [negb].
    destruct new as [|n0 new']; [contradiction|]. cbn [is_nil negb snd fst].
    set (new := n0 :: new') in *.
    set (removed := filter (fun x => negb (memN x new)) (snd c)).
    set (added := filter (fun x => negb (memN x (snd c))) new).
    unfold kinv. cbn [ds_work ds_rem ds_add]. rewrite Pc. cbn [rrs_data].
    rewrite s_get_set_same. cbn [rrs_data snd fst].
    split; [|split; [|split; [|split]]].
    + (* removed *)
      intros y. destruct (is_nil removed) eqn:Rn.
      * apply is_nil_spec in Rn. rewrite <- in_filter_notin. fold removed. rewrite Rn.
        split; [|intros []]. intros Hy. exfalso. apply (StaleR y). split; [exact Hy|].
        cbn [rrs_data]. intros z Hz. destruct (memN z new) eqn:M; [apply memN_spec; exact M|].
        exfalso. assert (In z removed) by (apply in_filter_notin; split; [exact Hz|intros Q; apply memN_spec in Q; congruence]).
        rewrite Rn in H. destruct H.
      * rewrite s_get_set_same. cbn [rrs_data snd]. apply in_filter_notin.
    + (* added *)
      intros y. destruct (is_nil added) eqn:An.
      * apply is_nil_spec in An. rewrite <- in_filter_notin. fold added. rewrite An.
        split; [|intros []]. intros Hy. exfalso. apply (StaleA y). split; [exact Hy|].
        cbn [rrs_data]. intros z Hz. destruct (memN z (snd c)) eqn:M; [apply memN_spec; exact M|].
        exfalso. assert (In z added) by (apply in_filter_notin; split; [exact Hz|intros Q; apply memN_spec in Q; congruence]).
        rewrite An in H. destruct H.
      * rewrite s_get_set_same. cbn [rrs_data snd]. apply in_filter_notin.
    + intros v E. inversion E; subst. cbn. discriminate.
    + intros v. destruct (is_nil added) eqn:An; [apply IAn|].
      rewrite s_get_set_same. intros E; inversion E; subst. cbn [snd]. intros Q. rewrite Q in An. discriminate.
    + intros w E. assert (Ew : w = (t, new)) by congruence. rewrite Ew. clear E Ew. cbn [fst]. split.
      * intros p Ep. assert (p = c) by congruence. subst p. symmetry. exact Ht.
      * intros a. destruct (is_nil added) eqn:An.
        -- (* the old entry: its TTL is that of the old working RRset = the published one *)
           intros Ea. destruct (s_get k (ds_work st)) as [w0|] eqn:W0.
           ++ destruct (IT w0 eq_refl) as [T1 T2]. rewrite (T2 a Ea), (T1 c eq_refl). exact Ht.
           ++ (* no working RRset: the add entry would be empty *)
              exfalso. destruct (IAn a Ea). destruct (snd a) as [|z zs] eqn:Sa; [reflexivity|].
              assert (In z (rrs_data (Some a))) by (cbn; rewrite Sa; left; reflexivity).
              rewrite <- Ea in H. apply IA in H as [H _]. cbn in H. destruct H.
        -- rewrite s_get_set_same. intros Ea. assert (a = (t, added)) by congruence. subst a. reflexivity.
  - (* key not published: the whole new RRset is recorded as added *)
    destruct new as [|n0 new']; [contradiction|]. cbn [is_nil negb snd].
    unfold kinv. cbn [ds_work ds_rem ds_add]. rewrite Pc. cbn [rrs_data].
    rewrite !s_get_set_same. cbn [rrs_data snd fst].
    split; [|split; [|split; [|split]]].
    + intros y. split; [|intros [[] _]]. intros Hy. exfalso. apply (StaleR y). split; [exact Hy|].
      cbn. intros z [].
    + intros y. tauto.
    + intros v E. inversion E; subst. cbn. discriminate.
    + intros v E. inversion E; subst. cbn. discriminate.
    + intros w E. inversion E; subst. split; [intros p Ep; discriminate|].
      intros a Ea. inversion Ea; subst. reflexivity.
Qed.

Lemma kinv_other_update pub st k k' v :
  k' <> k -> kinv pub st k' -> kinv pub (update_rrset k v st) k'.
Proof.
  intros Hn I. unfold kinv, update_rrset in *.
  destruct (match s_get k (ds_pub st) with
            | Some c => if negb (rrs_eqb v c) && negb (is_nil (snd c)) then Some c else None
            | None => None end) as [c|];
  destruct (negb (is_nil (snd v)));
  repeat match goal with |- context [if ?b then _ else _] => destruct b end;
  cbn [ds_work ds_rem ds_add]; rewrite ?(s_get_set_other k k' _ _ Hn); exact I.
Qed.

Lemma kinv_other_remove pub st k k' :
  k' <> k -> kinv pub st k' -> kinv pub (remove_rrset k st) k'.
Proof.
  intros Hn I. unfold kinv, remove_rrset in *.
  destruct (s_get k (ds_pub st)); cbn [ds_work ds_rem ds_add];
  rewrite ?(s_get_set_other k k' _ _ Hn), ?(s_get_remove_other k k' _ Hn); exact I.
Qed.

Lemma in_filter_neq x d l : In x (filter (fun y => negb (y =? d)) l) <-> In x l /\ x <> d.
Proof.
  rewrite filter_In. destruct (N.eqb_spec x d); cbn; split; intros [A B]; split; auto; congruence.
Qed.

Lemma ds_pub_update k v st : ds_pub (update_rrset k v st) = ds_pub st.
Proof.
  unfold update_rrset.
  match goal with |- ds_pub (let '(_, _) := ?m in _) = _ => destruct m end. reflexivity.
Qed.
Lemma ds_pub_remove k st : ds_pub (remove_rrset k st) = ds_pub st.
Proof. reflexivity. Qed.

(* one good operation keeps the invariant of every key *)
Lemma kinv_step pub st o k :
  ds_pub st = pub -> pub_ne pub -> good_op o st = true ->
  k <> 0 -> kinv pub st k -> kinv pub (fst (d_step o st)) k /\ ds_pub (fst (d_step o st)) = pub.
Proof.
  intros Hpub Hok G Hk I.
  destruct o as [|k0 d t|k0 d t| |s t|s t]; cbn [good_op] in G; try discriminate.
  - (* DAdd *)
    apply andb_prop in G as [G Gt]. apply andb_prop in G as [G Gp]. apply andb_prop in G as [G0 Gw].
    apply neg_memN in Gw, Gp. rewrite Hpub in Gp, Gt.
    cbn [d_step fst]. split; [|rewrite ds_pub_update; exact Hpub].
    destruct (N.eq_dec k k0) as [->|Hne]; [|apply kinv_other_update; auto].
    destruct I as [IR [IA [IW [IAn IT]]]].
    apply (kinv_update pub st k0 t (d :: d_existing k0 st) Hpub Hok (conj IR (conj IA (conj IW (conj IAn IT))))).
    + discriminate.
    + intros p Ep. rewrite Ep in Gt, Gp. cbn [rrs_data] in Gp. split; [apply N.eqb_eq; exact Gt|].
      exists d. right. split; [left; reflexivity|exact Gp].
    + intros x [Hx Hall]. apply IR in Hx as [Hx1 Hx2]. apply Hx2.
      specialize (Hall x Hx1). destruct Hall as [E|E]; [subst x; contradiction|].
      unfold d_existing in E. unfold rrs_data. destruct (s_get k0 (ds_work st)); exact E.
    + intros x [Hx Hall]. apply IA in Hx as [Hx1 Hx2]. apply Gp. apply Hall. left. reflexivity.
  - (* DDel *)
    apply andb_prop in G as [G Gt]. apply andb_prop in G as [G Gp]. apply andb_prop in G as [G0 Gw].
    apply memN_spec in Gw, Gp. rewrite Hpub in Gp, Gt.
    cbn [d_step fst].
    set (data := filter (fun x => negb (x =? d)) (d_existing k0 st)).
    assert (Hd : forall y, In y data <-> In y (rrs_data (s_get k0 (ds_work st))) /\ y <> d).
    { intros y. unfold data. rewrite in_filter_neq. unfold d_existing, rrs_data.
      destruct (s_get k0 (ds_work st)); tauto. }
    destruct (s_get k0 pub) as [c|] eqn:Pc; [|cbn in Gp; destruct Gp].
    cbn [rrs_data] in Gp. apply N.eqb_eq in Gt. cbn [fst] in Gt.
    split.
    2:{ destruct (is_nil data); [rewrite ds_pub_remove|rewrite ds_pub_update]; exact Hpub. }
    destruct (N.eq_dec k k0) as [->|Hne].
    2:{ destruct (is_nil data); [apply kinv_other_remove|apply kinv_other_update]; auto. }
    destruct I as [IR [IA [IW [IAn IT]]]].
    destruct (is_nil data) eqn:Dn.
    + (* the RRset becomes empty: remove_rrset records the published RRset *)
      apply is_nil_spec in Dn.
      assert (Wsub : forall y, In y (rrs_data (s_get k0 (ds_work st))) -> y = d).
      { intros y Hy. destruct (N.eq_dec y d); [auto|]. exfalso.
        assert (In y data) by (apply Hd; auto). rewrite Dn in H. destruct H. }
      unfold kinv, remove_rrset. rewrite Hpub, Pc. cbn [ds_work ds_rem ds_add].
      rewrite s_get_set_same, s_get_remove_same. cbn [rrs_data].
      split; [|split; [|split; [|split]]].
      * intros y. tauto.
      * intros y. split; [|intros [[] _]]. intros Hy. apply IA in Hy as [H1 H2].
        exfalso. rewrite Pc in H2. cbn [rrs_data] in H2. apply Wsub in H1. subst y. exact (H2 Gp).
      * discriminate.
      * exact IAn.
      * discriminate.
    + (* some records stay *)
      apply (kinv_update pub st k0 t data Hpub Hok (conj IR (conj IA (conj IW (conj IAn IT))))).
      * intros E. rewrite E in Dn. discriminate.
      * intros p Ep. rewrite Pc in Ep. inversion Ep; subst p. split; [exact Gt|].
        exists d. left. split; [exact Gp|]. intros Q. apply Hd in Q as [_ Q]. congruence.
      * intros x [_ Hall]. rewrite Pc in Hall. cbn [rrs_data] in Hall.
        specialize (Hall d Gp). apply Hd in Hall as [_ Q]. congruence.
      * intros x [Hx Hall]. apply IA in Hx as [Hx1 Hx2]. rewrite Pc in Hall, Hx2. cbn [rrs_data] in Hall, Hx2.
        destruct (N.eq_dec x d) as [->|Nx]; [contradiction|].
        apply Hx2. apply Hall. apply Hd. auto.
  - (* DSoa: key 0 only *)
    cbn [d_step fst]. split; [apply kinv_other_update; auto|rewrite ds_pub_update; exact Hpub].
Qed.

Lemma kinv_body ops : forall pub st k,
  ds_pub st = pub -> pub_ne pub -> good_body ops st = true -> k <> 0 ->
  kinv pub st k ->
  kinv pub (fst (d_run ops st)) k /\ ds_pub (fst (d_run ops st)) = pub.
Proof.
  induction ops as [|o ops IH]; intros pub st k Hpub Hok G Hk I; cbn [d_run good_body] in *.
  - auto.
  - apply andb_prop in G as [G1 G2].
    destruct (kinv_step pub st o k Hpub Hok G1 Hk I) as [I1 P1].
    destruct (d_step o st) as [st1 r1] eqn:S. cbn [fst] in *.
    destruct (IH pub st1 k P1 Hok G2 Hk I1) as [I2 P2].
    destruct (d_run ops st1) as [st2 r2]. cbn [fst] in *. auto.
Qed.

(* ---- from the invariant to "the diff applies" at that key ---- *)
Lemma kinv_applies pub st k :
  pub_ne pub -> kinv pub st k ->
  same_rrset (applied_at k pub (ds_rem st) (ds_add st)) (s_get k (ds_work st)).
Proof.
  intros Hok [IR [IA [IW [IAn IT]]]]. unfold applied_at.
  set (base := match s_get k pub with
               | Some v => match s_get k (ds_rem st) with
                           | Some r => rrs_minus v (snd r) | None => Some v end
               | None => None end).
  (* the data of base: published and still there *)
  assert (Hb : forall x, In x (rrs_data base) <->
                         In x (rrs_data (s_get k pub)) /\ In x (rrs_data (s_get k (ds_work st)))).
  { intros x. unfold base. destruct (s_get k pub) as [c|] eqn:Pc; cbn [rrs_data]; [|cbn; tauto].
    destruct (s_get k (ds_rem st)) as [r|] eqn:Rr; cbn [rrs_data] in *.
    - unfold rrs_minus. destruct (is_nil _) eqn:Nn.
      + apply is_nil_spec in Nn. cbn [rrs_data]. split; [intros []|]. intros [H1 H2].
        assert (In x (filter (fun y => negb (memN y (snd r))) (snd c))).
        { apply in_filter_notin. split; [exact H1|]. intros Q. apply IR in Q as [_ Q]. contradiction. }
        rewrite Nn in H. destruct H.
      + cbn [rrs_data snd]. rewrite in_filter_notin. split.
        * intros [H1 H2]. split; [exact H1|]. destruct (memN x (rrs_data (s_get k (ds_work st)))) eqn:M; [apply memN_spec; exact M|].
          exfalso. apply H2. apply IR. split; [exact H1|]. intros Q. apply memN_spec in Q. congruence.
        * intros [H1 H2]. split; [exact H1|]. intros Q. apply IR in Q as [_ Q]. contradiction.
    - split; [|tauto]. intros H1. split; [exact H1|].
      destruct (memN x (rrs_data (s_get k (ds_work st)))) eqn:M; [apply memN_spec; exact M|].
      exfalso. assert (In x []) by (apply IR; split; [exact H1|intros Q; apply memN_spec in Q; congruence]).
      destruct H. }
  assert (Hbt : forall b, base = Some b -> exists c, s_get k pub = Some c /\ fst b = fst c /\ snd b <> []).
  { intros b. unfold base. destruct (s_get k pub) as [c|] eqn:Pc; [|discriminate].
    destruct (s_get k (ds_rem st)) as [r|].
    - unfold rrs_minus. destruct (is_nil _) eqn:Nn; [discriminate|]. intros E; inversion E; subst. cbn.
      exists c. repeat split. intros Q. rewrite Q in Nn. discriminate.
    - intros E; inversion E; subst. exists b. repeat split. eapply pub_ok_nonempty; eauto. }
  destruct (s_get k (ds_add st)) as [a|] eqn:Aa.
  - (* something added *)
    assert (Wn : exists w, s_get k (ds_work st) = Some w).
    { destruct (s_get k (ds_work st)) as [w|] eqn:Ww; [eauto|]. exfalso.
      destruct (snd a) as [|z zs] eqn:Sa; [exact (IAn a eq_refl Sa)|].
      assert (In z (rrs_data (Some a))) by (cbn; rewrite Sa; left; reflexivity).
      apply IA in H as [H _]. destruct H. }
    destruct Wn as [w Ww]. rewrite Ww. cbn [same_rrset].
    destruct w as [tw dw]. destruct (IT _ Ww) as [_ T2]. split; [apply (T2 a eq_refl)|].
    intros x. rewrite in_app_iff, in_filter_notin, Hb. cbn [rrs_data] in IA. rewrite (IA x).
    rewrite Ww. cbn [rrs_data snd]. split.
    + intros [[_ H]|[[H _] _]]; exact H.
    + intros H. destruct (memN x (rrs_data (s_get k pub))) eqn:M.
      * left. split; [apply memN_spec; exact M|exact H].
      * right. assert (Np : ~ In x (rrs_data (s_get k pub))) by (intros Q; apply memN_spec in Q; congruence).
        split; [split; [exact H|exact Np]|]. intros [Q _]. contradiction.
  - (* nothing added: the working RRset is within the published one *)
    cbn [rrs_data] in IA.
    destruct (s_get k (ds_work st)) as [w|] eqn:Ww.
    + destruct base as [b|] eqn:Bb.
      * destruct (Hbt b eq_refl) as [c [Pc [Tb _]]]. destruct w as [tw dw]. destruct b as [tb db]. cbn [same_rrset].
        destruct (IT _ eq_refl) as [T1 _]. cbn [fst] in *. split; [rewrite Tb; symmetry; apply (T1 c Pc)|].
        intros x. specialize (Hb x). cbn [rrs_data snd] in Hb. rewrite Hb. split; [intros [_ H]; exact H|].
        intros H. split; [|exact H]. destruct (memN x (rrs_data (s_get k pub))) eqn:M; [apply memN_spec; exact M|].
        exfalso. assert (In x []) by (apply IA; split; [exact H|intros Q; apply memN_spec in Q; congruence]). destruct H0.
      * (* base empty but a working RRset: impossible *)
        exfalso. destruct (snd w) as [|z zs] eqn:Sw; [exact (IW w eq_refl Sw)|].
        assert (Hz : In z (rrs_data (Some w))) by (cbn; rewrite Sw; left; reflexivity).
        destruct (memN z (rrs_data (s_get k pub))) eqn:M.
        -- apply memN_spec in M. assert (In z (rrs_data None)) by (apply Hb; auto). destruct H.
        -- assert (In z []) by (apply IA; split; [exact Hz|intros Q; apply memN_spec in Q; congruence]). destruct H.
    + destruct base as [b|] eqn:Bb; [|exact I].
      exfalso. destruct (Hbt b eq_refl) as [_ [_ [_ Nb]]]. destruct (snd b) as [|z zs] eqn:Sb; [contradiction|].
      assert (In z (rrs_data (Some b))) by (cbn; rewrite Sb; left; reflexivity).
      apply Hb in H as [_ H]. destruct H.
Qed.

(* ---- the theorem ---- *)
Theorem good_body_diff_applies pub body k :
  pub_ne pub -> good_body body (d_start pub) = true -> k <> 0 ->
  let st := fst (d_run body (d_start pub)) in
  same_rrset (applied_at k pub (ds_rem st) (ds_add st)) (s_get k (ds_work st)).
Proof.
  intros Hok G Hk. cbv zeta.
  destruct (kinv_body body pub (d_start pub) k eq_refl Hok G Hk (kinv_start pub k Hok)) as [I _].
  apply kinv_applies; assumption.
Qed.

Lemma d_run_app a : forall b st,
  d_run (a ++ b) st =
  let '(st1, r1) := d_run a st in let '(st2, r2) := d_run b st1 in (st2, r1 ++ r2).
Proof.
  induction a as [|o a IH]; intros b st; cbn [app d_run].
  - destruct (d_run b st). reflexivity.
  - destruct (d_step o st) as [st1 r1]. rewrite IH.
    destruct (d_run a st1) as [st2 r2]. destruct (d_run b st2) as [st3 r3]. rewrite app_assoc. reflexivity.
Qed.

Lemma good_body_no_commit ops : forall st, good_body ops st = true -> snd (d_run ops st) = [].
Proof.
  induction ops as [|o ops IH]; intros st G; cbn [d_run good_body] in *; [reflexivity|].
  apply andb_prop in G as [G1 G2].
  destruct o; cbn [good_op] in G1; try discriminate; cbn [d_step fst] in *;
  specialize (IH _ G2); destruct (d_run ops _) as [st2 r2]; cbn in *; subst; reflexivity.
Qed.

(* the whole batch: [BeginBatchDelete] body Finished *)
Theorem good_history_diff_applies pub ops rem add :
  good_history pub ops = true ->
  last (c10_diff pub ops) None = Some (rem, add) ->
  forall k, same_rrset (applied_at k pub rem add) (s_get k (content_after pub ops)).
Proof.
  unfold good_history, c10_diff, content_after.
  (* a leading BeginBatchDelete commits nothing and changes nothing *)
  assert (Lead : forall r, d_run (DBatch :: r) (d_start pub) =
            let '(st, ds) := d_run r (d_start pub) in (st, snd (d_commit (d_start pub)) :: ds)).
  { intros r. cbn [d_run d_step]. unfold d_commit at 1. cbn [d_start ds_work ds_pub ds_rem ds_add].
    fold (d_start pub). destruct (d_run r (d_start pub)). reflexivity. }
  set (ops' := match ops with DBatch :: r => r | _ => ops end).
  intros G L k.
  assert (Same : fst (d_run ops (d_start pub)) = fst (d_run ops' (d_start pub)) /\
                 last (snd (d_run ops (d_start pub))) None = last (snd (d_run ops' (d_start pub))) None \/
                 snd (d_run ops' (d_start pub)) = []).
  { unfold ops'. destruct ops as [|[] r]; try (left; split; reflexivity).
    rewrite Lead. destruct (d_run r (d_start pub)) as [st ds]. cbn [fst snd].
    destruct ds; [right; reflexivity|left; split; reflexivity]. }
  destruct (rev ops') as [|[| | | | |s t] rbody] eqn:R; try discriminate.
  apply andb_prop in G as [Hok0 G]. pose proof (pub_ok_ne pub Hok0) as Hok.
  assert (E : ops' = rev rbody ++ [DFinish s t]).
  { rewrite <- (rev_involutive ops'), R. reflexivity. }
  set (body := rev rbody) in *.
  pose proof (good_body_no_commit body _ G) as NC.
  assert (Run : d_run ops' (d_start pub) =
                let st1 := fst (d_run body (d_start pub)) in
                let st1' := update_rrset 0 (t, [s]) st1 in
                (fst (d_commit st1'), [snd (d_commit st1')])).
  { rewrite E, d_run_app. destruct (d_run body (d_start pub)) as [st1 r1]. cbn [snd fst] in *. subst r1.
    cbn [d_run d_step]. destruct (d_commit (update_rrset 0 (t, [s]) st1)). reflexivity. }
  destruct Same as [[S1 S2]|S2]; [|rewrite Run in S2; discriminate].
  rewrite S1. rewrite S2 in L. rewrite Run in L |- *. cbv zeta in L |- *. cbn [fst snd last] in L |- *.
  set (st1 := fst (d_run body (d_start pub))) in *.
  assert (Hp1 : ds_pub st1 = pub).
  { destruct (N.eq_dec 1 0) as [Q|Q]; [discriminate|].
    apply (kinv_body body pub (d_start pub) 1 eq_refl Hok G Q (kinv_start pub 1 Hok)). }
  set (st1' := update_rrset 0 (t, [s]) st1) in *.
  assert (Hp1' : ds_pub st1' = pub) by (unfold st1'; rewrite ds_pub_update; exact Hp1).
  assert (W0 : s_get 0 (ds_work st1') = Some (t, [s])).
  { unfold st1', update_rrset.
    match goal with |- s_get 0 (ds_work (let '(_, _) := ?m in _)) = _ => destruct m end.
    cbn [ds_work]. apply s_get_set_same. }
  (* the shape of the commit *)
  unfold d_commit in L |- *. rewrite Hp1', W0 in L. cbn [ds_work fst] in L |- *.
  assert (P0 : exists to so, s_get 0 pub = Some (to, [so])).
  { unfold pub_ok in Hok0. apply andb_prop in Hok0 as [_ H0].
    destruct (s_get 0 pub) as [[to [|so [|? ?]]]|]; try discriminate. eauto. }
  destruct P0 as [to [so P0]]. rewrite P0 in L.
  destruct (serial_range_invalid (soa_serial so) (soa_serial s)); [discriminate|].
  inversion L; subst rem add. clear L.
  destruct (N.eq_dec k 0) as [->|Hk].
  - (* the SOA: old one removed, new one added *)
    unfold applied_at. rewrite P0, !s_get_set_same, W0. unfold rrs_minus. cbn [snd fst filter memN existsb].
    rewrite N.eqb_refl. cbn. split; [reflexivity|]. intros x. tauto.
  - unfold applied_at. rewrite !(s_get_set_other 0 k _ _ Hk).
    pose proof (good_body_diff_applies pub body k Hok G Hk) as A. cbv zeta in A. fold st1 in A.
    assert (O : kinv pub st1 k) by (apply (kinv_body body pub (d_start pub) k eq_refl Hok G Hk (kinv_start pub k Hok))).
    (* update_rrset on key 0 leaves key k alone *)
    assert (Er : s_get k (ds_rem st1') = s_get k (ds_rem st1) /\ s_get k (ds_add st1') = s_get k (ds_add st1)
                 /\ s_get k (ds_work st1') = s_get k (ds_work st1)).
    { unfold st1', update_rrset.
      destruct (match s_get 0 (ds_pub st1) with
                | Some c => if negb (rrs_eqb (t, [s]) c) && negb (is_nil (snd c)) then Some c else None
                | None => None end) as [c|];
      cbn [snd is_nil negb];
      repeat match goal with |- context [if ?b then _ else _] => destruct b end;
      cbn [ds_work ds_rem ds_add]; rewrite ?(s_get_set_other 0 k _ _ Hk); auto. }
    destruct Er as [E1 [E2 E3]]. rewrite E1, E2, E3. unfold applied_at in A. exact A.
Qed.

Example good_history_example :
  good_history [(0, (3600, [50])); (1, (300, [5; 6]))]
               [DBatch; DDel 1 5 300; DSoa 52 3600; DAdd 1 7 300; DFinish 52 3600] = true /\
  diff_applies_b [(0, (3600, [50])); (1, (300, [5; 6]))]
               [DBatch; DDel 1 5 300; DSoa 52 3600; DAdd 1 7 300; DFinish 52 3600] = true.
Proof. vm_compute. split; reflexivity. Qed.

(* the three known classes are outside good_history *)
Example known_classes_not_good :
  good_history [(0, (3600, [50])); (1, (900, [9]))]
               [DBatch; DDel 1 9 900; DSoa 54 3600; DAdd 1 9 1900; DFinish 54 3600] = false /\
  good_history [(0, (3600, [50])); (1, (3600, [0; 1]))]
               [DDeleteAll; DAdd 1 0 3600; DAdd 1 1 3600; DFinish 52 3600] = false /\
  good_history [(0, (3600, [50])); (1, (900, [9])); (2, (300, [5]))]
               [DDeleteAll; DAdd 2 5 300; DFinish 52 3600] = false.
Proof. vm_compute. repeat split; reflexivity. Qed.

(* ---- several batches ---- *)
Ltac msplit := split; [|split; [|split]].
Definition soa_shape (st : store) : Prop := exists t s, s_get 0 st = Some (t, [s]).

Definition minv (st : dstate) : Prop :=
  pub_ne (ds_pub st) /\ soa_shape (ds_pub st) /\ soa_shape (ds_work st) /\
  forall k, k <> 0 -> kinv (ds_pub st) st k.

Lemma minv_start pub : pub_ok pub = true -> minv (d_start pub).
Proof.
  intros H. pose proof (pub_ok_ne pub H) as Hn.
  assert (S : soa_shape pub).
  { unfold pub_ok in H. apply andb_prop in H as [_ H0]. unfold soa_shape.
    destruct (s_get 0 pub) as [[to [|so [|? ?]]]|]; try discriminate. eauto. }
  unfold minv, d_start; cbn [ds_pub ds_work]. msplit; auto. intros k _. apply kinv_start. exact Hn.
Qed.

Lemma work0_update k v st : k <> 0 -> s_get 0 (ds_work (update_rrset k v st)) = s_get 0 (ds_work st).
Proof.
  intros Hk. unfold update_rrset.
  match goal with |- s_get 0 (ds_work (let '(_, _) := ?m in _)) = _ => destruct m end.
  cbn [ds_work]. apply s_get_set_other. auto.
Qed.

Lemma work0_remove k st : k <> 0 -> s_get 0 (ds_work (remove_rrset k st)) = s_get 0 (ds_work st).
Proof. intros Hk. unfold remove_rrset. cbn [ds_work]. apply s_get_remove_other. auto. Qed.

(* the content a commit publishes is a well-formed published content again *)
Lemma minv_committed st :
  minv st -> minv (d_start (ds_work st)).
Proof.
  intros [Hn [Sp [Sw K]]]. unfold d_start, minv. cbn [ds_pub ds_work].
  assert (Wn : pub_ne (ds_work st)).
  { intros k v E. destruct (N.eq_dec k 0) as [->|Hk].
    - destruct Sw as [t [s0 Es]]. rewrite Es in E. inversion E; subst. cbn. discriminate.
    - destruct (K k Hk) as [_ [_ [IW _]]]. exact (IW v E). }
  msplit; auto. intros k _. apply (kinv_start (ds_work st) k Wn).
Qed.

Lemma d_commit_state st : fst (d_commit st) = d_start (ds_work st).
Proof. reflexivity. Qed.

Lemma minv_step o st :
  minv st -> (if is_commit_op o then true else good_op o st) = true -> minv (fst (d_step o st)).
Proof.
  intros M G. destruct M as [Hn [Sp [Sw K]]]. unfold minv, soa_shape in *.
  destruct o as [|k0 d t|k0 d t| |s t|s t]; cbn [is_commit_op] in G.
  - discriminate.
  - (* DAdd *)
    assert (Hk0 : k0 <> 0).
    { cbn [good_op] in G. apply andb_prop in G as [G _]. apply andb_prop in G as [G _]. apply andb_prop in G as [G _].
      destruct (N.eqb_spec k0 0); [discriminate|auto]. }
    cbn [d_step fst]. rewrite ds_pub_update, (work0_update _ _ _ Hk0).
    msplit; auto. intros k Hk.
    destruct (kinv_step (ds_pub st) st (DAdd k0 d t) k eq_refl Hn G Hk (K k Hk)) as [I _]. exact I.
  - (* DDel *)
    assert (Hk0 : k0 <> 0).
    { cbn [good_op] in G. apply andb_prop in G as [G _]. apply andb_prop in G as [G _]. apply andb_prop in G as [G _].
      destruct (N.eqb_spec k0 0); [discriminate|auto]. }
    assert (E0 : s_get 0 (ds_work (fst (d_step (DDel k0 d t) st))) = s_get 0 (ds_work st)).
    { cbn [d_step fst]. destruct (is_nil _); [apply work0_remove|apply work0_update]; auto. }
    assert (Ep : ds_pub (fst (d_step (DDel k0 d t) st)) = ds_pub st).
    { cbn [d_step fst]. destruct (is_nil _); [apply ds_pub_remove|apply ds_pub_update]. }
    rewrite Ep, E0.
    msplit; auto. intros k Hk.
    destruct (kinv_step (ds_pub st) st (DDel k0 d t) k eq_refl Hn G Hk (K k Hk)) as [I _]. exact I.
  - (* DBatch *)
    cbn [d_step]. destruct (d_commit st) as [st' r] eqn:C. cbn [fst].
    assert (st' = d_start (ds_work st)) by (rewrite <- (d_commit_state st), C; reflexivity). subst st'.
    apply minv_committed. unfold minv, soa_shape. msplit; auto.
  - (* DSoa *)
    cbn [d_step fst]. rewrite ds_pub_update.
    msplit; auto.
    + exists t, s. unfold update_rrset.
      match goal with |- s_get 0 (ds_work (let '(_, _) := ?m in _)) = _ => destruct m end.
      cbn [ds_work]. apply s_get_set_same.
    + intros k Hk. apply kinv_other_update; auto.
  - (* DFinish *)
    cbn [d_step]. destruct (d_commit (update_rrset 0 (t, [s]) st)) as [st' r] eqn:C. cbn [fst].
    assert (st' = d_start (ds_work (update_rrset 0 (t, [s]) st))) by (rewrite <- d_commit_state, C; reflexivity).
    subst st'. apply minv_committed. unfold minv, soa_shape. rewrite ds_pub_update.
    msplit; auto.
    + exists t, s. unfold update_rrset.
      match goal with |- s_get 0 (ds_work (let '(_, _) := ?m in _)) = _ => destruct m end.
      cbn [ds_work]. apply s_get_set_same.
    + intros k Hk. apply kinv_other_update; auto.
Qed.

Lemma minv_run ops : forall st, minv st -> good_multi ops st = true -> minv (fst (d_run ops st)).
Proof.
  induction ops as [|o ops IH]; intros st M G; cbn [d_run good_multi] in *; [exact M|].
  apply andb_prop in G as [G1 G2].
  pose proof (minv_step o st M G1) as M1.
  destruct (d_step o st) as [st1 r1]. cbn [fst] in *.
  specialize (IH st1 M1 G2). destruct (d_run ops st1) as [st2 r2]. exact IH.
Qed.

Lemma good_multi_app a : forall b st,
  good_multi (a ++ b) st = true -> good_multi a st = true /\ good_multi b (fst (d_run a st)) = true.
Proof.
  induction a as [|o a IH]; intros b st G; cbn [app good_multi d_run] in *; [auto|].
  apply andb_prop in G as [G1 G2]. destruct (d_step o st) as [st1 r1] eqn:S. cbn [fst] in *.
  destruct (IH b st1 G2) as [A B]. rewrite G1, A. split; [reflexivity|].
  destruct (d_run a st1). exact B.
Qed.

(* a commit on a state with the invariant reports a diff that applies *)
Lemma commit_applies st rem add :
  minv st -> snd (d_commit st) = Some (rem, add) ->
  forall k, same_rrset (applied_at k (ds_pub st) rem add) (s_get k (ds_work st)).
Proof.
  intros [Hn [[to [so P0]] [[tn [sn W0]] K]]] C k.
  unfold d_commit in C. rewrite P0, W0 in C. cbn [snd] in C.
  destruct (serial_range_invalid (soa_serial so) (soa_serial sn)); [discriminate|].
  inversion C; subst rem add. clear C.
  destruct (N.eq_dec k 0) as [->|Hk].
  - unfold applied_at. rewrite P0, !s_get_set_same, W0. unfold rrs_minus. cbn [snd fst filter memN existsb].
    rewrite N.eqb_refl. cbn. split; [reflexivity|]. intros x. tauto.
  - unfold applied_at. rewrite !(s_get_set_other 0 k _ _ Hk).
    exact (kinv_applies (ds_pub st) st k Hn (K k Hk)).
Qed.

(* every diff reported in a multi-step history of good batches applies to the
   version that was published when its batch began *)
Theorem good_multi_diff_applies pub pre o post rem add :
  pub_ok pub = true -> good_multi (pre ++ o :: post) (d_start pub) = true ->
  let st := fst (d_run pre (d_start pub)) in
  snd (d_step o st) = [Some (rem, add)] ->
  forall k, same_rrset (applied_at k (ds_pub st) rem add) (s_get k (ds_work (fst (d_step o st)))).
Proof.
  intros Hok G st R k.
  destruct (good_multi_app pre (o :: post) _ G) as [Gp Go].
  pose proof (minv_run pre _ (minv_start pub Hok) Gp) as M. fold st in M, Go.
  cbn [good_multi] in Go. apply andb_prop in Go as [Go _].
  destruct o as [|k0 d t|k0 d t| |s t|s t]; cbn [d_step snd] in R; try discriminate.
  - (* DBatch *)
    cbn [d_step]. destruct (d_commit st) as [st' r] eqn:C. cbn [fst snd] in *.
    inversion R; subst r.
    assert (st' = d_start (ds_work st)) by (rewrite <- (d_commit_state st), C; reflexivity). subst st'.
    cbn [d_start ds_work]. apply commit_applies; [exact M|rewrite C; reflexivity].
  - (* DFinish *)
    cbn [d_step]. set (st1 := update_rrset 0 (t, [s]) st) in *.
    destruct (d_commit st1) as [st' r] eqn:C. cbn [fst snd] in *. inversion R; subst r.
    assert (st' = d_start (ds_work st1)) by (rewrite <- (d_commit_state st1), C; reflexivity). subst st'.
    cbn [d_start ds_work].
    assert (M1 : minv st1) by (apply (minv_step (DSoa s t) st M); reflexivity).
    assert (Ep : ds_pub st1 = ds_pub st) by (unfold st1; apply ds_pub_update).
    rewrite <- Ep. apply commit_applies; [exact M1|rewrite C; reflexivity].
Qed.

Example good_multi_example :
  good_history_multi [(0, (3600, [50])); (1, (300, [5; 6]))]
    [DBatch; DDel 1 5 300; DSoa 52 3600; DAdd 1 7 300; DBatch; DDel 1 6 300; DDel 1 7 300; DSoa 54 3600; DAdd 2 9 60; DFinish 54 3600] = true /\
  applies_multi
    [DBatch; DDel 1 5 300; DSoa 52 3600; DAdd 1 7 300; DBatch; DDel 1 6 300; DDel 1 7 300; DSoa 54 3600; DAdd 2 9 60; DFinish 54 3600]
    (d_start [(0, (3600, [50])); (1, (300, [5; 6]))]) = true.
Proof. vm_compute. split; reflexivity. Qed.

(* ---- the serial range check of InMemoryZoneDiff::new is in RFC 1982 order
   (C17's closed form of Serial::partial_cmp), not in integer order ---- *)
Ltac Zify.zify_post_hook ::= Z.div_mod_to_equations.

Theorem serial_range_invalid_spec s e :
  s < 4294967296 -> e < 4294967296 ->
  (serial_range_invalid s e = false <->
   let d := (e + 4294967296 - s) mod 4294967296 in 0 < d /\ d <= 2147483648).
Proof.
  intros Hs He. unfold serial_range_invalid.
  rewrite (C17.Proofs.cmp_closed_form e s He Hs).
  unfold C17.Model.classify, C17.Model.wdiff, C17.Model.M32. cbv zeta.
  destruct (N.eqb_spec s e).
  - subst. cbn [orb]. split; [discriminate|]. intros [H _].
    replace ((e + 4294967296 - e) mod 4294967296) with 0 in H by lia. lia.
  - cbn [orb].
    destruct (N.eqb_spec ((s + 4294967296 - e) mod 4294967296) 0); [lia|].
    destruct (N.ltb_spec ((s + 4294967296 - e) mod 4294967296) 2147483648).
    + split; [discriminate|]. intros [H1 H2]. lia.
    + split; [intros _; lia|intros _].
      destruct (N.eqb_spec ((s + 4294967296 - e) mod 4294967296) 2147483648); reflexivity.
Qed.

Example diff_across_the_wrap :
  serial_range_invalid 4294967295 0 = false /\ serial_range_invalid 0 4294967295 = true /\
  serial_range_invalid 4294967294 7 = false /\ serial_range_invalid 5 5 = true.
Proof. vm_compute. repeat split; reflexivity. Qed.
