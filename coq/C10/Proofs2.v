(* C10 proofs, part 2: the update streams of valid AXFR / IXFR / fallback
   record sequences, the updater, fidelity and the rejection theorems. *)
From Coq Require Import NArith List Bool Lia ZifyN ZifyBool ZifyNat Permutation.
From DV Require Import Base.Outcome C10.Gen C10.Model C10.Proofs1.
Import ListNotations.
Local Open Scope N_scope.

(* ------------------------------------------------------------------ *)
(* update streams of the sender's record sequences                     *)

Definition adds (ks : list N) : list upd := map (fun k => UAdd (Other k)) ks.
Definition dels (ks : list N) : list upd := map (fun k => UDelete (Other k)) ks.
Definition axfr_upds (s : N) (ks : list N) : list upd := UDeleteAll :: adds ks ++ [UFinished s].
Definition diff_upds (d : diff) : list upd :=
  UBeginDel (d_old d) :: dels (d_dels d) ++ UBeginAdd (d_new d) :: adds (d_adds d).
Definition ixfr_upds (snew : N) (ds : list diff) : list upd :=
  concat (map diff_upds ds) ++ [UFinished snew].

Lemma succ_ne_1 c : 1 <= c -> (c + 1 =? 1) = false.
Proof. intros. destruct (N.eqb_spec (c + 1) 1); [lia|reflexivity]. Qed.
Lemma succ_ne_2 c : 2 <= c -> (c + 1 =? 2) = false.
Proof. intros. destruct (N.eqb_spec (c + 1) 2); [lia|reflexivity]. Qed.

Lemma flat_axfr_others ks : forall i cur m c, 1 <= c ->
  flat (mkProc Axfr i cur m c true false) (map Other ks) =
  (mkProc Axfr i cur m (c + N.of_nat (length ks)) true false, adds ks, None).
Proof.
  induction ks as [|k ks IH]; intros i cur m c Hc; cbn [map flat length adds].
  - rewrite N.add_0_r. reflexivity.
  - unfold process_record, start_count. cbn [p_finished p_count p_ty p_deleted p_initial p_current p_mode is_soa].
    rewrite (succ_ne_1 c Hc). cbn.
    rewrite IH by lia. unfold adds.
    match goal with |- (?a, _, _) = (?b, _, _) => replace a with b; [reflexivity|] end.
    f_equal. lia.
Qed.

Lemma flat_axfr_tail ks i cur m c : 1 <= c ->
  exists p', flat (mkProc Axfr i cur m c true false) (map Other ks ++ [Soa i]) =
             (p', adds ks ++ [UFinished i], None) /\ p_finished p' = true.
Proof.
  intros Hc. rewrite flat_app, flat_axfr_others by exact Hc.
  cbn [flat]. unfold process_record, start_count.
  cbn [p_finished p_count p_ty p_deleted p_initial p_current p_mode is_soa].
  rewrite succ_ne_1 by lia. rewrite N.eqb_refl. cbn.
  eexists. split; reflexivity.
Qed.

(* AXFR, and the AXFR-style answer to an IXFR question with at least one record *)
Lemma flat_axfr s ks :
  exists p', flat (proc_new Axfr s) (axfr_seq s ks) = (p', axfr_upds s ks, None)
             /\ p_finished p' = true.
Proof.
  unfold axfr_seq, proc_new, initial_mode_adding, axfr_upds.
  destruct ks as [|k ks].
  - cbn. rewrite N.eqb_refl. cbn. eexists. split; reflexivity.
  - cbn [map app flat]. unfold process_record at 1, start_count. cbn.
    destruct (flat_axfr_tail ks s s Adding 2 ltac:(lia)) as [p' [F Hf]].
    rewrite F. exists p'. split; [reflexivity|exact Hf].
Qed.

Lemma flat_fallback s k ks :
  exists p', flat (proc_new Ixfr s) (axfr_seq s (k :: ks)) = (p', axfr_upds s (k :: ks), None)
             /\ p_finished p' = true.
Proof.
  unfold axfr_seq, proc_new, initial_mode_adding, axfr_upds.
  cbn [map app flat]. unfold process_record at 1, start_count. cbn.
  destruct (flat_axfr_tail ks s s Adding 2 ltac:(lia)) as [p' [F Hf]].
  rewrite F. exists p'. split; [reflexivity|exact Hf].
Qed.

(* IXFR *)
Lemma flat_ixfr_dels ks : forall i cur c dl, 2 <= c ->
  flat (mkProc Ixfr i cur Deleting c dl false) (map Other ks) =
  (mkProc Ixfr i cur Deleting (c + N.of_nat (length ks)) dl false, dels ks, None).
Proof.
  induction ks as [|k ks IH]; intros i cur c dl Hc; cbn [map flat length dels].
  - rewrite N.add_0_r. reflexivity.
  - unfold process_record, start_count, fallback_count.
    cbn [p_finished p_count p_ty p_deleted p_initial p_current p_mode is_soa].
    rewrite succ_ne_1 by lia. rewrite succ_ne_2 by lia. cbn.
    rewrite IH by lia. unfold dels.
    match goal with |- (?a, _, _) = (?b, _, _) => replace a with b; [reflexivity|] end.
    f_equal. lia.
Qed.

Lemma flat_ixfr_adds ks : forall i cur c dl, 2 <= c ->
  flat (mkProc Ixfr i cur Adding c dl false) (map Other ks) =
  (mkProc Ixfr i cur Adding (c + N.of_nat (length ks)) dl false, adds ks, None).
Proof.
  induction ks as [|k ks IH]; intros i cur c dl Hc; cbn [map flat length adds].
  - rewrite N.add_0_r. reflexivity.
  - unfold process_record, start_count, fallback_count.
    cbn [p_finished p_count p_ty p_deleted p_initial p_current p_mode is_soa].
    rewrite succ_ne_1 by lia. rewrite succ_ne_2 by lia. cbn.
    rewrite IH by lia. unfold adds.
    match goal with |- (?a, _, _) = (?b, _, _) => replace a with b; [reflexivity|] end.
    f_equal. lia.
Qed.

Lemma flat_diff d i cur c dl : 1 <= c -> d_old d <> i ->
  exists c', c <= c' /\
  flat (mkProc Ixfr i cur Adding c dl false) (diff_seq d) =
  (mkProc Ixfr i (d_new d) Adding c' dl false, diff_upds d, None).
Proof.
  intros Hc Hne. unfold diff_seq, diff_upds.
  cbn [flat]. unfold process_record at 1, start_count, fallback_count, toggle.
  cbn [p_finished p_count p_ty p_deleted p_initial p_current p_mode is_soa negb andb].
  rewrite succ_ne_1 by lia. rewrite andb_false_r.
  destruct (N.eqb_spec (d_old d) i) as [E|_]; [contradiction|]. cbn.
  rewrite flat_app, flat_ixfr_dels by lia.
  cbn [flat]. unfold process_record at 1, start_count, fallback_count, toggle.
  cbn [p_finished p_count p_ty p_deleted p_initial p_current p_mode is_soa negb andb].
  rewrite succ_ne_1 by lia. rewrite andb_false_r. cbn.
  rewrite flat_ixfr_adds by lia.
  eexists. split; [|reflexivity]. lia.
Qed.

Lemma flat_diffs ds : forall i cur c dl, 1 <= c ->
  (forall d, In d ds -> d_old d <> i) ->
  exists c' cur', c <= c' /\
  flat (mkProc Ixfr i cur Adding c dl false) (concat (map diff_seq ds)) =
  (mkProc Ixfr i cur' Adding c' dl false, concat (map diff_upds ds), None).
Proof.
  induction ds as [|d ds IH]; intros i cur c dl Hc Hne; cbn [map concat].
  - exists c, cur. split; [lia|reflexivity].
  - destruct (flat_diff d i cur c dl Hc (Hne d (or_introl eq_refl))) as [c1 [Hc1 F1]].
    destruct (IH i (d_new d) c1 dl ltac:(lia) (fun d' H => Hne d' (or_intror H))) as [c2 [cur2 [Hc2 F2]]].
    rewrite flat_app, F1, F2. exists c2, cur2. split; [lia|reflexivity].
Qed.

Lemma flat_ixfr snew ds :
  (forall d, In d ds -> d_old d <> snew) ->
  exists p', flat (proc_new Ixfr snew) (ixfr_seq snew ds) = (p', ixfr_upds snew ds, None)
             /\ p_finished p' = true /\ 2 <= p_count p'.
Proof.
  intros Hne. unfold ixfr_seq, proc_new, initial_mode_adding, ixfr_upds.
  cbn [flat]. unfold process_record at 1, start_count. cbn.
  destruct (flat_diffs ds snew snew 1 false ltac:(lia) Hne) as [c' [cur' [Hc F]]].
  rewrite flat_app, F.
  cbn [flat]. unfold process_record, start_count, fallback_count, toggle.
  cbn [p_finished p_count p_ty p_deleted p_initial p_current p_mode is_soa negb andb].
  rewrite succ_ne_1 by lia. rewrite andb_false_r. rewrite N.eqb_refl. cbn.
  eexists. split; [reflexivity|]. cbn. split; [reflexivity|lia].
Qed.

(* ------------------------------------------------------------------ *)
(* the updater                                                         *)

Lemma rr_eqb_spec a b : rr_eqb a b = true <-> a = b.
Proof.
  destruct a, b; cbn; try (split; [discriminate|congruence]);
  rewrite N.eqb_eq; split; congruence.
Qed.

Section WithChk.
Variable chk : bool.
Local Notation u_apply := (Model.u_apply chk).
Local Notation u_apply_all := (Model.u_apply_all chk).
Local Notation u_transfers := (Model.u_transfers chk).
Local Notation c10_apply z us := (Model.u_apply_all chk us (u_start z)).
Local Notation c10_transfers z uss := (Model.u_transfers chk uss z).

Lemma u_apply_all_app a : forall b st,
  u_apply_all (a ++ b) st = (do st' <- u_apply_all a st; u_apply_all b st').
Proof.
  induction a as [|u a IH]; intros b st; cbn [app u_apply_all bind].
  - reflexivity.
  - destruct (u_apply u st); cbn [bind]; auto.
Qed.

Lemma u_adds ks : forall v w,
  u_apply_all (adds ks) (mkU v w true true false) = Ok (mkU v (rev (map Other ks) ++ w) true true false).
Proof.
  induction ks as [|k ks IH]; intros v w; cbn [adds map u_apply_all rev app].
  - reflexivity.
  - unfold Model.u_apply, with_root. cbn. fold (adds ks). rewrite IH.
    rewrite <- app_assoc. reflexivity.
Qed.

Definition del_all (ks : list N) (w : zone) : zone :=
  fold_left (fun z k => z_delete (Other k) z) ks w.

Lemma u_dels ks : forall v w,
  u_apply_all (dels ks) (mkU v w true true false) = Ok (mkU v (del_all ks w) true true false).
Proof.
  induction ks as [|k ks IH]; intros v w; cbn [dels map u_apply_all del_all fold_left].
  - reflexivity.
  - unfold Model.u_apply, with_root. cbn. fold (dels ks). rewrite IH. reflexivity.
Qed.

Lemma filter_all_true {A} (f : A -> bool) l : (forall x, In x l -> f x = true) -> filter f l = l.
Proof.
  induction l as [|a l IH]; intros H; cbn [filter]; [reflexivity|].
  rewrite (H a (or_introl eq_refl)). f_equal. apply IH. intros x Hx. apply H. right. exact Hx.
Qed.

Lemma filter_nonsoa_others ks :
  filter (fun x => negb (is_soa x)) (rev (map Other ks)) = rev (map Other ks).
Proof.
  apply filter_all_true. intros x Hx.
  apply in_rev in Hx. apply in_map_iff in Hx as [k [<- _]]. reflexivity.
Qed.

Lemma u_axfr s ks z0 :
  u_apply_all (axfr_upds s ks) (u_start z0) =
  Ok (mkU (Soa s :: rev (map Other ks)) (Soa s :: rev (map Other ks)) false false true).
Proof.
  unfold axfr_upds, u_start. cbn [Model.u_apply_all]. unfold Model.u_apply at 1. cbn.
  rewrite u_apply_all_app, u_adds. cbn. unfold Model.u_apply, with_root, u_commit, z_update_soa. cbn.
  rewrite app_nil_r, filter_nonsoa_others. reflexivity.
Qed.

Definition apply_diff_z (d : diff) (w : zone) : zone :=
  rev (map Other (d_adds d)) ++ z_update_soa (d_new d) (del_all (d_dels d) w).

Fixpoint chain_ok (ds : list diff) (w : zone) : Prop :=
  match ds with
  | [] => True
  | d :: ds' => batch_soa_ok chk (d_old d) w = true /\ chain_ok ds' (apply_diff_z d w)
  end.

Lemma u_diff d v w :
  batch_soa_ok chk (d_old d) w = true ->
  u_apply_all (diff_upds d) (mkU v w true true false) = Ok (mkU w (apply_diff_z d w) true true false).
Proof.
  intros B. unfold diff_upds. cbn [Model.u_apply_all]. unfold Model.u_apply at 1, u_commit.
  cbn [u_fin u_open u_working u_write u_visible]. rewrite B.
  replace (if chk then Ok tt else Ok tt) with (@Ok unit tt) by (destruct chk; reflexivity).
  cbn.
  rewrite u_apply_all_app, u_dels. cbn.
  rewrite u_adds. reflexivity.
Qed.

Lemma u_diffs ds : forall v w, chain_ok ds w ->
  exists v', u_apply_all (concat (map diff_upds ds)) (mkU v w true true false) =
  Ok (mkU v' (fold_left (fun z d => apply_diff_z d z) ds w) true true false).
Proof.
  induction ds as [|d ds IH]; intros v w C; cbn [map concat fold_left].
  - exists v. reflexivity.
  - destruct C as [B C]. rewrite u_apply_all_app, (u_diff d v w B). cbn [bind]. apply IH. exact C.
Qed.

Lemma u_ixfr snew ds old : chain_ok ds old ->
  let w := z_update_soa snew (fold_left (fun z d => apply_diff_z d z) ds old) in
  u_apply_all (ixfr_upds snew ds) (u_start old) = Ok (mkU w w false false true).
Proof.
  intros C. cbv zeta. unfold ixfr_upds, u_start. rewrite u_apply_all_app.
  destruct (u_diffs ds old old C) as [v' ->]. cbn. unfold Model.u_apply, with_root, u_commit. cbn.
  reflexivity.
Qed.

(* difference sequences that chain on SOA serials satisfy the updater's check,
   whether or not it is there *)
Fixpoint soa_chain (cur : N) (ds : list diff) : Prop :=
  match ds with
  | [] => True
  | d :: ds' => soa_serial (d_old d) = soa_serial cur /\ soa_chain (d_new d) ds'
  end.

Lemma filter_soa_others ks : filter is_soa (rev (map Other ks)) = [].
Proof.
  induction ks as [|k ks IH]; cbn [map rev]; [reflexivity|].
  rewrite filter_app, IH. reflexivity.
Qed.

Lemma first_soa_apply_diff d w : z_first_soa (apply_diff_z d w) = Some (d_new d).
Proof.
  unfold z_first_soa, apply_diff_z, z_update_soa. rewrite filter_app, filter_soa_others. reflexivity.
Qed.

Lemma soa_chain_ok ds : forall w cur,
  z_first_soa w = Some cur -> soa_chain cur ds -> chain_ok ds w.
Proof.
  induction ds as [|d ds IH]; intros w cur Hw Hc; cbn [chain_ok]; [exact I|].
  destruct Hc as [H1 H2]. split.
  - unfold batch_soa_ok. rewrite Hw. destruct chk; [|reflexivity]. apply N.eqb_eq. congruence.
  - apply (IH _ (d_new d)); [apply first_soa_apply_diff|exact H2].
Qed.

(* set-level reading of the list operations *)
Lemma in_z_delete r x z : In r (z_delete x z) <-> In r z /\ r <> x.
Proof.
  unfold z_delete. rewrite filter_In. split; intros [H1 H2]; split; auto.
  - intros ->. assert (rr_eqb x x = true) by (apply rr_eqb_spec; reflexivity).
    rewrite H in H2. discriminate.
  - destruct (rr_eqb r x) eqn:E; [|reflexivity]. apply rr_eqb_spec in E. contradiction.
Qed.

Lemma in_del_all ks : forall w r,
  In r (del_all ks w) <-> In r w /\ (forall k, In k ks -> r <> Other k).
Proof.
  induction ks as [|k ks IH]; intros w r; cbn [del_all fold_left].
  - split; [intros H; split; [auto|intros k []]|tauto].
  - fold (del_all ks (z_delete (Other k) w)). rewrite IH, in_z_delete. split.
    + intros [[H1 H2] H3]. split; [auto|]. intros k' [<-|Hk]; auto.
    + intros [H1 H2]. split; [split; [auto|apply H2; left; reflexivity]|].
      intros k' Hk. apply H2. right. exact Hk.
Qed.

Lemma in_update_soa s z r :
  In r (z_update_soa s z) <-> r = Soa s \/ (In r z /\ is_soa r = false).
Proof.
  unfold z_update_soa. cbn [In]. rewrite filter_In. split.
  - intros [<-|[H1 H2]]; [left; reflexivity|right]. split; [auto|].
    destruct (is_soa r); [discriminate|reflexivity].
  - intros [->|[H1 H2]]; [left; reflexivity|right]. split; [auto|]. rewrite H2. reflexivity.
Qed.

(* what one difference sequence means on sets of records (RFC 1995) *)
Definition diff_rel (d : diff) (z z' : zone) : Prop :=
  forall r, In r z' <->
    match r with
    | Soa s => s = d_new d
    | Other k => In k (d_adds d) \/ (In (Other k) z /\ ~ In k (d_dels d))
    end.

Definition zeq (a b : zone) : Prop := forall r, In r a <-> In r b.

Lemma apply_diff_z_rel d z : diff_rel d z (apply_diff_z d z).
Proof.
  intros r. unfold apply_diff_z. rewrite in_app_iff, <- in_rev, in_map_iff, in_update_soa, in_del_all.
  destruct r as [s|k]; cbn [is_soa].
  - split.
    + intros [[k [E _]]|[E|[_ E]]]; try discriminate. congruence.
    + intros ->. right. left. reflexivity.
  - split.
    + intros [[k' [E Hk]]|[E|[[H1 H2] _]]]; try discriminate.
      * left. congruence.
      * right. split; [auto|]. intros Hk. apply (H2 k Hk). reflexivity.
    + intros [Hk|[H1 H2]].
      * left. exists k. auto.
      * right. right. split; [|reflexivity]. split; [auto|]. intros k' Hk' E. inversion E; subst. contradiction.
Qed.

Fixpoint chain_rel (z : zone) (ds : list diff) (z' : zone) : Prop :=
  match ds with
  | [] => zeq z z'
  | d :: ds' => exists mid, diff_rel d z mid /\ chain_rel mid ds' z'
  end.

Lemma diff_rel_zeq d z z1 m m1 : zeq z z1 -> diff_rel d z m -> diff_rel d z1 m1 -> zeq m m1.
Proof.
  intros E H H1 r. rewrite (H r), (H1 r). destruct r as [s|k]; [tauto|]. rewrite (E (Other k)). tauto.
Qed.

Lemma chain_fold ds : forall z z1 z',
  chain_rel z ds z' -> zeq z z1 -> zeq (fold_left (fun w d => apply_diff_z d w) ds z1) z'.
Proof.
  induction ds as [|d ds IH]; intros z z1 z' H E; cbn [fold_left chain_rel] in *.
  - intros r. rewrite <- (H r), (E r). tauto.
  - destruct H as [mid [Hd Hc]]. apply (IH mid); [exact Hc|].
    eapply diff_rel_zeq; [exact E|exact Hd|apply apply_diff_z_rel].
Qed.

(* no panic, whatever the update sequence *)
Definition u_inv (st : ustate) : Prop := u_fin st = false -> u_open st = true /\ u_write st = true.

Lemma u_apply_inv u st : u_inv st -> no_panic (u_apply u st) /\ (forall st', u_apply u st = Ok st' -> u_inv st').
Proof.
  unfold u_inv, Model.u_apply. intros I. destruct (u_fin st) eqn:F.
  { cbn. split; [exact Logic.I|discriminate]. }
  destruct (I eq_refl) as [O W].
  destruct u; unfold with_root, u_commit; rewrite ?O, ?W; cbn; rewrite ?O, ?W; cbn;
  try (destruct chk; [destruct (batch_soa_ok _ _ _)|]; cbn; rewrite ?O, ?W; cbn);
  (split; [exact Logic.I|intros st' H; inversion H; subst; cbn; auto; discriminate]).
Qed.

Lemma u_apply_all_no_panic us : forall st, u_inv st -> no_panic (u_apply_all us st).
Proof.
  induction us as [|u us IH]; intros st I; cbn [Model.u_apply_all].
  - exact Logic.I.
  - destruct (u_apply_inv u st I) as [NP K]. destruct (u_apply u st) eqn:E; cbn in *; auto.
Qed.

(* the visible version moves only at BeginBatchDelete and Finished *)
Definition is_commit (u : upd) : bool :=
  match u with UBeginDel _ | UFinished _ => true | _ => false end.

Lemma u_apply_visible u st st' :
  u_apply u st = Ok st' -> is_commit u = false -> u_visible st' = u_visible st.
Proof.
  unfold Model.u_apply. destruct (u_fin st); [discriminate|].
  destruct u; cbn [is_commit]; try discriminate; unfold with_root;
  destruct (u_open st); intros H; inversion H; subst; reflexivity.
Qed.

Lemma u_apply_all_visible us : forall st st',
  u_apply_all us st = Ok st' -> forallb (fun u => negb (is_commit u)) us = true ->
  u_visible st' = u_visible st.
Proof.
  induction us as [|u us IH]; intros st st'; cbn [Model.u_apply_all forallb].
  - intros H _. inversion H. reflexivity.
  - destruct (u_apply u st) as [st1| | |] eqn:E; cbn [bind]; try discriminate.
    intros H Hc. apply andb_prop in Hc as [C1 C2].
    rewrite (IH _ _ H C2). apply (u_apply_visible _ _ _ E).
    destruct (is_commit u); [discriminate|reflexivity].
Qed.

(* ------------------------------------------------------------------ *)
(* fidelity                                                            *)

Lemma run_of_flat ty ms cs us p' :
  packs (qtype_of ty) ms cs -> ~ lone_soa_first ty cs ->
  (exists s rest, concat cs = Soa s :: rest /\
     flat (proc_new ty s) (concat cs) = (p', us, None) /\ p_finished p' = true) ->
  run None ms = (us, SDone).
Proof.
  intros Hp Hl [s [rest [Hc [F Hf]]]].
  destruct (split_irrelevant_lemma ty ms cs Hp Hl) as [H1 H2].
  unfold flat_run in *. rewrite Hc in *. rewrite <- Hc in *. rewrite F in *.
  assert (Q : single_soa_fires p' = false).
  { unfold single_soa_fires. rewrite Hf. reflexivity. }
  rewrite Q, Hf in *. cbn in *. apply st_equiv_done in H2.
  destruct (run None ms) as [a b]. cbn in *. congruence.
Qed.

Theorem axfr_fidelity s ks ms cs z0 :
  packs 252 ms cs -> concat cs = axfr_seq s ks ->
  exists us st, run None ms = (us, SDone) /\ c10_apply z0 us = Ok st /\
    u_fin st = true /\ u_visible st = Soa s :: rev (map Other ks) /\
    Permutation (u_visible st) (Soa s :: map Other ks).
Proof.
  intros Hp Hc. destruct (flat_axfr s ks) as [p' [F Hf]].
  exists (axfr_upds s ks). eexists. split.
  - apply (run_of_flat Axfr ms cs _ p' Hp).
    + intros [E _]. discriminate.
    + exists s, (map Other ks ++ [Soa s]). rewrite Hc. auto.
  - idtac. rewrite u_axfr. split; [reflexivity|]. cbn. split; [reflexivity|].
    split; [reflexivity|]. constructor. apply Permutation_sym, Permutation_rev.
Qed.

Example axfr_fidelity_nonvacuous :
  exists ms cs, packs 252 ms cs /\ concat cs = axfr_seq 7 [1; 2].
Proof.
  exists [mkMsg (mkHdr true 0 0 false 1 2 0 (Some 252)) [Rec (Soa 7); Rec (Other 1)];
          mkMsg (mkHdr true 0 0 false 0 2 0 None) [Rec (Other 2); Rec (Soa 7)]],
         [[Soa 7; Other 1]; [Other 2; Soa 7]].
  split; [|reflexivity]. cbn. repeat split; try (cbn; lia); try discriminate.
  constructor; [|constructor]. repeat split; try (cbn; lia); try discriminate.
Qed.

Theorem fallback_fidelity s k ks ms cs z0 :
  packs 251 ms cs -> concat cs = axfr_seq s (k :: ks) -> ~ lone_soa_first Ixfr cs ->
  exists us st, run None ms = (us, SDone) /\ c10_apply z0 us = Ok st /\
    u_fin st = true /\ Permutation (u_visible st) (Soa s :: map Other (k :: ks)).
Proof.
  intros Hp Hc Hl. destruct (flat_fallback s k ks) as [p' [F Hf]].
  exists (axfr_upds s (k :: ks)). eexists. split.
  - apply (run_of_flat Ixfr ms cs _ p' Hp Hl).
    exists s, (map Other (k :: ks) ++ [Soa s]). rewrite Hc. auto.
  - idtac. rewrite u_axfr. split; [reflexivity|]. cbn [u_fin u_visible]. split; [reflexivity|].
    constructor. apply Permutation_sym, Permutation_rev.
Qed.

Theorem ixfr_fidelity snew ds old new ms cs :
  (forall d, In d ds -> d_old d <> snew) ->
  chain_rel old ds new -> (forall s, In (Soa s) new <-> s = snew) ->
  chain_ok ds old ->
  packs 251 ms cs -> concat cs = ixfr_seq snew ds -> ~ lone_soa_first Ixfr cs ->
  exists us st, run None ms = (us, SDone) /\ c10_apply old us = Ok st /\
    u_fin st = true /\ zeq (u_visible st) new.
Proof.
  intros Hne Hch Hsoa Hck Hp Hc Hl. destruct (flat_ixfr snew ds Hne) as [p' [F [Hf _]]].
  exists (ixfr_upds snew ds). eexists. split.
  - apply (run_of_flat Ixfr ms cs _ p' Hp Hl).
    exists snew, (concat (map diff_seq ds) ++ [Soa snew]). rewrite Hc. auto.
  - idtac. rewrite (u_ixfr _ _ _ Hck). split; [reflexivity|]. cbn [u_fin u_visible]. split; [reflexivity|].
    pose proof (chain_fold ds old old new Hch (fun r => iff_refl _)) as Z.
    intros r. rewrite in_update_soa, (Z r). destruct r as [s|k]; cbn [is_soa].
    + rewrite Hsoa. split; [intros [E|[_ E]]; [congruence|discriminate]|intros ->; left; reflexivity].
    + split; [intros [E|[H _]]; [discriminate|exact H]|intros H; right; auto].
Qed.

Example ixfr_fidelity_nonvacuous :
  let d := mkDiff 3 [5] 4 [6] in
  chain_rel [Soa 3; Other 5; Other 9] [d] [Soa 4; Other 9; Other 6] /\
  exists ms cs, packs 251 ms cs /\ concat cs = ixfr_seq 4 [d] /\ ~ lone_soa_first Ixfr cs.
Proof.
  cbv zeta. split.
  - exists [Soa 4; Other 9; Other 6]. split; [|intros r; tauto].
    intros [s|k]; cbn; split; intros H;
    repeat match goal with
    | H : _ \/ _ |- _ => destruct H
    | H : _ /\ _ |- _ => destruct H
    | H : False |- _ => destruct H
    | H : Soa _ = Soa _ |- _ => inversion H; clear H; subst
    | H : Other _ = Other _ |- _ => inversion H; clear H; subst
    | H : Soa _ = Other _ |- _ => discriminate H
    | H : Other _ = Soa _ |- _ => discriminate H
    end; subst; auto 7.
    right. split; [auto|]. intros [E|[]]. discriminate.
  - exists [mkMsg (mkHdr true 0 0 false 1 6 0 (Some 251))
              [Rec (Soa 4); Rec (Soa 3); Rec (Other 5); Rec (Soa 4); Rec (Other 6); Rec (Soa 4)]],
           [[Soa 4; Soa 3; Other 5; Soa 4; Other 6; Soa 4]].
    split; [|split; [reflexivity|]].
    + cbn. repeat split; try (cbn; lia); try discriminate. constructor.
    + intros [_ [r [cs' [E _]]]]. discriminate.
Qed.

(* message boundaries do not matter: two packagings of the same record sequence *)
Theorem split_irrelevant ty ms1 cs1 ms2 cs2 :
  packs (qtype_of ty) ms1 cs1 -> packs (qtype_of ty) ms2 cs2 ->
  ~ lone_soa_first ty cs1 -> ~ lone_soa_first ty cs2 ->
  concat cs1 = concat cs2 ->
  fst (run None ms1) = fst (run None ms2) /\
  (snd (run None ms1) = snd (run None ms2) \/
   exists e1 e2, snd (run None ms1) = SErr e1 /\ snd (run None ms2) = SErr e2).
Proof.
  intros P1 P2 L1 L2 E.
  destruct (split_irrelevant_lemma ty ms1 cs1 P1 L1) as [A1 B1].
  destruct (split_irrelevant_lemma ty ms2 cs2 P2 L2) as [A2 B2].
  rewrite E in *. split; [congruence|].
  destruct B1 as [B1|[e1 [e1' [B1 B1']]]], B2 as [B2|[e2 [e2' [B2 B2']]]].
  - left. congruence.
  - right. exists e2'. exists e2. rewrite B1, B2'. auto.
  - right. exists e1. exists e1'. rewrite B2, B1'. auto.
  - right. eauto.
Qed.

(* ------------------------------------------------------------------ *)
(* rejection of bad streams                                            *)

(* truncated AXFR (any number of records cut off the end, at least the closing
   SOA) and a closing SOA that is not the opening one: any packaging, never
   Finished, no commit, readers keep the old zone *)
Definition partial_upds (ks : list N) : list upd :=
  match ks with [] => [] | _ => UDeleteAll :: adds ks end.

Lemma flat_axfr_prefix ty s ks :
  (ty = Ixfr -> ks <> []) ->
  exists p', flat (proc_new ty s) (Soa s :: map Other ks) = (p', partial_upds ks, None) /\
    p_finished p' = false /\ single_soa_fires p' = false.
Proof.
  intros Hty. unfold proc_new, initial_mode_adding.
  cbn [flat]. unfold process_record at 1, start_count. cbn.
  destruct ks as [|k ks].
  - destruct ty; [|exfalso; apply Hty; reflexivity].
    cbn. eexists. split; [reflexivity|]. cbn. auto.
  - cbn [map flat]. unfold process_record at 1, start_count, fallback_count.
    destruct ty; cbn; rewrite flat_axfr_others by lia;
    (eexists; split; [reflexivity|]; cbn; split; reflexivity).
Qed.

Lemma flat_axfr_wrong_close ty s s' ks :
  s' <> s -> (ty = Ixfr -> ks <> []) ->
  exists p', flat (proc_new ty s) (Soa s :: map Other ks ++ [Soa s']) =
               (p', partial_upds ks ++ (match ks with [] => [UDeleteAll] | _ => [] end) ++ [UAdd (Soa s')], None) /\
    p_finished p' = false /\ single_soa_fires p' = false.
Proof.
  intros Hs Hty. unfold proc_new, initial_mode_adding.
  assert (E : (s' =? s) = false) by (destruct (N.eqb_spec s' s); [contradiction|reflexivity]).
  cbn [flat]. unfold process_record at 1, start_count. cbn.
  destruct ks as [|k ks].
  - destruct ty; [|exfalso; apply Hty; reflexivity].
    cbn. rewrite E. cbn. eexists. split; [reflexivity|]. cbn. auto.
  - cbn [map app flat]. unfold process_record at 1, start_count, fallback_count.
    destruct ty; cbn; rewrite flat_app, flat_axfr_others by lia; cbn [flat];
    unfold process_record, start_count; cbn [p_finished p_count p_ty p_deleted p_initial p_current p_mode is_soa];
    rewrite succ_ne_1 by lia; rewrite E; cbn;
    (eexists; split; [reflexivity|]; cbn; split; reflexivity).
Qed.

Lemma u_partial ks z0 :
  exists w, u_apply_all (partial_upds ks) (u_start z0) = Ok (mkU z0 w true true false).
Proof.
  destruct ks as [|k ks]; cbn [partial_upds].
  - exists z0. reflexivity.
  - unfold u_start. cbn [Model.u_apply_all]. unfold Model.u_apply at 1. cbn. rewrite u_adds. eexists. reflexivity.
Qed.

Lemma run_incomplete ty ms cs us p' :
  packs (qtype_of ty) ms cs -> ~ lone_soa_first ty cs ->
  (exists s rest, concat cs = Soa s :: rest /\
     flat (proc_new ty s) (concat cs) = (p', us, None) /\ p_finished p' = false /\
     single_soa_fires p' = false) ->
  run None ms = (us, SIncomplete).
Proof.
  intros Hp Hl [s [rest [Hc [F [Hf Q]]]]].
  destruct (split_irrelevant_lemma ty ms cs Hp Hl) as [H1 H2].
  unfold flat_run in *. rewrite Hc in *. rewrite <- Hc in *. rewrite F in *.
  rewrite Q, Hf in *. cbn in *. apply st_equiv_incomplete in H2.
  destruct (run None ms) as [a b]. cbn in *. congruence.
Qed.

Theorem reject_truncated_axfr ty s ks ms cs z0 :
  packs (qtype_of ty) ms cs -> concat cs = Soa s :: map Other ks ->
  (ty = Ixfr -> ks <> []) -> ~ lone_soa_first ty cs ->
  exists us st, run None ms = (us, SIncomplete) /\ c10_apply z0 us = Ok st /\
    u_fin st = false /\ u_visible st = z0.
Proof.
  intros Hp Hc Hty Hl. destruct (flat_axfr_prefix ty s ks Hty) as [p' [F [Hf Q]]].
  destruct (u_partial ks z0) as [w A].
  exists (partial_upds ks). eexists. split.
  - apply (run_incomplete ty ms cs _ p' Hp Hl). exists s, (map Other ks). rewrite Hc. auto.
  - idtac. rewrite A. auto.
Qed.

Theorem reject_mismatched_close ty s s' ks ms cs z0 :
  s' <> s ->
  packs (qtype_of ty) ms cs -> concat cs = Soa s :: map Other ks ++ [Soa s'] ->
  (ty = Ixfr -> ks <> []) -> ~ lone_soa_first ty cs ->
  exists us st, run None ms = (us, SIncomplete) /\ c10_apply z0 us = Ok st /\
    u_fin st = false /\ u_visible st = z0.
Proof.
  intros Hs Hp Hc Hty Hl. destruct (flat_axfr_wrong_close ty s s' ks Hs Hty) as [p' [F [Hf Q]]].
  destruct (u_partial ks z0) as [w A].
  set (us := partial_upds ks ++ (match ks with [] => [UDeleteAll] | _ => [] end) ++ [UAdd (Soa s')]) in *.
  assert (H : exists st, c10_apply z0 us = Ok st /\ u_fin st = false /\ u_visible st = z0).
  { unfold us. rewrite u_apply_all_app, A. cbn [bind].
    destruct ks; cbn; eexists; (split; [reflexivity|auto]). }
  destruct H as [st [A1 A2]]. exists us, st. split; [|auto].
  apply (run_incomplete ty ms cs _ p' Hp Hl). exists s, (map Other ks ++ [Soa s']). rewrite Hc.
  split; [reflexivity|]. split; [exact F|]. auto.
Qed.

Example reject_truncated_nonvacuous :
  exists ms cs, packs 252 ms cs /\ concat cs = Soa 7 :: map Other [1; 2].
Proof.
  exists [mkMsg (mkHdr true 0 0 false 1 3 0 (Some 252)) [Rec (Soa 7); Rec (Other 1); Rec (Other 2)]],
         [[Soa 7; Other 1; Other 2]].
  split; [|reflexivity]. cbn. repeat split; try (cbn; lia); try discriminate. constructor.
Qed.

(* what the protocol cannot see (RFC 5936 has no sequence numbers): an AXFR
   with a middle message missing is a valid AXFR of a smaller zone and is
   accepted as such *)
Theorem axfr_drop_middle_undetectable s ks1 ks2 ks3 ms cs z0 :
  packs 252 ms cs -> concat cs = axfr_seq s (ks1 ++ ks3) ->
  exists us st, run None ms = (us, SDone) /\ c10_apply z0 us = Ok st /\
    Permutation (u_visible st) (Soa s :: map Other (ks1 ++ ks3)) /\
    (ks2 <> [] -> ~ Permutation (u_visible st) (Soa s :: map Other (ks1 ++ ks2 ++ ks3))).
Proof.
  intros Hp Hc. destruct (axfr_fidelity s (ks1 ++ ks3) ms cs z0 Hp Hc) as [us [st [R [A [_ [_ P]]]]]].
  exists us, st. repeat split; auto.
  intros Hne Q. apply Permutation_length in P. apply Permutation_length in Q.
  rewrite P in Q. cbn [length] in Q. rewrite !map_length, !app_length in Q.
  destruct ks2; [contradiction|]. cbn [length] in Q. lia.
Qed.

(* ------------------------------------------------------------------ *)
(* aborted transfers                                                   *)

(* whatever an updater did before it was dropped without Finished, a following
   complete AXFR gives the sender's zone, and a following IXFR starts from the
   content that was visible when the first updater was dropped *)
Theorem abort_then_axfr us1 z0 st1 s ks :
  u_apply_all us1 (u_start z0) = Ok st1 ->
  c10_transfers z0 [us1; axfr_upds s ks] =
  Ok [u_visible st1; Soa s :: rev (map Other ks)].
Proof.
  intros H. idtac. cbn [Model.u_transfers]. rewrite H. cbn [bind].
  rewrite u_axfr. reflexivity.
Qed.

Theorem abort_then_ixfr us1 z0 st1 snew ds :
  u_apply_all us1 (u_start z0) = Ok st1 -> chain_ok ds (u_visible st1) ->
  c10_transfers z0 [us1; ixfr_upds snew ds] =
  Ok [u_visible st1;
      z_update_soa snew (fold_left (fun z d => apply_diff_z d z) ds (u_visible st1))].
Proof.
  intros H C. cbn [Model.u_transfers]. rewrite H. cbn [bind].
  rewrite (u_ixfr _ _ _ C). reflexivity.
Qed.

(* an aborted transfer that never reached a batch boundary is invisible *)
Theorem abort_invisible us1 z0 st1 :
  u_apply_all us1 (u_start z0) = Ok st1 ->
  forallb (fun u => negb (is_commit u)) us1 = true ->
  c10_transfers z0 [us1] = Ok [z0].
Proof.
  intros H C. idtac. cbn [Model.u_transfers]. rewrite H. cbn [bind].
  rewrite (u_apply_all_visible _ _ _ H C). reflexivity.
Qed.

Example abort_nonvacuous :
  c10_transfers [Soa 3; Other 5; Other 9]
    [[UBeginDel 3; UDelete (Other 5); UBeginAdd 4; UAdd (Other 6); UBeginDel 4; UDelete (Other 9)];
     ixfr_upds 6 [mkDiff 4 [6] 6 [7]]]
  = Ok [[Other 6; Soa 4; Other 9]; [Soa 6; Other 7; Other 9]].
Proof. destruct chk; vm_compute; reflexivity. Qed.

End WithChk.
