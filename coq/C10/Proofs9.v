(* C10 proofs, part 9: the (visible, working) pair the updater model uses,
   DERIVED from C09's model of the versioned store for one RRset cell
   (Versioned<SharedRrset>): while a writer edits version w on top of a history b,
   readers of older versions keep seeing what b holds (visible), a reader of w
   - what every reader sees once commit makes w current - sees the last value
   written (working), and dropping the writer (rollback of w) restores b. *)
From Coq Require Import NArith List Bool Lia.
From DV Require Import Base.Outcome.
From DV Require C09.Gen C09.Model C09.Proofs.
Import ListNotations.
Local Open Scope N_scope.

Section CellRefinement.
Context {T : Type}.

(* the writer's edits of one RRset inside one open version: update_rrset /
   remove_rrset (WriteNode) = NodeRrset::update / remove at new_version *)
Inductive wop := WSet (x : T) | WClear.

Definition to_cop (w : N) (o : wop) : C09.Model.cop T :=
  match o with WSet x => C09.Model.CUpd w x | WClear => C09.Model.CRem w end.

(* the working value of the pair: the last edit, or what was published *)
Definition pair_work (published : option T) (os : list wop) : option T :=
  match rev os with
  | [] => published
  | WSet x :: _ => Some x
  | WClear :: _ => None
  end.

Lemma all_at w os : Forall (fun o => C09.Proofs.cop_ver o = w) (map (to_cop w) os).
Proof. induction os as [|[x|] os IH]; cbn; constructor; auto. Qed.

Lemma mono_at w os : C09.Proofs.mono_hist w (map (to_cop w) os).
Proof. induction os as [|[x|] os IH]; cbn; auto; split; try lia; exact IH. Qed.

Lemma c_run_app (d : list (C09.Model.entry T)) a b :
  C09.Model.c_run d (a ++ b) = C09.Model.c_run (C09.Model.c_run d a) b.
Proof. unfold C09.Model.c_run. apply fold_left_app. Qed.

Theorem cell_refines_pair w (b : list (C09.Model.entry T)) os :
  (* b: the cell as published: ordered history, all versions below the open one *)
  C09.Proofs.desc b -> C09.Proofs.le_all (w - 1) b -> 0 < w -> w < C09.Proofs.LIM ->
  let cell := C09.Model.c_run b (map (to_cop w) os) in
  (* visible: readers of any older version are not affected *)
  (forall r, C09.Proofs.ver_le w r = false -> C09.Model.v_get cell r = C09.Model.v_get b r) /\
  (* working: a reader of w (after commit) sees the pair's working value *)
  C09.Model.v_get cell w = pair_work (C09.Model.v_get b w) os /\
  (* drop: rolling w back restores the published cell *)
  C09.Model.v_rollback cell w = b.
Proof.
  intros Hd Hle Hw0 Hw. cbv zeta.
  assert (Nov : C09.Proofs.nov w b).
  { unfold C09.Proofs.nov, C09.Proofs.le_all in *. eapply Forall_impl; [|exact Hle]. cbn. intros a H. lia. }
  split; [|split].
  - intros r Hr. apply (C09.Proofs.cell_snapshot_isolation w b _ r Nov (all_at w os) Hr).
  - unfold pair_work. destruct (rev os) as [|o ro] eqn:R.
    + assert (os = []) by (rewrite <- (rev_involutive os), R; reflexivity). subst os. reflexivity.
    + assert (E : os = rev ro ++ [o]) by (rewrite <- (rev_involutive os), R; reflexivity).
      rewrite E, map_app, c_run_app. cbn [map C09.Model.c_run fold_left].
      assert (Rw : C09.Proofs.ver_le w w = true) by (apply C09.Proofs.ver_le_refl; unfold C09.Proofs.LIM in Hw; lia).
      destruct o as [x|]; cbn [to_cop C09.Model.c_apply].
      * apply C09.Proofs.cell_update_value. exact Rw.
      * apply C09.Proofs.cell_remove_value; [exact Rw|].
        (* every entry written so far is at a version <= w *)
        destruct (C09.Proofs.history_monotone (map (to_cop w) (rev ro)) w b Hd
                    (C09.Proofs.le_all_weaken (w - 1) w b ltac:(lia) Hle) (mono_at w (rev ro))) as [_ H2].
        specialize (H2 w). assert (Fa : Forall (fun o => C09.Proofs.cop_ver o <= w) (map (to_cop w) (rev ro))).
        { eapply Forall_impl; [|apply all_at]. cbn. intros a Ha. lia. }
        specialize (H2 Fa ltac:(lia)).
        eapply Forall_impl; [|exact H2]. intros a Ha. cbv beta in Ha |- *.
        rewrite C09.Proofs.ver_le_small; [apply N.leb_le; exact Ha|unfold C09.Proofs.LIM in *; lia|exact Hw].
  - apply (C09.Proofs.cell_rollback_restores w b _ Nov (all_at w os)).
Qed.

End CellRefinement.

Example cell_refines_pair_nonvacuous :
  C09.Model.v_get (C09.Model.c_run [(3, Some 10)] (map (to_cop 4) [WSet 11; WClear; WSet 12])) 4 = Some 12 /\
  C09.Model.v_get (C09.Model.c_run [(3, Some 10)] (map (to_cop 4) [WSet 11; WClear; WSet 12])) 3 = Some 10.
Proof. vm_compute. split; reflexivity. Qed.

(* ---------------------------------------------------------------- *)
(* XfrMiddlewareSvc::preprocess: the decision table                 *)
From DV Require Import C10.Gen C10.Model.
From DV Require C17.Gen C17.Model.

Definition xfr_request (q : N) (ser : option N) (udp : bool) : xreq := mkReq true q ser udp.

(* an IXFR client that is not behind (RFC 1982 order, C17) gets the zone SOA
   alone - when the provider has diffs to offer *)
Theorem decide_up_to_date qs zs udp n compat :
  n <> 0 -> C17.Model.serial_ge qs zs = true ->
  decide (xfr_request 251 (Some qs) udp) (PData n compat) (Some zs) = DSingleSoa.
Proof.
  intros Hn Hs. unfold decide, xfr_request, qtype_axfr, qtype_ixfr. cbn.
  destruct (N.eqb_spec n 0); [contradiction|]. rewrite Hs. reflexivity.
Qed.

Theorem decide_behind qs zs udp n compat :
  n <> 0 -> C17.Model.serial_ge qs zs = false ->
  decide (xfr_request 251 (Some qs) udp) (PData n compat) (Some zs) = DIxfr.
Proof.
  intros Hn Hs. unfold decide, xfr_request, qtype_axfr, qtype_ixfr. cbn.
  destruct (N.eqb_spec n 0); [contradiction|]. rewrite Hs. reflexivity.
Qed.

(* no diffs: the whole zone, whatever the serials; one record per message only
   for AXFR questions *)
Theorem decide_fallback ser udp compat zs :
  decide (xfr_request 251 (Some ser) udp) (PData 0 compat) (Some zs) = DAxfr false.
Proof. unfold decide, xfr_request, qtype_axfr, qtype_ixfr, sender_compat_axfr_only. cbn. destruct compat; reflexivity. Qed.

Theorem decide_axfr compat zs :
  decide (xfr_request 252 None false) (PData 0 compat) (Some zs) = DAxfr compat /\
  decide (xfr_request 252 None true) (PData 0 compat) (Some zs) = DNotimp.
Proof. unfold decide, xfr_request, qtype_axfr, qtype_ixfr, sender_compat_axfr_only. cbn. destruct compat; split; reflexivity. Qed.

Theorem decide_errors q ser udp zs :
  (q = 252 \/ (q = 251 /\ ser <> None)) ->
  decide (xfr_request q ser udp) PUnknown zs = DErr 9 /\         (* NOTAUTH *)
  decide (xfr_request q ser udp) PRefused zs = DErr 5 /\         (* REFUSED *)
  decide (xfr_request q ser udp) PUnavailable zs = DErr 2 /\     (* SERVFAIL *)
  decide (xfr_request q ser udp) PParse zs = DErr 1 /\           (* FORMERR *)
  (forall n c, decide (xfr_request q ser udp) (PData n c) None = DErr 2) /\
  decide (xfr_request 251 None udp) PUnknown zs = DErr 1.        (* IXFR without SOA: FORMERR first *)
Proof.
  intros [->|[-> Hs]]; unfold decide, xfr_request, qtype_axfr, qtype_ixfr,
    rc_prov_unknown, rc_prov_refused, rc_prov_unavailable, rc_prov_parse, rc_no_soa, rc_ixfr_no_soa; cbn;
  try (destruct ser; [|contradiction]); repeat split; reflexivity.
Qed.

(* the unreachable!() arm is reached only by a provider that hands out diffs
   for an AXFR question *)
Theorem decide_no_panic rq pr zs :
  (forall n c, pr = PData n c -> rq_qtype rq = 252 -> n = 0) -> decide rq pr zs <> DPanic.
Proof.
  intros H. unfold decide, qtype_axfr, qtype_ixfr.
  destruct (rq_relevant rq); cbn [andb negb]; [|discriminate].
  destruct (N.eqb_spec (rq_qtype rq) 252) as [E2|N2]; destruct (N.eqb_spec (rq_qtype rq) 251) as [E1|N1];
    cbn [orb negb andb]; try discriminate; try (rewrite E2 in E1; discriminate).
  - destruct pr; try discriminate. destruct zs; [|discriminate].
    destruct (rq_udp rq); [discriminate|]. rewrite (H ndiffs compat eq_refl E2). cbn. discriminate.
  - destruct (rq_serial rq) as [qs|]; cbn; [|discriminate]. destruct pr as [nd cp| | | |]; try discriminate.
    destruct zs as [z0|]; [|discriminate]. destruct (nd =? 0); [discriminate|].
    destruct (C17.Model.serial_ge qs z0); discriminate.
Qed.

Example decide_across_the_wrap :
  decide (xfr_request 251 (Some 2) false) (PData 1 false) (Some 4294967295) = DSingleSoa /\
  decide (xfr_request 251 (Some 4294967295) false) (PData 1 false) (Some 2) = DIxfr.
Proof. vm_compute. split; reflexivity. Qed.
