
(** val snd : ('a1 * 'a2) -> 'a2 **)

let snd = function
| (_, y) -> y

type comparison =
| Eq
| Lt
| Gt

type positive =
| XI of positive
| XO of positive
| XH

type n =
| N0
| Npos of positive

module Pos =
 struct
  type mask =
  | IsNul
  | IsPos of positive
  | IsNeg
 end

module Coq_Pos =
 struct
  (** val succ : positive -> positive **)

  let rec succ = function
  | XI p -> XO (succ p)
  | XO p -> XI p
  | XH -> XO XH

  (** val add : positive -> positive -> positive **)

  let rec add x y =
    match x with
    | XI p ->
      (match y with
       | XI q -> XO (add_carry p q)
       | XO q -> XI (add p q)
       | XH -> XO (succ p))
    | XO p ->
      (match y with
       | XI q -> XI (add p q)
       | XO q -> XO (add p q)
       | XH -> XI p)
    | XH -> (match y with
             | XI q -> XO (succ q)
             | XO q -> XI q
             | XH -> XO XH)

  (** val add_carry : positive -> positive -> positive **)

  and add_carry x y =
    match x with
    | XI p ->
      (match y with
       | XI q -> XI (add_carry p q)
       | XO q -> XO (add_carry p q)
       | XH -> XI (succ p))
    | XO p ->
      (match y with
       | XI q -> XO (add_carry p q)
       | XO q -> XI (add p q)
       | XH -> XO (succ p))
    | XH ->
      (match y with
       | XI q -> XI (succ q)
       | XO q -> XO (succ q)
       | XH -> XI XH)

  (** val pred_double : positive -> positive **)

  let rec pred_double = function
  | XI p -> XI (XO p)
  | XO p -> XI (pred_double p)
  | XH -> XH

  type mask = Pos.mask =
  | IsNul
  | IsPos of positive
  | IsNeg

  (** val succ_double_mask : mask -> mask **)

  let succ_double_mask = function
  | IsNul -> IsPos XH
  | IsPos p -> IsPos (XI p)
  | IsNeg -> IsNeg

  (** val double_mask : mask -> mask **)

  let double_mask = function
  | IsPos p -> IsPos (XO p)
  | x0 -> x0

  (** val double_pred_mask : positive -> mask **)

  let double_pred_mask = function
  | XI p -> IsPos (XO (XO p))
  | XO p -> IsPos (XO (pred_double p))
  | XH -> IsNul

  (** val sub_mask : positive -> positive -> mask **)

  let rec sub_mask x y =
    match x with
    | XI p ->
      (match y with
       | XI q -> double_mask (sub_mask p q)
       | XO q -> succ_double_mask (sub_mask p q)
       | XH -> IsPos (XO p))
    | XO p ->
      (match y with
       | XI q -> succ_double_mask (sub_mask_carry p q)
       | XO q -> double_mask (sub_mask p q)
       | XH -> IsPos (pred_double p))
    | XH -> (match y with
             | XH -> IsNul
             | _ -> IsNeg)

  (** val sub_mask_carry : positive -> positive -> mask **)

  and sub_mask_carry x y =
    match x with
    | XI p ->
      (match y with
       | XI q -> succ_double_mask (sub_mask_carry p q)
       | XO q -> double_mask (sub_mask p q)
       | XH -> IsPos (pred_double p))
    | XO p ->
      (match y with
       | XI q -> double_mask (sub_mask_carry p q)
       | XO q -> succ_double_mask (sub_mask_carry p q)
       | XH -> double_pred_mask p)
    | XH -> IsNeg

  (** val compare_cont : comparison -> positive -> positive -> comparison **)

  let rec compare_cont r x y =
    match x with
    | XI p ->
      (match y with
       | XI q -> compare_cont r p q
       | XO q -> compare_cont Gt p q
       | XH -> Gt)
    | XO p ->
      (match y with
       | XI q -> compare_cont Lt p q
       | XO q -> compare_cont r p q
       | XH -> Gt)
    | XH -> (match y with
             | XH -> r
             | _ -> Lt)

  (** val compare : positive -> positive -> comparison **)

  let compare =
    compare_cont Eq
 end

module N =
 struct
  (** val succ_double : n -> n **)

  let succ_double = function
  | N0 -> Npos XH
  | Npos p -> Npos (XI p)

  (** val double : n -> n **)

  let double = function
  | N0 -> N0
  | Npos p -> Npos (XO p)

  (** val add : n -> n -> n **)

  let add n0 m =
    match n0 with
    | N0 -> m
    | Npos p -> (match m with
                 | N0 -> n0
                 | Npos q -> Npos (Coq_Pos.add p q))

  (** val sub : n -> n -> n **)

  let sub n0 m =
    match n0 with
    | N0 -> N0
    | Npos n' ->
      (match m with
       | N0 -> n0
       | Npos m' ->
         (match Coq_Pos.sub_mask n' m' with
          | Coq_Pos.IsPos p -> Npos p
          | _ -> N0))

  (** val compare : n -> n -> comparison **)

  let compare n0 m =
    match n0 with
    | N0 -> (match m with
             | N0 -> Eq
             | Npos _ -> Lt)
    | Npos n' -> (match m with
                  | N0 -> Gt
                  | Npos m' -> Coq_Pos.compare n' m')

  (** val leb : n -> n -> bool **)

  let leb x y =
    match compare x y with
    | Gt -> false
    | _ -> true

  (** val ltb : n -> n -> bool **)

  let ltb x y =
    match compare x y with
    | Lt -> true
    | _ -> false

  (** val pos_div_eucl : positive -> n -> n * n **)

  let rec pos_div_eucl a b =
    match a with
    | XI a' ->
      let (q, r) = pos_div_eucl a' b in
      let r' = succ_double r in
      if leb b r' then ((succ_double q), (sub r' b)) else ((double q), r')
    | XO a' ->
      let (q, r) = pos_div_eucl a' b in
      let r' = double r in
      if leb b r' then ((succ_double q), (sub r' b)) else ((double q), r')
    | XH ->
      (match b with
       | N0 -> (N0, (Npos XH))
       | Npos p -> (match p with
                    | XH -> ((Npos XH), N0)
                    | _ -> (N0, (Npos XH))))

  (** val div_eucl : n -> n -> n * n **)

  let div_eucl a b =
    match a with
    | N0 -> (N0, N0)
    | Npos na -> (match b with
                  | N0 -> (N0, a)
                  | Npos _ -> pos_div_eucl na b)

  (** val modulo : n -> n -> n **)

  let modulo a b =
    snd (div_eucl a b)
 end

type 'a outcome =
| Ok of 'a
| Err of n
| Panic of n
| OutOfFuel

(** val bind : 'a1 outcome -> ('a1 -> 'a2 outcome) -> 'a2 outcome **)

let bind x f =
  match x with
  | Ok a -> f a
  | Err e -> Err e
  | Panic s -> Panic s
  | OutOfFuel -> OutOfFuel

(** val half : n **)

let half =
  Npos (XO (XO (XO (XO (XO (XO (XO (XO (XO (XO (XO (XO (XO (XO (XO (XO (XO
    (XO (XO (XO (XO (XO (XO (XO (XO (XO (XO (XO (XO (XO (XO
    XH)))))))))))))))))))))))))))))))

(** val add_max : n **)

let add_max =
  Npos (XI (XI (XI (XI (XI (XI (XI (XI (XI (XI (XI (XI (XI (XI (XI (XI (XI
    (XI (XI (XI (XI (XI (XI (XI (XI (XI (XI (XI (XI (XI
    XH))))))))))))))))))))))))))))))

(** val add_guard_is_le : bool **)

let add_guard_is_le =
  true

(** val add_wraps : bool **)

let add_wraps =
  true

(** val arm_eq : comparison option **)

let arm_eq =
  Some Eq

(** val lt_sub_other_minus_self : bool **)

let lt_sub_other_minus_self =
  true

(** val arm_lt_lt : comparison option **)

let arm_lt_lt =
  Some Lt

(** val arm_lt_gt : comparison option **)

let arm_lt_gt =
  Some Gt

(** val arm_lt_eq : comparison option **)

let arm_lt_eq =
  None

(** val gt_sub_self_minus_other : bool **)

let gt_sub_self_minus_other =
  true

(** val arm_gt_lt : comparison option **)

let arm_gt_lt =
  Some Gt

(** val arm_gt_gt : comparison option **)

let arm_gt_gt =
  Some Lt

(** val arm_gt_eq : comparison option **)

let arm_gt_eq =
  None

(** val version_next_addend : n **)

let version_next_addend =
  Npos XH

(** val m32 : n **)

let m32 =
  Npos (XO (XO (XO (XO (XO (XO (XO (XO (XO (XO (XO (XO (XO (XO (XO (XO (XO
    (XO (XO (XO (XO (XO (XO (XO (XO (XO (XO (XO (XO (XO (XO (XO
    XH))))))))))))))))))))))))))))))))

(** val u32_sub : n -> n -> n outcome **)

let u32_sub a b =
  if N.leb b a then Ok (N.sub a b) else Panic (Npos XH)

(** val serial_partial_cmp : n -> n -> comparison option outcome **)

let serial_partial_cmp a b =
  match N.compare a b with
  | Eq -> Ok arm_eq
  | Lt ->
    bind (if lt_sub_other_minus_self then u32_sub b a else u32_sub a b)
      (fun sub0 -> Ok
      (match N.compare sub0 half with
       | Eq -> arm_lt_eq
       | Lt -> arm_lt_lt
       | Gt -> arm_lt_gt))
  | Gt ->
    bind (if gt_sub_self_minus_other then u32_sub a b else u32_sub b a)
      (fun sub0 -> Ok
      (match N.compare sub0 half with
       | Eq -> arm_gt_eq
       | Lt -> arm_gt_lt
       | Gt -> arm_gt_gt))

(** val serial_add : n -> n -> n outcome **)

let serial_add a n0 =
  if if add_guard_is_le then N.leb n0 add_max else N.ltb n0 add_max
  then Ok (if add_wraps then N.modulo (N.add a n0) m32 else N.add a n0)
  else Panic (Npos (XO XH))

(** val serial_canonical_cmp : n -> n -> comparison **)

let serial_canonical_cmp =
  N.compare

(** val version_next : n -> n outcome **)

let version_next a =
  serial_add a version_next_addend

(** val c17_cmp : n -> n -> comparison option outcome **)

let c17_cmp =
  serial_partial_cmp

(** val c17_add : n -> n -> n outcome **)

let c17_add =
  serial_add

(** val c17_next : n -> n outcome **)

let c17_next =
  version_next

(** val c17_ccmp : n -> n -> comparison **)

let c17_ccmp =
  serial_canonical_cmp
