(* C16: the statements exported by Props.v, over the model as generated (the
   flag [trunc_no_opt_is_min] is whatever T1 read from mandatory.rs; the lemmas
   used here are proved for both values). *)
From Coq Require Import NArith ZArith Arith List Bool Lia.
From DV Require Import Base.Outcome Base.Bytes Base.Names C16.Gen C16.Model
  C16.ProofsNeg C16.ProofsTrunc C16.ProofsFrame C16.ProofsSrv.
Import ListNotations.
Local Open Scope N_scope.

Lemma negotiate_closed_form c h :
  negotiate c (Some h) = Ok (N.min (N.max c 512) (N.max h 512)) /\
  negotiate c None = Ok (N.max c 512).
Proof. split; [apply negotiate_spec|apply negotiate_spec_none]. Qed.

Lemma top_limit_with_edns c hint : hint_ok hint ->
  udp_limit (Some c) hint = Ok (text_limit (Some c) hint).
Proof. apply limit_with_edns. Qed.

(* the flag read by T1 is [true] on the current source (fix 2e0728b); were it
   [false] again, [eq_refl] below no longer type-checks and the check breaks *)
Lemma top_limit_is_text client hint : hint_ok hint ->
  udp_limit client hint = Ok (text_limit client hint).
Proof.
  assert (F : trunc_no_opt_is_min = true) by reflexivity.
  unfold udp_limit. rewrite F. apply limit_is_text_when_fixed.
Qed.

Notation FX := trunc_no_opt_is_min.
Notation FQ := trunc_questions_limited.
Notation EQ := err_resp_first_question_only.
Definition post rq hint m := mandatory_post_gen FX FQ EQ true rq hint m.
Definition tmax rq hint := trunc_max (is_some (rq_client rq)) hint.
Definition hq_len (m : msg) : N := 12 + qs_len (m_qs m).   (* header + questions *)
Definition kept_q max qs := kept_qs FQ max qs.             (* the questions truncate keeps *)
Definition tform max m := trunc_form FQ max m.

Lemma top_udp_size_cases rq hint m : mlen m <= 65535 ->
  (mlen m <= tmax rq hint /\ mlen (post rq hint m) = mlen m /\
   tc_set (m_b2 (post rq hint m)) = tc_set (m_b2 m) /\ m_qs (post rq hint m) = m_qs m /\
   m_an (post rq hint m) = m_an m /\ m_ns (post rq hint m) = m_ns m /\ m_ar (post rq hint m) = m_ar m) \/
  (tmax rq hint < mlen m /\ mlen (post rq hint m) = mlen (tform (tmax rq hint) m) /\
   tc_set (m_b2 (post rq hint m)) = true /\
   m_qs (post rq hint m) = kept_q (tmax rq hint) (m_qs m) /\
   m_an (post rq hint m) = [] /\ m_ns (post rq hint m) = [] /\
   m_ar (post rq hint m) = trunc_ar (tmax rq hint) (kept_q (tmax rq hint) (m_qs m)) (m_ar m)).
Proof. apply udp_size_cases. Qed.

Lemma top_trunc_three_way max m :
  let qs := kept_q max (m_qs m) in
  (trunc_ar max qs (m_ar m) = [] /\ mlen (tform max m) = 12 + qs_len qs) \/
  (exists o, first_opt (m_ar m) = Some o /\ trunc_ar max qs (m_ar m) = [RROpt o] /\
             mlen (tform max m) = 12 + qs_len qs + opt_len o /\ 12 + qs_len qs + opt_len o <= max) \/
  (exists o, first_opt (m_ar m) = Some o /\ trunc_ar max qs (m_ar m) = [RROpt (min_opt o)] /\
             mlen (tform max m) = 12 + qs_len qs + 11 /\
             max < 12 + qs_len qs + opt_len o /\ 12 + qs_len qs + 11 <= max).
Proof. apply trunc_ar_cases. Qed.

(* the questions kept: a prefix; all of them when header + questions fit; with the
   limit-aware loop they end at or below the limit *)
(* the flags read by T1 are [true] on the current source (fixes 4f39cd3, a929056);
   were one [false] again, the [reflexivity] below fails and the check breaks *)
Lemma fq_true : FQ = true. Proof. reflexivity. Qed.
Lemma eq_true : EQ = true. Proof. reflexivity. Qed.

(* the questions kept: a prefix; all of them when header + questions fit; they
   always end at or below the limit *)
Lemma top_kept_questions max qs :
  (exists rest, qs = kept_q max qs ++ rest) /\
  (12 + qs_len qs <= max -> kept_q max qs = qs) /\
  (12 <= max -> 12 + qs_len (kept_q max qs) <= max).
Proof.
  unfold kept_q. split; [apply kept_prefix|]. split; [apply kept_qs_all|].
  rewrite fq_true. apply kept_qs_fits.
Qed.

Lemma top_udp_size_bound rq hint m : mlen m <= 65535 -> 12 <= tmax rq hint ->
  mlen (post rq hint m) <= tmax rq hint.
Proof.
  intros H L. destruct (udp_size_bound_gen FX FQ EQ rq hint m H) as (B & _). apply B.
  left. split; [exact fq_true|exact L].
Qed.

Lemma top_udp_size_bound_one_question rq cfg m r q :
  m_qs m = [q] -> wf_q q -> hint_ok cfg -> mlen m <= 65535 ->
  udp_response rq cfg m = Ok r ->
  mlen r <= text_limit (rq_client rq) cfg.
Proof.
  intros Hq Hw Hk Hl E.
  destruct (udp_size_bound_service _ _ _ rq cfg m r (or_intror (ex_intro _ q (conj Hq Hw))) Hk Hl E) as (lim & L & B).
  change (udp_limit_gen trunc_no_opt_is_min) with udp_limit in L.
  rewrite (top_limit_is_text _ _ Hk) in L. inversion L; subst. exact B.
Qed.

(* the whole datagram server, every path: within the property text's limit *)
Lemma top_udp_server_bound x cfg svc r : hint_ok cfg -> Forall wf_q (firstn 1 (x_qs x)) ->
  (forall m, svc = SvcOk m -> mlen m <= 65535) ->
  udp_server x cfg svc = Ok (Some r) -> mlen r <= text_limit (x_client x) cfg.
Proof.
  assert (F : FX = true) by reflexivity.
  unfold udp_server. rewrite F, fq_true, eq_true. apply udp_server_bound.
Qed.

Lemma top_udp_server_total x cfg svc : exists r, udp_server x cfg svc = Ok r.
Proof. apply udp_server_total. Qed.

Lemma top_udp_server_id x cfg svc r : udp_server x cfg svc = Ok (Some r) -> m_id r = x_id x.
Proof. apply udp_server_id. Qed.

Lemma top_tc_iff rq hint m : mlen m <= 65535 ->
  tc_set (m_b2 (post rq hint m)) = true <-> (tmax rq hint < mlen m \/ tc_set (m_b2 m) = true).
Proof. apply tc_iff_gen. Qed.

Lemma top_dropped_implies_tc rq hint m : mlen m <= 65535 ->
  (m_qs (post rq hint m) <> m_qs m \/ m_an (post rq hint m) <> m_an m \/
   m_ns (post rq hint m) <> m_ns m \/ m_ar (post rq hint m) <> m_ar m) ->
  tc_set (m_b2 (post rq hint m)) = true.
Proof. apply dropped_implies_tc. Qed.

Lemma top_truncated_wellformed rq hint m : mlen m <= 65535 -> rq_id rq < 65536 -> wf_resp m ->
  tmax rq hint < mlen m ->
  tc_set (m_b2 (post rq hint m)) = true /\ m_an (post rq hint m) = [] /\ m_ns (post rq hint m) = [] /\
  m_qs (post rq hint m) = kept_q (tmax rq hint) (m_qs m) /\
  m_ar (post rq hint m) = trunc_ar (tmax rq hint) (m_qs (post rq hint m)) (m_ar m) /\
  parse_min (wire_msg (post rq hint m)) = Some (post rq hint m).
Proof. apply truncated_wellformed_gen. Qed.

Lemma top_id_question_echoed rq cfg m r : mlen m <= 65535 ->
  udp_response rq cfg m = Ok r ->
  m_id r = rq_id rq /\ (exists rest, m_qs m = m_qs r ++ rest) /\
  (forall q, hint_ok cfg -> m_qs m = [q] -> wf_q q -> m_qs r = [q]).
Proof.
  intros H E. destruct (id_question_echoed _ _ _ rq cfg m r H E) as (A & B & _ & C). auto.
Qed.

Lemma top_udp_response_total rq cfg m : exists r, udp_response rq cfg m = Ok r.
Proof. apply udp_response_total. Qed.

Lemma top_push_script_bound l adds pos : pos < l -> snd (push_script (Some l) pos adds) < l.
Proof. apply push_script_bound. Qed.

Lemma top_tcp_server_framed x idle svc r :
  12 + qs_len (x_qs x) + 11 <= 65535 -> (forall m, svc = SvcOk m -> mlen m <= 65535) ->
  tcp_server x idle svc = Ok (Some r) ->
  mlen r <= 65535 /\ exists f, frame_out (wire_msg r) = Ok f.
Proof. apply tcp_server_framed. Qed.

Lemma top_tcp_server_id x idle svc r : tcp_server x idle svc = Ok (Some r) -> m_id r = x_id x.
Proof. apply tcp_server_id. Qed.

(* the receive buffer: only the received octets are parsed (fix 3a255a9; the flag
   is read by T1, [reflexivity] fails if the whole buffer is parsed again) *)
Lemma top_dgram_received_only d x : xreq_of_datagram d = Some x -> 12 + qs_len (x_qs x) <= len d.
Proof.
  assert (F : dgram_parses_whole_buffer = false) by reflexivity.
  unfold xreq_of_datagram, dgram_buffer. rewrite F. apply dgram_received_only.
Qed.

(* values T1 reads from the source that the model has as shapes rather than as
   numbers: the two-octet big-endian prefix on both sides of the stream, header
   octet 2 carrying TC, the default response queue length the harness assumes,
   REFUSED as the fourth ServiceError rcode *)
Lemma t1_shape_constants :
  frame_len_octets = 2 /\ frame_big_endian = true /\ shim_len = 2 /\ shim_big_endian = true /\
  tc_octet = 2 /\ tc_bit = 1 /\ header_len = 12 /\ max_queued_default = 10 /\ rc_refused = 5 /\
  stream_short_msg_disconnects = true /\ qr_request_gets_formerr = true /\
  frame_prefix_read_exact = true /\ stream_full_queue_retries = true /\ svc_error_bypasses_middleware = true.
Proof. repeat split; reflexivity. Qed.

(* the cookies middleware's own rejections (malformed COOKIE, denied address without
   cookie) carry the request's id and first question (fix ce095ac; [reflexivity]
   fails if they are built from an empty builder again) *)
Lemma top_cookie_reject_echo rq cfg k r : hint_ok cfg -> Forall wf_q (firstn 1 (rq_qs rq)) ->
  cookie_reject_response rq cfg k = Ok r ->
  m_id r = rq_id rq /\ m_qs r = firstn 1 (rq_qs rq) /\ mlen r <= 282.
Proof.
  assert (F : cookie_reject_echoes_question = true) by reflexivity.
  unfold cookie_reject_response. rewrite F, eq_true. apply cookie_reject_echo.
Qed.

(* accept errors do not end the accept loop: every connection is served *)
Lemma top_accept_loop evs : accept_loop evs = map is_conn evs.
Proof.
  assert (F : accept_error_stops_server = false) by reflexivity.
  assert (G : setup_awaited_in_accept_loop = false) by reflexivity.
  unfold accept_loop. rewrite F, G. apply accept_loop_serves_all.
Qed.

(* the hand-over: the response leaves truncated (TC) exactly when, after the EDNS
   fix-ups, it is longer than the property text's limit - the size negotiated by
   EdnsMiddlewareSvc is the one MandatoryMiddlewareSvc truncates to *)
Lemma edns_post_b2 b m : m_b2 (edns_post b m) = m_b2 m.
Proof.
  unfold edns_post. destruct b; cbn [negb]; [|reflexivity].
  destruct (first_opt (m_ar m)); [reflexivity|]. destruct (65535 <? mlen m + 11); reflexivity.
Qed.

Lemma top_hint_handover rq cfg m r : hint_ok cfg -> mlen m <= 65535 ->
  udp_response rq cfg m = Ok r ->
  tc_set (m_b2 r) = true <->
  (text_limit (rq_client rq) cfg < mlen (edns_post (is_some (rq_client rq)) m) \/ tc_set (m_b2 m) = true).
Proof.
  intros Hk Hl. unfold udp_response, udp_response_gen.
  assert (FS : hint_shared_between_clones = true) by reflexivity. rewrite FS. unfold handed_over.
  assert (F : FX = true) by reflexivity. rewrite F.
  pose proof (limit_is_text_when_fixed (rq_client rq) cfg Hk) as L. unfold udp_limit_gen in L.
  destruct (hint_after_edns (rq_client rq) cfg) as [h| | |] eqn:E; try discriminate.
  cbn [bind] in *. inversion L as [L']. intros R; inversion R; subst r; clear R.
  set (m' := edns_post (is_some (rq_client rq)) m).
  assert (Hl' : mlen m' <= 65535) by (apply edns_post_len; exact Hl).
  rewrite (tc_iff_gen true FQ EQ rq h m' Hl'). rewrite L'. subst m'. rewrite edns_post_b2. reflexivity.
Qed.
