(* C16: the statements exported by Props.v, over the model as generated (the
   flag [trunc_no_opt_is_min] is whatever T1 read from mandatory.rs; the lemmas
   used here are proved for both values). *)
From Coq Require Import NArith ZArith Arith List Bool Lia.
From DV Require Import Base.Outcome Base.Bytes Base.Names C16.Gen C16.Model
  C16.ProofsNeg C16.ProofsTrunc C16.ProofsFrame.
Import ListNotations.
Local Open Scope N_scope.

Lemma negotiate_closed_form c h :
  negotiate c (Some h) = Ok (N.min (N.max c 512) (N.max h 512)) /\
  negotiate c None = Ok (N.max c 512).
Proof. split; [apply negotiate_spec|apply negotiate_spec_none]. Qed.

Lemma top_limit_with_edns c hint : hint_ok hint ->
  udp_limit (Some c) hint = Ok (text_limit (Some c) hint).
Proof. apply limit_with_edns. Qed.

(* the flag read by T1 is [true] on the current source (fix 2e0728b); were it
   [false] again, [eq_refl] below no longer type-checks and the check breaks *)
Lemma top_limit_is_text client hint : hint_ok hint ->
  udp_limit client hint = Ok (text_limit client hint).
Proof.
  assert (F : trunc_no_opt_is_min = true) by reflexivity.
  unfold udp_limit. rewrite F. apply limit_is_text_when_fixed.
Qed.

Definition post rq hint m := mandatory_post_gen trunc_no_opt_is_min true rq hint m.
Definition tmax rq hint := trunc_max (is_some (rq_client rq)) hint.
Definition hq_len (m : msg) : N := 12 + qs_len (m_qs m).   (* header + questions *)

Lemma top_udp_size_cases rq hint m : mlen m <= 65535 ->
  (mlen m <= tmax rq hint /\ mlen (post rq hint m) = mlen m /\
   tc_set (m_b2 (post rq hint m)) = tc_set (m_b2 m) /\
   m_an (post rq hint m) = m_an m /\ m_ns (post rq hint m) = m_ns m /\ m_ar (post rq hint m) = m_ar m) \/
  (tmax rq hint < mlen m /\ mlen (post rq hint m) = mlen (trunc_form (tmax rq hint) m) /\
   tc_set (m_b2 (post rq hint m)) = true /\
   m_an (post rq hint m) = [] /\ m_ns (post rq hint m) = [] /\
   m_ar (post rq hint m) = trunc_ar (tmax rq hint) m).
Proof. apply udp_size_cases. Qed.

Lemma top_trunc_three_way max m :
  (trunc_ar max m = [] /\ mlen (trunc_form max m) = hq_len m) \/
  (exists o, first_opt (m_ar m) = Some o /\ trunc_ar max m = [RROpt o] /\
             mlen (trunc_form max m) = hq_len m + opt_len o /\ hq_len m + opt_len o <= max) \/
  (exists o, first_opt (m_ar m) = Some o /\ trunc_ar max m = [RROpt (min_opt o)] /\
             mlen (trunc_form max m) = hq_len m + 11 /\
             max < hq_len m + opt_len o /\ hq_len m + 11 <= max).
Proof. apply trunc_ar_cases. Qed.

Lemma top_udp_size_bound rq hint m : mlen m <= 65535 ->
  (hq_len m <= tmax rq hint -> mlen (post rq hint m) <= tmax rq hint) /\
  (tmax rq hint < hq_len m ->
     mlen (post rq hint m) = hq_len m /\ tc_set (m_b2 (post rq hint m)) = true /\
     m_an (post rq hint m) = [] /\ m_ns (post rq hint m) = [] /\ m_ar (post rq hint m) = []).
Proof. apply udp_size_bound_gen. Qed.

Lemma top_udp_size_bound_one_question rq cfg m r q :
  m_qs m = [q] -> wf_q q -> hint_ok cfg -> mlen m <= 65535 ->
  udp_response rq cfg m = Ok r ->
  mlen r <= text_limit (rq_client rq) cfg.
Proof.
  intros Hq Hw Hk Hl E.
  destruct (udp_size_bound_one_question _ rq cfg m r q Hq Hw Hk Hl E) as (lim & L & B).
  change (udp_limit_gen trunc_no_opt_is_min) with udp_limit in L.
  rewrite (top_limit_is_text _ _ Hk) in L. inversion L; subst. exact B.
Qed.

Lemma top_tc_iff rq hint m : mlen m <= 65535 ->
  tc_set (m_b2 (post rq hint m)) = true <-> (tmax rq hint < mlen m \/ tc_set (m_b2 m) = true).
Proof. apply tc_iff_gen. Qed.

Lemma top_dropped_implies_tc rq hint m : mlen m <= 65535 ->
  (m_an (post rq hint m) <> m_an m \/ m_ns (post rq hint m) <> m_ns m \/ m_ar (post rq hint m) <> m_ar m) ->
  tc_set (m_b2 (post rq hint m)) = true.
Proof. apply dropped_implies_tc. Qed.

Lemma top_truncated_wellformed rq hint m : mlen m <= 65535 -> rq_id rq < 65536 -> wf_resp m ->
  tmax rq hint < mlen m ->
  tc_set (m_b2 (post rq hint m)) = true /\ m_an (post rq hint m) = [] /\ m_ns (post rq hint m) = [] /\
  m_ar (post rq hint m) = trunc_ar (tmax rq hint) m /\ m_qs (post rq hint m) = m_qs m /\
  parse_min (wire_msg (post rq hint m)) = Some (post rq hint m).
Proof. apply truncated_wellformed_gen. Qed.

Lemma top_id_question_echoed rq cfg m r : mlen m <= 65535 ->
  udp_response rq cfg m = Ok r -> m_id r = rq_id rq /\ m_qs r = m_qs m.
Proof. apply id_question_echoed. Qed.

Lemma top_udp_response_total rq cfg m : exists r, udp_response rq cfg m = Ok r.
Proof. apply udp_response_total. Qed.

Lemma top_push_script_bound l adds pos : pos < l -> snd (push_script (Some l) pos adds) < l.
Proof. apply push_script_bound. Qed.
