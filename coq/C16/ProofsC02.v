(* C16 proofs, part 5: the tie to C02's builder model.  Whatever sequence of
   builder operations (C02: pushes into any section, rewinds, limits, header
   edits, over a StreamTarget) produced a response, the octets handed to the
   stream - StreamTarget::as_stream_slice - are the two-octet big-endian length
   followed by the message, and the length is at most 65535: the premise of
   C16's framing theorems is discharged by C02's reachable-state invariant. *)
From Coq Require Import NArith ZArith Arith List Bool Lia.
From DV Require Import Base.Outcome Base.Bytes Base.Names Base.PName.
From DV Require C02.Gen C02.Model C02.ProofsRun.
From DV Require Import C16.Gen C16.Model C16.ProofsFrame.
Import ListNotations.
Local Open Scope N_scope.

Module B := C02.Model.

(* a response as C02's builder leaves it: reachable by a script over a stream target *)
Definition built (s : B.bstate) : Prop :=
  exists c ops s0 a ws, B.t_stream c = true /\ B.init c = Some s0 /\
    B.run_acc c s0 B.acc0 ops = (s, a, ws) /\ C02.ProofsRun.all_alive ws.

Lemma built_framed s : built s ->
  len (B.msg_of s) <= 65535 /\ frame_out (B.msg_of s) = Ok (B.stream_of s) /\
  B.stream_of s = frame (B.msg_of s).
Proof.
  intros (c & ops & s0 & a & ws & Hs & Hi & Hr & Ha).
  destruct (C02.ProofsRun.reachable_inv c ops s0 s a ws Hi Hr Ha) as (_ & _ & F).
  destruct (F Hs) as (E & L). change (PName.mlen (B.msg_of s)) with (len (B.msg_of s)) in *.
  split; [exact L|]. rewrite frame_out_spec by exact L. unfold frame. rewrite E. split; reflexivity.
Qed.

(* pipelined: the concatenated stream slices of any number of built responses
   split back into exactly these responses *)
Lemma built_pipeline ss : Forall built ss ->
  split_frames (S (length ss)) (concat (map B.stream_of ss)) = (map B.msg_of ss, []).
Proof.
  intros H.
  assert (E : map B.stream_of ss = map frame (map B.msg_of ss)).
  { induction H as [|s t Hs Ht IH]; [reflexivity|]. cbn [map]. rewrite IH.
    destruct (built_framed s Hs) as (_ & _ & ->). reflexivity. }
  rewrite E. clear E.
  assert (L : Forall (fun m => len m <= 65535) (map B.msg_of ss)).
  { induction H as [|s t Hs Ht IH]; [constructor|]. cbn [map]. constructor; [apply (built_framed s Hs)|exact IH]. }
  destruct (framing_roundtrip _ L) as (_ & R). rewrite map_length in R. exact R.
Qed.
