(* C16 model: the size / truncation / framing logic of the server transports.

   net/server/middleware/edns.rs   EdnsMiddlewareSvc::preprocess (UDP payload size
                                   negotiation), ::postprocess (OPT stripped / added, UDP arm)
   net/server/middleware/mandatory.rs  MandatoryMiddlewareSvc::{truncate, postprocess}
   base/message_builder.rs         MessageBuilder::push (push limit, `new_pos >= limit`),
                                   StreamTarget::update_shim (two-octet length shim)
   net/server/connection.rs        DnsMessageReceiver::recv + Connection::process_read_request
                                   (read framing, short message => disconnect, QR=1 => FORMERR)
   net/server/dgram.rs             Config::set_max_response_size (DefMinMax::limit), hint = config
   base/message.rs                 Message::check_slice (12 octets)

   u16 / usize values are N; Rust panics are [Panic site]:
     site 1 = u16::clamp's assert!(min <= max) in the negotiation.
   Err classes: 1 = ShortBuf (stream target longer than 65535), 2 = LimitExceeded. *)
From Coq Require Import NArith Arith List Bool.
From DV Require Import Base.Outcome Base.Bytes Base.Names C16.Gen.
Import ListNotations.
Local Open Scope N_scope.

(* ------------------------------------------------------------------------ *)
(* 1. EDNS UDP payload size negotiation (edns.rs preprocess, Udp arm)        *)

(* Ord::clamp: assert!(min <= max); if self < min {min} else if self > max {max} else {self} *)
Definition u16_clamp (v lo hi : N) : outcome N :=
  if hi <? lo then Panic 1
  else Ok (if v <? lo then lo else if hi <? v then hi else v).

(* u16::max(MINIMUM_RESPONSE_BYTE_LEN, requestors_udp_payload_size) *)
Definition clamp_client (c : N) : N :=
  if neg_client_is_max then N.max min_resp_len c else N.min min_resp_len c.

Definition negotiate (client : N) (hint : option N) : outcome N :=
  let cc := clamp_client client in
  match hint with
  | Some v =>
      do ch <- u16_clamp v
                 (if neg_clamp_lo_is_min_resp_len then min_resp_len else cc)
                 (if neg_clamp_hi_is_client then cc else min_resp_len);
      Ok (if neg_combine_is_min then N.min cc ch else N.max cc ch)
  | None => Ok cc
  end.

(* the value of ctx.max_response_size_hint() after EdnsMiddlewareSvc::preprocess:
   client = Some (OPT class field) when the request carries an OPT record *)
Definition hint_after_edns (client hint : option N) : outcome (option N) :=
  match client with
  | Some c => do n <- negotiate c hint; Ok (Some n)
  | None => Ok hint
  end.

(* mandatory.rs truncate: `max_response_size`.  [trunc_no_opt_is_min] is read
   from the source by T1: false = `hint.unwrap_or(512)` for every request (the
   code as pinned); true = requests without an OPT record are held to 512. *)
Definition trunc_max_gen (fx : bool) (req_has_opt : bool) (hint : option N) : N :=
  if fx && negb req_has_opt then min_resp_len
  else match hint with Some h => h | None => min_resp_len end.
Definition trunc_max := trunc_max_gen trunc_no_opt_is_min.

Definition is_some {A} (o : option A) : bool := match o with Some _ => true | None => false end.

(* the size the stacked middleware (Mandatory over Edns) enforces on UDP *)
Definition udp_limit_gen (fx : bool) (client hint : option N) : outcome N :=
  do h <- hint_after_edns client hint; Ok (trunc_max_gen fx (is_some client) h).
Definition udp_limit := udp_limit_gen trunc_no_opt_is_min.

(* the property text: "the smaller of the client's advertised EDNS size (values
   below 512 count as 512) and the configured limit, or 512 without EDNS";
   no configured limit = only the client's value counts *)
Definition text_limit (client hint : option N) : N :=
  match client with
  | None => 512
  | Some c => match hint with Some h => N.min (N.max c 512) h | None => N.max c 512 end
  end.

(* dgram.rs: Config::set_max_response_size = value.map(|v| MAX_RESPONSE_SIZE.limit(v)) *)
Definition cfg_limit (v : N) : N := N.max cfg_min (N.min cfg_max v).
Definition cfg_hint (v : option N) : option N :=
  match v with Some x => Some (cfg_limit x) | None => None end.

(* ------------------------------------------------------------------------ *)
(* 2. MessageBuilder::push with a push limit over a StreamTarget             *)

Definition limit_hit (l new_pos : N) : bool :=
  if push_limit_cmp_is_ge then l <=? new_pos else l <? new_pos.

(* pos, add: message length before the push and octets the push appends *)
Definition push_limited (limit : option N) (pos add : N) : outcome N :=
  let new_pos := pos + add in
  if 65535 <? new_pos then Err 1
  else match limit with
       | Some l => if limit_hit l new_pos then Err 2 else Ok new_pos
       | None => Ok new_pos
       end.

(* a script of pushes; a failed push leaves the message as it was *)
Fixpoint push_script (limit : option N) (pos : N) (adds : list N) : list (outcome N) * N :=
  match adds with
  | [] => ([], pos)
  | a :: rest =>
      let r := push_limited limit pos a in
      let pos' := match r with Ok p => p | _ => pos end in
      let '(tr, fin) := push_script limit pos' rest in
      (r :: tr, fin)
  end.

(* ------------------------------------------------------------------------ *)
(* 3. Messages at section level                                              *)

Record question := mkQ { q_name : name; q_type : N; q_class : N }.
(* OPT record: CLASS = UDP payload size, TTL = ext-rcode|version|flags *)
Record optrec := mkOpt { o_size : N; o_ttl : N; o_data : bytes }.
Inductive rr := RROpt (o : optrec) | RROther (w : bytes).

Record msg := mkMsg {
  m_id : N; m_b2 : N; m_b3 : N;      (* header octets 0-1, 2, 3 *)
  m_qs : list question;
  m_an : list bytes; m_ns : list bytes;  (* records as opaque wire forms *)
  m_ar : list rr }.

Definition cnt {A} (l : list A) : N := N.of_nat (length l).

Definition wire_q (q : question) : bytes :=
  wire_abs (q_name q) ++ be16 (q_type q) ++ be16 (q_class q).
Definition wire_opt (o : optrec) : bytes :=
  [0] ++ be16 41 ++ be16 (o_size o) ++ be32 (o_ttl o) ++ be16 (len (o_data o)) ++ o_data o.
Definition wire_rr (r : rr) : bytes :=
  match r with RROpt o => wire_opt o | RROther w => w end.
Definition wire_header (m : msg) : bytes :=
  be16 (m_id m) ++ [m_b2 m; m_b3 m] ++ be16 (cnt (m_qs m)) ++ be16 (cnt (m_an m))
  ++ be16 (cnt (m_ns m)) ++ be16 (cnt (m_ar m)).
Definition wire_msg (m : msg) : bytes :=
  wire_header m ++ concat (map wire_q (m_qs m)) ++ concat (m_an m) ++ concat (m_ns m)
  ++ concat (map wire_rr (m_ar m)).
Definition mlen (m : msg) : N := len (wire_msg m).

(* Message::opt(): the first OPT record of the additional section *)
Fixpoint first_opt (ar : list rr) : option optrec :=
  match ar with
  | [] => None
  | RROpt o :: _ => Some o
  | RROther _ :: t => first_opt t
  end.
Definition is_opt (r : rr) : bool := match r with RROpt _ => true | RROther _ => false end.

Definition tc_set (b2 : N) : bool := N.testbit b2 tc_bit.
Definition set_tc (b2 : N) : N := N.setbit b2 tc_bit.
Definition set_bit_to (b k : N) (v : bool) : N := if v then N.setbit b k else N.clearbit b k.

Definition empty_opt : optrec := mkOpt 0 0 [].

(* edns.rs postprocess, UDP arm: strip OPT when the request had none
   (remove_edns_opt_record), add an empty one when the request had one and the
   response has none *)
Definition edns_post (req_has_opt : bool) (m : msg) : msg :=
  if negb req_has_opt then
    mkMsg (m_id m) (m_b2 m) (m_b3 m) (m_qs m) (m_an m) (m_ns m)
          (filter (fun r => negb (is_opt r)) (m_ar m))
  else match first_opt (m_ar m) with
       | Some _ => m
       | None =>
           (* response.opt(|_| Ok(())): fails (and is only logged) when the
              stream target would pass 65535 octets *)
           if 65535 <? mlen m + 11 then m
           else mkMsg (m_id m) (m_b2 m) (m_b3 m) (m_qs m) (m_an m) (m_ns m)
                      (m_ar m ++ [RROpt empty_opt])
       end.

(* MessageBuilder::push on the rebuilt message: the StreamTarget shim fails past
   65535 octets, the push limit (when set) fails when new_pos >= limit *)
Definition push_fails (lim : option N) (new_len : N) : bool :=
  (65535 <? new_len) || match lim with Some l => limit_hit l new_len | None => false end.

(* the fallback OPT: no options; version, extended rcode and payload size kept,
   the flags (DO) are not copied *)
Definition min_opt (o : optrec) : optrec := mkOpt (o_size o) ((o_ttl o / 65536) * 65536) [].

(* the question loop of the rebuild.  Limit-aware form (fq): every push runs
   under the push limit, LimitExceeded ends the loop (the remaining questions
   are left out), any other error (ShortBuf past 65535) is a TruncateError.
   Older form: `target.push(rr?)?` with no limit set yet. *)
Fixpoint push_questions (lim : option N) (pos : N) (qs : list question) : outcome (list question) :=
  match qs with
  | [] => Ok []
  | q :: t =>
      let n := pos + len (wire_q q) in
      if 65535 <? n then Err 2
      else if match lim with Some l => limit_hit l n | None => false end then Ok []
      else do r <- push_questions lim n t; Ok (q :: r)
  end.

(* mandatory.rs truncate, the rebuild: header copied, questions pushed, then the
   response's OPT, on failure the OPT without options, on failure no OPT; the
   push limit is max_response_size + 1, set before the questions (fq) or only
   before the OPT. *)
Definition rebuild (fq : bool) (lim : option N) (m : msg) : outcome msg :=
  do qs <- push_questions (if fq then lim else None) 12 (m_qs m);
  let base := mkMsg (m_id m) (m_b2 m) (m_b3 m) qs [] [] [] in
  match first_opt (m_ar m) with
  | None => Ok base
  | Some o =>
      let with_o o' := mkMsg (m_id m) (m_b2 m) (m_b3 m) qs [] [] [RROpt o'] in
      if push_fails lim (mlen (with_o o)) then
        if push_fails lim (mlen (with_o (min_opt o))) then Ok base
        else Ok (with_o (min_opt o))
      else Ok (with_o o)
  end.

Definition rebuild_limit (max : N) : option N :=
  if trunc_rebuild_has_push_limit then Some (max + trunc_rebuild_limit_slack) else None.

Definition over_limit (l max : N) : bool :=
  if trunc_cmp_is_gt then max <? l else max <=? l.

Definition truncate_gen (fx fq udp req_has_opt : bool) (hint : option N) (m : msg) : outcome msg :=
  if udp then
    if over_limit (mlen m) (trunc_max_gen fx req_has_opt hint) then
      rebuild fq (rebuild_limit (trunc_max_gen fx req_has_opt hint))
        (mkMsg (m_id m) (set_tc (m_b2 m)) (m_b3 m) (m_qs m) (m_an m) (m_ns m) (m_ar m))
    else Ok m
  else Ok m.

(* request: id, octet 2 of the header (QR opcode AA TC RD), the questions that
   parse (up to the first one that does not), the first OPT's payload size *)
Record request := mkReq { rq_id : N; rq_b2 : N; rq_qs : list question; rq_client : option N }.

(* util.rs mk_error_response(request, rcode): id, QR, opcode, RD and rcode in
   the header, the request's questions (all of them via start_error, or at most
   the first one: eq), always an OPT record carrying the upper rcode bits *)
Definition error_response_gen (eq : bool) (rq : request) (rcode : N) : msg :=
  mkMsg (rq_id rq) (N.setbit (N.land (rq_b2 rq) 121) 7) (rcode mod 16)
        (if eq then firstn 1 (rq_qs rq) else rq_qs rq) [] []
        [RROpt (mkOpt 0 ((rcode / 16) * 16777216) [])].

(* MandatoryMiddlewareSvc::postprocess *)
Definition mandatory_post_gen (fx fq eq udp : bool) (rq : request) (hint : option N) (m : msg) : msg :=
  let m1 := match truncate_gen fx fq udp (is_some (rq_client rq)) hint m with
            | Ok m' => m'
            | _ => error_response_gen eq rq rc_servfail
            end in
  let b2 := set_bit_to (N.setbit (m_b2 m1) 7) 0 (N.testbit (rq_b2 rq) 0) in
  mkMsg (rq_id rq) b2 (m_b3 m1) (m_qs m1) (m_an m1) (m_ns m1) (m_ar m1).

(* the whole UDP response path for one service response:
   Edns preprocess (hint) ... service ... Edns postprocess, Mandatory postprocess *)
(* the hand-over between the two middleware layers: MandatoryMiddlewareSvc passes a
   clone of the request inwards and keeps the original for postprocess; the hint
   lives in an Arc<Mutex<..>> shared by the clones, so the value EdnsMiddlewareSvc
   stores is the one truncate reads.  Were the cell copied with the request,
   truncate would still see the configured value. *)
Definition handed_over (shared : bool) (negotiated cfg : option N) : option N :=
  if shared then negotiated else cfg.

Definition udp_response_gen (fx fq eq : bool) (rq : request) (cfg : option N) (svc_resp : msg) : outcome msg :=
  do h <- hint_after_edns (rq_client rq) cfg;
  Ok (mandatory_post_gen fx fq eq true rq (handed_over hint_shared_between_clones h cfg)
        (edns_post (is_some (rq_client rq)) svc_resp)).
Definition udp_response := udp_response_gen trunc_no_opt_is_min trunc_questions_limited err_resp_first_question_only.

(* ---- the datagram server as a whole: which path answers a request --------- *)

(* the OPT records of the request as EdnsMiddlewareSvc::preprocess sees them *)
Inductive opt_state :=
| OptNone                          (* no OPT (or the record sections do not parse) *)
| OptOne (size version : N)
| OptKa (size : N) (timeout : bool) (* one OPT, version 0, with an edns-tcp-keepalive option (with a timeout value or empty) *)
| OptDup (size : N)                (* more than one OPT; the first one parses *)
| OptBad.                          (* the first OPT does not parse *)

(* x_qd: QDCOUNT of the header (x_qs may be shorter when a question does not parse) *)
Record xreq := mkX { x_id : N; x_b2 : N; x_qd : N; x_qs : list question; x_opt : opt_state }.

Definition x_client (x : xreq) : option N :=
  match x_opt x with OptOne s _ => Some s | OptKa s _ => Some s | OptDup s => Some s | _ => None end.
Definition x_base (x : xreq) : request := mkReq (x_id x) (x_b2 x) (x_qs x) (x_client x).
Definition x_opcode (x : xreq) : N := (x_b2 x / 8) mod 16.

Inductive svc_result := SvcOk (m : msg) | SvcErr (rcode : N) | SvcNone.

(* what DgramServer + Mandatory(strict) + Edns + service send back for one
   datagram (None: nothing).  Error responses made by the transport (QR = 1,
   service error) do not pass through the middleware. *)
Definition udp_server_gen (fx fq eq : bool) (x : xreq) (cfg : option N) (svc : svc_result)
  : outcome (option msg) :=
  let rq := x_base x in
  let has_opt := is_some (x_client x) in
  let post h m := mandatory_post_gen fx fq eq true rq h m in
  if N.testbit (x_b2 x) 7 then Ok (Some (error_response_gen eq rq rc_formerr))
  else if x_opcode x =? opcode_iquery then Ok (Some (post cfg (error_response_gen eq rq rc_notimp)))
  else if (x_opcode x =? opcode_query) && (qdcount_max <? x_qd x) then
    Ok (Some (post cfg (error_response_gen eq rq rc_formerr)))
  else
    let edns_err rc := Ok (Some (post cfg (edns_post has_opt (error_response_gen eq rq rc)))) in
    let serve :=
      match svc with
      | SvcOk m => do h <- hint_after_edns (x_client x) cfg;
                   Ok (Some (post (handed_over hint_shared_between_clones h cfg) (edns_post has_opt m)))
      | SvcErr rc => Ok (Some (error_response_gen eq rq rc))
      | SvcNone => Ok None
      end in
    match x_opt x with
    | OptDup _ => edns_err rc_formerr
    | OptBad => edns_err rc_formerr
    | OptOne _ v => if edns_version_max <? v then edns_err rc_badvers else serve
    | OptKa _ _ => serve                 (* the option is ignored over UDP *)
    | OptNone => serve
    end.
Definition udp_server := udp_server_gen trunc_no_opt_is_min trunc_questions_limited err_resp_first_question_only.

(* ---- a parser for what a truncated response must look like: header,
   questions with uncompressed names, at most one record which is an OPT ---- *)
Definition parse_header (w : bytes) : option (N * N * N * (N * N * N * N) * bytes) :=
  match w with
  | i1 :: i2 :: b2 :: b3 :: q1 :: q2 :: a1 :: a2 :: n1 :: n2 :: r1 :: r2 :: rest =>
      Some (of_be16 i1 i2, b2, b3, (of_be16 q1 q2, of_be16 a1 a2, of_be16 n1 n2, of_be16 r1 r2), rest)
  | _ => None
  end.

Fixpoint parse_questions (n : nat) (w : bytes) : option (list question * bytes) :=
  match n with
  | O => Some ([], w)
  | S n' =>
      match decode_abs w with
      | inl (Some (nm, t1 :: t2 :: c1 :: c2 :: rest)) =>
          match parse_questions n' rest with
          | Some (qs, r) => Some (mkQ nm (of_be16 t1 t2) (of_be16 c1 c2) :: qs, r)
          | None => None
          end
      | _ => None
      end
  end.

Definition parse_opt (w : bytes) : option (optrec * bytes) :=
  match w with
  | 0 :: t1 :: t2 :: c1 :: c2 :: l1 :: l2 :: l3 :: l4 :: d1 :: d2 :: rest =>
      if of_be16 t1 t2 =? 41 then
        let n := N.to_nat (of_be16 d1 d2) in
        if (length rest <? n)%nat then None
        else Some (mkOpt (of_be16 c1 c2) (of_be32 l1 l2 l3 l4) (firstn n rest), skipn n rest)
      else None
  | _ => None
  end.

Definition parse_min (w : bytes) : option msg :=
  match parse_header w with
  | Some (id, b2, b3, (qd, an, ns, ar), rest) =>
      if (an =? 0) && (ns =? 0) then
        match parse_questions (N.to_nat qd) rest with
        | Some (qs, rest') =>
            if ar =? 0 then
              match rest' with [] => Some (mkMsg id b2 b3 qs [] [] []) | _ => None end
            else if ar =? 1 then
              match parse_opt rest' with
              | Some (o, []) => Some (mkMsg id b2 b3 qs [] [] [RROpt o])
              | _ => None
              end
            else None
        | None => None
        end
      else None
  | None => None
  end.

(* ------------------------------------------------------------------------ *)
(* 4. Stream framing                                                         *)

(* write side: StreamTarget::update_shim / as_stream_slice *)
Definition frame_out (m : bytes) : outcome bytes :=
  if 65535 <? len m then Err 1 else Ok (be16 (len m) ++ m).

(* read side: DnsMessageReceiver::recv as a byte-at-a-time machine.  A chunk
   is whatever one poll_read delivers; read_exact keeps what it has got. *)
Inductive rx_state :=
| RxHeader (have : bytes)               (* waiting for the two length octets *)
| RxBody (need : nat) (have : bytes).   (* waiting for `need` more body octets; have is reversed *)

Definition rx_init : rx_state := RxHeader [].

(* one octet; returns the new state and a completed frame, if any *)
Definition rx_byte (st : rx_state) (b : N) : rx_state * option bytes :=
  match st with
  | RxHeader [] => (RxHeader [b], None)
  | RxHeader (h :: _) =>
      let n := N.to_nat (if frame_big_endian then of_be16 h b else of_be16 b h) in
      match n with
      | O => (RxHeader [], Some [])       (* create_sized(0); read_exact of nothing succeeds *)
      | S _ => (RxBody n [], None)
      end
  | RxBody need have =>
      match need with
      | S O => (RxHeader [], Some (rev (b :: have)))
      | S k => (RxBody k (b :: have), None)
      | O => (RxHeader [], Some (rev have))   (* not reachable *)
      end
  end.

(* Connection::process_read_request on a completed frame *)
Inductive conn_event :=
| EvDispatch (m : bytes)     (* handed to the service *)
| EvFormErr (m : bytes)      (* QR = 1: mk_error_response(FORMERR) enqueued directly *)
| EvDisconnect.              (* Message::from_octets failed: DisconnectWithoutFlush *)

Definition too_short (m : bytes) : bool :=
  if short_msg_cmp_is_lt then len m <? header_len else len m <=? header_len.

Definition qr_set (m : bytes) : bool :=
  match nth_error m 2 with Some b => N.testbit b 7 | None => false end.

Definition classify_frame (m : bytes) : conn_event :=
  if too_short m then EvDisconnect
  else if qr_set m then EvFormErr m else EvDispatch m.

Record conn_state := mkConn { c_rx : rx_state; c_open : bool }.
Definition conn_init : conn_state := mkConn rx_init true.

Definition conn_byte (st : conn_state) (b : N) : conn_state * list conn_event :=
  if c_open st then
    match rx_byte (c_rx st) b with
    | (rx', None) => (mkConn rx' true, [])
    | (rx', Some f) =>
        match classify_frame f with
        | EvDisconnect => (mkConn rx' false, [EvDisconnect])
        | e => (mkConn rx' true, [e])
        end
    end
  else (st, []).

Fixpoint conn_bytes (st : conn_state) (bs : bytes) : conn_state * list conn_event :=
  match bs with
  | [] => (st, [])
  | b :: t =>
      let '(st1, e1) := conn_byte st b in
      let '(st2, e2) := conn_bytes st1 t in
      (st2, e1 ++ e2)
  end.

Fixpoint conn_chunks (st : conn_state) (chunks : list bytes) : conn_state * list conn_event :=
  match chunks with
  | [] => (st, [])
  | c :: t =>
      let '(st1, e1) := conn_bytes st c in
      let '(st2, e2) := conn_chunks st1 t in
      (st2, e1 ++ e2)
  end.

(* declarative reading of a byte stream: length prefix, body, repeat *)
Fixpoint split_frames (fuel : nat) (s : bytes) : list bytes * bytes :=
  match fuel with
  | O => ([], s)
  | S fuel' =>
      match s with
      | h :: l :: body =>
          let n := N.to_nat (of_be16 h l) in
          if (length body <? n)%nat then ([], s)
          else let '(fs, rest) := split_frames fuel' (skipn n body) in
               (firstn n body :: fs, rest)
      | _ => ([], s)
      end
  end.

(* events for a list of complete frames: stop at the first short one *)
Fixpoint events_of (fs : list bytes) : list conn_event :=
  match fs with
  | [] => []
  | f :: t =>
      match classify_frame f with
      | EvDisconnect => [EvDisconnect]
      | e => e :: events_of t
      end
  end.

(* UDP receive: DgramServer::process_received_message sees the whole
   1024-octet buffer, so every datagram is a "message"; QR decides *)
Definition dgram_event (buf : bytes) : conn_event := classify_frame buf.

(* ------------------------------------------------------------------------ *)
(* 5. Executable entry points for the correspondence driver                  *)

Definition c16_hint (client hint : option N) : outcome (option N) := hint_after_edns client hint.
Definition c16_push (limit : option N) (pos : N) (adds : list N) : list (outcome N) * N :=
  push_script limit pos adds.

(* a service response described by lengths: the question is the request's;
   n_an answer records of an_len octets each, an optional OPT with data *)
Definition mk_name (label_lens : list N) : name :=
  map (fun k => repeat 97 (N.to_nat k)) label_lens.
Definition mk_request (id b2 : N) (labels : list N) (qtype : N) (client : option N) : request :=
  mkReq id b2 [mkQ (mk_name labels) qtype 1] client.
Definition mk_response (rq : request) (b2 b3 : N) (n_an an_len n_ar ar_len : N)
  (opt : option (N * N)) : msg :=
  mkMsg (rq_id rq) b2 b3 (rq_qs rq)
        (repeat (repeat 0 (N.to_nat an_len)) (N.to_nat n_an)) []
        (repeat (RROther (repeat 0 (N.to_nat ar_len))) (N.to_nat n_ar)
         ++ match opt with Some (sz, dl) => [RROpt (mkOpt sz 0 (repeat 0 (N.to_nat dl)))] | None => [] end).

(* observation: length, TC, id, qd/an/ns/ar counts, has OPT, octet 2 *)
Definition observe (m : msg) : N * bool * N * (N * N * N * N) * bool * N :=
  (mlen m, tc_set (m_b2 m), m_id m,
   (cnt (m_qs m), cnt (m_an m), cnt (m_ns m), cnt (m_ar m)),
   is_some (first_opt (m_ar m)), m_b2 m).

Definition c16_udp (id b2 : N) (labels : list N) (qtype : N) (client cfg : option N)
  (rb2 rb3 n_an an_len n_ar ar_len : N) (opt : option (N * N))
  : outcome (N * bool * N * (N * N * N * N) * bool * N) :=
  let rq := mk_request id b2 labels qtype client in
  do m <- udp_response rq cfg (mk_response rq rb2 rb3 n_an an_len n_ar ar_len opt);
  Ok (observe m).

(* ---- the stream server: EdnsMiddlewareSvc non-UDP arm ----------------------- *)

(* IdleTimeout::try_from(Duration): units of 100 ms in a u16; the option on the
   wire: code 11, length 2, the value *)
Definition keepalive_option (idle_ms : N) : option bytes :=
  let v := (idle_ms / 1000) * 10 + (idle_ms mod 1000) / 100 in
  if v <? 65536 then Some ([0; 11; 0; 2] ++ be16 v) else None.

Definition strip_opt (m : msg) : msg :=
  mkMsg (m_id m) (m_b2 m) (m_b3 m) (m_qs m) (m_an m) (m_ns m) (filter (fun r => negb (is_opt r)) (m_ar m)).
Definition with_ar (m : msg) (ar : list rr) : msg :=
  mkMsg (m_id m) (m_b2 m) (m_b3 m) (m_qs m) (m_an m) (m_ns m) ar.

(* util.rs add_edns_options with one option: the additional section is rebuilt,
   non-OPT records first, then the (first) OPT with the option appended; a push
   that would pass 65535 octets fails and leaves what was rebuilt so far *)
Definition add_option (m : msg) (ka : bytes) : msg :=
  match first_opt (m_ar m) with
  | Some o =>
      let others := filter (fun r => negb (is_opt r)) (m_ar m) in
      let o' := mkOpt (o_size o) (o_ttl o) (o_data o ++ ka) in
      if 65535 <? mlen (with_ar m (others ++ [RROpt o'])) then with_ar m others
      else with_ar m (others ++ [RROpt o'])
  | None =>
      let o' := mkOpt 0 0 ka in
      if 65535 <? mlen (with_ar m (m_ar m ++ [RROpt o'])) then m else with_ar m (m_ar m ++ [RROpt o'])
  end.

(* edns.rs postprocess on a stream: req_has_opt = request.message().opt() is
   some, req_any_opt = the additional section yields an OPT item at all (even
   one that does not parse) *)
Definition edns_post_tcp (req_has_opt req_any_opt : bool) (idle_ms : option N) (m : msg) : msg :=
  let m1 := if negb req_has_opt then strip_opt m else m in
  let m2 := if req_any_opt then
              match idle_ms with
              | Some ms => match keepalive_option ms with Some ka => add_option m1 ka | None => m1 end
              | None => m1
              end
            else m1 in
  if req_has_opt then
    match first_opt (m_ar m2) with
    | Some _ => m2
    | None => if 65535 <? mlen m2 + 11 then m2 else with_ar m2 (m_ar m2 ++ [RROpt empty_opt])
    end
  else m2.

Definition x_any_opt (x : xreq) : bool := match x_opt x with OptNone => false | _ => true end.

(* what a StreamServer connection writes (before framing) for one request *)
Definition tcp_server_gen (fx fq eq : bool) (x : xreq) (idle_ms : option N) (svc : svc_result)
  : outcome (option msg) :=
  let rq := x_base x in
  let has_opt := is_some (x_client x) in
  let post m := mandatory_post_gen fx fq eq false rq None m in
  if N.testbit (x_b2 x) 7 then Ok (Some (error_response_gen eq rq rc_formerr))
  else if x_opcode x =? opcode_iquery then Ok (Some (post (error_response_gen eq rq rc_notimp)))
  else if (x_opcode x =? opcode_query) && (qdcount_max <? x_qd x) then
    Ok (Some (post (error_response_gen eq rq rc_formerr)))
  else
    let edns_err rc := Ok (Some (post (edns_post_tcp has_opt (x_any_opt x) idle_ms (error_response_gen eq rq rc)))) in
    let serve :=
      match svc with
      | SvcOk m => Ok (Some (post (edns_post_tcp has_opt (x_any_opt x) idle_ms m)))
      | SvcErr rc => Ok (Some (error_response_gen eq rq rc))
      | SvcNone => Ok None
      end in
    match x_opt x with
    | OptDup _ => edns_err rc_formerr
    | OptBad => edns_err rc_formerr
    | OptOne _ v => if edns_version_max <? v then edns_err rc_badvers else serve
    | OptKa _ timeout => if timeout then edns_err rc_formerr else serve
    | OptNone => serve
    end.
Definition tcp_server := tcp_server_gen trunc_no_opt_is_min trunc_questions_limited err_resp_first_question_only.

(* ---- connection.rs IdleTimer, stream.rs connection limit ---------------------- *)

(* times in ms since the connection started; the timer is reset when a complete
   message has been received and when the response queue has been emptied *)
Definition idle_expired (reset_at timeout now : N) : bool :=
  if idle_expired_cmp_is_le then reset_at + timeout <=? now else reset_at + timeout <? now.

(* a connection left alone from `reset_at` on: open at time `now`? (the loop
   sleeps until the deadline and then disconnects) *)
Definition idle_open (reset_at timeout now : N) : bool := negb (idle_expired reset_at timeout now).

Definition at_connection_limit (num max : N) : bool :=
  if conn_limit_cmp_is_ge then max <=? num else max <? num.

(* k connections opened one after the other and kept open: which are served
   (accept_connections_at_max = true: the others are accepted and dropped) *)
Fixpoint served_connections (max : N) (num : N) (k : nat) : list bool :=
  match k with
  | O => []
  | S k' => if at_connection_limit num max then false :: served_connections max num k'
            else true :: served_connections max (num + 1) k'
  end.

(* ---- stream.rs run_until_error: the accept loop -------------------------------- *)

Inductive accept_event :=
| AcConn                 (* poll_accept yields a connection *)
| AcError (kind : N)     (* poll_accept yields an error (ECONNABORTED, EMFILE, ...): logged *)
| AcStreamFails          (* accepted, but the stream's own future fails: only its task ends *)
| AcStalled.             (* accepted, but the stream's own future never completes (a peer
                            that does not finish its TLS handshake) *)

(* which attempts are served; [stops]: whether an accept error ends the loop
   (T1: accept_error_stops_server = false); [inline]: whether the accept loop itself
   awaits the stream's future instead of the per-connection task
   (T1: setup_awaited_in_accept_loop = false) *)
Fixpoint accept_loop_gen (stops inline : bool) (evs : list accept_event) : list bool :=
  match evs with
  | [] => []
  | AcConn :: t => true :: accept_loop_gen stops inline t
  | AcStreamFails :: t =>
      false :: (if inline && stops then map (fun _ => false) t else accept_loop_gen stops inline t)
  | AcStalled :: t => false :: (if inline then map (fun _ => false) t else accept_loop_gen stops inline t)
  | AcError _ :: t => false :: (if stops then map (fun _ => false) t else accept_loop_gen stops inline t)
  end.
Definition accept_loop := accept_loop_gen accept_error_stops_server setup_awaited_in_accept_loop.

(* ---- cookies.rs preprocess: the two answers the middleware makes itself without
   looking at the request's question (the others start from start_answer) ------- *)
Inductive cookie_reject :=
| CkMalformed          (* the COOKIE option does not parse: FORMERR *)
| CkDeniedNoCookie.    (* UDP, no cookie, client address on the deny list: REFUSED with TC *)

(* echo = false: an empty builder (id 0, no question) with the rcode set;
   echo = true: mk_error_response(request, rcode) *)
Definition cookie_own_answer_gen (echo eq : bool) (rq : request) (k : cookie_reject) : msg :=
  let rc := match k with CkMalformed => rc_formerr | CkDeniedNoCookie => rc_refused end in
  let m := if echo then error_response_gen eq rq rc else mkMsg 0 0 rc [] [] [] [] in
  match k with
  | CkDeniedNoCookie => mkMsg (m_id m) (set_tc (m_b2 m)) (m_b3 m) (m_qs m) (m_an m) (m_ns m) (m_ar m)
  | CkMalformed => m
  end.

(* ... as sent: the cookies middleware sits inside Edns (hint negotiated) and Mandatory *)
Definition cookie_reject_response_gen (fx fq eq echo : bool) (rq : request) (cfg : option N) (k : cookie_reject)
  : outcome msg :=
  do h <- hint_after_edns (rq_client rq) cfg;
  Ok (mandatory_post_gen fx fq eq true rq (handed_over hint_shared_between_clones h cfg)
        (edns_post (is_some (rq_client rq)) (cookie_own_answer_gen echo eq rq k))).
Definition cookie_reject_response :=
  cookie_reject_response_gen trunc_no_opt_is_min trunc_questions_limited err_resp_first_question_only
    cookie_reject_echoes_question.

(* ---- dgram.rs receive: the message handed on is the whole receive buffer ---- *)

(* DgramServer::recv_from reads into BufSource::create_buf() (VecBufSource: 1024
   zero octets) and process_received_message parses the buffer itself, not
   its first bytes_read octets: a datagram is cut at 1024 octets and otherwise
   followed by zero padding, which parses as root-name questions / records when
   the header counts ask for more than the datagram holds. *)
Definition dgram_buffer_gen (whole : bool) (d : bytes) : bytes :=
  if whole then firstn (N.to_nat dgram_buf_len) (d ++ repeat 0 (N.to_nat dgram_buf_len))
  else firstn (N.to_nat dgram_buf_len) d.   (* only the octets received (T1: dgram_parses_whole_buffer = false) *)
Definition dgram_buffer := dgram_buffer_gen dgram_parses_whole_buffer.

(* Message::question().flatten(): the questions up to the first that does not parse *)
Fixpoint parse_questions_prefix (n : nat) (w : bytes) : list question :=
  match n with
  | O => []
  | S n' =>
      match decode_abs w with
      | inl (Some (nm, t1 :: t2 :: c1 :: c2 :: rest)) =>
          mkQ nm (of_be16 t1 t2) (of_be16 c1 c2) :: parse_questions_prefix n' rest
      | _ => []
      end
  end.

(* the request a datagram without records (ANCOUNT = NSCOUNT = ARCOUNT = 0) and
   without compression pointers is taken for *)
Definition xreq_of_buffer (b : bytes) : option xreq :=
  match parse_header b with
  | Some (id, b2, _, (qd, an, ns, ar), rest) =>
      if (an =? 0) && (ns =? 0) && (ar =? 0)
      then Some (mkX id b2 qd (parse_questions_prefix (N.to_nat qd) rest) OptNone)
      else None
  | None => None
  end.
Definition xreq_of_datagram (d : bytes) : option xreq := xreq_of_buffer (dgram_buffer d).

(* the server as a whole: request with nq copies of one question, QDCOUNT qd *)
Definition mk_xreq (id b2 qd nq : N) (labels : list N) (qtype : N) (opt : opt_state) : xreq :=
  mkX id b2 qd (repeat (mkQ (mk_name labels) qtype 1) (N.to_nat nq)) opt.

Definition observe2 (m : msg) :=
  (observe m, m_b3 m, match first_opt (m_ar m) with Some o => o_ttl o | None => 0 end).

(* svc: None = no response, Some (inl params) = a response, Some (inr rcode) = service error *)
Definition c16_srv (id b2 qd nq : N) (labels : list N) (qtype : N) (opt : opt_state) (cfg : option N)
  (svc : option ((N * N * N * N * N * N * option (N * N)) + N)) :=
  let x := mk_xreq id b2 qd nq labels qtype opt in
  let sr := match svc with
            | None => SvcNone
            | Some (inr rc) => SvcErr rc
            | Some (inl (rb2, rb3, n_an, an_len, n_ar, ar_len, o)) =>
                SvcOk (mk_response (x_base x) rb2 rb3 n_an an_len n_ar ar_len o)
            end in
  do r <- udp_server x cfg sr;
  Ok (match r with Some m => Some (observe2 m) | None => None end).

(* a raw datagram, answered by a service that echoes the questions and adds one
   15-octet answer record *)
Definition c16_pad (d : bytes) (cfg : option N) :=
  match xreq_of_datagram d with
  | None => Ok None
  | Some x =>
      let rb2 := N.setbit (N.land (x_b2 x) 121) 7 in
      do r <- udp_server x cfg (SvcOk (mk_response (x_base x) rb2 0 1 15 0 11 None));
      Ok (match r with Some m => Some (observe2 m) | None => None end)
  end.

(* dgram.rs: the hint of a request is the configured limit at the time the datagram
   is received (DgramServer::reconfigure takes effect for later requests) *)
Definition cfg_at_receive (live : bool) (at_start now : option N) : option N :=
  if live then now else at_start.

(* a request before and one after a reconfiguration from cfg1 to cfg2 (both as given
   to Config::set_max_response_size; None = no limit) *)
Definition c16_recfg (id b2 : N) (labels : list N) (client : option N) (cfg1 cfg2 : option N)
  (rb2 n_an an_len : N) (opt : option (N * N)) :=
  let rq := mk_request id b2 labels 1 client in
  let m := mk_response rq rb2 0 n_an an_len 0 11 opt in
  do r1 <- udp_response rq (cfg_hint cfg1) m;
  do r2 <- udp_response rq (cfg_at_receive dgram_cfg_read_per_datagram (cfg_hint cfg1) (cfg_hint cfg2)) m;
  Ok (observe r1, observe r2).

(* event codes: 0 connection, 1 stream future fails, 2 stream future never completes, 100 + k accept error k *)
Definition c16_accept (evs : list N) : list bool :=
  accept_loop (map (fun e => if e =? 0 then AcConn else if e =? 1 then AcStreamFails
                             else if e =? 2 then AcStalled else AcError (e - 100)) evs).
Definition c16_idle (timeout wait : N) : bool := idle_open 0 timeout wait.
Definition c16_limit (max : N) (k : N) : list bool := served_connections max 0 (N.to_nat k).

Definition c16_ck (id b2 : N) (labels : list N) (qtype : N) (client cfg : option N) (denied : bool) :=
  do m <- cookie_reject_response (mk_request id b2 labels qtype client) cfg
            (if denied then CkDeniedNoCookie else CkMalformed);
  Ok (Some (observe2 m)).

Definition observe3 (m : msg) :=
  (observe2 m, match first_opt (m_ar m) with Some o => len (o_data o) | None => 0 end).

Definition c16_tcp (id b2 qd nq : N) (labels : list N) (qtype : N) (opt : opt_state) (idle_ms : option N)
  (svc : option ((N * N * N * N * N * N * option (N * N)) + N)) :=
  let x := mk_xreq id b2 qd nq labels qtype opt in
  let sr := match svc with
            | None => SvcNone
            | Some (inr rc) => SvcErr rc
            | Some (inl (rb2, rb3, n_an, an_len, n_ar, ar_len, o)) =>
                SvcOk (mk_response (x_base x) rb2 rb3 n_an an_len n_ar ar_len o)
            end in
  do r <- tcp_server x idle_ms sr;
  Ok (match r with Some m => Some (observe3 m) | None => None end).

Definition c16_frame_out (m : bytes) : outcome bytes := frame_out m.
Definition c16_conn (chunks : list bytes) : bool * list conn_event :=
  let '(st, ev) := conn_chunks conn_init chunks in (c_open st, ev).
Definition c16_cfg (v : option N) : option N := cfg_hint v.
