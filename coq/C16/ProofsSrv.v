(* C16 proofs, part 4: the datagram server as a whole (udp_server_gen): every
   path that answers a datagram - reply received as request, IQUERY, QDCOUNT > 1,
   several / unparseable OPT, BADVERS, service response, service error. *)
From Coq Require Import NArith ZArith Arith List Bool Lia.
From Coq Require Import ZifyN ZifyBool ZifyNat.
From DV Require Import Base.Outcome Base.Bytes Base.Names C16.Gen C16.Model C16.ProofsNeg C16.ProofsTrunc.
Import ListNotations.
Local Open Scope N_scope.
Ltac Zify.zify_post_hook ::= Z.div_mod_to_equations.

Lemma error_response_len eq rq rc :
  mlen (error_response_gen eq rq rc) = 12 + qs_len (if eq then firstn 1 (rq_qs rq) else rq_qs rq) + 11.
Proof. unfold error_response_gen. rewrite mlen_with_opt, opt_len_spec. cbn [o_data]. rewrite len_nil. lia. Qed.

Lemma firstn1_len qs : Forall wf_q (firstn 1 qs) -> qs_len (firstn 1 qs) <= 259.
Proof.
  destruct qs as [|q t]; [intros _; cbn; lia|]. cbn [firstn]. intros H. inversion H; subst.
  rewrite qs_len_cons, qs_len_nil. pose proof (wire_q_len q H2). lia.
Qed.

(* with at most the first question echoed an error response is at most 282 octets *)
Lemma error_response_small rq rc : Forall wf_q (firstn 1 (rq_qs rq)) ->
  mlen (error_response_gen true rq rc) <= 282.
Proof. intros H. rewrite error_response_len. pose proof (firstn1_len _ H). lia. Qed.

Lemma error_response_has_opt eq rq rc : exists o, first_opt (m_ar (error_response_gen eq rq rc)) = Some o.
Proof. eexists. reflexivity. Qed.

Lemma error_response_id eq rq rc : m_id (error_response_gen eq rq rc) = rq_id rq.
Proof. reflexivity. Qed.

(* a response of at most 512 octets passes postprocess with its length unchanged *)
Lemma post_small fx fq eq rq h m : hint_ok h -> mlen m <= 512 ->
  mlen (mandatory_post_gen fx fq eq true rq h m) = mlen m.
Proof.
  intros Hk Hm. assert (H : mlen m <= 65535) by lia.
  pose proof (trunc_max_ge fx (is_some (rq_client rq)) h Hk) as G.
  destruct (udp_size_cases fx fq eq rq h m H) as [(_ & B & _)|(A & _)]; [exact B|lia].
Qed.

Lemma post_id fx fq eq rq h m : m_id (mandatory_post_gen fx fq eq true rq h m) = rq_id rq.
Proof. reflexivity. Qed.

Lemma text_limit_ge client cfg : hint_ok cfg -> 512 <= text_limit client cfg.
Proof. unfold text_limit. destruct client as [c|]; [|lia]. destruct cfg as [h|]; simpl; lia. Qed.

(* every datagram the server sends, on every path, is within the property text's
   limit - once truncate limits the questions and error responses echo at most
   the first question (and requests without OPT are held to 512) *)
Lemma udp_server_bound x cfg svc r :
  hint_ok cfg -> Forall wf_q (firstn 1 (x_qs x)) ->
  (forall m, svc = SvcOk m -> mlen m <= 65535) ->
  udp_server_gen true true true x cfg svc = Ok (Some r) ->
  mlen r <= text_limit (x_client x) cfg.
Proof.
  intros Hk Hq Hs. pose proof (text_limit_ge (x_client x) cfg Hk) as T.
  assert (Hq' : Forall wf_q (firstn 1 (rq_qs (x_base x)))) by exact Hq.
  assert (Esmall : forall rc b, mlen (mandatory_post_gen true true true true (x_base x) cfg
                     (edns_post b (error_response_gen true (x_base x) rc))) <= 282).
  { intros rc b. pose proof (error_response_small (x_base x) rc Hq') as S.
    destruct (error_response_has_opt true (x_base x) rc) as (o & Eo).
    pose proof (edns_post_le_opt b _ o Eo) as L.
    rewrite post_small; [lia|exact Hk|lia]. }
  assert (Esmall0 : forall rc, mlen (mandatory_post_gen true true true true (x_base x) cfg
                     (error_response_gen true (x_base x) rc)) <= 282).
  { intros rc. pose proof (error_response_small (x_base x) rc Hq') as S. rewrite post_small; [lia|exact Hk|lia]. }
  assert (Serve : forall rr,
     match svc with
     | SvcOk m => do h <- hint_after_edns (x_client x) cfg;
                  Ok (Some (mandatory_post_gen true true true true (x_base x) h (edns_post (is_some (x_client x)) m)))
     | SvcErr rc => Ok (Some (error_response_gen true (x_base x) rc))
     | SvcNone => Ok None
     end = Ok (Some rr) -> mlen rr <= text_limit (x_client x) cfg).
  { intros rr. destruct svc as [m|rc|]; [| |discriminate].
    - intros E. specialize (Hs m eq_refl).
      assert (E' : udp_response_gen true true true (x_base x) cfg m = Ok rr).
      { unfold udp_response_gen. cbn [x_base rq_client].
        destruct (hint_after_edns (x_client x) cfg); cbn [bind] in *; try discriminate. inversion E. reflexivity. }
      destruct (udp_size_bound_service true true true (x_base x) cfg m rr (or_introl eq_refl) Hk Hs E') as (lim & L & B).
      cbn [x_base rq_client] in L. rewrite (limit_is_text_when_fixed _ _ Hk) in L. inversion L; subst. exact B.
    - intros E; inversion E; subst. pose proof (error_response_small (x_base x) rc Hq'). lia. }
  unfold udp_server_gen. cbv zeta.
  destruct (N.testbit (x_b2 x) 7).
  { intros E; inversion E; subst. pose proof (error_response_small (x_base x) rc_formerr Hq'). lia. }
  destruct (x_opcode x =? opcode_iquery).
  { intros E; inversion E; subst. pose proof (Esmall0 rc_notimp). lia. }
  destruct ((x_opcode x =? opcode_query) && (qdcount_max <? x_qd x)).
  { intros E; inversion E; subst. pose proof (Esmall0 rc_formerr). lia. }
  destruct (x_opt x) as [|s v|s t|s|].
  - apply Serve.
  - destruct (edns_version_max <? v); [|apply Serve].
    intros E; inversion E; subst. pose proof (Esmall rc_badvers (is_some (x_client x))). lia.
  - apply Serve.
  - intros E; inversion E; subst. pose proof (Esmall rc_formerr (is_some (x_client x))). lia.
  - intros E; inversion E; subst. pose proof (Esmall rc_formerr (is_some (x_client x))). lia.
Qed.

(* no path panics, and a response always carries the request's id *)
Lemma udp_server_total fx fq eq x cfg svc : exists r, udp_server_gen fx fq eq x cfg svc = Ok r.
Proof.
  unfold udp_server_gen. cbv zeta.
  destruct (N.testbit (x_b2 x) 7); [eexists; reflexivity|].
  destruct (x_opcode x =? opcode_iquery); [eexists; reflexivity|].
  destruct ((x_opcode x =? opcode_query) && (qdcount_max <? x_qd x)); [eexists; reflexivity|].
  assert (S : exists r, match svc with
     | SvcOk m => do h <- hint_after_edns (x_client x) cfg;
                  Ok (Some (mandatory_post_gen fx fq eq true (x_base x) h (edns_post (is_some (x_client x)) m)))
     | SvcErr rc => Ok (Some (error_response_gen eq (x_base x) rc))
     | SvcNone => Ok None end = Ok r).
  { destruct svc; [rewrite hint_after_edns_spec; cbn [bind]| |]; eexists; reflexivity. }
  destruct (x_opt x) as [|s v|s t|s|]; try (eexists; reflexivity); [exact S| |exact S].
  destruct (edns_version_max <? v); [eexists; reflexivity|exact S].
Qed.

Lemma udp_server_id fx fq eq x cfg svc r :
  udp_server_gen fx fq eq x cfg svc = Ok (Some r) -> m_id r = x_id x.
Proof.
  unfold udp_server_gen. cbv zeta.
  destruct (N.testbit (x_b2 x) 7); [intros E; inversion E; reflexivity|].
  destruct (x_opcode x =? opcode_iquery); [intros E; inversion E; reflexivity|].
  destruct ((x_opcode x =? opcode_query) && (qdcount_max <? x_qd x)); [intros E; inversion E; reflexivity|].
  assert (S : match svc with
     | SvcOk m => do h <- hint_after_edns (x_client x) cfg;
                  Ok (Some (mandatory_post_gen fx fq eq true (x_base x) h (edns_post (is_some (x_client x)) m)))
     | SvcErr rc => Ok (Some (error_response_gen eq (x_base x) rc))
     | SvcNone => Ok None end = Ok (Some r) -> m_id r = x_id x).
  { destruct svc; [rewrite hint_after_edns_spec; cbn [bind]| |discriminate]; intros E; inversion E; reflexivity. }
  destruct (x_opt x) as [|s v|s t|s|]; try (intros E; inversion E; reflexivity); [exact S| |exact S].
  destruct (edns_version_max <? v); [intros E; inversion E; reflexivity|exact S].
Qed.

(* ---- the code before fixes 4f39cd3 / a929056 (flags false): kept as statements
   about those variants of the model; the witnesses are replayed by the harness
   corpus as regressions --------------------------------------------------------- *)

(* truncate not limiting the questions: a STATUS request with 100 questions,
   answered by a service that echoes them, leaves as 712 octets, TC set *)
Definition many_q_x : xreq := mkX 7 16 100 (repeat (mkQ [[97]] 1 1) 100) OptNone.
Definition many_q_svc : svc_result := SvcOk (mkMsg 7 144 0 (repeat (mkQ [[97]] 1 1) 100) [[0; 0; 1; 0; 1; 0; 0; 0; 0; 0; 0]] [] []).

Lemma many_questions_refuted_gen fx eq :
  exists r, udp_server_gen fx false eq many_q_x None many_q_svc = Ok (Some r) /\
            tc_set (m_b2 r) = true /\ mlen r = 712 /\ text_limit (x_client many_q_x) None = 512.
Proof.
  destruct fx, eq; (eexists; split; [vm_compute; reflexivity|]; repeat split; vm_compute; reflexivity).
Qed.

(* error responses echoing every question: a reply (QR = 1) with 100 questions
   is answered, without passing the middleware, by 723 octets *)
Definition many_q_reply : xreq := mkX 7 128 100 (repeat (mkQ [[97]] 1 1) 100) OptNone.

Lemma error_echo_refuted_gen fx fq :
  exists r, udp_server_gen fx fq false many_q_reply (Some 1232) SvcNone = Ok (Some r) /\
            tc_set (m_b2 r) = false /\ mlen r = 723 /\ text_limit (x_client many_q_reply) (Some 1232) = 512.
Proof.
  destruct fx, fq; (eexists; split; [vm_compute; reflexivity|]; repeat split; vm_compute; reflexivity).
Qed.

(* with both fixes the same inputs stay small *)
Example many_q_fixed :
  exists r1 r2, udp_server_gen true true true many_q_x None many_q_svc = Ok (Some r1) /\ mlen r1 <= 512 /\
                tc_set (m_b2 r1) = true /\
                udp_server_gen true true true many_q_reply (Some 1232) SvcNone = Ok (Some r2) /\ mlen r2 = 30.
Proof.
  eexists. eexists. split; [vm_compute; reflexivity|]. split; [vm_compute; discriminate|].
  split; [vm_compute; reflexivity|]. split; vm_compute; reflexivity.
Qed.

Example srv_badvers :
  exists r, udp_server (mkX 5 1 1 [mkQ [[97]] 1 1] (OptOne 4096 1)) (Some 1232) SvcNone = Ok (Some r) /\
            m_b3 r = 0 /\ first_opt (m_ar r) = Some (mkOpt 0 16777216 []).
Proof. eexists. split; [vm_compute; reflexivity|]. split; reflexivity. Qed.

(* ---- the stream server: every response can be framed ------------------------- *)

Lemma mlen_with_ar m ar :
  mlen (with_ar m ar) + len (concat (map wire_rr (m_ar m))) = mlen m + len (concat (map wire_rr ar)).
Proof. rewrite !mlen_spec. unfold with_ar. cbn [m_qs m_an m_ns m_ar]. lia. Qed.

Lemma add_option_len m ka : mlen m <= 65535 -> mlen (add_option m ka) <= 65535.
Proof.
  intros H. unfold add_option. destruct (first_opt (m_ar m)) as [o|].
  - match goal with |- context [65535 <? ?a] => destruct (N.ltb_spec 65535 a) as [L|L] end; [|exact L].
    pose proof (mlen_with_ar m (filter (fun r => negb (is_opt r)) (m_ar m))) as E.
    pose proof (filter_len (m_ar m)). lia.
  - match goal with |- context [65535 <? ?a] => destruct (N.ltb_spec 65535 a) as [L|L] end; [exact H|exact L].
Qed.

Lemma strip_opt_len m : mlen (strip_opt m) <= mlen m.
Proof. unfold strip_opt. rewrite !mlen_spec. cbn [m_qs m_an m_ns m_ar]. pose proof (filter_len (m_ar m)). lia. Qed.

Lemma edns_post_tcp_len a b idle m : mlen m <= 65535 -> mlen (edns_post_tcp a b idle m) <= 65535.
Proof.
  intros H. unfold edns_post_tcp.
  set (m1 := if negb a then strip_opt m else m).
  assert (H1 : mlen m1 <= 65535) by (subst m1; destruct (negb a); [pose proof (strip_opt_len m); lia|exact H]).
  set (m2 := if b then _ else m1).
  assert (H2 : mlen m2 <= 65535).
  { subst m2. destruct b; [|exact H1]. destruct idle as [ms|]; [|exact H1].
    destruct (keepalive_option ms); [apply add_option_len; exact H1|exact H1]. }
  destruct a; [|exact H2]. destruct (first_opt (m_ar m2)); [exact H2|].
  destruct (N.ltb_spec 65535 (mlen m2 + 11)) as [L|L]; [exact H2|].
  pose proof (mlen_with_ar m2 (m_ar m2 ++ [RROpt empty_opt])) as E.
  rewrite map_app, concat_app, len_app in E. cbn [map concat wire_rr] in E. rewrite app_nil_r in E.
  change (len (wire_opt empty_opt)) with 11 in E. lia.
Qed.

Lemma post_tcp_len fx fq eq rq h m : mlen (mandatory_post_gen fx fq eq false rq h m) = mlen m.
Proof. unfold mandatory_post_gen. rewrite truncate_non_udp. rewrite !mlen_spec. reflexivity. Qed.

(* the keepalive value: the idle timeout in units of 100 ms when that fits 16 bits *)
Lemma keepalive_option_spec ms ka : keepalive_option ms = Some ka ->
  exists v, v = ms / 100 /\ v < 65536 /\ ka = [0; 11; 0; 2; v / 256; v mod 256].
Proof.
  unfold keepalive_option. cbv zeta.
  destruct (N.ltb_spec ((ms / 1000) * 10 + (ms mod 1000) / 100) 65536) as [L|L]; [|discriminate].
  intros E; inversion E; subst. exists ((ms / 1000) * 10 + (ms mod 1000) / 100).
  split; [|split; [exact L|reflexivity]]. lia.
Qed.
Example keepalive_ex : keepalive_option 30000 = Some [0; 11; 0; 2; 1; 44] /\ keepalive_option 6553600 = None.
Proof. split; reflexivity. Qed.

(* every message a connection writes fits the two-octet frame *)
Lemma tcp_server_framed fx fq eq x idle svc r :
  12 + qs_len (x_qs x) + 11 <= 65535 -> (forall m, svc = SvcOk m -> mlen m <= 65535) ->
  tcp_server_gen fx fq eq x idle svc = Ok (Some r) ->
  mlen r <= 65535 /\ exists f, frame_out (wire_msg r) = Ok f.
Proof.
  intros Hq Hs E. assert (L : mlen r <= 65535); [|split; [exact L|]].
  2:{ unfold frame_out. fold (mlen r). destruct (N.ltb_spec 65535 (mlen r)); [lia|eexists; reflexivity]. }
  assert (Herr : forall rc, mlen (error_response_gen eq (x_base x) rc) <= 65535).
  { intros rc. rewrite error_response_len. cbn [x_base rq_qs].
    destruct eq; [|lia]. destruct (kept_prefix None (x_qs x) 0) as (rest & _).
    assert (qs_len (firstn 1 (x_qs x)) <= qs_len (x_qs x)).
    { destruct (x_qs x) as [|q t]; [cbn; lia|]. cbn [firstn]. rewrite !qs_len_cons, qs_len_nil. lia. }
    lia. }
  revert E. unfold tcp_server_gen. cbv zeta.
  destruct (N.testbit (x_b2 x) 7); [intros E; inversion E; subst; apply Herr|].
  destruct (x_opcode x =? opcode_iquery); [intros E; inversion E; subst; rewrite post_tcp_len; apply Herr|].
  destruct ((x_opcode x =? opcode_query) && (qdcount_max <? x_qd x)); [intros E; inversion E; subst; rewrite post_tcp_len; apply Herr|].
  assert (Eerr : forall rc rr, Ok (Some (mandatory_post_gen fx fq eq false (x_base x) None
                  (edns_post_tcp (is_some (x_client x)) (x_any_opt x) idle (error_response_gen eq (x_base x) rc)))) = Ok (Some rr) ->
                  mlen rr <= 65535).
  { intros rc rr E; inversion E; subst. rewrite post_tcp_len. apply edns_post_tcp_len, Herr. }
  assert (Serve : match svc with
     | SvcOk m => Ok (Some (mandatory_post_gen fx fq eq false (x_base x) None (edns_post_tcp (is_some (x_client x)) (x_any_opt x) idle m)))
     | SvcErr rc => Ok (Some (error_response_gen eq (x_base x) rc))
     | SvcNone => Ok None end = Ok (Some r) -> mlen r <= 65535).
  { destruct svc as [m|rc|]; [| |discriminate]; intros E; inversion E; subst.
    - rewrite post_tcp_len. apply edns_post_tcp_len, Hs. reflexivity.
    - apply Herr. }
  destruct (x_opt x) as [|s v|s t|s|]; try (apply Eerr); [exact Serve| |].
  - destruct (edns_version_max <? v); [apply Eerr|exact Serve].
  - destruct t; [apply Eerr|exact Serve].
Qed.

Lemma tcp_server_id fx fq eq x idle svc r :
  tcp_server_gen fx fq eq x idle svc = Ok (Some r) -> m_id r = x_id x.
Proof.
  unfold tcp_server_gen. cbv zeta.
  destruct (N.testbit (x_b2 x) 7); [intros E; inversion E; reflexivity|].
  destruct (x_opcode x =? opcode_iquery); [intros E; inversion E; reflexivity|].
  destruct ((x_opcode x =? opcode_query) && (qdcount_max <? x_qd x)); [intros E; inversion E; reflexivity|].
  assert (S : match svc with
     | SvcOk m => Ok (Some (mandatory_post_gen fx fq eq false (x_base x) None (edns_post_tcp (is_some (x_client x)) (x_any_opt x) idle m)))
     | SvcErr rc => Ok (Some (error_response_gen eq (x_base x) rc))
     | SvcNone => Ok None end = Ok (Some r) -> m_id r = x_id x).
  { destruct svc; [| |discriminate]; intros E; inversion E; reflexivity. }
  destruct (x_opt x) as [|s v|s t|s|]; try (intros E; inversion E; reflexivity); [exact S| |].
  - destruct (edns_version_max <? v); [intros E; inversion E; reflexivity|exact S].
  - destruct t; [intros E; inversion E; reflexivity|exact S].
Qed.

Example tcp_ex :
  exists r, tcp_server (mkX 5 1 1 [mkQ [[97]] 1 1] (OptOne 1232 0)) (Some 30000)
              (SvcOk (mkMsg 5 129 0 [mkQ [[97]] 1 1] [] [] [])) = Ok (Some r) /\
            m_ar r = [RROpt (mkOpt 0 0 [0; 11; 0; 2; 1; 44])].
Proof. eexists. split; [vm_compute; reflexivity|]. reflexivity. Qed.

(* ---- the datagram receive buffer ----------------------------------------------- *)

Lemma parse_flat_inv fuel : forall b acc used nm rest,
  parse_flat fuel b acc used = inl (Some (nm, rest)) ->
  exists n', nm = rev acc ++ n' /\ b = wire_abs n' ++ rest.
Proof.
  induction fuel as [|fuel IH]; intros b acc used nm rest H; [discriminate|].
  cbn [parse_flat] in H. destruct b as [|h t]; [discriminate|].
  destruct (N.eqb_spec h 0) as [E0|E0].
  - inversion H; subst. exists []. rewrite app_nil_r. split; reflexivity.
  - destruct (63 <? h); [discriminate|].
    destruct (Nat.ltb_spec (length t) (N.to_nat h)) as [L|L]; [discriminate|].
    destruct (254 <? used + 1 + N.to_nat h)%nat; [discriminate|].
    apply IH in H. destruct H as (n'' & E1 & E2).
    exists (firstn (N.to_nat h) t :: n''). split.
    + rewrite E1. cbn [rev]. rewrite <- app_assoc. reflexivity.
    + rewrite wire_abs_cons. rewrite firstn_length, Nat.min_l by exact L. rewrite N2Nat.id.
      rewrite <- E2, firstn_skipn. reflexivity.
Qed.

Lemma decode_abs_inv w nm rest : decode_abs w = inl (Some (nm, rest)) -> w = wire_abs nm ++ rest.
Proof. unfold decode_abs. intros H. apply parse_flat_inv in H. destruct H as (n' & -> & E). exact E. Qed.

(* the questions parsed lie within the octets parsed *)
Lemma parse_prefix_within n : forall w, qs_len (parse_questions_prefix n w) <= len w.
Proof.
  induction n as [|n IH]; intros w; [cbn; lia|].
  cbn [parse_questions_prefix]. destruct (decode_abs w) as [[[nm r]|]|] eqn:E; try (cbn; lia).
  destruct r as [|t1 [|t2 [|c1 [|c2 rest]]]]; try (cbn; lia).
  apply decode_abs_inv in E. subst w. rewrite qs_len_cons. specialize (IH rest).
  unfold wire_q. cbn [q_name q_type q_class]. rewrite !len_app. unfold be16, len in *. cbn [length] in *. lia.
Qed.

Lemma xreq_of_buffer_within b x : xreq_of_buffer b = Some x -> 12 + qs_len (x_qs x) <= len b.
Proof.
  unfold xreq_of_buffer, parse_header.
  destruct b as [|i1 [|i2 [|b2 [|b3 [|q1 [|q2 [|a1 [|a2 [|n1 [|n2 [|r1 [|r2 rest]]]]]]]]]]]]; try discriminate.
  destruct ((of_be16 a1 a2 =? 0) && (of_be16 n1 n2 =? 0) && (of_be16 r1 r2 =? 0)); [|discriminate].
  intros E; inversion E; subst. cbn [x_qs].
  pose proof (parse_prefix_within (N.to_nat (of_be16 q1 q2)) rest). unfold len in *. cbn [length]. lia.
Qed.

(* parsing only the octets received: a request is at least a header long and its
   questions are the datagram's own *)
Lemma dgram_received_only d x :
  xreq_of_buffer (dgram_buffer_gen false d) = Some x -> 12 + qs_len (x_qs x) <= len d.
Proof.
  intros H. apply xreq_of_buffer_within in H. unfold dgram_buffer_gen in H.
  unfold len in *. rewrite firstn_length in H. lia.
Qed.

(* parsing the whole buffer: a 12-octet datagram (STATUS, QDCOUNT 65535) becomes a
   request with 202 questions made of padding, and is answered by 512 octets *)
Definition pad_datagram : bytes := [18; 52; 16; 0; 255; 255; 0; 0; 0; 0; 0; 0].

Lemma dgram_padding_refuted_gen fx fq eq :
  exists x r, xreq_of_buffer (dgram_buffer_gen true pad_datagram) = Some x /\ cnt (x_qs x) = 202 /\
    udp_server_gen fx fq eq x (Some 1232)
      (SvcOk (mk_response (x_base x) 144 0 1 15 0 11 None)) = Ok (Some r) /\
    len pad_datagram = 12 /\ 512 <= mlen r.
Proof.
  eexists. destruct fx, fq, eq;
    (eexists; split; [vm_compute; reflexivity|]; split; [vm_compute; reflexivity|];
     split; [vm_compute; reflexivity|]; split; [reflexivity|]; vm_compute; discriminate).
Qed.

(* every datagram, even an empty one, is a message when the whole buffer is parsed *)
Lemma dgram_buffer_whole_len d : len (dgram_buffer_gen true d) = dgram_buf_len.
Proof.
  unfold dgram_buffer_gen, len. rewrite firstn_length, app_length, repeat_length.
  rewrite Nat.min_l by lia. apply N2Nat.id.
Qed.

(* ---- the cookies middleware's own rejections -------------------------------------- *)

Lemma cookie_own_answer_len echo eq rq k :
  mlen (cookie_own_answer_gen echo eq rq k) =
  if echo then mlen (error_response_gen eq rq (match k with CkMalformed => rc_formerr | CkDeniedNoCookie => rc_refused end))
  else 12.
Proof.
  unfold cookie_own_answer_gen. destruct k, echo; cbv zeta; rewrite ?mlen_spec; reflexivity.
Qed.

Lemma cookie_own_answer_qs echo eq rq k :
  m_qs (cookie_own_answer_gen echo eq rq k) =
  if echo then (if eq then firstn 1 (rq_qs rq) else rq_qs rq) else [].
Proof. unfold cookie_own_answer_gen. destruct k, echo; reflexivity. Qed.

(* built from an empty builder the answer has no question section, whatever the request asked *)
Lemma cookie_reject_no_question fx fq eq rq cfg k r : hint_ok cfg ->
  cookie_reject_response_gen fx fq eq false rq cfg k = Ok r -> m_id r = rq_id rq /\ m_qs r = [].
Proof.
  intros Hk. unfold cookie_reject_response_gen.
  destruct (hint_after_edns (rq_client rq) cfg) as [h| | |] eqn:E; try discriminate.
  cbn [bind]. intros R; inversion R; subst r; clear R.
  set (m := edns_post (is_some (rq_client rq)) (cookie_own_answer_gen false eq rq k)).
  assert (Hm : mlen m <= 23).
  { subst m. pose proof (edns_post_le (is_some (rq_client rq)) (cookie_own_answer_gen false eq rq k)) as L.
    rewrite cookie_own_answer_len in L. lia. }
  assert (H : mlen m <= 65535) by lia.
  pose proof (trunc_max_ge fx (is_some (rq_client rq)) h (hint_ok_after _ _ _ Hk E)) as G.
  destruct (udp_size_cases fx fq eq rq h m H) as [(_ & _ & _ & Q & _)|(A & _)]; [|lia].
  split; [reflexivity|]. rewrite Q. subst m. rewrite edns_post_qs. apply cookie_own_answer_qs.
Qed.

(* built by mk_error_response it carries the request's id and (first) question *)
Lemma cookie_reject_echo fx fq rq cfg k r : hint_ok cfg -> Forall wf_q (firstn 1 (rq_qs rq)) ->
  cookie_reject_response_gen fx fq true true rq cfg k = Ok r ->
  m_id r = rq_id rq /\ m_qs r = firstn 1 (rq_qs rq) /\ mlen r <= 282.
Proof.
  intros Hk Hq. unfold cookie_reject_response_gen.
  destruct (hint_after_edns (rq_client rq) cfg) as [h| | |] eqn:E; try discriminate.
  cbn [bind]. intros R; inversion R; subst r; clear R.
  set (a := cookie_own_answer_gen true true rq k).
  set (m := edns_post (is_some (rq_client rq)) a).
  assert (Ha : mlen a <= 282).
  { subst a. rewrite cookie_own_answer_len. apply error_response_small. exact Hq. }
  assert (Hm : mlen m <= 282).
  { subst m. assert (exists o, first_opt (m_ar a) = Some o) as (o & Eo) by (subst a; destruct k; eexists; reflexivity).
    pose proof (edns_post_le_opt (is_some (rq_client rq)) a o Eo). lia. }
  assert (H : mlen m <= 65535) by lia.
  pose proof (trunc_max_ge fx (is_some (rq_client rq)) h (hint_ok_after _ _ _ Hk E)) as G.
  destruct (udp_size_cases fx fq true rq h m H) as [(_ & L & _ & Q & _)|(A & _)]; [|lia].
  split; [reflexivity|]. split; [|lia]. rewrite Q. subst m. rewrite edns_post_qs. subst a. apply cookie_own_answer_qs.
Qed.

Definition ck_request : request := mk_request 36892 1 [1] 1 None.
Example cookie_reject_ex :
  exists r, cookie_reject_response_gen true true true false ck_request (Some 1232) CkDeniedNoCookie = Ok r /\
            mlen r = 12 /\ tc_set (m_b2 r) = true /\ m_b3 r = 5 /\ m_qs r = [] /\ rq_qs ck_request <> [].
Proof. eexists. split; [vm_compute; reflexivity|]. repeat split; try (vm_compute; reflexivity). discriminate. Qed.

(* ---- idle timeout and connection limit --------------------------------------------- *)

(* an idle connection is open strictly before reset_at + timeout and closed from then on *)
Lemma idle_open_spec reset_at timeout now :
  idle_open reset_at timeout now = true <-> now < reset_at + timeout.
Proof.
  unfold idle_open, idle_expired. cbv [idle_expired_cmp_is_le].
  destruct (N.leb_spec (reset_at + timeout) now); cbn [negb]; split; intros; try discriminate; try reflexivity; lia.
Qed.

(* a later reset never closes a connection earlier *)
Lemma idle_reset_extends r1 r2 timeout now : r1 <= r2 ->
  idle_open r1 timeout now = true -> idle_open r2 timeout now = true.
Proof. rewrite !idle_open_spec. lia. Qed.

Lemma at_connection_limit_spec num max : at_connection_limit num max = true <-> max <= num.
Proof.
  unfold at_connection_limit. cbv [conn_limit_cmp_is_ge].
  destruct (N.leb_spec max num); split; intros; try discriminate; try reflexivity; lia.
Qed.

(* never more than max connections are served at once, and none is refused below the limit *)
Lemma served_connections_spec max k : forall num, num <= max ->
  N.of_nat (length (filter (fun b => b) (served_connections max num k))) + num <= max /\
  (N.of_nat k + num <= max -> served_connections max num k = repeat true k).
Proof.
  induction k as [|k IH]; intros num H; [cbn; split; [lia|reflexivity]|].
  cbn [served_connections]. destruct (at_connection_limit num max) eqn:E.
  - apply at_connection_limit_spec in E. destruct (IH num H) as (A & B). cbn [filter]. split; [exact A|]. lia.
  - assert (num < max). { destruct (N.leb_spec max num) as [L|L]; [apply at_connection_limit_spec in L; congruence|exact L]. }
    destruct (IH (num + 1)) as (A & B); [lia|]. cbn [filter length]. split; [lia|].
    intros F. cbn [repeat]. rewrite B by lia. reflexivity.
Qed.
Example served_ex : served_connections 2 0 4 = [true; true; false; false]. Proof. reflexivity. Qed.

(* ---- the accept loop ------------------------------------------------------------------ *)

Definition is_conn (e : accept_event) : bool := match e with AcConn => true | _ => false end.

(* when accept errors do not end the loop every connection is served, whatever
   happened to the attempts before it *)
Lemma accept_loop_serves_all evs : accept_loop_gen false false evs = map is_conn evs.
Proof. induction evs as [|e t IH]; [reflexivity|]. destruct e; cbn [accept_loop_gen map is_conn andb]; rewrite IH; reflexivity. Qed.

(* ... and when they do, one aborted attempt leaves every later client unserved *)
Lemma accept_loop_stopping_refuted inline :
  accept_loop_gen true inline [AcConn; AcError 0; AcConn; AcConn] = [true; false; false; false].
Proof. destruct inline; reflexivity. Qed.

(* awaiting the stream's future in the accept loop: one peer that never finishes its
   connection setup leaves every later client unserved *)
Lemma accept_loop_inline_refuted stops :
  accept_loop_gen stops true [AcConn; AcStalled; AcConn; AcConn] = [true; false; false; false].
Proof. destruct stops; reflexivity. Qed.
