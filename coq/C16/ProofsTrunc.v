(* C16 proofs, part 2: truncation (mandatory.rs truncate / postprocess), the UDP
   size bound, TC, the truncated form parses, id and question. *)
From Coq Require Import NArith ZArith Arith List Bool Lia.
From Coq Require Import ZifyN ZifyBool ZifyNat.
From DV Require Import Base.Outcome Base.Bytes Base.Names C16.Gen C16.Model C16.ProofsNeg.
Import ListNotations.
Local Open Scope N_scope.
Ltac Zify.zify_post_hook ::= Z.div_mod_to_equations.

(* ---- lengths -------------------------------------------------------------- *)

Lemma len_app a b : len (a ++ b) = len a + len b.
Proof. unfold len. rewrite app_length. lia. Qed.

Lemma len_nil : len [] = 0. Proof. reflexivity. Qed.

Definition qs_len (qs : list question) : N := len (concat (map wire_q qs)).
Definition opt_len (o : optrec) : N := len (wire_opt o).

Lemma wire_header_len m : len (wire_header m) = 12.
Proof. reflexivity. Qed.

Lemma opt_len_spec o : opt_len o = 11 + len (o_data o).
Proof. unfold opt_len, wire_opt, len. rewrite !app_length. cbn [length be16 be32]. lia. Qed.

Lemma mlen_spec m :
  mlen m = 12 + qs_len (m_qs m) + len (concat (m_an m)) + len (concat (m_ns m))
           + len (concat (map wire_rr (m_ar m))).
Proof. unfold mlen, wire_msg, qs_len. rewrite !len_app, wire_header_len. lia. Qed.

Lemma first_opt_len ar o : first_opt ar = Some o ->
  opt_len o <= len (concat (map wire_rr ar)).
Proof.
  induction ar as [|r t IH]; [discriminate|].
  cbn [first_opt map concat]. rewrite len_app. destruct r as [o'|w].
  - intros E; inversion E; subst. cbn [wire_rr]. unfold opt_len. lia.
  - intros E. specialize (IH E). lia.
Qed.

(* ---- the questions the rebuild keeps -------------------------------------- *)

Lemma qs_len_cons q t : qs_len (q :: t) = len (wire_q q) + qs_len t.
Proof. unfold qs_len. cbn [map concat]. apply len_app. Qed.

Lemma qs_len_nil : qs_len [] = 0. Proof. reflexivity. Qed.

(* push_questions without its error exit: the longest prefix whose pushes all
   stay under the limit *)
Fixpoint kept (lim : option N) (pos : N) (qs : list question) : list question :=
  match qs with
  | [] => []
  | q :: t =>
      let n := pos + len (wire_q q) in
      if match lim with Some l => limit_hit l n | None => false end then []
      else q :: kept lim n t
  end.

Lemma push_questions_ok lim qs : forall pos, pos + qs_len qs <= 65535 ->
  push_questions lim pos qs = Ok (kept lim pos qs).
Proof.
  induction qs as [|q t IH]; intros pos H; [reflexivity|].
  rewrite qs_len_cons in H. cbn [push_questions kept]. cbv zeta.
  destruct (N.ltb_spec 65535 (pos + len (wire_q q))); [lia|].
  destruct (match lim with Some l => limit_hit l (pos + len (wire_q q)) | None => false end); [reflexivity|].
  rewrite IH by lia. reflexivity.
Qed.

Lemma kept_none pos qs : kept None pos qs = qs.
Proof. revert pos; induction qs as [|q t IH]; intros pos; [reflexivity|]. cbn [kept]. rewrite IH. reflexivity. Qed.

Lemma kept_prefix lim qs : forall pos, exists rest, qs = kept lim pos qs ++ rest.
Proof.
  induction qs as [|q t IH]; intros pos; [exists []; reflexivity|]. cbn [kept]. cbv zeta.
  destruct (match lim with Some l => limit_hit l _ | None => false end).
  - exists (q :: t). reflexivity.
  - destruct (IH (pos + len (wire_q q))) as (rest & E). exists rest. cbn [app]. rewrite <- E. reflexivity.
Qed.

Lemma qs_len_app a b : qs_len (a ++ b) = qs_len a + qs_len b.
Proof. unfold qs_len. rewrite map_app, concat_app. apply len_app. Qed.

Lemma kept_len lim pos qs : qs_len (kept lim pos qs) <= qs_len qs.
Proof. destruct (kept_prefix lim qs pos) as (rest & E). rewrite E at 2. rewrite qs_len_app. lia. Qed.

Lemma kept_forall (P : question -> Prop) lim pos qs : Forall P qs -> Forall P (kept lim pos qs).
Proof.
  intros H. destruct (kept_prefix lim qs pos) as (rest & E). rewrite E in H.
  apply Forall_app in H. tauto.
Qed.

Lemma kept_cnt lim pos qs : cnt (kept lim pos qs) <= cnt qs.
Proof.
  destruct (kept_prefix lim qs pos) as (rest & E). unfold cnt. rewrite E at 2. rewrite app_length. lia.
Qed.

(* under the limit max + 1 the kept questions end at or below max *)
Lemma kept_fits max qs : forall pos, pos <= max -> pos + qs_len (kept (Some (max + 1)) pos qs) <= max.
Proof.
  induction qs as [|q t IH]; intros pos H; [cbn [kept]; rewrite qs_len_nil; lia|].
  cbn [kept]. cbv zeta. unfold limit_hit. cbv [push_limit_cmp_is_ge].
  destruct (N.leb_spec (max + 1) (pos + len (wire_q q))); [rewrite qs_len_nil; lia|].
  rewrite qs_len_cons. specialize (IH (pos + len (wire_q q))). lia.
Qed.

Lemma kept_all max qs : forall pos, pos + qs_len qs <= max -> kept (Some (max + 1)) pos qs = qs.
Proof.
  induction qs as [|q t IH]; intros pos H; [reflexivity|]. rewrite qs_len_cons in H.
  cbn [kept]. cbv zeta. unfold limit_hit. cbv [push_limit_cmp_is_ge].
  destruct (N.leb_spec (max + 1) (pos + len (wire_q q))); [lia|]. rewrite IH by lia. reflexivity.
Qed.

Definition qlim (fq : bool) (max : N) : option N := if fq then Some (max + 1) else None.
Definition kept_qs (fq : bool) (max : N) (qs : list question) : list question := kept (qlim fq max) 12 qs.

Lemma kept_qs_unlimited max qs : kept_qs false max qs = qs.
Proof. apply kept_none. Qed.

Lemma kept_qs_all fq max qs : 12 + qs_len qs <= max -> kept_qs fq max qs = qs.
Proof. intros H. destruct fq; [apply kept_all; exact H|apply kept_none]. Qed.

Lemma kept_qs_fits max qs : 12 <= max -> 12 + qs_len (kept_qs true max qs) <= max.
Proof. intros H. apply kept_fits. exact H. Qed.

(* ---- the truncated form ---------------------------------------------------- *)

Lemma min_opt_len o : opt_len (min_opt o) = 11.
Proof. rewrite opt_len_spec. reflexivity. Qed.

Lemma opt_len_ge o : 11 <= opt_len o.
Proof. rewrite opt_len_spec. lia. Qed.

(* what is left of the additional section, three ways: the response's OPT when
   header + kept questions + OPT fit the limit, else the OPT without options
   when that fits, else nothing *)
Definition trunc_ar (max : N) (qs : list question) (ar : list rr) : list rr :=
  match first_opt ar with
  | None => []
  | Some o =>
      if 12 + qs_len qs + opt_len o <=? max then [RROpt o]
      else if 12 + qs_len qs + 11 <=? max then [RROpt (min_opt o)]
      else []
  end.

(* header (TC set), the questions that fit, the OPT as far as it fits *)
Definition trunc_form (fq : bool) (max : N) (m : msg) : msg :=
  mkMsg (m_id m) (set_tc (m_b2 m)) (m_b3 m) (kept_qs fq max (m_qs m)) [] []
        (trunc_ar max (kept_qs fq max (m_qs m)) (m_ar m)).

Lemma mlen_base id b2 b3 qs : mlen (mkMsg id b2 b3 qs [] [] []) = 12 + qs_len qs.
Proof. rewrite mlen_spec. cbn [m_qs m_an m_ns m_ar map concat]. rewrite len_nil. lia. Qed.

Lemma mlen_with_opt id b2 b3 qs o :
  mlen (mkMsg id b2 b3 qs [] [] [RROpt o]) = 12 + qs_len qs + opt_len o.
Proof.
  rewrite mlen_spec. cbn [m_qs m_an m_ns m_ar map concat wire_rr]. rewrite app_nil_r, len_nil.
  unfold opt_len. lia.
Qed.

Lemma trunc_ar_cases fq max m :
  let qs := kept_qs fq max (m_qs m) in
  (trunc_ar max qs (m_ar m) = [] /\ mlen (trunc_form fq max m) = 12 + qs_len qs) \/
  (exists o, first_opt (m_ar m) = Some o /\ trunc_ar max qs (m_ar m) = [RROpt o] /\
             mlen (trunc_form fq max m) = 12 + qs_len qs + opt_len o /\
             12 + qs_len qs + opt_len o <= max) \/
  (exists o, first_opt (m_ar m) = Some o /\ trunc_ar max qs (m_ar m) = [RROpt (min_opt o)] /\
             mlen (trunc_form fq max m) = 12 + qs_len qs + 11 /\
             max < 12 + qs_len qs + opt_len o /\ 12 + qs_len qs + 11 <= max).
Proof.
  cbv zeta. unfold trunc_form, trunc_ar. set (qs := kept_qs fq max (m_qs m)).
  destruct (first_opt (m_ar m)) as [o|] eqn:E.
  - destruct (N.leb_spec (12 + qs_len qs + opt_len o) max) as [A|A].
    + right; left. exists o. rewrite mlen_with_opt. auto.
    + destruct (N.leb_spec (12 + qs_len qs + 11) max) as [B|B].
      * right; right. exists o. rewrite mlen_with_opt, min_opt_len. auto.
      * left. rewrite mlen_base. auto.
  - left. rewrite mlen_base. auto.
Qed.

Lemma trunc_form_le fq max m : mlen (trunc_form fq max m) <= mlen m.
Proof.
  rewrite (mlen_spec m). pose proof (kept_len (qlim fq max) 12 (m_qs m)) as K. fold (kept_qs fq max (m_qs m)) in K.
  destruct (trunc_ar_cases fq max m) as [(_ & L)|[(o & E & _ & L & _)|(o & E & _ & L & _)]]; rewrite L;
    try (apply first_opt_len in E; pose proof (opt_len_ge o)); lia.
Qed.

(* the truncated form fits as soon as header + kept questions do *)
Lemma trunc_form_fits fq max m : 12 + qs_len (kept_qs fq max (m_qs m)) <= max ->
  mlen (trunc_form fq max m) <= max.
Proof.
  intros H. destruct (trunc_ar_cases fq max m) as [(_ & L)|[(o & _ & _ & L & F)|(o & _ & _ & L & _ & F)]]; lia.
Qed.

Lemma trunc_form_over max m : max < 12 + qs_len (m_qs m) ->
  trunc_ar max (m_qs m) (m_ar m) = [] /\ mlen (trunc_form false max m) = 12 + qs_len (m_qs m).
Proof.
  intros H. pose proof (trunc_ar_cases false max m) as C. cbv zeta in C. rewrite kept_qs_unlimited in C.
  destruct C as [A|[(o & _ & _ & _ & F)|(o & _ & _ & _ & _ & F)]]; [exact A|lia|lia].
Qed.

(* rebuild never fails on a message that exists (at most 65535 octets) and
   yields the truncated form *)
Lemma rebuild_spec fq max m : mlen m <= 65535 ->
  rebuild fq (rebuild_limit max)
    (mkMsg (m_id m) (set_tc (m_b2 m)) (m_b3 m) (m_qs m) (m_an m) (m_ns m) (m_ar m))
  = Ok (trunc_form fq max m).
Proof.
  intros H. rewrite (mlen_spec m) in H.
  unfold rebuild, rebuild_limit. cbv [trunc_rebuild_has_push_limit trunc_rebuild_limit_slack].
  cbn [m_id m_b2 m_b3 m_qs m_ar].
  change (if fq then Some (max + 1) else None) with (qlim fq max).
  rewrite push_questions_ok by lia. cbn [bind]. fold (kept_qs fq max (m_qs m)).
  pose proof (kept_len (qlim fq max) 12 (m_qs m)) as K. fold (kept_qs fq max (m_qs m)) in K.
  unfold trunc_form, trunc_ar. set (qs := kept_qs fq max (m_qs m)) in *.
  destruct (first_opt (m_ar m)) as [o|] eqn:E; [|reflexivity].
  apply first_opt_len in E. pose proof (opt_len_ge o) as G. cbv zeta.
  unfold push_fails, limit_hit. cbv [push_limit_cmp_is_ge].
  rewrite !mlen_with_opt, min_opt_len.
  destruct (N.ltb_spec 65535 (12 + qs_len qs + opt_len o)); [lia|].
  destruct (N.ltb_spec 65535 (12 + qs_len qs + 11)); [lia|]. cbn [orb].
  destruct (N.leb_spec (max + 1) (12 + qs_len qs + opt_len o));
    destruct (N.leb_spec (12 + qs_len qs + opt_len o) max); try lia; [|reflexivity].
  destruct (N.leb_spec (max + 1) (12 + qs_len qs + 11));
    destruct (N.leb_spec (12 + qs_len qs + 11) max); try lia; reflexivity.
Qed.

Lemma truncate_spec fx fq has_opt hint m : mlen m <= 65535 ->
  truncate_gen fx fq true has_opt hint m =
  Ok (if trunc_max_gen fx has_opt hint <? mlen m
      then trunc_form fq (trunc_max_gen fx has_opt hint) m else m).
Proof.
  intros H. unfold truncate_gen, over_limit. cbv [trunc_cmp_is_gt].
  destruct (N.ltb_spec (trunc_max_gen fx has_opt hint) (mlen m)); [|reflexivity].
  apply rebuild_spec; exact H.
Qed.

Lemma truncate_non_udp fx fq has_opt hint m : truncate_gen fx fq false has_opt hint m = Ok m.
Proof. reflexivity. Qed.

(* ---- the size bound --------------------------------------------------------- *)

(* postprocess does not change lengths or sections *)
Lemma mandatory_post_shape fx fq eq rq hint m : mlen m <= 65535 ->
  let max := trunc_max_gen fx (is_some (rq_client rq)) hint in
  let m1 := if max <? mlen m then trunc_form fq max m else m in
  let r := mandatory_post_gen fx fq eq true rq hint m in
  m_id r = rq_id rq /\ m_b3 r = m_b3 m1 /\ m_qs r = m_qs m1 /\ m_an r = m_an m1 /\
  m_ns r = m_ns m1 /\ m_ar r = m_ar m1 /\ mlen r = mlen m1 /\
  tc_set (m_b2 r) = tc_set (m_b2 m1).
Proof.
  intros H. cbv zeta. unfold mandatory_post_gen. rewrite truncate_spec by exact H.
  set (m1 := if _ <? _ then _ else _).
  cbn [m_id m_b3 m_qs m_an m_ns m_ar m_b2].
  repeat split; try assumption.
  unfold tc_set, set_bit_to. cbv [tc_bit].
  destruct (N.testbit (rq_b2 rq) 0).
  - rewrite N.setbit_neq by discriminate. rewrite N.setbit_neq by discriminate. reflexivity.
  - rewrite N.clearbit_neq by discriminate. rewrite N.setbit_neq by discriminate. reflexivity.
Qed.

(* not truncated: within the limit, nothing changed but id / QR / RD.
   truncated: header + the questions that fit + what trunc_ar leaves of the OPT *)
Lemma udp_size_cases fx fq eq rq hint m : mlen m <= 65535 ->
  let max := trunc_max_gen fx (is_some (rq_client rq)) hint in
  let r := mandatory_post_gen fx fq eq true rq hint m in
  (mlen m <= max /\ mlen r = mlen m /\ tc_set (m_b2 r) = tc_set (m_b2 m) /\
   m_qs r = m_qs m /\ m_an r = m_an m /\ m_ns r = m_ns m /\ m_ar r = m_ar m) \/
  (max < mlen m /\ mlen r = mlen (trunc_form fq max m) /\ tc_set (m_b2 r) = true /\
   m_qs r = kept_qs fq max (m_qs m) /\ m_an r = [] /\ m_ns r = [] /\
   m_ar r = trunc_ar max (kept_qs fq max (m_qs m)) (m_ar m)).
Proof.
  intros H. cbv zeta.
  destruct (mandatory_post_shape fx fq eq rq hint m H) as (_ & _ & Hqs & Han & Hns & Har & Hl & Htc).
  destruct (N.ltb_spec (trunc_max_gen fx (is_some (rq_client rq)) hint) (mlen m)) as [L|L].
  - right. repeat split; try assumption.
    rewrite Htc. unfold trunc_form, tc_set, set_tc. cbn [m_b2]. apply N.setbit_eq.
  - left. repeat split; assumption.
Qed.

(* the response fits the limit as soon as header + kept questions do: always with
   the limit-aware question loop, otherwise unless header + questions alone exceed it *)
Lemma udp_size_bound_gen fx fq eq rq hint m : mlen m <= 65535 ->
  let max := trunc_max_gen fx (is_some (rq_client rq)) hint in
  let r := mandatory_post_gen fx fq eq true rq hint m in
  ((fq = true /\ 12 <= max) \/ 12 + qs_len (m_qs m) <= max -> mlen r <= max) /\
  (fq = false -> max < 12 + qs_len (m_qs m) ->
     mlen r = 12 + qs_len (m_qs m) /\ tc_set (m_b2 r) = true /\ m_an r = [] /\ m_ns r = [] /\ m_ar r = []).
Proof.
  intros H. cbv zeta.
  destruct (udp_size_cases fx fq eq rq hint m H) as [(A & B & _)|(A & B & T & _ & Han & Hns & Har)].
  - split; [lia|]. intros _ L. rewrite mlen_spec in A. lia.
  - split.
    + intros C. rewrite B. apply trunc_form_fits. destruct C as [(-> & C)|C].
      * apply kept_qs_fits. exact C.
      * rewrite kept_qs_all by exact C. exact C.
    + intros -> L. rewrite kept_qs_unlimited in Har. destruct (trunc_form_over _ m L) as (E1 & E2).
      rewrite B, Har, E1, E2. auto.
Qed.

(* TC is set exactly when the response was over the limit (or the service set it) *)
Lemma tc_iff_gen fx fq eq rq hint m : mlen m <= 65535 ->
  tc_set (m_b2 (mandatory_post_gen fx fq eq true rq hint m)) = true <->
  (trunc_max_gen fx (is_some (rq_client rq)) hint < mlen m \/ tc_set (m_b2 m) = true).
Proof.
  intros H. destruct (udp_size_cases fx fq eq rq hint m H) as [(A & _ & T & _)|(A & _ & T & _)]; rewrite T.
  - split; [intros; right; assumption|intros [L|L]; [lia|assumption]].
  - split; [intros; left; assumption|reflexivity].
Qed.

(* whenever anything is dropped TC is set *)
Lemma dropped_implies_tc fx fq eq rq hint m : mlen m <= 65535 ->
  let r := mandatory_post_gen fx fq eq true rq hint m in
  (m_qs r <> m_qs m \/ m_an r <> m_an m \/ m_ns r <> m_ns m \/ m_ar r <> m_ar m) -> tc_set (m_b2 r) = true.
Proof.
  intros H. cbv zeta. intros D.
  destruct (udp_size_cases fx fq eq rq hint m H) as [(_ & _ & _ & A0 & A1 & A2 & A3)|(_ & _ & T & _)]; [|exact T].
  rewrite A0, A1, A2, A3 in D. tauto.
Qed.

(* ---- one well-formed question: the bound holds without proviso ---------------- *)

Definition wf_q (q : question) : Prop :=
  valid_abs (q_name q) /\ q_type q < 65536 /\ q_class q < 65536.

Lemma wire_q_len q : wf_q q -> len (wire_q q) <= 259.
Proof.
  intros ((_ & Hl) & _ & _). unfold wire_q. rewrite !len_app. unfold len at 1.
  rewrite wire_abs_length. cbn. lia.
Qed.

Lemma edns_post_qs b m : m_qs (edns_post b m) = m_qs m.
Proof.
  unfold edns_post. destruct b; cbn [negb]; [|reflexivity].
  destruct (first_opt (m_ar m)); [reflexivity|]. destruct (65535 <? mlen m + 11); reflexivity.
Qed.

Lemma filter_len ar : len (concat (map wire_rr (filter (fun r => negb (is_opt r)) ar)))
                      <= len (concat (map wire_rr ar)).
Proof.
  induction ar as [|r t IH]; [cbn; lia|]. cbn [filter].
  destruct (negb (is_opt r)); cbn [map concat]; rewrite ?len_app; lia.
Qed.

Lemma edns_post_len b m : mlen m <= 65535 -> mlen (edns_post b m) <= 65535.
Proof.
  intros H. unfold edns_post. destruct b; cbn [negb].
  - destruct (first_opt (m_ar m)); [exact H|].
    destruct (N.ltb_spec 65535 (mlen m + 11)); [exact H|].
    rewrite mlen_spec in *. cbn [m_qs m_an m_ns m_ar]. rewrite map_app, concat_app, len_app.
    cbn [map concat wire_rr]. rewrite app_nil_r. change (len (wire_opt empty_opt)) with 11. lia.
  - rewrite mlen_spec in *. cbn [m_qs m_an m_ns m_ar]. pose proof (filter_len (m_ar m)). lia.
Qed.

(* edns_post never makes a response with an OPT longer, and one without at most 11 longer *)
Lemma edns_post_le b m : mlen (edns_post b m) <= mlen m + 11.
Proof.
  unfold edns_post. destruct b; cbn [negb].
  - destruct (first_opt (m_ar m)); [lia|]. destruct (65535 <? mlen m + 11); [lia|].
    rewrite !mlen_spec. cbn [m_qs m_an m_ns m_ar]. rewrite map_app, concat_app, len_app.
    cbn [map concat wire_rr]. rewrite app_nil_r. change (len (wire_opt empty_opt)) with 11. lia.
  - rewrite !mlen_spec. cbn [m_qs m_an m_ns m_ar]. pose proof (filter_len (m_ar m)). lia.
Qed.

Lemma edns_post_le_opt b m o : first_opt (m_ar m) = Some o -> mlen (edns_post b m) <= mlen m.
Proof.
  intros E. unfold edns_post. destruct b; cbn [negb].
  - rewrite E. lia.
  - rewrite !mlen_spec. cbn [m_qs m_an m_ns m_ar]. pose proof (filter_len (m_ar m)). lia.
Qed.

Lemma trunc_max_ge fx b h : hint_ok h -> 512 <= trunc_max_gen fx b h.
Proof.
  intros H. unfold trunc_max_gen. cbv [min_resp_len]. destruct (fx && negb b); [lia|].
  destruct h; simpl in H; lia.
Qed.

Lemma hint_ok_after client hint h : hint_ok hint -> hint_after_edns client hint = Ok h -> hint_ok h.
Proof.
  intros Hk. rewrite hint_after_edns_spec. intros E; inversion E; subst.
  destruct client as [c|]; [|exact Hk]. destruct hint as [x|]; simpl in *; lia.
Qed.

(* the service path: the datagram never exceeds the negotiated limit when the
   response carries one well-formed question - or, with the limit-aware question
   loop, whatever it carries *)
Lemma udp_size_bound_service fx fq eq rq cfg m r :
  (fq = true \/ exists q, m_qs m = [q] /\ wf_q q) -> hint_ok cfg -> mlen m <= 65535 ->
  udp_response_gen fx fq eq rq cfg m = Ok r ->
  exists lim, udp_limit_gen fx (rq_client rq) cfg = Ok lim /\ mlen r <= lim.
Proof.
  intros Hq Hk Hl. unfold udp_response_gen, udp_limit_gen.
  destruct (hint_after_edns (rq_client rq) cfg) as [h| | |] eqn:E; try discriminate.
  cbn [bind]. intros R; inversion R; subst r; clear R.
  eexists; split; [reflexivity|].
  set (m' := edns_post (is_some (rq_client rq)) m).
  assert (Hl' : mlen m' <= 65535) by (apply edns_post_len; exact Hl).
  pose proof (trunc_max_ge fx (is_some (rq_client rq)) h (hint_ok_after _ _ _ Hk E)) as G.
  destruct (udp_size_bound_gen fx fq eq rq h m' Hl') as (B & _). apply B.
  destruct Hq as [->|(q & Hq & Hwf)]; [left; split; [reflexivity|lia]|right].
  subst m'. rewrite edns_post_qs, Hq. rewrite qs_len_cons, qs_len_nil.
  pose proof (wire_q_len q Hwf). lia.
Qed.

(* the fallback is live: a response with 604 octets of OPT options against a
   limit of 512 keeps an OPT without options *)
Definition big_opt_request : request := mk_request 4352 0 [3] 1 (Some 512).
Definition big_opt_response : msg := mk_response big_opt_request 128 0 2 100 0 11 (Some (1232, 604)).

Example big_opt_now_minimal :
  exists r, udp_response big_opt_request (Some 1232) big_opt_response = Ok r /\
    mlen r = 32 /\ tc_set (m_b2 r) = true /\ m_ar r = [RROpt (mkOpt 1232 0 [])].
Proof. eexists. split; [vm_compute; reflexivity|]. repeat split; vm_compute; reflexivity. Qed.

Example udp_response_ex :
  exists r, udp_response (mk_request 9 1 [7; 4] 16 (Some 4096)) (Some 1232)
              (mk_response (mk_request 9 1 [7; 4] 16 (Some 4096)) 133 0 1 1192 0 11 (Some (1232, 0))) = Ok r
            /\ mlen r = 41 /\ tc_set (m_b2 r) = true.
Proof. eexists. split; [vm_compute; reflexivity|]. split; vm_compute; reflexivity. Qed.

(* ---- id and question ---------------------------------------------------------- *)

(* the id is the request's; the questions are the response's, all of them when
   header + questions fit the limit, else a prefix *)
Lemma id_question_echoed fx fq eq rq cfg m r : mlen m <= 65535 ->
  udp_response_gen fx fq eq rq cfg m = Ok r ->
  m_id r = rq_id rq /\ (exists rest, m_qs m = m_qs r ++ rest) /\
  (fq = false -> m_qs r = m_qs m) /\
  (forall q, hint_ok cfg -> m_qs m = [q] -> wf_q q -> m_qs r = [q]).
Proof.
  intros H. unfold udp_response_gen. destruct (hint_after_edns (rq_client rq) cfg) as [h| | |] eqn:E; try discriminate.
  cbn [bind]. intros R; inversion R; subst r; clear R.
  set (m' := edns_post (is_some (rq_client rq)) m).
  assert (Hl' : mlen m' <= 65535) by (apply edns_post_len; exact H).
  destruct (mandatory_post_shape fx fq eq rq h m' Hl') as (A & _ & _).
  assert (Q : m_qs m' = m_qs m) by apply edns_post_qs.
  destruct (udp_size_cases fx fq eq rq h m' Hl') as [(_ & _ & _ & B & _)|(_ & _ & _ & B & _)]; rewrite B, Q.
  - split; [exact A|]. split; [exists []; rewrite app_nil_r; reflexivity|]. split; [reflexivity|]. intros q _ -> _. reflexivity.
  - split; [exact A|]. split; [apply kept_prefix|]. split.
    + intros ->. apply kept_qs_unlimited.
    + intros q Hk -> Hw. apply kept_qs_all. rewrite qs_len_cons, qs_len_nil.
      pose proof (wire_q_len q Hw). pose proof (trunc_max_ge fx (is_some (rq_client rq)) h (hint_ok_after _ _ _ Hk E)). lia.
Qed.

Lemma udp_response_total fx fq eq rq cfg m : exists r, udp_response_gen fx fq eq rq cfg m = Ok r.
Proof.
  unfold udp_response_gen. rewrite hint_after_edns_spec. cbn [bind]. eexists; reflexivity.
Qed.

(* ---- the truncated form parses ------------------------------------------------- *)

Definition wf_opt (o : optrec) : Prop :=
  o_size o < 65536 /\ o_ttl o < 4294967296 /\ len (o_data o) < 65536.

Definition wf_min (m : msg) : Prop :=
  m_id m < 65536 /\ Forall wf_q (m_qs m) /\ cnt (m_qs m) < 65536 /\
  m_an m = [] /\ m_ns m = [] /\
  (m_ar m = [] \/ exists o, m_ar m = [RROpt o] /\ wf_opt o).

Lemma parse_questions_wire qs rest : Forall wf_q qs ->
  parse_questions (length qs) (concat (map wire_q qs) ++ rest) = Some (qs, rest).
Proof.
  induction qs as [|q t IH]; intros Hf; [reflexivity|].
  inversion Hf as [|? ? (Hv & Ht & Hc) Hf']; subst.
  cbn [length parse_questions map concat]. unfold wire_q at 1.
  rewrite <- !app_assoc. rewrite decode_wire_abs by exact Hv.
  cbn [be16 app]. rewrite (IH Hf'). rewrite !be16_roundtrip by assumption.
  destruct q; reflexivity.
Qed.

Lemma parse_opt_wire o : wf_opt o -> parse_opt (wire_opt o) = Some (o, []).
Proof.
  intros (Hs & Ht & Hd). unfold wire_opt. cbn [be16 be32 app parse_opt].
  replace (of_be16 (41 / 256) (41 mod 256) =? 41) with true by reflexivity.
  rewrite be16_roundtrip by exact Hd. unfold len. rewrite Nat2N.id.
  rewrite Nat.ltb_irrefl. rewrite firstn_all, skipn_all.
  rewrite be16_roundtrip by exact Hs. rewrite be32_roundtrip by exact Ht.
  destruct o; reflexivity.
Qed.

Lemma parse_min_wire m : wf_min m -> m_b2 m = m_b2 m -> parse_min (wire_msg m) = Some m.
Proof.
  intros (Hid & Hq & Hc & Han & Hns & Har) _.
  destruct m as [id b2 b3 qs an ns ar]. cbn [m_id m_qs m_an m_ns m_ar] in *. subst an ns.
  unfold wire_msg, wire_header. cbn [m_id m_b2 m_b3 m_qs m_an m_ns m_ar concat].
  cbn [be16 app]. unfold parse_min. cbn [parse_header].
  rewrite (be16_roundtrip id Hid).
  change (cnt (@nil bytes)) with 0. change (of_be16 (0 / 256) (0 mod 256)) with 0.
  rewrite (be16_roundtrip (cnt qs) Hc).
  cbn [N.eqb andb]. unfold cnt at 1. rewrite Nat2N.id.
  destruct Har as [-> | (o & -> & Ho)].
  - cbn [map concat]. rewrite (parse_questions_wire qs [] Hq).
    change (cnt (@nil rr)) with 0. change (of_be16 (0 / 256) (0 mod 256)) with 0. reflexivity.
  - cbn [map concat wire_rr]. rewrite app_nil_r. rewrite (parse_questions_wire qs _ Hq).
    change (cnt [RROpt o]) with 1. change (of_be16 (1 / 256) (1 mod 256)) with 1.
    cbn [N.eqb Pos.eqb]. rewrite (parse_opt_wire o Ho). reflexivity.
Qed.

Definition wf_resp (m : msg) : Prop :=
  Forall wf_q (m_qs m) /\ cnt (m_qs m) < 65536 /\
  (forall o, first_opt (m_ar m) = Some o -> wf_opt o).

Lemma first_opt_in_wf (m : msg) o :
  (forall o', first_opt (m_ar m) = Some o' -> wf_opt o') -> first_opt (m_ar m) = Some o ->
  wf_opt o /\ wf_opt (min_opt o).
Proof.
  intros Ho E. pose proof (Ho o E) as (A & B & C). split; [repeat split; assumption|].
  unfold wf_opt, min_opt. cbn [o_size o_ttl o_data].
  split; [exact A|]. split; [clear -B; lia|reflexivity].
Qed.

(* TC set by truncation: the datagram is header + questions (+ OPT, possibly
   without its options) and parses back *)
Lemma truncated_wellformed_gen fx fq eq rq hint m : mlen m <= 65535 -> rq_id rq < 65536 -> wf_resp m ->
  let max := trunc_max_gen fx (is_some (rq_client rq)) hint in
  max < mlen m ->
  let r := mandatory_post_gen fx fq eq true rq hint m in
  tc_set (m_b2 r) = true /\ m_an r = [] /\ m_ns r = [] /\
  m_qs r = kept_qs fq max (m_qs m) /\ m_ar r = trunc_ar max (m_qs r) (m_ar m) /\
  parse_min (wire_msg r) = Some r.
Proof.
  intros H Hid (Hq & Hc & Ho). cbv zeta. intros L.
  destruct (udp_size_cases fx fq eq rq hint m H) as [(A & _)|(_ & _ & T & Hqs & Han & Hns & Har)]; [lia|].
  destruct (mandatory_post_shape fx fq eq rq hint m H) as (Hi & _).
  repeat split; try assumption; [rewrite Hqs; exact Har|].
  apply parse_min_wire; [|reflexivity].
  unfold wf_min. rewrite Hi, Hqs, Han, Hns, Har. repeat split; try assumption.
  - apply kept_forall. exact Hq.
  - pose proof (kept_cnt (qlim fq (trunc_max_gen fx (is_some (rq_client rq)) hint)) 12 (m_qs m)) as K.
    unfold kept_qs. lia.
  - pose proof (trunc_ar_cases fq (trunc_max_gen fx (is_some (rq_client rq)) hint) m) as C. cbv zeta in C.
    destruct C as [(E & _)|[(o & F & E & _)|(o & F & E & _)]]; rewrite E.
    + left; reflexivity.
    + right. exists o. split; [reflexivity|]. apply (first_opt_in_wf m o Ho F).
    + right. exists (min_opt o). split; [reflexivity|]. apply (first_opt_in_wf m o Ho F).
Qed.

Example parse_min_ex :
  parse_min (wire_msg (mkMsg 9 131 0 [mkQ [[97; 98]] 16 1] [] [] [RROpt (mkOpt 1232 0 [1; 2])]))
  = Some (mkMsg 9 131 0 [mkQ [[97; 98]] 16 1] [] [] [RROpt (mkOpt 1232 0 [1; 2])]).
Proof. reflexivity. Qed.
Example parse_min_rejects_answer :
  parse_min (wire_msg (mkMsg 9 131 0 [mkQ [[97]] 1 1] [[0; 0; 1; 0; 1; 0; 0; 0; 0; 0; 0]] [] [])) = None.
Proof. reflexivity. Qed.
