(* C16 proofs, part 2: truncation (mandatory.rs truncate / postprocess), the UDP
   size bound, TC, the truncated form parses, id and question. *)
From Coq Require Import NArith ZArith Arith List Bool Lia.
From Coq Require Import ZifyN ZifyBool ZifyNat.
From DV Require Import Base.Outcome Base.Bytes Base.Names C16.Gen C16.Model C16.ProofsNeg.
Import ListNotations.
Local Open Scope N_scope.
Ltac Zify.zify_post_hook ::= Z.div_mod_to_equations.

(* ---- lengths -------------------------------------------------------------- *)

Lemma len_app a b : len (a ++ b) = len a + len b.
Proof. unfold len. rewrite app_length. lia. Qed.

Lemma len_nil : len [] = 0. Proof. reflexivity. Qed.

Definition qs_len (qs : list question) : N := len (concat (map wire_q qs)).
Definition opt_len (o : optrec) : N := len (wire_opt o).

Lemma wire_header_len m : len (wire_header m) = 12.
Proof. reflexivity. Qed.

Lemma opt_len_spec o : opt_len o = 11 + len (o_data o).
Proof. unfold opt_len, wire_opt, len. rewrite !app_length. cbn [length be16 be32]. lia. Qed.

Lemma mlen_spec m :
  mlen m = 12 + qs_len (m_qs m) + len (concat (m_an m)) + len (concat (m_ns m))
           + len (concat (map wire_rr (m_ar m))).
Proof. unfold mlen, wire_msg, qs_len. rewrite !len_app, wire_header_len. lia. Qed.

Lemma first_opt_len ar o : first_opt ar = Some o ->
  opt_len o <= len (concat (map wire_rr ar)).
Proof.
  induction ar as [|r t IH]; [discriminate|].
  cbn [first_opt map concat]. rewrite len_app. destruct r as [o'|w].
  - intros E; inversion E; subst. cbn [wire_rr]. unfold opt_len. lia.
  - intros E. specialize (IH E). lia.
Qed.

(* ---- the truncated form ---------------------------------------------------- *)

Lemma min_opt_len o : opt_len (min_opt o) = 11.
Proof. rewrite opt_len_spec. reflexivity. Qed.

Lemma opt_len_ge o : 11 <= opt_len o.
Proof. rewrite opt_len_spec. lia. Qed.

(* what is left of the additional section, three ways: the response's OPT when
   header + questions + OPT fit the limit, else the OPT without options when
   that fits, else nothing *)
Definition trunc_ar (max : N) (m : msg) : list rr :=
  match first_opt (m_ar m) with
  | None => []
  | Some o =>
      if 12 + qs_len (m_qs m) + opt_len o <=? max then [RROpt o]
      else if 12 + qs_len (m_qs m) + 11 <=? max then [RROpt (min_opt o)]
      else []
  end.

(* header (TC set), the questions, the OPT as far as it fits *)
Definition trunc_form (max : N) (m : msg) : msg :=
  mkMsg (m_id m) (set_tc (m_b2 m)) (m_b3 m) (m_qs m) [] [] (trunc_ar max m).

Lemma mlen_base id b2 b3 qs : mlen (mkMsg id b2 b3 qs [] [] []) = 12 + qs_len qs.
Proof. rewrite mlen_spec. cbn [m_qs m_an m_ns m_ar map concat]. rewrite len_nil. lia. Qed.

Lemma mlen_with_opt id b2 b3 qs o :
  mlen (mkMsg id b2 b3 qs [] [] [RROpt o]) = 12 + qs_len qs + opt_len o.
Proof.
  rewrite mlen_spec. cbn [m_qs m_an m_ns m_ar map concat wire_rr]. rewrite app_nil_r, len_nil.
  unfold opt_len. lia.
Qed.

Lemma trunc_ar_cases max m :
  (trunc_ar max m = [] /\ mlen (trunc_form max m) = 12 + qs_len (m_qs m)) \/
  (exists o, first_opt (m_ar m) = Some o /\ trunc_ar max m = [RROpt o] /\
             mlen (trunc_form max m) = 12 + qs_len (m_qs m) + opt_len o /\
             12 + qs_len (m_qs m) + opt_len o <= max) \/
  (exists o, first_opt (m_ar m) = Some o /\ trunc_ar max m = [RROpt (min_opt o)] /\
             mlen (trunc_form max m) = 12 + qs_len (m_qs m) + 11 /\
             max < 12 + qs_len (m_qs m) + opt_len o /\ 12 + qs_len (m_qs m) + 11 <= max).
Proof.
  unfold trunc_form, trunc_ar. destruct (first_opt (m_ar m)) as [o|] eqn:E.
  - destruct (N.leb_spec (12 + qs_len (m_qs m) + opt_len o) max) as [A|A].
    + right; left. exists o. rewrite mlen_with_opt. auto.
    + destruct (N.leb_spec (12 + qs_len (m_qs m) + 11) max) as [B|B].
      * right; right. exists o. rewrite mlen_with_opt, min_opt_len. auto.
      * left. rewrite mlen_base. auto.
  - left. rewrite mlen_base. auto.
Qed.

Lemma trunc_form_le max m : mlen (trunc_form max m) <= mlen m.
Proof.
  rewrite (mlen_spec m).
  destruct (trunc_ar_cases max m) as [(_ & L)|[(o & E & _ & L & _)|(o & E & _ & L & _)]]; rewrite L;
    try (apply first_opt_len in E; pose proof (opt_len_ge o)); lia.
Qed.

(* the only way the truncated form can exceed the limit: header + questions alone do *)
Lemma trunc_form_fits max m : 12 + qs_len (m_qs m) <= max -> mlen (trunc_form max m) <= max.
Proof.
  intros H. destruct (trunc_ar_cases max m) as [(_ & L)|[(o & _ & _ & L & F)|(o & _ & _ & L & _ & F)]]; lia.
Qed.

Lemma trunc_form_over max m : max < 12 + qs_len (m_qs m) ->
  trunc_ar max m = [] /\ mlen (trunc_form max m) = 12 + qs_len (m_qs m).
Proof.
  intros H. destruct (trunc_ar_cases max m) as [A|[(o & _ & _ & _ & F)|(o & _ & _ & _ & _ & F)]]; [exact A|lia|lia].
Qed.

(* rebuild never fails on a message that exists (at most 65535 octets) and
   yields the three-way truncated form *)
Lemma rebuild_spec max m : mlen m <= 65535 ->
  rebuild (rebuild_limit max)
    (mkMsg (m_id m) (set_tc (m_b2 m)) (m_b3 m) (m_qs m) (m_an m) (m_ns m) (m_ar m))
  = Ok (trunc_form max m).
Proof.
  intros H. rewrite (mlen_spec m) in H.
  unfold rebuild, rebuild_limit, trunc_form, trunc_ar, push_fails, limit_hit.
  cbv [trunc_rebuild_has_push_limit trunc_rebuild_limit_slack push_limit_cmp_is_ge]. cbv zeta.
  cbn [m_id m_b2 m_b3 m_qs m_ar]. rewrite mlen_base.
  destruct (N.ltb_spec 65535 (12 + qs_len (m_qs m))) as [L|L]; [lia|].
  destruct (first_opt (m_ar m)) as [o|] eqn:E; [|reflexivity].
  apply first_opt_len in E. pose proof (opt_len_ge o) as G.
  rewrite !mlen_with_opt, min_opt_len.
  destruct (N.ltb_spec 65535 (12 + qs_len (m_qs m) + opt_len o)); [lia|].
  destruct (N.ltb_spec 65535 (12 + qs_len (m_qs m) + 11)); [lia|]. cbn [orb].
  destruct (N.leb_spec (max + 1) (12 + qs_len (m_qs m) + opt_len o));
    destruct (N.leb_spec (12 + qs_len (m_qs m) + opt_len o) max); try lia; [|reflexivity].
  destruct (N.leb_spec (max + 1) (12 + qs_len (m_qs m) + 11));
    destruct (N.leb_spec (12 + qs_len (m_qs m) + 11) max); try lia; reflexivity.
Qed.

Lemma truncate_spec fx has_opt hint m : mlen m <= 65535 ->
  truncate_gen fx true has_opt hint m =
  Ok (if trunc_max_gen fx has_opt hint <? mlen m
      then trunc_form (trunc_max_gen fx has_opt hint) m else m).
Proof.
  intros H. unfold truncate_gen, over_limit. cbv [trunc_cmp_is_gt].
  destruct (N.ltb_spec (trunc_max_gen fx has_opt hint) (mlen m)); [|reflexivity].
  apply rebuild_spec; exact H.
Qed.

Lemma truncate_non_udp fx has_opt hint m : truncate_gen fx false has_opt hint m = Ok m.
Proof. reflexivity. Qed.

(* ---- the size bound --------------------------------------------------------- *)

(* postprocess does not change lengths or sections *)
Lemma mandatory_post_shape fx rq hint m : mlen m <= 65535 ->
  let max := trunc_max_gen fx (is_some (rq_client rq)) hint in
  let m1 := if max <? mlen m then trunc_form max m else m in
  let r := mandatory_post_gen fx true rq hint m in
  m_id r = rq_id rq /\ m_b3 r = m_b3 m1 /\ m_qs r = m_qs m /\ m_an r = m_an m1 /\
  m_ns r = m_ns m1 /\ m_ar r = m_ar m1 /\ mlen r = mlen m1 /\
  tc_set (m_b2 r) = tc_set (m_b2 m1).
Proof.
  intros H. cbv zeta. unfold mandatory_post_gen. rewrite truncate_spec by exact H.
  set (m1 := if _ <? _ then _ else _).
  cbn [m_id m_b3 m_qs m_an m_ns m_ar m_b2].
  assert (Hq : m_qs m1 = m_qs m) by (subst m1; destruct (_ <? _); reflexivity).
  repeat split; try assumption.
  unfold tc_set, set_bit_to. cbv [tc_bit].
  destruct (N.testbit (rq_b2 rq) 0).
  - rewrite N.setbit_neq by discriminate. rewrite N.setbit_neq by discriminate. reflexivity.
  - rewrite N.clearbit_neq by discriminate. rewrite N.setbit_neq by discriminate. reflexivity.
Qed.

(* not truncated: within the limit.  truncated: header + questions + what
   trunc_ar leaves of the OPT (see trunc_ar_cases for the three ways) *)
Lemma udp_size_cases fx rq hint m : mlen m <= 65535 ->
  let max := trunc_max_gen fx (is_some (rq_client rq)) hint in
  let r := mandatory_post_gen fx true rq hint m in
  (mlen m <= max /\ mlen r = mlen m /\ tc_set (m_b2 r) = tc_set (m_b2 m) /\
   m_an r = m_an m /\ m_ns r = m_ns m /\ m_ar r = m_ar m) \/
  (max < mlen m /\ mlen r = mlen (trunc_form max m) /\ tc_set (m_b2 r) = true /\
   m_an r = [] /\ m_ns r = [] /\ m_ar r = trunc_ar max m).
Proof.
  intros H. cbv zeta.
  destruct (mandatory_post_shape fx rq hint m H) as (_ & _ & _ & Han & Hns & Har & Hl & Htc).
  destruct (N.ltb_spec (trunc_max_gen fx (is_some (rq_client rq)) hint) (mlen m)) as [L|L].
  - right. repeat split; try assumption.
    rewrite Htc. unfold trunc_form, tc_set, set_tc. cbn [m_b2]. apply N.setbit_eq.
  - left. repeat split; assumption.
Qed.

(* the response fits the limit unless header + questions alone exceed it; in that
   case it is exactly header + questions, TC set, no OPT *)
Lemma udp_size_bound_gen fx rq hint m : mlen m <= 65535 ->
  let max := trunc_max_gen fx (is_some (rq_client rq)) hint in
  let r := mandatory_post_gen fx true rq hint m in
  (12 + qs_len (m_qs m) <= max -> mlen r <= max) /\
  (max < 12 + qs_len (m_qs m) ->
     mlen r = 12 + qs_len (m_qs m) /\ tc_set (m_b2 r) = true /\ m_an r = [] /\ m_ns r = [] /\ m_ar r = []).
Proof.
  intros H. cbv zeta.
  destruct (udp_size_cases fx rq hint m H) as [(A & B & _)|(A & B & T & Han & Hns & Har)].
  - split; [lia|]. intros L. rewrite mlen_spec in A. lia.
  - split.
    + intros L. rewrite B. apply trunc_form_fits. exact L.
    + intros L. destruct (trunc_form_over _ m L) as (E1 & E2). rewrite B, Har, E1, E2. auto.
Qed.

(* TC is set exactly when the response was over the limit (or the service set it) *)
Lemma tc_iff_gen fx rq hint m : mlen m <= 65535 ->
  tc_set (m_b2 (mandatory_post_gen fx true rq hint m)) = true <->
  (trunc_max_gen fx (is_some (rq_client rq)) hint < mlen m \/ tc_set (m_b2 m) = true).
Proof.
  intros H. destruct (udp_size_cases fx rq hint m H) as [(A & _ & T & _)|(A & _ & T & _)]; rewrite T.
  - split; [intros; right; assumption|intros [L|L]; [lia|assumption]].
  - split; [intros; left; assumption|reflexivity].
Qed.

(* whenever records are dropped TC is set *)
Lemma dropped_implies_tc fx rq hint m : mlen m <= 65535 ->
  let r := mandatory_post_gen fx true rq hint m in
  (m_an r <> m_an m \/ m_ns r <> m_ns m \/ m_ar r <> m_ar m) -> tc_set (m_b2 r) = true.
Proof.
  intros H. cbv zeta. intros D.
  destruct (udp_size_cases fx rq hint m H) as [(_ & _ & _ & A1 & A2 & A3)|(_ & _ & T & _)]; [|exact T].
  rewrite A1, A2, A3 in D. tauto.
Qed.

(* ---- one well-formed question: the bound holds without proviso ---------------- *)

Definition wf_q (q : question) : Prop :=
  valid_abs (q_name q) /\ q_type q < 65536 /\ q_class q < 65536.

Lemma wire_q_len q : wf_q q -> len (wire_q q) <= 259.
Proof.
  intros ((_ & Hl) & _ & _). unfold wire_q. rewrite !len_app. unfold len at 1.
  rewrite wire_abs_length. cbn. lia.
Qed.

Lemma edns_post_qs b m : m_qs (edns_post b m) = m_qs m.
Proof.
  unfold edns_post. destruct b; cbn [negb]; [|reflexivity].
  destruct (first_opt (m_ar m)); [reflexivity|]. destruct (65535 <? mlen m + 11); reflexivity.
Qed.

Lemma filter_len ar : len (concat (map wire_rr (filter (fun r => negb (is_opt r)) ar)))
                      <= len (concat (map wire_rr ar)).
Proof.
  induction ar as [|r t IH]; [cbn; lia|]. cbn [filter].
  destruct (negb (is_opt r)); cbn [map concat]; rewrite ?len_app; lia.
Qed.

Lemma edns_post_len b m : mlen m <= 65535 -> mlen (edns_post b m) <= 65535.
Proof.
  intros H. unfold edns_post. destruct b; cbn [negb].
  - destruct (first_opt (m_ar m)); [exact H|].
    destruct (N.ltb_spec 65535 (mlen m + 11)); [exact H|].
    rewrite mlen_spec in *. cbn [m_qs m_an m_ns m_ar]. rewrite map_app, concat_app, len_app.
    cbn [map concat wire_rr]. rewrite app_nil_r. change (len (wire_opt empty_opt)) with 11. lia.
  - rewrite mlen_spec in *. cbn [m_qs m_an m_ns m_ar]. pose proof (filter_len (m_ar m)). lia.
Qed.

Lemma trunc_max_ge fx b h : hint_ok h -> 512 <= trunc_max_gen fx b h.
Proof.
  intros H. unfold trunc_max_gen. cbv [min_resp_len]. destruct (fx && negb b); [lia|].
  destruct h; simpl in H; lia.
Qed.

Lemma hint_ok_after client hint h : hint_ok hint -> hint_after_edns client hint = Ok h -> hint_ok h.
Proof.
  intros Hk. rewrite hint_after_edns_spec. intros E; inversion E; subst.
  destruct client as [c|]; [|exact Hk]. destruct hint as [x|]; simpl in *; lia.
Qed.

(* the whole UDP path: the datagram never exceeds the negotiated limit when the
   response carries one well-formed question, with or without EDNS, whatever the
   service produced (large OPT included) *)
Lemma udp_size_bound_one_question fx rq cfg m r q :
  m_qs m = [q] -> wf_q q -> hint_ok cfg -> mlen m <= 65535 ->
  udp_response_gen fx rq cfg m = Ok r ->
  exists lim, udp_limit_gen fx (rq_client rq) cfg = Ok lim /\ mlen r <= lim.
Proof.
  intros Hq Hwf Hk Hl. unfold udp_response_gen, udp_limit_gen.
  destruct (hint_after_edns (rq_client rq) cfg) as [h| | |] eqn:E; try discriminate.
  cbn [bind]. intros R; inversion R; subst r; clear R.
  eexists; split; [reflexivity|].
  set (m' := edns_post (is_some (rq_client rq)) m).
  assert (Hl' : mlen m' <= 65535) by (apply edns_post_len; exact Hl).
  destruct (udp_size_bound_gen fx rq h m' Hl') as (B & _). apply B.
  subst m'. rewrite edns_post_qs, Hq. unfold qs_len. cbn [map concat]. rewrite app_nil_r.
  pose proof (wire_q_len q Hwf). pose proof (trunc_max_ge fx (is_some (rq_client rq)) h (hint_ok_after _ _ _ Hk E)). lia.
Qed.

(* the fallback is live: the response that used to leave as 636 octets against
   a limit of 512 now keeps an OPT without options *)
Definition big_opt_request : request := mk_request 4352 0 [3] 1 (Some 512).
Definition big_opt_response : msg := mk_response big_opt_request 128 0 2 100 0 11 (Some (1232, 604)).

Example big_opt_now_minimal :
  exists r, udp_response big_opt_request (Some 1232) big_opt_response = Ok r /\
    mlen r = 32 /\ tc_set (m_b2 r) = true /\ m_ar r = [RROpt (mkOpt 1232 0 [])].
Proof. eexists. split; [vm_compute; reflexivity|]. repeat split; vm_compute; reflexivity. Qed.

(* what remains: header + questions alone over the limit (a response echoing
   very many questions); nothing can be dropped from it *)
Definition many_q_request : request := mkReq 7 0 (repeat (mkQ [[97]] 1 1) 100) None.
Definition many_q_response : msg := mkMsg 7 128 1 (repeat (mkQ [[97]] 1 1) 100) [] [] [].

Lemma udp_size_bound_proviso_needed :
  exists rq cfg m r, mlen m <= 65535 /\ udp_response rq cfg m = Ok r /\
    udp_limit (rq_client rq) cfg = Ok 512 /\ tc_set (m_b2 r) = true /\ mlen r = 712.
Proof.
  exists many_q_request, None, many_q_response.
  eexists. split; [vm_compute; discriminate|]. split; [vm_compute; reflexivity|].
  split; [reflexivity|]. split; vm_compute; reflexivity.
Qed.

Example udp_response_ex :
  exists r, udp_response (mk_request 9 1 [7; 4] 16 (Some 4096)) (Some 1232)
              (mk_response (mk_request 9 1 [7; 4] 16 (Some 4096)) 133 0 1 1192 0 11 (Some (1232, 0))) = Ok r
            /\ mlen r = 41 /\ tc_set (m_b2 r) = true.
Proof. eexists. split; [vm_compute; reflexivity|]. split; vm_compute; reflexivity. Qed.

(* ---- id and question ---------------------------------------------------------- *)

Lemma id_question_echoed fx rq cfg m r : mlen m <= 65535 ->
  udp_response_gen fx rq cfg m = Ok r -> m_id r = rq_id rq /\ m_qs r = m_qs m.
Proof.
  intros H. unfold udp_response_gen. destruct (hint_after_edns (rq_client rq) cfg) as [h| | |]; try discriminate.
  cbn [bind]. intros E; inversion E; subst r; clear E.
  destruct (mandatory_post_shape fx rq h (edns_post (is_some (rq_client rq)) m)
              (edns_post_len _ m H)) as (A & _ & B & _).
  split; [exact A|]. rewrite B. apply edns_post_qs.
Qed.

Lemma udp_response_total fx rq cfg m : exists r, udp_response_gen fx rq cfg m = Ok r.
Proof.
  unfold udp_response_gen. rewrite hint_after_edns_spec. cbn [bind]. eexists; reflexivity.
Qed.

(* ---- the truncated form parses ------------------------------------------------- *)

Definition wf_opt (o : optrec) : Prop :=
  o_size o < 65536 /\ o_ttl o < 4294967296 /\ len (o_data o) < 65536.

Definition wf_min (m : msg) : Prop :=
  m_id m < 65536 /\ Forall wf_q (m_qs m) /\ cnt (m_qs m) < 65536 /\
  m_an m = [] /\ m_ns m = [] /\
  (m_ar m = [] \/ exists o, m_ar m = [RROpt o] /\ wf_opt o).

Lemma parse_questions_wire qs rest : Forall wf_q qs ->
  parse_questions (length qs) (concat (map wire_q qs) ++ rest) = Some (qs, rest).
Proof.
  induction qs as [|q t IH]; intros Hf; [reflexivity|].
  inversion Hf as [|? ? (Hv & Ht & Hc) Hf']; subst.
  cbn [length parse_questions map concat]. unfold wire_q at 1.
  rewrite <- !app_assoc. rewrite decode_wire_abs by exact Hv.
  cbn [be16 app]. rewrite (IH Hf'). rewrite !be16_roundtrip by assumption.
  destruct q; reflexivity.
Qed.

Lemma parse_opt_wire o : wf_opt o -> parse_opt (wire_opt o) = Some (o, []).
Proof.
  intros (Hs & Ht & Hd). unfold wire_opt. cbn [be16 be32 app parse_opt].
  replace (of_be16 (41 / 256) (41 mod 256) =? 41) with true by reflexivity.
  rewrite be16_roundtrip by exact Hd. unfold len. rewrite Nat2N.id.
  rewrite Nat.ltb_irrefl. rewrite firstn_all, skipn_all.
  rewrite be16_roundtrip by exact Hs. rewrite be32_roundtrip by exact Ht.
  destruct o; reflexivity.
Qed.

Lemma parse_min_wire m : wf_min m -> m_b2 m = m_b2 m -> parse_min (wire_msg m) = Some m.
Proof.
  intros (Hid & Hq & Hc & Han & Hns & Har) _.
  destruct m as [id b2 b3 qs an ns ar]. cbn [m_id m_qs m_an m_ns m_ar] in *. subst an ns.
  unfold wire_msg, wire_header. cbn [m_id m_b2 m_b3 m_qs m_an m_ns m_ar concat].
  cbn [be16 app]. unfold parse_min. cbn [parse_header].
  rewrite (be16_roundtrip id Hid).
  change (cnt (@nil bytes)) with 0. change (of_be16 (0 / 256) (0 mod 256)) with 0.
  rewrite (be16_roundtrip (cnt qs) Hc).
  cbn [N.eqb andb]. unfold cnt at 1. rewrite Nat2N.id.
  destruct Har as [-> | (o & -> & Ho)].
  - cbn [map concat]. rewrite (parse_questions_wire qs [] Hq).
    change (cnt (@nil rr)) with 0. change (of_be16 (0 / 256) (0 mod 256)) with 0. reflexivity.
  - cbn [map concat wire_rr]. rewrite app_nil_r. rewrite (parse_questions_wire qs _ Hq).
    change (cnt [RROpt o]) with 1. change (of_be16 (1 / 256) (1 mod 256)) with 1.
    cbn [N.eqb Pos.eqb]. rewrite (parse_opt_wire o Ho). reflexivity.
Qed.

Definition wf_resp (m : msg) : Prop :=
  Forall wf_q (m_qs m) /\ cnt (m_qs m) < 65536 /\
  (forall o, first_opt (m_ar m) = Some o -> wf_opt o).

Lemma first_opt_in_wf (m : msg) o :
  (forall o', first_opt (m_ar m) = Some o' -> wf_opt o') -> first_opt (m_ar m) = Some o ->
  wf_opt o /\ wf_opt (min_opt o).
Proof.
  intros Ho E. pose proof (Ho o E) as (A & B & C). split; [repeat split; assumption|].
  unfold wf_opt, min_opt. cbn [o_size o_ttl o_data].
  split; [exact A|]. split; [clear -B; lia|reflexivity].
Qed.

(* TC set by truncation: the datagram is header + questions (+ OPT, possibly
   without its options) and parses back *)
Lemma truncated_wellformed_gen fx rq hint m : mlen m <= 65535 -> rq_id rq < 65536 -> wf_resp m ->
  let max := trunc_max_gen fx (is_some (rq_client rq)) hint in
  max < mlen m ->
  let r := mandatory_post_gen fx true rq hint m in
  tc_set (m_b2 r) = true /\ m_an r = [] /\ m_ns r = [] /\ m_ar r = trunc_ar max m /\
  m_qs r = m_qs m /\ parse_min (wire_msg r) = Some r.
Proof.
  intros H Hid (Hq & Hc & Ho). cbv zeta. intros L.
  destruct (udp_size_cases fx rq hint m H) as [(A & _)|(_ & _ & T & Han & Hns & Har)]; [lia|].
  destruct (mandatory_post_shape fx rq hint m H) as (Hi & _ & Hqs & _).
  repeat split; try assumption.
  apply parse_min_wire; [|reflexivity].
  unfold wf_min. rewrite Hi, Hqs, Han, Hns, Har. repeat split; try assumption.
  destruct (trunc_ar_cases (trunc_max_gen fx (is_some (rq_client rq)) hint) m)
    as [(E & _)|[(o & F & E & _)|(o & F & E & _)]]; rewrite E.
  - left; reflexivity.
  - right. exists o. split; [reflexivity|]. apply (first_opt_in_wf m o Ho F).
  - right. exists (min_opt o). split; [reflexivity|]. apply (first_opt_in_wf m o Ho F).
Qed.

Example parse_min_ex :
  parse_min (wire_msg (mkMsg 9 131 0 [mkQ [[97; 98]] 16 1] [] [] [RROpt (mkOpt 1232 0 [1; 2])]))
  = Some (mkMsg 9 131 0 [mkQ [[97; 98]] 16 1] [] [] [RROpt (mkOpt 1232 0 [1; 2])]).
Proof. reflexivity. Qed.
Example parse_min_rejects_answer :
  parse_min (wire_msg (mkMsg 9 131 0 [mkQ [[97]] 1 1] [[0; 0; 1; 0; 1; 0; 0; 0; 0; 0; 0]] [] [])) = None.
Proof. reflexivity. Qed.
