(* C16 proofs, part 1: the size negotiation, the limit enforced on UDP, the
   configured limit, the builder's push limit. *)
From Coq Require Import NArith ZArith Arith List Bool Lia.
From Coq Require Import ZifyN ZifyBool ZifyNat.
From DV Require Import Base.Outcome Base.Bytes Base.Names C16.Gen C16.Model.
Import ListNotations.
Local Open Scope N_scope.
Ltac Zify.zify_post_hook ::= Z.div_mod_to_equations.

Ltac unfold_gen :=
  cbv [neg_client_is_max neg_clamp_lo_is_min_resp_len neg_clamp_hi_is_client
       neg_combine_is_min min_resp_len push_limit_cmp_is_ge trunc_cmp_is_gt
       cfg_min cfg_max cfg_default].

(* ---- negotiate ---------------------------------------------------------- *)

Lemma clamp_client_spec c : clamp_client c = N.max c 512.
Proof. unfold clamp_client. unfold_gen. lia. Qed.

(* the clamp's bounds are always ordered: its assert! cannot fire *)
Lemma negotiate_clamp_ordered c : min_resp_len <= clamp_client c.
Proof. rewrite clamp_client_spec. unfold_gen. lia. Qed.

Lemma negotiate_spec c h :
  negotiate c (Some h) = Ok (N.min (N.max c 512) (N.max h 512)).
Proof.
  unfold negotiate, u16_clamp. rewrite clamp_client_spec. unfold_gen. cbv [bind].
  destruct (N.ltb_spec (N.max c 512) 512) as [H|H]; [lia|].
  cbv [bind]. f_equal.
  destruct (N.ltb_spec h 512); [lia|].
  destruct (N.ltb_spec (N.max c 512) h); lia.
Qed.

Lemma negotiate_spec_none c : negotiate c None = Ok (N.max c 512).
Proof. unfold negotiate. rewrite clamp_client_spec. reflexivity. Qed.

Lemma negotiate_no_panic c h : no_panic (negotiate c h).
Proof. destruct h; [rewrite negotiate_spec|rewrite negotiate_spec_none]; exact I. Qed.

Example negotiate_ex1 : negotiate 4096 (Some 1232) = Ok 1232. Proof. reflexivity. Qed.
Example negotiate_ex2 : negotiate 100 (Some 1232) = Ok 512. Proof. reflexivity. Qed.
Example negotiate_ex3 : negotiate 65535 (Some 511) = Ok 512. Proof. reflexivity. Qed.
Example negotiate_ex4 : negotiate 700 None = Ok 700. Proof. reflexivity. Qed.
(* the Panic site is real in the model: a clamp with swapped bounds panics *)
Example clamp_panics : u16_clamp 5 10 9 = Panic 1. Proof. reflexivity. Qed.

Lemma negotiate_bounds c h n : negotiate c h = Ok n -> 512 <= n /\ n <= N.max c 512.
Proof.
  destruct h; [rewrite negotiate_spec|rewrite negotiate_spec_none]; intros E; inversion E; lia.
Qed.

(* ---- the hint after the EDNS middleware, the limit used by truncate ------ *)

Lemma hint_after_edns_spec client hint :
  hint_after_edns client hint =
  Ok (match client with
      | None => hint
      | Some c => Some (match hint with
                        | Some h => N.min (N.max c 512) (N.max h 512)
                        | None => N.max c 512
                        end)
      end).
Proof.
  unfold hint_after_edns. destruct client as [c|]; [|reflexivity].
  destruct hint as [h|]; [rewrite negotiate_spec|rewrite negotiate_spec_none]; reflexivity.
Qed.

Lemma udp_limit_gen_spec fx client hint :
  udp_limit_gen fx client hint =
  Ok (match client with
      | Some c => match hint with
                  | Some h => N.min (N.max c 512) (N.max h 512)
                  | None => N.max c 512
                  end
      | None => if fx then 512 else match hint with Some h => h | None => 512 end
      end).
Proof.
  unfold udp_limit_gen. rewrite hint_after_edns_spec. cbv [bind].
  unfold trunc_max_gen, is_some. unfold_gen.
  destruct client; [rewrite andb_false_r; reflexivity|].
  rewrite andb_true_r. destruct fx; reflexivity.
Qed.

Definition hint_ok (hint : option N) : Prop :=
  match hint with Some h => 512 <= h | None => True end.

(* with an OPT record in the request the enforced limit is the property text's *)
Lemma limit_with_edns fx c hint : hint_ok hint ->
  udp_limit_gen fx (Some c) hint = Ok (text_limit (Some c) hint).
Proof.
  intros H. rewrite udp_limit_gen_spec. unfold text_limit. destruct hint as [h|]; [|reflexivity].
  simpl in H. f_equal. lia.
Qed.

(* once truncate holds requests without OPT to 512 the limit is the text's for every request *)
Lemma limit_is_text_when_fixed client hint : hint_ok hint ->
  udp_limit_gen true client hint = Ok (text_limit client hint).
Proof.
  intros H. destruct client as [c|]; [apply limit_with_edns; exact H|].
  rewrite udp_limit_gen_spec. reflexivity.
Qed.

(* the code before fix 2e0728b (flag false; kept as a statement about that variant of the
   model): a request without EDNS was held to the configured limit, not to 512 *)
Lemma limit_no_edns_unfixed h : udp_limit_gen false None (Some h) = Ok h.
Proof. rewrite udp_limit_gen_spec. reflexivity. Qed.

Lemma limit_no_edns_refuted_gen :
  exists h, cfg_min <= h <= cfg_max /\ udp_limit_gen false None (Some h) = Ok h /\
            text_limit None (Some h) < h.
Proof. exists cfg_default. unfold_gen. repeat split; try lia. Qed.

(* a hint below 512 (not reachable through dgram::Config) is raised to 512 *)
Lemma limit_small_hint_refuted :
  exists c h, udp_limit (Some c) (Some h) = Ok 512 /\ text_limit (Some c) (Some h) < 512.
Proof. exists 4096, 100. split; [reflexivity|]. vm_compute. reflexivity. Qed.

Example limit_ex1 : udp_limit (Some 4096) (Some 1232) = Ok 1232. Proof. reflexivity. Qed.
Example limit_ex2 : udp_limit_gen true None (Some 1232) = Ok 512. Proof. reflexivity. Qed.
Example limit_ex3 : udp_limit_gen false None (Some 1232) = Ok 1232. Proof. reflexivity. Qed.

(* ---- dgram::Config keeps the configured limit inside [512, 4096] -------- *)
Lemma cfg_hint_ok v : hint_ok (cfg_hint v).
Proof. destruct v as [x|]; simpl; [|exact I]. unfold cfg_limit. unfold_gen. lia. Qed.

Lemma cfg_hint_range v h : cfg_hint v = Some h -> cfg_min <= h <= cfg_max.
Proof.
  destruct v as [x|]; simpl; [|discriminate]. intros E; inversion E.
  unfold cfg_limit. unfold_gen. lia.
Qed.
Example cfg_ex : cfg_hint (Some 100) = Some 512 /\ cfg_hint (Some 65535) = Some 4096. Proof. split; reflexivity. Qed.

(* ---- push limit ----------------------------------------------------------- *)

(* a push succeeds iff the new length stays strictly below the limit *)
Lemma push_limited_ok l pos add p :
  push_limited (Some l) pos add = Ok p <-> p = pos + add /\ pos + add < l /\ pos + add <= 65535.
Proof.
  unfold push_limited, limit_hit. unfold_gen.
  destruct (N.ltb_spec 65535 (pos + add)).
  - split; [discriminate|lia].
  - destruct (N.leb_spec l (pos + add)).
    + split; [discriminate|lia].
    + split; [intros E; inversion E; lia|intros (-> & _ & _); reflexivity].
Qed.

(* a message of exactly `limit` octets cannot be produced by a push *)
Lemma push_exactly_limit_fails pos add : pos + add <= 65535 ->
  push_limited (Some (pos + add)) pos add = Err 2.
Proof.
  intros H. unfold push_limited, limit_hit. unfold_gen.
  destruct (N.ltb_spec 65535 (pos + add)); [lia|].
  destruct (N.leb_spec (pos + add) (pos + add)); [reflexivity|lia].
Qed.

Lemma push_script_bound l adds : forall pos, pos < l ->
  snd (push_script (Some l) pos adds) < l.
Proof.
  induction adds as [|a rest IH]; intros pos H; [exact H|].
  cbn [push_script].
  destruct (push_limited (Some l) pos a) as [p| | |] eqn:E.
  - apply push_limited_ok in E. destruct E as (-> & Hl & _).
    specialize (IH (pos + a) Hl). destruct (push_script (Some l) (pos + a) rest). exact IH.
  - specialize (IH pos H). destruct (push_script (Some l) pos rest). exact IH.
  - specialize (IH pos H). destruct (push_script (Some l) pos rest). exact IH.
  - specialize (IH pos H). destruct (push_script (Some l) pos rest). exact IH.
Qed.

Lemma push_script_monotone l adds : forall pos, pos <= snd (push_script l pos adds).
Proof.
  induction adds as [|a rest IH]; intros pos; [cbn; lia|].
  cbn [push_script].
  destruct (push_limited l pos a) as [p| | |] eqn:E.
  - assert (pos <= p).
    { unfold push_limited in E. destruct (65535 <? pos + a); [discriminate|].
      destruct l as [l|]; [destruct (limit_hit l (pos + a)); [discriminate|]|]; inversion E; lia. }
    specialize (IH p). destruct (push_script l p rest). simpl in *. lia.
  - specialize (IH pos). destruct (push_script l pos rest). exact IH.
  - specialize (IH pos). destruct (push_script l pos rest). exact IH.
  - specialize (IH pos). destruct (push_script l pos rest). exact IH.
Qed.

Example push_ex1 : push_script (Some 25) 12 [12; 13; 1] = ([Ok 24; Err 2; Err 2], 24). Proof. reflexivity. Qed.
Example push_ex2 : push_limited (Some 25) 12 12 = Ok 24 /\ push_limited (Some 25) 12 13 = Err 2. Proof. split; reflexivity. Qed.
Example push_ex3 : push_limited None 65530 6 = Err 1. Proof. reflexivity. Qed.
