(* C16 proofs, part 3: stream framing.  Write side (StreamTarget shim), read
   side (DnsMessageReceiver::recv + process_read_request as a byte machine),
   independence of chunking, agreement with the declarative split of the byte
   stream, round trip. *)
From Coq Require Import NArith ZArith Arith List Bool Lia.
From Coq Require Import ZifyN ZifyBool ZifyNat.
From DV Require Import Base.Outcome Base.Bytes Base.Names C16.Gen C16.Model.
Import ListNotations.
Local Open Scope N_scope.
Ltac Zify.zify_post_hook ::= Z.div_mod_to_equations.

(* ---- write side ------------------------------------------------------------ *)

Lemma frame_out_spec m : len m <= 65535 ->
  frame_out m = Ok ([len m / 256; len m mod 256] ++ m).
Proof. intros H. unfold frame_out. destruct (N.ltb_spec 65535 (len m)); [lia|reflexivity]. Qed.

Lemma frame_out_too_long m : 65535 < len m -> frame_out m = Err 1.
Proof. intros H. unfold frame_out. destruct (N.ltb_spec 65535 (len m)); [reflexivity|lia]. Qed.

(* the two octets are the big-endian length of what follows, the rest is the message *)
Lemma framing_exact m f : frame_out m = Ok f ->
  exists h l, f = h :: l :: m /\ h < 256 /\ l < 256 /\ of_be16 h l = len m /\
              len f = len m + 2.
Proof.
  unfold frame_out. destruct (N.ltb_spec 65535 (len m)) as [L|L]; [discriminate|].
  intros E; inversion E; subst f. exists (len m / 256), (len m mod 256).
  unfold of_be16, len in *. cbn [be16 app length]. repeat split; lia.
Qed.

Example frame_ex : frame_out [7; 8; 9] = Ok [0; 3; 7; 8; 9]. Proof. reflexivity. Qed.

(* ---- read side: chunking does not matter ------------------------------------- *)

Lemma conn_bytes_app st a b :
  conn_bytes st (a ++ b) =
  let '(st1, e1) := conn_bytes st a in
  let '(st2, e2) := conn_bytes st1 b in (st2, e1 ++ e2).
Proof.
  revert st; induction a as [|x a IH]; intros st.
  - cbn [app conn_bytes]. destruct (conn_bytes st b). reflexivity.
  - cbn [app conn_bytes]. destruct (conn_byte st x) as [s1 ev1]. rewrite IH.
    destruct (conn_bytes s1 a) as [s2 ev2]. destruct (conn_bytes s2 b) as [s3 ev3].
    rewrite app_assoc. reflexivity.
Qed.

Lemma conn_chunks_concat chunks : forall st,
  conn_chunks st chunks = conn_bytes st (concat chunks).
Proof.
  induction chunks as [|c t IH]; intros st; [reflexivity|].
  cbn [conn_chunks concat]. rewrite conn_bytes_app.
  destruct (conn_bytes st c) as [s1 e1]. rewrite IH. reflexivity.
Qed.

(* the delivered requests depend only on the concatenated octets *)
Lemma framing_chunk_independent c1 c2 : concat c1 = concat c2 ->
  conn_chunks conn_init c1 = conn_chunks conn_init c2.
Proof. intros E. rewrite !conn_chunks_concat, E. reflexivity. Qed.

(* ---- read side: agreement with the declarative split ------------------------- *)

Lemma conn_bytes_closed rx bs : conn_bytes (mkConn rx false) bs = (mkConn rx false, []).
Proof. induction bs as [|b t IH]; [reflexivity|]. cbn [conn_bytes conn_byte c_open]. rewrite IH. reflexivity. Qed.

(* the body phase: k more octets wanted, acc holds what arrived (reversed) *)
Lemma body_short k acc bs : (length bs < k)%nat ->
  conn_bytes (mkConn (RxBody k acc) true) bs = (mkConn (RxBody (k - length bs) (rev bs ++ acc)) true, []).
Proof.
  revert k acc; induction bs as [|b t IH]; intros k acc H.
  - cbn. rewrite Nat.sub_0_r. reflexivity.
  - cbn [length] in H. destruct k as [|k]; [lia|]. destruct k as [|k]; [lia|].
    cbn [conn_bytes conn_byte c_open c_rx rx_byte].
    rewrite IH by lia. cbn [length rev app]. rewrite <- app_assoc. reflexivity.
Qed.

Definition after_frame (f : bytes) (rest : bytes) : conn_state * list conn_event :=
  match classify_frame f with
  | EvDisconnect => (mkConn (RxHeader []) false, [EvDisconnect])
  | e => let '(st, ev) := conn_bytes (mkConn (RxHeader []) true) rest in (st, e :: ev)
  end.

Lemma body_full k acc bs : (0 < k)%nat -> (k <= length bs)%nat ->
  conn_bytes (mkConn (RxBody k acc) true) bs = after_frame (rev acc ++ firstn k bs) (skipn k bs).
Proof.
  revert k acc; induction bs as [|b t IH]; intros k acc Hk H; [cbn in H; lia|].
  destruct k as [|k]; [lia|]. destruct k as [|k].
  - cbn [conn_bytes conn_byte c_open c_rx rx_byte firstn skipn]. unfold after_frame.
    cbn [rev]. destruct (classify_frame (rev acc ++ [b])) eqn:E.
    + destruct (conn_bytes (mkConn (RxHeader []) true) t). reflexivity.
    + destruct (conn_bytes (mkConn (RxHeader []) true) t). reflexivity.
    + rewrite conn_bytes_closed. reflexivity.
  - cbn [conn_bytes conn_byte c_open c_rx rx_byte]. cbn [length] in H.
    rewrite IH by lia.
    change (firstn (S (S k)) (b :: t)) with (b :: firstn (S k) t).
    change (skipn (S (S k)) (b :: t)) with (skipn (S k) t).
    cbn [rev]. rewrite <- app_assoc. cbn [app].
    destruct (after_frame (rev acc ++ b :: firstn (S k) t) (skipn (S k) t)). reflexivity.
Qed.

(* one frame at the head of the stream *)
Lemma conn_head h l body :
  conn_bytes conn_init (h :: l :: body) =
  let n := N.to_nat (of_be16 h l) in
  if (length body <? n)%nat
  then (mkConn (match n with O => RxHeader [] | S _ => RxBody (n - length body) (rev body) end) true, [])
  else after_frame (firstn n body) (skipn n body).
Proof.
  unfold conn_init, rx_init. cbn [conn_bytes conn_byte c_open c_rx rx_byte]. cbv [frame_big_endian].
  cbv zeta. destruct (N.to_nat (of_be16 h l)) as [|n] eqn:E.
  - cbn [Nat.ltb Nat.leb firstn skipn]. unfold after_frame.
    destruct (classify_frame []) eqn:C.
    + destruct (conn_bytes (mkConn (RxHeader []) true) body). reflexivity.
    + destruct (conn_bytes (mkConn (RxHeader []) true) body). reflexivity.
    + rewrite conn_bytes_closed. reflexivity.
  - destruct (Nat.ltb_spec (length body) (S n)) as [L|L].
    + rewrite body_short by exact L. rewrite app_nil_r. reflexivity.
    + rewrite body_full by lia. cbn [rev app].
      destruct (after_frame (firstn (S n) body) (skipn (S n) body)). reflexivity.
Qed.

Lemma events_of_cons f fs :
  events_of (f :: fs) = match classify_frame f with EvDisconnect => [EvDisconnect] | e => e :: events_of fs end.
Proof. reflexivity. Qed.

(* the machine delivers exactly the complete frames of the stream, in order,
   up to and including the first one that is too short to be a message *)
Lemma conn_bytes_split : forall fuel s, (length s < fuel)%nat ->
  snd (conn_bytes conn_init s) = events_of (fst (split_frames fuel s)).
Proof.
  induction fuel as [|fuel IH]; intros s H; [lia|].
  destruct s as [|h [|l body]]; [reflexivity|reflexivity|].
  cbn [split_frames]. rewrite conn_head. cbv zeta.
  destruct (Nat.ltb_spec (length body) (N.to_nat (of_be16 h l))) as [L|L]; [reflexivity|].
  assert (Hs : (length (skipn (N.to_nat (of_be16 h l)) body) < fuel)%nat)
    by (rewrite skipn_length; cbn [length] in H; lia).
  specialize (IH _ Hs).
  destruct (split_frames fuel (skipn (N.to_nat (of_be16 h l)) body)) as [fs rest] eqn:E.
  cbn [fst] in *. rewrite events_of_cons. unfold after_frame.
  destruct (classify_frame (firstn (N.to_nat (of_be16 h l)) body)).
  - change (mkConn (RxHeader []) true) with conn_init.
    destruct (conn_bytes conn_init (skipn (N.to_nat (of_be16 h l)) body)). cbn [snd] in *. rewrite IH. reflexivity.
  - change (mkConn (RxHeader []) true) with conn_init.
    destruct (conn_bytes conn_init (skipn (N.to_nat (of_be16 h l)) body)). cbn [snd] in *. rewrite IH. reflexivity.
  - reflexivity.
Qed.

Lemma framing_is_split chunks :
  snd (conn_chunks conn_init chunks) =
  events_of (fst (split_frames (S (length (concat chunks))) (concat chunks))).
Proof. rewrite conn_chunks_concat. apply conn_bytes_split. lia. Qed.

(* ---- round trip: frames written by the shim are read back -------------------- *)

Definition frame (m : bytes) : bytes := be16 (len m) ++ m.

Lemma split_frames_frames ms : Forall (fun m => len m <= 65535) ms ->
  forall fuel, (length ms < fuel)%nat ->
  split_frames fuel (concat (map frame ms)) = (ms, []).
Proof.
  induction ms as [|m t IH]; intros Hf fuel H.
  - destruct fuel; [lia|]. reflexivity.
  - destruct fuel as [|fuel]; [lia|]. inversion Hf as [|? ? Hm Ht]; subst.
    cbn [map concat]. unfold frame at 1. cbn [be16 app split_frames].
    rewrite be16_roundtrip by lia. unfold len. rewrite Nat2N.id.
    rewrite app_length. destruct (Nat.ltb_spec (length m + length (concat (map frame t))) (length m)); [lia|].
    rewrite skipn_app, skipn_all, Nat.sub_diag. cbn [skipn app].
    rewrite (IH Ht fuel) by (cbn [length] in H; lia).
    rewrite firstn_app, firstn_all, Nat.sub_diag. cbn [firstn]. rewrite app_nil_r. reflexivity.
Qed.

Lemma framing_roundtrip ms : Forall (fun m => len m <= 65535) ms ->
  Forall (fun m => frame_out m = Ok (frame m)) ms /\
  split_frames (S (length ms)) (concat (map frame ms)) = (ms, []).
Proof.
  intros H. split; [|apply split_frames_frames; [exact H|lia]].
  eapply Forall_impl; [|exact H]. intros m Hm. cbv beta in Hm. rewrite frame_out_spec by exact Hm. reflexivity.
Qed.

(* ---- hostile input ------------------------------------------------------------ *)

(* the machine is total; what it hands on is never shorter than a header, a
   direct FORMERR only goes to QR = 1, and nothing follows a disconnect *)
Definition ok_event (e : conn_event) : Prop :=
  match e with
  | EvDispatch m => header_len <= len m /\ qr_set m = false
  | EvFormErr m => header_len <= len m /\ qr_set m = true
  | EvDisconnect => True
  end.

Lemma classify_frame_ok f : ok_event (classify_frame f).
Proof.
  unfold classify_frame, too_short. cbv [short_msg_cmp_is_lt].
  destruct (N.ltb_spec (len f) header_len); [exact I|].
  destruct (qr_set f) eqn:E; cbn; auto.
Qed.

Lemma events_of_ok fs : Forall ok_event (events_of fs) /\
  (forall pre post, events_of fs = pre ++ EvDisconnect :: post -> post = []).
Proof.
  induction fs as [|f t [IH1 IH2]]; [split; [constructor|intros [|? ?] ? E; discriminate]|].
  rewrite events_of_cons. pose proof (classify_frame_ok f) as Hk.
  destruct (classify_frame f) eqn:C.
  - split; [constructor; assumption|]. intros [|p pre] post E; [discriminate|].
    inversion E. eapply IH2; eassumption.
  - split; [constructor; assumption|]. intros [|p pre] post E; [discriminate|].
    inversion E. eapply IH2; eassumption.
  - split; [repeat constructor|]. intros [|p pre] post E; [inversion E; reflexivity|].
    inversion E as [[E1 E2]]. destruct pre; discriminate.
Qed.

Lemma hostile_input_total chunks :
  exists st ev, conn_chunks conn_init chunks = (st, ev) /\ Forall ok_event ev /\
    (forall pre post, ev = pre ++ EvDisconnect :: post -> post = []) /\
    (c_open st = false <-> In EvDisconnect ev).
Proof.
  destruct (conn_chunks conn_init chunks) as [st ev] eqn:E. exists st, ev. split; [reflexivity|].
  pose proof (framing_is_split chunks) as HS. rewrite E in HS. cbn [snd] in HS.
  destruct (events_of_ok (fst (split_frames (S (length (concat chunks))) (concat chunks)))) as [A B].
  rewrite <- HS in A, B. split; [exact A|]. split; [exact B|].
  (* open flag: generalise over the byte run *)
  rewrite conn_chunks_concat in E. clear HS A B.
  assert (G : forall bs st0 st1 ev1, conn_bytes st0 bs = (st1, ev1) ->
            (c_open st1 = false <-> c_open st0 = false \/ In EvDisconnect ev1)).
  { induction bs as [|b t IH]; intros st0 st1 ev1 H.
    - cbn in H. inversion H; subst. cbn. tauto.
    - cbn [conn_bytes] in H. destruct (conn_byte st0 b) as [s1 e1] eqn:E1.
      destruct (conn_bytes s1 t) as [s2 e2] eqn:E2. inversion H; subst. specialize (IH _ _ _ E2).
      rewrite IH, in_app_iff. unfold conn_byte in E1. destruct (c_open st0) eqn:O.
      + destruct (rx_byte (c_rx st0) b) as [rx' [f|]].
        * pose proof (classify_frame_ok f) as K. destruct (classify_frame f) eqn:C; inversion E1; subst; cbn;
            split; intros; try tauto; intuition (try discriminate; try congruence).
        * inversion E1; subst. cbn. intuition discriminate.
      + inversion E1; subst. cbn. rewrite O. tauto. }
  specialize (G _ _ _ _ E). cbn in G. rewrite G. intuition discriminate.
Qed.

Example conn_ex1 :
  c16_conn [[0; 12; 0; 9; 0]; [0; 0; 0; 0; 0; 0; 0; 0; 0]; [0; 3; 1; 2; 3]; [0; 12]]
  = (false, [EvDispatch [0; 9; 0; 0; 0; 0; 0; 0; 0; 0; 0; 0]; EvDisconnect]).
Proof. reflexivity. Qed.
Example conn_ex2 : c16_conn [[0]; [0]] = (false, [EvDisconnect]). Proof. reflexivity. Qed.
Example conn_ex3 : c16_conn [[0; 12; 0; 9; 128; 0; 0; 0; 0; 0; 0; 0; 0; 0]]
  = (true, [EvFormErr [0; 9; 128; 0; 0; 0; 0; 0; 0; 0; 0; 0]]).
Proof. reflexivity. Qed.
