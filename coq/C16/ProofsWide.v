(* C16 proofs, widening round: (1) pipelined requests on one stream connection -
   every well-formed request frame is delivered exactly once, in order, whatever
   the chunking and whatever follows it on the connection; (2) header facts of
   every response of the datagram / stream server (QR set, RD copied) and
   "a response whenever the service produced one"; (3) the stream server never
   truncates: the service's sections leave unchanged. *)
From Coq Require Import NArith ZArith Arith List Bool Lia.
From Coq Require Import ZifyN ZifyBool ZifyNat.
From DV Require Import Base.Outcome Base.Bytes Base.Names C16.Gen C16.Model C16.ProofsNeg C16.ProofsTrunc
  C16.ProofsFrame C16.ProofsSrv C16.ProofsTop.
Import ListNotations.
Local Open Scope N_scope.
Ltac Zify.zify_post_hook ::= Z.div_mod_to_equations.

(* ---- 1. pipelined requests -------------------------------------------------- *)

(* what a frame that is a message (at least a header) turns into *)
Definition ev_of (m : bytes) : conn_event := if qr_set m then EvFormErr m else EvDispatch m.
Definition is_msg (m : bytes) : Prop := 12 <= len m /\ len m <= 65535.

Lemma classify_msg m : 12 <= len m -> classify_frame m = ev_of m.
Proof.
  intros H. unfold classify_frame, too_short, ev_of. cbv [short_msg_cmp_is_lt header_len].
  destruct (N.ltb_spec (len m) 12); [lia|reflexivity].
Qed.

Lemma events_of_msgs_app ms fs : Forall is_msg ms ->
  events_of (ms ++ fs) = map ev_of ms ++ events_of fs.
Proof.
  induction 1 as [|m t [Hm _] _ IH]; [reflexivity|].
  cbn [app map]. rewrite events_of_cons, (classify_msg m Hm), IH.
  unfold ev_of. destruct (qr_set m); reflexivity.
Qed.

Lemma ev_of_not_disconnect ms : ~ In EvDisconnect (map ev_of ms).
Proof.
  rewrite in_map_iff. intros (m & E & _). unfold ev_of in E. destruct (qr_set m); discriminate.
Qed.

(* the declarative split finds the frames written in front of anything *)
Lemma split_frames_prefix ms : Forall (fun m => len m <= 65535) ms ->
  forall fuel junk, (length ms < fuel)%nat ->
  exists fs rest, split_frames fuel (concat (map frame ms) ++ junk) = (ms ++ fs, rest).
Proof.
  induction ms as [|m t IH]; intros Hf fuel junk H.
  - cbn [map concat app]. destruct (split_frames fuel junk) as [fs rest]. exists fs, rest. reflexivity.
  - destruct fuel as [|fuel]; [lia|]. inversion Hf as [|? ? Hm Ht]; subst.
    cbn [map concat]. unfold frame at 1. rewrite <- !app_assoc. cbn [be16 app split_frames].
    rewrite be16_roundtrip by lia. unfold len. rewrite Nat2N.id.
    rewrite app_length.
    destruct (Nat.ltb_spec (length m + length (concat (map frame t) ++ junk)) (length m)); [lia|].
    rewrite skipn_app, skipn_all, Nat.sub_diag. cbn [skipn app].
    destruct (IH Ht fuel junk) as (fs & rest & E); [cbn [length] in H; lia|].
    rewrite E. rewrite firstn_app, firstn_all, Nat.sub_diag. cbn [firstn]. rewrite app_nil_r.
    exists fs, rest. reflexivity.
Qed.

Lemma frames_length ms : (length ms <= length (concat (map frame ms)))%nat.
Proof.
  induction ms as [|m t IH]; [cbn; lia|].
  cbn [map concat length]. unfold frame at 1. rewrite !app_length. cbn [be16 length]. lia.
Qed.

(* requests already written to a connection are delivered, each exactly once and
   in order, whatever the chunking and whatever octets (garbage, short frames, an
   abort) follow them *)
Lemma pipeline_prefix ms junk chunks : Forall is_msg ms ->
  concat chunks = concat (map frame ms) ++ junk ->
  exists rest, snd (conn_chunks conn_init chunks) = map ev_of ms ++ rest.
Proof.
  intros Hm E. rewrite framing_is_split, E.
  assert (Hl : Forall (fun m => len m <= 65535) ms)
    by (eapply Forall_impl; [|exact Hm]; intros m [_ L]; exact L).
  destruct (split_frames_prefix ms Hl (S (length (concat (map frame ms) ++ junk))) junk) as (fs & rest & S).
  { pose proof (frames_length ms). rewrite app_length. lia. }
  rewrite S. cbn [fst]. rewrite (events_of_msgs_app ms fs Hm). eexists. reflexivity.
Qed.

(* exactly the pipelined requests, nothing else, and the connection stays open *)
Lemma pipeline_exact ms chunks : Forall is_msg ms ->
  concat chunks = concat (map frame ms) ->
  exists st, conn_chunks conn_init chunks = (st, map ev_of ms) /\ c_open st = true.
Proof.
  intros Hm E.
  assert (Hl : Forall (fun m => len m <= 65535) ms)
    by (eapply Forall_impl; [|exact Hm]; intros m [_ L]; exact L).
  pose proof (framing_is_split chunks) as HS. rewrite E in HS.
  rewrite (split_frames_frames ms Hl) in HS by (pose proof (frames_length ms); lia).
  cbn [fst] in HS. pose proof (events_of_msgs_app ms [] Hm) as EV.
  rewrite app_nil_r in EV. cbn [events_of] in EV. rewrite app_nil_r in EV. rewrite EV in HS.
  destruct (hostile_input_total chunks) as (st & ev & C & _ & _ & O).
  rewrite C in HS. cbn [snd] in HS. subst ev. exists st. split; [exact C|].
  destruct (c_open st); [reflexivity|]. exfalso. apply (ev_of_not_disconnect ms). apply O. reflexivity.
Qed.

Example pipeline_ex :
  snd (conn_chunks conn_init [[0; 12; 0; 9; 0]; [0; 0; 0; 0; 0; 0; 0; 0; 0; 0; 12; 0; 7]; [128; 0; 0; 0; 0; 0; 0; 0; 0; 0; 0; 1]])
  = [EvDispatch [0; 9; 0; 0; 0; 0; 0; 0; 0; 0; 0; 0]; EvFormErr [0; 7; 128; 0; 0; 0; 0; 0; 0; 0; 0; 0]].
Proof. reflexivity. Qed.

(* ---- 2. header of every response: QR set, RD copied from the request --------- *)

Definition hdr_ok (x : xreq) (r : msg) : Prop :=
  N.testbit (m_b2 r) 7 = true /\ N.testbit (m_b2 r) 0 = N.testbit (x_b2 x) 0.

Lemma set_bit_to_0 a v : N.testbit (set_bit_to a 0 v) 0 = v.
Proof. unfold set_bit_to. destruct v; [apply N.setbit_eq|apply N.clearbit_eq]. Qed.

Lemma set_bit_to_other a v k : k <> 0 -> N.testbit (set_bit_to a 0 v) k = N.testbit a k.
Proof.
  intros H. unfold set_bit_to. destruct v; [apply N.setbit_neq|apply N.clearbit_neq]; congruence.
Qed.

Lemma post_hdr fx fq eq udp x h m : hdr_ok x (mandatory_post_gen fx fq eq udp (x_base x) h m).
Proof.
  unfold hdr_ok, mandatory_post_gen. cbv zeta. cbn [m_b2 rq_b2 x_base]. split.
  - rewrite set_bit_to_other by discriminate. apply N.setbit_eq.
  - apply set_bit_to_0.
Qed.

Lemma err_hdr eq x rc : hdr_ok x (error_response_gen eq (x_base x) rc).
Proof.
  unfold hdr_ok, error_response_gen. cbn [m_b2 rq_b2 x_base]. split.
  - apply N.setbit_eq.
  - rewrite N.setbit_neq by discriminate. rewrite N.land_spec.
    change (N.testbit 121 0) with true. apply andb_true_r.
Qed.

Ltac fin_hdr := intros E; inversion E; subst; first [apply post_hdr | apply err_hdr].

Lemma udp_server_hdr fx fq eq x cfg svc r :
  udp_server_gen fx fq eq x cfg svc = Ok (Some r) -> hdr_ok x r.
Proof.
  unfold udp_server_gen. cbv zeta.
  destruct (N.testbit (x_b2 x) 7); [fin_hdr|].
  destruct (x_opcode x =? opcode_iquery); [fin_hdr|].
  destruct ((x_opcode x =? opcode_query) && (qdcount_max <? x_qd x)); [fin_hdr|].
  assert (S : match svc with
     | SvcOk m => do h <- hint_after_edns (x_client x) cfg;
                  Ok (Some (mandatory_post_gen fx fq eq true (x_base x) (handed_over hint_shared_between_clones h cfg) (edns_post (is_some (x_client x)) m)))
     | SvcErr rc => Ok (Some (error_response_gen eq (x_base x) rc))
     | SvcNone => Ok None end = Ok (Some r) -> hdr_ok x r).
  { destruct svc; [rewrite hint_after_edns_spec; cbn [bind]| |discriminate]; fin_hdr. }
  destruct (x_opt x) as [|s v|s t|s|]; try fin_hdr; [exact S| |exact S].
  destruct (edns_version_max <? v); [fin_hdr|exact S].
Qed.

Lemma tcp_server_hdr fx fq eq x idle svc r :
  tcp_server_gen fx fq eq x idle svc = Ok (Some r) -> hdr_ok x r.
Proof.
  unfold tcp_server_gen. cbv zeta.
  destruct (N.testbit (x_b2 x) 7); [fin_hdr|].
  destruct (x_opcode x =? opcode_iquery); [fin_hdr|].
  destruct ((x_opcode x =? opcode_query) && (qdcount_max <? x_qd x)); [fin_hdr|].
  assert (S : match svc with
     | SvcOk m => Ok (Some (mandatory_post_gen fx fq eq false (x_base x) None (edns_post_tcp (is_some (x_client x)) (x_any_opt x) idle m)))
     | SvcErr rc => Ok (Some (error_response_gen eq (x_base x) rc))
     | SvcNone => Ok None end = Ok (Some r) -> hdr_ok x r).
  { destruct svc; [| |discriminate]; fin_hdr. }
  destruct (x_opt x) as [|s v|s t|s|]; try fin_hdr; [exact S| |].
  - destruct (edns_version_max <? v); [fin_hdr|exact S].
  - destruct t; [fin_hdr|exact S].
Qed.

(* ---- a response whenever the service produced one (or failed) ----------------- *)

Ltac fin_some := eexists; reflexivity.

Lemma udp_server_answers fx fq eq x cfg svc : svc <> SvcNone ->
  exists r, udp_server_gen fx fq eq x cfg svc = Ok (Some r).
Proof.
  intros N. unfold udp_server_gen. cbv zeta.
  destruct (N.testbit (x_b2 x) 7); [fin_some|].
  destruct (x_opcode x =? opcode_iquery); [fin_some|].
  destruct ((x_opcode x =? opcode_query) && (qdcount_max <? x_qd x)); [fin_some|].
  assert (S : exists r, match svc with
     | SvcOk m => do h <- hint_after_edns (x_client x) cfg;
                  Ok (Some (mandatory_post_gen fx fq eq true (x_base x) (handed_over hint_shared_between_clones h cfg) (edns_post (is_some (x_client x)) m)))
     | SvcErr rc => Ok (Some (error_response_gen eq (x_base x) rc))
     | SvcNone => Ok None end = Ok (Some r)).
  { destruct svc; [rewrite hint_after_edns_spec; cbn [bind]| |congruence]; fin_some. }
  destruct (x_opt x) as [|s v|s t|s|]; try fin_some; [exact S| |exact S].
  destruct (edns_version_max <? v); [fin_some|exact S].
Qed.

Lemma tcp_server_answers fx fq eq x idle svc :
  (exists r, tcp_server_gen fx fq eq x idle svc = Ok r) /\
  (svc <> SvcNone -> exists r, tcp_server_gen fx fq eq x idle svc = Ok (Some r)).
Proof.
  unfold tcp_server_gen. cbv zeta.
  destruct (N.testbit (x_b2 x) 7); [split; [|intros _]; fin_some|].
  destruct (x_opcode x =? opcode_iquery); [split; [|intros _]; fin_some|].
  destruct ((x_opcode x =? opcode_query) && (qdcount_max <? x_qd x)); [split; [|intros _]; fin_some|].
  assert (S : (exists r, match svc with
     | SvcOk m => Ok (Some (mandatory_post_gen fx fq eq false (x_base x) None (edns_post_tcp (is_some (x_client x)) (x_any_opt x) idle m)))
     | SvcErr rc => Ok (Some (error_response_gen eq (x_base x) rc))
     | SvcNone => Ok None end = Ok r) /\
     (svc <> SvcNone -> exists r, match svc with
     | SvcOk m => Ok (Some (mandatory_post_gen fx fq eq false (x_base x) None (edns_post_tcp (is_some (x_client x)) (x_any_opt x) idle m)))
     | SvcErr rc => Ok (Some (error_response_gen eq (x_base x) rc))
     | SvcNone => Ok None end = Ok (Some r))).
  { destruct svc; (split; [fin_some|intros N; try congruence; fin_some]). }
  destruct (x_opt x) as [|s v|s t|s|]; try (split; [|intros _]; fin_some); [exact S| |].
  - destruct (edns_version_max <? v); [split; [|intros _]; fin_some|exact S].
  - destruct t; [split; [|intros _]; fin_some|exact S].
Qed.

Example answers_ex :
  exists r, udp_server (mkX 5 1 1 [mkQ [[97]] 1 1] OptNone) None (SvcErr 2) = Ok (Some r) /\
            hdr_ok (mkX 5 1 1 [mkQ [[97]] 1 1] OptNone) r /\ m_b3 r = 2.
Proof. eexists. split; [vm_compute; reflexivity|]. split; [split; reflexivity|reflexivity]. Qed.

(* ---- 3. which path answers a request: a decision function and a refinement ---- *)

(* the requests the transport / middleware answers itself, with which rcode
   (datagram server); None: the request reaches the service *)
Definition reject_rcode (x : xreq) : option N :=
  if N.testbit (x_b2 x) 7 then Some rc_formerr
  else if x_opcode x =? opcode_iquery then Some rc_notimp
  else if (x_opcode x =? opcode_query) && (qdcount_max <? x_qd x) then Some rc_formerr
  else match x_opt x with
       | OptDup _ => Some rc_formerr
       | OptBad => Some rc_formerr
       | OptOne _ v => if edns_version_max <? v then Some rc_badvers else None
       | _ => None
       end.

(* ... on a stream a keepalive option carrying a timeout value is also FORMERR *)
Definition reject_rcode_tcp (x : xreq) : option N :=
  match reject_rcode x with
  | Some rc => Some rc
  | None => match x_opt x with OptKa _ true => Some rc_formerr | _ => None end
  end.

(* an error reply: id and (first) question of the request, the rcode, no
   records but an OPT at most, TC clear *)
Definition err_reply (x : xreq) (rc : N) (r : msg) : Prop :=
  m_id r = x_id x /\ m_qs r = firstn 1 (x_qs x) /\ m_an r = [] /\ m_ns r = [] /\
  tc_set (m_b2 r) = false /\ m_b3 r = rc mod 16.

(* a request that is not rejected: exactly the service's result, each response
   through the middleware's response path (udp_response), a service error as a
   plain error response, no response as none *)
Lemma udp_server_served fx fq eq x cfg svc : reject_rcode x = None ->
  udp_server_gen fx fq eq x cfg svc =
  match svc with
  | SvcOk m => do r <- udp_response_gen fx fq eq (x_base x) cfg m; Ok (Some r)
  | SvcErr rc => Ok (Some (error_response_gen eq (x_base x) rc))
  | SvcNone => Ok None
  end.
Proof.
  unfold reject_rcode, udp_server_gen. cbv zeta.
  destruct (N.testbit (x_b2 x) 7); [discriminate|].
  destruct (x_opcode x =? opcode_iquery); [discriminate|].
  destruct ((x_opcode x =? opcode_query) && (qdcount_max <? x_qd x)); [discriminate|].
  assert (S : match svc with
     | SvcOk m => do h <- hint_after_edns (x_client x) cfg;
                  Ok (Some (mandatory_post_gen fx fq eq true (x_base x) (handed_over hint_shared_between_clones h cfg) (edns_post (is_some (x_client x)) m)))
     | SvcErr rc => Ok (Some (error_response_gen eq (x_base x) rc))
     | SvcNone => Ok None end =
     match svc with
     | SvcOk m => do r <- udp_response_gen fx fq eq (x_base x) cfg m; Ok (Some r)
     | SvcErr rc => Ok (Some (error_response_gen eq (x_base x) rc))
     | SvcNone => Ok None
     end).
  { destruct svc; try reflexivity. unfold udp_response_gen. cbn [rq_client x_base].
    rewrite hint_after_edns_spec. cbn [bind]. reflexivity. }
  destruct (x_opt x) as [|s v|s t|s|]; try discriminate; try (intros _; exact S).
  destruct (edns_version_max <? v); [discriminate|intros _; exact S].
Qed.

Lemma post_fits fx fq eq rq hint m : mlen m <= trunc_max_gen fx (is_some (rq_client rq)) hint ->
  mandatory_post_gen fx fq eq true rq hint m =
  mkMsg (rq_id rq) (set_bit_to (N.setbit (m_b2 m) 7) 0 (N.testbit (rq_b2 rq) 0)) (m_b3 m)
        (m_qs m) (m_an m) (m_ns m) (m_ar m).
Proof.
  intros H. unfold mandatory_post_gen, truncate_gen, over_limit. cbv [trunc_cmp_is_gt].
  destruct (N.ltb_spec (trunc_max_gen fx (is_some (rq_client rq)) hint) (mlen m)); [lia|reflexivity].
Qed.

Lemma tc_after_post b v : tc_set (set_bit_to (N.setbit b 7) 0 v) = tc_set b.
Proof.
  unfold tc_set. cbv [tc_bit]. rewrite set_bit_to_other by discriminate.
  apply N.setbit_neq. discriminate.
Qed.

Lemma err_tc eq rq rc : tc_set (m_b2 (error_response_gen eq rq rc)) = false.
Proof.
  unfold tc_set, error_response_gen. cbv [tc_bit]. cbn [m_b2].
  rewrite N.setbit_neq by discriminate. rewrite N.land_spec.
  change (N.testbit 121 1) with false. apply andb_false_r.
Qed.

Lemma err_is_reply x rc : err_reply x rc (error_response_gen true (x_base x) rc).
Proof. unfold err_reply. repeat split; try reflexivity. apply err_tc. Qed.

Lemma edns_post_same b m :
  m_id (edns_post b m) = m_id m /\ m_b2 (edns_post b m) = m_b2 m /\ m_b3 (edns_post b m) = m_b3 m /\
  m_qs (edns_post b m) = m_qs m /\ m_an (edns_post b m) = m_an m /\ m_ns (edns_post b m) = m_ns m.
Proof.
  unfold edns_post. destruct b; cbn [negb]; [|repeat split; reflexivity].
  destruct (first_opt (m_ar m)); [repeat split; reflexivity|].
  destruct (65535 <? mlen m + 11); repeat split; reflexivity.
Qed.

(* an error response made by the middleware passes the response path unchanged
   but for the OPT fix-up: it is far below any limit *)
Lemma post_err_is_reply fx fq x cfg b rc : hint_ok cfg -> Forall wf_q (firstn 1 (x_qs x)) ->
  err_reply x rc (mandatory_post_gen fx fq true true (x_base x) cfg (error_response_gen true (x_base x) rc)) /\
  err_reply x rc (mandatory_post_gen fx fq true true (x_base x) cfg
                    (edns_post b (error_response_gen true (x_base x) rc))).
Proof.
  intros Hk Hq.
  pose proof (error_response_small (x_base x) rc Hq) as L.
  pose proof (trunc_max_ge fx (is_some (rq_client (x_base x))) cfg Hk) as G.
  pose proof (edns_post_le b (error_response_gen true (x_base x) rc)) as L2.
  destruct (edns_post_same b (error_response_gen true (x_base x) rc)) as (_ & E2 & E3 & E4 & E5 & E6).
  split; (rewrite post_fits by lia; unfold err_reply; cbn [m_id m_b2 m_b3 m_qs m_an m_ns];
          rewrite tc_after_post).
  - repeat split; try reflexivity. apply err_tc.
  - rewrite E2, E3, E4, E5, E6. repeat split; try reflexivity. apply err_tc.
Qed.

(* a rejected request: one error reply with that rcode, whatever the service
   would have done (hostile input is answered and does not reach the service) *)
Lemma udp_server_rejects fx fq x cfg svc rc : hint_ok cfg -> Forall wf_q (firstn 1 (x_qs x)) ->
  reject_rcode x = Some rc ->
  exists r, udp_server_gen fx fq true x cfg svc = Ok (Some r) /\ err_reply x rc r.
Proof.
  intros Hk Hq. unfold reject_rcode, udp_server_gen. cbv zeta.
  destruct (N.testbit (x_b2 x) 7);
    [intros E; inversion E; subst; eexists; split; [reflexivity|apply err_is_reply]|].
  destruct (x_opcode x =? opcode_iquery);
    [intros E; inversion E; subst; eexists; split; [reflexivity|apply (post_err_is_reply fx fq x cfg true _ Hk Hq)]|].
  destruct ((x_opcode x =? opcode_query) && (qdcount_max <? x_qd x));
    [intros E; inversion E; subst; eexists; split; [reflexivity|apply (post_err_is_reply fx fq x cfg true _ Hk Hq)]|].
  destruct (x_opt x) as [|s v|s t|s|]; try discriminate.
  - destruct (edns_version_max <? v); [|discriminate].
    intros E; inversion E; subst; eexists; split; [reflexivity|apply (post_err_is_reply fx fq x cfg _ _ Hk Hq)].
  - intros E; inversion E; subst; eexists; split; [reflexivity|apply (post_err_is_reply fx fq x cfg _ _ Hk Hq)].
  - intros E; inversion E; subst; eexists; split; [reflexivity|apply (post_err_is_reply fx fq x cfg _ _ Hk Hq)].
Qed.

Example rejects_ex :
  reject_rcode (mkX 5 1 1 [mkQ [[97]] 1 1] (OptOne 1232 1)) = Some 16 /\
  reject_rcode (mkX 5 1 1 [mkQ [[97]] 1 1] (OptOne 1232 0)) = None.
Proof. split; reflexivity. Qed.

(* ---- 4. the stream server never truncates -------------------------------------- *)

Definition nonopt (r : rr) : bool := negb (is_opt r).

(* m' is m but for OPT records of the additional section *)
Definition pres (m m' : msg) : Prop :=
  m_id m' = m_id m /\ m_b2 m' = m_b2 m /\ m_b3 m' = m_b3 m /\ m_qs m' = m_qs m /\
  m_an m' = m_an m /\ m_ns m' = m_ns m /\ filter nonopt (m_ar m') = filter nonopt (m_ar m).

Lemma pres_refl m : pres m m.
Proof. unfold pres. repeat split; reflexivity. Qed.

Lemma pres_trans a b c : pres a b -> pres b c -> pres a c.
Proof.
  unfold pres. intros (A1 & A2 & A3 & A4 & A5 & A6 & A7) (B1 & B2 & B3 & B4 & B5 & B6 & B7).
  repeat split; congruence.
Qed.

Lemma filter_idem {A} (f : A -> bool) l : filter f (filter f l) = filter f l.
Proof.
  induction l as [|a t IH]; [reflexivity|]. cbn [filter]. destruct (f a) eqn:E; [|exact IH].
  cbn [filter]. rewrite E, IH. reflexivity.
Qed.

Lemma pres_strip m : pres m (strip_opt m).
Proof. unfold pres, strip_opt. cbn [m_id m_b2 m_b3 m_qs m_an m_ns m_ar]. repeat split; try reflexivity. apply filter_idem. Qed.

Lemma pres_app_opt m o : pres m (with_ar m (m_ar m ++ [RROpt o])).
Proof.
  unfold pres, with_ar. cbn [m_id m_b2 m_b3 m_qs m_an m_ns m_ar]. repeat split; try reflexivity.
  rewrite filter_app. cbn. apply app_nil_r.
Qed.

Lemma pres_add m ka : pres m (add_option m ka).
Proof.
  unfold add_option. destruct (first_opt (m_ar m)) as [o|].
  - match goal with |- context [65535 <? ?a] => destruct (65535 <? a) end;
      unfold pres, with_ar; cbn [m_id m_b2 m_b3 m_qs m_an m_ns m_ar]; repeat split; try reflexivity.
    + apply (filter_idem (fun r => negb (is_opt r))).
    + rewrite filter_app. cbn. rewrite app_nil_r. apply (filter_idem (fun r => negb (is_opt r))).
  - match goal with |- context [65535 <? ?a] => destruct (65535 <? a) end;
      [apply pres_refl|apply pres_app_opt].
Qed.

Lemma pres_edns_post_tcp a b idle m : pres m (edns_post_tcp a b idle m).
Proof.
  unfold edns_post_tcp.
  set (m1 := if negb a then strip_opt m else m).
  assert (P1 : pres m m1) by (subst m1; destruct (negb a); [apply pres_strip|apply pres_refl]).
  set (m2 := if b then match idle with
                       | Some ms => match keepalive_option ms with Some ka => add_option m1 ka | None => m1 end
                       | None => m1 end else m1).
  assert (P2 : pres m m2).
  { subst m2. destruct b; [|exact P1]. destruct idle as [ms|]; [|exact P1].
    destruct (keepalive_option ms); [|exact P1]. eapply pres_trans; [exact P1|apply pres_add]. }
  destruct a; [|exact P2]. destruct (first_opt (m_ar m2)); [exact P2|].
  destruct (65535 <? mlen m2 + 11); [exact P2|]. eapply pres_trans; [exact P2|apply pres_app_opt].
Qed.

Lemma post_tcp_eq fx fq eq rq h m :
  mandatory_post_gen fx fq eq false rq h m =
  mkMsg (rq_id rq) (set_bit_to (N.setbit (m_b2 m) 7) 0 (N.testbit (rq_b2 rq) 0)) (m_b3 m)
        (m_qs m) (m_an m) (m_ns m) (m_ar m).
Proof. reflexivity. Qed.

(* what leaves for a service response: the service's message with id / QR / RD set
   and the OPT fix-ups, nothing else touched *)
Definition stream_kept (x : xreq) (m r : msg) : Prop :=
  m_id r = x_id x /\ m_qs r = m_qs m /\ m_an r = m_an m /\ m_ns r = m_ns m /\ m_b3 r = m_b3 m /\
  tc_set (m_b2 r) = tc_set (m_b2 m) /\ filter nonopt (m_ar r) = filter nonopt (m_ar m).

Lemma post_tcp_kept fx fq eq x a b idle m :
  stream_kept x m (mandatory_post_gen fx fq eq false (x_base x) None (edns_post_tcp a b idle m)).
Proof.
  rewrite post_tcp_eq. destruct (pres_edns_post_tcp a b idle m) as (_ & E2 & E3 & E4 & E5 & E6 & E7).
  unfold stream_kept. cbn [m_id m_b2 m_b3 m_qs m_an m_ns m_ar rq_id x_base]. rewrite tc_after_post, E2.
  repeat split; assumption.
Qed.

Lemma tcp_server_served fx fq eq x idle svc : reject_rcode_tcp x = None ->
  match svc with
  | SvcOk m => exists r, tcp_server_gen fx fq eq x idle svc = Ok (Some r) /\ stream_kept x m r
  | SvcErr rc => tcp_server_gen fx fq eq x idle svc = Ok (Some (error_response_gen eq (x_base x) rc))
  | SvcNone => tcp_server_gen fx fq eq x idle svc = Ok None
  end.
Proof.
  unfold reject_rcode_tcp, reject_rcode, tcp_server_gen. cbv zeta.
  destruct (N.testbit (x_b2 x) 7); [discriminate|].
  destruct (x_opcode x =? opcode_iquery); [discriminate|].
  destruct ((x_opcode x =? opcode_query) && (qdcount_max <? x_qd x)); [discriminate|].
  assert (S : match svc with
     | SvcOk m => exists r, Ok (Some (mandatory_post_gen fx fq eq false (x_base x) None (edns_post_tcp (is_some (x_client x)) (x_any_opt x) idle m))) = Ok (Some r) /\ stream_kept x m r
     | SvcErr rc => Ok (Some (error_response_gen eq (x_base x) rc)) = Ok (Some (error_response_gen eq (x_base x) rc))
     | SvcNone => @Ok (option msg) None = Ok None end).
  { destruct svc; try reflexivity. eexists. split; [reflexivity|apply post_tcp_kept]. }
  destruct (x_opt x) as [|s v|s t|s|]; try discriminate.
  - intros _. destruct svc; exact S.
  - destruct (edns_version_max <? v); [discriminate|]. intros _. destruct svc; exact S.
  - destruct t; [discriminate|]. intros _. destruct svc; exact S.
Qed.

Lemma post_tcp_err_is_reply fx fq x a b idle rc :
  err_reply x rc (mandatory_post_gen fx fq true false (x_base x) None (error_response_gen true (x_base x) rc)) /\
  err_reply x rc (mandatory_post_gen fx fq true false (x_base x) None
                    (edns_post_tcp a b idle (error_response_gen true (x_base x) rc))).
Proof.
  split.
  - rewrite post_tcp_eq. unfold err_reply. cbn [m_id m_b2 m_b3 m_qs m_an m_ns]. rewrite tc_after_post.
    repeat split; try reflexivity. apply err_tc.
  - destruct (post_tcp_kept fx fq true x a b idle (error_response_gen true (x_base x) rc))
      as (K1 & K2 & K3 & K4 & K5 & K6 & _).
    unfold err_reply. rewrite K1, K2, K3, K4, K5, K6. repeat split; try reflexivity. apply err_tc.
Qed.

(* a rejected request on a stream: one error reply with that rcode *)
Lemma tcp_server_rejects fx fq x idle svc rc : reject_rcode_tcp x = Some rc ->
  exists r, tcp_server_gen fx fq true x idle svc = Ok (Some r) /\ err_reply x rc r.
Proof.
  unfold reject_rcode_tcp, reject_rcode, tcp_server_gen. cbv zeta.
  destruct (N.testbit (x_b2 x) 7);
    [intros E; inversion E; subst; eexists; split; [reflexivity|apply err_is_reply]|].
  destruct (x_opcode x =? opcode_iquery);
    [intros E; inversion E; subst; eexists; split; [reflexivity|apply (post_tcp_err_is_reply fx fq x true true None)]|].
  destruct ((x_opcode x =? opcode_query) && (qdcount_max <? x_qd x));
    [intros E; inversion E; subst; eexists; split; [reflexivity|apply (post_tcp_err_is_reply fx fq x true true None)]|].
  destruct (x_opt x) as [|s v|s t|s|]; try discriminate.
  - destruct (edns_version_max <? v); [|discriminate].
    intros E; inversion E; subst; eexists; split; [reflexivity|apply post_tcp_err_is_reply].
  - destruct t; [|discriminate].
    intros E; inversion E; subst; eexists; split; [reflexivity|apply post_tcp_err_is_reply].
  - intros E; inversion E; subst; eexists; split; [reflexivity|apply post_tcp_err_is_reply].
  - intros E; inversion E; subst; eexists; split; [reflexivity|apply post_tcp_err_is_reply].
Qed.

Example tcp_kept_ex :
  reject_rcode_tcp (mkX 5 1 1 [mkQ [[97]] 1 1] (OptKa 1232 true)) = Some 1 /\
  reject_rcode_tcp (mkX 5 1 1 [mkQ [[97]] 1 1] (OptKa 1232 false)) = None.
Proof. split; reflexivity. Qed.

(* ---- 5. the statements over the model as generated (flags read by T1) ----------- *)

Lemma fx_true : FX = true. Proof. reflexivity. Qed.

Lemma top_udp_server_hdr x cfg svc r : udp_server x cfg svc = Ok (Some r) -> hdr_ok x r.
Proof. apply udp_server_hdr. Qed.

Lemma top_tcp_server_hdr x idle svc r : tcp_server x idle svc = Ok (Some r) -> hdr_ok x r.
Proof. apply tcp_server_hdr. Qed.

Lemma top_udp_server_answers x cfg svc : svc <> SvcNone -> exists r, udp_server x cfg svc = Ok (Some r).
Proof. apply udp_server_answers. Qed.

Lemma top_tcp_server_answers x idle svc :
  (exists r, tcp_server x idle svc = Ok r) /\
  (svc <> SvcNone -> exists r, tcp_server x idle svc = Ok (Some r)).
Proof. apply tcp_server_answers. Qed.

Lemma top_udp_server_served x cfg svc : reject_rcode x = None ->
  udp_server x cfg svc =
  match svc with
  | SvcOk m => do r <- udp_response (x_base x) cfg m; Ok (Some r)
  | SvcErr rc => Ok (Some (error_response_gen true (x_base x) rc))
  | SvcNone => Ok None
  end.
Proof.
  intros H. unfold udp_server, udp_response. rewrite (udp_server_served _ _ _ x cfg svc H).
  rewrite eq_true. reflexivity.
Qed.

Lemma top_udp_server_rejects x cfg svc rc : hint_ok cfg -> Forall wf_q (firstn 1 (x_qs x)) ->
  reject_rcode x = Some rc -> exists r, udp_server x cfg svc = Ok (Some r) /\ err_reply x rc r.
Proof. unfold udp_server. rewrite eq_true. apply udp_server_rejects. Qed.

Lemma top_tcp_server_served x idle svc : reject_rcode_tcp x = None ->
  match svc with
  | SvcOk m => exists r, tcp_server x idle svc = Ok (Some r) /\ stream_kept x m r
  | SvcErr rc => tcp_server x idle svc = Ok (Some (error_response_gen true (x_base x) rc))
  | SvcNone => tcp_server x idle svc = Ok None
  end.
Proof.
  intros H. pose proof (tcp_server_served FX FQ EQ x idle svc H) as S.
  unfold tcp_server. rewrite eq_true in *. exact S.
Qed.

Lemma top_tcp_server_rejects x idle svc rc : reject_rcode_tcp x = Some rc ->
  exists r, tcp_server x idle svc = Ok (Some r) /\ err_reply x rc r.
Proof. unfold tcp_server. rewrite eq_true. apply tcp_server_rejects. Qed.

(* the size / TC discipline lifted to the server as a whole: for a request that
   reaches the service, the datagram sent for a service response is within the
   property text's limit, carries TC exactly when the response (after the OPT
   fix-up) exceeded it or the service had set TC, keeps a prefix of the
   questions, and has TC set whenever a record section was dropped *)
Lemma top_udp_server_served_discipline x cfg m r :
  hint_ok cfg -> mlen m <= 65535 -> reject_rcode x = None ->
  udp_server x cfg (SvcOk m) = Ok (Some r) ->
  mlen r <= text_limit (x_client x) cfg /\
  (tc_set (m_b2 r) = true <->
   (text_limit (x_client x) cfg < mlen (edns_post (is_some (x_client x)) m) \/ tc_set (m_b2 m) = true)) /\
  (exists rest, m_qs m = m_qs r ++ rest) /\
  ((m_an r <> m_an m \/ m_ns r <> m_ns m) -> tc_set (m_b2 r) = true).
Proof.
  intros Hk Hl Hr E. rewrite (top_udp_server_served x cfg (SvcOk m) Hr) in E.
  destruct (udp_response (x_base x) cfg m) as [r'| | |] eqn:U; try discriminate.
  cbn [bind] in E. inversion E; subst r'; clear E.
  split; [|split; [|split]].
  - pose proof U as U'. unfold udp_response in U'.
    destruct (udp_size_bound_service _ _ _ (x_base x) cfg m r (or_introl fq_true) Hk Hl U') as (lim & L & B).
    change (udp_limit_gen trunc_no_opt_is_min) with udp_limit in L.
    rewrite (top_limit_is_text _ _ Hk) in L. inversion L; subst. exact B.
  - exact (top_hint_handover (x_base x) cfg m r Hk Hl U).
  - destruct (top_id_question_echoed (x_base x) cfg m r Hl U) as (_ & Q & _). exact Q.
  - unfold udp_response, udp_response_gen in U.
    destruct (hint_after_edns (rq_client (x_base x)) cfg) as [h| | |]; try discriminate.
    cbn [bind] in U. inversion U as [U']; clear U.
    set (m' := edns_post (is_some (rq_client (x_base x))) m) in *.
    assert (Hl' : mlen m' <= 65535) by (apply edns_post_len; exact Hl).
    destruct (edns_post_same (is_some (rq_client (x_base x))) m) as (_ & _ & _ & _ & A5 & A6).
    fold m' in A5, A6. intros D.
    apply (dropped_implies_tc _ _ _ (x_base x) _ m' Hl'). rewrite A5, A6. tauto.
Qed.

(* ---- non-vacuity: the premises above are met by ordinary requests ----------------- *)
Definition ex_x (o : opt_state) : xreq := mkX 5 1 1 [mkQ [[97]] 1 1] o.
Definition ex_big : msg := mk_response (x_base (ex_x (OptOne 1232 0))) 129 0 100 15 0 11 None.

Example rejects_nonvacuous :
  exists r, udp_server (ex_x (OptOne 1232 1)) (Some 1232) SvcNone = Ok (Some r) /\
            m_b3 r = 0 /\ m_qs r = [mkQ [[97]] 1 1] /\ m_id r = 5.
Proof. eexists. split; [vm_compute; reflexivity|]. repeat split; reflexivity. Qed.

Example served_discipline_nonvacuous :
  reject_rcode (ex_x (OptOne 1232 0)) = None /\ mlen ex_big = 1519 /\
  exists r, udp_server (ex_x (OptOne 1232 0)) (Some 1232) (SvcOk ex_big) = Ok (Some r) /\
            tc_set (m_b2 r) = true /\ m_an r = [] /\ mlen r = 30.
Proof.
  split; [reflexivity|]. split; [vm_compute; reflexivity|].
  eexists. split; [vm_compute; reflexivity|]. repeat split; vm_compute; reflexivity.
Qed.

Example tcp_served_nonvacuous :
  reject_rcode_tcp (ex_x (OptOne 1232 0)) = None /\
  exists r, tcp_server (ex_x (OptOne 1232 0)) (Some 30000) (SvcOk ex_big) = Ok (Some r) /\
            m_an r = m_an ex_big /\ tc_set (m_b2 r) = false /\ mlen r = 1519 + 17.
Proof.
  split; [reflexivity|]. eexists. split; [vm_compute; reflexivity|]. repeat split; vm_compute; reflexivity.
Qed.

(* ---- 6. a datagram end to end: the premise on the question discharged ------------ *)

(* (as in C04/ProofsAccept.v, restated here to keep coq/C16 independent of coq/C04)
   what the uncompressed name decoder accepts is the wire form of a valid name *)
Lemma wire_abs_cons2 l n : wire_abs (l :: n) = wire_label l ++ wire_abs n.
Proof. unfold wire_abs, wire_rel. cbn [map concat]. rewrite <- app_assoc. reflexivity. Qed.

Lemma parse_flat_sound : forall fuel b acc used n rest, (used <= 254)%nat ->
  parse_flat fuel b acc used = inl (Some (n, rest)) ->
  exists m, n = rev acc ++ m /\ b = wire_abs m ++ rest /\
    Forall (fun l : label => (1 <= length l <= 63)%nat) m /\ (used + wire_len m <= 254)%nat.
Proof.
  induction fuel as [|fuel IH]; intros b acc used n rest Hu0 H; [discriminate|].
  cbn [parse_flat] in H. destruct b as [|h t]; [discriminate|].
  destruct (N.eqb_spec h 0) as [Hz|Hz].
  - inversion H; subst. exists []. rewrite app_nil_r. repeat split; [constructor|cbn [wire_len]; lia].
  - destruct (N.ltb_spec 63 h) as [H63|H63]; [discriminate|].
    destruct (Nat.ltb_spec (length t) (N.to_nat h)) as [Hs|Hs]; [discriminate|].
    destruct (Nat.ltb_spec 254 (used + 1 + N.to_nat h)) as [Hl|Hl]; [discriminate|].
    apply IH in H; [|lia]. destruct H as [m [Hn [Hb [Hv Hu]]]].
    exists (firstn (N.to_nat h) t :: m).
    assert (Hlen : length (firstn (N.to_nat h) t) = N.to_nat h) by (apply firstn_length_le; lia).
    split; [rewrite Hn; cbn [rev]; rewrite <- app_assoc; reflexivity|]. split.
    + rewrite wire_abs_cons2. unfold wire_label. rewrite Hlen, N2Nat.id. cbn [app]. f_equal.
      rewrite <- app_assoc, <- Hb. symmetry. apply firstn_skipn.
    + split; [constructor; [lia|exact Hv]|]. cbn [wire_len]. lia.
Qed.

Lemma decode_abs_valid w n rest : wf_bytes w -> decode_abs w = inl (Some (n, rest)) ->
  valid_abs n /\ wf_bytes rest.
Proof.
  intros Hw H. unfold decode_abs in H. apply parse_flat_sound in H; [|lia].
  destruct H as [m [Hn [Hb [Hv Hu]]]]. cbn [rev app] in Hn. subst m.
  rewrite Hb in Hw. apply wf_bytes_app in Hw as [Hw Hr]. split; [|exact Hr].
  split; [|lia].
  clear - Hv Hw. induction n as [|l n IH]; [constructor|].
  inversion Hv; subst. rewrite wire_abs_cons2 in Hw. apply wf_bytes_app in Hw as [Hl Hn].
  constructor; [split; [assumption|]|apply IH; assumption].
  unfold wire_label in Hl. inversion Hl; assumption.
Qed.

Lemma of_be16_bound a b : a < 256 -> b < 256 -> of_be16 a b < 65536.
Proof. unfold of_be16. lia. Qed.

(* the questions the server reads from received octets are well-formed *)
Lemma parse_prefix_wf n : forall w, wf_bytes w -> Forall wf_q (parse_questions_prefix n w).
Proof.
  induction n as [|n IH]; intros w Hw; [constructor|].
  cbn [parse_questions_prefix]. destruct (decode_abs w) as [[[nm r]|]|] eqn:E; try constructor.
  destruct r as [|t1 [|t2 [|c1 [|c2 rest]]]]; try constructor.
  - destruct (decode_abs_valid _ _ _ Hw E) as (V & Hr).
    inversion Hr as [|? ? H1 Hr1]; subst. inversion Hr1 as [|? ? H2 Hr2]; subst.
    inversion Hr2 as [|? ? H3 Hr3]; subst. inversion Hr3 as [|? ? H4 Hr4]; subst.
    unfold wf_q. cbn [q_name q_type q_class]. split; [exact V|]. split; apply of_be16_bound; assumption.
  - destruct (decode_abs_valid _ _ _ Hw E) as (_ & Hr).
    inversion Hr as [|? ? H1 Hr1]; subst. inversion Hr1 as [|? ? H2 Hr2]; subst.
    inversion Hr2 as [|? ? H3 Hr3]; subst. inversion Hr3 as [|? ? H4 Hr4]; subst.
    apply IH. exact Hr4.
Qed.

Lemma wf_bytes_firstn k (w : bytes) : wf_bytes w -> wf_bytes (firstn k w).
Proof. intros H. rewrite <- (firstn_skipn k w) in H. apply wf_bytes_app in H. tauto. Qed.

Lemma xreq_of_buffer_wf b x : wf_bytes b -> xreq_of_buffer b = Some x ->
  Forall wf_q (x_qs x) /\ x_opt x = OptNone.
Proof.
  unfold xreq_of_buffer, parse_header. intros Hw.
  destruct b as [|i1 [|i2 [|b2 [|b3 [|q1 [|q2 [|a1 [|a2 [|n1 [|n2 [|r1 [|r2 rest]]]]]]]]]]]]; try discriminate.
  destruct ((of_be16 a1 a2 =? 0) && (of_be16 n1 n2 =? 0) && (of_be16 r1 r2 =? 0)); [|discriminate].
  intros E; inversion E; subst. cbn [x_qs x_opt]. split; [|reflexivity].
  apply parse_prefix_wf.
  change (wf_bytes ([i1; i2; b2; b3; q1; q2; a1; a2; n1; n2; r1; r2] ++ rest)) in Hw.
  apply wf_bytes_app in Hw. tauto.
Qed.

Lemma Forall_firstn_list {A} (P : A -> Prop) k l : Forall P l -> Forall P (firstn k l).
Proof. intros H. rewrite <- (firstn_skipn k l) in H. apply Forall_app in H. tauto. Qed.

(* any datagram of octets that the model reads as a request (no records, no
   compression pointers), any service behaviour, any configured limit: whatever
   is sent back has the request's id, QR set, and at most 512 octets *)
Lemma top_dgram_end_to_end d cfg svc x r :
  wf_bytes d -> hint_ok cfg -> (forall m, svc = SvcOk m -> mlen m <= 65535) ->
  xreq_of_datagram d = Some x -> udp_server x cfg svc = Ok (Some r) ->
  mlen r <= 512 /\ m_id r = x_id x /\ hdr_ok x r.
Proof.
  intros Hw Hk Hm Hx E.
  assert (F : dgram_parses_whole_buffer = false) by reflexivity.
  unfold xreq_of_datagram, dgram_buffer in Hx. rewrite F in Hx. unfold dgram_buffer_gen in Hx.
  destruct (xreq_of_buffer_wf _ x (wf_bytes_firstn _ d Hw) Hx) as (Q & O).
  split; [|split; [exact (top_udp_server_id _ _ _ _ E)|exact (top_udp_server_hdr _ _ _ _ E)]].
  pose proof (top_udp_server_bound x cfg svc r Hk (Forall_firstn_list _ 1 _ Q) Hm E) as B.
  unfold x_client in B. rewrite O in B. exact B.
Qed.

Example dgram_end_to_end_nonvacuous :
  exists x r, xreq_of_datagram [18; 52; 1; 0; 0; 1; 0; 0; 0; 0; 0; 0; 1; 97; 0; 0; 1; 0; 1] = Some x /\
    udp_server x (Some 1232) (SvcOk (mk_response (x_base x) 129 0 100 15 0 11 None)) = Ok (Some r) /\
    mlen r = 19 /\ tc_set (m_b2 r) = true /\ m_id r = 4660.
Proof. eexists. eexists. split; [vm_compute; reflexivity|]. split; [vm_compute; reflexivity|]. repeat split; vm_compute; reflexivity. Qed.

(* ---- 7. the responses of one connection, as written: framed, exactly once each ---- *)

Definition tcp_req := (xreq * option N * svc_result)%type.
Definition tcp_answered (q : tcp_req) (r : msg) : Prop :=
  let '(x, idle, svc) := q in
  12 + qs_len (x_qs x) + 11 <= 65535 /\ (forall m, svc = SvcOk m -> mlen m <= 65535) /\
  tcp_server x idle svc = Ok (Some r).

(* the octets written for any sequence of requests of a connection split back into
   exactly the responses, one frame each, in order *)
Lemma tcp_responses_framed (qs : list tcp_req) (rs : list msg) : Forall2 tcp_answered qs rs ->
  Forall (fun r => frame_out (wire_msg r) = Ok (frame (wire_msg r))) rs /\
  split_frames (S (length rs)) (concat (map (fun r => frame (wire_msg r)) rs)) = (map wire_msg rs, []).
Proof.
  intros H.
  assert (L : Forall (fun m => len m <= 65535) (map wire_msg rs)).
  { induction H as [|[[x idle] svc] r qs' rs' (A & B & C) _ IH]; [constructor|].
    cbn [map]. constructor; [|exact IH].
    destruct (top_tcp_server_framed x idle svc r A B C) as (M & _). exact M. }
  destruct (framing_roundtrip _ L) as (F & S). rewrite map_map, map_length in S. split; [|exact S].
  rewrite Forall_map in F. exact F.
Qed.

Example tcp_responses_framed_nonvacuous :
  exists r, tcp_answered (ex_x (OptOne 1232 0), Some 30000, SvcOk ex_big) r.
Proof.
  eexists. unfold tcp_answered. split; [vm_compute; discriminate|]. split; [|vm_compute; reflexivity].
  intros m E. inversion E; subst. vm_compute. discriminate.
Qed.
