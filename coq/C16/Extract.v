From Coq Require Import Extraction ExtrOcamlBasic NArith.
From DV Require Import Base.Outcome C16.Gen C16.Model.
Extraction Language OCaml.
Extraction "../build/ml/C16/model.ml" c16_hint c16_push c16_udp c16_srv c16_recfg c16_accept c16_idle c16_limit c16_ck c16_pad c16_tcp c16_frame_out c16_conn c16_cfg.
