(* C16 -- property theorems only.  Proofs live in C16/Proofs*.v. *)
From Coq Require Import NArith List.
From DV Require Import Base.Outcome Base.Bytes C16.Gen C16.Model C16.ProofsNeg C16.ProofsTrunc
  C16.ProofsFrame C16.ProofsSrv C16.ProofsTop C16.ProofsC02 C16.ProofsWide.
Import ListNotations.
Local Open Scope N_scope.

(* ---- negotiation ---- *)
Theorem C16_negotiate_spec : forall c h,
  negotiate c (Some h) = Ok (N.min (N.max c 512) (N.max h 512)) /\
  negotiate c None = Ok (N.max c 512).
Proof. exact negotiate_closed_form. Qed.
Print Assumptions C16_negotiate_spec.

Theorem C16_negotiate_no_panic : forall c h, no_panic (negotiate c h).
Proof. exact negotiate_no_panic. Qed.
Print Assumptions C16_negotiate_no_panic.

Theorem C16_limit_with_edns : forall c hint, hint_ok hint ->
  udp_limit (Some c) hint = Ok (text_limit (Some c) hint).
Proof. exact top_limit_with_edns. Qed.
Print Assumptions C16_limit_with_edns.

Theorem C16_limit_is_property_text : forall client hint, hint_ok hint ->
  udp_limit client hint = Ok (text_limit client hint).
Proof. exact top_limit_is_text. Qed.
Print Assumptions C16_limit_is_property_text.

Theorem C16_small_hint_refuted :
  exists c h, udp_limit (Some c) (Some h) = Ok 512 /\ text_limit (Some c) (Some h) < 512.
Proof. exact limit_small_hint_refuted. Qed.
Print Assumptions C16_small_hint_refuted.

Theorem C16_cfg_hint_range : forall v h, cfg_hint v = Some h -> cfg_min <= h <= cfg_max.
Proof. exact cfg_hint_range. Qed.
Print Assumptions C16_cfg_hint_range.

(* ---- push limit ---- *)
Theorem C16_push_limit_strict : forall l pos add p,
  push_limited (Some l) pos add = Ok p <-> p = pos + add /\ pos + add < l /\ pos + add <= 65535.
Proof. exact push_limited_ok. Qed.
Print Assumptions C16_push_limit_strict.

Theorem C16_push_script_bound : forall l adds pos, pos < l ->
  snd (push_script (Some l) pos adds) < l.
Proof. exact top_push_script_bound. Qed.
Print Assumptions C16_push_script_bound.

(* ---- truncation and the UDP size bound ---- *)
Theorem C16_udp_size_cases : forall rq hint m, mlen m <= 65535 ->
  (mlen m <= tmax rq hint /\ mlen (post rq hint m) = mlen m /\
   tc_set (m_b2 (post rq hint m)) = tc_set (m_b2 m) /\ m_qs (post rq hint m) = m_qs m /\
   m_an (post rq hint m) = m_an m /\ m_ns (post rq hint m) = m_ns m /\ m_ar (post rq hint m) = m_ar m) \/
  (tmax rq hint < mlen m /\ mlen (post rq hint m) = mlen (tform (tmax rq hint) m) /\
   tc_set (m_b2 (post rq hint m)) = true /\
   m_qs (post rq hint m) = kept_q (tmax rq hint) (m_qs m) /\
   m_an (post rq hint m) = [] /\ m_ns (post rq hint m) = [] /\
   m_ar (post rq hint m) = trunc_ar (tmax rq hint) (kept_q (tmax rq hint) (m_qs m)) (m_ar m)).
Proof. exact top_udp_size_cases. Qed.
Print Assumptions C16_udp_size_cases.

(* the truncated form, three ways: no OPT / the response's OPT when it fits /
   the OPT without its options when only that fits *)
Theorem C16_truncated_form_three_way : forall max m,
  let qs := kept_q max (m_qs m) in
  (trunc_ar max qs (m_ar m) = [] /\ mlen (tform max m) = 12 + qs_len qs) \/
  (exists o, first_opt (m_ar m) = Some o /\ trunc_ar max qs (m_ar m) = [RROpt o] /\
             mlen (tform max m) = 12 + qs_len qs + opt_len o /\ 12 + qs_len qs + opt_len o <= max) \/
  (exists o, first_opt (m_ar m) = Some o /\ trunc_ar max qs (m_ar m) = [RROpt (min_opt o)] /\
             mlen (tform max m) = 12 + qs_len qs + 11 /\
             max < 12 + qs_len qs + opt_len o /\ 12 + qs_len qs + 11 <= max).
Proof. exact top_trunc_three_way. Qed.
Print Assumptions C16_truncated_form_three_way.

Theorem C16_kept_questions : forall max qs,
  (exists rest, qs = kept_q max qs ++ rest) /\
  (12 + qs_len qs <= max -> kept_q max qs = qs) /\
  (12 <= max -> 12 + qs_len (kept_q max qs) <= max).
Proof. exact top_kept_questions. Qed.
Print Assumptions C16_kept_questions.

(* the response of the middleware stack fits the limit - no proviso left but a
   limit of at least the 12 header octets (it is at least 512) *)
Theorem C16_udp_size_bound : forall rq hint m, mlen m <= 65535 -> 12 <= tmax rq hint ->
  mlen (post rq hint m) <= tmax rq hint.
Proof. exact top_udp_size_bound. Qed.
Print Assumptions C16_udp_size_bound.

(* one well-formed question (every ordinary response): within the property
   text's limit, with or without EDNS, whatever the service produced *)
Theorem C16_udp_size_bound_one_question : forall rq cfg m r q,
  m_qs m = [q] -> wf_q q -> hint_ok cfg -> mlen m <= 65535 ->
  udp_response rq cfg m = Ok r -> mlen r <= text_limit (rq_client rq) cfg.
Proof. exact top_udp_size_bound_one_question. Qed.
Print Assumptions C16_udp_size_bound_one_question.

(* the hand-over between the two middleware layers (shared size hint): TC exactly
   when the response, after the EDNS fix-ups, exceeds the negotiated limit, which is
   the property text's *)
Theorem C16_hint_handover : forall rq cfg m r, hint_ok cfg -> mlen m <= 65535 ->
  udp_response rq cfg m = Ok r ->
  tc_set (m_b2 r) = true <->
  (text_limit (rq_client rq) cfg < mlen (edns_post (is_some (rq_client rq)) m) \/ tc_set (m_b2 m) = true).
Proof. exact top_hint_handover. Qed.
Print Assumptions C16_hint_handover.

(* ---- the datagram server as a whole: every path that answers a datagram ---- *)
Theorem C16_udp_server_bound : forall x cfg svc r,
  hint_ok cfg -> Forall wf_q (firstn 1 (x_qs x)) ->
  (forall m, svc = SvcOk m -> mlen m <= 65535) ->
  udp_server x cfg svc = Ok (Some r) -> mlen r <= text_limit (x_client x) cfg.
Proof. exact top_udp_server_bound. Qed.
Print Assumptions C16_udp_server_bound.

Theorem C16_udp_server_total : forall x cfg svc, exists r, udp_server x cfg svc = Ok r.
Proof. exact top_udp_server_total. Qed.
Print Assumptions C16_udp_server_total.

Theorem C16_udp_server_id : forall x cfg svc r, udp_server x cfg svc = Ok (Some r) -> m_id r = x_id x.
Proof. exact top_udp_server_id. Qed.
Print Assumptions C16_udp_server_id.

Theorem C16_tc_iff : forall rq hint m, mlen m <= 65535 ->
  tc_set (m_b2 (post rq hint m)) = true <-> (tmax rq hint < mlen m \/ tc_set (m_b2 m) = true).
Proof. exact top_tc_iff. Qed.
Print Assumptions C16_tc_iff.

Theorem C16_dropped_implies_tc : forall rq hint m, mlen m <= 65535 ->
  (m_qs (post rq hint m) <> m_qs m \/ m_an (post rq hint m) <> m_an m \/
   m_ns (post rq hint m) <> m_ns m \/ m_ar (post rq hint m) <> m_ar m) ->
  tc_set (m_b2 (post rq hint m)) = true.
Proof. exact top_dropped_implies_tc. Qed.
Print Assumptions C16_dropped_implies_tc.

Theorem C16_truncated_wellformed : forall rq hint m,
  mlen m <= 65535 -> rq_id rq < 65536 -> wf_resp m -> tmax rq hint < mlen m ->
  tc_set (m_b2 (post rq hint m)) = true /\ m_an (post rq hint m) = [] /\ m_ns (post rq hint m) = [] /\
  m_qs (post rq hint m) = kept_q (tmax rq hint) (m_qs m) /\
  m_ar (post rq hint m) = trunc_ar (tmax rq hint) (m_qs (post rq hint m)) (m_ar m) /\
  parse_min (wire_msg (post rq hint m)) = Some (post rq hint m).
Proof. exact top_truncated_wellformed. Qed.
Print Assumptions C16_truncated_wellformed.

Theorem C16_id_question_echoed : forall rq cfg m r, mlen m <= 65535 ->
  udp_response rq cfg m = Ok r ->
  m_id r = rq_id rq /\ (exists rest, m_qs m = m_qs r ++ rest) /\
  (forall q, hint_ok cfg -> m_qs m = [q] -> wf_q q -> m_qs r = [q]).
Proof. exact top_id_question_echoed. Qed.
Print Assumptions C16_id_question_echoed.

Theorem C16_udp_response_total : forall rq cfg m, exists r, udp_response rq cfg m = Ok r.
Proof. exact top_udp_response_total. Qed.
Print Assumptions C16_udp_response_total.

(* ---- the datagram receive buffer ---- *)
(* a request is at least a header long and all its questions lie within the
   datagram's own octets *)
Theorem C16_dgram_received_only : forall d x,
  xreq_of_datagram d = Some x -> 12 + qs_len (x_qs x) <= len d.
Proof. exact top_dgram_received_only. Qed.
Print Assumptions C16_dgram_received_only.

Theorem C16_t1_shape_constants :
  frame_len_octets = 2 /\ frame_big_endian = true /\ shim_len = 2 /\ shim_big_endian = true /\
  tc_octet = 2 /\ tc_bit = 1 /\ header_len = 12 /\ max_queued_default = 10 /\ rc_refused = 5 /\
  stream_short_msg_disconnects = true /\ qr_request_gets_formerr = true /\
  frame_prefix_read_exact = true /\ stream_full_queue_retries = true /\ svc_error_bypasses_middleware = true.
Proof. exact t1_shape_constants. Qed.
Print Assumptions C16_t1_shape_constants.

(* ---- the cookies middleware's own rejections ---- *)
Theorem C16_cookie_reject_echo : forall rq cfg k r,
  hint_ok cfg -> Forall wf_q (firstn 1 (rq_qs rq)) ->
  cookie_reject_response rq cfg k = Ok r ->
  m_id r = rq_id rq /\ m_qs r = firstn 1 (rq_qs rq) /\ mlen r <= 282.
Proof. exact top_cookie_reject_echo. Qed.
Print Assumptions C16_cookie_reject_echo.

(* ---- the accept loop ---- *)
Theorem C16_accept_loop_serves_all : forall evs, accept_loop evs = map is_conn evs.
Proof. exact top_accept_loop. Qed.
Print Assumptions C16_accept_loop_serves_all.

(* ---- the stream server (EDNS non-UDP arm, edns-tcp-keepalive) ---- *)
Theorem C16_tcp_server_framed : forall x idle svc r,
  12 + qs_len (x_qs x) + 11 <= 65535 -> (forall m, svc = SvcOk m -> mlen m <= 65535) ->
  tcp_server x idle svc = Ok (Some r) ->
  mlen r <= 65535 /\ exists f, frame_out (wire_msg r) = Ok f.
Proof. exact top_tcp_server_framed. Qed.
Print Assumptions C16_tcp_server_framed.

Theorem C16_tcp_server_id : forall x idle svc r, tcp_server x idle svc = Ok (Some r) -> m_id r = x_id x.
Proof. exact top_tcp_server_id. Qed.
Print Assumptions C16_tcp_server_id.

Theorem C16_keepalive_option : forall ms ka, keepalive_option ms = Some ka ->
  exists v, v = ms / 100 /\ v < 65536 /\ ka = [0; 11; 0; 2; v / 256; v mod 256].
Proof. exact keepalive_option_spec. Qed.
Print Assumptions C16_keepalive_option.

(* ---- idle timeout, connection limit ---- *)
Theorem C16_idle_open_spec : forall reset_at timeout now,
  idle_open reset_at timeout now = true <-> now < reset_at + timeout.
Proof. exact idle_open_spec. Qed.
Print Assumptions C16_idle_open_spec.

Theorem C16_connection_limit : forall max k num, num <= max ->
  N.of_nat (length (filter (fun b => b) (served_connections max num k))) + num <= max /\
  (N.of_nat k + num <= max -> served_connections max num k = repeat true k).
Proof. exact served_connections_spec. Qed.
Print Assumptions C16_connection_limit.

(* ---- stream framing ---- *)
Theorem C16_framing_exact : forall m f, frame_out m = Ok f ->
  exists h l, f = h :: l :: m /\ h < 256 /\ l < 256 /\ of_be16 h l = len m /\ len f = len m + 2.
Proof. exact framing_exact. Qed.
Print Assumptions C16_framing_exact.

Theorem C16_framing_roundtrip : forall ms, Forall (fun m => len m <= 65535) ms ->
  Forall (fun m => frame_out m = Ok (frame m)) ms /\
  split_frames (S (length ms)) (concat (map frame ms)) = (ms, []).
Proof. exact framing_roundtrip. Qed.
Print Assumptions C16_framing_roundtrip.

Theorem C16_framing_chunk_independent : forall c1 c2, concat c1 = concat c2 ->
  conn_chunks conn_init c1 = conn_chunks conn_init c2.
Proof. exact framing_chunk_independent. Qed.
Print Assumptions C16_framing_chunk_independent.

Theorem C16_framing_is_split : forall chunks,
  snd (conn_chunks conn_init chunks) =
  events_of (fst (split_frames (S (length (concat chunks))) (concat chunks))).
Proof. exact framing_is_split. Qed.
Print Assumptions C16_framing_is_split.

Theorem C16_hostile_input_total : forall chunks,
  exists st ev, conn_chunks conn_init chunks = (st, ev) /\ Forall ok_event ev /\
    (forall pre post, ev = pre ++ EvDisconnect :: post -> post = []) /\
    (c_open st = false <-> In EvDisconnect ev).
Proof. exact hostile_input_total. Qed.
Print Assumptions C16_hostile_input_total.

(* ---- tie to C02's builder model: what the builder hands to a stream ---- *)
(* a response produced by ANY script of builder operations over a StreamTarget
   (C02's reachable states) is at most 65535 octets and its stream slice is the
   two-octet big-endian length followed by the message *)
Theorem C16_built_response_framed : forall s, built s ->
  len (C02.Model.msg_of s) <= 65535 /\
  frame_out (C02.Model.msg_of s) = Ok (C02.Model.stream_of s) /\
  C02.Model.stream_of s = frame (C02.Model.msg_of s).
Proof. exact built_framed. Qed.
Print Assumptions C16_built_response_framed.

(* pipelined: the concatenated stream slices of built responses split back into them *)
Theorem C16_built_pipeline_splits : forall ss, Forall built ss ->
  split_frames (S (length ss)) (concat (map C02.Model.stream_of ss)) = (map C02.Model.msg_of ss, []).
Proof. exact built_pipeline. Qed.
Print Assumptions C16_built_pipeline_splits.

(* ---- widening round: pipelined requests, reply header, which path answers ---- *)
(* pipelined well-formed request frames (QR clear: to the service; QR set: a direct
   FORMERR) are delivered exactly once each, in order, for every chunking, and the
   connection stays open *)
Theorem C16_pipeline_delivered_once : forall ms chunks, Forall is_msg ms ->
  concat chunks = concat (map frame ms) ->
  exists st, conn_chunks conn_init chunks = (st, map ev_of ms) /\ c_open st = true.
Proof. exact pipeline_exact. Qed.
Print Assumptions C16_pipeline_delivered_once.

(* ... and whatever follows them on the connection (garbage, a short frame, an
   abort mid-frame) does not take them back *)
Theorem C16_pipeline_prefix_survives : forall ms junk chunks, Forall is_msg ms ->
  concat chunks = concat (map frame ms) ++ junk ->
  exists rest, snd (conn_chunks conn_init chunks) = map ev_of ms ++ rest.
Proof. exact pipeline_prefix. Qed.
Print Assumptions C16_pipeline_prefix_survives.

(* every response, on every path: QR set, RD copied from the request *)
Theorem C16_udp_server_header : forall x cfg svc r, udp_server x cfg svc = Ok (Some r) ->
  N.testbit (m_b2 r) 7 = true /\ N.testbit (m_b2 r) 0 = N.testbit (x_b2 x) 0.
Proof. exact top_udp_server_hdr. Qed.
Print Assumptions C16_udp_server_header.

Theorem C16_tcp_server_header : forall x idle svc r, tcp_server x idle svc = Ok (Some r) ->
  N.testbit (m_b2 r) 7 = true /\ N.testbit (m_b2 r) 0 = N.testbit (x_b2 x) 0.
Proof. exact top_tcp_server_hdr. Qed.
Print Assumptions C16_tcp_server_header.

(* whenever the service produced a response or failed, something is sent *)
Theorem C16_udp_server_answers : forall x cfg svc, svc <> SvcNone ->
  exists r, udp_server x cfg svc = Ok (Some r).
Proof. exact top_udp_server_answers. Qed.
Print Assumptions C16_udp_server_answers.

Theorem C16_tcp_server_answers : forall x idle svc,
  (exists r, tcp_server x idle svc = Ok r) /\
  (svc <> SvcNone -> exists r, tcp_server x idle svc = Ok (Some r)).
Proof. exact top_tcp_server_answers. Qed.
Print Assumptions C16_tcp_server_answers.

(* a request that is not rejected: the datagram server is the service's result
   passed through the middleware response path *)
Theorem C16_udp_server_served : forall x cfg svc, reject_rcode x = None ->
  udp_server x cfg svc =
  match svc with
  | SvcOk m => do r <- udp_response (x_base x) cfg m; Ok (Some r)
  | SvcErr rc => Ok (Some (error_response_gen true (x_base x) rc))
  | SvcNone => Ok None
  end.
Proof. exact top_udp_server_served. Qed.
Print Assumptions C16_udp_server_served.

(* a rejected request (reply received as request, IQUERY, QDCOUNT > 1, several /
   unparseable OPT, EDNS version > 0): one error reply with that rcode, the
   request's id and first question, whatever the service would do *)
Theorem C16_udp_server_rejects : forall x cfg svc rc,
  hint_ok cfg -> Forall wf_q (firstn 1 (x_qs x)) -> reject_rcode x = Some rc ->
  exists r, udp_server x cfg svc = Ok (Some r) /\ err_reply x rc r.
Proof. exact top_udp_server_rejects. Qed.
Print Assumptions C16_udp_server_rejects.

(* size / TC discipline at the level of the whole datagram server *)
Theorem C16_udp_server_served_discipline : forall x cfg m r,
  hint_ok cfg -> mlen m <= 65535 -> reject_rcode x = None ->
  udp_server x cfg (SvcOk m) = Ok (Some r) ->
  mlen r <= text_limit (x_client x) cfg /\
  (tc_set (m_b2 r) = true <->
   (text_limit (x_client x) cfg < mlen (edns_post (is_some (x_client x)) m) \/ tc_set (m_b2 m) = true)) /\
  (exists rest, m_qs m = m_qs r ++ rest) /\
  ((m_an r <> m_an m \/ m_ns r <> m_ns m) -> tc_set (m_b2 r) = true).
Proof. exact top_udp_server_served_discipline. Qed.
Print Assumptions C16_udp_server_served_discipline.

(* the stream server never truncates: question, answer, authority, rcode, TC and
   the non-OPT additional records of the service's response leave as they are *)
Theorem C16_tcp_server_served : forall x idle svc, reject_rcode_tcp x = None ->
  match svc with
  | SvcOk m => exists r, tcp_server x idle svc = Ok (Some r) /\ stream_kept x m r
  | SvcErr rc => tcp_server x idle svc = Ok (Some (error_response_gen true (x_base x) rc))
  | SvcNone => tcp_server x idle svc = Ok None
  end.
Proof. exact top_tcp_server_served. Qed.
Print Assumptions C16_tcp_server_served.

Theorem C16_tcp_server_rejects : forall x idle svc rc, reject_rcode_tcp x = Some rc ->
  exists r, tcp_server x idle svc = Ok (Some r) /\ err_reply x rc r.
Proof. exact top_tcp_server_rejects. Qed.
Print Assumptions C16_tcp_server_rejects.

(* a datagram end to end: any octets the model reads as a request (no records, no
   compression pointers), any service behaviour, any configured limit - what is sent
   back has the request's id, QR set, RD copied, and at most 512 octets; the
   premise on the question's well-formedness is discharged by the parser *)
Theorem C16_dgram_end_to_end : forall d cfg svc x r,
  wf_bytes d -> hint_ok cfg -> (forall m, svc = SvcOk m -> mlen m <= 65535) ->
  xreq_of_datagram d = Some x -> udp_server x cfg svc = Ok (Some r) ->
  mlen r <= 512 /\ m_id r = x_id x /\
  (N.testbit (m_b2 r) 7 = true /\ N.testbit (m_b2 r) 0 = N.testbit (x_b2 x) 0).
Proof. exact top_dgram_end_to_end. Qed.
Print Assumptions C16_dgram_end_to_end.

(* the questions read from received octets are well-formed *)
Theorem C16_parsed_questions_wellformed : forall n w, wf_bytes w ->
  Forall wf_q (parse_questions_prefix n w).
Proof. exact parse_prefix_wf. Qed.
Print Assumptions C16_parsed_questions_wellformed.

(* the octets a connection writes for any sequence of answered requests split back
   into exactly the responses: one correctly framed message each, in order *)
Theorem C16_tcp_responses_framed : forall (qs : list tcp_req) (rs : list msg),
  Forall2 tcp_answered qs rs ->
  Forall (fun r => frame_out (wire_msg r) = Ok (frame (wire_msg r))) rs /\
  split_frames (S (length rs)) (concat (map (fun r => frame (wire_msg r)) rs)) = (map wire_msg rs, []).
Proof. exact tcp_responses_framed. Qed.
Print Assumptions C16_tcp_responses_framed.
