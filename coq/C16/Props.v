(* C16 -- property theorems only.  Proofs live in C16/Proofs*.v. *)
From Coq Require Import NArith List.
From DV Require Import Base.Outcome Base.Bytes C16.Gen C16.Model C16.ProofsNeg.
Import ListNotations.
Local Open Scope N_scope.

Theorem C16_negotiate_spec : forall c h,
  negotiate c (Some h) = Ok (N.min (N.max c 512) (N.max h 512)) /\
  negotiate c None = Ok (N.max c 512).
Proof. intros; split; [apply negotiate_spec|apply negotiate_spec_none]. Qed.
Print Assumptions C16_negotiate_spec.

Theorem C16_negotiate_no_panic : forall c h, no_panic (negotiate c h).
Proof. exact negotiate_no_panic. Qed.
Print Assumptions C16_negotiate_no_panic.

Theorem C16_push_limit_strict : forall l pos add p,
  push_limited (Some l) pos add = Ok p <-> p = pos + add /\ pos + add < l /\ pos + add <= 65535.
Proof. exact push_limited_ok. Qed.
Print Assumptions C16_push_limit_strict.
