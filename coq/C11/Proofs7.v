(* C11/Proofs7.v -- the layout premise MsgAt of the sign/verify theorems holds
   for every message a MessageBuilder can produce (C02's builder model: any
   finite sequence of pushes, section changes, rewinds, limits; any target, any
   compressor): the bridge from C02's reachable-state invariant (Layout: QsAt /
   RsAt) to C11's QuestionsAt / RecordsAt / MsgAt. *)
From Coq Require Import NArith List Bool Lia ZArith.
From Coq Require Import ZifyN ZifyBool ZifyNat.
From DV Require Import Base.Outcome Base.Bytes Base.Names Base.PName.
From DV Require Import C02.Gen C02.Model C02.ProofsBasic C02.ProofsRun C02.ProofsName C02.ProofsComp C02.ProofsTop
  C02.ProofsLayout C02.ProofsBuild.
From DV Require C11.Model.
From DV Require Import C11.Proofs4.
Import ListNotations.
Local Open Scope N_scope.
Ltac Zify.zify_post_hook ::= Z.div_mod_to_equations.

Lemma in_firstn {A} (x : A) n l : In x (firstn n l) -> In x l.
Proof.
  revert l; induction n as [|n IH]; intros l H; [cbn in H; contradiction|].
  destruct l as [|y l]; [cbn in H; contradiction|]. cbn in H. destruct H as [->|H]; [left; reflexivity | right; apply IH; exact H].
Qed.

Lemma NameAtO_NameAt m e p n e1 : NameAtO m (C02.ProofsLayout.okb e) p n e1 -> NameAt m e p e1.
Proof.
  intros (n' & H & C & [Hv Hw]). exists n'. split; [exact H|].
  split; [eapply NameIn_valid; eauto|]. rewrite (canon_wire_len _ _ C). exact Hw.
Qed.

Lemma QAt_QuestionAt m p q e : QAt m p q e -> QuestionAt m p e.
Proof.
  intros (e1 & Hn & (_ & _ & He) & -> & _ & L). exists e1.
  rewrite !mlen_app in He. change (mlen (be16 (q_type q))) with 2 in He. change (mlen (be16 (q_class q))) with 2 in He.
  split; [eapply NameAtO_NameAt; eauto|]. repeat split; auto; lia.
Qed.

Lemma RAt_RecordAt m p r e : RAt m p r e -> RecordAt m p (r_type r) e.
Proof.
  intros (e1 & Hn & (Hb & _ & He) & Hi & L1 & L2 & (_ & Ht & Hc & _ & _) & L).
  rewrite !mlen_app in He. change (mlen (be16 (r_type r))) with 2 in He. change (mlen (be16 (r_class r))) with 2 in He.
  change (mlen (be32 (r_ttl r))) with 4 in He. change (mlen (be16 (e - (e1 + 10)))) with 2 in He.
  pose proof (ItemsIn_end _ _ _ _ _ Hi ltac:(lia)) as [_ Hm].
  exists e1, (r_class r), (r_ttl r). split; [eapply NameAtO_NameAt; eauto|]. repeat split; auto.
Qed.

Lemma QsAt_QuestionsAt m p qs e : QsAt m p qs e -> QuestionsAt m p (length qs) e.
Proof. induction 1 as [|p q e1 qs e Hq _ IH]; [constructor|]. cbn [length]. econstructor; [eapply QAt_QuestionAt; eauto|exact IH]. Qed.

Lemma RsAt_RecordsAt m p rs e : RsAt m p rs e -> RecordsAt m p (map r_type rs) e.
Proof. induction 1 as [|p r e1 rs e Hr _ IH]; [constructor|]. cbn [map]. econstructor; [eapply RAt_RecordAt; eauto|exact IH]. Qed.

Lemma hdr_count_at m i v : bytes_at m (N.of_nat i) (be16 v) -> v < 65536 -> C11.Model.hdr_count m i = v.
Proof.
  intros Hb Hv. unfold be16 in Hb. apply bytes_at_cons in Hb as [H0 Hb]. apply bytes_at_cons in Hb as [H1 _].
  unfold get in H0, H1. rewrite Nat2N.id in H0. replace (N.to_nat (N.of_nat i + 1)) with (S i) in H1 by lia.
  unfold C11.Model.hdr_count, C11.Model.byte_at.
  rewrite (nth_error_nth _ _ 0 H0), (nth_error_nth _ _ 0 H1). apply be16_roundtrip. exact Hv.
Qed.

(* every message the builder model can reach is laid out; its record types are
   those of the accepted pushes *)
Theorem built_message_laid_out c ops s0 s a ws :
  init c = Some s0 -> Forall wf_op ops ->
  run_acc c s0 acc0 ops = (s, a, ws) -> all_alive ws ->
  Forall (fun b => b < 256) (b_hdr s) ->
  Forall (fun r => r_type r <> C11.Model.RTYPE_TSIG) (a_ar a) ->
  Forall (fun r => r_type r <> C11.Model.RTYPE_TSIG) (a_an a) ->
  Forall (fun r => r_type r <> C11.Model.RTYPE_TSIG) (a_ns a) ->
  MsgAt (msg_of s) (length (a_q a)) (map r_type (a_an a)) (map r_type (a_ns a)) (map r_type (a_ar a)).
Proof.
  intros HI Hwf HR AL Hh Hno Hnoan Hnons. destruct (init_inv c s0 HI) as (HB0 & HC0).
  destruct (run_acc_layout c ops s0 acc0 [12] s a ws HB0 HC0 (init_layout c s0 HI) Hwf HR AL) as (HB & HC & bs & HL).
  destruct HB as (_ & _ & L & _).
  destruct HC as (c1 & c2 & c3 & c4 & _).
  destruct HL as ((e0 & e1 & e2 & Q0 & R1 & R2 & R3 & _) & _ & _ & _ & (m1 & m2 & m3 & m4)).
  fold (buf_of s) in L.
  destruct (msg_of_split s L) as (h & Lh & E & Hb).
  assert (Lm : mlen (msg_of s) = mlen (buf_of s)) by (apply msg_of_mlen; exact L).
  pose proof (QsAt_end _ _ _ _ Q0) as [q1 q2]. pose proof (RsAt_end _ _ _ _ R1) as [r1 r1'].
  pose proof (RsAt_end _ _ _ _ R2) as [r2 r2']. pose proof (RsAt_end _ _ _ _ R3) as [r3 r3'].
  assert (Q0' : QsAt (msg_of s) 12 (a_q a) e0) by (eapply QsAt_agree; [apply agree_msg_of; exact L|lia|exact Q0]).
  assert (R1' : RsAt (msg_of s) e0 (a_an a) e1) by (eapply RsAt_agree; [apply agree_msg_of; exact L|lia|exact R1]).
  assert (R2' : RsAt (msg_of s) e1 (a_ns a) e2) by (eapply RsAt_agree; [apply agree_msg_of; exact L|lia|exact R2]).
  assert (R3' : RsAt (msg_of s) e2 (a_ar a) (mlen (msg_of s))) by (rewrite Lm; eapply RsAt_agree; [apply agree_msg_of; exact L|lia|exact R3]).
  apply bytes_at_split in Hb as [H1 Hb]. change (mlen (be16 (b_qd s))) with 2 in Hb.
  apply bytes_at_split in Hb as [H2 Hb]. change (mlen (be16 (b_an s))) with 2 in Hb.
  apply bytes_at_split in Hb as [H3 H4]. change (mlen (be16 (b_ns s))) with 2 in H4.
  unfold MsgAt. split; [lia|]. split.
  { (* the twelve header octets *)
    unfold hdr_wf, msg_of.
    set (hd := firstn 4 (b_hdr s ++ [0; 0; 0; 0])).
    assert (Hhd : Forall (fun b => b < 256) hd).
    { subst hd. apply Forall_forall. intros x Hx. apply in_firstn in Hx. apply in_app_or in Hx as [Hx|Hx].
      - eapply Forall_forall in Hh; eauto.
      - cbn in Hx. repeat destruct Hx as [<-|Hx]; try lia; contradiction. }
    assert (L4 : length hd = 4%nat) by (subst hd; rewrite firstn_length, app_length; cbn [length]; lia).
    destruct hd as [|x0 [|x1 [|x2 [|x3 [|]]]]]; try (cbn in L4; lia).
    cbn [app firstn be16].
    repeat (constructor; [first [ lia | (inversion Hhd; subst; assumption) | idtac ] |]); try constructor.
    all: try (repeat match goal with H : Forall _ (_ :: _) |- _ => inversion H; subst; clear H end; assumption). }
  assert (Hhc : forall v, v <= 65535 -> v < 65536) by (intros; lia).
  split; [unfold C11.Model.qdcount; rewrite <- c1; apply (hdr_count_at _ 4); [exact H1|lia]|].
  split; [unfold C11.Model.ancount; rewrite map_length, <- c2; apply (hdr_count_at _ 6); [exact H2|lia]|].
  split; [unfold C11.Model.nscount; rewrite map_length, <- c3; apply (hdr_count_at _ 8); [exact H3|lia]|].
  split; [unfold C11.Model.arcount; rewrite map_length, <- c4; apply (hdr_count_at _ 10); [exact H4|lia]|].
  split; [apply Forall_map; exact Hno|]. split; [apply Forall_map; exact Hnoan|]. split; [apply Forall_map; exact Hnons|].
  exists e0, e1, e2. split; [apply QsAt_QuestionsAt; exact Q0'|].
  split; [apply RsAt_RecordsAt; exact R1'|]. split; [apply RsAt_RecordsAt; exact R2'|]. apply RsAt_RecordsAt; exact R3'.
Qed.

(* the request theorem for builder output: no layout premise left *)
Theorem sign_verify_request_built mac :
  (forall a k d, len (mac a k d) = C11.Model.native_len a) ->
  forall c ops s0 s a ws ks kr t fudge now cx w,
  init c = Some s0 -> Forall wf_op ops -> run_acc c s0 acc0 ops = (s, a, ws) -> all_alive ws ->
  Forall (fun b => b < 256) (b_hdr s) -> Forall (fun r => r_type r <> C11.Model.RTYPE_TSIG) (a_ar a) ->
  Forall (fun r => r_type r <> C11.Model.RTYPE_TSIG) (a_an a) -> Forall (fun r => r_type r <> C11.Model.RTYPE_TSIG) (a_ns a) ->
  C11.Proofs2.same_key ks kr -> C11.Model.k_min kr <= C11.Model.k_sign ks ->
  C11.Model.within_len_bounds (C11.Model.k_alg ks) (C11.Model.k_sign ks) = true ->
  name_ok (C11.Model.k_name ks) -> t < C11.Model.T48_LIMIT -> fudge < 65536 ->
  C11.Model.client_request mac ks (msg_of s) t fudge = Ok (cx, w) ->
  C11.Model.is_valid_at t fudge now = true ->
  exists rr, w = C11.Model.set_arcount (msg_of s) (C11.Model.arcount (msg_of s) + 1) ++ rr /\
    C11.Model.server_request mac kr w now = Ok (C11.Model.SrvOk cx (msg_of s ++ rr)).
Proof.
  intros Hl c ops s0 s a ws ks kr t fudge now cx w HI Hwf HR AL Hh Hno Hnoan Hnons Hk Hmin Hw Hn Ht Hf Hreq Hwin.
  eapply sign_verify_request_full; eauto. eapply built_message_laid_out; eauto.
Qed.

(* ... and the BADTIME and answer theorems for builder output *)
Theorem request_outside_window_badtime_built mac :
  (forall a k d, len (mac a k d) = C11.Model.native_len a) ->
  forall c ops s0 s a ws ks kr t fudge now cx w,
  init c = Some s0 -> Forall wf_op ops -> run_acc c s0 acc0 ops = (s, a, ws) -> all_alive ws ->
  Forall (fun b => b < 256) (b_hdr s) -> Forall (fun r => r_type r <> C11.Model.RTYPE_TSIG) (a_ar a) ->
  Forall (fun r => r_type r <> C11.Model.RTYPE_TSIG) (a_an a) -> Forall (fun r => r_type r <> C11.Model.RTYPE_TSIG) (a_ns a) ->
  C11.Proofs2.same_key ks kr -> C11.Model.k_min kr <= C11.Model.k_sign ks ->
  C11.Model.within_len_bounds (C11.Model.k_alg ks) (C11.Model.k_sign ks) = true ->
  name_ok (C11.Model.k_name ks) -> t < C11.Model.T48_LIMIT -> fudge < 65536 ->
  C11.Model.client_request mac ks (msg_of s) t fudge = Ok (cx, w) ->
  C11.Model.is_valid_at t fudge now = false ->
  C11.Model.server_request mac kr w now =
    Ok (C11.Model.SrvBadTime cx (C11.Model.Vars t fudge C11.Gen.RC_BADTIME (Some now))).
Proof.
  intros Hl c ops s0 s a ws ks kr t fudge now cx w HI Hwf HR AL Hh Hno Hnoan Hnons Hk Hmin Hw Hn Ht Hf Hreq Hwin.
  eapply request_outside_window_badtime_full; eauto. eapply built_message_laid_out; eauto.
Qed.

Theorem sign_verify_answer_built mac :
  (forall a k d, len (mac a k d) = C11.Model.native_len a) ->
  forall c ops s0 s a ws ks kr cx t fudge now w,
  init c = Some s0 -> Forall wf_op ops -> run_acc c s0 acc0 ops = (s, a, ws) -> all_alive ws ->
  Forall (fun b => b < 256) (b_hdr s) -> Forall (fun r => r_type r <> C11.Model.RTYPE_TSIG) (a_ar a) ->
  Forall (fun r => r_type r <> C11.Model.RTYPE_TSIG) (a_an a) -> Forall (fun r => r_type r <> C11.Model.RTYPE_TSIG) (a_ns a) ->
  C11.Proofs2.same_key ks kr -> C11.Model.k_min kr <= C11.Model.k_sign ks ->
  C11.Model.within_len_bounds (C11.Model.k_alg ks) (C11.Model.k_sign ks) = true ->
  name_ok (C11.Model.k_name ks) -> t < C11.Model.T48_LIMIT -> fudge < 65536 ->
  (C11.Model.hdr_rcode (msg_of s) =? C11.Gen.RC_NOTAUTH) = false ->
  C11.Model.server_answer mac ks cx (msg_of s) t fudge = Ok w ->
  C11.Model.is_valid_at t fudge now = true ->
  exists rr, w = C11.Model.set_arcount (msg_of s) (C11.Model.arcount (msg_of s) + 1) ++ rr /\
    C11.Model.client_answer mac kr cx w now = Ok (msg_of s ++ rr).
Proof.
  intros Hl c ops s0 s a ws ks kr cx t fudge now w HI Hwf HR AL Hh Hno Hnoan Hnons Hk Hmin Hw Hn Ht Hf Hrc Hans Hwin.
  eapply sign_verify_answer_full; eauto. eapply built_message_laid_out; eauto.
Qed.
