(* C11/ProofsB.v -- Key::generate builds the key Key::new builds from the
   generated octets, so every theorem over keys covers generated keys, and the
   truncation settings land in the fields they were given for. *)
From Coq Require Import NArith List Bool Lia.
From DV Require Import Base.Outcome Base.Bytes Base.Names Base.PName C11.Gen C11.Model C11.Generate.
Import ListNotations.
Local Open Scope N_scope.

Lemma generate_as_new a rnd nm mn sg :
  key_generate a rnd nm mn sg =
    do k <- key_new a (firstn (N.to_nat (native_len a)) rnd) nm mn sg; Ok (k, k_secret k).
Proof.
  unfold key_generate, key_new.
  destruct (calculate_bounds a mn sg) as [[m s]| | |]; reflexivity.
Qed.

Definition setting (a : alg) (o : option N) : N := match o with Some l => l | None => native_len a end.

Lemma generate_honours_settings a rnd nm mn sg k bits :
  key_generate a rnd nm mn sg = Ok (k, bits) ->
  k_alg k = a /\ k_secret k = bits /\ k_name k = nm /\
  k_min k = setting a mn /\ k_sign k = setting a sg /\
  within_len_bounds a (k_min k) = true /\ within_len_bounds a (k_sign k) = true.
Proof.
  intro H. rewrite generate_as_new in H. unfold key_new, calculate_bounds, setting in *.
  assert (Hn : within_len_bounds a (native_len a) = true) by (destruct a; reflexivity).
  destruct mn as [m|], sg as [s|]; simpl in H;
    repeat match type of H with context [within_len_bounds a ?l] => destruct (within_len_bounds a l) eqn:? end;
    simpl in H; inversion H; subst; simpl; auto 10.
Qed.

Lemma generate_rejects a rnd nm mn sg :
  (exists kb, key_generate a rnd nm mn sg = Ok kb) <->
  (forall l, mn = Some l -> within_len_bounds a l = true) /\ (forall l, sg = Some l -> within_len_bounds a l = true).
Proof.
  rewrite generate_as_new. unfold key_new, calculate_bounds.
  destruct mn as [m|], sg as [s|]; simpl;
    repeat match goal with |- context [within_len_bounds a ?l] => destruct (within_len_bounds a l) eqn:? end;
    simpl; split;
    try (intros [kb H]; discriminate H);
    try (intros _; split; intros l H; inversion H; subst; assumption);
    try (intros _; eexists; reflexivity);
    try (intros [H1 H2]; exfalso;
         first [ specialize (H1 _ eq_refl); congruence | specialize (H2 _ eq_refl); congruence ]).
Qed.

(* Model.key_new transcribes Key::new with the tuple taken in calculate_bounds' order: T1 reads that order *)
Lemma new_bounds_as_modelled : new_bounds_swapped = false.
Proof. reflexivity. Qed.
