(* Sha.v -- SHA-1, SHA-256, SHA-384, SHA-512 (FIPS 180-4) in Gallina.
   Self-contained (stdlib only) so that other properties can import it:
       From DV Require Import C11.Sha.
       sha1 sha256 sha384 sha512 : list N -> list N      (octets in, octets out)
   Octets are N below 256, words are N below 2^32 / 2^64; all word arithmetic is
   N.land/N.lor/N.lxor/N.ldiff/N.shiftl/N.shiftr and additions reduced with
   N.land mask (never N.modulo: the extracted code stays linear in the word
   size).  No nat for data-dependent sizes: the message length is counted in N,
   blocks are consumed by structural recursion on the word list, 16 words at a
   time.  The FIPS 180-4 / RFC 3174 / RFC 6234 test vectors are Examples closed
   by vm_compute at the end of the file. *)
From Coq Require Import NArith List String Ascii.
Import ListNotations.
Local Open Scope N_scope.

Definition mask32 : N := 4294967295.
Definition mask64 : N := 18446744073709551615.

Definition rotr (wb mask n x : N) : N :=
  N.lor (N.shiftr x n) (N.land (N.shiftl x (wb - n)) mask).
Definition rotl (wb mask n x : N) : N :=
  N.lor (N.land (N.shiftl x n) mask) (N.shiftr x (wb - n)).

(* ---- octets <-> big-endian words ---- *)
Fixpoint words32 (l : list N) : list N :=
  match l with
  | a :: b :: c :: d :: r =>
      N.lor (N.shiftl a 24) (N.lor (N.shiftl b 16) (N.lor (N.shiftl c 8) d)) :: words32 r
  | _ => []
  end.

Fixpoint words64 (l : list N) : list N :=
  match l with
  | a :: b :: c :: d :: e :: f :: g :: h :: r =>
      N.lor (N.shiftl a 56) (N.lor (N.shiftl b 48) (N.lor (N.shiftl c 40) (N.lor (N.shiftl d 32)
      (N.lor (N.shiftl e 24) (N.lor (N.shiftl f 16) (N.lor (N.shiftl g 8) h)))))) :: words64 r
  | _ => []
  end.

Definition bytes_of_word32 (w : N) : list N :=
  [N.shiftr w 24; N.land (N.shiftr w 16) 255; N.land (N.shiftr w 8) 255; N.land w 255].
Definition bytes_of_word64 (w : N) : list N :=
  [N.shiftr w 56; N.land (N.shiftr w 48) 255; N.land (N.shiftr w 40) 255; N.land (N.shiftr w 32) 255;
   N.land (N.shiftr w 24) 255; N.land (N.shiftr w 16) 255; N.land (N.shiftr w 8) 255; N.land w 255].

(* ---- padding (FIPS 180-4 section 5.1) ---- *)
Definition lenN {A} (l : list A) : N := fold_left (fun a _ => N.succ a) l 0.

(* n octets of x, big endian *)
Fixpoint be_octets (n : nat) (x : N) (acc : list N) : list N :=
  match n with
  | O => acc
  | S n' => be_octets n' (N.shiftr x 8) (N.land x 255 :: acc)
  end.

(* blk = 64 (length field 8 octets) or 128 (length field 16 octets); blk is a
   power of two, so `mod blk` is `land (blk-1)` *)
Definition pad (blk : N) (lenf : nat) (m : list N) : list N :=
  let l := lenN m in
  let k := N.land (blk - N.land (l + 1 + N.of_nat lenf) (blk - 1)) (blk - 1) in
  m ++ 128 :: N.iter k (cons 0) (be_octets lenf (8 * l) []).

(* ---- SHA-1 (FIPS 180-4 section 6.1) ---- *)
Record st5 := St5 { s5a : N; s5b : N; s5c : N; s5d : N; s5e : N }.

Definition sha1_f (t : N) (b c d : N) : N :=
  match t with
  | 0 => N.lxor (N.land b c) (N.ldiff d b)                               (* Ch *)
  | 2 => N.lxor (N.land b c) (N.lxor (N.land b d) (N.land c d))          (* Maj *)
  | _ => N.lxor b (N.lxor c d)                                           (* Parity *)
  end.

Definition sha1_k (t : N) : N :=
  match t with 0 => 1518500249 | 1 => 1859775393 | 2 => 2400959708 | _ => 3395469782 end.

Definition sha1_round (s : st5) (t w : N) : st5 :=
  let tmp := N.land (rotl 32 mask32 5 (s5a s) + sha1_f t (s5b s) (s5c s) (s5d s) + s5e s + sha1_k t + w) mask32 in
  St5 tmp (s5a s) (rotl 32 mask32 30 (s5b s)) (s5c s) (s5d s).

(* rounds 0..63: consume W[t] from the 16 word window and append W[t+16] *)
Fixpoint sha1_rounds_ext (ts : list N) (s : st5) (w : list N) : st5 * list N :=
  match ts with
  | [] => (s, w)
  | t :: ts' =>
      match w with
      | [w0; w1; w2; w3; w4; w5; w6; w7; w8; w9; w10; w11; w12; w13; w14; w15] =>
          let nw := rotl 32 mask32 1 (N.lxor w13 (N.lxor w8 (N.lxor w2 w0))) in
          sha1_rounds_ext ts' (sha1_round s t w0)
            [w1; w2; w3; w4; w5; w6; w7; w8; w9; w10; w11; w12; w13; w14; w15; nw]
      | _ => (s, w)
      end
  end.

(* rounds 64..79: the window already holds W[64..79] *)
Fixpoint sha1_rounds_plain (ts : list N) (s : st5) (w : list N) : st5 :=
  match ts, w with
  | t :: ts', w0 :: w' => sha1_rounds_plain ts' (sha1_round s t w0) w'
  | _, _ => s
  end.

Definition sha1_ts_ext : list N := repeat 0 20 ++ repeat 1 20 ++ repeat 2 20 ++ repeat 3 4.
Definition sha1_ts_plain : list N := repeat 3 16.

Definition sha1_compress (s : st5) (blk : list N) : st5 :=
  let '(s1, w1) := sha1_rounds_ext sha1_ts_ext s blk in
  let s2 := sha1_rounds_plain sha1_ts_plain s1 w1 in
  St5 (N.land (s5a s + s5a s2) mask32) (N.land (s5b s + s5b s2) mask32)
      (N.land (s5c s + s5c s2) mask32) (N.land (s5d s + s5d s2) mask32)
      (N.land (s5e s + s5e s2) mask32).

Fixpoint sha1_blocks (s : st5) (ws : list N) : st5 :=
  match ws with
  | w0 :: w1 :: w2 :: w3 :: w4 :: w5 :: w6 :: w7 :: w8 :: w9 :: w10 :: w11 :: w12 :: w13 :: w14 :: w15 :: rest =>
      sha1_blocks (sha1_compress s [w0; w1; w2; w3; w4; w5; w6; w7; w8; w9; w10; w11; w12; w13; w14; w15]) rest
  | _ => s
  end.

Definition sha1_iv : st5 := St5 1732584193 4023233417 2562383102 271733878 3285377520.

Definition sha1 (m : list N) : list N :=
  let s := sha1_blocks sha1_iv (words32 (pad 64 8 m)) in
  bytes_of_word32 (s5a s) ++ bytes_of_word32 (s5b s) ++ bytes_of_word32 (s5c s) ++
  bytes_of_word32 (s5d s) ++ bytes_of_word32 (s5e s).

(* ---- SHA-2 family (FIPS 180-4 sections 6.2, 6.4, 6.5), generic in the word size ---- *)
Record st8 := St8 { sa : N; sb : N; sc : N; sd : N; se : N; sf : N; sg : N; sh : N }.

Record sha2_params := Sha2Params {
  p_wb : N; p_mask : N;
  p_S0 : N * N * N;     (* Sigma0: three rotations *)
  p_S1 : N * N * N;     (* Sigma1: three rotations *)
  p_s0 : N * N * N;     (* sigma0: two rotations, one shift *)
  p_s1 : N * N * N;     (* sigma1: two rotations, one shift *)
  p_k_ext : list N;     (* round constants of the rounds that extend the schedule *)
  p_k_plain : list N    (* round constants of the last 16 rounds *)
}.

Section Sha2.
  Variable P : sha2_params.
  Let wb := p_wb P.
  Let mask := p_mask P.

  Definition bsig (r : N * N * N) (x : N) : N :=
    let '(a, b, c) := r in
    N.lxor (rotr wb mask a x) (N.lxor (rotr wb mask b x) (rotr wb mask c x)).
  Definition ssig (r : N * N * N) (x : N) : N :=
    let '(a, b, c) := r in
    N.lxor (rotr wb mask a x) (N.lxor (rotr wb mask b x) (N.shiftr x c)).
  Definition ch (e f g : N) : N := N.lxor (N.land e f) (N.ldiff g e).
  Definition maj (a b c : N) : N := N.lxor (N.land a b) (N.lxor (N.land a c) (N.land b c)).

  Definition sha2_round (s : st8) (k w : N) : st8 :=
    let t1 := sh s + bsig (p_S1 P) (se s) + ch (se s) (sf s) (sg s) + k + w in
    let t2 := bsig (p_S0 P) (sa s) + maj (sa s) (sb s) (sc s) in
    St8 (N.land (t1 + t2) mask) (sa s) (sb s) (sc s) (N.land (sd s + t1) mask) (se s) (sf s) (sg s).

  Fixpoint sha2_rounds_ext (ks : list N) (s : st8) (w : list N) : st8 * list N :=
    match ks with
    | [] => (s, w)
    | k :: ks' =>
        match w with
        | [w0; w1; w2; w3; w4; w5; w6; w7; w8; w9; w10; w11; w12; w13; w14; w15] =>
            let nw := N.land (ssig (p_s1 P) w14 + w9 + ssig (p_s0 P) w1 + w0) mask in
            sha2_rounds_ext ks' (sha2_round s k w0)
              [w1; w2; w3; w4; w5; w6; w7; w8; w9; w10; w11; w12; w13; w14; w15; nw]
        | _ => (s, w)
        end
    end.

  Fixpoint sha2_rounds_plain (ks : list N) (s : st8) (w : list N) : st8 :=
    match ks, w with
    | k :: ks', w0 :: w' => sha2_rounds_plain ks' (sha2_round s k w0) w'
    | _, _ => s
    end.

  Definition sha2_compress (s : st8) (blk : list N) : st8 :=
    let '(s1, w1) := sha2_rounds_ext (p_k_ext P) s blk in
    let s2 := sha2_rounds_plain (p_k_plain P) s1 w1 in
    St8 (N.land (sa s + sa s2) mask) (N.land (sb s + sb s2) mask)
        (N.land (sc s + sc s2) mask) (N.land (sd s + sd s2) mask)
        (N.land (se s + se s2) mask) (N.land (sf s + sf s2) mask)
        (N.land (sg s + sg s2) mask) (N.land (sh s + sh s2) mask).

  Fixpoint sha2_blocks (s : st8) (ws : list N) : st8 :=
    match ws with
    | w0 :: w1 :: w2 :: w3 :: w4 :: w5 :: w6 :: w7 :: w8 :: w9 :: w10 :: w11 :: w12 :: w13 :: w14 :: w15 :: rest =>
        sha2_blocks (sha2_compress s [w0; w1; w2; w3; w4; w5; w6; w7; w8; w9; w10; w11; w12; w13; w14; w15]) rest
    | _ => s
    end.
End Sha2.

Definition k256 : list N :=
  [ 1116352408; 1899447441; 3049323471; 3921009573;
    961987163; 1508970993; 2453635748; 2870763221;
    3624381080; 310598401; 607225278; 1426881987;
    1925078388; 2162078206; 2614888103; 3248222580;
    3835390401; 4022224774; 264347078; 604807628;
    770255983; 1249150122; 1555081692; 1996064986;
    2554220882; 2821834349; 2952996808; 3210313671;
    3336571891; 3584528711; 113926993; 338241895;
    666307205; 773529912; 1294757372; 1396182291;
    1695183700; 1986661051; 2177026350; 2456956037;
    2730485921; 2820302411; 3259730800; 3345764771;
    3516065817; 3600352804; 4094571909; 275423344;
    430227734; 506948616; 659060556; 883997877;
    958139571; 1322822218; 1537002063; 1747873779;
    1955562222; 2024104815; 2227730452; 2361852424;
    2428436474; 2756734187; 3204031479; 3329325298 ].

Definition k512 : list N :=
  [ 4794697086780616226; 8158064640168781261; 13096744586834688815;
    16840607885511220156; 4131703408338449720; 6480981068601479193;
    10538285296894168987; 12329834152419229976; 15566598209576043074;
    1334009975649890238; 2608012711638119052; 6128411473006802146;
    8268148722764581231; 9286055187155687089; 11230858885718282805;
    13951009754708518548; 16472876342353939154; 17275323862435702243;
    1135362057144423861; 2597628984639134821; 3308224258029322869;
    5365058923640841347; 6679025012923562964; 8573033837759648693;
    10970295158949994411; 12119686244451234320; 12683024718118986047;
    13788192230050041572; 14330467153632333762; 15395433587784984357;
    489312712824947311; 1452737877330783856; 2861767655752347644;
    3322285676063803686; 5560940570517711597; 5996557281743188959;
    7280758554555802590; 8532644243296465576; 9350256976987008742;
    10552545826968843579; 11727347734174303076; 12113106623233404929;
    14000437183269869457; 14369950271660146224; 15101387698204529176;
    15463397548674623760; 17586052441742319658; 1182934255886127544;
    1847814050463011016; 2177327727835720531; 2830643537854262169;
    3796741975233480872; 4115178125766777443; 5681478168544905931;
    6601373596472566643; 7507060721942968483; 8399075790359081724;
    8693463985226723168; 9568029438360202098; 10144078919501101548;
    10430055236837252648; 11840083180663258601; 13761210420658862357;
    14299343276471374635; 14566680578165727644; 15097957966210449927;
    16922976911328602910; 17689382322260857208; 500013540394364858;
    748580250866718886; 1242879168328830382; 1977374033974150939;
    2944078676154940804; 3659926193048069267; 4368137639120453308;
    4836135668995329356; 5532061633213252278; 6448918945643986474;
    6902733635092675308; 7801388544844847127 ].

Definition params256 : sha2_params :=
  Sha2Params 32 mask32 (2, 13, 22) (6, 11, 25) (7, 18, 3) (17, 19, 10)
             (firstn 48 k256) (skipn 48 k256).
Definition params512 : sha2_params :=
  Sha2Params 64 mask64 (28, 34, 39) (14, 18, 41) (1, 8, 7) (19, 61, 6)
             (firstn 64 k512) (skipn 64 k512).

Definition st8_of_list (l : list N) : st8 :=
  match l with
  | [a; b; c; d; e; f; g; h] => St8 a b c d e f g h
  | _ => St8 0 0 0 0 0 0 0 0
  end.

Definition iv256 : st8 := st8_of_list
  [ 1779033703; 3144134277; 1013904242; 2773480762;
    1359893119; 2600822924; 528734635; 1541459225 ].
Definition iv512 : st8 := st8_of_list
  [ 7640891576956012808; 13503953896175478587;
    4354685564936845355; 11912009170470909681;
    5840696475078001361; 11170449401992604703;
    2270897969802886507; 6620516959819538809 ].
Definition iv384 : st8 := st8_of_list
  [ 14680500436340154072; 7105036623409894663;
    10473403895298186519; 1526699215303891257;
    7436329637833083697; 10282925794625328401;
    15784041429090275239; 5167115440072839076 ].

(* the constant tables are evaluated once, not on every call *)
Definition params256_c : sha2_params := Eval vm_compute in params256.
Definition params512_c : sha2_params := Eval vm_compute in params512.

Definition sha256 (m : list N) : list N :=
  let s := sha2_blocks params256_c iv256 (words32 (pad 64 8 m)) in
  bytes_of_word32 (sa s) ++ bytes_of_word32 (sb s) ++ bytes_of_word32 (sc s) ++ bytes_of_word32 (sd s) ++
  bytes_of_word32 (se s) ++ bytes_of_word32 (sf s) ++ bytes_of_word32 (sg s) ++ bytes_of_word32 (sh s).

Definition sha512 (m : list N) : list N :=
  let s := sha2_blocks params512_c iv512 (words64 (pad 128 16 m)) in
  bytes_of_word64 (sa s) ++ bytes_of_word64 (sb s) ++ bytes_of_word64 (sc s) ++ bytes_of_word64 (sd s) ++
  bytes_of_word64 (se s) ++ bytes_of_word64 (sf s) ++ bytes_of_word64 (sg s) ++ bytes_of_word64 (sh s).

Definition sha384 (m : list N) : list N :=
  let s := sha2_blocks params512_c iv384 (words64 (pad 128 16 m)) in
  bytes_of_word64 (sa s) ++ bytes_of_word64 (sb s) ++ bytes_of_word64 (sc s) ++ bytes_of_word64 (sd s) ++
  bytes_of_word64 (se s) ++ bytes_of_word64 (sf s).

(* ---- test vectors ---- *)
Definition str (s : string) : list N := map N_of_ascii (list_ascii_of_string s).
Definition hexdigit (n : N) : ascii :=
  ascii_of_N (if n <? 10 then 48 + n else 87 + n).
Fixpoint hex (l : list N) : string :=
  match l with
  | [] => EmptyString
  | b :: r => String (hexdigit (N.shiftr b 4)) (String (hexdigit (N.land b 15)) (hex r))
  end.

Example params256_c_ok : params256_c = params256. Proof. vm_compute. reflexivity. Qed.
Example params512_c_ok : params512_c = params512. Proof. vm_compute. reflexivity. Qed.

Example sha1_abc : hex (sha1 (str "abc")) = "a9993e364706816aba3e25717850c26c9cd0d89d"%string.
Proof. vm_compute. reflexivity. Qed.
Example sha1_empty : hex (sha1 (str "")) = "da39a3ee5e6b4b0d3255bfef95601890afd80709"%string.
Proof. vm_compute. reflexivity. Qed.
Example sha1_m56 : hex (sha1 (str "abcdbcdecdefdefgefghfghighijhijkijkljklmklmnlmnomnopnopq")) = "84983e441c3bd26ebaae4aa1f95129e5e54670f1"%string.
Proof. vm_compute. reflexivity. Qed.
Example sha1_m112 : hex (sha1 (str "abcdefghbcdefghicdefghijdefghijkefghijklfghijklmghijklmnhijklmnoijklmnopjklmnopqklmnopqrlmnopqrsmnopqrstnopqrstu")) = "a49b2446a02c645bf419f995b67091253a04a259"%string.
Proof. vm_compute. reflexivity. Qed.
Example sha256_abc : hex (sha256 (str "abc")) = "ba7816bf8f01cfea414140de5dae2223b00361a396177a9cb410ff61f20015ad"%string.
Proof. vm_compute. reflexivity. Qed.
Example sha256_empty : hex (sha256 (str "")) = "e3b0c44298fc1c149afbf4c8996fb92427ae41e4649b934ca495991b7852b855"%string.
Proof. vm_compute. reflexivity. Qed.
Example sha256_m56 : hex (sha256 (str "abcdbcdecdefdefgefghfghighijhijkijkljklmklmnlmnomnopnopq")) = "248d6a61d20638b8e5c026930c3e6039a33ce45964ff2167f6ecedd419db06c1"%string.
Proof. vm_compute. reflexivity. Qed.
Example sha256_m112 : hex (sha256 (str "abcdefghbcdefghicdefghijdefghijkefghijklfghijklmghijklmnhijklmnoijklmnopjklmnopqklmnopqrlmnopqrsmnopqrstnopqrstu")) = "cf5b16a778af8380036ce59e7b0492370b249b11e8f07a51afac45037afee9d1"%string.
Proof. vm_compute. reflexivity. Qed.
Example sha384_abc : hex (sha384 (str "abc")) = "cb00753f45a35e8bb5a03d699ac65007272c32ab0eded1631a8b605a43ff5bed8086072ba1e7cc2358baeca134c825a7"%string.
Proof. vm_compute. reflexivity. Qed.
Example sha384_empty : hex (sha384 (str "")) = "38b060a751ac96384cd9327eb1b1e36a21fdb71114be07434c0cc7bf63f6e1da274edebfe76f65fbd51ad2f14898b95b"%string.
Proof. vm_compute. reflexivity. Qed.
Example sha384_m56 : hex (sha384 (str "abcdbcdecdefdefgefghfghighijhijkijkljklmklmnlmnomnopnopq")) = "3391fdddfc8dc7393707a65b1b4709397cf8b1d162af05abfe8f450de5f36bc6b0455a8520bc4e6f5fe95b1fe3c8452b"%string.
Proof. vm_compute. reflexivity. Qed.
Example sha384_m112 : hex (sha384 (str "abcdefghbcdefghicdefghijdefghijkefghijklfghijklmghijklmnhijklmnoijklmnopjklmnopqklmnopqrlmnopqrsmnopqrstnopqrstu")) = "09330c33f71147e83d192fc782cd1b4753111b173b3b05d22fa08086e3b0f712fcc7c71a557e2db966c3e9fa91746039"%string.
Proof. vm_compute. reflexivity. Qed.
Example sha512_abc : hex (sha512 (str "abc")) = "ddaf35a193617abacc417349ae20413112e6fa4e89a97ea20a9eeee64b55d39a2192992a274fc1a836ba3c23a3feebbd454d4423643ce80e2a9ac94fa54ca49f"%string.
Proof. vm_compute. reflexivity. Qed.
Example sha512_empty : hex (sha512 (str "")) = "cf83e1357eefb8bdf1542850d66d8007d620e4050b5715dc83f4a921d36ce9ce47d0d13c5d85f2b0ff8318d2877eec2f63b931bd47417a81a538327af927da3e"%string.
Proof. vm_compute. reflexivity. Qed.
Example sha512_m56 : hex (sha512 (str "abcdbcdecdefdefgefghfghighijhijkijkljklmklmnlmnomnopnopq")) = "204a8fc6dda82f0a0ced7beb8e08a41657c16ef468b228a8279be331a703c33596fd15c13b1b07f9aa1d3bea57789ca031ad85c7a71dd70354ec631238ca3445"%string.
Proof. vm_compute. reflexivity. Qed.
Example sha512_m112 : hex (sha512 (str "abcdefghbcdefghicdefghijdefghijkefghijklfghijklmghijklmnhijklmnoijklmnopjklmnopqklmnopqrlmnopqrsmnopqrstnopqrstu")) = "8e959b75dae313da8cf4f72814fc143f8f7779c6eb9f7fa17299aeadb6889018501d289e4900f7e4331b99dec4b5433ac7d329eeb6dd26545e96e55b874be909"%string.
Proof. vm_compute. reflexivity. Qed.
Example sha1_a55 : hex (sha1 (repeat 97 55)) = "c1c8bbdc22796e28c0e15163d20899b65621d65a"%string.
Proof. vm_compute. reflexivity. Qed.
Example sha1_a63 : hex (sha1 (repeat 97 63)) = "03f09f5b158a7a8cdad920bddc29b81c18a551f5"%string.
Proof. vm_compute. reflexivity. Qed.
Example sha1_a64 : hex (sha1 (repeat 97 64)) = "0098ba824b5c16427bd7a1122a5a442a25ec644d"%string.
Proof. vm_compute. reflexivity. Qed.
Example sha1_a65 : hex (sha1 (repeat 97 65)) = "11655326c708d70319be2610e8a57d9a5b959d3b"%string.
Proof. vm_compute. reflexivity. Qed.
Example sha1_a111 : hex (sha1 (repeat 97 111)) = "ac877859d427d9192054eea8feb3b8a403ef83a5"%string.
Proof. vm_compute. reflexivity. Qed.
Example sha1_a112 : hex (sha1 (repeat 97 112)) = "689993727ba37386bb032495e9dbdfb4dd1ba744"%string.
Proof. vm_compute. reflexivity. Qed.
Example sha1_a119 : hex (sha1 (repeat 97 119)) = "ee971065aaa017e0632a8ca6c77bb3bf8b1dfc56"%string.
Proof. vm_compute. reflexivity. Qed.
Example sha1_a120 : hex (sha1 (repeat 97 120)) = "f34c1488385346a55709ba056ddd08280dd4c6d6"%string.
Proof. vm_compute. reflexivity. Qed.
Example sha1_a127 : hex (sha1 (repeat 97 127)) = "89d95fa32ed44a7c610b7ee38517ddf57e0bb975"%string.
Proof. vm_compute. reflexivity. Qed.
Example sha1_a128 : hex (sha1 (repeat 97 128)) = "ad5b3fdbcb526778c2839d2f151ea753995e26a0"%string.
Proof. vm_compute. reflexivity. Qed.
Example sha1_a129 : hex (sha1 (repeat 97 129)) = "d96debf1bdcbc896e6c134ea76e8141f40d78536"%string.
Proof. vm_compute. reflexivity. Qed.
Example sha1_a1000 : hex (sha1 (repeat 97 1000)) = "291e9a6c66994949b57ba5e650361e98fc36b1ba"%string.
Proof. vm_compute. reflexivity. Qed.
Example sha256_a55 : hex (sha256 (repeat 97 55)) = "9f4390f8d30c2dd92ec9f095b65e2b9ae9b0a925a5258e241c9f1e910f734318"%string.
Proof. vm_compute. reflexivity. Qed.
Example sha256_a63 : hex (sha256 (repeat 97 63)) = "7d3e74a05d7db15bce4ad9ec0658ea98e3f06eeecf16b4c6fff2da457ddc2f34"%string.
Proof. vm_compute. reflexivity. Qed.
Example sha256_a64 : hex (sha256 (repeat 97 64)) = "ffe054fe7ae0cb6dc65c3af9b61d5209f439851db43d0ba5997337df154668eb"%string.
Proof. vm_compute. reflexivity. Qed.
Example sha256_a65 : hex (sha256 (repeat 97 65)) = "635361c48bb9eab14198e76ea8ab7f1a41685d6ad62aa9146d301d4f17eb0ae0"%string.
Proof. vm_compute. reflexivity. Qed.
Example sha256_a111 : hex (sha256 (repeat 97 111)) = "6374f73208854473827f6f6a3f43b1f53eaa3b82c21c1a6d69a2110b2a79baad"%string.
Proof. vm_compute. reflexivity. Qed.
Example sha256_a112 : hex (sha256 (repeat 97 112)) = "f54353008a2553262ecdc4a34749563ba0950e8b0fc8652780b0a614b99683c1"%string.
Proof. vm_compute. reflexivity. Qed.
Example sha256_a119 : hex (sha256 (repeat 97 119)) = "31eba51c313a5c08226adf18d4a359cfdfd8d2e816b13f4af952f7ea6584dcfb"%string.
Proof. vm_compute. reflexivity. Qed.
Example sha256_a120 : hex (sha256 (repeat 97 120)) = "2f3d335432c70b580af0e8e1b3674a7c020d683aa5f73aaaedfdc55af904c21c"%string.
Proof. vm_compute. reflexivity. Qed.
Example sha256_a127 : hex (sha256 (repeat 97 127)) = "c57e9278af78fa3cab38667bef4ce29d783787a2f731d4e12200270f0c32320a"%string.
Proof. vm_compute. reflexivity. Qed.
Example sha256_a128 : hex (sha256 (repeat 97 128)) = "6836cf13bac400e9105071cd6af47084dfacad4e5e302c94bfed24e013afb73e"%string.
Proof. vm_compute. reflexivity. Qed.
Example sha256_a129 : hex (sha256 (repeat 97 129)) = "c12cb024a2e5551cca0e08fce8f1c5e314555cc3fef6329ee994a3db752166ae"%string.
Proof. vm_compute. reflexivity. Qed.
Example sha256_a1000 : hex (sha256 (repeat 97 1000)) = "41edece42d63e8d9bf515a9ba6932e1c20cbc9f5a5d134645adb5db1b9737ea3"%string.
Proof. vm_compute. reflexivity. Qed.
Example sha384_a55 : hex (sha384 (repeat 97 55)) = "5d91ac7e74e62b5c728904b40f10784d66b7af9cb6302123e48c92f0432ceb8d2a92c02de77dcb29ed75c4b42bde46f4"%string.
Proof. vm_compute. reflexivity. Qed.
Example sha384_a63 : hex (sha384 (repeat 97 63)) = "7e7f097e95b52bb8f53383450ecaf9868187c130981730c03b6d573adfc0b991e365244e5b4bfa082bfb43c517d37120"%string.
Proof. vm_compute. reflexivity. Qed.
Example sha384_a64 : hex (sha384 (repeat 97 64)) = "2e404b9339da795776e510d96930b3be2904c500395b8cb7413334b82d4dec413b4b8113045a05bbbcff846f027423f6"%string.
Proof. vm_compute. reflexivity. Qed.
Example sha384_a65 : hex (sha384 (repeat 97 65)) = "a2b797de45aa1d20594e2ea0cb1801d6dd7ffa3a58281c37dde04029f1c98157bb6eb005e90dd76b79a1d6ddd52dd58d"%string.
Proof. vm_compute. reflexivity. Qed.
Example sha384_a111 : hex (sha384 (repeat 97 111)) = "3c37955051cb5c3026f94d551d5b5e2ac38d572ae4e07172085fed81f8466b8f90dc23a8ffcdea0b8d8e58e8fdacc80a"%string.
Proof. vm_compute. reflexivity. Qed.
Example sha384_a112 : hex (sha384 (repeat 97 112)) = "187d4e07cb306103c69967bf544d0dfbe9042577599c73c330abc0cb64c61236d5ed565ee19119d8c31779a38f791fcd"%string.
Proof. vm_compute. reflexivity. Qed.
Example sha384_a119 : hex (sha384 (repeat 97 119)) = "c2fbb1911d6889e3db556b482236ab82f3c736f00a22c088641a09fdbbca27e3f1e3b6235bad20aee1ca083c76ac590c"%string.
Proof. vm_compute. reflexivity. Qed.
Example sha384_a120 : hex (sha384 (repeat 97 120)) = "ca2f7755efa04d43651f9bcb466044511102e472c2a3981c836b487ee4508ca8461f8c396653123400762de4d6d17e63"%string.
Proof. vm_compute. reflexivity. Qed.
Example sha384_a127 : hex (sha384 (repeat 97 127)) = "9bd06b1763c2cf7aef40e795dc65bc96d59c41b537f3ad72ebdefd485476b5717c1aeb37c327fe9c1831b12b9efd08ae"%string.
Proof. vm_compute. reflexivity. Qed.
Example sha384_a128 : hex (sha384 (repeat 97 128)) = "edb12730a366098b3b2beac75a3bef1b0969b15c48e2163c23d96994f8d1bef760c7e27f3c464d3829f56c0d53808b0b"%string.
Proof. vm_compute. reflexivity. Qed.
Example sha384_a129 : hex (sha384 (repeat 97 129)) = "39b6f5a7b0e781dbc419f72e49b30eaac10f2c98c4403bc610da31067fd1b48f324138c8615d2b496d08d73d5e865326"%string.
Proof. vm_compute. reflexivity. Qed.
Example sha384_a1000 : hex (sha384 (repeat 97 1000)) = "f54480689c6b0b11d0303285d9a81b21a93bca6ba5a1b4472765dca4da45ee328082d469c650cd3b61b16d3266ab8ced"%string.
Proof. vm_compute. reflexivity. Qed.
Example sha512_a55 : hex (sha512 (repeat 97 55)) = "b0220c772cbf6c1822e2cb38a437d0e1d58772417a4bbb21c961364f8b6143e05aa6316dca8d1d7b19e16448419076395f6086cb55101fbd6d5497b148e1745f"%string.
Proof. vm_compute. reflexivity. Qed.
Example sha512_a63 : hex (sha512 (repeat 97 63)) = "c1b0f5c6d3b03dfe4a2602e67242f54e344090b66e01100a469b129f583f016c7e27dddeaa438393dcc7ec54b0b57c9ba7af007f9b56db5f6fb677d972a31362"%string.
Proof. vm_compute. reflexivity. Qed.
Example sha512_a64 : hex (sha512 (repeat 97 64)) = "01d35c10c6c38c2dcf48f7eebb3235fb5ad74a65ec4cd016e2354c637a8fb49b695ef3c1d6f7ae4cd74d78cc9c9bcac9d4f23a73019998a7f73038a5c9b2dbde"%string.
Proof. vm_compute. reflexivity. Qed.
Example sha512_a65 : hex (sha512 (repeat 97 65)) = "b83086cd8494e55708ad7ecd82dfb4bca1bda61ecbb7caf0c68967902e709345e5d8305eb7ac0d588afc6cbb75161aa9c8c7e0ea986bd833dafe5e1ccd37345a"%string.
Proof. vm_compute. reflexivity. Qed.
Example sha512_a111 : hex (sha512 (repeat 97 111)) = "fa9121c7b32b9e01733d034cfc78cbf67f926c7ed83e82200ef86818196921760b4beff48404df811b953828274461673c68d04e297b0eb7b2b4d60fc6b566a2"%string.
Proof. vm_compute. reflexivity. Qed.
Example sha512_a112 : hex (sha512 (repeat 97 112)) = "c01d080efd492776a1c43bd23dd99d0a2e626d481e16782e75d54c2503b5dc32bd05f0f1ba33e568b88fd2d970929b719ecbb152f58f130a407c8830604b70ca"%string.
Proof. vm_compute. reflexivity. Qed.
Example sha512_a119 : hex (sha512 (repeat 97 119)) = "130396a75cb483f2eee8c56d8a668bb3d2641f5243212c0bee2bd33da096ad9eb8179fe18f9eaacf76e09fae9de4c3f14ba13341e345be05bf76c182cc3468cb"%string.
Proof. vm_compute. reflexivity. Qed.
Example sha512_a120 : hex (sha512 (repeat 97 120)) = "f241de612b01aa2fa3cf01531d2a8e5e17fc761dfd48a704a834a47f57d6eade7804ecc39be42fdef16ec6adeaf7c01c2fd0c4cc97d3860907cfa4a3b36d0c05"%string.
Proof. vm_compute. reflexivity. Qed.
Example sha512_a127 : hex (sha512 (repeat 97 127)) = "828613968b501dc00a97e08c73b118aa8876c26b8aac93df128502ab360f91bab50a51e088769a5c1eff4782ace147dce3642554199876374291f5d921629502"%string.
Proof. vm_compute. reflexivity. Qed.
Example sha512_a128 : hex (sha512 (repeat 97 128)) = "b73d1929aa615934e61a871596b3f3b33359f42b8175602e89f7e06e5f658a243667807ed300314b95cacdd579f3e33abdfbe351909519a846d465c59582f321"%string.
Proof. vm_compute. reflexivity. Qed.
Example sha512_a129 : hex (sha512 (repeat 97 129)) = "4f681e0bd53cda4b5a2041cc8a06f2eabde44fb16c951fbd5b87702f07aeab611565b19c47fde30587177ebb852e3971bbd8d3fd30da18d71037dfbd98420429"%string.
Proof. vm_compute. reflexivity. Qed.
Example sha512_a1000 : hex (sha512 (repeat 97 1000)) = "67ba5535a46e3f86dbfbed8cbbaf0125c76ed549ff8b0b9e03e0c88cf90fa634fa7b12b47d77b694de488ace8d9a65967dc96df599727d3292a8d9d447709c97"%string.
Proof. vm_compute. reflexivity. Qed.
