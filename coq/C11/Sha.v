(* Sha.v -- SHA-1, SHA-256, SHA-384, SHA-512 (FIPS 180-4) in Gallina.
   Self-contained (stdlib only) so that other properties can import it:
       From DV Require Import C11.Sha.
       sha1 sha256 sha384 sha512 : list N -> list N      (octets in, octets out;
                                                          octets are N below 256)
   Representation.  A first version kept 32/64-bit words as N with
   N.land/N.lxor/N.shiftr; extracted (N and positive stay Coq inductives) it
   needed 30 ms per KiB.  Words are therefore fixed-shape records of booleans
   (w32, w64: one constructor, bit W-1 first): a rotation is a re-indexing,
   Sigma/sigma/Ch/Maj are one record construction, addition is a straight-line
   ripple carry.  The word operations below are mechanical (generated once by
   coq/C11/sha_gen.py and checked in); everything from "padding" on is written
   by hand.  No nat for data-dependent sizes: the message length is counted in
   N and blocks are consumed by structural recursion on the octet list, 64 or
   128 octets (16 words) per step.
   The FIPS 180-4 / RFC 3174 / RFC 6234 test vectors ("abc", "", the 56 and
   112 octet messages, all lengths around the padding boundaries, 1000 x "a",
   all 256 octet values) are Examples closed by vm_compute at the end. *)
From Coq Require Import NArith List String Ascii Bool.
Import ListNotations.
Local Open Scope N_scope.

(* octet from bits, most significant first: nb b7 (... (nb b0 0)) is wrong way
   round; we fold from the most significant bit: acc := 2*acc + b *)
Definition nb (b : bool) (acc : N) : N := if b then N.succ_double acc else N.double acc.

(* full adder: (sum, carry out) *)
Definition fa (a b c : bool) : bool * bool :=
  if a then (if b then (c, true) else (negb c, c))
  else (if b then (negb c, c) else (c, false)).

(* ======== generated word operations: 32 bit ======== *)
Inductive w32 : Type := W32 (x31 x30 x29 x28 x27 x26 x25 x24 x23 x22 x21 x20 x19 x18 x17 x16 x15 x14 x13 x12 x11 x10 x9 x8 x7 x6 x5 x4 x3 x2 x1 x0 : bool).

Definition w32_xor (a b : w32) : w32 :=
  match a, b with W32 a31 a30 a29 a28 a27 a26 a25 a24 a23 a22 a21 a20 a19 a18 a17 a16 a15 a14 a13 a12 a11 a10 a9 a8 a7 a6 a5 a4 a3 a2 a1 a0, W32 b31 b30 b29 b28 b27 b26 b25 b24 b23 b22 b21 b20 b19 b18 b17 b16 b15 b14 b13 b12 b11 b10 b9 b8 b7 b6 b5 b4 b3 b2 b1 b0 =>
    W32 (xorb a31 b31) (xorb a30 b30) (xorb a29 b29) (xorb a28 b28) (xorb a27 b27) (xorb a26 b26) (xorb a25 b25) (xorb a24 b24) (xorb a23 b23) (xorb a22 b22) (xorb a21 b21) (xorb a20 b20) (xorb a19 b19) (xorb a18 b18) (xorb a17 b17) (xorb a16 b16) (xorb a15 b15) (xorb a14 b14) (xorb a13 b13) (xorb a12 b12) (xorb a11 b11) (xorb a10 b10) (xorb a9 b9) (xorb a8 b8) (xorb a7 b7) (xorb a6 b6) (xorb a5 b5) (xorb a4 b4) (xorb a3 b3) (xorb a2 b2) (xorb a1 b1) (xorb a0 b0)
  end.

Definition w32_xor3 (a b c : w32) : w32 :=
  match a, b, c with W32 a31 a30 a29 a28 a27 a26 a25 a24 a23 a22 a21 a20 a19 a18 a17 a16 a15 a14 a13 a12 a11 a10 a9 a8 a7 a6 a5 a4 a3 a2 a1 a0, W32 b31 b30 b29 b28 b27 b26 b25 b24 b23 b22 b21 b20 b19 b18 b17 b16 b15 b14 b13 b12 b11 b10 b9 b8 b7 b6 b5 b4 b3 b2 b1 b0, W32 c31 c30 c29 c28 c27 c26 c25 c24 c23 c22 c21 c20 c19 c18 c17 c16 c15 c14 c13 c12 c11 c10 c9 c8 c7 c6 c5 c4 c3 c2 c1 c0 =>
    W32 (if a31 then (if b31 then c31 else negb c31) else (if b31 then negb c31 else c31)) (if a30 then (if b30 then c30 else negb c30) else (if b30 then negb c30 else c30)) (if a29 then (if b29 then c29 else negb c29) else (if b29 then negb c29 else c29)) (if a28 then (if b28 then c28 else negb c28) else (if b28 then negb c28 else c28)) (if a27 then (if b27 then c27 else negb c27) else (if b27 then negb c27 else c27)) (if a26 then (if b26 then c26 else negb c26) else (if b26 then negb c26 else c26)) (if a25 then (if b25 then c25 else negb c25) else (if b25 then negb c25 else c25)) (if a24 then (if b24 then c24 else negb c24) else (if b24 then negb c24 else c24)) (if a23 then (if b23 then c23 else negb c23) else (if b23 then negb c23 else c23)) (if a22 then (if b22 then c22 else negb c22) else (if b22 then negb c22 else c22)) (if a21 then (if b21 then c21 else negb c21) else (if b21 then negb c21 else c21)) (if a20 then (if b20 then c20 else negb c20) else (if b20 then negb c20 else c20)) (if a19 then (if b19 then c19 else negb c19) else (if b19 then negb c19 else c19)) (if a18 then (if b18 then c18 else negb c18) else (if b18 then negb c18 else c18)) (if a17 then (if b17 then c17 else negb c17) else (if b17 then negb c17 else c17)) (if a16 then (if b16 then c16 else negb c16) else (if b16 then negb c16 else c16)) (if a15 then (if b15 then c15 else negb c15) else (if b15 then negb c15 else c15)) (if a14 then (if b14 then c14 else negb c14) else (if b14 then negb c14 else c14)) (if a13 then (if b13 then c13 else negb c13) else (if b13 then negb c13 else c13)) (if a12 then (if b12 then c12 else negb c12) else (if b12 then negb c12 else c12)) (if a11 then (if b11 then c11 else negb c11) else (if b11 then negb c11 else c11)) (if a10 then (if b10 then c10 else negb c10) else (if b10 then negb c10 else c10)) (if a9 then (if b9 then c9 else negb c9) else (if b9 then negb c9 else c9)) (if a8 then (if b8 then c8 else negb c8) else (if b8 then negb c8 else c8)) (if a7 then (if b7 then c7 else negb c7) else (if b7 then negb c7 else c7)) (if a6 then (if b6 then c6 else negb c6) else (if b6 then negb c6 else c6)) (if a5 then (if b5 then c5 else negb c5) else (if b5 then negb c5 else c5)) (if a4 then (if b4 then c4 else negb c4) else (if b4 then negb c4 else c4)) (if a3 then (if b3 then c3 else negb c3) else (if b3 then negb c3 else c3)) (if a2 then (if b2 then c2 else negb c2) else (if b2 then negb c2 else c2)) (if a1 then (if b1 then c1 else negb c1) else (if b1 then negb c1 else c1)) (if a0 then (if b0 then c0 else negb c0) else (if b0 then negb c0 else c0))
  end.

Definition w32_ch (a b c : w32) : w32 :=
  match a, b, c with W32 a31 a30 a29 a28 a27 a26 a25 a24 a23 a22 a21 a20 a19 a18 a17 a16 a15 a14 a13 a12 a11 a10 a9 a8 a7 a6 a5 a4 a3 a2 a1 a0, W32 b31 b30 b29 b28 b27 b26 b25 b24 b23 b22 b21 b20 b19 b18 b17 b16 b15 b14 b13 b12 b11 b10 b9 b8 b7 b6 b5 b4 b3 b2 b1 b0, W32 c31 c30 c29 c28 c27 c26 c25 c24 c23 c22 c21 c20 c19 c18 c17 c16 c15 c14 c13 c12 c11 c10 c9 c8 c7 c6 c5 c4 c3 c2 c1 c0 =>
    W32 (if a31 then b31 else c31) (if a30 then b30 else c30) (if a29 then b29 else c29) (if a28 then b28 else c28) (if a27 then b27 else c27) (if a26 then b26 else c26) (if a25 then b25 else c25) (if a24 then b24 else c24) (if a23 then b23 else c23) (if a22 then b22 else c22) (if a21 then b21 else c21) (if a20 then b20 else c20) (if a19 then b19 else c19) (if a18 then b18 else c18) (if a17 then b17 else c17) (if a16 then b16 else c16) (if a15 then b15 else c15) (if a14 then b14 else c14) (if a13 then b13 else c13) (if a12 then b12 else c12) (if a11 then b11 else c11) (if a10 then b10 else c10) (if a9 then b9 else c9) (if a8 then b8 else c8) (if a7 then b7 else c7) (if a6 then b6 else c6) (if a5 then b5 else c5) (if a4 then b4 else c4) (if a3 then b3 else c3) (if a2 then b2 else c2) (if a1 then b1 else c1) (if a0 then b0 else c0)
  end.

Definition w32_maj (a b c : w32) : w32 :=
  match a, b, c with W32 a31 a30 a29 a28 a27 a26 a25 a24 a23 a22 a21 a20 a19 a18 a17 a16 a15 a14 a13 a12 a11 a10 a9 a8 a7 a6 a5 a4 a3 a2 a1 a0, W32 b31 b30 b29 b28 b27 b26 b25 b24 b23 b22 b21 b20 b19 b18 b17 b16 b15 b14 b13 b12 b11 b10 b9 b8 b7 b6 b5 b4 b3 b2 b1 b0, W32 c31 c30 c29 c28 c27 c26 c25 c24 c23 c22 c21 c20 c19 c18 c17 c16 c15 c14 c13 c12 c11 c10 c9 c8 c7 c6 c5 c4 c3 c2 c1 c0 =>
    W32 (if a31 then orb b31 c31 else andb b31 c31) (if a30 then orb b30 c30 else andb b30 c30) (if a29 then orb b29 c29 else andb b29 c29) (if a28 then orb b28 c28 else andb b28 c28) (if a27 then orb b27 c27 else andb b27 c27) (if a26 then orb b26 c26 else andb b26 c26) (if a25 then orb b25 c25 else andb b25 c25) (if a24 then orb b24 c24 else andb b24 c24) (if a23 then orb b23 c23 else andb b23 c23) (if a22 then orb b22 c22 else andb b22 c22) (if a21 then orb b21 c21 else andb b21 c21) (if a20 then orb b20 c20 else andb b20 c20) (if a19 then orb b19 c19 else andb b19 c19) (if a18 then orb b18 c18 else andb b18 c18) (if a17 then orb b17 c17 else andb b17 c17) (if a16 then orb b16 c16 else andb b16 c16) (if a15 then orb b15 c15 else andb b15 c15) (if a14 then orb b14 c14 else andb b14 c14) (if a13 then orb b13 c13 else andb b13 c13) (if a12 then orb b12 c12 else andb b12 c12) (if a11 then orb b11 c11 else andb b11 c11) (if a10 then orb b10 c10 else andb b10 c10) (if a9 then orb b9 c9 else andb b9 c9) (if a8 then orb b8 c8 else andb b8 c8) (if a7 then orb b7 c7 else andb b7 c7) (if a6 then orb b6 c6 else andb b6 c6) (if a5 then orb b5 c5 else andb b5 c5) (if a4 then orb b4 c4 else andb b4 c4) (if a3 then orb b3 c3 else andb b3 c3) (if a2 then orb b2 c2 else andb b2 c2) (if a1 then orb b1 c1 else andb b1 c1) (if a0 then orb b0 c0 else andb b0 c0)
  end.

Definition w32_rotl1 (a : w32) : w32 :=
  match a with W32 a31 a30 a29 a28 a27 a26 a25 a24 a23 a22 a21 a20 a19 a18 a17 a16 a15 a14 a13 a12 a11 a10 a9 a8 a7 a6 a5 a4 a3 a2 a1 a0 =>
    W32 a30 a29 a28 a27 a26 a25 a24 a23 a22 a21 a20 a19 a18 a17 a16 a15 a14 a13 a12 a11 a10 a9 a8 a7 a6 a5 a4 a3 a2 a1 a0 a31
  end.

Definition w32_rotl5 (a : w32) : w32 :=
  match a with W32 a31 a30 a29 a28 a27 a26 a25 a24 a23 a22 a21 a20 a19 a18 a17 a16 a15 a14 a13 a12 a11 a10 a9 a8 a7 a6 a5 a4 a3 a2 a1 a0 =>
    W32 a26 a25 a24 a23 a22 a21 a20 a19 a18 a17 a16 a15 a14 a13 a12 a11 a10 a9 a8 a7 a6 a5 a4 a3 a2 a1 a0 a31 a30 a29 a28 a27
  end.

Definition w32_rotl30 (a : w32) : w32 :=
  match a with W32 a31 a30 a29 a28 a27 a26 a25 a24 a23 a22 a21 a20 a19 a18 a17 a16 a15 a14 a13 a12 a11 a10 a9 a8 a7 a6 a5 a4 a3 a2 a1 a0 =>
    W32 a1 a0 a31 a30 a29 a28 a27 a26 a25 a24 a23 a22 a21 a20 a19 a18 a17 a16 a15 a14 a13 a12 a11 a10 a9 a8 a7 a6 a5 a4 a3 a2
  end.

Definition w32_bsig0 (a : w32) : w32 :=
  match a with W32 a31 a30 a29 a28 a27 a26 a25 a24 a23 a22 a21 a20 a19 a18 a17 a16 a15 a14 a13 a12 a11 a10 a9 a8 a7 a6 a5 a4 a3 a2 a1 a0 =>
    W32 (if a1 then (if a12 then a21 else negb a21) else (if a12 then negb a21 else a21)) (if a0 then (if a11 then a20 else negb a20) else (if a11 then negb a20 else a20)) (if a31 then (if a10 then a19 else negb a19) else (if a10 then negb a19 else a19)) (if a30 then (if a9 then a18 else negb a18) else (if a9 then negb a18 else a18)) (if a29 then (if a8 then a17 else negb a17) else (if a8 then negb a17 else a17)) (if a28 then (if a7 then a16 else negb a16) else (if a7 then negb a16 else a16)) (if a27 then (if a6 then a15 else negb a15) else (if a6 then negb a15 else a15)) (if a26 then (if a5 then a14 else negb a14) else (if a5 then negb a14 else a14)) (if a25 then (if a4 then a13 else negb a13) else (if a4 then negb a13 else a13)) (if a24 then (if a3 then a12 else negb a12) else (if a3 then negb a12 else a12)) (if a23 then (if a2 then a11 else negb a11) else (if a2 then negb a11 else a11)) (if a22 then (if a1 then a10 else negb a10) else (if a1 then negb a10 else a10)) (if a21 then (if a0 then a9 else negb a9) else (if a0 then negb a9 else a9)) (if a20 then (if a31 then a8 else negb a8) else (if a31 then negb a8 else a8)) (if a19 then (if a30 then a7 else negb a7) else (if a30 then negb a7 else a7)) (if a18 then (if a29 then a6 else negb a6) else (if a29 then negb a6 else a6)) (if a17 then (if a28 then a5 else negb a5) else (if a28 then negb a5 else a5)) (if a16 then (if a27 then a4 else negb a4) else (if a27 then negb a4 else a4)) (if a15 then (if a26 then a3 else negb a3) else (if a26 then negb a3 else a3)) (if a14 then (if a25 then a2 else negb a2) else (if a25 then negb a2 else a2)) (if a13 then (if a24 then a1 else negb a1) else (if a24 then negb a1 else a1)) (if a12 then (if a23 then a0 else negb a0) else (if a23 then negb a0 else a0)) (if a11 then (if a22 then a31 else negb a31) else (if a22 then negb a31 else a31)) (if a10 then (if a21 then a30 else negb a30) else (if a21 then negb a30 else a30)) (if a9 then (if a20 then a29 else negb a29) else (if a20 then negb a29 else a29)) (if a8 then (if a19 then a28 else negb a28) else (if a19 then negb a28 else a28)) (if a7 then (if a18 then a27 else negb a27) else (if a18 then negb a27 else a27)) (if a6 then (if a17 then a26 else negb a26) else (if a17 then negb a26 else a26)) (if a5 then (if a16 then a25 else negb a25) else (if a16 then negb a25 else a25)) (if a4 then (if a15 then a24 else negb a24) else (if a15 then negb a24 else a24)) (if a3 then (if a14 then a23 else negb a23) else (if a14 then negb a23 else a23)) (if a2 then (if a13 then a22 else negb a22) else (if a13 then negb a22 else a22))
  end.

Definition w32_bsig1 (a : w32) : w32 :=
  match a with W32 a31 a30 a29 a28 a27 a26 a25 a24 a23 a22 a21 a20 a19 a18 a17 a16 a15 a14 a13 a12 a11 a10 a9 a8 a7 a6 a5 a4 a3 a2 a1 a0 =>
    W32 (if a5 then (if a10 then a24 else negb a24) else (if a10 then negb a24 else a24)) (if a4 then (if a9 then a23 else negb a23) else (if a9 then negb a23 else a23)) (if a3 then (if a8 then a22 else negb a22) else (if a8 then negb a22 else a22)) (if a2 then (if a7 then a21 else negb a21) else (if a7 then negb a21 else a21)) (if a1 then (if a6 then a20 else negb a20) else (if a6 then negb a20 else a20)) (if a0 then (if a5 then a19 else negb a19) else (if a5 then negb a19 else a19)) (if a31 then (if a4 then a18 else negb a18) else (if a4 then negb a18 else a18)) (if a30 then (if a3 then a17 else negb a17) else (if a3 then negb a17 else a17)) (if a29 then (if a2 then a16 else negb a16) else (if a2 then negb a16 else a16)) (if a28 then (if a1 then a15 else negb a15) else (if a1 then negb a15 else a15)) (if a27 then (if a0 then a14 else negb a14) else (if a0 then negb a14 else a14)) (if a26 then (if a31 then a13 else negb a13) else (if a31 then negb a13 else a13)) (if a25 then (if a30 then a12 else negb a12) else (if a30 then negb a12 else a12)) (if a24 then (if a29 then a11 else negb a11) else (if a29 then negb a11 else a11)) (if a23 then (if a28 then a10 else negb a10) else (if a28 then negb a10 else a10)) (if a22 then (if a27 then a9 else negb a9) else (if a27 then negb a9 else a9)) (if a21 then (if a26 then a8 else negb a8) else (if a26 then negb a8 else a8)) (if a20 then (if a25 then a7 else negb a7) else (if a25 then negb a7 else a7)) (if a19 then (if a24 then a6 else negb a6) else (if a24 then negb a6 else a6)) (if a18 then (if a23 then a5 else negb a5) else (if a23 then negb a5 else a5)) (if a17 then (if a22 then a4 else negb a4) else (if a22 then negb a4 else a4)) (if a16 then (if a21 then a3 else negb a3) else (if a21 then negb a3 else a3)) (if a15 then (if a20 then a2 else negb a2) else (if a20 then negb a2 else a2)) (if a14 then (if a19 then a1 else negb a1) else (if a19 then negb a1 else a1)) (if a13 then (if a18 then a0 else negb a0) else (if a18 then negb a0 else a0)) (if a12 then (if a17 then a31 else negb a31) else (if a17 then negb a31 else a31)) (if a11 then (if a16 then a30 else negb a30) else (if a16 then negb a30 else a30)) (if a10 then (if a15 then a29 else negb a29) else (if a15 then negb a29 else a29)) (if a9 then (if a14 then a28 else negb a28) else (if a14 then negb a28 else a28)) (if a8 then (if a13 then a27 else negb a27) else (if a13 then negb a27 else a27)) (if a7 then (if a12 then a26 else negb a26) else (if a12 then negb a26 else a26)) (if a6 then (if a11 then a25 else negb a25) else (if a11 then negb a25 else a25))
  end.

Definition w32_ssig0 (a : w32) : w32 :=
  match a with W32 a31 a30 a29 a28 a27 a26 a25 a24 a23 a22 a21 a20 a19 a18 a17 a16 a15 a14 a13 a12 a11 a10 a9 a8 a7 a6 a5 a4 a3 a2 a1 a0 =>
    W32 (xorb a6 a17) (xorb a5 a16) (xorb a4 a15) (if a3 then (if a14 then a31 else negb a31) else (if a14 then negb a31 else a31)) (if a2 then (if a13 then a30 else negb a30) else (if a13 then negb a30 else a30)) (if a1 then (if a12 then a29 else negb a29) else (if a12 then negb a29 else a29)) (if a0 then (if a11 then a28 else negb a28) else (if a11 then negb a28 else a28)) (if a31 then (if a10 then a27 else negb a27) else (if a10 then negb a27 else a27)) (if a30 then (if a9 then a26 else negb a26) else (if a9 then negb a26 else a26)) (if a29 then (if a8 then a25 else negb a25) else (if a8 then negb a25 else a25)) (if a28 then (if a7 then a24 else negb a24) else (if a7 then negb a24 else a24)) (if a27 then (if a6 then a23 else negb a23) else (if a6 then negb a23 else a23)) (if a26 then (if a5 then a22 else negb a22) else (if a5 then negb a22 else a22)) (if a25 then (if a4 then a21 else negb a21) else (if a4 then negb a21 else a21)) (if a24 then (if a3 then a20 else negb a20) else (if a3 then negb a20 else a20)) (if a23 then (if a2 then a19 else negb a19) else (if a2 then negb a19 else a19)) (if a22 then (if a1 then a18 else negb a18) else (if a1 then negb a18 else a18)) (if a21 then (if a0 then a17 else negb a17) else (if a0 then negb a17 else a17)) (if a20 then (if a31 then a16 else negb a16) else (if a31 then negb a16 else a16)) (if a19 then (if a30 then a15 else negb a15) else (if a30 then negb a15 else a15)) (if a18 then (if a29 then a14 else negb a14) else (if a29 then negb a14 else a14)) (if a17 then (if a28 then a13 else negb a13) else (if a28 then negb a13 else a13)) (if a16 then (if a27 then a12 else negb a12) else (if a27 then negb a12 else a12)) (if a15 then (if a26 then a11 else negb a11) else (if a26 then negb a11 else a11)) (if a14 then (if a25 then a10 else negb a10) else (if a25 then negb a10 else a10)) (if a13 then (if a24 then a9 else negb a9) else (if a24 then negb a9 else a9)) (if a12 then (if a23 then a8 else negb a8) else (if a23 then negb a8 else a8)) (if a11 then (if a22 then a7 else negb a7) else (if a22 then negb a7 else a7)) (if a10 then (if a21 then a6 else negb a6) else (if a21 then negb a6 else a6)) (if a9 then (if a20 then a5 else negb a5) else (if a20 then negb a5 else a5)) (if a8 then (if a19 then a4 else negb a4) else (if a19 then negb a4 else a4)) (if a7 then (if a18 then a3 else negb a3) else (if a18 then negb a3 else a3))
  end.

Definition w32_ssig1 (a : w32) : w32 :=
  match a with W32 a31 a30 a29 a28 a27 a26 a25 a24 a23 a22 a21 a20 a19 a18 a17 a16 a15 a14 a13 a12 a11 a10 a9 a8 a7 a6 a5 a4 a3 a2 a1 a0 =>
    W32 (xorb a16 a18) (xorb a15 a17) (xorb a14 a16) (xorb a13 a15) (xorb a12 a14) (xorb a11 a13) (xorb a10 a12) (xorb a9 a11) (xorb a8 a10) (xorb a7 a9) (if a6 then (if a8 then a31 else negb a31) else (if a8 then negb a31 else a31)) (if a5 then (if a7 then a30 else negb a30) else (if a7 then negb a30 else a30)) (if a4 then (if a6 then a29 else negb a29) else (if a6 then negb a29 else a29)) (if a3 then (if a5 then a28 else negb a28) else (if a5 then negb a28 else a28)) (if a2 then (if a4 then a27 else negb a27) else (if a4 then negb a27 else a27)) (if a1 then (if a3 then a26 else negb a26) else (if a3 then negb a26 else a26)) (if a0 then (if a2 then a25 else negb a25) else (if a2 then negb a25 else a25)) (if a31 then (if a1 then a24 else negb a24) else (if a1 then negb a24 else a24)) (if a30 then (if a0 then a23 else negb a23) else (if a0 then negb a23 else a23)) (if a29 then (if a31 then a22 else negb a22) else (if a31 then negb a22 else a22)) (if a28 then (if a30 then a21 else negb a21) else (if a30 then negb a21 else a21)) (if a27 then (if a29 then a20 else negb a20) else (if a29 then negb a20 else a20)) (if a26 then (if a28 then a19 else negb a19) else (if a28 then negb a19 else a19)) (if a25 then (if a27 then a18 else negb a18) else (if a27 then negb a18 else a18)) (if a24 then (if a26 then a17 else negb a17) else (if a26 then negb a17 else a17)) (if a23 then (if a25 then a16 else negb a16) else (if a25 then negb a16 else a16)) (if a22 then (if a24 then a15 else negb a15) else (if a24 then negb a15 else a15)) (if a21 then (if a23 then a14 else negb a14) else (if a23 then negb a14 else a14)) (if a20 then (if a22 then a13 else negb a13) else (if a22 then negb a13 else a13)) (if a19 then (if a21 then a12 else negb a12) else (if a21 then negb a12 else a12)) (if a18 then (if a20 then a11 else negb a11) else (if a20 then negb a11 else a11)) (if a17 then (if a19 then a10 else negb a10) else (if a19 then negb a10 else a10))
  end.

Definition w32_add (a b : w32) : w32 :=
  match a, b with W32 a31 a30 a29 a28 a27 a26 a25 a24 a23 a22 a21 a20 a19 a18 a17 a16 a15 a14 a13 a12 a11 a10 a9 a8 a7 a6 a5 a4 a3 a2 a1 a0, W32 b31 b30 b29 b28 b27 b26 b25 b24 b23 b22 b21 b20 b19 b18 b17 b16 b15 b14 b13 b12 b11 b10 b9 b8 b7 b6 b5 b4 b3 b2 b1 b0 =>
    let s0 := xorb a0 b0 in let c1 := andb a0 b0 in
    let '(s1, c2) := fa a1 b1 c1 in
    let '(s2, c3) := fa a2 b2 c2 in
    let '(s3, c4) := fa a3 b3 c3 in
    let '(s4, c5) := fa a4 b4 c4 in
    let '(s5, c6) := fa a5 b5 c5 in
    let '(s6, c7) := fa a6 b6 c6 in
    let '(s7, c8) := fa a7 b7 c7 in
    let '(s8, c9) := fa a8 b8 c8 in
    let '(s9, c10) := fa a9 b9 c9 in
    let '(s10, c11) := fa a10 b10 c10 in
    let '(s11, c12) := fa a11 b11 c11 in
    let '(s12, c13) := fa a12 b12 c12 in
    let '(s13, c14) := fa a13 b13 c13 in
    let '(s14, c15) := fa a14 b14 c14 in
    let '(s15, c16) := fa a15 b15 c15 in
    let '(s16, c17) := fa a16 b16 c16 in
    let '(s17, c18) := fa a17 b17 c17 in
    let '(s18, c19) := fa a18 b18 c18 in
    let '(s19, c20) := fa a19 b19 c19 in
    let '(s20, c21) := fa a20 b20 c20 in
    let '(s21, c22) := fa a21 b21 c21 in
    let '(s22, c23) := fa a22 b22 c22 in
    let '(s23, c24) := fa a23 b23 c23 in
    let '(s24, c25) := fa a24 b24 c24 in
    let '(s25, c26) := fa a25 b25 c25 in
    let '(s26, c27) := fa a26 b26 c26 in
    let '(s27, c28) := fa a27 b27 c27 in
    let '(s28, c29) := fa a28 b28 c28 in
    let '(s29, c30) := fa a29 b29 c29 in
    let '(s30, c31) := fa a30 b30 c30 in
    let s31 := xorb a31 (xorb b31 c31) in
    W32 s31 s30 s29 s28 s27 s26 s25 s24 s23 s22 s21 s20 s19 s18 s17 s16 s15 s14 s13 s12 s11 s10 s9 s8 s7 s6 s5 s4 s3 s2 s1 s0
  end.

Definition w32_of_octets (o0 o1 o2 o3 : N) : w32 :=
  W32 (N.testbit o0 7) (N.testbit o0 6) (N.testbit o0 5) (N.testbit o0 4) (N.testbit o0 3) (N.testbit o0 2) (N.testbit o0 1) (N.testbit o0 0) (N.testbit o1 7) (N.testbit o1 6) (N.testbit o1 5) (N.testbit o1 4) (N.testbit o1 3) (N.testbit o1 2) (N.testbit o1 1) (N.testbit o1 0) (N.testbit o2 7) (N.testbit o2 6) (N.testbit o2 5) (N.testbit o2 4) (N.testbit o2 3) (N.testbit o2 2) (N.testbit o2 1) (N.testbit o2 0) (N.testbit o3 7) (N.testbit o3 6) (N.testbit o3 5) (N.testbit o3 4) (N.testbit o3 3) (N.testbit o3 2) (N.testbit o3 1) (N.testbit o3 0).

Definition octets_of_w32 (a : w32) : list N :=
  match a with W32 a31 a30 a29 a28 a27 a26 a25 a24 a23 a22 a21 a20 a19 a18 a17 a16 a15 a14 a13 a12 a11 a10 a9 a8 a7 a6 a5 a4 a3 a2 a1 a0 =>
    [ nb a24 (nb a25 (nb a26 (nb a27 (nb a28 (nb a29 (nb a30 (nb a31 (0))))))));
      nb a16 (nb a17 (nb a18 (nb a19 (nb a20 (nb a21 (nb a22 (nb a23 (0))))))));
      nb a8 (nb a9 (nb a10 (nb a11 (nb a12 (nb a13 (nb a14 (nb a15 (0))))))));
      nb a0 (nb a1 (nb a2 (nb a3 (nb a4 (nb a5 (nb a6 (nb a7 (0)))))))) ]
  end.

Definition w32_of_N (x : N) : w32 :=
  W32 (N.testbit x 31) (N.testbit x 30) (N.testbit x 29) (N.testbit x 28) (N.testbit x 27) (N.testbit x 26) (N.testbit x 25) (N.testbit x 24) (N.testbit x 23) (N.testbit x 22) (N.testbit x 21) (N.testbit x 20) (N.testbit x 19) (N.testbit x 18) (N.testbit x 17) (N.testbit x 16) (N.testbit x 15) (N.testbit x 14) (N.testbit x 13) (N.testbit x 12) (N.testbit x 11) (N.testbit x 10) (N.testbit x 9) (N.testbit x 8) (N.testbit x 7) (N.testbit x 6) (N.testbit x 5) (N.testbit x 4) (N.testbit x 3) (N.testbit x 2) (N.testbit x 1) (N.testbit x 0).

(* ======== generated word operations: 64 bit ======== *)
Inductive w64 : Type := W64 (x63 x62 x61 x60 x59 x58 x57 x56 x55 x54 x53 x52 x51 x50 x49 x48 x47 x46 x45 x44 x43 x42 x41 x40 x39 x38 x37 x36 x35 x34 x33 x32 x31 x30 x29 x28 x27 x26 x25 x24 x23 x22 x21 x20 x19 x18 x17 x16 x15 x14 x13 x12 x11 x10 x9 x8 x7 x6 x5 x4 x3 x2 x1 x0 : bool).

Definition w64_xor (a b : w64) : w64 :=
  match a, b with W64 a63 a62 a61 a60 a59 a58 a57 a56 a55 a54 a53 a52 a51 a50 a49 a48 a47 a46 a45 a44 a43 a42 a41 a40 a39 a38 a37 a36 a35 a34 a33 a32 a31 a30 a29 a28 a27 a26 a25 a24 a23 a22 a21 a20 a19 a18 a17 a16 a15 a14 a13 a12 a11 a10 a9 a8 a7 a6 a5 a4 a3 a2 a1 a0, W64 b63 b62 b61 b60 b59 b58 b57 b56 b55 b54 b53 b52 b51 b50 b49 b48 b47 b46 b45 b44 b43 b42 b41 b40 b39 b38 b37 b36 b35 b34 b33 b32 b31 b30 b29 b28 b27 b26 b25 b24 b23 b22 b21 b20 b19 b18 b17 b16 b15 b14 b13 b12 b11 b10 b9 b8 b7 b6 b5 b4 b3 b2 b1 b0 =>
    W64 (xorb a63 b63) (xorb a62 b62) (xorb a61 b61) (xorb a60 b60) (xorb a59 b59) (xorb a58 b58) (xorb a57 b57) (xorb a56 b56) (xorb a55 b55) (xorb a54 b54) (xorb a53 b53) (xorb a52 b52) (xorb a51 b51) (xorb a50 b50) (xorb a49 b49) (xorb a48 b48) (xorb a47 b47) (xorb a46 b46) (xorb a45 b45) (xorb a44 b44) (xorb a43 b43) (xorb a42 b42) (xorb a41 b41) (xorb a40 b40) (xorb a39 b39) (xorb a38 b38) (xorb a37 b37) (xorb a36 b36) (xorb a35 b35) (xorb a34 b34) (xorb a33 b33) (xorb a32 b32) (xorb a31 b31) (xorb a30 b30) (xorb a29 b29) (xorb a28 b28) (xorb a27 b27) (xorb a26 b26) (xorb a25 b25) (xorb a24 b24) (xorb a23 b23) (xorb a22 b22) (xorb a21 b21) (xorb a20 b20) (xorb a19 b19) (xorb a18 b18) (xorb a17 b17) (xorb a16 b16) (xorb a15 b15) (xorb a14 b14) (xorb a13 b13) (xorb a12 b12) (xorb a11 b11) (xorb a10 b10) (xorb a9 b9) (xorb a8 b8) (xorb a7 b7) (xorb a6 b6) (xorb a5 b5) (xorb a4 b4) (xorb a3 b3) (xorb a2 b2) (xorb a1 b1) (xorb a0 b0)
  end.

Definition w64_xor3 (a b c : w64) : w64 :=
  match a, b, c with W64 a63 a62 a61 a60 a59 a58 a57 a56 a55 a54 a53 a52 a51 a50 a49 a48 a47 a46 a45 a44 a43 a42 a41 a40 a39 a38 a37 a36 a35 a34 a33 a32 a31 a30 a29 a28 a27 a26 a25 a24 a23 a22 a21 a20 a19 a18 a17 a16 a15 a14 a13 a12 a11 a10 a9 a8 a7 a6 a5 a4 a3 a2 a1 a0, W64 b63 b62 b61 b60 b59 b58 b57 b56 b55 b54 b53 b52 b51 b50 b49 b48 b47 b46 b45 b44 b43 b42 b41 b40 b39 b38 b37 b36 b35 b34 b33 b32 b31 b30 b29 b28 b27 b26 b25 b24 b23 b22 b21 b20 b19 b18 b17 b16 b15 b14 b13 b12 b11 b10 b9 b8 b7 b6 b5 b4 b3 b2 b1 b0, W64 c63 c62 c61 c60 c59 c58 c57 c56 c55 c54 c53 c52 c51 c50 c49 c48 c47 c46 c45 c44 c43 c42 c41 c40 c39 c38 c37 c36 c35 c34 c33 c32 c31 c30 c29 c28 c27 c26 c25 c24 c23 c22 c21 c20 c19 c18 c17 c16 c15 c14 c13 c12 c11 c10 c9 c8 c7 c6 c5 c4 c3 c2 c1 c0 =>
    W64 (if a63 then (if b63 then c63 else negb c63) else (if b63 then negb c63 else c63)) (if a62 then (if b62 then c62 else negb c62) else (if b62 then negb c62 else c62)) (if a61 then (if b61 then c61 else negb c61) else (if b61 then negb c61 else c61)) (if a60 then (if b60 then c60 else negb c60) else (if b60 then negb c60 else c60)) (if a59 then (if b59 then c59 else negb c59) else (if b59 then negb c59 else c59)) (if a58 then (if b58 then c58 else negb c58) else (if b58 then negb c58 else c58)) (if a57 then (if b57 then c57 else negb c57) else (if b57 then negb c57 else c57)) (if a56 then (if b56 then c56 else negb c56) else (if b56 then negb c56 else c56)) (if a55 then (if b55 then c55 else negb c55) else (if b55 then negb c55 else c55)) (if a54 then (if b54 then c54 else negb c54) else (if b54 then negb c54 else c54)) (if a53 then (if b53 then c53 else negb c53) else (if b53 then negb c53 else c53)) (if a52 then (if b52 then c52 else negb c52) else (if b52 then negb c52 else c52)) (if a51 then (if b51 then c51 else negb c51) else (if b51 then negb c51 else c51)) (if a50 then (if b50 then c50 else negb c50) else (if b50 then negb c50 else c50)) (if a49 then (if b49 then c49 else negb c49) else (if b49 then negb c49 else c49)) (if a48 then (if b48 then c48 else negb c48) else (if b48 then negb c48 else c48)) (if a47 then (if b47 then c47 else negb c47) else (if b47 then negb c47 else c47)) (if a46 then (if b46 then c46 else negb c46) else (if b46 then negb c46 else c46)) (if a45 then (if b45 then c45 else negb c45) else (if b45 then negb c45 else c45)) (if a44 then (if b44 then c44 else negb c44) else (if b44 then negb c44 else c44)) (if a43 then (if b43 then c43 else negb c43) else (if b43 then negb c43 else c43)) (if a42 then (if b42 then c42 else negb c42) else (if b42 then negb c42 else c42)) (if a41 then (if b41 then c41 else negb c41) else (if b41 then negb c41 else c41)) (if a40 then (if b40 then c40 else negb c40) else (if b40 then negb c40 else c40)) (if a39 then (if b39 then c39 else negb c39) else (if b39 then negb c39 else c39)) (if a38 then (if b38 then c38 else negb c38) else (if b38 then negb c38 else c38)) (if a37 then (if b37 then c37 else negb c37) else (if b37 then negb c37 else c37)) (if a36 then (if b36 then c36 else negb c36) else (if b36 then negb c36 else c36)) (if a35 then (if b35 then c35 else negb c35) else (if b35 then negb c35 else c35)) (if a34 then (if b34 then c34 else negb c34) else (if b34 then negb c34 else c34)) (if a33 then (if b33 then c33 else negb c33) else (if b33 then negb c33 else c33)) (if a32 then (if b32 then c32 else negb c32) else (if b32 then negb c32 else c32)) (if a31 then (if b31 then c31 else negb c31) else (if b31 then negb c31 else c31)) (if a30 then (if b30 then c30 else negb c30) else (if b30 then negb c30 else c30)) (if a29 then (if b29 then c29 else negb c29) else (if b29 then negb c29 else c29)) (if a28 then (if b28 then c28 else negb c28) else (if b28 then negb c28 else c28)) (if a27 then (if b27 then c27 else negb c27) else (if b27 then negb c27 else c27)) (if a26 then (if b26 then c26 else negb c26) else (if b26 then negb c26 else c26)) (if a25 then (if b25 then c25 else negb c25) else (if b25 then negb c25 else c25)) (if a24 then (if b24 then c24 else negb c24) else (if b24 then negb c24 else c24)) (if a23 then (if b23 then c23 else negb c23) else (if b23 then negb c23 else c23)) (if a22 then (if b22 then c22 else negb c22) else (if b22 then negb c22 else c22)) (if a21 then (if b21 then c21 else negb c21) else (if b21 then negb c21 else c21)) (if a20 then (if b20 then c20 else negb c20) else (if b20 then negb c20 else c20)) (if a19 then (if b19 then c19 else negb c19) else (if b19 then negb c19 else c19)) (if a18 then (if b18 then c18 else negb c18) else (if b18 then negb c18 else c18)) (if a17 then (if b17 then c17 else negb c17) else (if b17 then negb c17 else c17)) (if a16 then (if b16 then c16 else negb c16) else (if b16 then negb c16 else c16)) (if a15 then (if b15 then c15 else negb c15) else (if b15 then negb c15 else c15)) (if a14 then (if b14 then c14 else negb c14) else (if b14 then negb c14 else c14)) (if a13 then (if b13 then c13 else negb c13) else (if b13 then negb c13 else c13)) (if a12 then (if b12 then c12 else negb c12) else (if b12 then negb c12 else c12)) (if a11 then (if b11 then c11 else negb c11) else (if b11 then negb c11 else c11)) (if a10 then (if b10 then c10 else negb c10) else (if b10 then negb c10 else c10)) (if a9 then (if b9 then c9 else negb c9) else (if b9 then negb c9 else c9)) (if a8 then (if b8 then c8 else negb c8) else (if b8 then negb c8 else c8)) (if a7 then (if b7 then c7 else negb c7) else (if b7 then negb c7 else c7)) (if a6 then (if b6 then c6 else negb c6) else (if b6 then negb c6 else c6)) (if a5 then (if b5 then c5 else negb c5) else (if b5 then negb c5 else c5)) (if a4 then (if b4 then c4 else negb c4) else (if b4 then negb c4 else c4)) (if a3 then (if b3 then c3 else negb c3) else (if b3 then negb c3 else c3)) (if a2 then (if b2 then c2 else negb c2) else (if b2 then negb c2 else c2)) (if a1 then (if b1 then c1 else negb c1) else (if b1 then negb c1 else c1)) (if a0 then (if b0 then c0 else negb c0) else (if b0 then negb c0 else c0))
  end.

Definition w64_ch (a b c : w64) : w64 :=
  match a, b, c with W64 a63 a62 a61 a60 a59 a58 a57 a56 a55 a54 a53 a52 a51 a50 a49 a48 a47 a46 a45 a44 a43 a42 a41 a40 a39 a38 a37 a36 a35 a34 a33 a32 a31 a30 a29 a28 a27 a26 a25 a24 a23 a22 a21 a20 a19 a18 a17 a16 a15 a14 a13 a12 a11 a10 a9 a8 a7 a6 a5 a4 a3 a2 a1 a0, W64 b63 b62 b61 b60 b59 b58 b57 b56 b55 b54 b53 b52 b51 b50 b49 b48 b47 b46 b45 b44 b43 b42 b41 b40 b39 b38 b37 b36 b35 b34 b33 b32 b31 b30 b29 b28 b27 b26 b25 b24 b23 b22 b21 b20 b19 b18 b17 b16 b15 b14 b13 b12 b11 b10 b9 b8 b7 b6 b5 b4 b3 b2 b1 b0, W64 c63 c62 c61 c60 c59 c58 c57 c56 c55 c54 c53 c52 c51 c50 c49 c48 c47 c46 c45 c44 c43 c42 c41 c40 c39 c38 c37 c36 c35 c34 c33 c32 c31 c30 c29 c28 c27 c26 c25 c24 c23 c22 c21 c20 c19 c18 c17 c16 c15 c14 c13 c12 c11 c10 c9 c8 c7 c6 c5 c4 c3 c2 c1 c0 =>
    W64 (if a63 then b63 else c63) (if a62 then b62 else c62) (if a61 then b61 else c61) (if a60 then b60 else c60) (if a59 then b59 else c59) (if a58 then b58 else c58) (if a57 then b57 else c57) (if a56 then b56 else c56) (if a55 then b55 else c55) (if a54 then b54 else c54) (if a53 then b53 else c53) (if a52 then b52 else c52) (if a51 then b51 else c51) (if a50 then b50 else c50) (if a49 then b49 else c49) (if a48 then b48 else c48) (if a47 then b47 else c47) (if a46 then b46 else c46) (if a45 then b45 else c45) (if a44 then b44 else c44) (if a43 then b43 else c43) (if a42 then b42 else c42) (if a41 then b41 else c41) (if a40 then b40 else c40) (if a39 then b39 else c39) (if a38 then b38 else c38) (if a37 then b37 else c37) (if a36 then b36 else c36) (if a35 then b35 else c35) (if a34 then b34 else c34) (if a33 then b33 else c33) (if a32 then b32 else c32) (if a31 then b31 else c31) (if a30 then b30 else c30) (if a29 then b29 else c29) (if a28 then b28 else c28) (if a27 then b27 else c27) (if a26 then b26 else c26) (if a25 then b25 else c25) (if a24 then b24 else c24) (if a23 then b23 else c23) (if a22 then b22 else c22) (if a21 then b21 else c21) (if a20 then b20 else c20) (if a19 then b19 else c19) (if a18 then b18 else c18) (if a17 then b17 else c17) (if a16 then b16 else c16) (if a15 then b15 else c15) (if a14 then b14 else c14) (if a13 then b13 else c13) (if a12 then b12 else c12) (if a11 then b11 else c11) (if a10 then b10 else c10) (if a9 then b9 else c9) (if a8 then b8 else c8) (if a7 then b7 else c7) (if a6 then b6 else c6) (if a5 then b5 else c5) (if a4 then b4 else c4) (if a3 then b3 else c3) (if a2 then b2 else c2) (if a1 then b1 else c1) (if a0 then b0 else c0)
  end.

Definition w64_maj (a b c : w64) : w64 :=
  match a, b, c with W64 a63 a62 a61 a60 a59 a58 a57 a56 a55 a54 a53 a52 a51 a50 a49 a48 a47 a46 a45 a44 a43 a42 a41 a40 a39 a38 a37 a36 a35 a34 a33 a32 a31 a30 a29 a28 a27 a26 a25 a24 a23 a22 a21 a20 a19 a18 a17 a16 a15 a14 a13 a12 a11 a10 a9 a8 a7 a6 a5 a4 a3 a2 a1 a0, W64 b63 b62 b61 b60 b59 b58 b57 b56 b55 b54 b53 b52 b51 b50 b49 b48 b47 b46 b45 b44 b43 b42 b41 b40 b39 b38 b37 b36 b35 b34 b33 b32 b31 b30 b29 b28 b27 b26 b25 b24 b23 b22 b21 b20 b19 b18 b17 b16 b15 b14 b13 b12 b11 b10 b9 b8 b7 b6 b5 b4 b3 b2 b1 b0, W64 c63 c62 c61 c60 c59 c58 c57 c56 c55 c54 c53 c52 c51 c50 c49 c48 c47 c46 c45 c44 c43 c42 c41 c40 c39 c38 c37 c36 c35 c34 c33 c32 c31 c30 c29 c28 c27 c26 c25 c24 c23 c22 c21 c20 c19 c18 c17 c16 c15 c14 c13 c12 c11 c10 c9 c8 c7 c6 c5 c4 c3 c2 c1 c0 =>
    W64 (if a63 then orb b63 c63 else andb b63 c63) (if a62 then orb b62 c62 else andb b62 c62) (if a61 then orb b61 c61 else andb b61 c61) (if a60 then orb b60 c60 else andb b60 c60) (if a59 then orb b59 c59 else andb b59 c59) (if a58 then orb b58 c58 else andb b58 c58) (if a57 then orb b57 c57 else andb b57 c57) (if a56 then orb b56 c56 else andb b56 c56) (if a55 then orb b55 c55 else andb b55 c55) (if a54 then orb b54 c54 else andb b54 c54) (if a53 then orb b53 c53 else andb b53 c53) (if a52 then orb b52 c52 else andb b52 c52) (if a51 then orb b51 c51 else andb b51 c51) (if a50 then orb b50 c50 else andb b50 c50) (if a49 then orb b49 c49 else andb b49 c49) (if a48 then orb b48 c48 else andb b48 c48) (if a47 then orb b47 c47 else andb b47 c47) (if a46 then orb b46 c46 else andb b46 c46) (if a45 then orb b45 c45 else andb b45 c45) (if a44 then orb b44 c44 else andb b44 c44) (if a43 then orb b43 c43 else andb b43 c43) (if a42 then orb b42 c42 else andb b42 c42) (if a41 then orb b41 c41 else andb b41 c41) (if a40 then orb b40 c40 else andb b40 c40) (if a39 then orb b39 c39 else andb b39 c39) (if a38 then orb b38 c38 else andb b38 c38) (if a37 then orb b37 c37 else andb b37 c37) (if a36 then orb b36 c36 else andb b36 c36) (if a35 then orb b35 c35 else andb b35 c35) (if a34 then orb b34 c34 else andb b34 c34) (if a33 then orb b33 c33 else andb b33 c33) (if a32 then orb b32 c32 else andb b32 c32) (if a31 then orb b31 c31 else andb b31 c31) (if a30 then orb b30 c30 else andb b30 c30) (if a29 then orb b29 c29 else andb b29 c29) (if a28 then orb b28 c28 else andb b28 c28) (if a27 then orb b27 c27 else andb b27 c27) (if a26 then orb b26 c26 else andb b26 c26) (if a25 then orb b25 c25 else andb b25 c25) (if a24 then orb b24 c24 else andb b24 c24) (if a23 then orb b23 c23 else andb b23 c23) (if a22 then orb b22 c22 else andb b22 c22) (if a21 then orb b21 c21 else andb b21 c21) (if a20 then orb b20 c20 else andb b20 c20) (if a19 then orb b19 c19 else andb b19 c19) (if a18 then orb b18 c18 else andb b18 c18) (if a17 then orb b17 c17 else andb b17 c17) (if a16 then orb b16 c16 else andb b16 c16) (if a15 then orb b15 c15 else andb b15 c15) (if a14 then orb b14 c14 else andb b14 c14) (if a13 then orb b13 c13 else andb b13 c13) (if a12 then orb b12 c12 else andb b12 c12) (if a11 then orb b11 c11 else andb b11 c11) (if a10 then orb b10 c10 else andb b10 c10) (if a9 then orb b9 c9 else andb b9 c9) (if a8 then orb b8 c8 else andb b8 c8) (if a7 then orb b7 c7 else andb b7 c7) (if a6 then orb b6 c6 else andb b6 c6) (if a5 then orb b5 c5 else andb b5 c5) (if a4 then orb b4 c4 else andb b4 c4) (if a3 then orb b3 c3 else andb b3 c3) (if a2 then orb b2 c2 else andb b2 c2) (if a1 then orb b1 c1 else andb b1 c1) (if a0 then orb b0 c0 else andb b0 c0)
  end.

Definition w64_bsig0 (a : w64) : w64 :=
  match a with W64 a63 a62 a61 a60 a59 a58 a57 a56 a55 a54 a53 a52 a51 a50 a49 a48 a47 a46 a45 a44 a43 a42 a41 a40 a39 a38 a37 a36 a35 a34 a33 a32 a31 a30 a29 a28 a27 a26 a25 a24 a23 a22 a21 a20 a19 a18 a17 a16 a15 a14 a13 a12 a11 a10 a9 a8 a7 a6 a5 a4 a3 a2 a1 a0 =>
    W64 (if a27 then (if a33 then a38 else negb a38) else (if a33 then negb a38 else a38)) (if a26 then (if a32 then a37 else negb a37) else (if a32 then negb a37 else a37)) (if a25 then (if a31 then a36 else negb a36) else (if a31 then negb a36 else a36)) (if a24 then (if a30 then a35 else negb a35) else (if a30 then negb a35 else a35)) (if a23 then (if a29 then a34 else negb a34) else (if a29 then negb a34 else a34)) (if a22 then (if a28 then a33 else negb a33) else (if a28 then negb a33 else a33)) (if a21 then (if a27 then a32 else negb a32) else (if a27 then negb a32 else a32)) (if a20 then (if a26 then a31 else negb a31) else (if a26 then negb a31 else a31)) (if a19 then (if a25 then a30 else negb a30) else (if a25 then negb a30 else a30)) (if a18 then (if a24 then a29 else negb a29) else (if a24 then negb a29 else a29)) (if a17 then (if a23 then a28 else negb a28) else (if a23 then negb a28 else a28)) (if a16 then (if a22 then a27 else negb a27) else (if a22 then negb a27 else a27)) (if a15 then (if a21 then a26 else negb a26) else (if a21 then negb a26 else a26)) (if a14 then (if a20 then a25 else negb a25) else (if a20 then negb a25 else a25)) (if a13 then (if a19 then a24 else negb a24) else (if a19 then negb a24 else a24)) (if a12 then (if a18 then a23 else negb a23) else (if a18 then negb a23 else a23)) (if a11 then (if a17 then a22 else negb a22) else (if a17 then negb a22 else a22)) (if a10 then (if a16 then a21 else negb a21) else (if a16 then negb a21 else a21)) (if a9 then (if a15 then a20 else negb a20) else (if a15 then negb a20 else a20)) (if a8 then (if a14 then a19 else negb a19) else (if a14 then negb a19 else a19)) (if a7 then (if a13 then a18 else negb a18) else (if a13 then negb a18 else a18)) (if a6 then (if a12 then a17 else negb a17) else (if a12 then negb a17 else a17)) (if a5 then (if a11 then a16 else negb a16) else (if a11 then negb a16 else a16)) (if a4 then (if a10 then a15 else negb a15) else (if a10 then negb a15 else a15)) (if a3 then (if a9 then a14 else negb a14) else (if a9 then negb a14 else a14)) (if a2 then (if a8 then a13 else negb a13) else (if a8 then negb a13 else a13)) (if a1 then (if a7 then a12 else negb a12) else (if a7 then negb a12 else a12)) (if a0 then (if a6 then a11 else negb a11) else (if a6 then negb a11 else a11)) (if a63 then (if a5 then a10 else negb a10) else (if a5 then negb a10 else a10)) (if a62 then (if a4 then a9 else negb a9) else (if a4 then negb a9 else a9)) (if a61 then (if a3 then a8 else negb a8) else (if a3 then negb a8 else a8)) (if a60 then (if a2 then a7 else negb a7) else (if a2 then negb a7 else a7)) (if a59 then (if a1 then a6 else negb a6) else (if a1 then negb a6 else a6)) (if a58 then (if a0 then a5 else negb a5) else (if a0 then negb a5 else a5)) (if a57 then (if a63 then a4 else negb a4) else (if a63 then negb a4 else a4)) (if a56 then (if a62 then a3 else negb a3) else (if a62 then negb a3 else a3)) (if a55 then (if a61 then a2 else negb a2) else (if a61 then negb a2 else a2)) (if a54 then (if a60 then a1 else negb a1) else (if a60 then negb a1 else a1)) (if a53 then (if a59 then a0 else negb a0) else (if a59 then negb a0 else a0)) (if a52 then (if a58 then a63 else negb a63) else (if a58 then negb a63 else a63)) (if a51 then (if a57 then a62 else negb a62) else (if a57 then negb a62 else a62)) (if a50 then (if a56 then a61 else negb a61) else (if a56 then negb a61 else a61)) (if a49 then (if a55 then a60 else negb a60) else (if a55 then negb a60 else a60)) (if a48 then (if a54 then a59 else negb a59) else (if a54 then negb a59 else a59)) (if a47 then (if a53 then a58 else negb a58) else (if a53 then negb a58 else a58)) (if a46 then (if a52 then a57 else negb a57) else (if a52 then negb a57 else a57)) (if a45 then (if a51 then a56 else negb a56) else (if a51 then negb a56 else a56)) (if a44 then (if a50 then a55 else negb a55) else (if a50 then negb a55 else a55)) (if a43 then (if a49 then a54 else negb a54) else (if a49 then negb a54 else a54)) (if a42 then (if a48 then a53 else negb a53) else (if a48 then negb a53 else a53)) (if a41 then (if a47 then a52 else negb a52) else (if a47 then negb a52 else a52)) (if a40 then (if a46 then a51 else negb a51) else (if a46 then negb a51 else a51)) (if a39 then (if a45 then a50 else negb a50) else (if a45 then negb a50 else a50)) (if a38 then (if a44 then a49 else negb a49) else (if a44 then negb a49 else a49)) (if a37 then (if a43 then a48 else negb a48) else (if a43 then negb a48 else a48)) (if a36 then (if a42 then a47 else negb a47) else (if a42 then negb a47 else a47)) (if a35 then (if a41 then a46 else negb a46) else (if a41 then negb a46 else a46)) (if a34 then (if a40 then a45 else negb a45) else (if a40 then negb a45 else a45)) (if a33 then (if a39 then a44 else negb a44) else (if a39 then negb a44 else a44)) (if a32 then (if a38 then a43 else negb a43) else (if a38 then negb a43 else a43)) (if a31 then (if a37 then a42 else negb a42) else (if a37 then negb a42 else a42)) (if a30 then (if a36 then a41 else negb a41) else (if a36 then negb a41 else a41)) (if a29 then (if a35 then a40 else negb a40) else (if a35 then negb a40 else a40)) (if a28 then (if a34 then a39 else negb a39) else (if a34 then negb a39 else a39))
  end.

Definition w64_bsig1 (a : w64) : w64 :=
  match a with W64 a63 a62 a61 a60 a59 a58 a57 a56 a55 a54 a53 a52 a51 a50 a49 a48 a47 a46 a45 a44 a43 a42 a41 a40 a39 a38 a37 a36 a35 a34 a33 a32 a31 a30 a29 a28 a27 a26 a25 a24 a23 a22 a21 a20 a19 a18 a17 a16 a15 a14 a13 a12 a11 a10 a9 a8 a7 a6 a5 a4 a3 a2 a1 a0 =>
    W64 (if a13 then (if a17 then a40 else negb a40) else (if a17 then negb a40 else a40)) (if a12 then (if a16 then a39 else negb a39) else (if a16 then negb a39 else a39)) (if a11 then (if a15 then a38 else negb a38) else (if a15 then negb a38 else a38)) (if a10 then (if a14 then a37 else negb a37) else (if a14 then negb a37 else a37)) (if a9 then (if a13 then a36 else negb a36) else (if a13 then negb a36 else a36)) (if a8 then (if a12 then a35 else negb a35) else (if a12 then negb a35 else a35)) (if a7 then (if a11 then a34 else negb a34) else (if a11 then negb a34 else a34)) (if a6 then (if a10 then a33 else negb a33) else (if a10 then negb a33 else a33)) (if a5 then (if a9 then a32 else negb a32) else (if a9 then negb a32 else a32)) (if a4 then (if a8 then a31 else negb a31) else (if a8 then negb a31 else a31)) (if a3 then (if a7 then a30 else negb a30) else (if a7 then negb a30 else a30)) (if a2 then (if a6 then a29 else negb a29) else (if a6 then negb a29 else a29)) (if a1 then (if a5 then a28 else negb a28) else (if a5 then negb a28 else a28)) (if a0 then (if a4 then a27 else negb a27) else (if a4 then negb a27 else a27)) (if a63 then (if a3 then a26 else negb a26) else (if a3 then negb a26 else a26)) (if a62 then (if a2 then a25 else negb a25) else (if a2 then negb a25 else a25)) (if a61 then (if a1 then a24 else negb a24) else (if a1 then negb a24 else a24)) (if a60 then (if a0 then a23 else negb a23) else (if a0 then negb a23 else a23)) (if a59 then (if a63 then a22 else negb a22) else (if a63 then negb a22 else a22)) (if a58 then (if a62 then a21 else negb a21) else (if a62 then negb a21 else a21)) (if a57 then (if a61 then a20 else negb a20) else (if a61 then negb a20 else a20)) (if a56 then (if a60 then a19 else negb a19) else (if a60 then negb a19 else a19)) (if a55 then (if a59 then a18 else negb a18) else (if a59 then negb a18 else a18)) (if a54 then (if a58 then a17 else negb a17) else (if a58 then negb a17 else a17)) (if a53 then (if a57 then a16 else negb a16) else (if a57 then negb a16 else a16)) (if a52 then (if a56 then a15 else negb a15) else (if a56 then negb a15 else a15)) (if a51 then (if a55 then a14 else negb a14) else (if a55 then negb a14 else a14)) (if a50 then (if a54 then a13 else negb a13) else (if a54 then negb a13 else a13)) (if a49 then (if a53 then a12 else negb a12) else (if a53 then negb a12 else a12)) (if a48 then (if a52 then a11 else negb a11) else (if a52 then negb a11 else a11)) (if a47 then (if a51 then a10 else negb a10) else (if a51 then negb a10 else a10)) (if a46 then (if a50 then a9 else negb a9) else (if a50 then negb a9 else a9)) (if a45 then (if a49 then a8 else negb a8) else (if a49 then negb a8 else a8)) (if a44 then (if a48 then a7 else negb a7) else (if a48 then negb a7 else a7)) (if a43 then (if a47 then a6 else negb a6) else (if a47 then negb a6 else a6)) (if a42 then (if a46 then a5 else negb a5) else (if a46 then negb a5 else a5)) (if a41 then (if a45 then a4 else negb a4) else (if a45 then negb a4 else a4)) (if a40 then (if a44 then a3 else negb a3) else (if a44 then negb a3 else a3)) (if a39 then (if a43 then a2 else negb a2) else (if a43 then negb a2 else a2)) (if a38 then (if a42 then a1 else negb a1) else (if a42 then negb a1 else a1)) (if a37 then (if a41 then a0 else negb a0) else (if a41 then negb a0 else a0)) (if a36 then (if a40 then a63 else negb a63) else (if a40 then negb a63 else a63)) (if a35 then (if a39 then a62 else negb a62) else (if a39 then negb a62 else a62)) (if a34 then (if a38 then a61 else negb a61) else (if a38 then negb a61 else a61)) (if a33 then (if a37 then a60 else negb a60) else (if a37 then negb a60 else a60)) (if a32 then (if a36 then a59 else negb a59) else (if a36 then negb a59 else a59)) (if a31 then (if a35 then a58 else negb a58) else (if a35 then negb a58 else a58)) (if a30 then (if a34 then a57 else negb a57) else (if a34 then negb a57 else a57)) (if a29 then (if a33 then a56 else negb a56) else (if a33 then negb a56 else a56)) (if a28 then (if a32 then a55 else negb a55) else (if a32 then negb a55 else a55)) (if a27 then (if a31 then a54 else negb a54) else (if a31 then negb a54 else a54)) (if a26 then (if a30 then a53 else negb a53) else (if a30 then negb a53 else a53)) (if a25 then (if a29 then a52 else negb a52) else (if a29 then negb a52 else a52)) (if a24 then (if a28 then a51 else negb a51) else (if a28 then negb a51 else a51)) (if a23 then (if a27 then a50 else negb a50) else (if a27 then negb a50 else a50)) (if a22 then (if a26 then a49 else negb a49) else (if a26 then negb a49 else a49)) (if a21 then (if a25 then a48 else negb a48) else (if a25 then negb a48 else a48)) (if a20 then (if a24 then a47 else negb a47) else (if a24 then negb a47 else a47)) (if a19 then (if a23 then a46 else negb a46) else (if a23 then negb a46 else a46)) (if a18 then (if a22 then a45 else negb a45) else (if a22 then negb a45 else a45)) (if a17 then (if a21 then a44 else negb a44) else (if a21 then negb a44 else a44)) (if a16 then (if a20 then a43 else negb a43) else (if a20 then negb a43 else a43)) (if a15 then (if a19 then a42 else negb a42) else (if a19 then negb a42 else a42)) (if a14 then (if a18 then a41 else negb a41) else (if a18 then negb a41 else a41))
  end.

Definition w64_ssig0 (a : w64) : w64 :=
  match a with W64 a63 a62 a61 a60 a59 a58 a57 a56 a55 a54 a53 a52 a51 a50 a49 a48 a47 a46 a45 a44 a43 a42 a41 a40 a39 a38 a37 a36 a35 a34 a33 a32 a31 a30 a29 a28 a27 a26 a25 a24 a23 a22 a21 a20 a19 a18 a17 a16 a15 a14 a13 a12 a11 a10 a9 a8 a7 a6 a5 a4 a3 a2 a1 a0 =>
    W64 (xorb a0 a7) (xorb a63 a6) (xorb a62 a5) (xorb a61 a4) (xorb a60 a3) (xorb a59 a2) (xorb a58 a1) (if a57 then (if a0 then a63 else negb a63) else (if a0 then negb a63 else a63)) (if a56 then (if a63 then a62 else negb a62) else (if a63 then negb a62 else a62)) (if a55 then (if a62 then a61 else negb a61) else (if a62 then negb a61 else a61)) (if a54 then (if a61 then a60 else negb a60) else (if a61 then negb a60 else a60)) (if a53 then (if a60 then a59 else negb a59) else (if a60 then negb a59 else a59)) (if a52 then (if a59 then a58 else negb a58) else (if a59 then negb a58 else a58)) (if a51 then (if a58 then a57 else negb a57) else (if a58 then negb a57 else a57)) (if a50 then (if a57 then a56 else negb a56) else (if a57 then negb a56 else a56)) (if a49 then (if a56 then a55 else negb a55) else (if a56 then negb a55 else a55)) (if a48 then (if a55 then a54 else negb a54) else (if a55 then negb a54 else a54)) (if a47 then (if a54 then a53 else negb a53) else (if a54 then negb a53 else a53)) (if a46 then (if a53 then a52 else negb a52) else (if a53 then negb a52 else a52)) (if a45 then (if a52 then a51 else negb a51) else (if a52 then negb a51 else a51)) (if a44 then (if a51 then a50 else negb a50) else (if a51 then negb a50 else a50)) (if a43 then (if a50 then a49 else negb a49) else (if a50 then negb a49 else a49)) (if a42 then (if a49 then a48 else negb a48) else (if a49 then negb a48 else a48)) (if a41 then (if a48 then a47 else negb a47) else (if a48 then negb a47 else a47)) (if a40 then (if a47 then a46 else negb a46) else (if a47 then negb a46 else a46)) (if a39 then (if a46 then a45 else negb a45) else (if a46 then negb a45 else a45)) (if a38 then (if a45 then a44 else negb a44) else (if a45 then negb a44 else a44)) (if a37 then (if a44 then a43 else negb a43) else (if a44 then negb a43 else a43)) (if a36 then (if a43 then a42 else negb a42) else (if a43 then negb a42 else a42)) (if a35 then (if a42 then a41 else negb a41) else (if a42 then negb a41 else a41)) (if a34 then (if a41 then a40 else negb a40) else (if a41 then negb a40 else a40)) (if a33 then (if a40 then a39 else negb a39) else (if a40 then negb a39 else a39)) (if a32 then (if a39 then a38 else negb a38) else (if a39 then negb a38 else a38)) (if a31 then (if a38 then a37 else negb a37) else (if a38 then negb a37 else a37)) (if a30 then (if a37 then a36 else negb a36) else (if a37 then negb a36 else a36)) (if a29 then (if a36 then a35 else negb a35) else (if a36 then negb a35 else a35)) (if a28 then (if a35 then a34 else negb a34) else (if a35 then negb a34 else a34)) (if a27 then (if a34 then a33 else negb a33) else (if a34 then negb a33 else a33)) (if a26 then (if a33 then a32 else negb a32) else (if a33 then negb a32 else a32)) (if a25 then (if a32 then a31 else negb a31) else (if a32 then negb a31 else a31)) (if a24 then (if a31 then a30 else negb a30) else (if a31 then negb a30 else a30)) (if a23 then (if a30 then a29 else negb a29) else (if a30 then negb a29 else a29)) (if a22 then (if a29 then a28 else negb a28) else (if a29 then negb a28 else a28)) (if a21 then (if a28 then a27 else negb a27) else (if a28 then negb a27 else a27)) (if a20 then (if a27 then a26 else negb a26) else (if a27 then negb a26 else a26)) (if a19 then (if a26 then a25 else negb a25) else (if a26 then negb a25 else a25)) (if a18 then (if a25 then a24 else negb a24) else (if a25 then negb a24 else a24)) (if a17 then (if a24 then a23 else negb a23) else (if a24 then negb a23 else a23)) (if a16 then (if a23 then a22 else negb a22) else (if a23 then negb a22 else a22)) (if a15 then (if a22 then a21 else negb a21) else (if a22 then negb a21 else a21)) (if a14 then (if a21 then a20 else negb a20) else (if a21 then negb a20 else a20)) (if a13 then (if a20 then a19 else negb a19) else (if a20 then negb a19 else a19)) (if a12 then (if a19 then a18 else negb a18) else (if a19 then negb a18 else a18)) (if a11 then (if a18 then a17 else negb a17) else (if a18 then negb a17 else a17)) (if a10 then (if a17 then a16 else negb a16) else (if a17 then negb a16 else a16)) (if a9 then (if a16 then a15 else negb a15) else (if a16 then negb a15 else a15)) (if a8 then (if a15 then a14 else negb a14) else (if a15 then negb a14 else a14)) (if a7 then (if a14 then a13 else negb a13) else (if a14 then negb a13 else a13)) (if a6 then (if a13 then a12 else negb a12) else (if a13 then negb a12 else a12)) (if a5 then (if a12 then a11 else negb a11) else (if a12 then negb a11 else a11)) (if a4 then (if a11 then a10 else negb a10) else (if a11 then negb a10 else a10)) (if a3 then (if a10 then a9 else negb a9) else (if a10 then negb a9 else a9)) (if a2 then (if a9 then a8 else negb a8) else (if a9 then negb a8 else a8)) (if a1 then (if a8 then a7 else negb a7) else (if a8 then negb a7 else a7))
  end.

Definition w64_ssig1 (a : w64) : w64 :=
  match a with W64 a63 a62 a61 a60 a59 a58 a57 a56 a55 a54 a53 a52 a51 a50 a49 a48 a47 a46 a45 a44 a43 a42 a41 a40 a39 a38 a37 a36 a35 a34 a33 a32 a31 a30 a29 a28 a27 a26 a25 a24 a23 a22 a21 a20 a19 a18 a17 a16 a15 a14 a13 a12 a11 a10 a9 a8 a7 a6 a5 a4 a3 a2 a1 a0 =>
    W64 (xorb a18 a60) (xorb a17 a59) (xorb a16 a58) (xorb a15 a57) (xorb a14 a56) (xorb a13 a55) (if a12 then (if a54 then a63 else negb a63) else (if a54 then negb a63 else a63)) (if a11 then (if a53 then a62 else negb a62) else (if a53 then negb a62 else a62)) (if a10 then (if a52 then a61 else negb a61) else (if a52 then negb a61 else a61)) (if a9 then (if a51 then a60 else negb a60) else (if a51 then negb a60 else a60)) (if a8 then (if a50 then a59 else negb a59) else (if a50 then negb a59 else a59)) (if a7 then (if a49 then a58 else negb a58) else (if a49 then negb a58 else a58)) (if a6 then (if a48 then a57 else negb a57) else (if a48 then negb a57 else a57)) (if a5 then (if a47 then a56 else negb a56) else (if a47 then negb a56 else a56)) (if a4 then (if a46 then a55 else negb a55) else (if a46 then negb a55 else a55)) (if a3 then (if a45 then a54 else negb a54) else (if a45 then negb a54 else a54)) (if a2 then (if a44 then a53 else negb a53) else (if a44 then negb a53 else a53)) (if a1 then (if a43 then a52 else negb a52) else (if a43 then negb a52 else a52)) (if a0 then (if a42 then a51 else negb a51) else (if a42 then negb a51 else a51)) (if a63 then (if a41 then a50 else negb a50) else (if a41 then negb a50 else a50)) (if a62 then (if a40 then a49 else negb a49) else (if a40 then negb a49 else a49)) (if a61 then (if a39 then a48 else negb a48) else (if a39 then negb a48 else a48)) (if a60 then (if a38 then a47 else negb a47) else (if a38 then negb a47 else a47)) (if a59 then (if a37 then a46 else negb a46) else (if a37 then negb a46 else a46)) (if a58 then (if a36 then a45 else negb a45) else (if a36 then negb a45 else a45)) (if a57 then (if a35 then a44 else negb a44) else (if a35 then negb a44 else a44)) (if a56 then (if a34 then a43 else negb a43) else (if a34 then negb a43 else a43)) (if a55 then (if a33 then a42 else negb a42) else (if a33 then negb a42 else a42)) (if a54 then (if a32 then a41 else negb a41) else (if a32 then negb a41 else a41)) (if a53 then (if a31 then a40 else negb a40) else (if a31 then negb a40 else a40)) (if a52 then (if a30 then a39 else negb a39) else (if a30 then negb a39 else a39)) (if a51 then (if a29 then a38 else negb a38) else (if a29 then negb a38 else a38)) (if a50 then (if a28 then a37 else negb a37) else (if a28 then negb a37 else a37)) (if a49 then (if a27 then a36 else negb a36) else (if a27 then negb a36 else a36)) (if a48 then (if a26 then a35 else negb a35) else (if a26 then negb a35 else a35)) (if a47 then (if a25 then a34 else negb a34) else (if a25 then negb a34 else a34)) (if a46 then (if a24 then a33 else negb a33) else (if a24 then negb a33 else a33)) (if a45 then (if a23 then a32 else negb a32) else (if a23 then negb a32 else a32)) (if a44 then (if a22 then a31 else negb a31) else (if a22 then negb a31 else a31)) (if a43 then (if a21 then a30 else negb a30) else (if a21 then negb a30 else a30)) (if a42 then (if a20 then a29 else negb a29) else (if a20 then negb a29 else a29)) (if a41 then (if a19 then a28 else negb a28) else (if a19 then negb a28 else a28)) (if a40 then (if a18 then a27 else negb a27) else (if a18 then negb a27 else a27)) (if a39 then (if a17 then a26 else negb a26) else (if a17 then negb a26 else a26)) (if a38 then (if a16 then a25 else negb a25) else (if a16 then negb a25 else a25)) (if a37 then (if a15 then a24 else negb a24) else (if a15 then negb a24 else a24)) (if a36 then (if a14 then a23 else negb a23) else (if a14 then negb a23 else a23)) (if a35 then (if a13 then a22 else negb a22) else (if a13 then negb a22 else a22)) (if a34 then (if a12 then a21 else negb a21) else (if a12 then negb a21 else a21)) (if a33 then (if a11 then a20 else negb a20) else (if a11 then negb a20 else a20)) (if a32 then (if a10 then a19 else negb a19) else (if a10 then negb a19 else a19)) (if a31 then (if a9 then a18 else negb a18) else (if a9 then negb a18 else a18)) (if a30 then (if a8 then a17 else negb a17) else (if a8 then negb a17 else a17)) (if a29 then (if a7 then a16 else negb a16) else (if a7 then negb a16 else a16)) (if a28 then (if a6 then a15 else negb a15) else (if a6 then negb a15 else a15)) (if a27 then (if a5 then a14 else negb a14) else (if a5 then negb a14 else a14)) (if a26 then (if a4 then a13 else negb a13) else (if a4 then negb a13 else a13)) (if a25 then (if a3 then a12 else negb a12) else (if a3 then negb a12 else a12)) (if a24 then (if a2 then a11 else negb a11) else (if a2 then negb a11 else a11)) (if a23 then (if a1 then a10 else negb a10) else (if a1 then negb a10 else a10)) (if a22 then (if a0 then a9 else negb a9) else (if a0 then negb a9 else a9)) (if a21 then (if a63 then a8 else negb a8) else (if a63 then negb a8 else a8)) (if a20 then (if a62 then a7 else negb a7) else (if a62 then negb a7 else a7)) (if a19 then (if a61 then a6 else negb a6) else (if a61 then negb a6 else a6))
  end.

Definition w64_add (a b : w64) : w64 :=
  match a, b with W64 a63 a62 a61 a60 a59 a58 a57 a56 a55 a54 a53 a52 a51 a50 a49 a48 a47 a46 a45 a44 a43 a42 a41 a40 a39 a38 a37 a36 a35 a34 a33 a32 a31 a30 a29 a28 a27 a26 a25 a24 a23 a22 a21 a20 a19 a18 a17 a16 a15 a14 a13 a12 a11 a10 a9 a8 a7 a6 a5 a4 a3 a2 a1 a0, W64 b63 b62 b61 b60 b59 b58 b57 b56 b55 b54 b53 b52 b51 b50 b49 b48 b47 b46 b45 b44 b43 b42 b41 b40 b39 b38 b37 b36 b35 b34 b33 b32 b31 b30 b29 b28 b27 b26 b25 b24 b23 b22 b21 b20 b19 b18 b17 b16 b15 b14 b13 b12 b11 b10 b9 b8 b7 b6 b5 b4 b3 b2 b1 b0 =>
    let s0 := xorb a0 b0 in let c1 := andb a0 b0 in
    let '(s1, c2) := fa a1 b1 c1 in
    let '(s2, c3) := fa a2 b2 c2 in
    let '(s3, c4) := fa a3 b3 c3 in
    let '(s4, c5) := fa a4 b4 c4 in
    let '(s5, c6) := fa a5 b5 c5 in
    let '(s6, c7) := fa a6 b6 c6 in
    let '(s7, c8) := fa a7 b7 c7 in
    let '(s8, c9) := fa a8 b8 c8 in
    let '(s9, c10) := fa a9 b9 c9 in
    let '(s10, c11) := fa a10 b10 c10 in
    let '(s11, c12) := fa a11 b11 c11 in
    let '(s12, c13) := fa a12 b12 c12 in
    let '(s13, c14) := fa a13 b13 c13 in
    let '(s14, c15) := fa a14 b14 c14 in
    let '(s15, c16) := fa a15 b15 c15 in
    let '(s16, c17) := fa a16 b16 c16 in
    let '(s17, c18) := fa a17 b17 c17 in
    let '(s18, c19) := fa a18 b18 c18 in
    let '(s19, c20) := fa a19 b19 c19 in
    let '(s20, c21) := fa a20 b20 c20 in
    let '(s21, c22) := fa a21 b21 c21 in
    let '(s22, c23) := fa a22 b22 c22 in
    let '(s23, c24) := fa a23 b23 c23 in
    let '(s24, c25) := fa a24 b24 c24 in
    let '(s25, c26) := fa a25 b25 c25 in
    let '(s26, c27) := fa a26 b26 c26 in
    let '(s27, c28) := fa a27 b27 c27 in
    let '(s28, c29) := fa a28 b28 c28 in
    let '(s29, c30) := fa a29 b29 c29 in
    let '(s30, c31) := fa a30 b30 c30 in
    let '(s31, c32) := fa a31 b31 c31 in
    let '(s32, c33) := fa a32 b32 c32 in
    let '(s33, c34) := fa a33 b33 c33 in
    let '(s34, c35) := fa a34 b34 c34 in
    let '(s35, c36) := fa a35 b35 c35 in
    let '(s36, c37) := fa a36 b36 c36 in
    let '(s37, c38) := fa a37 b37 c37 in
    let '(s38, c39) := fa a38 b38 c38 in
    let '(s39, c40) := fa a39 b39 c39 in
    let '(s40, c41) := fa a40 b40 c40 in
    let '(s41, c42) := fa a41 b41 c41 in
    let '(s42, c43) := fa a42 b42 c42 in
    let '(s43, c44) := fa a43 b43 c43 in
    let '(s44, c45) := fa a44 b44 c44 in
    let '(s45, c46) := fa a45 b45 c45 in
    let '(s46, c47) := fa a46 b46 c46 in
    let '(s47, c48) := fa a47 b47 c47 in
    let '(s48, c49) := fa a48 b48 c48 in
    let '(s49, c50) := fa a49 b49 c49 in
    let '(s50, c51) := fa a50 b50 c50 in
    let '(s51, c52) := fa a51 b51 c51 in
    let '(s52, c53) := fa a52 b52 c52 in
    let '(s53, c54) := fa a53 b53 c53 in
    let '(s54, c55) := fa a54 b54 c54 in
    let '(s55, c56) := fa a55 b55 c55 in
    let '(s56, c57) := fa a56 b56 c56 in
    let '(s57, c58) := fa a57 b57 c57 in
    let '(s58, c59) := fa a58 b58 c58 in
    let '(s59, c60) := fa a59 b59 c59 in
    let '(s60, c61) := fa a60 b60 c60 in
    let '(s61, c62) := fa a61 b61 c61 in
    let '(s62, c63) := fa a62 b62 c62 in
    let s63 := xorb a63 (xorb b63 c63) in
    W64 s63 s62 s61 s60 s59 s58 s57 s56 s55 s54 s53 s52 s51 s50 s49 s48 s47 s46 s45 s44 s43 s42 s41 s40 s39 s38 s37 s36 s35 s34 s33 s32 s31 s30 s29 s28 s27 s26 s25 s24 s23 s22 s21 s20 s19 s18 s17 s16 s15 s14 s13 s12 s11 s10 s9 s8 s7 s6 s5 s4 s3 s2 s1 s0
  end.

Definition w64_of_octets (o0 o1 o2 o3 o4 o5 o6 o7 : N) : w64 :=
  W64 (N.testbit o0 7) (N.testbit o0 6) (N.testbit o0 5) (N.testbit o0 4) (N.testbit o0 3) (N.testbit o0 2) (N.testbit o0 1) (N.testbit o0 0) (N.testbit o1 7) (N.testbit o1 6) (N.testbit o1 5) (N.testbit o1 4) (N.testbit o1 3) (N.testbit o1 2) (N.testbit o1 1) (N.testbit o1 0) (N.testbit o2 7) (N.testbit o2 6) (N.testbit o2 5) (N.testbit o2 4) (N.testbit o2 3) (N.testbit o2 2) (N.testbit o2 1) (N.testbit o2 0) (N.testbit o3 7) (N.testbit o3 6) (N.testbit o3 5) (N.testbit o3 4) (N.testbit o3 3) (N.testbit o3 2) (N.testbit o3 1) (N.testbit o3 0) (N.testbit o4 7) (N.testbit o4 6) (N.testbit o4 5) (N.testbit o4 4) (N.testbit o4 3) (N.testbit o4 2) (N.testbit o4 1) (N.testbit o4 0) (N.testbit o5 7) (N.testbit o5 6) (N.testbit o5 5) (N.testbit o5 4) (N.testbit o5 3) (N.testbit o5 2) (N.testbit o5 1) (N.testbit o5 0) (N.testbit o6 7) (N.testbit o6 6) (N.testbit o6 5) (N.testbit o6 4) (N.testbit o6 3) (N.testbit o6 2) (N.testbit o6 1) (N.testbit o6 0) (N.testbit o7 7) (N.testbit o7 6) (N.testbit o7 5) (N.testbit o7 4) (N.testbit o7 3) (N.testbit o7 2) (N.testbit o7 1) (N.testbit o7 0).

Definition octets_of_w64 (a : w64) : list N :=
  match a with W64 a63 a62 a61 a60 a59 a58 a57 a56 a55 a54 a53 a52 a51 a50 a49 a48 a47 a46 a45 a44 a43 a42 a41 a40 a39 a38 a37 a36 a35 a34 a33 a32 a31 a30 a29 a28 a27 a26 a25 a24 a23 a22 a21 a20 a19 a18 a17 a16 a15 a14 a13 a12 a11 a10 a9 a8 a7 a6 a5 a4 a3 a2 a1 a0 =>
    [ nb a56 (nb a57 (nb a58 (nb a59 (nb a60 (nb a61 (nb a62 (nb a63 (0))))))));
      nb a48 (nb a49 (nb a50 (nb a51 (nb a52 (nb a53 (nb a54 (nb a55 (0))))))));
      nb a40 (nb a41 (nb a42 (nb a43 (nb a44 (nb a45 (nb a46 (nb a47 (0))))))));
      nb a32 (nb a33 (nb a34 (nb a35 (nb a36 (nb a37 (nb a38 (nb a39 (0))))))));
      nb a24 (nb a25 (nb a26 (nb a27 (nb a28 (nb a29 (nb a30 (nb a31 (0))))))));
      nb a16 (nb a17 (nb a18 (nb a19 (nb a20 (nb a21 (nb a22 (nb a23 (0))))))));
      nb a8 (nb a9 (nb a10 (nb a11 (nb a12 (nb a13 (nb a14 (nb a15 (0))))))));
      nb a0 (nb a1 (nb a2 (nb a3 (nb a4 (nb a5 (nb a6 (nb a7 (0)))))))) ]
  end.

Definition w64_of_N (x : N) : w64 :=
  W64 (N.testbit x 63) (N.testbit x 62) (N.testbit x 61) (N.testbit x 60) (N.testbit x 59) (N.testbit x 58) (N.testbit x 57) (N.testbit x 56) (N.testbit x 55) (N.testbit x 54) (N.testbit x 53) (N.testbit x 52) (N.testbit x 51) (N.testbit x 50) (N.testbit x 49) (N.testbit x 48) (N.testbit x 47) (N.testbit x 46) (N.testbit x 45) (N.testbit x 44) (N.testbit x 43) (N.testbit x 42) (N.testbit x 41) (N.testbit x 40) (N.testbit x 39) (N.testbit x 38) (N.testbit x 37) (N.testbit x 36) (N.testbit x 35) (N.testbit x 34) (N.testbit x 33) (N.testbit x 32) (N.testbit x 31) (N.testbit x 30) (N.testbit x 29) (N.testbit x 28) (N.testbit x 27) (N.testbit x 26) (N.testbit x 25) (N.testbit x 24) (N.testbit x 23) (N.testbit x 22) (N.testbit x 21) (N.testbit x 20) (N.testbit x 19) (N.testbit x 18) (N.testbit x 17) (N.testbit x 16) (N.testbit x 15) (N.testbit x 14) (N.testbit x 13) (N.testbit x 12) (N.testbit x 11) (N.testbit x 10) (N.testbit x 9) (N.testbit x 8) (N.testbit x 7) (N.testbit x 6) (N.testbit x 5) (N.testbit x 4) (N.testbit x 3) (N.testbit x 2) (N.testbit x 1) (N.testbit x 0).

(* ======== padding (FIPS 180-4 section 5.1) ======== *)
Definition lenN {A} (l : list A) : N := fold_left (fun a _ => N.succ a) l 0.

(* n octets of x, big endian, in front of acc *)
Fixpoint be_octets (n : nat) (x : N) (acc : list N) : list N :=
  match n with
  | O => acc
  | S n' => be_octets n' (N.shiftr x 8) (N.land x 255 :: acc)
  end.

(* blk = 64 (length field 8 octets) or 128 (length field 16 octets); blk is a
   power of two, so `mod blk` is `land (blk-1)` *)
Definition pad (blk : N) (lenf : nat) (m : list N) : list N :=
  let l := lenN m in
  let k := N.land (blk - N.land (l + 1 + N.of_nat lenf) (blk - 1)) (blk - 1) in
  m ++ 128 :: N.iter k (cons 0) (be_octets lenf (8 * l) []).

Fixpoint words32 (l : list N) : list w32 :=
  match l with
  | a :: b :: c :: d :: r => w32_of_octets a b c d :: words32 r
  | _ => []
  end.

Fixpoint words64 (l : list N) : list w64 :=
  match l with
  | a :: b :: c :: d :: e :: f :: g :: h :: r => w64_of_octets a b c d e f g h :: words64 r
  | _ => []
  end.

(* ======== SHA-1 (FIPS 180-4 section 6.1) ======== *)
Record st5 := St5 { s5a : w32; s5b : w32; s5c : w32; s5d : w32; s5e : w32 }.

Inductive sha1_stage := Stage0 | Stage1 | Stage2 | Stage3.

Definition sha1_f (t : sha1_stage) (b c d : w32) : w32 :=
  match t with
  | Stage0 => w32_ch b c d
  | Stage2 => w32_maj b c d
  | _ => w32_xor3 b c d
  end.

Definition sha1_kN (t : sha1_stage) : N :=
  match t with Stage0 => 1518500249 | Stage1 => 1859775393 | Stage2 => 2400959708 | Stage3 => 3395469782 end.
Definition sha1_k0 : w32 := Eval vm_compute in w32_of_N (sha1_kN Stage0).
Definition sha1_k1 : w32 := Eval vm_compute in w32_of_N (sha1_kN Stage1).
Definition sha1_k2 : w32 := Eval vm_compute in w32_of_N (sha1_kN Stage2).
Definition sha1_k3 : w32 := Eval vm_compute in w32_of_N (sha1_kN Stage3).
Definition sha1_k (t : sha1_stage) : w32 :=
  match t with Stage0 => sha1_k0 | Stage1 => sha1_k1 | Stage2 => sha1_k2 | Stage3 => sha1_k3 end.

Definition sha1_round (s : st5) (t : sha1_stage) (w : w32) : st5 :=
  let tmp := w32_add (w32_add (w32_add (w32_add (w32_rotl5 (s5a s)) (sha1_f t (s5b s) (s5c s) (s5d s)))
                                       (s5e s)) (sha1_k t)) w in
  St5 tmp (s5a s) (w32_rotl30 (s5b s)) (s5c s) (s5d s).

(* rounds 0..63: consume W[t] from the 16 word window and append W[t+16] *)
Fixpoint sha1_rounds_ext (ts : list sha1_stage) (s : st5) (w : list w32) : st5 * list w32 :=
  match ts with
  | [] => (s, w)
  | t :: ts' =>
      match w with
      | [w0; w1; w2; w3; w4; w5; w6; w7; w8; w9; w10; w11; w12; w13; w14; w15] =>
          let nw := w32_rotl1 (w32_xor (w32_xor3 w13 w8 w2) w0) in
          sha1_rounds_ext ts' (sha1_round s t w0)
            [w1; w2; w3; w4; w5; w6; w7; w8; w9; w10; w11; w12; w13; w14; w15; nw]
      | _ => (s, w)
      end
  end.

(* rounds 64..79: the window already holds W[64..79] *)
Fixpoint sha1_rounds_plain (ts : list sha1_stage) (s : st5) (w : list w32) : st5 :=
  match ts, w with
  | t :: ts', w0 :: w' => sha1_rounds_plain ts' (sha1_round s t w0) w'
  | _, _ => s
  end.

Definition sha1_ts_ext : list sha1_stage :=
  Eval vm_compute in repeat Stage0 20 ++ repeat Stage1 20 ++ repeat Stage2 20 ++ repeat Stage3 4.
Definition sha1_ts_plain : list sha1_stage := Eval vm_compute in repeat Stage3 16.

Definition sha1_compress (s : st5) (blk : list w32) : st5 :=
  let '(s1, w1) := sha1_rounds_ext sha1_ts_ext s blk in
  let s2 := sha1_rounds_plain sha1_ts_plain s1 w1 in
  St5 (w32_add (s5a s) (s5a s2)) (w32_add (s5b s) (s5b s2)) (w32_add (s5c s) (s5c s2))
      (w32_add (s5d s) (s5d s2)) (w32_add (s5e s) (s5e s2)).

Fixpoint sha1_blocks (s : st5) (ws : list w32) : st5 :=
  match ws with
  | w0 :: w1 :: w2 :: w3 :: w4 :: w5 :: w6 :: w7 :: w8 :: w9 :: w10 :: w11 :: w12 :: w13 :: w14 :: w15 :: rest =>
      sha1_blocks (sha1_compress s [w0; w1; w2; w3; w4; w5; w6; w7; w8; w9; w10; w11; w12; w13; w14; w15]) rest
  | _ => s
  end.

Definition sha1_iv : st5 := Eval vm_compute in
  St5 (w32_of_N 1732584193) (w32_of_N 4023233417) (w32_of_N 2562383102) (w32_of_N 271733878) (w32_of_N 3285377520).

Definition sha1 (m : list N) : list N :=
  let s := sha1_blocks sha1_iv (words32 (pad 64 8 m)) in
  octets_of_w32 (s5a s) ++ octets_of_w32 (s5b s) ++ octets_of_w32 (s5c s) ++
  octets_of_w32 (s5d s) ++ octets_of_w32 (s5e s).

(* ======== SHA-2 family (FIPS 180-4 sections 6.2, 6.4, 6.5), generic in the word type ======== *)
Record st8 (W : Type) := St8 { sa : W; sb : W; sc : W; sd : W; se : W; sf : W; sg : W; sh : W }.
Arguments St8 {W}. Arguments sa {W}. Arguments sb {W}. Arguments sc {W}. Arguments sd {W}.
Arguments se {W}. Arguments sf {W}. Arguments sg {W}. Arguments sh {W}.

Section Sha2.
  Variable W : Type.
  Variables (add : W -> W -> W) (bsig0 bsig1 ssig0 ssig1 : W -> W) (ch maj : W -> W -> W -> W).
  Variables (k_ext k_plain : list W).   (* constants of the schedule-extending rounds / of the last 16 *)

  Definition sha2_round (s : st8 W) (k w : W) : st8 W :=
    let t1 := add (add (add (add (sh s) (bsig1 (se s))) (ch (se s) (sf s) (sg s))) k) w in
    let t2 := add (bsig0 (sa s)) (maj (sa s) (sb s) (sc s)) in
    St8 (add t1 t2) (sa s) (sb s) (sc s) (add (sd s) t1) (se s) (sf s) (sg s).

  Fixpoint sha2_rounds_ext (ks : list W) (s : st8 W) (w : list W) : st8 W * list W :=
    match ks with
    | [] => (s, w)
    | k :: ks' =>
        match w with
        | [w0; w1; w2; w3; w4; w5; w6; w7; w8; w9; w10; w11; w12; w13; w14; w15] =>
            let nw := add (add (add (ssig1 w14) w9) (ssig0 w1)) w0 in
            sha2_rounds_ext ks' (sha2_round s k w0)
              [w1; w2; w3; w4; w5; w6; w7; w8; w9; w10; w11; w12; w13; w14; w15; nw]
        | _ => (s, w)
        end
    end.

  Fixpoint sha2_rounds_plain (ks : list W) (s : st8 W) (w : list W) : st8 W :=
    match ks, w with
    | k :: ks', w0 :: w' => sha2_rounds_plain ks' (sha2_round s k w0) w'
    | _, _ => s
    end.

  Definition sha2_compress (s : st8 W) (blk : list W) : st8 W :=
    let '(s1, w1) := sha2_rounds_ext k_ext s blk in
    let s2 := sha2_rounds_plain k_plain s1 w1 in
    St8 (add (sa s) (sa s2)) (add (sb s) (sb s2)) (add (sc s) (sc s2)) (add (sd s) (sd s2))
        (add (se s) (se s2)) (add (sf s) (sf s2)) (add (sg s) (sg s2)) (add (sh s) (sh s2)).

  Fixpoint sha2_blocks (s : st8 W) (ws : list W) : st8 W :=
    match ws with
    | w0 :: w1 :: w2 :: w3 :: w4 :: w5 :: w6 :: w7 :: w8 :: w9 :: w10 :: w11 :: w12 :: w13 :: w14 :: w15 :: rest =>
        sha2_blocks (sha2_compress s [w0; w1; w2; w3; w4; w5; w6; w7; w8; w9; w10; w11; w12; w13; w14; w15]) rest
    | _ => s
    end.
End Sha2.

Definition k256N : list N :=
  [ 1116352408; 1899447441; 3049323471; 3921009573;
    961987163; 1508970993; 2453635748; 2870763221;
    3624381080; 310598401; 607225278; 1426881987;
    1925078388; 2162078206; 2614888103; 3248222580;
    3835390401; 4022224774; 264347078; 604807628;
    770255983; 1249150122; 1555081692; 1996064986;
    2554220882; 2821834349; 2952996808; 3210313671;
    3336571891; 3584528711; 113926993; 338241895;
    666307205; 773529912; 1294757372; 1396182291;
    1695183700; 1986661051; 2177026350; 2456956037;
    2730485921; 2820302411; 3259730800; 3345764771;
    3516065817; 3600352804; 4094571909; 275423344;
    430227734; 506948616; 659060556; 883997877;
    958139571; 1322822218; 1537002063; 1747873779;
    1955562222; 2024104815; 2227730452; 2361852424;
    2428436474; 2756734187; 3204031479; 3329325298 ].

Definition k512N : list N :=
  [ 4794697086780616226; 8158064640168781261; 13096744586834688815;
    16840607885511220156; 4131703408338449720; 6480981068601479193;
    10538285296894168987; 12329834152419229976; 15566598209576043074;
    1334009975649890238; 2608012711638119052; 6128411473006802146;
    8268148722764581231; 9286055187155687089; 11230858885718282805;
    13951009754708518548; 16472876342353939154; 17275323862435702243;
    1135362057144423861; 2597628984639134821; 3308224258029322869;
    5365058923640841347; 6679025012923562964; 8573033837759648693;
    10970295158949994411; 12119686244451234320; 12683024718118986047;
    13788192230050041572; 14330467153632333762; 15395433587784984357;
    489312712824947311; 1452737877330783856; 2861767655752347644;
    3322285676063803686; 5560940570517711597; 5996557281743188959;
    7280758554555802590; 8532644243296465576; 9350256976987008742;
    10552545826968843579; 11727347734174303076; 12113106623233404929;
    14000437183269869457; 14369950271660146224; 15101387698204529176;
    15463397548674623760; 17586052441742319658; 1182934255886127544;
    1847814050463011016; 2177327727835720531; 2830643537854262169;
    3796741975233480872; 4115178125766777443; 5681478168544905931;
    6601373596472566643; 7507060721942968483; 8399075790359081724;
    8693463985226723168; 9568029438360202098; 10144078919501101548;
    10430055236837252648; 11840083180663258601; 13761210420658862357;
    14299343276471374635; 14566680578165727644; 15097957966210449927;
    16922976911328602910; 17689382322260857208; 500013540394364858;
    748580250866718886; 1242879168328830382; 1977374033974150939;
    2944078676154940804; 3659926193048069267; 4368137639120453308;
    4836135668995329356; 5532061633213252278; 6448918945643986474;
    6902733635092675308; 7801388544844847127 ].

Definition st8_of_list {W} (d : W) (l : list W) : st8 W :=
  match l with
  | [a; b; c; d; e; f; g; h] => St8 a b c d e f g h
  | _ => St8 d d d d d d d d
  end.

Definition iv256N : list N :=
  [ 1779033703; 3144134277; 1013904242; 2773480762;
    1359893119; 2600822924; 528734635; 1541459225 ].
Definition iv512N : list N :=
  [ 7640891576956012808; 13503953896175478587;
    4354685564936845355; 11912009170470909681;
    5840696475078001361; 11170449401992604703;
    2270897969802886507; 6620516959819538809 ].
Definition iv384N : list N :=
  [ 14680500436340154072; 7105036623409894663;
    10473403895298186519; 1526699215303891257;
    7436329637833083697; 10282925794625328401;
    15784041429090275239; 5167115440072839076 ].

(* the constant tables are converted once, not on every call *)
Definition k256_ext : list w32 := Eval vm_compute in map w32_of_N (firstn 48 k256N).
Definition k256_plain : list w32 := Eval vm_compute in map w32_of_N (skipn 48 k256N).
Definition k512_ext : list w64 := Eval vm_compute in map w64_of_N (firstn 64 k512N).
Definition k512_plain : list w64 := Eval vm_compute in map w64_of_N (skipn 64 k512N).
Definition iv256 : st8 w32 := Eval vm_compute in st8_of_list (w32_of_N 0) (map w32_of_N iv256N).
Definition iv512 : st8 w64 := Eval vm_compute in st8_of_list (w64_of_N 0) (map w64_of_N iv512N).
Definition iv384 : st8 w64 := Eval vm_compute in st8_of_list (w64_of_N 0) (map w64_of_N iv384N).

Definition sha256_blocks : st8 w32 -> list w32 -> st8 w32 :=
  sha2_blocks w32 w32_add w32_bsig0 w32_bsig1 w32_ssig0 w32_ssig1 w32_ch w32_maj k256_ext k256_plain.
Definition sha512_blocks : st8 w64 -> list w64 -> st8 w64 :=
  sha2_blocks w64 w64_add w64_bsig0 w64_bsig1 w64_ssig0 w64_ssig1 w64_ch w64_maj k512_ext k512_plain.

Definition sha256 (m : list N) : list N :=
  let s := sha256_blocks iv256 (words32 (pad 64 8 m)) in
  octets_of_w32 (sa s) ++ octets_of_w32 (sb s) ++ octets_of_w32 (sc s) ++ octets_of_w32 (sd s) ++
  octets_of_w32 (se s) ++ octets_of_w32 (sf s) ++ octets_of_w32 (sg s) ++ octets_of_w32 (sh s).

Definition sha512 (m : list N) : list N :=
  let s := sha512_blocks iv512 (words64 (pad 128 16 m)) in
  octets_of_w64 (sa s) ++ octets_of_w64 (sb s) ++ octets_of_w64 (sc s) ++ octets_of_w64 (sd s) ++
  octets_of_w64 (se s) ++ octets_of_w64 (sf s) ++ octets_of_w64 (sg s) ++ octets_of_w64 (sh s).

Definition sha384 (m : list N) : list N :=
  let s := sha512_blocks iv384 (words64 (pad 128 16 m)) in
  octets_of_w64 (sa s) ++ octets_of_w64 (sb s) ++ octets_of_w64 (sc s) ++ octets_of_w64 (sd s) ++
  octets_of_w64 (se s) ++ octets_of_w64 (sf s).

(* output sizes (used by HMAC/TSIG truncation arithmetic) *)
Lemma octets_of_w32_length x : List.length (octets_of_w32 x) = 4%nat.
Proof. destruct x. reflexivity. Qed.
Lemma octets_of_w64_length x : List.length (octets_of_w64 x) = 8%nat.
Proof. destruct x. reflexivity. Qed.
Lemma sha1_length m : List.length (sha1 m) = 20%nat.
Proof. unfold sha1. repeat rewrite app_length. repeat rewrite octets_of_w32_length. reflexivity. Qed.
Lemma sha256_length m : List.length (sha256 m) = 32%nat.
Proof. unfold sha256. repeat rewrite app_length. repeat rewrite octets_of_w32_length. reflexivity. Qed.
Lemma sha384_length m : List.length (sha384 m) = 48%nat.
Proof. unfold sha384. repeat rewrite app_length. repeat rewrite octets_of_w64_length. reflexivity. Qed.
Lemma sha512_length m : List.length (sha512 m) = 64%nat.
Proof. unfold sha512. repeat rewrite app_length. repeat rewrite octets_of_w64_length. reflexivity. Qed.

(* ======== test vectors ======== *)
Definition str (s : string) : list N := map N_of_ascii (list_ascii_of_string s).
Definition hexdigit (n : N) : ascii :=
  ascii_of_N (if n <? 10 then 48 + n else 87 + n).
Fixpoint hex (l : list N) : string :=
  match l with
  | [] => EmptyString
  | b :: r => String (hexdigit (N.shiftr b 4)) (String (hexdigit (N.land b 15)) (hex r))
  end.

Example sha1_abc : hex (sha1 (str "abc")) = "a9993e364706816aba3e25717850c26c9cd0d89d"%string.
Proof. vm_compute. reflexivity. Qed.
Example sha1_empty : hex (sha1 (str "")) = "da39a3ee5e6b4b0d3255bfef95601890afd80709"%string.
Proof. vm_compute. reflexivity. Qed.
Example sha1_m56 : hex (sha1 (str "abcdbcdecdefdefgefghfghighijhijkijkljklmklmnlmnomnopnopq")) = "84983e441c3bd26ebaae4aa1f95129e5e54670f1"%string.
Proof. vm_compute. reflexivity. Qed.
Example sha1_m112 : hex (sha1 (str "abcdefghbcdefghicdefghijdefghijkefghijklfghijklmghijklmnhijklmnoijklmnopjklmnopqklmnopqrlmnopqrsmnopqrstnopqrstu")) = "a49b2446a02c645bf419f995b67091253a04a259"%string.
Proof. vm_compute. reflexivity. Qed.
Example sha256_abc : hex (sha256 (str "abc")) = "ba7816bf8f01cfea414140de5dae2223b00361a396177a9cb410ff61f20015ad"%string.
Proof. vm_compute. reflexivity. Qed.
Example sha256_empty : hex (sha256 (str "")) = "e3b0c44298fc1c149afbf4c8996fb92427ae41e4649b934ca495991b7852b855"%string.
Proof. vm_compute. reflexivity. Qed.
Example sha256_m56 : hex (sha256 (str "abcdbcdecdefdefgefghfghighijhijkijkljklmklmnlmnomnopnopq")) = "248d6a61d20638b8e5c026930c3e6039a33ce45964ff2167f6ecedd419db06c1"%string.
Proof. vm_compute. reflexivity. Qed.
Example sha256_m112 : hex (sha256 (str "abcdefghbcdefghicdefghijdefghijkefghijklfghijklmghijklmnhijklmnoijklmnopjklmnopqklmnopqrlmnopqrsmnopqrstnopqrstu")) = "cf5b16a778af8380036ce59e7b0492370b249b11e8f07a51afac45037afee9d1"%string.
Proof. vm_compute. reflexivity. Qed.
Example sha384_abc : hex (sha384 (str "abc")) = "cb00753f45a35e8bb5a03d699ac65007272c32ab0eded1631a8b605a43ff5bed8086072ba1e7cc2358baeca134c825a7"%string.
Proof. vm_compute. reflexivity. Qed.
Example sha384_empty : hex (sha384 (str "")) = "38b060a751ac96384cd9327eb1b1e36a21fdb71114be07434c0cc7bf63f6e1da274edebfe76f65fbd51ad2f14898b95b"%string.
Proof. vm_compute. reflexivity. Qed.
Example sha384_m56 : hex (sha384 (str "abcdbcdecdefdefgefghfghighijhijkijkljklmklmnlmnomnopnopq")) = "3391fdddfc8dc7393707a65b1b4709397cf8b1d162af05abfe8f450de5f36bc6b0455a8520bc4e6f5fe95b1fe3c8452b"%string.
Proof. vm_compute. reflexivity. Qed.
Example sha384_m112 : hex (sha384 (str "abcdefghbcdefghicdefghijdefghijkefghijklfghijklmghijklmnhijklmnoijklmnopjklmnopqklmnopqrlmnopqrsmnopqrstnopqrstu")) = "09330c33f71147e83d192fc782cd1b4753111b173b3b05d22fa08086e3b0f712fcc7c71a557e2db966c3e9fa91746039"%string.
Proof. vm_compute. reflexivity. Qed.
Example sha512_abc : hex (sha512 (str "abc")) = "ddaf35a193617abacc417349ae20413112e6fa4e89a97ea20a9eeee64b55d39a2192992a274fc1a836ba3c23a3feebbd454d4423643ce80e2a9ac94fa54ca49f"%string.
Proof. vm_compute. reflexivity. Qed.
Example sha512_empty : hex (sha512 (str "")) = "cf83e1357eefb8bdf1542850d66d8007d620e4050b5715dc83f4a921d36ce9ce47d0d13c5d85f2b0ff8318d2877eec2f63b931bd47417a81a538327af927da3e"%string.
Proof. vm_compute. reflexivity. Qed.
Example sha512_m56 : hex (sha512 (str "abcdbcdecdefdefgefghfghighijhijkijkljklmklmnlmnomnopnopq")) = "204a8fc6dda82f0a0ced7beb8e08a41657c16ef468b228a8279be331a703c33596fd15c13b1b07f9aa1d3bea57789ca031ad85c7a71dd70354ec631238ca3445"%string.
Proof. vm_compute. reflexivity. Qed.
Example sha512_m112 : hex (sha512 (str "abcdefghbcdefghicdefghijdefghijkefghijklfghijklmghijklmnhijklmnoijklmnopjklmnopqklmnopqrlmnopqrsmnopqrstnopqrstu")) = "8e959b75dae313da8cf4f72814fc143f8f7779c6eb9f7fa17299aeadb6889018501d289e4900f7e4331b99dec4b5433ac7d329eeb6dd26545e96e55b874be909"%string.
Proof. vm_compute. reflexivity. Qed.
Example sha1_a55 : hex (sha1 (repeat 97 55)) = "c1c8bbdc22796e28c0e15163d20899b65621d65a"%string.
Proof. vm_compute. reflexivity. Qed.
Example sha1_a63 : hex (sha1 (repeat 97 63)) = "03f09f5b158a7a8cdad920bddc29b81c18a551f5"%string.
Proof. vm_compute. reflexivity. Qed.
Example sha1_a64 : hex (sha1 (repeat 97 64)) = "0098ba824b5c16427bd7a1122a5a442a25ec644d"%string.
Proof. vm_compute. reflexivity. Qed.
Example sha1_a65 : hex (sha1 (repeat 97 65)) = "11655326c708d70319be2610e8a57d9a5b959d3b"%string.
Proof. vm_compute. reflexivity. Qed.
Example sha1_a111 : hex (sha1 (repeat 97 111)) = "ac877859d427d9192054eea8feb3b8a403ef83a5"%string.
Proof. vm_compute. reflexivity. Qed.
Example sha1_a112 : hex (sha1 (repeat 97 112)) = "689993727ba37386bb032495e9dbdfb4dd1ba744"%string.
Proof. vm_compute. reflexivity. Qed.
Example sha1_a119 : hex (sha1 (repeat 97 119)) = "ee971065aaa017e0632a8ca6c77bb3bf8b1dfc56"%string.
Proof. vm_compute. reflexivity. Qed.
Example sha1_a120 : hex (sha1 (repeat 97 120)) = "f34c1488385346a55709ba056ddd08280dd4c6d6"%string.
Proof. vm_compute. reflexivity. Qed.
Example sha1_a127 : hex (sha1 (repeat 97 127)) = "89d95fa32ed44a7c610b7ee38517ddf57e0bb975"%string.
Proof. vm_compute. reflexivity. Qed.
Example sha1_a128 : hex (sha1 (repeat 97 128)) = "ad5b3fdbcb526778c2839d2f151ea753995e26a0"%string.
Proof. vm_compute. reflexivity. Qed.
Example sha1_a129 : hex (sha1 (repeat 97 129)) = "d96debf1bdcbc896e6c134ea76e8141f40d78536"%string.
Proof. vm_compute. reflexivity. Qed.
Example sha1_a1000 : hex (sha1 (repeat 97 1000)) = "291e9a6c66994949b57ba5e650361e98fc36b1ba"%string.
Proof. vm_compute. reflexivity. Qed.
Example sha1_all_octets : hex (sha1 (map N.of_nat (seq 0 256))) = "4916d6bdb7f78e6803698cab32d1586ea457dfc8"%string.
Proof. vm_compute. reflexivity. Qed.
Example sha256_a55 : hex (sha256 (repeat 97 55)) = "9f4390f8d30c2dd92ec9f095b65e2b9ae9b0a925a5258e241c9f1e910f734318"%string.
Proof. vm_compute. reflexivity. Qed.
Example sha256_a63 : hex (sha256 (repeat 97 63)) = "7d3e74a05d7db15bce4ad9ec0658ea98e3f06eeecf16b4c6fff2da457ddc2f34"%string.
Proof. vm_compute. reflexivity. Qed.
Example sha256_a64 : hex (sha256 (repeat 97 64)) = "ffe054fe7ae0cb6dc65c3af9b61d5209f439851db43d0ba5997337df154668eb"%string.
Proof. vm_compute. reflexivity. Qed.
Example sha256_a65 : hex (sha256 (repeat 97 65)) = "635361c48bb9eab14198e76ea8ab7f1a41685d6ad62aa9146d301d4f17eb0ae0"%string.
Proof. vm_compute. reflexivity. Qed.
Example sha256_a111 : hex (sha256 (repeat 97 111)) = "6374f73208854473827f6f6a3f43b1f53eaa3b82c21c1a6d69a2110b2a79baad"%string.
Proof. vm_compute. reflexivity. Qed.
Example sha256_a112 : hex (sha256 (repeat 97 112)) = "f54353008a2553262ecdc4a34749563ba0950e8b0fc8652780b0a614b99683c1"%string.
Proof. vm_compute. reflexivity. Qed.
Example sha256_a119 : hex (sha256 (repeat 97 119)) = "31eba51c313a5c08226adf18d4a359cfdfd8d2e816b13f4af952f7ea6584dcfb"%string.
Proof. vm_compute. reflexivity. Qed.
Example sha256_a120 : hex (sha256 (repeat 97 120)) = "2f3d335432c70b580af0e8e1b3674a7c020d683aa5f73aaaedfdc55af904c21c"%string.
Proof. vm_compute. reflexivity. Qed.
Example sha256_a127 : hex (sha256 (repeat 97 127)) = "c57e9278af78fa3cab38667bef4ce29d783787a2f731d4e12200270f0c32320a"%string.
Proof. vm_compute. reflexivity. Qed.
Example sha256_a128 : hex (sha256 (repeat 97 128)) = "6836cf13bac400e9105071cd6af47084dfacad4e5e302c94bfed24e013afb73e"%string.
Proof. vm_compute. reflexivity. Qed.
Example sha256_a129 : hex (sha256 (repeat 97 129)) = "c12cb024a2e5551cca0e08fce8f1c5e314555cc3fef6329ee994a3db752166ae"%string.
Proof. vm_compute. reflexivity. Qed.
Example sha256_a1000 : hex (sha256 (repeat 97 1000)) = "41edece42d63e8d9bf515a9ba6932e1c20cbc9f5a5d134645adb5db1b9737ea3"%string.
Proof. vm_compute. reflexivity. Qed.
Example sha256_all_octets : hex (sha256 (map N.of_nat (seq 0 256))) = "40aff2e9d2d8922e47afd4648e6967497158785fbd1da870e7110266bf944880"%string.
Proof. vm_compute. reflexivity. Qed.
Example sha384_a55 : hex (sha384 (repeat 97 55)) = "5d91ac7e74e62b5c728904b40f10784d66b7af9cb6302123e48c92f0432ceb8d2a92c02de77dcb29ed75c4b42bde46f4"%string.
Proof. vm_compute. reflexivity. Qed.
Example sha384_a63 : hex (sha384 (repeat 97 63)) = "7e7f097e95b52bb8f53383450ecaf9868187c130981730c03b6d573adfc0b991e365244e5b4bfa082bfb43c517d37120"%string.
Proof. vm_compute. reflexivity. Qed.
Example sha384_a64 : hex (sha384 (repeat 97 64)) = "2e404b9339da795776e510d96930b3be2904c500395b8cb7413334b82d4dec413b4b8113045a05bbbcff846f027423f6"%string.
Proof. vm_compute. reflexivity. Qed.
Example sha384_a65 : hex (sha384 (repeat 97 65)) = "a2b797de45aa1d20594e2ea0cb1801d6dd7ffa3a58281c37dde04029f1c98157bb6eb005e90dd76b79a1d6ddd52dd58d"%string.
Proof. vm_compute. reflexivity. Qed.
Example sha384_a111 : hex (sha384 (repeat 97 111)) = "3c37955051cb5c3026f94d551d5b5e2ac38d572ae4e07172085fed81f8466b8f90dc23a8ffcdea0b8d8e58e8fdacc80a"%string.
Proof. vm_compute. reflexivity. Qed.
Example sha384_a112 : hex (sha384 (repeat 97 112)) = "187d4e07cb306103c69967bf544d0dfbe9042577599c73c330abc0cb64c61236d5ed565ee19119d8c31779a38f791fcd"%string.
Proof. vm_compute. reflexivity. Qed.
Example sha384_a119 : hex (sha384 (repeat 97 119)) = "c2fbb1911d6889e3db556b482236ab82f3c736f00a22c088641a09fdbbca27e3f1e3b6235bad20aee1ca083c76ac590c"%string.
Proof. vm_compute. reflexivity. Qed.
Example sha384_a120 : hex (sha384 (repeat 97 120)) = "ca2f7755efa04d43651f9bcb466044511102e472c2a3981c836b487ee4508ca8461f8c396653123400762de4d6d17e63"%string.
Proof. vm_compute. reflexivity. Qed.
Example sha384_a127 : hex (sha384 (repeat 97 127)) = "9bd06b1763c2cf7aef40e795dc65bc96d59c41b537f3ad72ebdefd485476b5717c1aeb37c327fe9c1831b12b9efd08ae"%string.
Proof. vm_compute. reflexivity. Qed.
Example sha384_a128 : hex (sha384 (repeat 97 128)) = "edb12730a366098b3b2beac75a3bef1b0969b15c48e2163c23d96994f8d1bef760c7e27f3c464d3829f56c0d53808b0b"%string.
Proof. vm_compute. reflexivity. Qed.
Example sha384_a129 : hex (sha384 (repeat 97 129)) = "39b6f5a7b0e781dbc419f72e49b30eaac10f2c98c4403bc610da31067fd1b48f324138c8615d2b496d08d73d5e865326"%string.
Proof. vm_compute. reflexivity. Qed.
Example sha384_a1000 : hex (sha384 (repeat 97 1000)) = "f54480689c6b0b11d0303285d9a81b21a93bca6ba5a1b4472765dca4da45ee328082d469c650cd3b61b16d3266ab8ced"%string.
Proof. vm_compute. reflexivity. Qed.
Example sha384_all_octets : hex (sha384 (map N.of_nat (seq 0 256))) = "ffdaebff65ed05cf400f0221c4ccfb4b2104fb6a51f87e40be6c4309386bfdec2892e9179b34632331a59592737db5c5"%string.
Proof. vm_compute. reflexivity. Qed.
Example sha512_a55 : hex (sha512 (repeat 97 55)) = "b0220c772cbf6c1822e2cb38a437d0e1d58772417a4bbb21c961364f8b6143e05aa6316dca8d1d7b19e16448419076395f6086cb55101fbd6d5497b148e1745f"%string.
Proof. vm_compute. reflexivity. Qed.
Example sha512_a63 : hex (sha512 (repeat 97 63)) = "c1b0f5c6d3b03dfe4a2602e67242f54e344090b66e01100a469b129f583f016c7e27dddeaa438393dcc7ec54b0b57c9ba7af007f9b56db5f6fb677d972a31362"%string.
Proof. vm_compute. reflexivity. Qed.
Example sha512_a64 : hex (sha512 (repeat 97 64)) = "01d35c10c6c38c2dcf48f7eebb3235fb5ad74a65ec4cd016e2354c637a8fb49b695ef3c1d6f7ae4cd74d78cc9c9bcac9d4f23a73019998a7f73038a5c9b2dbde"%string.
Proof. vm_compute. reflexivity. Qed.
Example sha512_a65 : hex (sha512 (repeat 97 65)) = "b83086cd8494e55708ad7ecd82dfb4bca1bda61ecbb7caf0c68967902e709345e5d8305eb7ac0d588afc6cbb75161aa9c8c7e0ea986bd833dafe5e1ccd37345a"%string.
Proof. vm_compute. reflexivity. Qed.
Example sha512_a111 : hex (sha512 (repeat 97 111)) = "fa9121c7b32b9e01733d034cfc78cbf67f926c7ed83e82200ef86818196921760b4beff48404df811b953828274461673c68d04e297b0eb7b2b4d60fc6b566a2"%string.
Proof. vm_compute. reflexivity. Qed.
Example sha512_a112 : hex (sha512 (repeat 97 112)) = "c01d080efd492776a1c43bd23dd99d0a2e626d481e16782e75d54c2503b5dc32bd05f0f1ba33e568b88fd2d970929b719ecbb152f58f130a407c8830604b70ca"%string.
Proof. vm_compute. reflexivity. Qed.
Example sha512_a119 : hex (sha512 (repeat 97 119)) = "130396a75cb483f2eee8c56d8a668bb3d2641f5243212c0bee2bd33da096ad9eb8179fe18f9eaacf76e09fae9de4c3f14ba13341e345be05bf76c182cc3468cb"%string.
Proof. vm_compute. reflexivity. Qed.
Example sha512_a120 : hex (sha512 (repeat 97 120)) = "f241de612b01aa2fa3cf01531d2a8e5e17fc761dfd48a704a834a47f57d6eade7804ecc39be42fdef16ec6adeaf7c01c2fd0c4cc97d3860907cfa4a3b36d0c05"%string.
Proof. vm_compute. reflexivity. Qed.
Example sha512_a127 : hex (sha512 (repeat 97 127)) = "828613968b501dc00a97e08c73b118aa8876c26b8aac93df128502ab360f91bab50a51e088769a5c1eff4782ace147dce3642554199876374291f5d921629502"%string.
Proof. vm_compute. reflexivity. Qed.
Example sha512_a128 : hex (sha512 (repeat 97 128)) = "b73d1929aa615934e61a871596b3f3b33359f42b8175602e89f7e06e5f658a243667807ed300314b95cacdd579f3e33abdfbe351909519a846d465c59582f321"%string.
Proof. vm_compute. reflexivity. Qed.
Example sha512_a129 : hex (sha512 (repeat 97 129)) = "4f681e0bd53cda4b5a2041cc8a06f2eabde44fb16c951fbd5b87702f07aeab611565b19c47fde30587177ebb852e3971bbd8d3fd30da18d71037dfbd98420429"%string.
Proof. vm_compute. reflexivity. Qed.
Example sha512_a1000 : hex (sha512 (repeat 97 1000)) = "67ba5535a46e3f86dbfbed8cbbaf0125c76ed549ff8b0b9e03e0c88cf90fa634fa7b12b47d77b694de488ace8d9a65967dc96df599727d3292a8d9d447709c97"%string.
Proof. vm_compute. reflexivity. Qed.
Example sha512_all_octets : hex (sha512 (map N.of_nat (seq 0 256))) = "1e7b80bc8edc552c8feeb2780e111477e5bc70465fac1a77b29b35980c3f0ce4a036a6c9462036824bd56801e62af7e9feba5c22ed8a5af877bf7de117dcac6d"%string.
Proof. vm_compute. reflexivity. Qed.
